import Xp.Proofs.C01
import Xp.Model.C02World
/-
C02, XR world with a third party between two API calls (`Xp.Model.C02World`): proofs.

 * `Disc m p` — a purely syntactic discipline of a program: along every path, a label clean-up
   Update, a Delete or a merge patch is addressed only to a reference that an earlier Get of
   the same run returned not controlled by somebody else. `disc_reconcile`: both composers
   (the unchanged programs of `Xp.C01`) obey it, for every function output, template list,
   generated name and loop order.
 * `Inv` — the fence the API server provides: a composed resource that is controlled by
   somebody else and of which the reconcile holds a copy is stale (its resourceVersion has
   moved on). Kept by every request and by every third party obeying `Rely`.
 * `interference_guarantees` puts them together for every environment, fault plan and mode.
-/
namespace Xp.C02World
open Xp Xp.C01

/-! ### replies -/

/-- replies the API server can give: a Get returns the object asked for -/
def respOK : Req → Resp → Prop
  | .getObj k n, .found o => o.kind = k ∧ o.name = n
  | .getCached k n, .found o => o.kind = k ∧ o.name = n
  | _, _ => True

theorem readFound_err (r : Req) : readFound r .err = none := by cases r <;> rfl
theorem readFound_conflict (r : Req) : readFound r .conflict = none := by cases r <;> rfl

theorem errResp_cases (o : Outcome) (r : Req) : sem.errResp o r = .err ∨ sem.errResp o r = .conflict := by
  simp only [sem, C01.sem]
  cases o <;> simp

theorem mineAfter_errResp (m : List Ref) (o : Outcome) (r : Req) : mineAfter m r (sem.errResp o r) = m := by
  rcases errResp_cases o r with h | h <;> simp [mineAfter, h, readFound_err, readFound_conflict]

theorem respOK_errResp (o : Outcome) (r : Req) : respOK r (sem.errResp o r) := by
  rcases errResp_cases o r with h | h <;> rw [h] <;> cases r <;> simp [respOK]

theorem mem_mineAfter {m : List Ref} {r : Req} {resp : Resp} {x : Ref} :
    x ∈ mineAfter m r resp ↔ x ∈ m ∨ readFound r resp = some x := by
  unfold mineAfter
  cases h : readFound r resp with
  | none => simp
  | some y =>
    by_cases hy : y ∈ m
    · simp only [hy, if_true, Option.some.injEq]
      constructor
      · exact Or.inl
      · rintro (h1 | h1)
        · exact h1
        · exact h1 ▸ hy
    · simp only [hy, if_false, List.mem_cons, Option.some.injEq]
      constructor
      · rintro (h1 | h1)
        · exact Or.inr h1.symm
        · exact Or.inl h1
      · rintro (h1 | h1)
        · exact Or.inr h1
        · exact Or.inl h1.symm

theorem readFound_write {r : Req} (h : ∀ k n, r ≠ .getObj k n ∧ r ≠ .getCached k n) (resp : Resp) :
    readFound r resp = none := by
  cases r <;> first | rfl | (exfalso; first | exact (h _ _).1 rfl | exact (h _ _).2 rfl)

/-! ### the discipline -/

/-- along every path of `p`, started with the ghost `m`, every request that writes a composed
resource past the API server's own ownership checks is addressed to a reference in the ghost -/
def Disc : List Ref → P → Prop
  | _, .ret _ => True
  | m, .call r c => (∀ x, target r = some x → x ∈ m) ∧ ∀ resp, respOK r resp → Disc (mineAfter m r resp) (c resp)

theorem disc_mono {p : P} : ∀ {m m' : List Ref}, Disc m p → (∀ x ∈ m, x ∈ m') → Disc m' p := by
  induction p with
  | ret a => intro _ _ _ _; trivial
  | call r c ih =>
    intro m m' h hs
    refine ⟨fun x hx => hs x (h.1 x hx), ?_⟩
    intro resp hok
    apply ih resp (h.2 resp hok)
    intro x hx
    rcases mem_mineAfter.mp hx with h1 | h1
    · exact mem_mineAfter.mpr (Or.inl (hs x h1))
    · exact mem_mineAfter.mpr (Or.inr h1)

theorem disc_of_issues {p : P} (h : Issues (fun r => target r = none) p) : ∀ m, Disc m p := by
  induction h with
  | ret a => intro _; trivial
  | call r c hq _ ih =>
    intro m
    exact ⟨(by intro x hx; rw [hq] at hx; cases hx), fun resp _ => ih resp _⟩

theorem issues_onErrorO (l : Option Nat) : Issues (fun r => target r = none) (onErrorO l) := by
  unfold onErrorO
  refine Issues.call _ _ rfl ?_
  intro x; cases x <;> exact Issues.ret _

theorem disc_onErrorO (m : List Ref) (l : Option Nat) : Disc m (onErrorO l) := disc_of_issues (issues_onErrorO l) m
theorem disc_onError (m : List Ref) (l : Nat) : Disc m (onError l) := disc_onErrorO m _
theorem disc_onConflict (m : List Ref) : Disc m onConflict := trivial

theorem disc_finish (m : List Ref) (l : Nat) (b : Bool) : Disc m (finish l b) := by
  apply disc_of_issues
  unfold finish
  refine Issues.call _ _ rfl ?_
  intro x; cases x <;> exact Issues.ret _

/-- a write call: the ghost is what it was when the continuation runs -/
theorem disc_wcall (m : List Ref) (lrv : Nat) (r : Req) (k : Resp → P)
    (hr : ∀ k n, r ≠ .getObj k n ∧ r ≠ .getCached k n)
    (ht : ∀ x, target r = some x → x ∈ m) (hk : ∀ resp, Disc m (k resp)) : Disc m (wcall lrv r k) := by
  unfold wcall
  refine ⟨ht, ?_⟩
  intro resp _
  have hm : mineAfter m r resp = m := by simp [mineAfter, readFound_write hr]
  rw [hm]
  cases resp <;> first | exact disc_onError m lrv | exact disc_onConflict m | exact hk _

/-! ### function composer -/

theorem disc_observeFn (lrv : Nat) (k : Obs → P) : ∀ (refs : List Ref) (acc : Obs) (m : List Ref),
    (∀ p ∈ acc, key p.2 ∈ m) →
    (∀ m' obs, (∀ x ∈ m, x ∈ m') → (∀ p ∈ obs, key p.2 ∈ m') → Disc m' (k obs)) →
    Disc m (observeFn lrv refs acc k) := by
  intro refs
  induction refs with
  | nil => intro acc m hacc hk; simp only [observeFn]; exact hk m acc (fun _ h => h) hacc
  | cons r rs ih =>
    intro acc m hacc hk
    simp only [observeFn]
    split
    · exact ih acc m hacc hk
    · -- what follows a Get that returned `o`
      have hfound : ∀ (rq : Req) (o : CObj), respOK rq (.found o) →
          (rq = .getObj r.kind r.name ∨ rq = .getCached r.kind r.name) →
          Disc (mineAfter m rq (.found o))
            (if o.ctrl = .other then observeFn lrv rs acc k
             else if o.annot = "" then onError lrv
             else observeFn lrv rs (obsInsert acc o.annot o) k) := by
        intro rq o hok hrq
        have hsub : ∀ x ∈ m, x ∈ mineAfter m rq (.found o) := fun x hx => mem_mineAfter.mpr (Or.inl hx)
        split
        · exact ih acc _ (fun p hp => hsub _ (hacc p hp)) (fun m' obs hs => hk m' obs (fun x hx => hs x (hsub x hx)))
        · rename_i hc
          split
          · exact disc_onError _ _
          · apply ih _ _ _ (fun m' obs hs => hk m' obs (fun x hx => hs x (hsub x hx)))
            intro p hp
            rcases mem_obsInsert hp with h1 | h1
            · exact hsub _ (hacc p h1)
            · subst h1
              apply mem_mineAfter.mpr
              right
              rcases hrq with rfl | rfl <;> simp only [respOK] at hok <;> simp [readFound, hc, key, hok.1, hok.2]
      refine ⟨(by intro x hx; cases hx), ?_⟩
      intro resp hok
      cases resp with
      | found o => exact hfound _ o hok (Or.inr rfl)
      | notFound =>
        have hm : mineAfter m (.getCached r.kind r.name) .notFound = m := rfl
        rw [hm]
        refine ⟨(by intro x hx; cases hx), ?_⟩
        intro resp2 hok2
        cases resp2 with
        | found o => exact hfound _ o hok2 (Or.inl rfl)
        | notFound => exact ih acc m hacc hk
        | _ => exact disc_onError _ _
      | _ => exact disc_onError _ _

theorem disc_renderFn (lrv : Nat) (obs : Obs) (k : List Named → P) : ∀ (ds : List Desired) (fresh : List String)
    (acc : List Named) (m : List Ref),
    (∀ m' named, (∀ x ∈ m, x ∈ m') → Disc m' (k named)) → Disc m (renderFn lrv obs ds fresh acc k) := by
  intro ds
  induction ds with
  | nil => intro fresh acc m hk; simp only [renderFn]; exact hk m _ (fun _ h => h)
  | cons d ds ih =>
    intro fresh acc m hk
    simp only [renderFn]
    split
    · exact ih _ _ _ hk
    · split
      · exact disc_onError _ _
      · refine ⟨(by intro x hx; cases hx), ?_⟩
        intro resp _
        cases resp with
        | notFound => exact ih _ _ _ hk
        | _ => exact disc_onError _ _

theorem disc_gcFn (lrv : Nat) (k : P) : ∀ (os : List CObj) (m : List Ref),
    (∀ o ∈ os, key o ∈ m) → Disc m k → Disc m (gcFn lrv os k) := by
  intro os
  induction os with
  | nil => intro m _ hk; simpa only [gcFn] using hk
  | cons o os ih =>
    intro m hos hk
    simp only [gcFn]
    have ho : (⟨o.kind, o.name⟩ : Ref) ∈ m := hos o (List.mem_cons_self ..)
    apply disc_wcall m lrv _ _ (by intro _ _; constructor <;> intro h <;> cases h)
    · intro x hx; simp only [target, Option.some.injEq] at hx; exact hx ▸ ho
    intro _
    apply disc_wcall m lrv _ _ (by intro _ _; constructor <;> intro h <;> cases h)
    · intro x hx; simp only [target, Option.some.injEq] at hx; exact hx ▸ ho
    intro _
    exact ih m (fun o' ho' => hos o' (List.mem_cons_of_mem _ ho')) hk

theorem disc_applyFn (lrv : Nat) (k : Bool → P) : ∀ (ns : List Named) (b : Bool) (m : List Ref),
    (∀ b', Disc m (k b')) → Disc m (applyFn lrv ns b k) := by
  intro ns
  induction ns with
  | nil => intro b m hk; simpa only [applyFn] using hk b
  | cons n ns ih =>
    intro b m hk
    simp only [applyFn]
    apply disc_wcall m lrv _ _ (by intro _ _; constructor <;> intro h <;> cases h)
    · intro x hx; cases hx
    intro resp
    cases resp <;> exact ih _ m hk

theorem disc_composeFn (lrv : Nat) (refs : List Ref) (out : Obs → FnOut) (ch : Choices)
    (hch : ∀ l x, x ∈ ch.gcOrder l → x ∈ l) (m : List Ref) : Disc m (composeFn lrv refs out ch) := by
  unfold composeFn
  apply disc_observeFn lrv _ refs [] m (by intro p hp; cases hp)
  intro m1 obs _ hobs
  split
  · exact disc_onError _ _
  · rename_i ds _
    apply disc_renderFn
    intro m2 named h12
    apply disc_gcFn
    · intro o ho
      have := hch _ _ ho
      simp only [List.mem_map, List.mem_filter] at this
      obtain ⟨p, ⟨hp, _⟩, rfl⟩ := this
      exact h12 _ (hobs p hp)
    apply disc_wcall m2 lrv _ _ (by intro _ _; constructor <;> intro h <;> cases h)
    · intro x hx; cases hx
    intro _
    apply disc_applyFn
    intro synced
    refine ⟨(by intro x hx; cases hx), ?_⟩
    intro resp _
    cases resp <;> first | exact disc_finish _ _ _ | exact disc_onConflict _ | exact disc_onErrorO _ _

/-! ### P&T composer -/

theorem disc_associatePT (lrv : Nat) (tmpl : List Desired) (k : Assoc → P) : ∀ (refs : List Ref) (acc : Assoc) (m : List Ref),
    (∀ m' a, (∀ x ∈ m, x ∈ m') → Disc m' (k a)) → Disc m (associatePT lrv tmpl refs acc k) := by
  intro refs
  induction refs with
  | nil => intro acc m hk; simp only [associatePT]; exact hk m acc (fun _ h => h)
  | cons r rs ih =>
    intro acc m hk
    simp only [associatePT]
    split
    · exact ih acc m hk
    · have hfound : ∀ (rq : Req) (o : CObj), respOK rq (.found o) →
          (rq = .getObj r.kind r.name ∨ rq = .getCached r.kind r.name) →
          Disc (mineAfter m rq (.found o))
            (if o.annot = "" then onError lrv
             else if (tmpl.any fun x => decide (x.rname = o.annot)) = true then associatePT lrv tmpl rs (assocInsert acc o.annot r) k
             else if o.ctrl = .other then onError lrv
             else wcall lrv (.gcUpdate o.kind o.name) fun _ => wcall lrv (.delete o.kind o.name) fun _ => associatePT lrv tmpl rs acc k) := by
        intro rq o hok hrq
        have hsub : ∀ x ∈ m, x ∈ mineAfter m rq (.found o) := fun x hx => mem_mineAfter.mpr (Or.inl hx)
        have hk' : ∀ m' a, (∀ x ∈ mineAfter m rq (.found o), x ∈ m') → Disc m' (k a) :=
          fun m' a hs => hk m' a (fun x hx => hs x (hsub x hx))
        split
        · exact disc_onError _ _
        · split
          · exact ih _ _ hk'
          · split
            · exact disc_onError _ _
            · rename_i hc
              have ho : (⟨o.kind, o.name⟩ : Ref) ∈ mineAfter m rq (.found o) := by
                apply mem_mineAfter.mpr
                right
                rcases hrq with rfl | rfl <;> simp only [respOK] at hok <;> simp [readFound, hc, hok.1, hok.2]
              apply disc_wcall _ lrv _ _ (by intro _ _; constructor <;> intro h <;> cases h)
              · intro x hx; simp only [target, Option.some.injEq] at hx; exact hx ▸ ho
              intro _
              apply disc_wcall _ lrv _ _ (by intro _ _; constructor <;> intro h <;> cases h)
              · intro x hx; simp only [target, Option.some.injEq] at hx; exact hx ▸ ho
              intro _
              exact ih _ _ hk'
      refine ⟨(by intro x hx; cases hx), ?_⟩
      intro resp hok
      cases resp with
      | found o => exact hfound _ o hok (Or.inr rfl)
      | notFound =>
        have hm : mineAfter m (.getCached r.kind r.name) .notFound = m := rfl
        rw [hm]
        refine ⟨(by intro x hx; cases hx), ?_⟩
        intro resp2 hok2
        cases resp2 with
        | found o => exact hfound _ o hok2 (Or.inl rfl)
        | notFound => exact ih acc m hk
        | _ => exact disc_onError _ _
      | _ => exact disc_onError _ _

theorem disc_renderPT (lrv : Nat) (a : Assoc) (k : List Rendered → P) : ∀ (ds : List Desired) (fresh : List String)
    (acc : List Rendered) (m : List Ref),
    (∀ m' rs, (∀ x ∈ m, x ∈ m') → Disc m' (k rs)) → Disc m (renderPT lrv a ds fresh acc k) := by
  intro ds
  induction ds with
  | nil => intro fresh acc m hk; simp only [renderPT]; exact hk m _ (fun _ h => h)
  | cons d ds ih =>
    intro fresh acc m hk
    simp only [renderPT]
    split
    · split
      · exact ih _ _ _ hk
      · exact disc_onError _ _
    · split
      · exact ih _ _ _ hk
      · refine ⟨(by intro x hx; cases hx), ?_⟩
        intro resp _
        have hk' : ∀ (rq : Req) m' rs, (∀ x ∈ mineAfter m rq resp, x ∈ m') → Disc m' (k rs) :=
          fun rq m' rs hs => hk m' rs (fun x hx => hs x (mem_mineAfter.mpr (Or.inl hx)))
        cases resp <;> exact ih _ _ _ (hk' _)

theorem disc_applyPT (lrv : Nat) (k : Bool → P) : ∀ (rs : List Rendered) (b : Bool) (m : List Ref),
    (∀ m' b', (∀ x ∈ m, x ∈ m') → Disc m' (k b')) → Disc m (applyPT lrv rs b k) := by
  intro rs
  induction rs with
  | nil => intro b m hk; simp only [applyPT]; exact hk m b (fun _ h => h)
  | cons r rs ih =>
    intro b m hk
    simp only [applyPT]
    split
    · exact ih _ m hk
    · refine ⟨(by intro x hx; cases hx), ?_⟩
      intro resp _
      have hsub : ∀ x ∈ m, x ∈ mineAfter m (.getCached r.d.kind r.name) resp := fun x hx => mem_mineAfter.mpr (Or.inl hx)
      have hk' : ∀ m' b', (∀ x ∈ mineAfter m (.getCached r.d.kind r.name) resp, x ∈ m') → Disc m' (k b') :=
        fun m' b' hs => hk m' b' (fun x hx => hs x (hsub x hx))
      cases resp with
      | notFound =>
        apply disc_wcall _ lrv _ _ (by intro _ _; constructor <;> intro h <;> cases h)
        · intro x hx; cases hx
        intro resp2
        cases resp2 <;> first | exact disc_onError _ _ | exact ih _ _ hk'
      | found o =>
        simp only
        split
        · exact disc_onError _ _
        · rename_i hc
          apply disc_wcall _ lrv _ _ (by intro _ _; constructor <;> intro h <;> cases h)
          · intro x hx
            simp only [target, Option.some.injEq] at hx
            subst hx
            exact mem_mineAfter.mpr (Or.inr (by simp [readFound, hc]))
          intro resp2
          cases resp2 <;> first | exact disc_onError _ _ | exact ih _ _ hk'
      | _ => exact disc_onError _ _

theorem disc_composePT (lrv : Nat) (refs : List Ref) (tmpl : List Desired) (fresh : List String) (ver : String)
    (m : List Ref) : Disc m (composePT lrv refs tmpl fresh ver) := by
  unfold composePT
  apply disc_associatePT
  intro m1 a _
  apply disc_renderPT
  intro m2 rs _
  apply disc_wcall m2 lrv _ _ (by intro _ _; constructor <;> intro h <;> cases h)
  · intro x hx; cases hx
  intro rsp
  apply disc_applyPT
  intro m3 synced _
  refine ⟨(by intro x hx; cases hx), ?_⟩
  intro resp _
  have hm : mineAfter m3 .getXR resp = m3 := by simp [mineAfter, readFound]
  rw [hm]
  cases resp with
  | xr _ _ _ =>
    apply disc_wcall m3 _ _ _ (by intro _ _; constructor <;> intro h <;> cases h)
    · intro x hx; cases hx
    intro _
    exact disc_finish _ _ _
  | _ => exact disc_onError _ _

/-- what the discipline asks of the nondeterministic choices: the garbage-collection loop
iterates over (part of) the map it was given -/
def ModeDisc : Mode → Prop
  | .fn _ ch => ∀ l x, x ∈ ch.gcOrder l → x ∈ l
  | .pt _ _ _ => True

theorem disc_reconcile_of_body (md : Mode)
    (hbody : ∀ (m' : List Ref) (lrv : Nat) (refs : List Ref),
      Disc m' (match md with
        | .fn out ch => composeFn lrv refs out ch
        | .pt tmpl fresh ver => composePT lrv refs tmpl fresh ver)) (m : List Ref) : Disc m (reconcile md) := by
  unfold reconcile
  refine ⟨(by intro x hx; cases hx), ?_⟩
  intro resp _
  have hmm : mineAfter m .getXR resp = m := by simp [mineAfter, readFound]
  rw [hmm]
  cases resp with
  | xr fin rv refs =>
    simp only
    split
    · exact hbody _ _ _
    · refine ⟨(by intro x hx; cases hx), ?_⟩
      intro resp2 _
      have hm2 : mineAfter m (.addFinalizer rv) resp2 = m := by simp [mineAfter, readFound]
      rw [hm2]
      cases resp2 <;> (try dsimp only) <;> first | exact hbody _ _ _ | exact disc_onConflict _ | exact disc_onError _ _
  | _ => trivial

/-- **Both composers obey the discipline**, whatever the function pipeline returns, whatever
the templates, the generated names and the loop orders are. -/
theorem disc_reconcile (md : Mode) (hm : ModeDisc md) (m : List Ref) : Disc m (reconcile md) := by
  apply disc_reconcile_of_body
  intro m' lrv refs
  cases md with
  | fn out ch => exact disc_composeFn lrv refs out ch hm m'
  | pt tmpl fresh ver => exact disc_composePT lrv refs tmpl fresh ver m'

/-! ### the API server's side: what every request and every third party keep -/

/-- what the third party may do between two calls: anything, as long as the API server bumps the
resourceVersion of what it writes (an object that is foreign now and was not there like this
before is stale), copies do not become current again by themselves, object keys stay unique,
and the reconcile's own bookkeeping is not its to touch -/
structure Rely (w w' : W) : Prop where
  mine : w'.mine = w.mine
  stale : ∀ x ∈ w.stale, x ∈ w'.stale
  nodup : (w.base.objs.map key).Nodup → (w'.base.objs.map key).Nodup
  foreign : ∀ o ∈ w'.base.objs, o.ctrl = .other → o ∈ w.base.objs ∨ key o ∈ w'.stale

theorem Rely.rfl (w : W) : Rely w w := ⟨by rfl, fun _ h => h, fun h => h, fun _ h _ => Or.inl h⟩

/-- the fence: object keys are unique, and a composed resource controlled by somebody else of
which the reconcile holds a copy has moved on since that copy was read -/
structure Inv (w : W) : Prop where
  nodup : (w.base.objs.map key).Nodup
  fence : ∀ o ∈ w.base.objs, o.ctrl = .other → key o ∈ w.mine → key o ∈ w.stale

theorem inv_rely {w w' : W} (h : Inv w) (r : Rely w w') : Inv w' := by
  refine ⟨r.nodup h.nodup, ?_⟩
  intro o ho hc hm
  rcases r.foreign o ho hc with h1 | h1
  · exact r.stale _ (h.fence o h1 hc (r.mine ▸ hm))
  · exact h1

/-- no request creates a foreign object: a foreign object after the call has a foreign
predecessor with the same key -/
theorem exec_foreign_pred (s : St) (r : Req) : ∀ o' ∈ (C01.exec s r).1.objs, o'.ctrl = .other →
    ∃ o ∈ s.objs, o.ctrl = .other ∧ key o = key o' := by
  intro o' ho' hc
  have hsame : (C01.exec s r).1.objs = s.objs → ∃ o ∈ s.objs, o.ctrl = .other ∧ key o = key o' :=
    fun h => ⟨o', h ▸ ho', hc, rfl⟩
  have hmap : ∀ (k n : String) (f : CObj → CObj), o' ∈ mapObj s.objs k n f →
      (∀ o, key (f o) = key o) → (∀ o, (f o).ctrl = .other → o.ctrl = .other) →
      ∃ o ∈ s.objs, o.ctrl = .other ∧ key o = key o' := by
    intro k n f hm hk hf
    obtain ⟨o0, h0, rfl⟩ := mem_mapObj.mp hm
    split at hc
    · exact ⟨o0, h0, hf _ hc, by rw [if_pos (by assumption), hk]⟩
    · exact ⟨o0, h0, hc, by rw [if_neg (by assumption)]⟩
  cases r with
  | delete k n =>
    simp only [C01.exec] at ho'
    split at ho'
    · split at ho'
      · exact hmap k n _ ho' (fun _ => rfl) (fun _ h => h)
      · exact ⟨o', (mem_removeObj.mp ho').1, hc, rfl⟩
    · exact ⟨o', ho', hc, rfl⟩
  | apply k n a c =>
    simp only [C01.exec] at ho'
    split at ho'
    · exact ⟨o', ho', hc, rfl⟩
    · split at ho'
      · split at ho'
        · exact ⟨o', ho', hc, rfl⟩
        · exact hmap k n _ ho' (fun _ => rfl) (fun _ h => by simp at h)
      · rcases List.mem_append.mp ho' with h | h
        · exact ⟨o', h, hc, rfl⟩
        · simp at h; subst h; simp at hc
  | create k n a c =>
    simp only [C01.exec] at ho'
    split at ho'
    · exact ⟨o', ho', hc, rfl⟩
    · split at ho'
      · exact ⟨o', ho', hc, rfl⟩
      · rcases List.mem_append.mp ho' with h | h
        · exact ⟨o', h, hc, rfl⟩
        · simp at h; subst h; simp at hc
  | mergePatch k n a c =>
    simp only [C01.exec] at ho'
    split at ho'
    · split at ho' <;> exact ⟨o', ho', hc, rfl⟩
    · split at ho'
      · split at ho'
        · exact ⟨o', ho', hc, rfl⟩
        · exact hmap k n _ ho' (fun _ => rfl) (fun _ h => by simp at h)
      · exact ⟨o', ho', hc, rfl⟩
  | getXR => exact hsame rfl
  | addFinalizer rv => apply hsame; simp only [C01.exec]; split <;> rfl
  | getObj k n => apply hsame; simp only [C01.exec]; split <;> rfl
  | getCached k n => apply hsame; simp only [C01.exec]; split <;> (try split) <;> rfl
  | gcUpdate k n => apply hsame; simp only [C01.exec]; split <;> rfl
  | patchRefs v rs => apply hsame; simp only [C01.exec]; split <;> rfl
  | updateXR rv v rs => apply hsame; simp only [C01.exec]; split <;> (try split) <;> rfl
  | patchXR => exact hsame rfl
  | statusPatch => exact hsame rfl
  | statusUpdate rv => apply hsame; simp only [C01.exec]; split <;> rfl

/-- object keys stay unique -/
theorem exec_nodup (s : St) (r : Req) (hn : (s.objs.map key).Nodup) : ((C01.exec s r).1.objs.map key).Nodup := by
  have happ : ∀ (k n : String) (x : CObj), findObj s.objs k n = none → x.kind = k → x.name = n →
      ((s.objs ++ [x]).map key).Nodup := by
    intro k n x hf hk hnm
    rw [List.map_append, List.nodup_append]
    refine ⟨hn, by simp, ?_⟩
    intro a ha b hb
    simp at hb
    subst hb
    obtain ⟨o, ho, rfl⟩ := List.mem_map.mp ha
    intro he
    exact findObj_none hf o ho (by simp [key] at he; exact ⟨he.1.trans hk, he.2.trans hnm⟩)
  cases r with
  | delete k n =>
    simp only [C01.exec]
    split
    · split
      · (simp only; rw [map_key_mapObj (by intro _; rfl)]; exact hn)
      · exact nodup_removeObj hn
    · exact hn
  | apply k n a c =>
    simp only [C01.exec]
    split
    · exact hn
    · split
      · split
        · exact hn
        · (simp only; rw [map_key_mapObj (by intro _; rfl)]; exact hn)
      · exact happ k n _ (by assumption) rfl rfl
  | create k n a c =>
    simp only [C01.exec]
    split
    · exact hn
    · split
      · exact hn
      · exact happ k n _ (by assumption) rfl rfl
  | mergePatch k n a c =>
    simp only [C01.exec]
    split
    · split <;> exact hn
    · split
      · split
        · exact hn
        · (simp only; rw [map_key_mapObj (by intro _; rfl)]; exact hn)
      · exact hn
  | getXR => exact hn
  | addFinalizer rv => simp only [C01.exec]; split <;> exact hn
  | getObj k n => simp only [C01.exec]; split <;> exact hn
  | getCached k n => simp only [C01.exec]; split <;> (try split) <;> exact hn
  | gcUpdate k n => simp only [C01.exec]; split <;> exact hn
  | patchRefs v rs => simp only [C01.exec]; split <;> exact hn
  | updateXR rv v rs => simp only [C01.exec]; split <;> (try split) <;> exact hn
  | patchXR => exact hn
  | statusPatch => exact hn
  | statusUpdate rv => simp only [C01.exec]; split <;> exact hn

/-- a Get answers with an object of the store that has the key asked for -/
theorem exec_read_found (s : St) (r : Req) (o : CObj) (h : (C01.exec s r).2 = .found o) :
    o ∈ s.objs ∧ ((∃ k n, r = .getObj k n ∧ o.kind = k ∧ o.name = n) ∨ (∃ k n, r = .getCached k n ∧ o.kind = k ∧ o.name = n)) := by
  cases r with
  | getObj k n =>
    simp only [C01.exec] at h
    split at h
    · rename_i o1 hf
      simp at h; subst h
      exact ⟨(findObj_some hf).1, Or.inl ⟨k, n, rfl, (findObj_some hf).2⟩⟩
    · simp at h
  | getCached k n =>
    simp only [C01.exec] at h
    split at h
    · simp at h
    · split at h
      · rename_i o1 hf
        simp at h; subst h
        exact ⟨(findObj_some hf).1, Or.inr ⟨k, n, rfl, (findObj_some hf).2⟩⟩
      · simp at h
  | getXR => simp [C01.exec] at h
  | addFinalizer rv => simp only [C01.exec] at h; split at h <;> simp at h
  | gcUpdate k n => simp only [C01.exec] at h; split at h <;> simp at h
  | delete k n => simp only [C01.exec] at h; split at h <;> (try split at h) <;> simp at h
  | patchRefs v rs => simp only [C01.exec] at h; split at h <;> simp at h
  | updateXR rv v rs => simp only [C01.exec] at h; split at h <;> (try split at h) <;> simp at h
  | apply k n a c => simp only [C01.exec] at h; split at h <;> (try split at h) <;> (try split at h) <;> simp at h
  | create k n a c => simp only [C01.exec] at h; split at h <;> (try split at h) <;> simp at h
  | mergePatch k n a c => simp only [C01.exec] at h; split at h <;> (try split at h) <;> (try split at h) <;> simp at h
  | patchXR => simp [C01.exec] at h
  | statusPatch => simp [C01.exec] at h
  | statusUpdate rv => simp only [C01.exec] at h; split at h <;> simp at h

/-! ### `Xp.C02World.exec`: ghost bookkeeping and the fence -/

theorem exec_mine (w : W) (r : Req) : (exec w r).1.mine = mineAfter w.mine r (exec w r).2 := by
  cases r <;> simp only [exec, lift] <;> (repeat' split) <;> simp [mineAfter, readFound]

theorem lift_resp (w : W) (r : Req) : (lift w r).2 = (C01.exec w.base r).2 := rfl
theorem lift_base (w : W) (r : Req) : (lift w r).1.base = (C01.exec w.base r).1 := rfl

theorem exec_respOK (w : W) (r : Req) : respOK r (exec w r).2 := by
  cases h : (exec w r).2 with
  | found o =>
    have hr : ((∃ k n, r = .getObj k n) ∨ (∃ k n, r = .getCached k n)) → respOK r (.found o) := by
      rintro (⟨k, n, rfl⟩ | ⟨k, n, rfl⟩) <;>
      · simp only [exec, lift] at h
        obtain ⟨_, h2⟩ := exec_read_found w.base _ o h
        rcases h2 with ⟨k', n', he, hk, hn⟩ | ⟨k', n', he, hk, hn⟩ <;> cases he <;> exact ⟨hk, hn⟩
    cases r <;> first | exact hr (Or.inl ⟨_, _, rfl⟩) | exact hr (Or.inr ⟨_, _, rfl⟩) | simp [respOK]
  | _ => cases r <;> simp [respOK]

/-- every request keeps the fence -/
theorem exec_inv (w : W) (r : Req) (h : Inv w) : Inv (exec w r).1 := by
  -- a request answered by `Xp.C01.exec` that is not a Get: the ghost is untouched
  have hwrite : (∀ k n, r ≠ .getObj k n ∧ r ≠ .getCached k n) →
      Inv ({ (lift w r).1 with mine := mineAfter w.mine r (lift w r).2, stale := staleAfter w.stale r (lift w r).2 }) := by
    intro hr
    have h1 : mineAfter w.mine r (lift w r).2 = w.mine := by simp [mineAfter, readFound_write hr]
    have h2 : staleAfter w.stale r (lift w r).2 = w.stale := by simp [staleAfter, readFound_write hr]
    rw [h1, h2]
    refine ⟨exec_nodup w.base r h.nodup, ?_⟩
    intro o' ho' hc hm
    obtain ⟨o, ho, hoc, hk⟩ := exec_foreign_pred w.base r o' ho' hc
    exact hk ▸ h.fence o ho hoc (hk ▸ hm)
  have hread : ((∃ k n, r = .getObj k n) ∨ (∃ k n, r = .getCached k n)) →
      Inv ({ (lift w r).1 with mine := mineAfter w.mine r (lift w r).2, stale := staleAfter w.stale r (lift w r).2 }) := by
    intro hr
    have hb : (C01.exec w.base r).1.objs = w.base.objs := by
      rcases hr with ⟨k, n, rfl⟩ | ⟨k, n, rfl⟩ <;> simp only [C01.exec] <;> (repeat' split) <;> rfl
    refine ⟨by simp only [lift]; rw [hb]; exact h.nodup, ?_⟩
    intro o' ho' hc hm
    simp only [lift] at ho' hm ⊢
    rw [hb] at ho'
    cases hrf : readFound r (C01.exec w.base r).2 with
    | none =>
      simp only [mineAfter, staleAfter, hrf] at hm ⊢
      exact h.fence o' ho' hc hm
    | some x =>
      -- the Get returned an object `o` of the store, not foreign, with key `x`
      have hx : ∃ o ∈ w.base.objs, o.ctrl ≠ .other ∧ key o = x := by
        cases hresp : (C01.exec w.base r).2 with
        | found o =>
          obtain ⟨hmem, h2⟩ := exec_read_found w.base r o hresp
          rw [hresp] at hrf
          rcases h2 with ⟨k, n, rfl, hk, hn⟩ | ⟨k, n, rfl, hk, hn⟩ <;>
          · simp only [readFound] at hrf
            split at hrf
            · cases hrf
            · rename_i hc'
              cases hrf
              exact ⟨o, hmem, hc', by simp [key, hk, hn]⟩
        | _ => rw [hresp] at hrf; rcases hr with ⟨k, n, rfl⟩ | ⟨k, n, rfl⟩ <;> simp [readFound] at hrf
      obtain ⟨o, ho, hoc, hko⟩ := hx
      have hne : key o' ≠ x := by
        intro he
        have := eq_of_key_eq h.nodup ho' ho (he.trans hko.symm)
        exact hoc (this ▸ hc)
      have hm' : key o' ∈ w.mine := by
        have := mem_mineAfter.mp hm
        rcases this with h1 | h1
        · exact h1
        · rw [hrf] at h1; exact absurd (Option.some.inj h1).symm hne
      simp only [staleAfter, hrf, List.mem_filter, decide_eq_true_eq]
      exact ⟨h.fence o' ho' hc hm', hne⟩
  cases r with
  | gcUpdate k n =>
    simp only [exec]
    split
    · exact h
    · have hb : (C01.exec w.base (.gcUpdate k n)).1 = w.base := exec_gcUpdate_state _ _ _
      simp only [lift, hb]
      exact h
  | mergePatch k n a c =>
    simp only [exec]
    split
    · split
      · refine ⟨by simp only; rw [map_key_mapObj (by intro _; rfl)]; exact h.nodup, ?_⟩
        intro o' ho' hc hm
        obtain ⟨o0, h0, rfl⟩ := mem_mapObj.mp ho'
        split at hc
        · simp at hc
        · rename_i hne
          rw [if_neg hne] at hm ⊢
          exact h.fence o0 h0 hc hm
      · have := hwrite (by intro _ _; constructor <;> intro h <;> cases h)
        simpa [mineAfter, staleAfter, readFound, lift] using this
    · have := hwrite (by intro _ _; constructor <;> intro h <;> cases h)
      simpa [mineAfter, staleAfter, readFound, lift] using this
  | getObj k n => exact hread (Or.inl ⟨k, n, rfl⟩)
  | getCached k n => exact hread (Or.inr ⟨k, n, rfl⟩)
  | getXR => exact hwrite (by intro _ _; constructor <;> intro h <;> cases h)
  | addFinalizer rv => exact hwrite (by intro _ _; constructor <;> intro h <;> cases h)
  | delete k n => exact hwrite (by intro _ _; constructor <;> intro h <;> cases h)
  | patchRefs v rs => exact hwrite (by intro _ _; constructor <;> intro h <;> cases h)
  | updateXR rv v rs => exact hwrite (by intro _ _; constructor <;> intro h <;> cases h)
  | apply k n a c => exact hwrite (by intro _ _; constructor <;> intro h <;> cases h)
  | create k n a c => exact hwrite (by intro _ _; constructor <;> intro h <;> cases h)
  | patchXR => exact hwrite (by intro _ _; constructor <;> intro h <;> cases h)
  | statusPatch => exact hwrite (by intro _ _; constructor <;> intro h <;> cases h)
  | statusUpdate rv => exact hwrite (by intro _ _; constructor <;> intro h <;> cases h)

/-! ### soundness of the discipline under interference -/

/-- guarantee of every own call: an unchecked write goes to a reference of the ghost -/
abbrev Guar : W → Req → Prop := fun t r => ∀ x, target r = some x → x ∈ t.mine

theorem disc_sound (p : P) : ∀ (m : List Ref) (w : W), Disc m p → w.mine = m →
    WpE sem Rely Guar p (fun _ _ => True) w := by
  induction p with
  | ret a => intro _ _ _ _; trivial
  | call r c ih =>
    intro m w hd hm s' hr
    have hm' : s'.mine = m := hr.mine.trans hm
    refine ⟨fun x hx => hm' ▸ hd.1 x hx, ?_, ?_, ?_⟩
    · apply ih _ _ _ (hd.2 _ (exec_respOK s' r))
      show (exec s' r).1.mine = _
      rw [exec_mine, hm']
    · apply ih _ m _ (by have := hd.2 _ (respOK_errResp .fail r); rwa [mineAfter_errResp] at this) hm'
    · apply ih _ m _ (by have := hd.2 _ (respOK_errResp .conflict r); rwa [mineAfter_errResp] at this) hm'

theorem issues_any (p : P) : Issues (fun _ => True) p := by
  induction p with
  | ret a => exact Issues.ret a
  | call r c ih => exact Issues.call r c trivial ih

/-- **Interference.** Whatever a third party obeying `Rely` does between the calls of one
reconcile (either composer, every function output / template list / generated name / loop
order, every fault plan): at the moment of every own call the fence `Inv` holds, and a label
clean-up Update, Delete or merge patch is addressed only to a composed resource that a Get of
this very reconcile returned not controlled by somebody else. -/
theorem interference_guarantees (md : Mode) (hmd : ModeDisc md) (env : Env W) (henv : ∀ k w, Rely w (env k w))
    (plan : Plan) (w : W) (hw : Inv w) :
    ∀ x ∈ ownE sem env plan 0 (reconcile md) w, Inv x.1 ∧ ∀ t, target x.2 = some t → t ∈ x.1.mine := by
  intro x hx
  have h1 := (wpE_sound sem Rely Guar env henv plan 0 (reconcile md) (fun _ _ => True) w
    (disc_sound _ w.mine w (disc_reconcile md hmd w.mine) rfl)).1 x hx
  have h2 := (wpE_sound sem Rely (fun s r => Inv s ∧ True) env henv plan 0 (reconcile md) (fun s _ => Inv s) w
    (wpE_of_issues sem Rely Inv (fun _ => True) (fun s r hs _ => exec_inv s r hs) (fun s s' hs hr => inv_rely hs hr)
      _ (issues_any _) w hw)).1 x hx
  exact ⟨h2.1, h1⟩

theorem foreignAt_iff (w : W) (x : Ref) : foreignAt w x = true ↔ ∃ o ∈ w.base.objs, key o = x ∧ o.ctrl = .other := by
  simp only [foreignAt, List.any_eq_true, Bool.and_eq_true, beq_iff_eq]
  constructor
  · rintro ⟨o, ho, ⟨hk, hn⟩, hc⟩; exact ⟨o, ho, by cases x; simp_all [key], hc⟩
  · rintro ⟨o, ho, hk, hc⟩; subst hk; exact ⟨o, ho, ⟨rfl, rfl⟩, hc⟩

/-- the adoption the correspondence harness performs is within the rely -/
theorem adopt_rely (k n : String) (w : W) : Rely w (adopt k n w) := by
  unfold adopt
  split
  · split
    · exact Rely.rfl w
    · refine ⟨rfl, fun x hx => List.mem_cons_of_mem _ hx, ?_, ?_⟩
      · intro hn; simp only; rw [map_key_mapObj (by intro _; rfl)]; exact hn
      · intro o' ho' hc
        obtain ⟨o0, h0, rfl⟩ := mem_mapObj.mp ho'
        split
        · rename_i hm
          right
          simp [key, hm.1, hm.2]
        · exact Or.inl h0
  · exact Rely.rfl w

theorem adoptAt_rely (i : Nat) (k n : String) : ∀ j w, Rely w (adoptAt i k n j w) := by
  intro j w
  unfold adoptAt
  split
  · exact adopt_rely k n w
  · exact Rely.rfl w

/-! ### what the guarantees mean for an object that is foreign at the moment of a write -/

theorem mem_mapObj_of_ne {objs : List CObj} {k n : String} {f : CObj → CObj} {o : CObj} (ho : o ∈ objs)
    (hne : ¬ (o.kind = k ∧ o.name = n)) : o ∈ mapObj objs k n f :=
  mem_mapObj.mpr ⟨o, ho, by rw [if_neg hne]⟩

/-- the optimistic-concurrency fence: the label clean-up Update of a composed resource that
the reconcile read as not foreign and that is foreign NOW is refused (409), nothing is written -/
theorem update_refused_on_foreign (w : W) (k n : String) (hi : Inv w) (hm : (⟨k, n⟩ : Ref) ∈ w.mine)
    (hf : foreignAt w ⟨k, n⟩ = true) : exec w (.gcUpdate k n) = (w, .conflict) := by
  obtain ⟨o, ho, hk, hc⟩ := (foreignAt_iff w _).mp hf
  have hs : (⟨k, n⟩ : Ref) ∈ w.stale := hk ▸ hi.fence o ho hc (hk ▸ hm)
  have hsome : (findObj w.base.objs k n).isSome = true := by
    cases hfo : findObj w.base.objs k n with
    | some _ => rfl
    | none => exact absurd (by simpa [key] using hk) (findObj_none hfo o ho)
  simp [exec, hs, hsome]

/-- a request of `Xp.C01.exec` other than a Delete or merge patch addressed to it leaves a
foreign object exactly as it is (server-side apply: Invalid; Create: AlreadyExists) -/
theorem exec_frame_foreign (w : W) (r : Req) (hi : Inv w) (o : CObj) (ho : o ∈ w.base.objs) (hc : o.ctrl = .other) :
    o ∈ (exec w r).1.base.objs ∨ r = .delete o.kind o.name ∨ ∃ a c, r = .mergePatch o.kind o.name a c := by
  have hfind : ∀ k n o1, findObj w.base.objs k n = some o1 → o1.ctrl ≠ .other → ¬ (o.kind = k ∧ o.name = n) := by
    intro k n o1 hf h1 hk
    obtain ⟨hm1, hk1, hn1⟩ := findObj_some hf
    have : o = o1 := eq_of_key_eq hi.nodup ho hm1 (by simp [key, hk.1, hk.2, hk1, hn1])
    exact h1 (this ▸ hc)
  cases r with
  | delete k n =>
    by_cases hk : o.kind = k ∧ o.name = n
    · right; left; rw [hk.1, hk.2]
    · left
      simp only [exec, lift, C01.exec]
      split
      · split
        · exact mem_mapObj_of_ne ho hk
        · exact mem_removeObj.mpr ⟨ho, hk⟩
      · exact ho
  | mergePatch k n a c =>
    by_cases hk : o.kind = k ∧ o.name = n
    · right; right; exact ⟨a, c, by rw [hk.1, hk.2]⟩
    · left
      simp only [exec]
      split
      · split
        · exact mem_mapObj_of_ne ho hk
        · simp only [lift, C01.exec]
          split
          · split <;> exact ho
          · split
            · split
              · exact ho
              · exact mem_mapObj_of_ne ho hk
            · exact ho
      · simp only [lift, C01.exec]
        split
        · split <;> exact ho
        · split
          · split
            · exact ho
            · exact mem_mapObj_of_ne ho hk
          · exact ho
  | apply k n a c =>
    left
    simp only [exec, lift, C01.exec]
    split
    · exact ho
    · split
      · rename_i o1 hf
        split
        · exact ho
        · rename_i h1
          exact mem_mapObj_of_ne ho (hfind k n o1 hf h1)
      · exact List.mem_append_left _ ho
  | create k n a c =>
    left
    simp only [exec, lift, C01.exec]
    split
    · exact ho
    · split
      · exact ho
      · exact List.mem_append_left _ ho
  | gcUpdate k n =>
    left
    simp only [exec]
    split
    · exact ho
    · simp only [lift, exec_gcUpdate_state]; exact ho
  | getXR => left; exact ho
  | addFinalizer rv => left; simp only [exec, lift, C01.exec]; split <;> exact ho
  | getObj k n => left; simp only [exec, lift, C01.exec]; split <;> exact ho
  | getCached k n => left; simp only [exec, lift, C01.exec]; split <;> (try split) <;> exact ho
  | patchRefs v rs => left; simp only [exec, lift, C01.exec]; split <;> exact ho
  | updateXR rv v rs => left; simp only [exec, lift, C01.exec]; split <;> (try split) <;> exact ho
  | patchXR => left; exact ho
  | statusPatch => left; exact ho
  | statusUpdate rv => left; simp only [exec, lift, C01.exec]; split <;> exact ho

/-- **Left exactly as it was, under interference.** At the moment of every own call of a
reconcile run against a third party, every composed resource that is controlled by somebody
else AT THAT MOMENT is in the store after the call exactly as it was before it — unless the call
is a Delete or a merge patch addressed to it, a Get of this very reconcile had returned it not
controlled by somebody else, and somebody else has written it since that Get (the windows
recorded as findings D36 and D37: Delete carries no precondition, the P&T composer's patch no
resourceVersion). -/
theorem foreign_untouched_under_interference (md : Mode) (hmd : ModeDisc md) (env : Env W)
    (henv : ∀ k w, Rely w (env k w)) (plan : Plan) (w : W) (hw : Inv w) :
    ∀ x ∈ ownE sem env plan 0 (reconcile md) w, ∀ o ∈ x.1.base.objs, o.ctrl = .other →
      o ∈ (exec x.1 x.2).1.base.objs ∨
      ((x.2 = .delete o.kind o.name ∨ ∃ a c, x.2 = .mergePatch o.kind o.name a c) ∧
        key o ∈ x.1.mine ∧ key o ∈ x.1.stale) := by
  intro x hx o ho hc
  obtain ⟨hinv, hg⟩ := interference_guarantees md hmd env henv plan w hw x hx
  rcases exec_frame_foreign x.1 x.2 hinv o ho hc with h | h | ⟨a, c, h⟩
  · exact Or.inl h
  · have hm : key o ∈ x.1.mine := hg _ (by rw [h]; rfl)
    exact Or.inr ⟨Or.inl h, hm, hinv.fence o ho hc hm⟩
  · have hm : key o ∈ x.1.mine := hg _ (by rw [h]; rfl)
    exact Or.inr ⟨Or.inr ⟨a, c, h⟩, hm, hinv.fence o ho hc hm⟩

/-- **The label clean-up never lands on a foreign object**: whatever the third party does and
whenever it does it, an Update this reconcile sends to a composed resource that is controlled by
somebody else at that moment is answered 409 Conflict and writes nothing. -/
theorem cleanup_update_never_applied_to_foreign (md : Mode) (hmd : ModeDisc md) (env : Env W)
    (henv : ∀ k w, Rely w (env k w)) (plan : Plan) (w : W) (hw : Inv w) :
    ∀ x ∈ ownE sem env plan 0 (reconcile md) w, ∀ k n, x.2 = .gcUpdate k n → foreignAt x.1 ⟨k, n⟩ = true →
      exec x.1 x.2 = (x.1, .conflict) := by
  intro x hx k n hr hf
  obtain ⟨hinv, hg⟩ := interference_guarantees md hmd env henv plan w hw x hx
  rw [hr]
  exact update_refused_on_foreign x.1 k n hinv (hg _ (by rw [hr]; rfl)) hf

/-- a world is within the hypotheses: unique keys and an empty ghost (a reconcile starts
without copies) -/
theorem inv_start (s : St) (hn : (s.objs.map key).Nodup) (st : List Ref) : Inv ⟨s, [], st⟩ :=
  ⟨hn, fun _ _ _ h => by cases h⟩

/-! ### histories: every reconcile starts without copies -/

/-- a new reconcile holds no copies of composed resources -/
def resetGhost (w : W) : W := { w with mine := [], stale := [] }

theorem inv_reset {w : W} (h : Inv w) : Inv (resetGhost w) :=
  ⟨h.nodup, fun _ _ _ hm => by cases hm⟩

/-- the fence holds in the store a (possibly crashed) reconcile leaves behind -/
theorem inv_after_reconcile (md : Mode) (env : Env W) (henv : ∀ k w, Rely w (env k w)) (plan : Plan) (w : W)
    (hw : Inv w) : Inv (runE sem env plan 0 (reconcile md) w).1 :=
  runE_inv sem Inv (fun _ => True) (fun s r hs _ => exec_inv s r hs) env (fun k s hs => inv_rely hs (henv k s))
    plan 0 (reconcile md) (issues_any _) w hw

/-- the own calls of a history of reconciles, each with its own third party, fault plan and
mode (function output, templates, generated names, loop orders) -/
def ownRounds : List (Env W × Plan × Mode) → W → List (W × Req)
  | [], _ => []
  | (env, plan, md) :: h, w =>
    ownE sem env plan 0 (reconcile md) (resetGhost w) ++ ownRounds h (runE sem env plan 0 (reconcile md) (resetGhost w)).1

/-- `foreign_untouched_under_interference` over every history of reconciles. -/
theorem foreign_untouched_under_interference_history (h : List (Env W × Plan × Mode))
    (hh : ∀ e ∈ h, (∀ k w, Rely w (e.1 k w)) ∧ ModeDisc e.2.2) :
    ∀ (w : W), Inv w → ∀ x ∈ ownRounds h w, ∀ o ∈ x.1.base.objs, o.ctrl = .other →
      o ∈ (exec x.1 x.2).1.base.objs ∨
      ((x.2 = .delete o.kind o.name ∨ ∃ a c, x.2 = .mergePatch o.kind o.name a c) ∧
        key o ∈ x.1.mine ∧ key o ∈ x.1.stale) := by
  induction h with
  | nil => intro w _ x hx; cases hx
  | cons e es ih =>
    obtain ⟨env, plan, md⟩ := e
    intro w hw x hx
    have he := hh (env, plan, md) (List.mem_cons_self ..)
    simp only [ownRounds] at hx
    rcases List.mem_append.mp hx with h1 | h1
    · exact foreign_untouched_under_interference md he.2 env he.1 plan _ (inv_reset hw) x h1
    · exact ih (fun e' he' => hh e' (List.mem_cons_of_mem _ he')) _
        (inv_after_reconcile md env he.1 plan _ (inv_reset hw)) x h1

end Xp.C02World

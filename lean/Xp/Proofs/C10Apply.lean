import Xp.Model.C10
import Xp.Proofs.C10Total
/-
Helper lemmas for C10: the patch layer never yields `panic` on object roots.
-/
namespace Xp.C10
open V (lookup setKey eraseKey)

theorem stepGet_np (it : V) (s : Seg) : NP (stepGet it s) := by
  unfold stepGet
  repeat' split
  all_goals np_step

theorem getIn_np (segs : List Seg) : ∀ it, NP (getIn it segs) := by
  induction segs with
  | nil => intro it; exact np_ok _
  | cons s rest ih =>
    intro it
    unfold getIn
    have := stepGet_np it s
    split
    · exact ih _
    · exact np_of_eq (by assumption) this

theorem getValue_np (root : V) (segs : List Seg) : NP (getValue root segs) := by
  unfold getValue
  split
  · exact np_ok _
  · exact getIn_np _ _

theorem getPath_np (root : V) (p : Path) : NP (getPath root p) := by
  unfold getPath
  split
  · exact np_err _ (by decide)
  · exact getValue_np _ _

theorem mergeVals_np (orc : List Orc) (d s : V) : NP (mergeVals orc d s) := by
  unfold mergeVals
  repeat' split
  all_goals np_step

theorem setValue_shape (m : List (String × V)) (segs : List Seg) (v r : V)
    (h : setValue (.obj m) segs v = .ok r) : ∃ m', r = .obj m' := by
  unfold setValue at h
  split at h
  · cases h
  · split at h
    · cases h
    · exact setIn_obj_shape m segs _ r h

theorem mergeValue_np (orc : List Orc) (m : List (String × V)) (segs : List Seg) (v : V) (mo : Option MergeOpts) :
    NP (mergeValue orc (.obj m) segs v mo) := by
  unfold mergeValue
  have hg := getValue_np (.obj m) segs
  dsimp only
  split
  · rename_i e he
    -- the error comes from reading the destination
    apply np_of_eq (β := V) (r := (Except.error e : Except E V)) rfl
    intro hp
    simp only [Except.error.injEq] at hp
    subst hp
    revert he
    split
    · simp
    · rename_i e' _ he'
      split
      · simp
      · intro h
        simp only [Except.error.injEq] at h
        subst h
        exact hg he'
    · split <;> simp
  · rename_i d hd
    have hm := mergeVals_np orc d v
    split
    · exact np_of_eq (by assumption) hm
    · exact setValue_obj_no_panic m segs _

theorem mergeValue_shape (orc : List Orc) (m : List (String × V)) (segs : List Seg) (v r : V) (mo : Option MergeOpts)
    (h : mergeValue orc (.obj m) segs v mo = .ok r) : ∃ m', r = .obj m' := by
  unfold mergeValue at h
  dsimp only at h
  split at h
  · cases h
  · split at h
    · cases h
    · exact setValue_shape m segs _ r h

theorem fromUnstructured_np (t : V) : (fromUnstructured t).err ≠ some .panic := by
  unfold fromUnstructured
  repeat' split
  all_goals simp

theorem patchToObject_np (orc : List Orc) (path : Path) (v : V) (m : List (String × V)) (mo : Option MergeOpts) :
    (patchToObject orc path v (.obj m) mo).err ≠ some .panic := by
  unfold patchToObject
  split
  · simp
  · have := mergeValue_np orc m (by assumption) v mo
    split
    · rename_i e he
      intro h
      simp only [Option.some.injEq] at h
      subst h
      exact this he
    · exact fromUnstructured_np _

theorem mergeAll_np (orc : List Orc) (v : V) (mo : Option MergeOpts) (paths : List (List Seg)) :
    ∀ m, NP (mergeAll orc v mo (.obj m) paths) := by
  induction paths with
  | nil => intro m; exact np_ok _
  | cons p ps ih =>
    intro m
    unfold mergeAll
    have h1 := mergeValue_np orc m p v mo
    split
    · exact np_of_eq (by assumption) h1
    · rename_i r hr
      obtain ⟨m', hm'⟩ := mergeValue_shape orc m p v r mo hr
      subst hm'
      exact ih m'

theorem expandIn_np (segs : List Seg) : ∀ it, NP (expandIn it segs) := by
  induction segs with
  | nil => intro it; unfold expandIn; exact np_ok _
  | cons s rest ih =>
    have harr : ∀ (l : List V) (i : Nat), NP (expandIn.goArr rest i l) := by
      intro l
      induction l with
      | nil => intro i; unfold expandIn.goArr; exact np_ok _
      | cons x xs ihl =>
        intro i
        unfold expandIn.goArr
        split
        · exact np_of_eq (by assumption) (ih x)
        · split
          · exact np_of_eq (by assumption) (ihl (i + 1))
          · exact np_ok _
    have hobj : ∀ (l : List (String × V)), NP (expandIn.goObj rest l) := by
      intro l
      induction l with
      | nil => unfold expandIn.goObj; exact np_ok _
      | cons x xs ihl =>
        obtain ⟨k, x⟩ := x
        unfold expandIn.goObj
        split
        · exact np_of_eq (by assumption) (ih x)
        · split
          · exact np_of_eq (by assumption) ihl
          · exact np_ok _
    intro it
    unfold expandIn
    split
    · split
      · exact harr _ _
      · exact hobj _
      · exact np_err _ (by decide)
      · exact np_err _ (by decide)
    · have hs := stepGet_np it s
      split
      · exact np_ok _
      · exact np_of_eq (by assumption) hs
      · split
        · exact np_of_eq (by assumption) (ih _)
        · exact np_ok _

theorem patchToMultiple_np (orc : List Orc) (path : Path) (v : V) (m : List (String × V)) (mo : Option MergeOpts) :
    (patchToMultiple orc path v (.obj m) mo).err ≠ some .panic := by
  unfold patchToMultiple
  split
  · simp
  · have he := expandIn_np (by assumption) (.obj m)
    split
    · rename_i e hee
      intro h
      simp only [Option.some.injEq] at h
      subst h
      exact he hee
    · simp
    · have hm := mergeAll_np orc v mo (by assumption) m
      split
      · rename_i e hee
        intro h
        simp only [Option.some.injEq] at h
        subst h
        exact hm hee
      · exact fromUnstructured_np _

theorem applyFromFieldPath_np (p : Patch) (src : V) (m : List (String × V)) :
    (applyFromFieldPathWith selectGroup p src (.obj m)).err ≠ some .panic := by
  unfold applyFromFieldPathWith
  split
  · simp
  · dsimp only
    have hg := getPath_np src (by assumption)
    split
    · split <;> simp
    · intro h
      simp only [Option.some.injEq] at h
      subst h
      exact hg (by assumption)
    · rename_i input _
      have hr := resolveAll_np p.xfs input
      split
      · rename_i e he
        intro h
        simp only [Option.some.injEq] at h
        subst h
        exact hr he
      · split
        · exact patchToMultiple_np _ _ _ _ _
        · exact patchToObject_np _ _ _ _ _

theorem combineVars_np (p : Patch) (src : V) (vs : List Path) : NP (combineVars p src vs) := by
  induction vs with
  | nil => exact np_ok _
  | cons v vs ih =>
    unfold combineVars
    have hg := getPath_np src v
    split
    · split
      · exact np_ok _
      · exact np_err _ (by decide)
    · exact np_of_eq (by assumption) hg
    · split
      · exact np_of_eq (by assumption) ih
      · exact np_ok _
      · exact np_ok _

theorem combineVars_missing_optional (p : Patch) (src : V) (post : List Path) (v : Path) (hopt : p.optional = true)
    (hm : getPath src v = .error .notFound) :
    ∀ pre : List Path, (∀ u ∈ pre, ∃ x, getPath src u = .ok x) → combineVars p src (pre ++ v :: post) = .ok none := by
  intro pre
  induction pre with
  | nil => intro _; simp [combineVars, hm, hopt]
  | cons u us ih =>
    intro hp
    obtain ⟨x, hx⟩ := hp u (by simp)
    have := ih (fun w hw => hp w (by simp [hw]))
    simp [combineVars, hx, this]

theorem combineVars_missing_required (p : Patch) (src : V) (post : List Path) (v : Path) (hreq : p.optional = false)
    (hm : getPath src v = .error .notFound) :
    ∀ pre : List Path, (∀ u ∈ pre, ∃ x, getPath src u = .ok x) → combineVars p src (pre ++ v :: post) = .error .notFound := by
  intro pre
  induction pre with
  | nil => intro _; simp [combineVars, hm, hreq]
  | cons u us ih =>
    intro hp
    obtain ⟨x, hx⟩ := hp u (by simp)
    have := ih (fun w hw => hp w (by simp [hw]))
    simp [combineVars, hx, this]

theorem combineVals_np (c : Combine) (vars : List V) : NP (combineVals c vars) := by
  unfold combineVals
  repeat' split
  all_goals np_step

theorem applyCombine_np (p : Patch) (src : V) (m : List (String × V)) :
    (applyCombineWith selectGroup p src (.obj m)).err ≠ some .panic := by
  unfold applyCombineWith
  split
  · simp
  · rename_i c _
    split
    · simp
    · split
      · simp
      · have hv := combineVars_np p src c.variables
        split
        · rename_i e he
          intro h
          simp only [Option.some.injEq] at h
          subst h
          exact hv he
        · simp
        · rename_i vars _
          have hc := combineVals_np c vars
          split
          · rename_i e he
            intro h
            simp only [Option.some.injEq] at h
            subst h
            exact hc he
          · rename_i cb _
            have hr := resolveAll_np p.xfs cb
            split
            · rename_i e he
              intro h
              simp only [Option.some.injEq] at h
              subst h
              exact hr he
            · exact patchToObject_np _ _ _ _ _

end Xp.C10

import Xp.Proofs.C13b
/-
C13 helper lemmas, part c: effect of each global action on the observable parts of the
state, inversion of `next` (which program counter produces which action), and the lock
discipline of writes.
-/
namespace Xp.C13

/-! ### controller objects -/

theorem modCtl_length (cid : Nat) (f : Ctl → Ctl) (objs : List Ctl) : (modCtl cid f objs).length = objs.length := by
  unfold modCtl
  split <;> simp

theorem getElem?_modCtl (cid : Nat) (f : Ctl → Ctl) (objs : List Ctl) (k : Nat) :
    (modCtl cid f objs)[k]? = if k = cid then objs[k]?.map f else objs[k]? := by
  unfold modCtl
  split
  · rename_i c hc
    have hlt : cid < objs.length := by
      rcases Nat.lt_or_ge cid objs.length with h | h
      · exact h
      · rw [List.getElem?_eq_none h] at hc; cases hc
    rw [List.getElem?_set]
    by_cases e : k = cid
    · subst e; rw [hc]; simp [hlt]
    · have e' : ¬ cid = k := fun x => e x.symm
      simp [e, e']
  · rename_i hc
    by_cases e : k = cid
    · subst e; simp [hc]
    · simp [e]

def srcsOfObjs (objs : List Ctl) (cid : Nat) : List (Wid × Nat) :=
  match objs[cid]? with
  | some c => c.sources
  | none => []

def stoppedOfObjs (objs : List Ctl) (cid : Nat) : Bool :=
  match objs[cid]? with
  | some c => c.stopped
  | none => false

theorem srcsOf_eq (s : Sys) (cid : Nat) : srcsOf s cid = srcsOfObjs s.objs cid := rfl
theorem stoppedOf_eq (s : Sys) (cid : Nat) : stoppedOf s cid = stoppedOfObjs s.objs cid := rfl

theorem srcsOfObjs_modCtl (cid : Nat) (f : Ctl → Ctl) (objs : List Ctl) (k : Nat) :
    srcsOfObjs (modCtl cid f objs) k =
      if k = cid then (match objs[k]? with | some c => (f c).sources | none => []) else srcsOfObjs objs k := by
  unfold srcsOfObjs
  rw [getElem?_modCtl]
  by_cases e : k = cid
  · simp only [e, if_true]
    cases objs[cid]? <;> rfl
  · simp [e]

theorem stoppedOfObjs_modCtl (cid : Nat) (f : Ctl → Ctl) (objs : List Ctl) (k : Nat) :
    stoppedOfObjs (modCtl cid f objs) k =
      if k = cid then (match objs[k]? with | some c => (f c).stopped | none => false) else stoppedOfObjs objs k := by
  unfold stoppedOfObjs
  rw [getElem?_modCtl]
  by_cases e : k = cid
  · simp only [e, if_true]
    cases objs[cid]? <;> rfl
  · simp [e]

theorem srcsOfObjs_append_new (objs : List Ctl) (n : Nat) (k : Nat) :
    srcsOfObjs (objs ++ [⟨n, [], false, false⟩]) k = srcsOfObjs objs k := by
  unfold srcsOfObjs
  rw [List.getElem?_append]
  by_cases h : k < objs.length
  · simp [h]
  · have h' : objs.length ≤ k := Nat.le_of_not_lt h
    rw [List.getElem?_eq_none h']
    simp only [h, if_false]
    by_cases e : k - objs.length = 0
    · simp [e]
    · have : 1 ≤ k - objs.length := by omega
      rw [List.getElem?_eq_none (by simpa using this)]

theorem stoppedOfObjs_append_new (objs : List Ctl) (n : Nat) (k : Nat) :
    stoppedOfObjs (objs ++ [⟨n, [], false, false⟩]) k = stoppedOfObjs objs k := by
  unfold stoppedOfObjs
  rw [List.getElem?_append]
  by_cases h : k < objs.length
  · simp [h]
  · have h' : objs.length ≤ k := Nat.le_of_not_lt h
    rw [List.getElem?_eq_none h']
    simp only [h, if_false]
    by_cases e : k - objs.length = 0
    · simp [e]
    · have : 1 ≤ k - objs.length := by omega
      rw [List.getElem?_eq_none (by simpa using this)]

theorem srcsOfObjs_valid {objs : List Ctl} {cid : Nat} {w : Wid} {r : Nat}
    (h : aget w (srcsOfObjs objs cid) = some r) : cid < objs.length := by
  unfold srcsOfObjs at h
  rcases Nat.lt_or_ge cid objs.length with hl | hl
  · exact hl
  · rw [List.getElem?_eq_none hl] at h; simp at h

/-! ### the effect of an action, field by field

`s1` below is the state with the stepping thread's pc already updated; actions never touch
`threads`. -/

theorem apply_objs_length_ge (a : Act) (s : Sys) : s.objs.length ≤ (a.apply s).objs.length := by
  cases a <;> simp only [Act.apply, modCtl_length, List.length_append, List.length_cons, List.length_nil] <;> try omega
  case getInformer g f =>
    split
    · exact Nat.le_refl _
    · split <;> exact Nat.le_refl _

/-! ### inversion of `next`: which pc produces which action -/

/-- where an action can come from: the pc (and, for the two actions taken at `idle`, the op) of
the thread that performs it, and what the pc after it is -/
def ActFrom (cfg : Cfg) (s : Sys) (t : Thread) (pc' : Pc) : Act → Prop
  | .nop => True
  | .logEv e => ∃ n, t.op = .isRunning n ∧ t.pc = .idle ∧ e = .isRunning n (aget n s.ctrls).isSome
  | .newCtl n => t.pc = .stNC n
  | .finishStop n cid => t.pc = .spLoop n cid ∧ srcsOf s cid = []
  | .getInformer g _ =>
      (∃ n cid wid reg, t.pc = .spGI n cid wid reg ∧ g = wid.gvk) ∨
      (∃ cid a st wid rest, t.pc = .swGI cid a st wid rest ∧ g = wid.gvk) ∨
      (∃ cid wid reg rest k, t.pc = .xwGI cid wid reg rest k ∧ g = wid.gvk) ∨
      (t.op = .cacheRead g ∧ t.pc = .idle)
  | .addReg cid wid h' => ∃ a st rest, t.pc = .swAH cid a st wid rest h' ∧ aget wid.gvk s.live = some h' ∧
      pc' = swPc cid a (if cfg.fixD2 then wid :: st else st)
        (swNext (aset wid s.nextReg (srcsOf s cid)) a (if cfg.fixD2 then wid :: st else st) rest)
  | .delReg cid wid reg =>
      (∃ n h', t.pc = .spRH n cid wid reg h' ∧ pc' = .spLoop n cid) ∨
      (∃ rest k h', t.pc = .xwRH cid wid reg rest k h' ∧ pc' = xwPc cid (k + 1) (xwNext (adel wid (srcsOf s cid)) rest))
  | .rmInformer g => t.op = .removeInformer g ∧ t.pc = .idle

theorem next_act_cases {cfg : Cfg} {s : Sys} {i : Nat} {t : Thread} {ch : Choice} {pc' : Pc} {act : Act}
    (h : next cfg s i t ch = some (pc', act)) : ActFrom cfg s t pc' act := by
  obtain ⟨op, pc⟩ := t
  cases pc <;> simp only [next] at h
  all_goals (repeat' (split at h))
  all_goals first
    | (cases h; done)
    | (obtain ⟨rfl, rfl, _⟩ := acquire_some h; first | exact trivial | exact ⟨_, rfl, rfl, rfl⟩)
    | (simp only [Option.some.injEq, Prod.mk.injEq] at h
       obtain ⟨rfl, rfl⟩ := h
       first
       | exact trivial
       | exact ⟨rfl, rfl⟩
       | exact ⟨rfl, by assumption⟩
       | exact Or.inl ⟨_, _, _, _, rfl, rfl⟩
       | exact Or.inr (Or.inl ⟨_, _, _, _, _, rfl, rfl⟩)
       | exact Or.inr (Or.inr (Or.inl ⟨_, _, _, _, _, rfl, rfl⟩))
       | exact Or.inr (Or.inr (Or.inr ⟨rfl, rfl⟩))
       | exact Or.inl ⟨_, _, rfl, rfl⟩
       | exact Or.inr ⟨_, _, _, rfl, rfl⟩
       | exact rfl
       | skip)
  all_goals
    rename_i hh hf
    refine ⟨_, _, _, rfl, ?_, ?_⟩
    · simp only [Bool.or_eq_true, bne_iff_ne, ne_eq, not_or, Decidable.not_not] at hh
      exact hh.2
    · simp [hf]

end Xp.C13

import Xp.Proofs.C01PT
import Xp.Proofs.C01Quiet
import Xp.Proofs.C01QuietPT
/-
C01: the name generator's availability loop (`probeName`, Xp/Model/C01.lean) and the reconcile
built on it (`reconcileT tries`). The phases other than rendering are shared with `reconcile`
(observeFn, gcFn, applyFn, associatePT, applyPT …), so are their lemmas; this file proves the
loop safe, re-proves the render loops, and re-assembles the composer / reconcile level lemmas
(the assembly proofs are those of Xp/Proofs/C01*.lean with the render lemma exchanged).
-/
namespace Xp.C01

/-! ### one try = the render loops of `reconcile` -/

theorem renderFnT_one (lrv : Nat) (obs : Obs) (k : List Named → P) :
    ∀ (ds : List Desired) (fresh : List String) (acc : List Named),
      renderFnT 1 lrv obs ds fresh acc k = renderFn lrv obs ds fresh acc k := by
  intro ds
  induction ds with
  | nil => intro fresh acc; simp [renderFnT, renderFn]
  | cons d ds ih =>
    intro fresh acc
    simp only [renderFnT, renderFn]
    cases obsLookup obs d.rname with
    | some o => simp only []; exact ih _ _
    | none =>
      simp only []
      cases fresh with
      | nil => simp [probeName]
      | cons n rest =>
        simp only [probeName]
        congr 1
        funext x
        cases x <;> simp [ih]

theorem renderPTT_one (lrv : Nat) (a : Assoc) (k : List Rendered → P) :
    ∀ (ds : List Desired) (fresh : List String) (acc : List Rendered),
      renderPTT 1 lrv a ds fresh acc k = renderPT lrv a ds fresh acc k := by
  intro ds
  induction ds with
  | nil => intro fresh acc; simp [renderPTT, renderPT]
  | cons d ds ih =>
    intro fresh acc
    simp only [renderPTT, renderPT]
    cases assocLookup a d.rname with
    | some r => simp only []; split <;> simp [ih]
    | none =>
      simp only []
      cases fresh with
      | nil => simp [probeName, ih]
      | cons n rest =>
        simp only [probeName]
        congr 1
        funext x
        cases x <;> simp [ih]

/-- the reconcile the earlier theorems speak about is the one whose name generator gives up after
the first candidate that is taken -/
theorem reconcileT_one' (m : Mode) : reconcileT 1 m = reconcile m := by
  have hfn : ∀ lrv refs out ch, composeFnT 1 lrv refs out ch = composeFn lrv refs out ch := by
    intro lrv refs out ch
    unfold composeFnT composeFn
    congr 1
    funext obs
    cases out obs with
    | failed => rfl
    | desired ds => simp only []; exact renderFnT_one _ _ _ _ _ _
  have hpt : ∀ lrv refs tmpl fresh ver, composePTT 1 lrv refs tmpl fresh ver = composePT lrv refs tmpl fresh ver := by
    intro lrv refs tmpl fresh ver
    unfold composePTT composePT
    congr 1
    funext a
    exact renderPTT_one _ _ _ _ _ _
  unfold reconcileT reconcile
  congr 1
  funext x
  cases x <;> try rfl
  cases m <;> simp [recContT, hfn, hpt]

/-! ### the loop is safe, and what it hands over -/

/-- the loop only reads; it hands to its continuation either a non-empty candidate that no object
of the store carries (the cache said NotFound and, by `FreshAvoids`, the candidate is not the name
of an object missing from the cache), or one of the two failures; in every case the candidates
left still satisfy the hypotheses -/
theorem safe_probeName {s : St} (hg : Good s) (kind : String) (k : Probed → List String → P)
    (hname : ∀ n rest, n ≠ "" → findObj s.objs kind n = none → (∀ x ∈ rest, x ≠ "") → FreshAvoids s.miss rest →
      Safe sem Good (k (.name n) rest) s)
    (hgave : ∀ rest, (∀ x ∈ rest, x ≠ "") → FreshAvoids s.miss rest → Safe sem Good (k .gaveUp rest) s)
    (hfail : ∀ rest, (∀ x ∈ rest, x ≠ "") → FreshAvoids s.miss rest → Safe sem Good (k .failed rest) s) :
    ∀ (tries : Nat) (fresh : List String), (∀ x ∈ fresh, x ≠ "") → FreshAvoids s.miss fresh →
      Safe sem Good (probeName kind tries fresh k) s := by
  intro tries
  induction tries with
  | zero => intro fresh hfr hfm; simp only [probeName]; exact hgave fresh hfr hfm
  | succ t ih =>
    intro fresh hfr hfm
    cases fresh with
    | nil => simp only [probeName]; exact hgave [] hfr hfm
    | cons nm rest =>
      simp only [probeName]
      have hfr' : ∀ x ∈ rest, x ≠ "" := fun x hx => hfr x (List.mem_cons_of_mem _ hx)
      have hm : (⟨kind, nm⟩ : Ref) ∉ s.miss := hfm.head kind
      cases hfo : findObj s.objs kind nm with
      | some o =>
        simp only [Safe, sem, exec_getCached_some hfo hm, isRead, if_true]
        exact ⟨hg, ih rest hfr' hfm.tail, hfail rest hfr' hfm.tail, hfail rest hfr' hfm.tail⟩
      | none =>
        simp only [Safe, sem, exec_getCached_none hfo, isRead, if_true]
        exact ⟨hg, hname nm rest (hfr nm (List.mem_cons_self ..)) hfo hfr' hfm.tail,
          hfail rest hfr' hfm.tail, hfail rest hfr' hfm.tail⟩

/-- the fault-free loop as a function of the store: outcome and candidates left -/
def probePure (s : St) (kind : String) : Nat → List String → Probed × List String
  | 0, fresh => (.gaveUp, fresh)
  | _ + 1, [] => (.gaveUp, [])
  | t + 1, n :: rest =>
    if (⟨kind, n⟩ : Ref) ∈ s.miss then (.name n, rest)
    else match findObj s.objs kind n with
      | none => (.name n, rest)
      | some _ => probePure s kind t rest

theorem runOk_probeName (s : St) (kind : String) (k : Probed → List String → P) :
    ∀ (tries : Nat) (fresh : List String),
      runOk (probeName kind tries fresh k) s = runOk (k (probePure s kind tries fresh).1 (probePure s kind tries fresh).2) s := by
  intro tries
  induction tries with
  | zero => intro fresh; simp [probeName, probePure]
  | succ t ih =>
    intro fresh
    cases fresh with
    | nil => simp [probeName, probePure]
    | cons n rest =>
      simp only [probeName, probePure]
      rw [runOk_call]
      by_cases hm : (⟨kind, n⟩ : Ref) ∈ s.miss
      · simp only [exec_getCached_miss hm, hm, if_true]
      · simp only [hm, if_false]
        cases hfo : findObj s.objs kind n with
        | none => simp only [exec_getCached_none hfo]
        | some o => simp only [exec_getCached_some hfo hm]; exact ih rest

/-- what the loop returns: a candidate of `fresh` that the CACHE does not show (no object of that
kind and name, or one that is missing from the cache), reached after at most `tries` candidates,
every candidate before it being the name of an object the cache shows -/
theorem probePure_name {s : St} {kind : String} :
    ∀ (tries : Nat) (fresh : List String) (n : String) (rest : List String),
      probePure s kind tries fresh = (.name n, rest) →
      ∃ skipped, fresh = skipped ++ n :: rest ∧ skipped.length < tries ∧
        (∀ x ∈ skipped, (⟨kind, x⟩ : Ref) ∉ s.miss ∧ (findObj s.objs kind x).isSome) ∧
        ((⟨kind, n⟩ : Ref) ∈ s.miss ∨ findObj s.objs kind n = none) := by
  intro tries
  induction tries with
  | zero => intro fresh n rest h; simp [probePure] at h
  | succ t ih =>
    intro fresh n rest h
    cases fresh with
    | nil => simp [probePure] at h
    | cons c cs =>
      simp only [probePure] at h
      by_cases hm : (⟨kind, c⟩ : Ref) ∈ s.miss
      · simp only [hm, if_true, Prod.mk.injEq, Probed.name.injEq] at h
        obtain ⟨rfl, rfl⟩ := h
        exact ⟨[], rfl, Nat.succ_pos _, (by intro x hx; cases hx), Or.inl hm⟩
      · simp only [hm, if_false] at h
        cases hfo : findObj s.objs kind c with
        | none =>
          simp only [hfo, Prod.mk.injEq, Probed.name.injEq] at h
          obtain ⟨rfl, rfl⟩ := h
          exact ⟨[], rfl, Nat.succ_pos _, (by intro x hx; cases hx), Or.inr hfo⟩
        | some o =>
          simp only [hfo] at h
          obtain ⟨sk, hsk, hlen, hall, hlast⟩ := ih cs n rest h
          refine ⟨c :: sk, by rw [hsk]; rfl, by simpa using hlen, ?_, hlast⟩
          intro x hx
          rcases List.mem_cons.mp hx with rfl | hx
          · exact ⟨hm, by simp [hfo]⟩
          · exact hall x hx

/-- the loop never fails without a fault, and gives up only after `tries` taken candidates (or
when the candidates run out) -/
theorem probePure_gaveUp {s : St} {kind : String} :
    ∀ (tries : Nat) (fresh : List String) (rest : List String),
      probePure s kind tries fresh = (.gaveUp, rest) →
      ∃ skipped, fresh = skipped ++ rest ∧ (skipped.length = tries ∨ rest = []) ∧
        (∀ x ∈ skipped, (⟨kind, x⟩ : Ref) ∉ s.miss ∧ (findObj s.objs kind x).isSome) := by
  intro tries
  induction tries with
  | zero => intro fresh rest h; simp only [probePure, Prod.mk.injEq, true_and] at h; exact ⟨[], by simp [h], Or.inl rfl, (by intro x hx; cases hx)⟩
  | succ t ih =>
    intro fresh rest h
    cases fresh with
    | nil => simp only [probePure, Prod.mk.injEq, true_and] at h; exact ⟨[], by simp [h], Or.inr h.symm, (by intro x hx; cases hx)⟩
    | cons c cs =>
      simp only [probePure] at h
      by_cases hm : (⟨kind, c⟩ : Ref) ∈ s.miss
      · simp [hm] at h
      · simp only [hm, if_false] at h
        cases hfo : findObj s.objs kind c with
        | none => simp [hfo] at h
        | some o =>
          simp only [hfo] at h
          obtain ⟨sk, hsk, hlen, hall⟩ := ih cs rest h
          refine ⟨c :: sk, by rw [hsk]; rfl, by rcases hlen with h1 | h1; exact Or.inl (by simp [h1]); exact Or.inr h1, ?_⟩
          intro x hx
          rcases List.mem_cons.mp hx with rfl | hx
          · exact ⟨hm, by simp [hfo]⟩
          · exact hall x hx

theorem probePure_not_failed {s : St} {kind : String} :
    ∀ (tries : Nat) (fresh : List String), (probePure s kind tries fresh).1 ≠ .failed := by
  intro tries
  induction tries with
  | zero => intro fresh; simp [probePure]
  | succ t ih =>
    intro fresh
    cases fresh with
    | nil => simp [probePure]
    | cons c cs =>
      simp only [probePure]
      split
      · simp
      · split
        · simp
        · exact ih cs

/-- under EVERY fault plan the loop issues at most `tries` calls (each a cached Get of the kind)
before it hands over to its continuation (here: stops) -/
theorem probeName_calls_le (kind : String) (a : Probed → List String → Result) :
    ∀ (tries : Nat) (fresh : List String) (plan : Plan) (i : Nat) (s : St),
      calls sem plan i (probeName kind tries fresh fun p r => .ret (a p r)) s ≤ tries := by
  intro tries
  induction tries with
  | zero => intro fresh plan i s; simp [probeName, calls]
  | succ t ih =>
    intro fresh plan i s
    cases fresh with
    | nil => simp [probeName, calls]
    | cons n rest =>
      simp only [probeName, calls]
      have hx : sem.exec s (.getCached kind n) = exec s (.getCached kind n) := rfl
      have hf : sem.errResp .fail (.getCached kind n) = .err := rfl
      have hc : sem.errResp .conflict (.getCached kind n) = .err := rfl
      cases plan i with
      | ok =>
        simp only []
        rcases exec_getCached_resp s kind n with h | ⟨o, _, h⟩
        · rw [hx, h]; simp only [calls]; omega
        · rw [hx, h]; simp only []
          have := ih rest plan (i + 1) s
          omega
      | fail => simp only [hf, calls]; omega
      | conflict => simp only [hc, calls]; omega
      | crashBefore => simp only []; omega
      | crashAfter => simp only []; omega

/-! ### render loops with the retry loop -/

theorem safe_renderFnT {s : St} (hg : Good s) (tries : Nat) (lrv : Nat) (obs : Obs) (ds0 : List Desired) (k : List Named → P)
    (hk : ∀ named, NamedOK s obs ds0 named → Safe sem Good (k named) s) :
    ∀ (ds : List Desired) (fresh : List String) (acc : List Named),
      (∀ x ∈ fresh, x ≠ "") → FreshAvoids s.miss fresh →
      (∀ n ∈ acc, Entry s obs n) → (∀ n ∈ acc, n.d ∈ ds0) → (∀ d ∈ ds, d ∈ ds0) →
      (∀ d ∈ ds0, d ∈ ds ∨ ∃ n ∈ acc, n.d = d) →
      (ds.map (·.rname) ++ acc.map (·.d.rname)).Nodup →
      Safe sem Good (renderFnT tries lrv obs ds fresh acc k) s := by
  intro ds
  induction ds with
  | nil =>
    intro fresh acc _ _ he hf _ hc hn
    simp only [renderFnT]
    apply hk
    refine ⟨?_, ?_, ?_, ?_⟩
    · intro n hn'; exact he n (List.mem_reverse.mp hn')
    · intro n hn'; exact hf n (List.mem_reverse.mp hn')
    · intro d hd
      rcases hc d hd with h | ⟨n, hn', e⟩
      · cases h
      · exact ⟨n, List.mem_reverse.mpr hn', e⟩
    · simp only [List.map_nil, List.nil_append] at hn
      rw [List.map_reverse]; exact (List.reverse_perm _).nodup_iff.mpr hn
  | cons d ds ih =>
    intro fresh acc hfr hfm he hf hds hc hn
    have hds' : ∀ x ∈ ds, x ∈ ds0 := fun x hx => hds x (List.mem_cons_of_mem _ hx)
    have hd0 : d ∈ ds0 := hds d (List.mem_cons_self ..)
    have step : ∀ (nm : Named), nm.d = d → Entry s obs nm → ∀ fresh', (∀ x ∈ fresh', x ≠ "") →
        FreshAvoids s.miss fresh' →
        Safe sem Good (renderFnT tries lrv obs ds fresh' (nm :: acc) k) s := by
      intro nm hnd hent fresh' hfr' hfm'
      apply ih fresh' (nm :: acc) hfr' hfm'
      · intro n hn'; rcases List.mem_cons.mp hn' with rfl | h; exact hent; exact he n h
      · intro n hn'; rcases List.mem_cons.mp hn' with rfl | h; exact hnd ▸ hd0; exact hf n h
      · exact hds'
      · intro x hx
        rcases hc x hx with h | ⟨n, hn', e⟩
        · rcases List.mem_cons.mp h with rfl | h
          · exact Or.inr ⟨nm, List.mem_cons_self .., hnd⟩
          · exact Or.inl h
        · exact Or.inr ⟨n, List.mem_cons_of_mem _ hn', e⟩
      · have : (ds.map (·.rname) ++ (nm :: acc).map (·.d.rname)).Perm ((d :: ds).map (·.rname) ++ acc.map (·.d.rname)) := by
          simp only [List.map_cons, hnd, List.cons_append]
          exact List.perm_middle
        exact this.nodup_iff.mpr hn
    simp only [renderFnT]
    cases hl : obsLookup obs d.rname with
    | some o =>
      simp only []
      exact step ⟨d, o.name, false⟩ rfl (by simp [Entry, hl]) fresh hfr hfm
    | none =>
      simp only []
      apply safe_probeName hg d.kind _ _ _ _ tries fresh hfr hfm
      · intro n rest hne hfo hfr' hfm'
        exact step ⟨d, n, true⟩ rfl (by simp [Entry, hl, hfo, hne]) rest hfr' hfm'
      · intro rest _ _; exact safe_onError hg _
      · intro rest _ _; exact safe_onError hg _

theorem safe_renderPTT {s : St} (hg : Good s) (tries : Nat) (lrv : Nat) (a : Assoc) (tmpl : List Desired) (k : List Rendered → P)
    (hk : ∀ rs, RendOK s a tmpl rs → Safe sem Good (k rs) s) :
    ∀ (ds : List Desired) (fresh : List String) (acc : List Rendered),
      (∀ x ∈ fresh, x ≠ "") → FreshAvoids s.miss fresh →
      (∀ e ∈ acc, REntry s a e) →
      (∀ d ∈ tmpl, d ∈ ds ∨ ∃ e ∈ acc, e.d = d) →
      (ds.map (·.rname) ++ acc.map (·.d.rname)).Nodup →
      Safe sem Good (renderPTT tries lrv a ds fresh acc k) s := by
  intro ds
  induction ds with
  | nil =>
    intro fresh acc _ _ he hc hn
    simp only [renderPTT]
    apply hk
    refine ⟨?_, ?_, ?_⟩
    · intro e he'; exact he e (List.mem_reverse.mp he')
    · intro d hd
      rcases hc d hd with h | ⟨e, he', ee⟩
      · cases h
      · exact ⟨e, List.mem_reverse.mpr he', ee⟩
    · simp only [List.map_nil, List.nil_append] at hn
      rw [List.map_reverse]; exact (List.reverse_perm _).nodup_iff.mpr hn
  | cons d ds ih =>
    intro fresh acc hfr hfm he hc hn
    have step : ∀ (nm : Rendered), nm.d = d → REntry s a nm → ∀ fresh', (∀ x ∈ fresh', x ≠ "") →
        FreshAvoids s.miss fresh' →
        Safe sem Good (renderPTT tries lrv a ds fresh' (nm :: acc) k) s := by
      intro nm hnd hent fresh' hfr' hfm'
      apply ih fresh' (nm :: acc) hfr' hfm'
      · intro e he'; rcases List.mem_cons.mp he' with rfl | h; exact hent; exact he e h
      · intro x hx
        rcases hc x hx with h | ⟨e, he', ee⟩
        · rcases List.mem_cons.mp h with rfl | h
          · exact Or.inr ⟨nm, List.mem_cons_self .., hnd⟩
          · exact Or.inl h
        · exact Or.inr ⟨e, List.mem_cons_of_mem _ he', ee⟩
      · have : (ds.map (·.rname) ++ (nm :: acc).map (·.d.rname)).Perm ((d :: ds).map (·.rname) ++ acc.map (·.d.rname)) := by
          simp only [List.map_cons, hnd, List.cons_append]
          exact List.perm_middle
        exact this.nodup_iff.mpr hn
    simp only [renderPTT]
    cases hl : assocLookup a d.rname with
    | some r =>
      simp only []
      by_cases hkd : r.kind = d.kind
      · simp only [hkd, if_true]
        apply step ⟨d, r.name, true⟩ rfl _ fresh hfr hfm
        simp only [REntry, if_true, rkey, hl]
        left; cases r; simp_all
      · simp only [hkd, if_false]; exact safe_onError hg _
    | none =>
      simp only []
      apply safe_probeName hg d.kind _ _ _ _ tries fresh hfr hfm
      · intro n rest hne hfo hfr' hfm'
        exact step ⟨d, n, true⟩ rfl (by simp [REntry, hl, hfo, hne]) rest hfr' hfm'
      · intro rest hfr' hfm'; exact step ⟨d, "", false⟩ rfl (by simp [REntry, hl]) rest hfr' hfm'
      · intro rest hfr' hfm'; exact step ⟨d, "", false⟩ rfl (by simp [REntry, hl]) rest hfr' hfm'

/-! ### composer and reconcile level (the assembly proofs of Xp/Proofs/C01.lean, C01PT.lean) -/

theorem safe_composeFnT {s : St} (hg : Good s) (tries : Nat) (lrv : Nat) (out : Obs → FnOut) (ch : Choices)
    (ho : OutOK out) (hc : ChOK ch) (hfm : FreshAvoids s.miss ch.fresh) :
    Safe sem Good (composeFnT tries lrv s.refs out ch) s := by
  unfold composeFnT
  apply safe_observeFn hg lrv _ s.refs [] [] (fun r h => h) (by intro r h; cases h)
  · refine ⟨?_, ?_, ?_⟩
    · intro o _ h; cases h
    · intro a o h; simp [obsLookup] at h
    · intro p h; cases h
  · intro obs hobs
    simp only [List.nil_append] at hobs
    cases hout : out obs with
    | failed => exact safe_onError hg _
    | desired ds =>
      simp only []
      apply safe_renderFnT hg tries lrv obs ds _ _ ds ch.fresh [] hc.fresh hfm (by intro n h; cases h) (by intro n h; cases h)
        (fun d h => h) (fun d h => Or.inl h) (by simpa using ho.nodup obs ds hout)
      intro named hnamed
      apply safe_gcFn lrv _ _ s hg
      · -- garbage-collection targets are observed objects, and observed objects are not foreign
        intro o ho x hx hkx
        have ho' := (hc.gc _ _).mp ho
        obtain ⟨⟨a, o2⟩, hmem, rfl⟩ := List.mem_map.mp ho'
        obtain ⟨hm2, hc2⟩ := obs_elems_ok hobs (a, o2) (List.mem_filter.mp hmem).1
        have : x = o2 := eq_of_key_eq hg.nodup hx hm2 hkx
        exact this ▸ hc2
      intro s3 hsh hdead
      have hmid := mid_after_patch hg hobs hnamed (ho.kind obs ds hout) hsh ch.ver
        (by intro o ho' o' ho'' hk; exact hdead o ((hc.gc _ _).mpr ho') o' ho'' hk)
      apply safe_wcall (hsh.good hg) _ _ _ hmid.good
      intro _ _
      apply safe_applyFn lrv named _ _ _ _ true hmid
      · intro e he
        have hen := (hc.apply _ _).mp he
        exact ⟨List.mem_map.mpr ⟨e, hen, rfl⟩, named_name_ne hg hobs hnamed e hen⟩
      intro s5 b hm5
      have hg5 := hm5.good
      simp only [Safe, sem, exec_statusPatch, isRead]
      exact ⟨hg5, safe_finish hg5 _ _, safe_onErrorO hg5 _, safe_onConflict _⟩

theorem safe_composePTT {s : St} (hg : Good s) (tries : Nat) (lrv : Nat) (tmpl : List Desired) (fresh : List String) (ver : String)
    (ht : TmplOK tmpl fresh) (hfm : FreshAvoids s.miss fresh) : Safe sem Good (composePTT tries lrv s.refs tmpl fresh ver) s := by
  unfold composePTT
  apply safe_associatePT hg lrv tmpl _ s.refs [] [] s (fun r h => h) (by intro r h; cases h)
  · refine ⟨Shrunk.rfl' hg, ?_, ?_⟩
    · intro o _ h; cases h
    · intro t r h; simp [assocLookup] at h
  · intro a s1 hass
    simp only [List.nil_append] at hass
    have hg1 := hass.sh.good hg
    apply safe_renderPTT hg1 tries lrv a tmpl _ _ tmpl fresh [] ht.fresh (hass.sh.miss ▸ hfm) (by intro e h; cases h)
      (fun d h => Or.inl h) (by simpa using ht.nodup)
    intro rs hrs
    rcases exec_updateXR_cases s1 lrv ver (rs.map rkey) with ⟨hc, hst⟩ | ⟨hnc, hne, hr, ho, hf0⟩
    · -- rejected (stale resourceVersion): nothing written
      apply safe_wcall hg1 _ _ _ (by rw [hst]; exact hg1)
      intro _ h2; exact absurd hc h2
    · have hmid := mid_after_update hg hass hrs hr ho hf0
      apply safe_wcall hg1 _ _ _ hmid.good
      intro _ _
      apply safe_applyPT _ (entsPT rs) _ rs _ true hmid
      · intro e he hren
        exact ⟨List.mem_map.mpr ⟨e, he, rfl⟩, rendered_name_ne hg hass hrs e he hren⟩
      intro s5 b hm5
      have hg5 := hm5.good
      have hgx : sem.exec s5 .getXR = (s5, .xr s5.xrFin s5.xrRv s5.refs) := exec_getXR s5
      have hfail : ∀ r, sem.errResp .fail r = .err := fun _ => rfl
      have hgetc : sem.errResp .conflict .getXR = .err := rfl
      simp only [Safe, hgx, hfail, hgetc]
      refine ⟨hg5, ?_, safe_onError hg5 _, safe_onError hg5 _⟩
      apply safe_wcall hg5
      · rw [exec_patchXR]; exact hg5
      · intro _ _; rw [exec_patchXR]; exact safe_finish hg5 _ _

/-- Reconcile is safe as soon as the composer body is (for every local resourceVersion and
from every good store with the same references and objects). -/
theorem safe_reconcileT_of_body {s : St} (hg : Good s) (tries : Nat) (m : Mode)
    (hbody : ∀ (s' : St) (lrv : Nat), Good s' → s'.refs = s.refs → s'.miss = s.miss →
      Safe sem Good (match m with
        | .fn out ch => composeFnT tries lrv s.refs out ch
        | .pt tmpl fresh ver => composePTT tries lrv s.refs tmpl fresh ver) s') :
    Safe sem Good (reconcileT tries m) s := by
  unfold reconcileT recContT
  have hread : sem.errResp .conflict (.addFinalizer s.xrRv) = .conflict := rfl
  have hfail : ∀ r, sem.errResp .fail r = .err := fun _ => rfl
  have hgx : sem.exec s .getXR = (s, .xr s.xrFin s.xrRv s.refs) := exec_getXR s
  have haf : sem.exec s (.addFinalizer s.xrRv) = ({ s with xrFin := true, xrRv := s.xrRv + 1 }, .okRv (s.xrRv + 1)) :=
    exec_addFinalizer s
  have hg1 : Good { s with xrFin := true, xrRv := s.xrRv + 1 } := hg.congr rfl rfl rfl
  have hgetc : sem.errResp .conflict .getXR = .err := rfl
  simp only [Safe, hgx, hfail, hgetc]
  refine ⟨hg, ?_, trivial, trivial⟩
  by_cases hf : s.xrFin = true
  · rw [if_pos hf]
    exact hbody s _ hg rfl rfl
  · rw [if_neg hf]
    simp only [Safe, haf, hfail, hread]
    exact ⟨hg1, hbody _ _ hg1 rfl rfl, safe_onError hg _, safe_onConflict _⟩

theorem safe_reconcileT_fn {s : St} (hg : Good s) (tries : Nat) (out : Obs → FnOut) (ch : Choices)
    (ho : OutOK out) (hc : ChOK ch) (hfm : FreshAvoids s.miss ch.fresh) :
    Safe sem Good (reconcileT tries (.fn out ch)) s := by
  apply safe_reconcileT_of_body hg tries
  intro s' lrv hg' hr hmiss
  simp only []
  rw [← hr]
  exact safe_composeFnT hg' tries lrv out ch ho hc (hmiss ▸ hfm)

theorem safe_reconcileT_pt {s : St} (hg : Good s) (tries : Nat) (tmpl : List Desired) (fresh : List String) (ver : String)
    (ht : TmplOK tmpl fresh) (hfm : FreshAvoids s.miss fresh) : Safe sem Good (reconcileT tries (.pt tmpl fresh ver)) s := by
  apply safe_reconcileT_of_body hg tries
  intro s' lrv hg' hr hmiss
  simp only []
  rw [← hr]
  exact safe_composePTT hg' tries lrv tmpl fresh ver ht (hmiss ▸ hfm)

/-! ### histories, a different set of cache misses per reconcile -/

/-- every store visible at some instant of a history of reconciles; each reconcile runs under
its own fault plan, with its own inputs, and with its own set of cache misses (set when the
reconcile starts; controller-local state is lost in between) -/
def reachRoundsT (tries : Nat) : List (List Ref × Plan × Mode) → St → List St
  | [], s => [s]
  | (ms, pl, m) :: rest, s =>
    reach sem pl 0 (reconcileT tries m) { s with miss := ms } ++
      reachRoundsT tries rest (run sem pl 0 (reconcileT tries m) { s with miss := ms }).1

/-- the store such a history ends in -/
def runRoundsT (tries : Nat) : List (List Ref × Plan × Mode) → St → St
  | [], s => s
  | (ms, pl, m) :: rest, s => runRoundsT tries rest (run sem pl 0 (reconcileT tries m) { s with miss := ms }).1

theorem runRoundsT_mem_reachRoundsT (tries : Nat) : ∀ (h : List (List Ref × Plan × Mode)) (s : St), runRoundsT tries h s ∈ reachRoundsT tries h s := by
  intro h
  induction h with
  | nil => intro s; simp [runRoundsT, reachRoundsT]
  | cons x rest ih =>
    obtain ⟨ms, pl, m⟩ := x
    intro s
    simp only [runRoundsT, reachRoundsT, List.mem_append]
    exact Or.inr (ih _)

theorem reachRoundsT_inv (tries : Nat) (Inv : St → Prop) (ok : List Ref → Mode → Prop)
    (hmiss : ∀ s ms, Inv s → Inv { s with miss := ms })
    (hrec : ∀ (s : St) (pl : Plan) (m : Mode), Inv s → ok s.miss m → ∀ s' ∈ reach sem pl 0 (reconcileT tries m) s, Inv s') :
    ∀ (h : List (List Ref × Plan × Mode)), (∀ x ∈ h, ok x.1 x.2.2) → ∀ s, Inv s → ∀ s' ∈ reachRoundsT tries h s, Inv s' := by
  intro h
  induction h with
  | nil => intro _ s hs s' hm; simp [reachRoundsT] at hm; subst hm; exact hs
  | cons x rest ih =>
    obtain ⟨ms, pl, m⟩ := x
    intro hok s hs s' hm
    simp only [reachRoundsT, List.mem_append] at hm
    have hx : ok ms m := hok _ (List.mem_cons_self ..)
    have h1 := hrec { s with miss := ms } pl m (hmiss s ms hs) hx
    rcases hm with hm | hm
    · exact h1 s' hm
    · exact ih (fun y hy => hok y (List.mem_cons_of_mem _ hy)) _ (h1 _ (run_mem_reach sem pl 0 _ _)) s' hm

/-! ### quiescence: no name is generated from a settled store -/

theorem renderFnT_all_observed (tries : Nat) (lrv : Nat) (obs : Obs) (k : List Named → P) :
    ∀ (ds : List Desired) (fresh : List String) (acc : List Named),
      (∀ d ∈ ds, ∃ o, obsLookup obs d.rname = some o) →
      renderFnT tries lrv obs ds fresh acc k =
        k (acc.reverse ++ ds.map fun d => ⟨d, ((obsLookup obs d.rname).map (·.name)).getD "", false⟩) := by
  intro ds
  induction ds with
  | nil => intro fresh acc _; simp [renderFnT]
  | cons d ds ih =>
    intro fresh acc h
    obtain ⟨o, ho⟩ := h d (List.mem_cons_self ..)
    simp only [renderFnT, ho]
    rw [ih fresh _ (fun d' hd' => h d' (List.mem_cons_of_mem _ hd'))]
    simp [ho]

theorem renderPTT_all_assoc (tries : Nat) (lrv : Nat) (a : Assoc) (k : List Rendered → P) :
    ∀ (es : List Rendered) (fresh : List String) (acc : List Rendered),
      (∀ e ∈ es, e.rendered = true ∧ assocLookup a e.d.rname = some (rkey e)) →
      renderPTT tries lrv a (es.map (·.d)) fresh acc k = k (acc.reverse ++ es) := by
  intro es
  induction es with
  | nil => intro fresh acc _; simp [renderPTT]
  | cons e es ih =>
    intro fresh acc h
    obtain ⟨hr, hl⟩ := h e (List.mem_cons_self ..)
    simp only [List.map_cons, renderPTT, hl, rkey, if_true]
    rw [ih fresh _ (fun x hx => h x (List.mem_cons_of_mem _ hx))]
    have : (⟨e.d, e.name, true⟩ : Rendered) = e := by cases e; simp_all
    simp [this]

/-- `quiescent_fn` for the reconcile whose name generator tries `tries` candidates (no name is generated from a settled store, so the number of tries does not matter) -/
theorem quiescent_fnT (tries : Nat) {s : St} {names : List Named} (h : Settled s names) (ch : Choices) (hc : ChOK ch)
    (hv : ch.ver = s.refsVer) :
    runOk (reconcileT tries (.fn (fun _ => .desired (names.map (·.d))) ch)) s = (s, some .success) := by
  have hg := h.good
  -- the settled object behind a reference
  have hobjOf : ∀ o ∈ s.objs, key o ∈ s.refs → ∃ n ∈ names, key o = nkey n ∧ o.annot = n.d.rname ∧ o.ctrl = .xr := by
    intro o ho hk
    rw [h.refs] at hk
    obtain ⟨e, he, hke⟩ := (mem_refsOf names _).mp hk
    obtain ⟨n, hn, rfl⟩ := List.mem_map.mp he
    obtain ⟨o2, ho2, hk2, ha2, hc2, _⟩ := h.obj n hn
    have : o = o2 := eq_of_key_eq hg.nodup ho ho2 (by rw [hke, hk2])
    subst this
    exact ⟨n, hn, hk2, ha2, hc2⟩
  have hclean : ∀ o ∈ s.objs, key o ∈ s.refs → o.ctrl ≠ .other → o.annot ≠ "" := by
    intro o ho hk _
    obtain ⟨n, hn, _, ha, _⟩ := hobjOf o ho hk
    rw [ha]; exact h.rnameNe n hn
  unfold reconcileT recContT
  rw [runOk_call, exec_getXR]
  simp only [h.fin, if_true]
  unfold composeFnT
  have hinit : ObsOKp s [] [] := by
    refine ⟨?_, ?_, ?_⟩
    · intro o _ hk; cases hk
    · intro a o hl; simp [obsLookup] at hl
    · intro p hp; cases hp
  have hkey : ∀ K : Obs → P, (∀ obs, ObsOKp s s.refs obs → runOk (K obs) s = (s, some .success)) →
      runOk (observeFn s.xrRv s.refs [] K) s = (s, some .success) := by
    intro K hK
    obtain ⟨obs, hobs, hrun⟩ := runOk_observeFn hg s.xrRv K hclean s.refs [] [] (fun r hr => hr)
      (by intro r hr; cases hr) hinit
    rw [hrun]
    exact hK obs (by simpa using hobs)
  apply hkey
  intro obs hobs
  simp only []
  -- every desired resource is observed, as its settled object
  have hlook : ∀ n ∈ names, ∃ o, obsLookup obs n.d.rname = some o ∧ o.name = n.name := by
    intro n hn
    obtain ⟨o, ho, hk, ha, hcx, _⟩ := h.obj n hn
    have hkr : key o ∈ s.refs := by rw [h.refs, hk]; exact (mem_refsOf names _).mpr ⟨_, List.mem_map.mpr ⟨n, hn, rfl⟩, rfl⟩
    have := (hobs.1 o ho hkr (by rw [hcx]; decide)).2
    rw [ha] at this
    exact ⟨o, this, by have := congrArg Ref.name hk; simpa [key, nkey] using this⟩
  rw [renderFnT_all_observed _ _ _ _ _ _ _ (by
    intro d hd
    obtain ⟨n, hn, rfl⟩ := List.mem_map.mp hd
    obtain ⟨o, ho, _⟩ := hlook n hn
    exact ⟨o, ho⟩)]
  have hnamed : (names.map (·.d)).map (fun d => (⟨d, ((obsLookup obs d.rname).map (·.name)).getD "", false⟩ : Named)) = names := by
    rw [List.map_map]
    conv => rhs; rw [← List.map_id names]
    apply List.map_congr_left
    intro n hn
    obtain ⟨o, ho, hnm⟩ := hlook n hn
    have hg' := h.noGen n hn
    cases n
    simp_all
  simp only [List.reverse_nil, List.nil_append, hnamed]
  -- nothing to garbage collect
  have hund : (obs.filter fun p => !((names.map (·.d)).any (·.rname = p.1))).map (·.2) = [] := by
    rw [List.map_eq_nil_iff, List.filter_eq_nil_iff]
    intro p hp
    obtain ⟨hm, _, ha, hk⟩ := hobs.2.2 p hp
    obtain ⟨n, hn, _, han, _⟩ := hobjOf p.2 hm hk
    simp only [Bool.not_eq_true', Bool.not_eq_false, List.any_eq_true, List.mem_map, decide_eq_true_eq]
    exact ⟨n.d, ⟨n, hn, rfl⟩, by rw [← ha, han]⟩
  have hgc : ch.gcOrder [] = [] := List.eq_nil_iff_forall_not_mem.mpr (fun x hx => by
    have := (hc.gc [] x).mp hx; cases this)
  rw [hund, hgc]
  simp only [gcFn, wcall]
  -- the references are already the ones the composer would write
  have hpatch : exec s (.patchRefs ch.ver (refsOf names)) = (s, .ok) := by simp [exec, h.refs, hv, h.applied]
  rw [runOk_call, hpatch]
  simp only []
  rw [runOk_applyFn_settled h _ _ _ true (fun n hn => (hc.apply _ _).mp hn)]
  rw [runOk_call, exec_statusPatch]
  simp only [finish]
  rw [runOk_call, exec_statusUpdate_ok]
  rfl

/-- `QuietPT.quiescent_pt` for the reconcile whose name generator tries `tries` candidates -/
theorem QuietPT.quiescent_ptT (tries : Nat) {s : St} {tmpl : List Desired} {names : List String} (h : SettledPT s tmpl names)
    (fresh : List String) (ver : String) (hv : s.refs = [] ∨ ver = s.refsVer)
    (hcached : ∀ r ∈ s.refs, r ∉ s.miss) :
    runOk (reconcileT tries (.pt tmpl fresh ver)) s = (s, some .success) := by
  have hent : ∀ e ∈ renderedOf tmpl names, EntryPT s tmpl e := h.entry
  have hrefs : s.refs = (renderedOf tmpl names).map rkey := by rw [renderedOf_map_rkey]; exact h.refs
  have hd : (renderedOf tmpl names).map (·.d) = tmpl := renderedOf_map_d tmpl names h.len
  have hnd : ((renderedOf tmpl names).map (·.d.rname)).Nodup := by
    have : (renderedOf tmpl names).map (·.d.rname) = ((renderedOf tmpl names).map (·.d)).map (·.rname) := by
      rw [List.map_map]; rfl
    rw [this, hd]; exact h.nodup
  unfold reconcileT recContT
  rw [runOk_call, exec_getXR]
  simp only [h.fin, if_true]
  unfold composePTT
  conv => lhs; arg 1; arg 3; rw [hrefs]
  rw [runOk_associatePT_settled _ _ _ _ _ hent]
  simp only []
  conv => lhs; arg 1; arg 4; rw [← hd]
  rw [renderPTT_all_assoc _ _ _ _ _ _ _ (fun e he => ⟨(hent e he).rendered, assocOf_lookup _ [] hnd e he⟩)]
  simp only [List.reverse_nil, List.nil_append, wcall, ← hrefs]
  rw [runOk_call, exec_updateXR_settled hv]
  simp only []
  rw [runOk_applyPT_settled h.nodupObjs _ _ _ true hent
    (fun e he => hcached _ (by rw [hrefs]; exact List.mem_map.mpr ⟨e, he, rfl⟩))]
  rw [runOk_call, exec_getXR]
  simp only []
  rw [runOk_call, exec_patchXR]
  simp only [finish]
  rw [runOk_call, exec_statusUpdate_ok]
  rfl

end Xp.C01

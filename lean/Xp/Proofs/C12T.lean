import Xp.Proofs.C12I
/-
C12, interference, Part B: "after a reconcile that returned without error the revision of
the content it read has the strictly highest number" still holds when THIRD PARTIES act
on the store between any two API calls of the reconcile — everybody who is not a revision
controller: users editing / deleting-marking / re-creating Compositions and editing XRs,
a backup/restore tool or another controller stripping or replacing the owner references of
revisions (`RelyT`: the revisions keep everything but owner and resourceVersion) — and
when any call is answered with any error class. The reconcile reads fresh lists here
(`sem`); with a lagging list the statement is false (finding D22, see `Props/C12.lean`).
-/
namespace Xp.C12

variable {H : Naming} {D : Content → Prop}

/-- what third parties may do between two API calls: anything to Compositions (within the
domain of contents) and XRs; of a revision they may change the owner reference (and with
it the resourceVersion), nothing else; they neither create nor delete revisions -/
def RelyT (D : Content → Prop) (s s' : Store) : Prop :=
  s'.revs.map er = s.revs.map er ∧ ∀ c ∈ s'.comps, D c.content

theorem RelyT.wf {s s' : Store} (h : RelyT D s s') (w : WF H D s) : WF H D s' := WF.of_map_er h.1 h.2 w

/-- rely-aware weakest precondition: from `s`, whatever third parties do before each call
and whichever error class a call is answered with, a returned result satisfies `Post` -/
def SafeE {α : Type} (D : Content → Prop) (Post : α → Store → Prop) : P α → Store → Prop
  | .ret a, s => Post a s
  | .call r c, s => ∀ s', RelyT D s s' →
      SafeE D Post (c (exec s' r).2) (exec s' r).1 ∧ ∀ e : Resp, e.isErr = true → SafeE D Post (c e) s'

theorem safeE_run {α : Type} {Post : α → Store → Prop} (env : Env Store) (henv : ∀ k s, RelyT D s (env k s))
    (plan : FPlan) (hplan : plan.errOnly) :
    ∀ (p : P α) (k : Nat) (s : Store), SafeE D Post p s →
      ∀ a, (runX (fun _ => sem) env plan k p s).2 = some a → Post a (runX (fun _ => sem) env plan k p s).1 := by
  intro p
  induction p with
  | ret a => intro k s h b hb; simp only [runX] at hb ⊢; cases hb; exact h
  | call r c ih =>
    intro k s h a ha
    obtain ⟨h1, h2⟩ := h (env k s) (henv k s)
    unfold runX at ha ⊢
    cases hk : plan k with
    | reply e => simp only [hk] at ha ⊢; exact ih e (k+1) _ (h2 e (hplan k e hk)) a ha
    | out o =>
      cases o with
      | ok => simp only [hk] at ha ⊢; exact ih _ (k+1) _ h1 a ha
      | fail => simp only [hk] at ha ⊢; exact ih _ (k+1) _ (h2 _ (errResp_isErr .fail r)) a ha
      | conflict => simp only [hk] at ha ⊢; exact ih _ (k+1) _ (h2 _ (errResp_isErr .conflict r)) a ha
      | crashBefore => simp only [hk] at ha; cases ha
      | crashAfter => simp only [hk] at ha; cases ha

/-- the held revision `r` is, up to owner and resourceVersion, a revision of the store -/
def Corr (s : Store) (r : Rev) : Prop := ∃ x ∈ s.revs, er x = er r

theorem Corr.rely {s s' : Store} {r : Rev} (h : s'.revs.map er = s.revs.map er) (c : Corr s r) : Corr s' r := by
  obtain ⟨x, hx, e⟩ := c
  obtain ⟨y, hy, e'⟩ := mem_of_map_er h.symm hx
  exact ⟨y, hy, e'.trans e⟩

theorem exec_updateRev_cases (s : Store) (b r : Rev) :
    exec s (.updateRev b r) = (s, .notFound) ∨ exec s (.updateRev b r) = (s, .conflict) ∨
    (b ∈ s.revs ∧ b.name = r.name ∧
      exec s (.updateRev b r) =
        ({ s with revs := replaceRev { r with rv := b.rv + 1 } s.revs }, .rev { r with rv := b.rv + 1 })) := by
  cases hf : s.revs.find? (fun x => decide (x.name = r.name)) with
  | none => left; simp only [exec, hf]
  | some x =>
    by_cases hx : x = b
    · subst hx
      right; right
      refine ⟨List.mem_of_find?_eq_some hf, ?_, ?_⟩
      · have := List.find?_some hf; simpa using this
      · simp only [exec, hf, if_true, replaceRev]
    · right; left; simp only [exec, hf, hx, if_false]

/-- a result that promises nothing -/
def Quiet (res : Res) : Prop := res ≠ .done ∧ res ≠ .created

theorem quiet_err : Quiet .err := ⟨fun h => (by cases h), fun h => (by cases h)⟩
theorem quiet_requeue : Quiet .requeue := ⟨fun h => (by cases h), fun h => (by cases h)⟩

/-- adoption loop under third-party interference: on exit the controller holds the listed
revisions (up to owner / resourceVersion), all controlled, and the store still is the one
that was listed up to owners / resourceVersions -/
theorem adopt_safeE (uid : Nat) {Post : Res → Store → Prop} (hq : ∀ res s, Quiet res → Post res s) :
    ∀ (l : List Rev) (s : Store) (k : List Rev → P Res), WF H D s →
      (∀ l' s', WF H D s' → s'.revs.map er = s.revs.map er → l'.map er = l.map er →
          (∀ x ∈ l', x.ctrl = some uid) → SafeE D Post (k l') s') →
      SafeE D Post (adoptLoop uid l k) s := by
  intro l
  induction l with
  | nil =>
    intro s k w hk
    simp only [adoptLoop]
    exact hk [] s w rfl rfl (fun _ h => by cases h)
  | cons r rs ih =>
    intro s k w hk
    simp only [adoptLoop]
    split
    · rename_i hctrl
      apply ih s _ w
      intro l' s' w' e1 e2 h3
      apply hk (r :: l') s' w' e1 (by simp [e2])
      intro x hx
      rcases List.mem_cons.mp hx with e | hx'
      · rw [e]; exact hctrl
      · exact h3 x hx'
    · have herr : ∀ (s'' : Store), SafeE D Post (.ret .err : P Res) s'' :=
        fun s'' => hq _ _ quiet_err
      split
      · exact herr s
      · intro s' hrel
        have w' : WF H D s' := hrel.wf w
        refine ⟨?_, ?_⟩
        · rcases exec_updateRev_cases s' r { r with ctrl := some uid } with h | h | ⟨hm, _, h⟩
          · rw [h]; exact herr _
          · rw [h]; exact herr _
          · rw [h]
            simp only []
            have her : er ({ r with ctrl := some uid, rv := r.rv + 1 } : Rev) = er r := by simp [er]
            have e0 : (replaceRev ({ r with ctrl := some uid, rv := r.rv + 1 } : Rev) s'.revs).map er = s'.revs.map er :=
              replaceRev_er w'.names hm rfl her
            have w'' : WF H D ({ s' with revs := replaceRev ({ r with ctrl := some uid, rv := r.rv + 1 } : Rev) s'.revs } : Store) :=
              WF.of_map_er e0 w'.comps w'
            apply ih _ _ w''
            intro l' s3 w3 e1 e2 h3
            apply hk (_ :: l') s3 w3 (e1.trans (e0.trans hrel.1)) (by simp [e2, her])
            intro x hx
            rcases List.mem_cons.mp hx with e | hx'
            · rw [e]
            · exact h3 x hx'
        · intro e he
          cases e <;> first | exact herr _ | (simp [Resp.isErr] at he)

/-- the current hash `h` of composition `cn` is matched by a revision with the strictly
highest number of `cn`'s revisions (who controls it is up to the environment) -/
def GoodH' (cn h : String) (s : Store) : Prop :=
  ∃ r ∈ s.revs, r.comp = cn ∧ r.hash = h ∧ ∀ x ∈ s.revs, x.comp = cn → x.name ≠ r.name → x.num < r.num

theorem GoodH'.rely {cn h : String} {s s' : Store} (e : s'.revs.map er = s.revs.map er) (g : GoodH' cn h s) :
    GoodH' cn h s' := by
  obtain ⟨r, hr, g1, g2, g3⟩ := g
  obtain ⟨r', hr', e'⟩ := mem_of_map_er e.symm hr
  refine ⟨r', hr', (er_comp e').trans g1, (er_hash e').trans g2, ?_⟩
  intro x hx hxc hxn
  obtain ⟨y, hy, ey⟩ := mem_of_map_er e hx
  have := g3 y hy ((er_comp ey).trans hxc) (fun hn => hxn ((er_name ey).symm.trans (hn.trans (er_name e').symm)))
  rw [er_num ey, ← er_num e'] at this
  exact this

/-- loop invariant of the renumbering loop, stable under third-party interference -/
def RI' (cn h : String) (latest : Nat) (rem : List Rev) (s : Store) (ex : Nat) : Prop :=
  (ex = 0 ∧ (∀ x ∈ s.revs, x.comp = cn → x.num ≤ latest) ∧
    (∀ x ∈ s.revs, x.comp = cn → x.hash = h → ∃ y ∈ rem, y.name = x.name) ∧
    (∀ r ∈ rem, r.comp = cn ∧ Corr s r)) ∨
  ((∀ r ∈ rem, r.hash ≠ h) ∧ 1 ≤ ex ∧ GoodH' cn h s)

theorem RI'.rely {cn h : String} {latest : Nat} {rem : List Rev} {s s' : Store} {ex : Nat}
    (e : s'.revs.map er = s.revs.map er) (ri : RI' cn h latest rem s ex) : RI' cn h latest rem s' ex := by
  rcases ri with ⟨a0, a1, a2, a3⟩ | ⟨b1, b2, b3⟩
  · refine Or.inl ⟨a0, ?_, ?_, ?_⟩
    · intro x hx hxc
      obtain ⟨y, hy, ey⟩ := mem_of_map_er e hx
      rw [← er_num ey]; exact a1 y hy ((er_comp ey).trans hxc)
    · intro x hx hxc hxh
      obtain ⟨y, hy, ey⟩ := mem_of_map_er e hx
      obtain ⟨z, hz, ez⟩ := a2 y hy ((er_comp ey).trans hxc) ((er_hash ey).trans hxh)
      exact ⟨z, hz, ez.trans (er_name ey)⟩
    · intro r hr; exact ⟨(a3 r hr).1, (a3 r hr).2.rely e⟩
  · exact Or.inr ⟨b1, b2, b3.rely e⟩

theorem renum_safeE (hi : H.Inj D) (cn h : String) (latest : Nat) {Post : Res → Store → Prop}
    (hq : ∀ res s, Quiet res → Post res s) :
    ∀ (rem : List Rev) (s : Store) (ex : Nat) (k : Nat → P Res), WF H D s →
      rem.Pairwise (fun a b => a.name ≠ b.name) →
      RI' cn h latest rem s ex →
      (∀ ex' s', WF H D s' → RI' cn h latest [] s' ex' → SafeE D Post (k ex') s') →
      SafeE D Post (renumLoop h latest rem ex k) s := by
  intro rem
  induction rem with
  | nil =>
    intro s ex k w _ hri hk
    simp only [renumLoop]
    exact hk ex s w hri
  | cons r rs ih =>
    intro s ex k w hpw hri hk
    obtain ⟨hr_rs, hpw_rs⟩ := List.pairwise_cons.mp hpw
    simp only [renumLoop]
    split
    · -- hash differs: skip
      rename_i hne
      apply ih s ex k w hpw_rs _ hk
      rcases hri with ⟨a0, a1, a2, a3⟩ | ⟨b1, b2, b3⟩
      · refine Or.inl ⟨a0, a1, ?_, fun x hx => a3 x (List.mem_cons_of_mem _ hx)⟩
        intro x hx hxc hxh
        obtain ⟨y, hy, ey⟩ := a2 x hx hxc hxh
        rcases List.mem_cons.mp hy with e | hy'
        · -- y = r: then r corresponds to x itself, whose hash is h
          exfalso
          obtain ⟨x0, hx0, e0⟩ := (a3 r (List.mem_cons_self ..)).2
          have hn : x0.name = x.name := (er_name e0).trans ((e ▸ ey : r.name = x.name))
          have : x0 = x := eq_of_name_eq w.names hx0 hx hn
          exact hne (by rw [← er_hash e0, this]; exact hxh)
        · exact ⟨y, hy', ey⟩
      · exact Or.inr ⟨fun x hx => b1 x (List.mem_cons_of_mem _ hx), b2, b3⟩
    · rename_i hh
      have hh : r.hash = h := by
        by_cases e : r.hash = h
        · exact e
        · exact absurd e hh
      -- we are necessarily in the phase where nothing matched yet
      obtain ⟨a0, a1, a2, a3⟩ : ex = 0 ∧ (∀ x ∈ s.revs, x.comp = cn → x.num ≤ latest) ∧
          (∀ x ∈ s.revs, x.comp = cn → x.hash = h → ∃ y ∈ r :: rs, y.name = x.name) ∧
          (∀ r' ∈ r :: rs, r'.comp = cn ∧ Corr s r') := by
        rcases hri with a | ⟨b1, _, _⟩
        · exact a
        · exact absurd hh (b1 r (List.mem_cons_self ..))
      obtain ⟨hrc, x0, hx0, e0⟩ := a3 r (List.mem_cons_self ..)
      have hx0c : x0.comp = cn := (er_comp e0).trans hrc
      have hx0h : x0.hash = h := (er_hash e0).trans hh
      -- no other remaining revision carries this hash (it would be the same stored object)
      have huniq : ∀ x ∈ rs, x.hash ≠ h := by
        intro x hx e
        obtain ⟨hxc, y0, hy0, ey⟩ := a3 x (List.mem_cons_of_mem _ hx)
        have := w.name_of_hash hi hy0 hx0 (((er_comp ey).trans hxc).trans hx0c.symm)
          (((er_hash ey).trans e).trans hx0h.symm)
        exact hr_rs x hx ((er_name e0).symm.trans (this.symm.trans (er_name ey)))
      split
      · -- already the highest number
        rename_i hnum
        have hpos : 1 ≤ r.num := by rw [← er_num e0]; exact w.pos x0 hx0
        have g : GoodH' cn h s := by
          refine ⟨x0, hx0, hx0c, hx0h, ?_⟩
          intro x hx hxc hxn
          have h1 : x.num ≤ x0.num := by rw [er_num e0, hnum]; exact a1 x hx hxc
          have h2 : x.num ≠ x0.num := fun e => hxn (w.nums x hx x0 hx0 (hxc.trans hx0c.symm) e)
          exact Nat.lt_of_le_of_ne h1 h2
        exact ih s r.num k w hpw_rs (Or.inr ⟨huniq, hpos, g⟩) hk
      · -- renumber to latest+1
        rename_i hnum
        intro s' hrel
        have w' : WF H D s' := hrel.wf w
        have herr : ∀ (res : Res) (s'' : Store), Quiet res → SafeE D Post (.ret res : P Res) s'' :=
          fun res s'' q => hq _ _ q
        have qe : Quiet .err := quiet_err
        have qr : Quiet .requeue := quiet_requeue
        refine ⟨?_, ?_⟩
        · rcases exec_updateRev_cases s' r { r with num := latest + 1 } with e | e | ⟨hm, _, e⟩
          · rw [e]; exact herr _ _ qe
          · rw [e]; exact herr _ _ qr
          · rw [e]
            simp only []
            -- the stored revision is `r` itself
            have a1' : ∀ x ∈ s'.revs, x.comp = cn → x.num ≤ latest := by
              intro x hx hxc
              obtain ⟨y, hy, ey⟩ := mem_of_map_er hrel.1 hx
              rw [← er_num ey]; exact a1 y hy ((er_comp ey).trans hxc)
            have hrl : r.num ≤ latest := a1' r hm hrc
            let r1 : Rev := { r with num := latest + 1, rv := r.rv + 1 }
            have hsame : Same r r1 := ⟨rfl, rfl, rfl, rfl, rfl, Nat.le_succ_of_le hrl⟩
            have hfresh : ∀ x ∈ s'.revs, x.comp = r1.comp → x.num = r1.num → x.name = r1.name := by
              intro x hx hc hn
              have : x.num ≤ latest := a1' x hx (hc.trans hrc)
              have hn' : x.num = latest + 1 := hn
              omega
            obtain ⟨w1, _⟩ := update_ok w' hm hsame hfresh
            have hpos : 1 ≤ r.num := w'.pos r hm
            have g : GoodH' cn h ({ s' with revs := replaceRev r1 s'.revs } : Store) := by
              refine ⟨r1, mem_replaceRev_self hm rfl, hrc, hh, ?_⟩
              intro x hx hxc hxn
              rcases mem_replaceRev hx with ⟨e', _⟩ | ⟨hx', _⟩
              · exact absurd (e' ▸ rfl) hxn
              · have : x.num ≤ latest := a1' x hx' hxc
                show x.num < latest + 1
                omega
            exact ih _ r.num k w1 hpw_rs (Or.inr ⟨huniq, hpos, g⟩) hk
        · intro e he
          cases e <;> first | exact herr _ _ qe | exact herr _ _ qr | (simp [Resp.isErr] at he)

/-- what a successful reconcile establishes for the Composition it read, whatever third
parties did meanwhile: the revision of that content exists, is faithful, and has the
strictly highest number among the revisions of that Composition (who controls it is up to
the environment: a backup tool may strip the owner reference again at any moment) -/
def Good' (H : Naming) (c : Comp) (s : Store) : Prop :=
  ∃ r ∈ s.revs, r.comp = c.name ∧ r.hash = H.hash c.content ∧ r.spec = toRevisionSpec c.content.spec ∧
    r.labels = c.content.labels ∧ ∀ x ∈ s.revs, x.comp = c.name → x.name ≠ r.name → x.num < r.num

theorem goodH'_good' (hi : H.Inj D) {s : Store} (w : WF H D s) {c : Comp}
    (hD : D c.content) (g : GoodH' c.name (H.hash c.content) s) : Good' H c s := by
  obtain ⟨r, hr, hc, hh, hmax⟩ := g
  obtain ⟨c', d', _, h2, h3, h4⟩ := w.faithful r hr
  have : c' = c.content := hi.hash _ _ d' hD (h2 ▸ hh)
  exact ⟨r, hr, hc, hh, this ▸ h3, this ▸ h4, hmax⟩

/-- the reconcile after its `Get` returned Composition `c` -/
def recTail (H : Naming) (c : Comp) : P Res :=
  if c.deleting then .ret .done else
  .call (.listRevs [] c.name) fun
  | .revs l =>
    adoptLoop c.uid l fun l' =>
      let latest := latestNum c.uid l'
      renumLoop (H.hash c.content) latest l' 0 fun ex =>
        if ex > 0 then .ret .done
        else .call (.createRev (newRev H c (latest + 1))) fun
          | .ok => .ret .created
          | _ => .ret .err
  | _ => .ret .err

theorem reconcile_eq (H : Naming) (name : String) :
    reconcile H name = .call (.getComp name) fun
      | .comp c => recTail H c
      | .notFound => .ret .done
      | _ => .ret .err := by
  unfold reconcile recTail
  rfl

@[reducible] def PostT (H : Naming) (c : Comp) : Res → Store → Prop :=
  fun res s => (res = .done ∨ res = .created) → c.deleting = false → Good' H c s

theorem postT_quiet (c : Comp) : ∀ res s, Quiet res → PostT H c res s := by
  intro res s q h
  rcases h with h | h
  · exact absurd h q.1
  · exact absurd h q.2

theorem recTail_safeE (hi : H.Inj D) (c : Comp) (hD : D c.content) (s : Store) (w : WF H D s) :
    SafeE D (PostT H c) (recTail H c) s := by
  have hq := postT_quiet (H := H) c
  have herr : ∀ (s'' : Store), SafeE D (PostT H c) (.ret .err : P Res) s'' := fun s'' => hq _ _ quiet_err
  unfold recTail
  split
  · rename_i hdel
    intro _ hd; rw [hdel] at hd; cases hd
  · intro s' hrel
    have w' : WF H D s' := hrel.wf w
    refine ⟨?_, ?_⟩
    · rw [exec_listRevs_nil]
      simp only []
      have hsub : (s'.revs.filter fun r => decide (r.comp = c.name)).Sublist s'.revs := List.filter_sublist
      apply adopt_safeE c.uid hq _ s' _ w'
      intro l' s2 w2 e1 e2 h3
      -- facts about the list the controller now holds
      have hl'comp : ∀ x ∈ l', x.comp = c.name := by
        intro x hx
        obtain ⟨y, hy, e⟩ := mem_of_map_er e2 hx
        have := (List.mem_filter.mp hy).2
        rw [← er_comp e]; simpa using this
      have hl'pw : l'.Pairwise (fun a b => a.name ≠ b.name) :=
        pairwise_names_of_map (names_of_map_er e2) (w'.names.sublist hsub)
      -- every revision of the composition in the store corresponds to a held one
      have hcover : ∀ x ∈ s2.revs, x.comp = c.name → ∃ z ∈ l', er z = er x := by
        intro x hx hxc
        obtain ⟨y, hy, e⟩ := mem_of_map_er e1 hx
        have hyc : y.comp = c.name := (er_comp e).trans hxc
        have hyl : y ∈ s'.revs.filter fun r => decide (r.comp = c.name) :=
          List.mem_filter.mpr ⟨hy, by simpa using hyc⟩
        have : er y ∈ l'.map er := e2 ▸ List.mem_map_of_mem hyl
        obtain ⟨z, hz, ez⟩ := List.mem_map.mp this
        exact ⟨z, hz, ez.trans e⟩
      have hcorr : ∀ z ∈ l', Corr s2 z := by
        intro z hz
        obtain ⟨y, hy, e⟩ := mem_of_map_er e2 hz
        have hy' : y ∈ s'.revs := (List.mem_filter.mp hy).1
        obtain ⟨x, hx, ex⟩ := mem_of_map_er e1.symm hy'
        exact ⟨x, hx, ex.trans e⟩
      have hbound : ∀ x ∈ s2.revs, x.comp = c.name → x.num ≤ latestNum c.uid l' := by
        intro x hx hxc
        obtain ⟨z, hz, ez⟩ := hcover x hx hxc
        rw [← er_num ez]
        exact latestNum_ge c.uid l' z hz (h3 z hz)
      apply renum_safeE hi c.name (H.hash c.content) (latestNum c.uid l') hq l' s2 0 _ w2 hl'pw
      · refine Or.inl ⟨rfl, hbound, ?_, fun z hz => ⟨hl'comp z hz, hcorr z hz⟩⟩
        intro x hx hxc _
        obtain ⟨z, hz, ez⟩ := hcover x hx hxc
        exact ⟨z, hz, er_name ez⟩
      intro ex s3 w3 hri
      split
      · -- a matching revision exists
        rename_i hex
        intro _ _
        rcases hri with ⟨e0, _⟩ | ⟨_, _, g⟩
        · omega
        · exact goodH'_good' hi w3 hD g
      · -- none matched: create revision latest+1
        rename_i hex
        intro s4 hrel4
        have w4 : WF H D s4 := hrel4.wf w3
        have hri4 := hri.rely hrel4.1
        obtain ⟨hle, hnomatch⟩ : (∀ x ∈ s4.revs, x.comp = c.name → x.num ≤ latestNum c.uid l') ∧
            (∀ x ∈ s4.revs, x.comp = c.name → x.hash = H.hash c.content → False) := by
          rcases hri4 with ⟨_, a, a2, _⟩ | ⟨_, b', _⟩
          · exact ⟨a, fun x hx hc hh => by obtain ⟨y, hy, _⟩ := a2 x hx hc hh; cases hy⟩
          · omega
        have hname' : ∀ x ∈ s4.revs, x.name ≠ (newRev H c (latestNum c.uid l' + 1)).name := by
          intro x hx e
          obtain ⟨cx, dx, n1, h1, _, _⟩ := w4.faithful x hx
          have e' : H.name x.comp cx = H.name c.name c.content := n1.symm.trans e
          obtain ⟨ec, ecx⟩ := hi.name _ _ _ _ dx hD e'
          exact hnomatch x hx ec (h1.trans (ecx ▸ rfl))
        refine ⟨?_, ?_⟩
        · rw [exec_createRev_absent hname']
          simp only []
          have hf : Faithful H D (newRev H c (latestNum c.uid l' + 1)) := ⟨c.content, hD, rfl, rfl, rfl, rfl⟩
          intro _ _
          refine ⟨newRev H c (latestNum c.uid l' + 1), mem_insertRev.mpr (Or.inl rfl), rfl, rfl, rfl, rfl, ?_⟩
          intro x hx hxc hxn
          rcases mem_insertRev.mp hx with e | hx'
          · exact absurd (e ▸ rfl) hxn
          · have := hle x hx' hxc
            show x.num < latestNum c.uid l' + 1
            omega
        · intro e he
          cases e <;> first | exact herr _ | (simp [Resp.isErr] at he)
    · intro e he
      cases e <;> first | exact herr _ | (simp [Resp.isErr] at he)

/-- the first call of a reconcile whose `Get` is answered with Composition `c` -/
theorem runX_reconcile_head (env : Env Store) (plan : FPlan) (hp0 : plan 0 = .out .ok) (s : Store)
    (comp : String) (c : Comp) (hc : (env 0 s).comps.find? (·.name = comp) = some c) :
    runX (fun _ => sem) env plan 0 (reconcile H comp) s =
      runX (fun _ => sem) env plan 1 (recTail H c) (env 0 s) := by
  rw [reconcile_eq]
  have e : sem.exec (env 0 s) (.getComp comp) = (env 0 s, .comp c) := by simp only [sem, exec, hc]
  rw [runX]
  simp only [hp0, e]

/-! ### the pinned path of `Fetch` -/

/-- `Fetch` after the XR it read turned out Manual with a referenced revision `p` -/
def manualTail (p : String) : P FRes :=
  .call (.getRev p) fun
  | .rev r => .ret (.rev r)
  | _ => .ret .err

theorem fetch_head_manual (v : Nat → View) (env : Env Store) (plan : FPlan) (hp0 : plan 0 = .out .ok)
    (s : Store) (n : String) (x : XR) (p : String)
    (hx : ((v 0).apply (env 0 s)).xrs.find? (·.name = n) = some x)
    (hpol : x.policy = some .manual) (href : x.ref = some p) :
    runX (fun k => semV (v k)) env plan 0 (fetch n) s = runX (fun k => semV (v k)) env plan 1 (manualTail p) (env 0 s) ∧
    ownX (fun k => semV (v k)) env plan 0 (fetch n) s =
      (env 0 s, .getXR n) :: ownX (fun k => semV (v k)) env plan 1 (manualTail p) (env 0 s) := by
  have e0 : (semV (v 0)).exec (env 0 s) (.getXR n) = (env 0 s, .xr x) := by
    simp only [semV, Req.isWrite, Bool.false_eq_true, if_false, exec, hx]
  unfold fetch manualTail
  constructor
  · rw [runX]; simp only [hp0, e0, hpol, href]; rfl
  · rw [ownX]; simp only [hp0, e0, hpol, href]; rfl

theorem manualTail_own (sm : Nat → Sem Store Req Resp) (env : Env Store) (plan : FPlan) (k : Nat) (s : Store) (p : String) :
    ∀ y ∈ ownX sm env plan k (manualTail p) s, y.2.isWrite = false := by
  intro y hy
  unfold manualTail at hy
  rw [ownX] at hy
  cases h1 : plan k with
  | reply e => simp only [h1] at hy; cases e <;> simp [ownX] at hy
  | out o =>
    cases o <;> simp only [h1] at hy
    · rcases List.mem_cons.mp hy with h | h
      · subst h; rfl
      · cases hr : ((sm k).exec (env k s) (.getRev p)).2 <;> simp [hr, ownX] at h
    · cases hr : ((sm k).errResp .fail (.getRev p)) <;> simp [hr, ownX] at hy
    · cases hr : ((sm k).errResp .conflict (.getRev p)) <;> simp [hr, ownX] at hy
    · cases hy
    · simp only [List.mem_singleton] at hy; subst hy; rfl

theorem manualTail_run (v : Nat → View) (env : Env Store) (plan : FPlan) (hplan : plan.errOnly) (k : Nat) (s : Store)
    (p : String) (r : Rev) (h : (runX (fun k => semV (v k)) env plan k (manualTail p) s).2 = some (.rev r)) :
    r.name = p := by
  have hrev : ∀ (st : Store) (r : Rev), ((semV (v k)).exec st (.getRev p)).2 = .rev r → r.name = p := by
    intro st r h
    simp only [semV, Req.isWrite, Bool.false_eq_true, if_false, exec] at h
    cases hf : ((v k).apply st).revs.find? (fun y => decide (y.name = p)) with
    | none => rw [hf] at h; cases h
    | some y => rw [hf] at h; cases h; exact find_name (f := Rev.name) hf
  unfold manualTail at h
  rw [runX] at h
  cases h1 : plan k with
  | reply e =>
    simp only [h1] at h
    have he := hplan k e h1
    cases e <;> simp [Resp.isErr] at he <;> simp [runX] at h
  | out o =>
    cases o <;> simp only [h1] at h
    · cases hq : ((semV (v k)).exec (env k s) (.getRev p)).2 with
      | rev r' =>
        simp only [hq, runX] at h
        have : r' = r := by simpa using h
        exact this ▸ hrev _ _ hq
      | _ => simp [hq, runX] at h
    · simp [sem, semV, runX] at h
    · simp [sem, semV, runX, Req.isWrite] at h
    · cases h
    · cases h

end Xp.C12

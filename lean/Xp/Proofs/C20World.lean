import Xp.Proofs.C20Peer
/-
C20 helper lemmas, part 13: other writers on EVERY object (packages, CRDs, webhook configurations,
Lock, defaults - not only the TLS secrets) and every class of error reply.

* `semAny er`: a refused call is answered with ANY reply (`er`): the guarantees of our own calls
  (`own_step_keeps_any`, `own_write_shape_any`, `exec_untouched`) and the rely/guarantee results
  (`kept_under_interference_any`, `untouched_under_interference`) do not depend on the class of an error;
* `semK e`: a refused call is answered with an error of class `e`;
  - packages (`install_requests_follow_lists`): every package request of the installer names
    `resolve (buildIndex L) r` where `L` is what OUR List call of that kind returned - the listing of the
    store AT THE MOMENT of that call, whatever another writer did before or does afterwards;
  - CA bundle (`bundle_wp`): every CRD / webhook configuration we write carries tls.crt of the webhook TLS
    secret as it is stored AT THE MOMENT of the write (rely: nobody rewrites a secret holding material).
-/
namespace Xp.C20
open Xp

variable {α β : Type}

@[simp] theorem semAny_exec (er : Outcome → Req → Resp) : (semAny er).exec = exec := rfl
@[simp] theorem semK_exec (e : Err) : (semK e).exec = exec := rfl
@[simp] theorem semK_errResp (e : Err) (o : Outcome) (r : Req) : (semK e).errResp o r = .err e := rfl

/-- `sem` is the case "every refused call is answered with an error of no particular class" -/
theorem semK_other : semK .other = sem := rfl

/-- `semK e` is a case of `semAny` -/
theorem semK_semAny (e : Err) : semK e = semAny (fun _ _ => .err e) := rfl

/-! ### the guarantees of our own calls do not depend on what a refused call is answered with -/

theorem own_step_keeps_any (er : Outcome → Req → Resp) (g : Generator) (steps : List Step) (env : Env Store)
    (plan : Plan) (n : Nat) (s : Store) :
    ∀ x ∈ ownE (semAny er) env plan 0 (runSteps g steps n 0) s, KeptFrom (caNames steps) x.1 (exec x.1 x.2).1 := by
  intro x hx
  have hq := ownE_issues (semAny er) (SafeReq (caNames steps)) env plan 0 _
    (runSteps_issues_safe g steps (caNames steps) (fun _ h => h) n 0) s x hx
  exact exec_kept (keptFrom_refl _ x.1) hq

theorem own_write_shape_any (er : Outcome → Req → Resp) (g : Generator) (steps : List Step) (env : Env Store)
    (plan : Plan) (n : Nat) (s : Store) :
    ∀ x ∈ ownE (semAny er) env plan 0 (runSteps g steps n 0) s, (exec x.1 x.2).1 ≠ x.1 →
      (∀ new, x.2 = .createSecret new → findSecret x.1 new.name = none) ∧
      (∀ old new, x.2 = .updateSecret old new →
        findSecret x.1 new.name = some old ∧ ¬ Protected (caNames steps) old) := by
  intro x hx hch
  have hq := ownE_issues (semAny er) (SafeReq (caNames steps)) env plan 0 _
    (runSteps_issues_safe g steps (caNames steps) (fun _ h => h) n 0) s x hx
  obtain ⟨h1, h2⟩ := exec_write_changed hch
  refine ⟨h1, ?_⟩
  intro old new e
  have hf := h2 old new e
  refine ⟨hf, ?_⟩
  rw [e] at hq
  obtain ⟨q1, q2⟩ := hq
  have hname : old.name = new.name := find_name hf
  rintro (hp | ⟨hp1, hp2⟩)
  · rw [q1] at hp; cases hp
  · rw [hname] at hp1
    rw [q2 hp1] at hp2; cases hp2

theorem kept_under_interference_any (er : Outcome → Req → Resp) (g : Generator) (steps : List Step) (env : Env Store)
    (henv : PeerKeeps (caNames steps) env) (plan : Plan) (n : Nat) (s : Store) :
    KeptFrom (caNames steps) s (runE (semAny er) env plan 0 (runSteps g steps n 0) s).1 :=
  (runE_rel (semAny er) (KeptFrom (caNames steps)) (keptFrom_refl _) (fun _ _ _ => keptFrom_trans)
    (SafeReq (caNames steps)) (fun s r hq => exec_kept (keptFrom_refl _ s) hq) env henv plan 0 _
    (runSteps_issues_safe g steps (caNames steps) (fun _ h => h) n 0) s).1

/-! ### default objects and foreign fields under interference -/

theorem untouched_trans {a b c : Store} (h1 : Untouched a b) (h2 : Untouched b c) : Untouched a c := by
  obtain ⟨a1, a2, a3, a4, a5, a6, a7⟩ := h1
  obtain ⟨b1, b2, b3, b4, b5, b6, b7⟩ := h2
  refine ⟨fun v h => b1 v (a1 v h), fun v h => b2 v (a2 v h), fun v h => b3 v (a3 v h), b4.trans a4, ?_, ?_, ?_⟩
  · intro k n p hp
    obtain ⟨p', hp', e⟩ := a5 k n p hp
    obtain ⟨p'', hp'', e'⟩ := b5 k n p' hp'
    exact ⟨p'', hp'', e'.trans e⟩
  · intro n c hc
    obtain ⟨c', hc', e⟩ := a6 n c hc
    obtain ⟨c'', hc'', e'⟩ := b6 n c' hc'
    exact ⟨c'', hc'', e'.trans e⟩
  · intro k n w hw
    obtain ⟨w', hw', e⟩ := a7 k n w hw
    obtain ⟨w'', hw'', e'⟩ := b7 k n w' hw'
    exact ⟨w'', hw'', e'.trans e⟩

/-- the rely for defaults / foreign fields: the other writers leave them alone too -/
def PeerUntouches (env : Env Store) : Prop := ∀ k s, Untouched s (env k s)

theorem untouched_under_interference (er : Outcome → Req → Resp) (env : Env Store) (henv : PeerUntouches env)
    (plan : Plan) (k : Nat) (p : P α) (s : Store) :
    Untouched s (runE (semAny er) env plan k p s).1 :=
  (runE_rel (semAny er) Untouched untouched_refl (fun _ _ _ => untouched_trans) (fun _ => True)
    (fun s r _ => exec_untouched r (untouched_refl s)) env henv plan k p (issues_true p) s).1

/-- a peer that is an initialiser leaves defaults and foreign fields alone -/
theorem peerInit_untouches (g : Generator) (steps : List Step) (n k0 : Nat) : PeerUntouches (peerInit g steps n k0) := by
  intro k s
  unfold peerInit
  split
  · exact reach_inv sem (Untouched s) (fun _ => True) (fun _ r hi _ => exec_untouched r hi) Plan.allOk 0 _
      (issues_true _) s (untouched_refl s) _ (run_mem_reach sem Plan.allOk 0 _ s)
  · exact untouched_refl s

/-! ### packages: every request of the installer follows what ITS List calls returned -/

/-- `L` is what the List of kind `kd` was answered with, as far as the own applied calls `own` tell: the listing
of the store at the moment of an own `listPkgs kd`, or – only when refused calls are answered NotFound ("the kind
is not served") – nothing. -/
def ListedIn (e : Err) (own : List (Store × Req)) (kd : PKind) (L : List Pkg) : Prop :=
  (e = .notFound ∧ L = []) ∨ ∃ y ∈ own, y.2 = .listPkgs kd ∧ L = listing y.1 kd

theorem listedIn_mono {e : Err} {own own' : List (Store × Req)} {kd : PKind} {L : List Pkg}
    (h : ListedIn e own kd L) (hsub : ∀ y ∈ own, y ∈ own') : ListedIn e own' kd L := by
  rcases h with h | ⟨y, hy, h1, h2⟩
  · exact Or.inl h
  · exact Or.inr ⟨y, hsub y hy, h1, h2⟩

/-- one List call of the installer under interference -/
theorem ownE_listOf (e : Err) (env : Env Store) (plan : Plan) (kd : PKind) (cont : List Pkg → P Res) (k : Nat) (s : Store) :
    ∀ x ∈ ownE (semK e) env plan k (listOf kd cont) s,
      x.2 = .listPkgs kd ∨
      ∃ L, ListedIn e (ownE (semK e) env plan k (listOf kd cont) s) kd L ∧
        x ∈ ownE (semK e) env plan (k+1) (cont L) (env k s) ∧
        ∀ y ∈ ownE (semK e) env plan (k+1) (cont L) (env k s), y ∈ ownE (semK e) env plan k (listOf kd cont) s := by
  intro x hx
  unfold listOf at hx ⊢
  cases hk : plan k with
  | ok =>
    rw [ownE_ok _ env plan k _ _ s hk] at hx ⊢
    simp only [semK_exec, exec_listPkgs] at hx ⊢
    rcases List.mem_cons.mp hx with h | h
    · left; rw [h]
    · right
      exact ⟨listing (env k s) kd, Or.inr ⟨(env k s, .listPkgs kd), by simp, rfl, rfl⟩, h,
        fun y hy => List.mem_cons_of_mem _ hy⟩
  | fail =>
    rw [ownE_fail _ env plan k _ _ s hk] at hx ⊢
    simp only [semK_errResp] at hx ⊢
    cases e with
    | notFound => right; exact ⟨[], Or.inl ⟨rfl, rfl⟩, hx, fun y hy => hy⟩
    | alreadyExists => simp [ownE] at hx
    | conflict => simp [ownE] at hx
    | other => simp [ownE] at hx
  | conflict =>
    rw [ownE_conflict _ env plan k _ _ s hk] at hx ⊢
    simp only [semK_errResp] at hx ⊢
    cases e with
    | notFound => right; exact ⟨[], Or.inl ⟨rfl, rfl⟩, hx, fun y hy => hy⟩
    | alreadyExists => simp [ownE] at hx
    | conflict => simp [ownE] at hx
    | other => simp [ownE] at hx
  | crashBefore =>
    rw [ownE_crashBefore _ env plan k _ _ s hk] at hx
    simp at hx
  | crashAfter =>
    rw [ownE_crashAfter _ env plan k _ _ s hk] at hx
    simp at hx
    left; rw [hx]

/-- the package a request writes: (kind, object name, reference) -/
def Req.pkgTarget : Req → Option (PKind × String × Ref)
  | .createPkg p => p.ref.map fun r => (p.kind, p.name, r)
  | .patchPkg k n r => some (k, n, r)
  | _ => none

/-- Every package write of the installer step – under every interference, every fault plan, every class of
error – goes to the object name `resolve (buildIndex L) r`, where `L` is what OUR List call of that kind
returned: the listing of the store at the moment of that call. -/
theorem install_requests_follow_lists (e : Err) (env : Env Store) (plan : Plan) (k : Nat) (s : Store) (p c f : List Img) :
    ∀ x ∈ ownE (semK e) env plan k (installStep p c f) s, ∀ kd n r, x.2.pkgTarget = some (kd, n, r) →
      ∃ L, ListedIn e (ownE (semK e) env plan k (installStep p c f) s) kd L ∧ n = resolve (buildIndex L) r := by
  intro x hx kd n r ht
  unfold installStep installWith at hx ⊢
  rcases ownE_listOf e env plan .provider _ k s x hx with h | ⟨Lp, hLp, hx1, sub1⟩
  · rw [h] at ht; simp [Req.pkgTarget] at ht
  rcases ownE_listOf e env plan .configuration _ (k+1) (env k s) x hx1 with h | ⟨Lc, hLc, hx2, sub2⟩
  · rw [h] at ht; simp [Req.pkgTarget] at ht
  rcases ownE_listOf e env plan .function _ (k+1+1) (env (k+1) (env k s)) x hx2 with h | ⟨Lf, hLf, hx3, sub3⟩
  · rw [h] at ht; simp [Req.pkgTarget] at ht
  let L : PKind → List Pkg := fun kd => match kd with
    | .provider => Lp
    | .configuration => Lc
    | .function => Lf
  have hq : PkgReq L x.2 := ownE_issues (semK e) (PkgReq L) env plan (k+1+1+1) _ (installBody_issues L p c f) _ x hx3
  have hL : ∀ kd, ListedIn e (ownE (semK e) env plan k
      (listOf .provider fun pl => listOf .configuration fun cl => listOf .function fun fl => installBody resolve p c f pl cl fl) s) kd (L kd) := by
    intro kd
    cases kd with
    | provider => exact hLp
    | configuration => exact listedIn_mono hLc sub1
    | function => exact listedIn_mono hLf (fun y hy => sub1 y (sub2 y hy))
  cases hx2' : x.2 with
  | createPkg q =>
    rw [hx2'] at ht hq
    obtain ⟨r', hr', hn⟩ := hq
    simp only [Req.pkgTarget, hr', Option.map_some, Option.some.injEq, Prod.mk.injEq] at ht
    obtain ⟨rfl, rfl, rfl⟩ := ht
    exact ⟨L q.kind, hL q.kind, hn⟩
  | patchPkg k' n' r' =>
    rw [hx2'] at ht hq
    simp only [Req.pkgTarget, Option.some.injEq, Prod.mk.injEq] at ht
    obtain ⟨rfl, rfl, rfl⟩ := ht
    exact ⟨L k', hL k', hq⟩
  | _ => rw [hx2'] at ht; simp [Req.pkgTarget] at ht

/-- ... hence: a requested image whose source was installed when OUR List of that kind was answered is written
to the name of a package that existed then (never to a second name) – or refused calls are answered NotFound. -/
theorem install_no_second_at_list_time (e : Err) (env : Env Store) (plan : Plan) (k : Nat) (s : Store) (p c f : List Img) :
    ∀ x ∈ ownE (semK e) env plan k (installStep p c f) s, ∀ kd n r, x.2.pkgTarget = some (kd, n, r) →
      e = .notFound ∨
      ∃ y ∈ ownE (semK e) env plan k (installStep p c f) s, y.2 = .listPkgs kd ∧
        (InstalledSrc y.1 kd r.src → ∃ q0 ∈ y.1.pkgs, q0.kind = kd ∧ q0.name = n) := by
  intro x hx kd n r ht
  obtain ⟨L, hL, hn⟩ := install_requests_follow_lists e env plan k s p c f x hx kd n r ht
  rcases hL with ⟨he, _⟩ | ⟨y, hy, h1, h2⟩
  · exact Or.inl he
  · right
    refine ⟨y, hy, h1, ?_⟩
    intro hi
    obtain ⟨q0, h0, hk0, hn0⟩ := resolved_name_installed y.1 kd r hi
    exact ⟨q0, h0, hk0, by rw [hn0, hn, h2]⟩

/-! ### the CA bundle we write is tls.crt of the webhook TLS secret as stored at that moment -/

/-- every caBundle a request writes -/
def Req.bundles : Req → List Blob
  | .createCrd c => if c.conv then [c.bundle] else []
  | .patchCrd f cb => if f.conv then [cb] else []
  | .createWhc w => w.hooks.map (·.bundle)
  | .patchWhc _ _ hooks => hooks.map (·.bundle)
  | _ => []

/-- secret `ref` is stored and its tls.crt is the (non-empty) blob `cb` -/
def HasBundle (ref : String) (cb : Blob) (s : Store) : Prop :=
  ∃ sec, findSecret s ref = some sec ∧ sec.crt = cb ∧ cb ≠ .empty

/-- the guarantee: every caBundle a request carries is tls.crt of one of the TLS secrets `refs`, as stored now -/
def BundleG (refs : List String) (s : Store) (r : Req) : Prop :=
  ∀ cb ∈ r.bundles, ∃ ref ∈ refs, HasBundle ref cb s

/-- request class of the CRD / webhook-configuration loops once the bundle `cb` has been read -/
def BundleReq (cb : Blob) (r : Req) : Prop := r.comp ≠ some .secrets ∧ ∀ b ∈ r.bundles, b = cb

/-- requests that carry no bundle at all -/
def NoBundle (r : Req) : Prop := r.bundles = []

theorem noBundle_G {refs : List String} {s : Store} {r : Req} (h : NoBundle r) : BundleG refs s r := by
  intro cb hcb; rw [h] at hcb; cases hcb

theorem hasBundle_exec {ref : String} {cb : Blob} {s : Store} {r : Req} (h : HasBundle ref cb s)
    (hc : r.comp ≠ some .secrets) : HasBundle ref cb (exec s r).1 := by
  obtain ⟨sec, h1, h2, h3⟩ := h
  refine ⟨sec, ?_, h2, h3⟩
  simp only [findSecret] at h1 ⊢
  rw [frame_secrets s r hc]; exact h1

theorem hasBundle_kept {cas : List String} {ref : String} (href : ref ∉ cas) {cb : Blob} {s s' : Store}
    (h : HasBundle ref cb s) (hk : KeptFrom cas s s') : HasBundle ref cb s' := by
  obtain ⟨sec, h1, h2, h3⟩ := h
  have hname : sec.name = ref := find_name h1
  refine ⟨sec, hk ref sec h1 (Or.inr ⟨by rw [hname]; exact href, ?_⟩), h2, h3⟩
  rw [← h2] at h3
  simp [hasMaterial, h3]

/-- a loop that only issues `BundleReq cb` requests, started while `ref` holds `cb`, obeys the guarantee -/
theorem bundle_body_wp (e : Err) (cas refs : List String) (ref : String) (href : ref ∉ cas) (hmem : ref ∈ refs)
    (cb : Blob) (p : P α) (hp : Issues (BundleReq cb) p) (s : Store) (hs : HasBundle ref cb s) :
    WpE (semK e) (KeptFrom cas) (BundleG refs) p (fun _ _ => True) s := by
  have := wpE_of_issues (semK e) (KeptFrom cas) (HasBundle ref cb) (BundleReq cb)
    (fun x r hi hq => hasBundle_exec hi hq.1) (fun _ _ hi hk => hasBundle_kept href hi hk) p hp s hs
  refine wpE_mono (semK e) _ _ _ ?_ _ _ _ (fun _ _ _ => trivial) s this
  rintro x r ⟨hi, hq⟩ b hb
  rw [hq.2 b hb]
  exact ⟨ref, hmem, hi⟩

/-- a program that writes no bundle obeys the guarantee -/
theorem noBundle_wp (e : Err) (cas refs : List String) (p : P α) (hp : Issues NoBundle p) (s : Store) :
    WpE (semK e) (KeptFrom cas) (BundleG refs) p (fun _ _ => True) s := by
  have := wpE_of_issues (semK e) (KeptFrom cas) (fun _ => True) NoBundle (fun _ _ _ _ => trivial)
    (fun _ _ _ _ => trivial) p hp s trivial
  exact wpE_mono (semK e) _ _ _ (fun _ _ h => noBundle_G h.2) _ _ _ (fun _ _ _ => trivial) s this

theorem only_noBundle {c : Comp} (h1 : c ≠ .crds) (h2 : c ≠ .whcs) (r : Req) (h : Only c r) : NoBundle r := by
  cases r <;> first | rfl | (rcases h with h | h <;> simp [Req.comp] at h <;> first | exact absurd h.symm h1 | exact absurd h.symm h2 | exact absurd h h1 | exact absurd h h2)

theorem applyCrd_issues_bundle (f : CrdFile) (cb : Blob) : Issues (BundleReq cb) (applyCrd f cb) := by
  unfold applyCrd
  refine .call _ _ ⟨by simp [Req.comp], by simp [Req.bundles]⟩ ?_
  intro x
  split
  · refine .call _ _ ⟨by simp [Req.comp], ?_⟩ (fun y => okOr_issues _ _ _)
    intro b hb
    simp only [Req.bundles, newCrd] at hb
    split at hb
    · rename_i hc; simp [hc] at hb; exact hb
    · cases hb
  · refine .call _ _ ⟨by simp [Req.comp], ?_⟩ (fun y => okOr_issues _ _ _)
    intro b hb
    simp only [Req.bundles] at hb
    split at hb
    · simp at hb; exact hb
    · cases hb
  · exact .ret _

theorem crdsBody_issues_bundle (d : Dir) (cb : Blob) : Issues (BundleReq cb) (crdsBody d cb) := by
  unfold crdsBody
  split
  · exact .ret _
  · refine issues_forEach ?_ _
    intro o
    split
    · split
      · exact .ret _
      · exact applyCrd_issues_bundle _ _
    · exact .ret _

theorem applyWhc_issues_bundle (f : WhcFile) (cb : Blob) (svc : Svc) : Issues (BundleReq cb) (applyWhc f cb svc) := by
  unfold applyWhc
  refine .call _ _ ⟨by simp [Req.comp], by simp [Req.bundles]⟩ ?_
  intro x
  split
  · refine .call _ _ ⟨by simp [Req.comp], ?_⟩ (fun y => okOr_issues _ _ _)
    intro b hb
    simp only [Req.bundles, desiredHooks, List.map_map, List.mem_map, Function.comp] at hb
    obtain ⟨_, _, rfl⟩ := hb; rfl
  · refine .call _ _ ⟨by simp [Req.comp], ?_⟩ (fun y => okOr_issues _ _ _)
    intro b hb
    simp only [Req.bundles, desiredHooks, List.map_map, List.mem_map, Function.comp] at hb
    obtain ⟨_, _, rfl⟩ := hb; rfl
  · exact .ret _

/-- without a webhook TLS secret no CRD with webhook conversion is ever applied: no bundle is written -/
theorem crdsBody_empty_issues (d : Dir) : Issues NoBundle (crdsBody d .empty) := by
  unfold crdsBody
  split
  · exact .ret _
  · refine issues_forEach ?_ _
    intro o
    split
    · rename_i f
      split
      · exact .ret _
      · rename_i hconv
        have hf : f.conv = false := by
          cases hc : f.conv with
          | false => rfl
          | true => simp [hc] at hconv
        unfold applyCrd
        refine .call _ _ rfl ?_
        intro x
        split
        · exact .call _ _ (by simp [NoBundle, Req.bundles, newCrd, hf]) (fun y => okOr_issues _ _ _)
        · exact .call _ _ (by simp [NoBundle, Req.bundles, hf]) (fun y => okOr_issues _ _ _)
        · exact .ret _
    · exact .ret _

/-- reading the bundle: what `getBundle ref` returns is tls.crt of `ref` as stored then -/
theorem getBundle_wp (e : Err) (cas refs : List String) (ref : String) (s : Store) :
    WpE (semK e) (KeptFrom cas) (BundleG refs) (getBundle ref)
      (fun t b => ∀ cb, b = some cb → HasBundle ref cb t) s := by
  unfold getBundle
  intro s' _
  refine ⟨noBundle_G rfl, ?_, ?_, ?_⟩
  · show WpE (semK e) _ _ (match (exec s' (.getSecret ref)).2 with
      | .secret x => if x.crt = .empty then (.ret none : P (Option Blob)) else .ret (some x.crt)
      | _ => .ret none) _ (exec s' (.getSecret ref)).1
    rw [exec_getSecret]
    cases hf : findSecret s' ref with
    | none => intro cb h; cases h
    | some sec =>
      simp only
      split
      · intro cb h; cases h
      · rename_i hne
        intro cb h
        cases h
        exact ⟨sec, hf, rfl, hne⟩
  · intro cb h; cases h
  · intro cb h; cases h

theorem crdsStep_wp (e : Err) (cas refs : List String) (tlsRef : Option String) (d : Dir)
    (href : ∀ ref, tlsRef = some ref → ref ∉ cas ∧ ref ∈ refs) (s : Store) :
    WpE (semK e) (KeptFrom cas) (BundleG refs) (crdsStep tlsRef d) (fun _ _ => True) s := by
  unfold crdsStep
  cases tlsRef with
  | none => exact noBundle_wp e cas refs _ (crdsBody_empty_issues d) s
  | some ref =>
    obtain ⟨h1, h2⟩ := href ref rfl
    simp only
    refine wpE_bind (semK e) _ _ _ _ _ s ?_
    refine wpE_mono (semK e) _ _ _ (fun _ _ h => h) _ _ _ ?_ s (getBundle_wp e cas refs ref s)
    intro t b hb
    cases b with
    | none => trivial
    | some cb => exact bundle_body_wp e cas refs ref h1 h2 cb _ (crdsBody_issues_bundle d cb) t (hb cb rfl)

theorem whcsStep_wp (e : Err) (cas refs : List String) (ref : String) (svc : Svc) (d : Dir)
    (h1 : ref ∉ cas) (h2 : ref ∈ refs) (s : Store) :
    WpE (semK e) (KeptFrom cas) (BundleG refs) (whcsStep ref svc d) (fun _ _ => True) s := by
  unfold whcsStep
  refine wpE_bind (semK e) _ _ _ _ _ s ?_
  refine wpE_mono (semK e) _ _ _ (fun _ _ h => h) _ _ _ ?_ s (getBundle_wp e cas refs ref s)
  intro t b hb
  cases b with
  | none => trivial
  | some cb =>
    refine bundle_body_wp e cas refs ref h1 h2 cb _ ?_ t (hb cb rfl)
    show Issues (BundleReq cb) (if d.parseErr then (.ret (.err "whcs: parse") : P Res) else
      forEach (fun o => match o with
        | .whc f => applyWhc f cb svc
        | _ => .ret (.err "whcs: kind")) d.objs)
    by_cases hp : d.parseErr = true
    · rw [if_pos hp]; exact .ret _
    · rw [if_neg hp]
      refine issues_forEach ?_ _
      intro o
      split
      · exact applyWhc_issues_bundle _ _ _
      · exact .ret _

/-- the webhook TLS secrets the CRD / webhook-configuration steps of a list read their bundle from -/
def bundleRefs : List Step → List String
  | [] => []
  | .crds (some ref) _ :: rest => ref :: bundleRefs rest
  | .whcs ref _ _ :: rest => ref :: bundleRefs rest
  | _ :: rest => bundleRefs rest

theorem migrateStep_issues_noBundle (crd old : String) : Issues NoBundle (migrateStep crd old) := by
  unfold migrateStep migrateCrs migrateFinish
  repeat' (first
    | exact Issues.ret _
    | exact okOr_issues _ _ _
    | (guard_target = Issues _ (Prog.call _ _); refine Issues.call _ _ rfl ?_; intro _)
    | (guard_target = Issues _ (Prog.bind _ _); refine issues_bind ?_ ?_)
    | (guard_target = Issues _ (forEach _ _); refine issues_forEach ?_ _; intro _)
    | intro _
    | split
    | dsimp only)

theorem step_bundle_wp (e : Err) (g : Generator) (cas refs : List String) (st : Step)
    (hst : ∀ ref, ref ∈ bundleRefs [st] → ref ∉ cas ∧ ref ∈ refs) (n : Nat) (s : Store) :
    WpE (semK e) (KeptFrom cas) (BundleG refs) (st.prog g n) (fun _ _ => True) s := by
  have key : ∀ (c : Comp) (p : P (Res × Nat)), c ≠ .crds → c ≠ .whcs → Issues (Only c) p →
      WpE (semK e) (KeptFrom cas) (BundleG refs) p (fun _ _ => True) s := by
    intro c p h1 h2 hp
    exact noBundle_wp e cas refs p (issues_mono (only_noBundle h1 h2) hp) s
  have lift : ∀ (p : P Res), WpE (semK e) (KeptFrom cas) (BundleG refs) p (fun _ _ => True) s →
      WpE (semK e) (KeptFrom cas) (BundleG refs) (withNonce n p) (fun _ _ => True) s := by
    intro p hp
    unfold withNonce
    refine wpE_bind (semK e) _ _ _ _ _ s ?_
    exact wpE_mono (semK e) _ _ _ (fun _ _ h => h) _ _ _ (fun _ _ _ => trivial) s hp
  cases st with
  | tls ca sv cl => exact key .secrets _ (by decide) (by decide) (tlsStep_issues_only g ca sv cl n)
  | crds ref d =>
    refine lift _ (crdsStep_wp e cas refs ref d ?_ s)
    intro r hr
    subst hr
    exact hst r (by simp [bundleRefs])
  | whcs ref svc d =>
    obtain ⟨h1, h2⟩ := hst ref (by simp [bundleRefs])
    exact lift _ (whcsStep_wp e cas refs ref svc d h1 h2 s)
  | mig crd old => exact lift _ (noBundle_wp e cas refs _ (migrateStep_issues_noBundle crd old) s)
  | lock => exact key .lock _ (by decide) (by decide) (withNonce_issues n lockStep_issues)
  | install p c f => exact key .pkgs _ (by decide) (by decide) (withNonce_issues n (installWith_issues _ p c f))
  | sc ns => exact key .sc _ (by decide) (by decide) (withNonce_issues n (scStep_issues ns))
  | drc => exact key .drc _ (by decide) (by decide) (withNonce_issues n drcStep_issues)

theorem bundleRefs_cons (st : Step) (rest : List Step) : bundleRefs (st :: rest) = bundleRefs [st] ++ bundleRefs rest := by
  cases st with
  | crds ref d => cases ref <;> simp [bundleRefs]
  | _ => simp [bundleRefs]

theorem runSteps_bundle_wp (e : Err) (g : Generator) (cas refs : List String) (steps : List Step)
    (hst : ∀ ref ∈ bundleRefs steps, ref ∉ cas ∧ ref ∈ refs) (n d : Nat) (s : Store) :
    WpE (semK e) (KeptFrom cas) (BundleG refs) (runSteps g steps n d) (fun _ _ => True) s := by
  induction steps generalizing n d s with
  | nil => trivial
  | cons st rest ih =>
    rw [bundleRefs_cons] at hst
    unfold runSteps
    refine wpE_bind (semK e) _ _ _ _ _ s ?_
    refine wpE_mono (semK e) _ _ _ (fun _ _ h => h) _ _ _ ?_ s
      (step_bundle_wp e g cas refs st (fun ref h => hst ref (by simp [h])) n s)
    rintro t ⟨r, n'⟩ _
    simp only
    split
    · exact ih (fun ref h => hst ref (by simp [h])) _ _ _
    · trivial

/-- Every caBundle our run writes into a CRD / webhook configuration – under every interference that obeys the
rely (nobody rewrites a protected secret), every fault plan, every class of error – is tls.crt of one of the
webhook TLS secrets as stored AT THE MOMENT of the write, and that secret still holds it when the run ends. -/
theorem own_bundles_current (e : Err) (g : Generator) (steps : List Step) (env : Env Store)
    (henv : PeerKeeps (caNames steps) env) (hrefs : ∀ ref ∈ bundleRefs steps, ref ∉ caNames steps)
    (plan : Plan) (n : Nat) (s : Store) :
    ∀ x ∈ ownE (semK e) env plan 0 (runSteps g steps n 0) s, ∀ cb ∈ x.2.bundles,
      ∃ ref ∈ bundleRefs steps, ∃ sec, findSecret x.1 ref = some sec ∧ sec.crt = cb ∧ cb ≠ .empty ∧
        findSecret (runE (semK e) env plan 0 (runSteps g steps n 0) s).1 ref = some sec := by
  intro x hx cb hcb
  obtain ⟨hG, _⟩ := wpE_sound (semK e) (KeptFrom (caNames steps)) (BundleG (bundleRefs steps)) env henv plan 0 _ _ s
    (runSteps_bundle_wp e g (caNames steps) (bundleRefs steps) steps (fun ref h => ⟨hrefs ref h, h⟩) n 0 s)
  obtain ⟨ref, hmem, sec, h1, h2, h3⟩ := hG x hx cb hcb
  refine ⟨ref, hmem, sec, h1, h2, h3, ?_⟩
  have hissues := runSteps_issues_safe g steps (caNames steps) (fun _ h => h) n 0
  obtain ⟨_, hrel⟩ := runE_rel (semK e) (KeptFrom (caNames steps)) (keptFrom_refl _) (fun _ _ _ => keptFrom_trans)
    (SafeReq (caNames steps)) (fun s r hq => exec_kept (keptFrom_refl _ s) hq) env henv plan 0 _ hissues s
  have hpost := (hrel x hx).2
  -- the request carries a bundle, so it is not a secret write: the secret is the same right after the call
  have hc : x.2.comp ≠ some .secrets := by
    intro hsec
    cases hr : x.2 <;> rw [hr] at hcb hsec <;> simp [Req.bundles, Req.comp] at hcb hsec
  have hafter : findSecret (exec x.1 x.2).1 ref = some sec := by
    simp only [findSecret] at h1 ⊢
    rw [frame_secrets x.1 x.2 hc]; exact h1
  have hname : sec.name = ref := find_name h1
  refine hpost ref sec hafter (Or.inr ⟨by rw [hname]; exact hrefs ref hmem, ?_⟩)
  rw [← h2] at h3
  simp [hasMaterial, h3]

theorem bundleRefs_init (cfg : Cfg) :
    bundleRefs (initSteps cfg) = if cfg.webhook then [cfg.server, cfg.server] else [] := by
  unfold initSteps
  cases hw : cfg.webhook <;> by_cases he : cfg.ess = "" <;> simp [hw, he, migrators, bundleRefs]

/-! ### concrete other writers (non-vacuity / the race that is lost) -/

def wxR0 : Ref := ⟨"xpkg.upbound.io", "crossplane/provider-aws", "v1.0.0", false,
  "xpkg.upbound.io/crossplane/provider-aws:v1.0.0", "xpkg.upbound.io/crossplane/provider-aws"⟩
def wxR1 : Ref := ⟨"xpkg.upbound.io", "crossplane/provider-aws", "v1.1.0", false,
  "xpkg.upbound.io/crossplane/provider-aws:v1.1.0", "xpkg.upbound.io/crossplane/provider-aws"⟩

/-- somebody installs the requested provider under a name of their own right before our call `k0` -/
def wxUser (k0 : Nat) : Env Store := fun k s =>
  if k = k0 then applyOp s (.putPkg ⟨.provider, "their-own", wxR0.str, some wxR0, 2⟩) else s

def wxEmpty : Store := ⟨[], [], [], [], [], none, none, none⟩

/-- a printable tag of a request (examples only) -/
def reqLineTag : Req → String
  | .getLock => "getLock"
  | .createLock => "createLock"
  | .patchLock => "patchLock"
  | .createSc _ => "createSc"
  | .createDrc => "createDrc"
  | _ => "other"

end Xp.C20

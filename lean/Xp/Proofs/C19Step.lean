import Xp.Proofs.C19Thread
/-
C19 helper lemmas, part 4: one API call of a reconcile preserves the store
invariant and establishes the thread invariant of its continuation.
-/
namespace Xp.C19

/-- the continuation of a step is again a thread of the same Usage satisfying the thread invariant -/
def AfterOk (s : Store) (nm : String) : After → Prop
  | .cont t' => t'.uname = nm ∧ TInv s t'
  | .done _ => True

theorem ThreadBase.withPc {s : Store} {t : Thread} (h : ThreadBase s t) (pc : Pc) :
    ThreadBase s { t with pc := pc } := ⟨h.name, h.rvb, h.same, h.hold, h.ok⟩

theorem goto_ok {s : Store} {t : Thread} (h : ThreadBase s t) (pc : Pc) (hf : pcFacts s t.uname t.u t.seen pc) :
    AfterOk s t.uname (t.goto pc) := by
  exact ⟨rfl, .inr ⟨h.withPc pc, hf⟩⟩

theorem afterOwner_ok {s : Store} {t : Thread} (h : ThreadBase s t)
    (hf : t.u.deleting = false ∧ t.u.of.name ≠ "" ∧ byResolved t.u ∧ t.u.fin = true ∧ ownerBorn s t.u) :
    AfterOk s t.uname t.afterOwner := by
  unfold Thread.afterOwner
  split
  · exact goto_ok h .status hf
  · trivial

theorem afterLabel_ok {s : Store} {t : Thread} (h : ThreadBase s t)
    (hf : t.u.deleting = false ∧ t.u.of.name ≠ "" ∧ byResolved t.u ∧ t.u.fin = true) :
    AfterOk s t.uname t.afterLabel := by
  unfold Thread.afterLabel
  split
  · next hb =>
    exact afterOwner_ok h ⟨hf.1, hf.2.1, hf.2.2.1, hf.2.2.2, fun b hbb => by rw [hb] at hbb; cases hbb⟩
  · next b hb => exact goto_ok h .getUsing ⟨hf.1, hf.2.1, hf.2.2.1, hf.2.2.2, b, hb⟩

theorem afterFin_ok {s : Store} {t : Thread} (h : ThreadBase s t)
    (hf : t.u.deleting = false ∧ t.u.of.name ≠ "" ∧ byResolved t.u ∧ t.u.fin = true) :
    AfterOk s t.uname t.afterFin := by
  unfold Thread.afterFin
  split
  · exact goto_ok h .addDetails hf
  · exact goto_ok h .getUsed hf

theorem afterResolve_ok {s : Store} {t : Thread} (h : ThreadBase s t)
    (hf : t.u.of.name ≠ "" ∧ byResolved t.u) : AfterOk s t.uname t.afterResolve := by
  unfold Thread.afterResolve
  split
  · next hd =>
    split
    · exact goto_ok h .dGetUsing ⟨hd, hf.1⟩
    · exact goto_ok h .dGetUsed ⟨hd, hf.1⟩
  · next hd =>
    have hd' : t.u.deleting = false := by simpa using hd
    split
    · next hfin => exact afterFin_ok h ⟨hd', hf.1, hf.2, hfin⟩
    · exact goto_ok h .addFin ⟨hd', hf.1, hf.2⟩

theorem afterOf_ok {s : Store} {t : Thread} (h : ThreadBase s t) (hf : t.u.of.name ≠ "") :
    AfterOk s t.uname t.afterOf := by
  unfold Thread.afterOf
  split
  · next hb => exact afterResolve_ok h ⟨hf, fun b hbb => by rw [hb] at hbb; cases hbb⟩
  · next b hb =>
    split
    · next hn =>
      split
      · trivial
      · exact goto_ok h .byList ⟨hf, fun b' hb' => by rw [hb] at hb'; cases hb'; exact hn⟩
    · next hn => exact afterResolve_ok h ⟨hf, fun b' hb' => by rw [hb] at hb'; cases hb'; exact hn⟩

theorem afterGet_ok {s : Store} {t : Thread} (h : ThreadBase s t) : AfterOk s t.uname t.afterGet := by
  unfold Thread.afterGet
  split
  · trivial
  · split
    · next hn =>
      split
      · trivial
      · exact goto_ok h .ofList hn
    · next hn => exact afterOf_ok h hn

theorem afterUnlabel_ok {s : Store} {t : Thread} (h : ThreadBase s t)
    (hf : t.u.deleting = true ∧ t.u.of.name ≠ "") : AfterOk s t.uname t.afterUnlabel := by
  unfold Thread.afterUnlabel
  split
  · exact goto_ok h .dRemoveFin hf
  · trivial

/-! ### the selector resolver picks an existing resource -/

theorem pickFirst_mem_aux (l : List Res) (acc : Option Res) (r : Res)
    (h : l.foldl (fun acc r => match acc with
      | none => some r
      | some a => if r.name < a.name then some r else some a) acc = some r) :
    r ∈ l ∨ acc = some r := by
  induction l generalizing acc with
  | nil => right; simpa using h
  | cons x xs ih =>
    simp only [List.foldl_cons] at h
    rcases ih _ h with h' | h'
    · left; exact List.mem_cons_of_mem _ h'
    · cases acc with
      | none => simp at h'; left; rw [h']; exact List.mem_cons_self
      | some a =>
        simp only at h'
        split at h'
        · simp at h'; left; rw [h']; exact List.mem_cons_self
        · right; exact h'

theorem pickFirst_mem {l : List Res} {r : Res} (h : pickFirst l = some r) : r ∈ l := by
  rcases pickFirst_mem_aux l none r h with h' | h'
  · exact h'
  · cases h'

theorem resolvePick_mem {sel : Option Sel} {os : List OwnerRef} {l : List Res} {n : String}
    (h : resolvePick sel os l = some n) : ∃ r ∈ l, r.name = n := by
  unfold resolvePick at h
  simp only [Option.map_eq_some_iff] at h
  obtain ⟨r, hr, hn⟩ := h
  have := pickFirst_mem hr
  exact ⟨r, (List.mem_filter.mp this).1, hn⟩

/-! ### faults end the reconcile -/

theorem next_err (t : Thread) (seen : List Usage) (e : Err) (he : e = .other ∨ e = .conflict) :
    ∃ r, t.next seen (.err e) = .done r := by
  obtain ⟨uname, pc, u, orv, ord, sn⟩ := t
  rcases he with rfl | rfl <;> cases pc <;> exact ⟨_, rfl⟩

theorem faultResp_err (o : Outcome) (r : Req) : ∃ e, (e = Err.other ∨ e = Err.conflict) ∧ faultResp o r = .err e := by
  unfold faultResp
  cases o
  case conflict =>
    simp only []
    split
    · exact ⟨_, .inr rfl, rfl⟩
    · exact ⟨_, .inl rfl, rfl⟩
  all_goals exact ⟨_, .inl rfl, rfl⟩

theorem next_fault (t : Thread) (seen : List Usage) (o : Outcome) :
    ∃ r, t.next seen (faultResp o t.request) = .done r := by
  obtain ⟨e, he, hr⟩ := faultResp_err o t.request
  rw [hr]
  exact next_err t seen e he

/-! ### how one call of thread `nm` may change the store, as seen by the other threads -/

inductive StepEff (s : Store) (nm : String) : Store → Prop where
  | same (s' : Store) : SameUsages s s' → StepEff s nm s'
  | put (n : Usage) : n.name = nm → StepEff s nm (s.putU n).bump
  | drop : StepEff s nm (s.dropU nm).bump

theorem UsageOk.withRv {s : Store} {n : Usage} (h : UsageOk s n) (rv : Nat) : UsageOk s { n with rv := rv } :=
  ⟨h.delFin, h.readyOf, h.readyBy, h.owned⟩

/-- the stored Usage a thread's rv-matching write hits is the thread's own copy -/
theorem ThreadBase.hit {s : Store} {t : Thread} (hb : ThreadBase s t) {nm : String} {x : Usage}
    (hg : s.getU nm = some x) (hname : nm = t.uname) (hrv : x.rv = t.u.rv) : x = t.u ∧ t.u ∈ s.usages := by
  have hx := getU_some hg
  have : x = t.u := hb.same x hx.1 (by rw [hx.2, hname]) hrv
  exact ⟨this, this ▸ hx.1⟩

/-- an Update of its own Usage by a reconcile (not removing the finalizer of a terminating Usage) -/
theorem own_updU {s : Store} (hs : StoreInv s) {t : Thread} (hb : ThreadBase s t) (u' : Usage)
    (hname : u'.name = t.uname) (hrv : u'.rv = t.u.rv)
    (hfin : t.u.deleting = true → u'.fin = true)
    (hok : UsageOk s (u'.onto t.u)) :
    StoreInv (s.updU u').1 ∧ StepEff s t.uname (s.updU u').1 ∧
    ∀ n, (s.updU u').2 = .usage n →
      ThreadBase (s.updU u').1 { t with u := n } ∧ n.of = u'.of ∧ n.by_ = u'.by_ ∧ n.fin = u'.fin ∧
      n.owners = u'.owners ∧ n.deleting = t.u.deleting ∧ n.ready = t.u.ready ∧ n.details = u'.details ∧
      n.reason = u'.reason := by
  have spec := updU_spec s u'
  generalize (s.updU u').1 = s' at spec ⊢
  generalize (s.updU u').2 = resp at spec ⊢
  cases spec with
  | notFound hg => exact ⟨hs, .same _ (.refl s), fun n h => by cases h⟩
  | conflict x hg hne => exact ⟨hs, .same _ (.refl s), fun n h => by cases h⟩
  | noop x hg hx hon =>
    obtain ⟨rfl, hmem⟩ := hb.hit hg hname (hx.trans hrv)
    refine ⟨hs, .same _ (.refl s), fun n h => ?_⟩
    cases h
    refine ⟨⟨hb.name, hb.rvb, hb.same, hb.hold, hb.ok⟩, ?_⟩
    rw [hon]
    simp [Usage.onto]
  | put x hg hx hng =>
    obtain ⟨rfl, hmem⟩ := hb.hit hg hname (hx.trans hrv)
    refine ⟨hs.putU_bump rfl (hok.withRv _), .put _ hname, fun n h => ?_⟩
    cases h
    refine ⟨⟨hname, by simp, ?_, ?_, (hok.withRv _).mono (by simp)⟩, by simp [Usage.onto]⟩
    · intro y hy hyn _
      simp only [bump_usages, mem_putU] at hy
      rcases hy with ⟨_, hne⟩ | ⟨rfl, _⟩
      · exact absurd (hyn.trans hname.symm) hne
      · rfl
    · intro hfin'
      refine ⟨{ u'.onto t.u with rv := s.nextRv }, ?_, hname, hfin', rfl, fun h => h⟩
      rw [bump_usages]
      exact mem_putU.mpr (.inr ⟨rfl, _, hmem, hb.name.trans hname.symm⟩)
  | gone x hg hx hd hf =>
    obtain ⟨rfl, hmem⟩ := hb.hit hg hname (hx.trans hrv)
    rw [hfin hd] at hf; cases hf

/-- the final Update of a terminating Usage: the finalizer is removed and the Usage goes away -/
theorem own_updU_final {s : Store} (hs : StoreInv s) {t : Thread} (hb : ThreadBase s t) (u' : Usage)
    (hname : u'.name = t.uname) (hrv : u'.rv = t.u.rv) (hdel : t.u.deleting = true) (hf : u'.fin = false) :
    StoreInv (s.updU u').1 ∧ StepEff s t.uname (s.updU u').1 := by
  have spec := updU_spec s u'
  generalize (s.updU u').1 = s' at spec ⊢
  generalize (s.updU u').2 = resp at spec ⊢
  cases spec with
  | notFound hg => exact ⟨hs, .same _ (.refl s)⟩
  | conflict x hg hne => exact ⟨hs, .same _ (.refl s)⟩
  | noop x hg hx hon => exact ⟨hs, .same _ (.refl s)⟩
  | put x hg hx hng =>
    obtain ⟨rfl, hmem⟩ := hb.hit hg hname (hx.trans hrv)
    exact absurd ⟨hdel, hf⟩ hng
  | gone x hg hx hd hf' =>
    rw [hname]
    exact ⟨(hs.dropU _).bump, .drop⟩

theorem own_updStatus {s : Store} (hs : StoreInv s) {t : Thread} (hb : ThreadBase s t)
    (hf : t.u.deleting = false ∧ t.u.of.name ≠ "" ∧ byResolved t.u ∧ t.u.fin = true ∧ ownerBorn s t.u) :
    StoreInv (s.updStatus { t.u with ready := true }).1 ∧
    StepEff s t.uname (s.updStatus { t.u with ready := true }).1 := by
  have spec := updStatus_spec s { t.u with ready := true }
  generalize (s.updStatus { t.u with ready := true }).1 = s' at spec ⊢
  generalize (s.updStatus { t.u with ready := true }).2 = resp at spec ⊢
  cases spec with
  | notFound hg => exact ⟨hs, .same _ (.refl s)⟩
  | conflict x hg hne => exact ⟨hs, .same _ (.refl s)⟩
  | noop x hg hx hon => exact ⟨hs, .same _ (.refl s)⟩
  | put x hg hx hng =>
    obtain ⟨rfl, hmem⟩ := hb.hit hg hb.name hx
    refine ⟨hs.putU_bump rfl ⟨?_, fun _ => hf.2.1, fun _ => hf.2.2.1, fun _ => hf.2.2.2.2⟩, .put _ hb.name⟩
    intro hd
    simp only at hd
    rw [hf.1] at hd; cases hd

/-- an Update of a resource by a reconcile -/
theorem own_updR {s : Store} (hs : StoreInv s) (r : Res) :
    StoreInv (s.updR r).1 ∧ SameUsages s (s.updR r).1 := by
  have spec := updR_spec s r
  generalize (s.updR r).1 = s' at spec ⊢
  generalize (s.updR r).2 = resp at spec ⊢
  cases spec with
  | notFound hg => exact ⟨hs, .refl s⟩
  | conflict x hg hne => exact ⟨hs, .refl s⟩
  | noop x hg hx hon => exact ⟨hs, .refl s⟩
  | put x hg hx =>
    have hx' := getR_some hg
    exact ⟨hs.putR_bump hx'.1 hx'.2.1.symm hx'.2.2.1.symm hx'.2.2.2.symm rfl, .putR_bump s _⟩

end Xp.C19

import Xp.Proofs.C03PT
import Xp.Model.C03
/-
Helper lemmas for the C03 model sections of Xp/Model/C03.lean: the extra-resources loop
(`fetchP`, `fetchAll`, `runFunctionP`) under arbitrary fault plans, its relation to the pure
interpreter `Xp.C04.runFetching`, and the function composer's collector with its controller
check (`gcFnFull`, `composeFnFull`).
-/
namespace Xp.C03
open Xp.C04 (ClusterObj Request Response hasFatal Extra)

/-! ### reads only -/

theorem issues_any {Req Resp α : Type} (p : Prog Req Resp α) : Issues (fun _ => True) p := by
  induction p with
  | ret a => exact Issues.ret a
  | call r c ih => exact Issues.call r c trivial ih

theorem fexec_fst (cl : List ClusterObj) (r : FReq) : (fexec cl r).1 = cl := by
  cases r <;> rfl

/-! ### programs that turn every failed call into an error result -/

/-- every way `p` can end is the error result -/
inductive OnlyErr : Prog FReq FResp (List Request × RunResult) → Prop where
  | ret (t : List Request) : OnlyErr (.ret (t, .err))
  | call (r : FReq) (c : FResp → Prog FReq FResp (List Request × RunResult)) : (∀ x, OnlyErr (c x)) → OnlyErr (.call r c)

/-- after a call that is answered with an error, `p` can only end in the error result -/
inductive AbortsOnErr : Prog FReq FResp (List Request × RunResult) → Prop where
  | ret (a : List Request × RunResult) : AbortsOnErr (.ret a)
  | call (r : FReq) (c : FResp → Prog FReq FResp (List Request × RunResult)) :
      (∀ x, AbortsOnErr (c x)) → OnlyErr (c .err) → AbortsOnErr (.call r c)

theorem OnlyErr.run {p : Prog FReq FResp (List Request × RunResult)} (h : OnlyErr p) (plan : Plan) (k : Nat)
    (cl : List ClusterObj) (t : List Request) (r : RunResult) (hr : (run fsem plan k p cl).2 = some (t, r)) : r = .err := by
  induction h generalizing k cl with
  | ret t' => simp [Xp.run] at hr; exact hr.2.symm
  | call q c _ ih =>
    unfold Xp.run at hr
    split at hr
    · exact ih _ _ _ hr
    · exact ih _ _ _ hr
    · exact ih _ _ _ hr
    · cases hr
    · cases hr

theorem AbortsOnErr.run {p : Prog FReq FResp (List Request × RunResult)} (h : AbortsOnErr p) (plan : Plan) (k : Nat)
    (cl : List ClusterObj)
    (hf : ∃ e ∈ callLog fsem plan k p cl, e.2.1 = .fail ∨ e.2.1 = .conflict)
    (t : List Request) (r : RunResult) (hr : (Xp.run fsem plan k p cl).2 = some (t, r)) : r = .err := by
  induction h generalizing k cl with
  | ret a => obtain ⟨e, he, _⟩ := hf; simp [callLog] at he
  | call q c _ herr ih =>
    obtain ⟨e, he, hfault⟩ := hf
    unfold callLog at he
    unfold Xp.run at hr
    split at he <;> rename_i hp <;> simp only [hp] at hr
    · rcases List.mem_cons.mp he with rfl | he'
      · simp at hfault
      · exact ih _ _ _ ⟨e, he', hfault⟩ hr
    · exact herr.run plan _ _ t r hr
    · exact herr.run plan _ _ t r hr
    · cases hr
    · cases hr

theorem abortsOnErr_fetchP (sel : Option Selector) (k : Option Fetched → Prog FReq FResp (List Request × RunResult))
    (hk : ∀ x, AbortsOnErr (k x)) (hn : OnlyErr (k none)) : AbortsOnErr (fetchP sel k) := by
  unfold fetchP
  split
  · exact hk _
  · refine AbortsOnErr.call _ _ ?_ hn
    intro x; cases x <;> exact hk _
  · refine AbortsOnErr.call _ _ ?_ hn
    intro x; cases x <;> exact hk _
  · exact hk _

theorem abortsOnErr_fetchAll (k : Option Extra → Prog FReq FResp (List Request × RunResult))
    (hk : ∀ x, AbortsOnErr (k x)) (hn : OnlyErr (k none)) :
    ∀ (rs : Reqs) (acc : Extra), AbortsOnErr (fetchAll rs acc k) := by
  intro rs
  induction rs with
  | nil => intro acc; exact hk _
  | cons p rest ih =>
    intro acc
    obtain ⟨name, sel⟩ := p
    simp only [fetchAll]
    apply abortsOnErr_fetchP
    · intro x; cases x with
      | none => exact hk _
      | some r => exact ih _
    · exact hn

theorem abortsOnErr_runFunctionP (f : XFn) (order : Reqs → Reqs) :
    ∀ (fuel : Nat) (req : Request) (prev : Option Reqs) (tr : List Request),
      AbortsOnErr (runFunctionP f order fuel req prev tr) := by
  intro fuel
  induction fuel with
  | zero => intro req prev tr; exact AbortsOnErr.ret _
  | succ n ih =>
    intro req prev tr
    simp only [runFunctionP]
    split
    · exact AbortsOnErr.ret _
    · split
      · exact AbortsOnErr.ret _
      · split
        · exact AbortsOnErr.ret _
        · apply abortsOnErr_fetchAll
          · intro x; cases x with
            | none => exact AbortsOnErr.ret _
            | some e => exact ih _ _ _
          · exact OnlyErr.ret _

/-! ### the fetch loop under an arbitrary plan -/

/-- what a successful pass of the fetch loop hands to the function -/
def fetchedOf (cl : List ClusterObj) (rs : Reqs) : Extra :=
  rs.map fun p => (p.1, (p.2.map (fetchVal cl)).getD none)

theorem run_fetchP_cases {α : Type} (plan : Plan) (k : Nat) (cl : List ClusterObj) (sel : Option Selector)
    (c : Option Fetched → Prog FReq FResp α) :
    (∃ k', k ≤ k' ∧ fetchable sel = true ∧
        run fsem plan k (fetchP sel c) cl = run fsem plan k' (c (some ((sel.map (fetchVal cl)).getD none))) cl) ∨
    (∃ k', k ≤ k' ∧ run fsem plan k (fetchP sel c) cl = run fsem plan k' (c none) cl) ∨
    (run fsem plan k (fetchP sel c) cl).2 = none := by
  match sel with
  | none => exact Or.inr (Or.inl ⟨k, Nat.le_refl _, rfl⟩)
  | some ⟨kind, .unset⟩ => exact Or.inr (Or.inl ⟨k, Nat.le_refl _, rfl⟩)
  | some ⟨kind, .name n⟩ =>
    cases hp : plan k with
    | ok =>
      refine Or.inl ⟨k + 1, Nat.le_succ _, rfl, ?_⟩
      have e : ∀ b : Bool, (match (if b = true then FResp.found n else FResp.notFound) with
          | .found nm => c (some (some [nm])) | .notFound => c (some none) | _ => c none) =
          c (some (if b = true then some [n] else none)) := by intro b; cases b <;> rfl
      simp only [fetchP, Xp.run, hp]
      exact congrArg (fun p => run fsem plan (k + 1) p cl) (e _)
    | fail => exact Or.inr (Or.inl ⟨k + 1, Nat.le_succ _, by simp only [fetchP, Xp.run, hp]; rfl⟩)
    | conflict => exact Or.inr (Or.inl ⟨k + 1, Nat.le_succ _, by simp only [fetchP, Xp.run, hp]; rfl⟩)
    | crashBefore => exact Or.inr (Or.inr (by simp only [fetchP, Xp.run, hp]))
    | crashAfter => exact Or.inr (Or.inr (by simp only [fetchP, Xp.run, hp]))
  | some ⟨kind, .labels ls⟩ =>
    cases hp : plan k with
    | ok =>
      refine Or.inl ⟨k + 1, Nat.le_succ _, rfl, ?_⟩
      simp only [fetchP, Xp.run, hp]
      rfl
    | fail => exact Or.inr (Or.inl ⟨k + 1, Nat.le_succ _, by simp only [fetchP, Xp.run, hp]; rfl⟩)
    | conflict => exact Or.inr (Or.inl ⟨k + 1, Nat.le_succ _, by simp only [fetchP, Xp.run, hp]; rfl⟩)
    | crashBefore => exact Or.inr (Or.inr (by simp only [fetchP, Xp.run, hp]))
    | crashAfter => exact Or.inr (Or.inr (by simp only [fetchP, Xp.run, hp]))

theorem run_fetchAll_cases {α : Type} (plan : Plan) (cl : List ClusterObj) (c : Option Extra → Prog FReq FResp α) :
    ∀ (rs : Reqs) (acc : Extra) (k : Nat),
    (∃ k', k ≤ k' ∧ (∀ p ∈ rs, fetchable p.2 = true) ∧
        run fsem plan k (fetchAll rs acc c) cl = run fsem plan k' (c (some (acc ++ fetchedOf cl rs))) cl) ∨
    (∃ k', k ≤ k' ∧ run fsem plan k (fetchAll rs acc c) cl = run fsem plan k' (c none) cl) ∨
    (run fsem plan k (fetchAll rs acc c) cl).2 = none := by
  intro rs
  induction rs with
  | nil =>
    intro acc k
    refine Or.inl ⟨k, Nat.le_refl _, by simp, ?_⟩
    simp [fetchAll, fetchedOf]
  | cons p rest ih =>
    intro acc k
    obtain ⟨name, sel⟩ := p
    simp only [fetchAll]
    rcases run_fetchP_cases plan k cl sel (fun x => x.elim (c none) fun r => fetchAll rest (acc ++ [(name, r)]) c)
      with ⟨k1, hk1, hf, h⟩ | ⟨k1, hk1, h⟩ | h
    · rw [h]
      simp only [Option.elim]
      rcases ih (acc ++ [(name, (sel.map (fetchVal cl)).getD none)]) k1 with ⟨k2, hk2, hall, h2⟩ | ⟨k2, hk2, h2⟩ | h2
      · refine Or.inl ⟨k2, Nat.le_trans hk1 hk2, ?_, ?_⟩
        · intro q hq
          rcases List.mem_cons.mp hq with rfl | hq'
          · exact hf
          · exact hall q hq'
        · rw [h2]; simp [fetchedOf, List.append_assoc]
      · exact Or.inr (Or.inl ⟨k2, Nat.le_trans hk1 hk2, h2⟩)
      · exact Or.inr (Or.inr h2)
    · exact Or.inr (Or.inl ⟨k1, hk1, by rw [h]; rfl⟩)
    · exact Or.inr (Or.inr h)

/-- **Soundness of an accepted answer, under every fault plan.** If `RunFunction` returns an
answer `rsp`, then `rsp` is the function's answer to the last request it was sent, that request
was reached through rounds whose requirements were all fetched (the extra resources of every
request are exactly the cluster's answer to the previous answer's requirements), and `rsp` is
fatal or its requirements EQUAL those of the previous round. The number of calls is `n + 1 ≤ fuel`. -/
theorem runFunctionP_ok (f : XFn) (order : Reqs → Reqs) (plan : Plan) (cl : List ClusterObj) :
    ∀ (fuel : Nat) (req : Request) (prev : Option Reqs) (tr : List Request) (k : Nat) (tr' : List Request) (rsp : Rsp),
      (run fsem plan k (runFunctionP f order fuel req prev tr) cl).2 = some (tr', .ok rsp) →
      ∃ n rq pv, Rounds f cl order n req prev rq pv ∧ f rq = some rsp ∧
        (hasFatal rsp.base.results = true ∨ rsp.reqs = pv) ∧ n < fuel ∧ tr'.length = tr.length + n + 1 := by
  intro fuel
  induction fuel with
  | zero => intro req prev tr k tr' rsp h; simp [runFunctionP, Xp.run] at h
  | succ m ih =>
    intro req prev tr k tr' rsp h
    simp only [runFunctionP] at h
    split at h
    · simp [Xp.run] at h
    · rename_i rsp0 hf0
      split at h
      · rename_i hfat
        simp only [Xp.run, Option.some.injEq, Prod.mk.injEq, RunResult.ok.injEq] at h
        obtain ⟨rfl, rfl⟩ := h
        exact ⟨0, req, prev, Rounds.here _ _, hf0, Or.inl hfat, Nat.succ_pos _, by simp⟩
      · rename_i hfat
        split at h
        · rename_i hst
          simp only [Xp.run, Option.some.injEq, Prod.mk.injEq, RunResult.ok.injEq] at h
          obtain ⟨rfl, rfl⟩ := h
          exact ⟨0, req, prev, Rounds.here _ _, hf0, Or.inr hst, Nat.succ_pos _, by simp⟩
        · rename_i hst
          rcases run_fetchAll_cases plan cl (fun x => x.elim (Prog.ret (tr ++ [req], RunResult.err))
                fun extra => runFunctionP f order m { req with extra := extra, ctx := rsp0.base.ctx } rsp0.reqs (tr ++ [req]))
              (order (rsp0.reqs.getD [])) [] k with ⟨k', _, hall, h2⟩ | ⟨k', _, h2⟩ | h2
          · rw [h2] at h
            simp only [List.nil_append] at h
            obtain ⟨n, rq, pv, hr, hfr, hacc, hn, hlen⟩ := ih _ _ _ _ _ _ h
            refine ⟨n + 1, rq, pv, Rounds.next rsp0 hf0 (by simpa using hfat) hst hall hr, hfr, hacc, Nat.succ_lt_succ hn, ?_⟩
            rw [hlen]; simp; omega
          · rw [h2] at h; simp [Xp.run] at h
          · rw [h2] at h; cases h

/-- **The bound, under every fault plan and for every way of ending.** `RunFunction` sends the
function at most `fuel` requests. -/
theorem runFunctionP_bounded (f : XFn) (order : Reqs → Reqs) (plan : Plan) (cl : List ClusterObj) :
    ∀ (fuel : Nat) (req : Request) (prev : Option Reqs) (tr : List Request) (k : Nat) (tr' : List Request) (r : RunResult),
      (run fsem plan k (runFunctionP f order fuel req prev tr) cl).2 = some (tr', r) →
      tr'.length ≤ tr.length + fuel := by
  intro fuel
  induction fuel with
  | zero =>
    intro req prev tr k tr' r h
    simp only [runFunctionP, Xp.run, Option.some.injEq, Prod.mk.injEq] at h
    rw [← h.1]; simp
  | succ m ih =>
    intro req prev tr k tr' r h
    simp only [runFunctionP] at h
    have one : ∀ x : RunResult, (some (tr ++ [req], x) = some (tr', r)) → tr'.length ≤ tr.length + (m + 1) := by
      intro x hx
      simp only [Option.some.injEq, Prod.mk.injEq] at hx
      rw [← hx.1]; simp
    split at h
    · exact one _ (by simpa [Xp.run] using h)
    · rename_i rsp0 hf0
      split at h
      · exact one _ (by simpa [Xp.run] using h)
      · split at h
        · exact one _ (by simpa [Xp.run] using h)
        · rcases run_fetchAll_cases plan cl (fun x => x.elim (Prog.ret (tr ++ [req], RunResult.err))
                fun extra => runFunctionP f order m { req with extra := extra, ctx := rsp0.base.ctx } rsp0.reqs (tr ++ [req]))
              (order (rsp0.reqs.getD [])) [] k with ⟨k', _, _, h2⟩ | ⟨k', _, h2⟩ | h2
          · rw [h2] at h
            have := ih _ _ _ _ _ _ h
            simp at this; omega
          · rw [h2] at h
            exact one _ (by simpa [Xp.run] using h)
          · rw [h2] at h; cases h

/-- a function whose requirements change in every round is never accepted: `Rounds` can go on,
but no answer is fatal or equal to its predecessor's requirements -/
theorem rounds_prev {f : XFn} {cl : List ClusterObj} {order : Reqs → Reqs} {n : Nat} {req rq : Request} {prev pv : Option Reqs}
    (h : Rounds f cl order n req prev rq pv) : n = 0 ∧ pv = prev ∨ ∃ rq0 rsp0, f rq0 = some rsp0 ∧ rsp0.reqs = pv ∧
      hasFatal rsp0.base.results = false := by
  induction h with
  | here req prev => exact Or.inl ⟨rfl, rfl⟩
  | next rsp hf hfat _ _ _ ih =>
    rcases ih with ⟨_, rfl⟩ | h
    · exact Or.inr ⟨_, rsp, hf, rfl, hfat⟩
    · exact Or.inr h

/-! ### relation to `Xp.C04.runFetching` (fault-free runs) -/

/-- selectors of the C04 model that name at most one way of matching -/
def WFSel (s : Xp.C04.Sel) : Prop := s.name ≠ "" → s.labels = []

def WFReqs (l : List (String × Xp.C04.Sel)) : Prop := ∀ p ∈ l, WFSel p.2

theorem ofSel_inj {s t : Xp.C04.Sel} (hs : WFSel s) (ht : WFSel t) (h : ofSel s = ofSel t) : s = t := by
  obtain ⟨sk, sn, sl⟩ := s
  obtain ⟨tk, tn, tl⟩ := t
  simp only [WFSel] at hs ht
  simp only [ofSel] at h
  by_cases h1 : sn = "" <;> by_cases h2 : tn = ""
  · subst h1; subst h2; simp at h; obtain ⟨rfl, rfl⟩ := h; rfl
  · subst h1; simp [h2] at h
  · subst h2; simp [h1] at h
  · simp [h1, h2] at h; obtain ⟨rfl, rfl⟩ := h; rw [hs h1, ht h1]

theorem fetchVal_ofSel (cl : List ClusterObj) (s : Xp.C04.Sel) : fetchVal cl (ofSel s) = Xp.C04.fetch cl s := by
  unfold ofSel Xp.C04.fetch
  split <;> rfl

theorem ofReqs_inj {a b : List (String × Xp.C04.Sel)} (ha : WFReqs a) (hb : WFReqs b) (h : ofReqs a = ofReqs b) : a = b := by
  unfold ofReqs at h
  by_cases h1 : a = [] <;> by_cases h2 : b = [] <;> simp [h1, h2] at h
  · rw [h1, h2]
  · clear h1 h2
    induction a generalizing b with
    | nil => cases b with
      | nil => rfl
      | cons y ys => simp at h
    | cons x xs ih =>
      cases b with
      | nil => simp at h
      | cons y ys =>
        simp only [List.map_cons, List.cons.injEq, Prod.mk.injEq, Option.some.injEq] at h
        obtain ⟨⟨h1, h2⟩, h3⟩ := h
        have hx : x = y := by
          have := ofSel_inj (ha x (List.mem_cons_self ..)) (hb y (List.mem_cons_self ..)) h2
          exact Prod.ext h1 this
        rw [hx, ih (fun p hp => ha p (List.mem_cons_of_mem _ hp)) (fun p hp => hb p (List.mem_cons_of_mem _ hp)) h3]

theorem getD_ofReqs (l : List (String × Xp.C04.Sel)) :
    (ofReqs l).getD [] = l.map fun p => (p.1, some (ofSel p.2)) := by
  unfold ofReqs
  split
  · rename_i h; rw [h]; rfl
  · rfl

theorem run_fetchP_ok {α : Type} (plan : Plan) (k : Nat) (cl : List ClusterObj) (sel : Selector)
    (c : Option Fetched → Prog FReq FResp α) (hp : plan k = .ok) (hf : fetchable (some sel) = true) :
    run fsem plan k (fetchP (some sel) c) cl = run fsem plan (k + 1) (c (some (fetchVal cl sel))) cl := by
  obtain ⟨kind, m⟩ := sel
  cases m with
  | name n =>
    have e : ∀ b : Bool, (match (if b = true then FResp.found n else FResp.notFound) with
        | .found nm => c (some (some [nm])) | .notFound => c (some none) | _ => c none) =
        c (some (if b = true then some [n] else none)) := by intro b; cases b <;> rfl
    simp only [fetchP, Xp.run, hp]
    exact congrArg (fun p => run fsem plan (k + 1) p cl) (e _)
  | labels ls => simp only [fetchP, Xp.run, hp]; rfl
  | unset => simp [fetchable] at hf

theorem fetchable_ofSel (s : Xp.C04.Sel) : fetchable (some (ofSel s)) = true := by
  unfold ofSel; split <;> rfl

theorem run_fetchAll_allOk {α : Type} (cl : List ClusterObj) (c : Option Extra → Prog FReq FResp α) :
    ∀ (l : List (String × Xp.C04.Sel)) (acc : Extra) (k : Nat),
      ∃ k', run fsem Plan.allOk k (fetchAll (l.map fun p => (p.1, some (ofSel p.2))) acc c) cl =
        run fsem Plan.allOk k' (c (some (acc ++ l.map fun p => (p.1, Xp.C04.fetch cl p.2)))) cl := by
  intro l
  induction l with
  | nil => intro acc k; exact ⟨k, by simp [fetchAll]⟩
  | cons p rest ih =>
    intro acc k
    obtain ⟨k', h⟩ := ih (acc ++ [(p.1, Xp.C04.fetch cl p.2)]) (k + 1)
    refine ⟨k', ?_⟩
    simp only [List.map_cons, fetchAll]
    rw [run_fetchP_ok Plan.allOk k cl (ofSel p.2) _ rfl (fetchable_ofSel _), fetchVal_ofSel]
    simp only [Option.elim]
    rw [h]; simp [List.append_assoc]

def liftOutcome : Xp.C04.Outcome → RunResult
  | .ok r => .ok ⟨r, ofReqs r.reqs⟩
  | .err => .err

/-- **The fault-free run of the call-by-call model is the pure interpreter of the C04 model.** -/
theorem runFunctionP_allOk (f : Xp.C04.Fn) (hwf : ∀ rq r, f rq = some r → WFReqs r.reqs) (cl : List ClusterObj) :
    ∀ (fuel : Nat) (req : Request) (prev : List (String × Xp.C04.Sel)) (tr : List Request) (k : Nat), WFReqs prev →
      (run fsem Plan.allOk k (runFunctionP (liftFn f) id fuel req (ofReqs prev) tr) cl).2 =
        some (tr ++ (Xp.C04.runFetching cl f fuel req prev).1, liftOutcome (Xp.C04.runFetching cl f fuel req prev).2) := by
  intro fuel
  induction fuel with
  | zero => intro req prev tr k _; simp [runFunctionP, Xp.C04.runFetching, Xp.run, liftOutcome]
  | succ m ih =>
    intro req prev tr k hprev
    simp only [runFunctionP, Xp.C04.runFetching, liftFn]
    cases hf : f req with
    | none => simp [Xp.run, liftOutcome]
    | some rsp =>
      have hw := hwf _ _ hf
      simp only [Option.map_some]
      by_cases hfat : hasFatal rsp.results = true
      · simp [hfat, Xp.run, liftOutcome]
      · simp only [hfat, if_false, Bool.false_eq_true]
        by_cases hst : rsp.reqs = prev
        · simp [hst, Xp.run, liftOutcome]
        · have hne : ofReqs rsp.reqs ≠ ofReqs prev := fun h => hst (ofReqs_inj hw hprev h)
          simp only [hne, hst, if_false, id, getD_ofReqs]
          obtain ⟨k', h⟩ := run_fetchAll_allOk cl (fun x => x.elim (Prog.ret (tr ++ [req], RunResult.err))
                fun extra => runFunctionP (liftFn f) id m { req with extra := extra, ctx := rsp.ctx } (ofReqs rsp.reqs) (tr ++ [req]))
              rsp.reqs [] k
          rw [h]
          simp only [Option.elim, List.nil_append]
          rw [ih _ _ _ _ hw]
          simp [List.append_assoc]

/-! ### the collector with its controller check -/
open Xp.C01

theorem gcFnFull_eq_gcFn (lrv : Nat) (k : P) :
    ∀ os : List CObj, (∀ o ∈ os, o.ctrl ≠ .other) → gcFnFull lrv os k = gcFn lrv os k := by
  intro os
  induction os with
  | nil => intro _; rfl
  | cons o os ih =>
    intro h
    simp only [gcFnFull, gcFn, h o (List.mem_cons_self ..), if_false]
    rw [ih (fun o' ho' => h o' (List.mem_cons_of_mem _ ho'))]

theorem nonForeign_insert {acc : Obs} {n : String} {o : CObj} (ha : NonForeign acc) (ho : o.ctrl ≠ .other) :
    NonForeign (obsInsert acc n o) := by
  intro p hp
  rcases mem_obsInsert hp with h | rfl
  · exact ha p h
  · exact ho

/-- two continuations that agree on every observation without foreign-controlled entries give
the same program: the observer never lets such an entry in -/
theorem observeFn_congr (lrv : Nat) (k k' : Obs → P) (hk : ∀ obs, NonForeign obs → k obs = k' obs) :
    ∀ (rs : List Ref) (acc : Obs), NonForeign acc → observeFn lrv rs acc k = observeFn lrv rs acc k' := by
  intro rs
  induction rs with
  | nil => intro acc ha; simp only [observeFn]; exact hk acc ha
  | cons r rs ih =>
    intro acc ha
    simp only [observeFn]
    split
    · exact ih acc ha
    · have hfound : ∀ o : CObj,
          (if o.ctrl = .other then observeFn lrv rs acc k
            else if o.annot = "" then onError lrv else observeFn lrv rs (obsInsert acc o.annot o) k) =
          (if o.ctrl = .other then observeFn lrv rs acc k'
            else if o.annot = "" then onError lrv else observeFn lrv rs (obsInsert acc o.annot o) k') := by
        intro o
        by_cases hc : o.ctrl = .other
        · simp only [hc, if_true]; exact ih acc ha
        · simp only [hc, if_false]
          split
          · rfl
          · exact ih _ (nonForeign_insert ha hc)
      congr 1
      funext x
      cases x with
      | found o => exact hfound o
      | notFound =>
        simp only []
        congr 1
        funext y
        cases y with
        | found o => exact hfound o
        | notFound => exact ih acc ha
        | _ => rfl
      | _ => rfl

/-- **The controller check of the collector is never the deciding step**: built on the real
observer, the function composer with the check is the same program as the one without. -/
theorem composeFnFull_eq (lrv : Nat) (refs : List Ref) (out : Obs → FnOut) (ch : Choices)
    (hgc : ∀ l x, x ∈ ch.gcOrder l → x ∈ l) :
    composeFnFull lrv refs out ch = composeFn lrv refs out ch := by
  unfold composeFnFull composeFn
  apply observeFn_congr
  · intro obs hobs
    cases out obs with
    | failed => rfl
    | desired ds =>
      simp only []
      congr 1
      funext named
      have : ∀ o ∈ ch.gcOrder (undesiredOf obs ds), o.ctrl ≠ .other := by
        intro o ho
        have := hgc _ _ ho
        simp only [undesiredOf, List.mem_map, List.mem_filter] at this
        obtain ⟨p, ⟨hp, _⟩, rfl⟩ := this
        exact hobs p hp
      rw [gcFnFull_eq_gcFn lrv _ _ this]
      rfl
  · intro p hp; cases hp

/-- Whatever list the collector is handed — even one that (unlike the real observer's) contains
resources controlled by someone else — it issues update / delete requests only for entries that
are NOT controlled by someone else. -/
theorem issues_gcFnFull {Q : Req → Prop} (lrv : Nat) (k : P) (hs : Q (.statusUpdate (some lrv))) (hk : Issues Q k) :
    ∀ os : List CObj, (∀ o ∈ os, o.ctrl ≠ .other → Q (.gcUpdate o.kind o.name) ∧ Q (.delete o.kind o.name)) →
      Issues Q (gcFnFull lrv os k) := by
  intro os
  induction os with
  | nil => intro _; simpa [gcFnFull] using hk
  | cons o os ih =>
    intro hQ
    simp only [gcFnFull]
    split
    · exact issues_onErrorO' _ hs
    · rename_i hc
      have ho := hQ o (List.mem_cons_self ..) hc
      refine issues_wcall _ _ _ ho.1 hs fun _ => ?_
      refine issues_wcall _ _ _ ho.2 hs fun _ => ?_
      exact ih fun o' ho' => hQ o' (List.mem_cons_of_mem _ ho')

/-- a foreign-controlled entry stops the collection: nothing after it is touched -/
theorem gcFnFull_foreign_stops (lrv : Nat) (o : CObj) (os : List CObj) (k : P) (h : o.ctrl = .other) :
    gcFnFull lrv (o :: os) k = onError lrv := by
  simp [gcFnFull, h]

end Xp.C03

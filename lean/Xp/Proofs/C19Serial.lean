import Xp.Proofs.C19Marker
/-
C19 helper lemmas, part 8: with one reconcile in flight at a time
(MaxConcurrentReconciles = 1) the marker invariant is inductive.
-/
namespace Xp.C19

/-- what a reconcile additionally knows at some program counters when no other reconcile runs -/
def serialFacts (s : Store) (uname : String) (u : Usage) : Pc → Prop
  | .dUnlabel _ => ∀ y ∈ s.usages, y.indexedBy (indexValue u.of.av u.of.kind u.of.name) = true →
      y.name = uname ∨ y.ready = false
  | .getUsing => Labelled s u
  | .addOwner _ => Labelled s u
  | .status => Labelled s u
  | _ => True

def AfterSerial (s : Store) : After → Prop
  | .cont t' => serialFacts s t'.uname t'.u t'.pc
  | .done _ => True

theorem afterUnlabel_serial (s : Store) (t : Thread) : AfterSerial s t.afterUnlabel := by
  unfold Thread.afterUnlabel
  split <;> trivial

theorem afterFin_serial (s : Store) (t : Thread) : AfterSerial s t.afterFin := by
  unfold Thread.afterFin
  split <;> trivial

theorem afterResolve_serial (s : Store) (t : Thread) : AfterSerial s t.afterResolve := by
  unfold Thread.afterResolve
  split
  · split <;> trivial
  · split
    · exact afterFin_serial s t
    · trivial

theorem afterOf_serial (s : Store) (t : Thread) : AfterSerial s t.afterOf := by
  unfold Thread.afterOf
  split
  · exact afterResolve_serial s t
  · split
    · split <;> trivial
    · exact afterResolve_serial s t

theorem afterGet_serial (s : Store) (t : Thread) : AfterSerial s t.afterGet := by
  unfold Thread.afterGet
  split
  · trivial
  · split
    · split <;> trivial
    · exact afterOf_serial s t

theorem afterOwner_serial {s : Store} {t : Thread} (h : Labelled s t.u) : AfterSerial s t.afterOwner := by
  unfold Thread.afterOwner
  split
  · exact h
  · trivial

theorem afterLabel_serial {s : Store} {t : Thread} (h : Labelled s t.u) : AfterSerial s t.afterLabel := by
  unfold Thread.afterLabel
  split
  · exact afterOwner_serial h
  · exact h

theorem updU_res (s : Store) (u : Usage) : (s.updU u).1.res = s.res := by
  unfold Store.updU
  split
  · rfl
  · split
    · rfl
    · split
      · rfl
      · split <;> rfl

/-- an own Update of the Usage keeps the marker invariant -/
theorem own_updU_marker {s : Store} {t : Thread} (hb : ThreadBase s t) (hm : Marker s) (u' : Usage)
    (hname : u'.name = t.uname) (hrv : u'.rv = t.u.rv) (hof : t.u.ready = true → u'.of = t.u.of) :
    Marker (s.updU u').1 := by
  have spec := updU_spec s u'
  generalize (s.updU u').1 = s' at spec ⊢
  generalize (s.updU u').2 = resp at spec
  cases spec with
  | notFound hg => exact hm
  | conflict x hg hne => exact hm
  | noop x hg hx hon => exact hm
  | put x hg hx hng =>
    obtain ⟨rfl, hmem⟩ := hb.hit hg hname (hx.trans hrv)
    exact hm.putU hmem rfl rfl hof
  | gone x hg hx hd hf => exact (hm.dropU _).bump

def ExecSerial (s : Store) (t : Thread) : Prop :=
  Marker (s.exec t.request).1 ∧ AfterSerial (s.exec t.request).1 (t.next s.usages (s.exec t.request).2)

/-- after a successful label Update the used resource exists and is labelled -/
theorem labelled_after_label {s : Store} (hs : StoreInv s) {u : Usage} {used : Res} (hk : usedKey used u)
    (hne : u.of.name ≠ "") {r : Res} (hr : (s.updR { used with inUse := true }).2 = .res r) :
    Labelled (s.updR { used with inUse := true }).1 u := by
  have hnames : ∀ z : Res, z.group = used.group → z.kind = used.kind → z.name = used.name → u.names z = true := by
    intro z h1 h2 h3
    simp only [Usage.names_iff]
    exact ⟨hne, by rw [h1]; exact hk.1.symm, by rw [h2]; exact hk.2.1.symm, by rw [h3]; exact hk.2.2.symm⟩
  have spec := updR_spec s { used with inUse := true }
  generalize (s.updR { used with inUse := true }).1 = s' at spec ⊢
  generalize (s.updR { used with inUse := true }).2 = resp at spec hr
  cases spec with
  | notFound hg => cases hr
  | conflict x hg hne => cases hr
  | noop x hg hx hon =>
    have hx' := getR_some hg
    have hxin : x.inUse = true := by rw [hon]
    refine ⟨⟨x, hx'.1, hnames x hx'.2.1 hx'.2.2.1 hx'.2.2.2⟩, fun r' hr' hn' => ?_⟩
    have hkk := names_same_key (hnames x hx'.2.1 hx'.2.2.1 hx'.2.2.2) hn'
    have : r' = x := hs.resUniq r' hr' x hx'.1 hkk.1 hkk.2.1 hkk.2.2
    rw [this]; exact hxin
  | put x hg hx =>
    have hx' := getR_some hg
    constructor
    · refine ⟨{ ({ used with inUse := true } : Res) with uid := x.uid, rv := s.nextRv }, ?_, hnames _ rfl rfl rfl⟩
      rw [bump_res]
      exact mem_putR.mpr (.inr ⟨rfl, x, hx'.1, hx'.2⟩)
    · intro r' hr' hn'
      rw [bump_res] at hr'
      rcases mem_putR.mp hr' with ⟨_, hdiff⟩ | ⟨rfl, _⟩
      · have hkk := names_same_key (hnames _ rfl rfl rfl :
          u.names { used with inUse := true, uid := x.uid, rv := s.nextRv } = true) hn'
        exact absurd hkk hdiff
      · rfl

theorem exec_serial {s : Store} (hs : StoreInv s) (hm : Marker s) {t : Thread} (ht : TInv s t)
    (hsf : serialFacts s t.uname t.u t.pc) : ExecSerial s t := by
  obtain ⟨nm, pc, u, orv, ord, seen⟩ := t
  cases pc with
  | getUsage =>
    refine ⟨hm, ?_⟩
    simp only [Thread.request, Store.exec]
    cases s.getU nm with
    | none => simp only [Thread.next]; trivial
    | some x => simp only [Thread.next]; exact afterGet_serial _ _
  | ofList =>
    refine ⟨hm, ?_⟩
    simp only [Thread.request, Store.exec, Thread.next]
    split <;> trivial
  | ofUpdate pick =>
    rcases ht with h | ⟨hb, hf⟩
    · cases h
    · have hnr : u.ready = true → False := fun hr => hb.ok.readyOf hr hf.1
      refine ⟨own_updU_marker hb hm _ hb.name rfl (fun hr => (hnr hr).elim), ?_⟩
      simp only [Thread.request, Store.exec]
      generalize (s.updU { u with of := { u.of with name := pick } }).1 = s'
      generalize (s.updU { u with of := { u.of with name := pick } }).2 = resp
      cases resp with
      | usage n => simp only [Thread.next]; exact afterOf_serial _ _
      | _ => simp only [Thread.next]; trivial
  | byList =>
    unfold ExecSerial
    simp only [Thread.request]
    cases u.by_ with
    | none =>
      simp only [Store.exec, Thread.next]
      refine ⟨hm, ?_⟩
      split <;> trivial
    | some b =>
      simp only [Store.exec, Thread.next]
      refine ⟨hm, ?_⟩
      split <;> trivial
  | byUpdate pick =>
    rcases ht with h | ⟨hb, hf⟩
    · cases h
    · refine ⟨own_updU_marker hb hm _ hb.name rfl (fun _ => rfl), ?_⟩
      simp only [Thread.request, Store.exec]
      generalize (s.updU { u with by_ := u.by_.map fun b => { b with name := pick } }).1 = s'
      generalize (s.updU { u with by_ := u.by_.map fun b => { b with name := pick } }).2 = resp
      cases resp with
      | usage n => simp only [Thread.next]; exact afterResolve_serial _ _
      | _ => simp only [Thread.next]; trivial
  | dGetUsing =>
    unfold ExecSerial
    simp only [Thread.request]
    cases u.by_ with
    | none =>
      simp only [Store.exec]
      refine ⟨hm, ?_⟩
      cases s.getR "" "" "" with
      | none => simp only [Thread.next]; trivial
      | some r => simp only [Thread.next]; trivial
    | some b =>
      simp only [Store.exec]
      refine ⟨hm, ?_⟩
      cases s.getR (groupOf b.av) b.kind b.name with
      | none => simp only [Thread.next]; trivial
      | some r => simp only [Thread.next]; trivial
  | dGetUsed =>
    refine ⟨hm, ?_⟩
    simp only [Thread.request, Store.exec]
    cases s.getR (groupOf u.of.av) u.of.kind u.of.name with
    | none => simp only [Thread.next]; exact afterUnlabel_serial _ _
    | some r => simp only [Thread.next]; trivial
  | dList used =>
    rcases ht with h | ⟨hb, hf⟩
    · cases h
    · refine ⟨hm, ?_⟩
      simp only [Thread.request, Store.exec, Thread.next]
      split
      · next hlt =>
        intro y hy hyi
        left
        obtain ⟨x, hx, hxn, _, hxo, _⟩ := hb.hold (hb.ok.delFin hf.1)
        have hxi : x.indexedBy (indexValue u.of.av u.of.kind u.of.name) = true := by
          simp only [Usage.indexedBy_iff]
          simp only at hxo
          rw [hxo]; exact ⟨hf.2.1, rfl⟩
        have := countU_lt_two hlt hy hx hyi hxi
        rw [this]; exact hxn
      · exact afterUnlabel_serial _ _
  | dUnlabel used =>
    rcases ht with h | ⟨hb, hf⟩
    · cases h
    · obtain ⟨hdel, hne, hk, _⟩ := hf
      constructor
      · simp only [Thread.request, Store.exec]
        have spec := updR_spec s { used with inUse := false }
        generalize (s.updR { used with inUse := false }).1 = s' at spec ⊢
        generalize (s.updR { used with inUse := false }).2 = resp at spec
        cases spec with
        | notFound hg => exact hm
        | conflict x hg hne => exact hm
        | noop x hg hx hon => exact hm
        | put x hg hx =>
          intro y hy hyr hyd
          rw [bump_usages, putR_usages] at hy
          refine (hm y hy hyr hyd).putR_other ?_
          cases hb' : y.names { used with inUse := false, uid := x.uid, rv := s.nextRv } with
          | false => rfl
          | true =>
            exfalso
            simp only [Usage.names_iff] at hb'
            have hyi : y.indexedBy (indexValue u.of.av u.of.kind u.of.name) = true := by
              simp only [Usage.indexedBy_iff, indexValue]
              refine ⟨hb'.1, ?_⟩
              rw [hb'.2.1, hb'.2.2.1, hb'.2.2.2, hk.1, hk.2.1, hk.2.2]
            rcases hsf y hy hyi with hyn | hynr
            · obtain ⟨w, hw, hwn, _, _, hwd⟩ := hb.hold (hb.ok.delFin hdel)
              have : y = w := hs.usageUniq y hy w hw (hyn.trans hwn.symm)
              rw [this, hwd hdel] at hyd; cases hyd
            · rw [hynr] at hyr; cases hyr
      · simp only [Thread.request, Store.exec]
        generalize (s.updR { used with inUse := false }).1 = s'
        generalize (s.updR { used with inUse := false }).2 = resp
        cases resp with
        | res r => simp only [Thread.next]; exact afterUnlabel_serial _ _
        | err e => cases e <;> (simp only [Thread.next]; trivial)
        | _ => simp only [Thread.next]; trivial
  | dRemoveFin =>
    rcases ht with h | ⟨hb, hf⟩
    · cases h
    · refine ⟨own_updU_marker hb hm _ hb.name rfl (fun _ => rfl), ?_⟩
      simp only [Thread.request, Store.exec]
      generalize (s.updU { u with fin := false }).1 = s'
      generalize (s.updU { u with fin := false }).2 = resp
      cases resp with
      | err e => cases e <;> (simp only [Thread.next]; trivial)
      | _ => simp only [Thread.next]; trivial
  | addFin =>
    rcases ht with h | ⟨hb, hf⟩
    · cases h
    · refine ⟨own_updU_marker hb hm _ hb.name rfl (fun _ => rfl), ?_⟩
      simp only [Thread.request, Store.exec]
      generalize (s.updU { u with fin := true }).1 = s'
      generalize (s.updU { u with fin := true }).2 = resp
      cases resp with
      | usage n => simp only [Thread.next]; exact afterFin_serial _ _
      | err e => cases e <;> (simp only [Thread.next]; trivial)
      | _ => simp only [Thread.next]; trivial
  | addDetails =>
    rcases ht with h | ⟨hb, hf⟩
    · cases h
    · refine ⟨own_updU_marker hb hm _ hb.name rfl (fun _ => rfl), ?_⟩
      simp only [Thread.request, Store.exec]
      generalize (s.updU { u with details := some (detailsOf u) }).1 = s'
      generalize (s.updU { u with details := some (detailsOf u) }).2 = resp
      cases resp with
      | usage n => simp only [Thread.next]; trivial
      | err e => cases e <;> (simp only [Thread.next]; trivial)
      | _ => simp only [Thread.next]; trivial
  | getUsed =>
    rcases ht with h | ⟨hb, hf⟩
    · cases h
    · refine ⟨hm, ?_⟩
      simp only [Thread.request, Store.exec]
      cases hg : s.getR (groupOf u.of.av) u.of.kind u.of.name with
      | none => simp only [Thread.next]; trivial
      | some r =>
        simp only [Thread.next]
        have hr := getR_some hg
        split
        · trivial
        · next hcond =>
          have hin : r.inUse = true := by
            cases hb' : r.inUse with
            | true => rfl
            | false => exact absurd (.inl hb') hcond
          have hnr : u.names r = true := by
            simp only [Usage.names_iff]
            exact ⟨hf.2.1, hr.2.1.symm, hr.2.2.1.symm, hr.2.2.2.symm⟩
          refine afterLabel_serial ⟨⟨r, hr.1, hnr⟩, fun r' hr' hn' => ?_⟩
          have hkk := names_same_key hnr hn'
          have : r' = r := hs.resUniq r' hr' r hr.1 hkk.1 hkk.2.1 hkk.2.2
          rw [this]; exact hin
  | label used =>
    rcases ht with h | ⟨hb, hf⟩
    · cases h
    · obtain ⟨hdel, hne, _, _, hk⟩ := hf
      constructor
      · simp only [Thread.request, Store.exec]
        have spec := updR_spec s { used with inUse := true }
        generalize (s.updR { used with inUse := true }).1 = s' at spec ⊢
        generalize (s.updR { used with inUse := true }).2 = resp at spec
        cases spec with
        | notFound hg => exact hm
        | conflict x hg hne => exact hm
        | noop x hg hx hon => exact hm
        | put x hg hx =>
          intro y hy hyr hyd
          rw [bump_usages, putR_usages] at hy
          exact (hm y hy hyr hyd).putR (fun _ _ _ _ _ _ => rfl)
      · simp only [Thread.request, Store.exec]
        have hl := @labelled_after_label s hs u used hk hne
        generalize (s.updR { used with inUse := true }).1 = s' at hl ⊢
        generalize (s.updR { used with inUse := true }).2 = resp at hl ⊢
        cases resp with
        | res r => simp only [Thread.next]; exact afterLabel_serial (hl rfl)
        | err e => cases e <;> (simp only [Thread.next]; trivial)
        | _ => simp only [Thread.next]; trivial
  | getUsing =>
    rcases ht with h | ⟨hb, hf⟩
    · cases h
    · obtain ⟨h1, h2, h3, h4, b, hby⟩ := hf
      change u.by_ = some b at hby
      unfold ExecSerial
      simp only [Thread.request, hby, Store.exec]
      refine ⟨hm, ?_⟩
      cases s.getR (groupOf b.av) b.kind b.name with
      | none => simp only [Thread.next]; trivial
      | some g =>
        simp only [Thread.next]
        split
        · split
          · exact afterOwner_serial hsf
          · exact hsf
        · exact hsf
  | addOwner ref =>
    rcases ht with h | ⟨hb, hf⟩
    · cases h
    · refine ⟨own_updU_marker hb hm _ hb.name rfl (fun _ => rfl), ?_⟩
      have key := own_updU hs hb { u with owners := addOwnerRef u.owners ref } hb.name rfl (fun _ => hf.2.2.2.1)
        ⟨hb.ok.delFin, hb.ok.readyOf, hb.ok.readyBy, fun _ b' hb' => by
          obtain ⟨b, hby, hborn⟩ := hf.2.2.2.2
          change u.by_ = some b' at hb'
          rw [hby] at hb'; cases hb'
          exact ⟨ref, mem_addOwnerRef _ _, hborn⟩⟩
      have h3 := key.2.2
      have hres := updU_res s { u with owners := addOwnerRef u.owners ref }
      simp only [Thread.request, Store.exec] at h3 ⊢
      generalize (s.updU { u with owners := addOwnerRef u.owners ref }).1 = s' at h3 hres ⊢
      generalize (s.updU { u with owners := addOwnerRef u.owners ref }).2 = resp at h3 ⊢
      cases resp with
      | usage n =>
        obtain ⟨_, hof, _⟩ := h3 n rfl
        simp only [Thread.next]
        exact afterOwner_serial ((Labelled.of_eq hsf hof).sameRes hres)
      | err e => cases e <;> (simp only [Thread.next]; trivial)
      | _ => simp only [Thread.next]; trivial
  | status =>
    rcases ht with h | ⟨hb, hf⟩
    · cases h
    · constructor
      · simp only [Thread.request, Store.exec]
        have spec := updStatus_spec s { u with ready := true }
        generalize (s.updStatus { u with ready := true }).1 = s' at spec ⊢
        generalize (s.updStatus { u with ready := true }).2 = resp at spec
        cases spec with
        | notFound hg => exact hm
        | conflict x hg hne => exact hm
        | noop x hg hx hon => exact hm
        | put x hg hx hng =>
          obtain ⟨rfl, hmem⟩ := hb.hit hg hb.name hx
          intro y hy hyr hyd
          rw [bump_usages] at hy
          rcases mem_putU.mp hy with ⟨hy', _⟩ | ⟨rfl, _⟩
          · exact (hm y hy' hyr hyd).sameRes rfl
          · exact (Labelled.of_eq hsf rfl).sameRes rfl
      · simp only [Thread.request, Store.exec]
        generalize (s.updStatus { u with ready := true }).1 = s'
        generalize (s.updStatus { u with ready := true }).2 = resp
        cases resp with
        | usage n => simp only [Thread.next]; trivial
        | _ => simp only [Thread.next]; trivial

end Xp.C19

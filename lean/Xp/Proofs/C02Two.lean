import Xp.Model.C02Two
/-
C02, two XRs and one composed-resource name: proofs about `Xp.C02Two`.
-/
namespace Xp.C02Two

/-- every controller reference was applied by the manager of the XR it names -/
def WF (mgr : Nat → String) (s : St) : Prop := ∀ o ∈ s.objs, ∀ r ∈ o.refs, r.2 = mgr r.1

theorem mem_mergeRefs {refs : List (Nat × String)} {x : Nat} {m : String} {r : Nat × String}
    (h : r ∈ mergeRefs refs x m) : r ∈ refs ∨ r = (x, m) := by
  unfold mergeRefs at h
  split at h
  · exact Or.inl (List.mem_filter.mp h).1
  · rcases List.mem_append.mp h with h1 | h1
    · exact Or.inl (List.mem_filter.mp h1).1
    · simp at h1; exact Or.inr h1

theorem mergeRefs_keeps {refs : List (Nat × String)} {x : Nat} {m : String} {r : Nat × String}
    (h : r ∈ refs) (hm : r.2 ≠ m) : r ∈ mergeRefs refs x m := by
  have hk : r ∈ refs.filter (fun r => r.2 ≠ m ∨ r.1 = x) := List.mem_filter.mpr ⟨h, by simp [hm]⟩
  unfold mergeRefs
  split
  · exact hk
  · exact List.mem_append_left _ hk

theorem applySSA_wf (mgr : Nat → String) (objs : List Obj) (n : String) (x c : Nat)
    (h : ∀ o ∈ objs, ∀ r ∈ o.refs, r.2 = mgr r.1) :
    ∀ o ∈ (applySSA objs n x (mgr x) c).1, ∀ r ∈ o.refs, r.2 = mgr r.1 := by
  unfold applySSA
  split
  · intro o ho r hr
    rcases List.mem_append.mp ho with h1 | h1
    · exact h o h1 r hr
    · simp at h1; subst h1; simp at hr; subst hr; rfl
  · rename_i o0 hf
    have h0 := List.mem_of_find?_eq_some hf
    split
    · intro o ho r hr
      obtain ⟨p, hp, rfl⟩ := List.mem_map.mp ho
      split at hr
      · rcases mem_mergeRefs hr with h1 | h1
        · exact h o0 h0 r h1
        · subst h1; rfl
      · exact h p hp r hr
    · exact h

/-- **The API server's guard.** An apply by XR `x` addressed to an object that carries a
controller reference to another XR `y`, applied by a different field manager, is rejected:
nothing is written. -/
theorem applySSA_refused (mgr : Nat → String) (objs : List Obj) (n : String) (x y c : Nat) (o : Obj)
    (hwf : ∀ o ∈ objs, ∀ r ∈ o.refs, r.2 = mgr r.1)
    (hf : objs.find? (·.name = n) = some o) (hy : o.ctrl = some y) (hxy : y ≠ x) (hm : mgr y ≠ mgr x) :
    applySSA objs n x (mgr x) c = (objs, false) := by
  have h0 := List.mem_of_find?_eq_some hf
  -- the head reference names y and was applied by mgr y
  obtain ⟨r0, rest, hr0, hr0y⟩ : ∃ r0 rest, o.refs = r0 :: rest ∧ r0.1 = y := by
    unfold Obj.ctrl at hy
    cases hrf : o.refs with
    | nil => rw [hrf] at hy; simp at hy
    | cons r0 rest => rw [hrf] at hy; simp at hy; exact ⟨r0, rest, rfl, hy⟩
  have hr0m : r0.2 = mgr y := by
    have := hwf o h0 r0 (by rw [hr0]; exact List.mem_cons_self ..)
    rw [hr0y] at this; exact this
  have hkeep : r0 ∈ mergeRefs o.refs x (mgr x) :=
    mergeRefs_keeps (by rw [hr0]; exact List.mem_cons_self ..) (by rw [hr0m]; exact hm)
  have hnot : ((mergeRefs o.refs x (mgr x)).all fun r => decide (r.1 = x)) = false := by
    apply Bool.eq_false_iff.mpr
    intro hall
    have := List.all_eq_true.mp hall r0 hkeep
    simp [hr0y, hxy] at this
  unfold applySSA
  rw [hf]
  simp only [hnot]
  simp

/-- an apply addressed to another name leaves an object as it is -/
theorem applySSA_other_name (objs : List Obj) (n : String) (x : Nat) (m : String) (c : Nat) (o : Obj)
    (ho : o ∈ objs) (hn : o.name ≠ n) : o ∈ (applySSA objs n x m c).1 := by
  unfold applySSA
  split
  · exact List.mem_append_left _ ho
  · split
    · exact List.mem_map.mpr ⟨o, ho, by simp [hn]⟩
    · exact ho

theorem find_of_mem_name (objs : List Obj) (hnd : (objs.map (·.name)).Nodup) (o : Obj) (ho : o ∈ objs) :
    objs.find? (·.name = o.name) = some o := by
  induction objs with
  | nil => cases ho
  | cons p ps ih =>
    simp only [List.map_cons, List.nodup_cons] at hnd
    rcases List.mem_cons.mp ho with rfl | h1
    · simp
    · have hne : p.name ≠ o.name := by
        intro he; exact hnd.1 (he ▸ List.mem_map.mpr ⟨o, h1, rfl⟩)
      simp [List.find?, hne, ih hnd.2 h1]

theorem applySSA_names (objs : List Obj) (n : String) (x : Nat) (m : String) (c : Nat)
    (hnd : (objs.map (·.name)).Nodup) : ((applySSA objs n x m c).1.map (·.name)).Nodup := by
  unfold applySSA
  split
  · rename_i hf
    rw [List.map_append, List.nodup_append]
    refine ⟨hnd, by simp, ?_⟩
    intro a ha b hb
    simp at hb; subst hb
    obtain ⟨o, ho, rfl⟩ := List.mem_map.mp ha
    intro he
    have := List.find?_eq_none.mp hf o ho
    simp [he] at this
  · split
    · rw [List.map_map]
      have : ∀ (rf : List (Nat × String)), ((fun o : Obj => o.name) ∘ fun p => if p.name = n then (⟨n, rf, c⟩ : Obj) else p) = (·.name) := by
        intro rf; funext p; simp only [Function.comp]; split <;> simp_all
      rw [this]; exact hnd
    · exact hnd

/-- **Two XRs, one name: the other XR's object is left exactly as it was.** For every field
manager function that separates the two XRs, every state in which references are tagged with
their appliers' managers, a reconcile of XR `x` — whatever name its pipeline asks for — leaves
every object controlled by another XR `y` in the store byte for byte. -/
theorem step_leaves_other_xr_untouched (mgr : Nat → String) (res : Nat → String) (x y c : Nat) (s : St)
    (hwf : WF mgr s) (hnd : (s.objs.map (·.name)).Nodup) (hxy : y ≠ x) (hm : mgr y ≠ mgr x)
    (o : Obj) (ho : o ∈ s.objs) (hy : o.ctrl = some y) : o ∈ (step mgr res x c s).1.objs := by
  simp only [step]
  by_cases hn : o.name = res x
  · rw [applySSA_refused mgr s.objs (res x) x y c o hwf (hn ▸ find_of_mem_name s.objs hnd o ho) hy hxy hm]
    exact ho
  · exact applySSA_other_name _ _ _ _ _ o ho hn

theorem step_wf (mgr : Nat → String) (res : Nat → String) (x c : Nat) (s : St) (hwf : WF mgr s) :
    WF mgr (step mgr res x c s).1 := by
  simp only [step, WF]
  exact applySSA_wf mgr s.objs (res x) x c hwf

theorem step_names (mgr : Nat → String) (res : Nat → String) (x c : Nat) (s : St)
    (hnd : (s.objs.map (·.name)).Nodup) : ((step mgr res x c s).1.objs.map (·.name)).Nodup := by
  simp only [step]
  exact applySSA_names _ _ _ _ _ hnd

/-- … over every history of reconciles of XRs other than `y`. -/
theorem history_leaves_other_xr_untouched (mgr : Nat → String) (res : Nat → String) (y : Nat)
    (h : List (Nat × Nat)) (hh : ∀ p ∈ h, p.1 ≠ y ∧ mgr y ≠ mgr p.1) :
    ∀ (s : St), WF mgr s → (s.objs.map (·.name)).Nodup → ∀ o ∈ s.objs, o.ctrl = some y →
      o ∈ (runSteps mgr res h s).objs := by
  induction h with
  | nil => intro s _ _ o ho _; exact ho
  | cons p ps ih =>
    intro s hwf hnd o ho hy
    obtain ⟨x, c⟩ := p
    have hp := hh (x, c) (List.mem_cons_self ..)
    simp only [runSteps]
    apply ih (fun q hq => hh q (List.mem_cons_of_mem _ hq)) _ (step_wf mgr res x c s hwf) (step_names mgr res x c s hnd) o
    · exact step_leaves_other_xr_untouched mgr res x y c s hwf hnd (Ne.symm hp.1) hp.2 o ho hy
    · exact hy

end Xp.C02Two

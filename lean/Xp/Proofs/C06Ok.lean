import Xp.Proofs.C06Inv
/-
C06 helper lemmas, part 2: rely/guarantee safety of the reconcile program.

`Ok p s`: whatever the environment does between two calls of `p` (any possible
future of `s` that satisfies the store invariant), every request `p` issues
satisfies the guarantee `G` at the instant it is applied, for every outcome of
every call. `ok_reconcile` shows this for the whole reconciler, from any state,
for every cache lag, name oracle and managed-fields oracle; `reach_inv` lifts it
to every reachable state of the interleaved system.
-/
namespace Xp.C06

/-- what the controller may conclude from a reply, in the state right after the call -/
def RF (s : St) : Req → Resp → Prop
  | .getClaim _, resp => ∀ c, resp = .claim c → c ∈ s.hist
  | .getXR n _, resp => (resp = .err .notFound → none ∈ s.xhist n) ∧ (∀ x, resp = .xr x → some x ∈ s.xhist n)
  | .updClaim c, resp => ∀ c1, resp = .claim c1 → c1 ∈ s.hist ∧ c1.ref = c.ref
  | .updClaimStatus _, resp => ∀ c1, resp = .claim c1 → c1 ∈ s.hist
  | .upgradeXR n rv _, resp => ∀ x', resp = .xr x' → some x' ∈ s.xhist n ∧ ∃ y, some y ∈ s.xhist n ∧ y.rv = rv ∧ y.cref = x'.cref
  | _, _ => True

theorem rf_exec {P0 : Name → Prop} {s : St} (hi : Inv P0 s) (r : Req) : RF (exec s r).1 r (exec s r).2 := by
  cases r with
  | getClaim pick =>
    simp only [exec]
    split
    · rename_i c hc
      intro c' h; cases h
      cases pick with
      | none => simp at hc
      | some i =>
        simp only [Option.bind_some] at hc
        exact List.mem_of_getElem? hc
    · split
      · rename_i c hc
        intro c' h; cases h
        exact cur_mem hi hc
      · intro c' h; cases h
  | getXR n sel =>
    have hmem : (match sel.bind (fun f => f ((s.xhist n).drop 1)) with
                 | some ox => if ox ∈ (s.xhist n).drop 1 then ox else s.xrs n
                 | none => s.xrs n) ∈ s.xhist n := by
      split
      · split
        · rename_i h; exact List.mem_of_mem_drop h
        · exact hi.xcur n
      · exact hi.xcur n
    simp only [exec]
    split
    · rename_i x hx
      unfold RF
      exact ⟨fun h => (by cases h), fun y h => (by cases h; rw [← hx]; exact hmem)⟩
    · rename_i hx
      unfold RF
      exact ⟨fun _ => (by rw [← hx]; exact hmem), fun y h => (by cases h)⟩
  | updClaim c =>
    simp only [exec]
    split
    · intro c1 h; cases h
    · split
      · intro c1 h; cases h
      · intro c1 h; cases h
        exact ⟨pushClaim_resp_mem _ _, rfl⟩
  | updClaimStatus rv =>
    simp only [exec]
    split
    · intro c1 h; cases h
    · split
      · intro c1 h; cases h
      · intro c1 h; cases h
        exact pushClaim_resp_mem _ _
  | upgradeXR n rv valid =>
    simp only [exec]
    split
    · intro x' h; cases h
    · rename_i x hx
      split
      · intro x' h; cases h
      · split
        · intro x' h; cases h
        · rename_i hrv
          have hrv : rv = x.rv := by simpa using hrv
          have hxm : some x ∈ s.xhist n := hx ▸ hi.xcur n
          intro x' h
          cases h
          refine ⟨?_, x, ?_, hrv.symm, rfl⟩
          · simp [emit, putXR]
          · simp [emit, putXR]; exact Or.inr hxm
  | deleteXR n fg => trivial
  | createXR n rvSet cref => trivial
  | patchXR n rv cref => trivial
  | applyXR n cref => trivial

theorem rf_err (s : St) (e : Err) (r : Req) (h : admissible r e = true) : RF s r (.err e) := by
  cases r <;> cases e <;> simp_all [RF, admissible]

def Ok (P0 : Name → Prop) : P → St → Prop
  | .ret _, _ => True
  | .call r k, s => ∀ s', Fut s s' → Inv P0 s' →
      G s' r ∧ Ok P0 (k (exec s' r).2) (exec s' r).1 ∧ (∀ e, admissible r e = true → Ok P0 (k (.err e)) s') ∧
        ∀ e, admissible r e = true → Ok P0 (k (.err e)) (exec s' r).1

theorem ok_fut {P0 : Name → Prop} {p : P} {s s1 : St} (h : Ok P0 p s) (hf : Fut s s1) : Ok P0 p s1 := by
  cases p with
  | ret a => trivial
  | call r k => exact fun s' hf' hi' => h s' (hf.trans hf') hi'

theorem ok_ret {P0 : Name → Prop} (a : Res) (s : St) : Ok P0 (.ret a) s := trivial

/-- one call: the guarantee must follow from what is stable, and the continuation must be
safe for every reply consistent with `RF` in every later state -/
theorem ok_call {P0 : Name → Prop} {r : Req} {k : Resp → P} {s : St}
    (hG : ∀ s', Fut s s' → Inv P0 s' → G s' r)
    (hk : ∀ s'' resp, Fut s s'' → Inv P0 s'' → RF s'' r resp → Ok P0 (k resp) s'') : Ok P0 (.call r k) s := by
  intro s' hf hi
  have g := hG s' hf hi
  obtain ⟨hie, hfe⟩ := exec_inv_fut hi r g
  exact ⟨g, hk _ _ (hf.trans hfe) hie (rf_exec hi r), fun e he => hk _ _ hf hi (rf_err s' e r he),
    fun e he => hk _ _ (hf.trans hfe) hie (rf_err _ e r he)⟩

/-! ### the pieces of the reconciler -/

variable {P0 : Name → Prop}

theorem ok_statusThen (cm : Claim) (r : Res) (s : St) : Ok P0 (statusThen cm r) s := by
  unfold statusThen
  refine ok_call (fun _ _ _ => trivial) ?_
  intro s'' resp _ hiq _
  cases resp <;> exact ok_ret _ _

theorem ok_failWith (cm : Claim) (e : Err) (s : St) : Ok P0 (failWith cm e) s := by
  cases e <;> first | exact ok_ret _ _ | exact ok_statusThen _ _ _

theorem ok_finish (cm : Claim) (s : St) : Ok P0 (finish cm) s := ok_statusThen _ _ _

theorem ok_genName (xpick : Nat → Option (List (Option XR) → Option (Option XR))) (s0 : St) (t : Nat) (j : Nat) (cands : List Name) (k : Option Name → P)
    (hsome : ∀ n s, Fut s0 s → NF s n → Ok P0 (k (some n)) s) (hnone : ∀ s, Ok P0 (k none) s)
    (s : St) (hf : Fut s0 s) : Ok P0 (genName xpick t j cands k) s := by
  induction t generalizing j cands s with
  | zero => unfold genName; exact hnone s
  | succ t ih =>
    cases cands with
    | nil => unfold genName; exact hnone s
    | cons c cs =>
      unfold genName
      refine ok_call (fun _ _ _ => trivial) ?_
      intro s'' resp hf'' hi'' hrf
      cases resp with
      | claim c' => exact hnone _
      | ok => exact hnone _
      | xr x => exact ih _ cs _ (hf.trans hf'')
      | err e =>
        cases e with
        | notFound =>
          exact hsome c s'' (hf.trans hf'') (nf_of_hist hi'' (hrf.1 rfl) (fun x h => by cases h))
        | conflict => exact hnone _
        | invalid => exact hnone _
        | «exists» => exact hnone _
        | other => exact hnone _

/-- an update of the in-memory copy `cm` (a stored version) that keeps or first sets the reference -/
theorem g_updClaim {s s' : St} {cm c : Claim} (hcm : cm ∈ s.hist) (hf : Fut s s') (hrv : c.rv = cm.rv)
    (hext : refExt cm c) : G s' (.updClaim c) :=
  ⟨cm, hf.hist cm hcm, hrv.symm, hext⟩

theorem refName_setRef (cm : Claim) (t : GVK) (n : Name) : ({ cm with ref := some (mkXRef t n) } : Claim).refName = some n := rfl

/-- writing the reference `mkXRef t n` (whatever the type `t`) over no reference, or over one with the
same NAME (whatever its apiVersion/kind), keeps the set-once name -/
theorem refExt_setRef {cm : Claim} {n : Name} (t : GVK) (h : cm.refName = none ∨ cm.refName = some n) :
    refExt cm { cm with ref := some (mkXRef t n) } := by
  intro m hm
  rw [refName_setRef]
  rcases h with h | h
  · rw [h] at hm; cases hm
  · rw [h] at hm; exact hm

theorem id_of_mem {s : St} (hi : Inv P0 s) {cm : Claim} (h : cm ∈ s.hist) : cm.id = s.me := hi.idOk cm h

theorem ok_ssaBind (cfg : Cfg) (cm : Claim) (n : Name) (s : St) (hcm : cm ∈ s.hist) (hnf : NF s n)
    (href : cm.refName = none ∨ cm.refName = some n) : Ok P0 (ssaBind cfg cm n) s := by
  unfold ssaBind
  refine ok_call (fun s' hf' _ => g_updClaim hcm hf' rfl (refExt_setRef _ href)) ?_
  intro s2 resp hf2 hi2 hrf
  cases resp with
  | xr x => exact ok_ret _ _
  | ok => exact ok_ret _ _
  | err e => exact ok_failWith _ _ _
  | claim cm1 =>
    obtain ⟨hcm1, href1⟩ := hrf cm1 rfl
    have hack : acked s2 n := ⟨cm1, hcm1, by rw [Claim.refName, href1]; rfl⟩
    refine ok_call (fun s' hf' hi' => ⟨⟨hf'.acked hack, hf'.nf (hf2.nf hnf)⟩,
      id_of_mem hi' (hf'.hist _ (hf2.hist _ hcm))⟩) ?_
    intro s3 resp _ hi3 _
    cases resp with
    | claim c => exact ok_ret _ _
    | ok => exact ok_ret _ _
    | err e => exact ok_failWith _ _ _
    | xr x =>
      dsimp only
      split
      · refine ok_call (fun _ _ _ => trivial) ?_
        intro s4 resp _ hi4 _
        cases resp with
        | claim c => exact ok_finish _ _
        | ok => exact ok_ret _ _
        | err e => exact ok_failWith _ _ _
        | xr x => exact ok_ret _ _
      · exact ok_finish _ _

theorem ok_syncSSA (cfg : Cfg) (cm : Claim) (s : St) (hcm : cm ∈ s.hist)
    (hnf : ∀ n, cm.refName = some n → NF s n) : Ok P0 (syncSSA cfg cm) s := by
  unfold syncSSA
  cases href : cm.refName with
  | some n => exact ok_ssaBind cfg cm n s hcm (hnf n href) (Or.inr href)
  | none =>
    refine ok_genName cfg.xpick s 10 2 cfg.cands _ ?_ (fun s1 => ok_statusThen _ _ _) s (Fut.refl s)
    intro n s1 hf1 hnf1
    exact ok_ssaBind cfg cm n s1 (hf1.hist cm hcm) hnf1 (Or.inl href)

theorem ok_csaPost (cm1 : Claim) (s : St) (_hcm1 : cm1 ∈ s.hist) : Ok P0 (csaPost cm1) s := by
  unfold csaPost
  refine ok_call (fun _ _ _ => trivial) ?_
  intro s2 resp _ hi2 hrf
  cases resp with
  | xr x => exact ok_ret _ _
  | ok => exact ok_ret _ _
  | err e => exact ok_failWith _ _ _
  | claim cm2 =>
    have hcm2 := hrf cm2 rfl
    refine ok_call (fun s' hf' _ => g_updClaim hcm2 hf' rfl (refExt_refl _)) ?_
    intro s3 resp _ hi3 _
    cases resp with
    | xr x => exact ok_ret _ _
    | ok => exact ok_ret _ _
    | err e => exact ok_failWith _ _ _
    | claim cm3 => exact ok_finish _ _

theorem ok_csaApply (cfg : Cfg) (xr : Option XR) (cm1 : Claim) (n : Name) (s : St) (hcm1 : cm1 ∈ s.hist)
    (href : cm1.refName = some n) (hnf : NF s n) (hseen : ∀ x, xr = some x → SeenRv s n x.rv) :
    Ok P0 (csaApply cfg xr cm1 n) s := by
  have hack : acked s n := ⟨cm1, hcm1, href⟩
  unfold csaApply
  refine ok_call (fun _ _ _ => trivial) ?_
  intro s2 resp hf2 hi2 _
  cases resp with
  | claim c => exact ok_ret _ _
  | ok => exact ok_ret _ _
  | xr cur =>
    dsimp only
    split
    · exact ok_csaPost _ _ (hf2.hist _ hcm1)
    · refine ok_call (fun s' hf' hi' => ⟨⟨⟨(hf2.trans hf').acked hack, hf'.nf (hf2.nf hnf)⟩,
        id_of_mem hi' (hf'.hist _ (hf2.hist _ hcm1))⟩, ?_⟩) ?_
      · intro v hv
        cases xr with
        | none => cases hv
        | some x0 => cases hv; exact (hf2.trans hf').seen (hseen x0 rfl)
      intro s3 resp hf3 hi3 _
      cases resp with
      | claim c => exact ok_ret _ _
      | ok => exact ok_ret _ _
      | err e => exact ok_failWith _ _ _
      | xr x => exact ok_csaPost _ _ (hf3.hist _ (hf2.hist _ hcm1))
  | err e =>
    cases e with
    | notFound =>
      refine ok_call (fun s' hf' hi' => ⟨(hf2.trans hf').acked hack, id_of_mem hi' (hf'.hist _ (hf2.hist _ hcm1))⟩) ?_
      intro s3 resp hf3 hi3 _
      cases resp with
      | claim c => exact ok_ret _ _
      | ok => exact ok_ret _ _
      | err e => exact ok_failWith _ _ _
      | xr x => exact ok_csaPost _ _ (hf3.hist _ (hf2.hist _ hcm1))
    | conflict => exact ok_failWith _ _ _
    | invalid => exact ok_failWith _ _ _
    | «exists» => exact ok_failWith _ _ _
    | other => exact ok_failWith _ _ _

theorem ok_csaBindNew (cfg : Cfg) (xr : Option XR) (cm : Claim) (n : Name) (s : St) (hcm : cm ∈ s.hist)
    (href : cm.refName = none ∨ cm.refName = some n) (hnf : NF s n) (hseen : ∀ x, xr = some x → SeenRv s n x.rv) :
    Ok P0 (csaBindNew cfg xr cm n) s := by
  unfold csaBindNew
  refine ok_call (fun s' hf' _ => g_updClaim hcm hf' rfl (refExt_setRef _ href)) ?_
  intro s2 resp hf2 hi2 hrf
  cases resp with
  | xr x => exact ok_ret _ _
  | ok => exact ok_ret _ _
  | err e => exact ok_failWith _ _ _
  | claim cm1 =>
    obtain ⟨hcm1, href1⟩ := hrf cm1 rfl
    exact ok_csaApply cfg xr cm1 n s2 hcm1 (by rw [Claim.refName, href1]; rfl) (hf2.nf (n := n) hnf)
      (fun x hx => hf2.seen (hseen x hx))

theorem ok_syncCSA (cfg : Cfg) (cm : Claim) (xr : Option XR) (s : St) (hcm : cm ∈ s.hist)
    (hnf : ∀ n, cm.refName = some n → NF s n)
    (hseen : ∀ x, xr = some x → ∃ n, cm.refName = some n ∧ SeenRv s n x.rv) : Ok P0 (syncCSA cfg cm xr) s := by
  unfold syncCSA
  cases href : cm.ref with
  | some r =>
    have hrn : cm.refName = some r.name := by rw [Claim.refName, href]; rfl
    have hs : ∀ x, xr = some x → SeenRv s r.name x.rv := by
      intro x hx
      obtain ⟨n, hn, hsn⟩ := hseen x hx
      rw [hrn] at hn; cases hn; exact hsn
    dsimp only
    split
    · exact ok_csaApply cfg xr cm r.name s hcm hrn (hnf _ hrn) hs
    · exact ok_csaBindNew cfg xr cm r.name s hcm (Or.inr hrn) (hnf _ hrn) hs
  | none =>
    have hrn : cm.refName = none := by rw [Claim.refName, href]; rfl
    have hxr : xr = none := by
      cases xr with
      | none => rfl
      | some x => obtain ⟨n, hn, _⟩ := hseen x rfl; rw [hrn] at hn; cases hn
    refine ok_genName cfg.xpick s 10 2 cfg.cands _ ?_ (fun s1 => ok_statusThen _ _ _) s (Fut.refl s)
    intro n s1 hf1 hnf1
    exact ok_csaBindNew cfg xr cm n s1 (hf1.hist cm hcm) (Or.inl hrn) hnf1 (fun x hx => by rw [hxr] at hx; cases hx)

theorem ok_finalizeClaim (cm : Claim) (s : St) (hcm : cm ∈ s.hist) : Ok P0 (finalizeClaim cm) s := by
  unfold finalizeClaim
  split
  · refine ok_call (fun s' hf' _ => g_updClaim hcm hf' rfl (fun _ h => h)) ?_
    intro s2 resp _ hi2 _
    cases resp with
    | xr x => exact ok_ret _ _
    | ok => exact ok_ret _ _
    | claim c => exact ok_statusThen _ _ _
    | err e => cases e <;> exact ok_statusThen _ _ _
  · exact ok_statusThen _ _ _

theorem ok_deletePath (cm : Claim) (xr : Option (Name × XR)) (s : St) (hcm : cm ∈ s.hist)
    (hnf : ∀ n x, xr = some (n, x) → NF s n ∧ acked s n) : Ok P0 (deletePath cm xr) s := by
  unfold deletePath
  cases xr with
  | none => exact ok_finalizeClaim cm s hcm
  | some p =>
    obtain ⟨n, x⟩ := p
    dsimp only
    split
    · exact ok_statusThen _ _ _
    · refine ok_call (fun s' hf' _ => ⟨hf'.nf (hnf n x rfl).1, hf'.acked (hnf n x rfl).2⟩) ?_
      intro s2 resp hf2 hi2 _
      cases resp with
      | xr x => exact ok_ret _ _
      | claim c => exact ok_ret _ _
      | ok =>
        dsimp only
        split
        · exact ok_ret _ _
        · exact ok_finalizeClaim cm s2 (hf2.hist _ hcm)
      | err e =>
        cases e with
        | notFound =>
          dsimp only
          split
          · exact ok_ret _ _
          · exact ok_finalizeClaim cm s2 (hf2.hist _ hcm)
        | conflict => exact ok_statusThen _ _ _
        | invalid => exact ok_statusThen _ _ _
        | «exists» => exact ok_statusThen _ _ _
        | other => exact ok_statusThen _ _ _

theorem ok_syncWith (cfg : Cfg) (cm : Claim) (xr : Option (Name × XR)) (s : St) (hcm : cm ∈ s.hist)
    (hnf : ∀ n, cm.refName = some n → NF s n)
    (hseen : ∀ n x, xr = some (n, x) → cm.refName = some n ∧ SeenRv s n x.rv) : Ok P0 (syncWith cfg cm xr) s := by
  unfold syncWith
  split
  · exact ok_syncSSA cfg cm s hcm hnf
  · refine ok_syncCSA cfg cm _ s hcm hnf ?_
    intro x hx
    cases xr with
    | none => cases hx
    | some p =>
      obtain ⟨n, y⟩ := p
      cases hx
      exact ⟨n, hseen n y rfl⟩

theorem ok_bindPath (cfg : Cfg) (cm : Claim) (xr : Option (Name × XR)) (s : St) (hcm : cm ∈ s.hist)
    (hnf : ∀ n, cm.refName = some n → NF s n)
    (hseen : ∀ n x, xr = some (n, x) → cm.refName = some n ∧ SeenRv s n x.rv) : Ok P0 (bindPath cfg cm xr) s := by
  unfold bindPath
  split
  · exact ok_syncWith cfg cm xr s hcm hnf hseen
  · refine ok_call (fun s' hf' _ => g_updClaim hcm hf' rfl (fun _ h => h)) ?_
    intro s2 resp hf2 hi2 hrf
    cases resp with
    | xr x => exact ok_ret _ _
    | ok => exact ok_ret _ _
    | err e => exact ok_failWith _ _ _
    | claim cm1 =>
      obtain ⟨hcm1, href1⟩ := hrf cm1 rfl
      have hrn : cm1.refName = cm.refName := by rw [Claim.refName, href1]; rfl
      refine ok_syncWith cfg cm1 xr s2 hcm1 ?_ ?_
      · intro n hn
        exact hf2.nf (n := n) (hnf n (by rw [← hrn]; exact hn))
      · intro n x hx
        obtain ⟨h1, h2⟩ := hseen n x hx
        exact ⟨hrn ▸ h1, hf2.seen h2⟩

theorem ok_restOf (cfg : Cfg) (cm : Claim) (xr : Option (Name × XR)) (s : St) (hcm : cm ∈ s.hist)
    (hnf : ∀ n, cm.refName = some n → NF s n)
    (hx : ∀ n x, xr = some (n, x) → cm.refName = some n ∧ SeenRv s n x.rv) :
    Ok P0 (restOf cfg cm xr) s := by
  unfold restOf
  split
  · exact ok_deletePath cm xr s hcm (fun n x h => ⟨hnf n (hx n x h).1, cm, hcm, (hx n x h).1⟩)
  · exact ok_bindPath cfg cm xr s hcm hnf hx

theorem ok_afterCheck (cfg : Cfg) (cm : Claim) (xr : Option (Name × XR)) (s : St) (hcm : cm ∈ s.hist)
    (hnf : ∀ n, cm.refName = some n → NF s n)
    (hx : ∀ n x, xr = some (n, x) → cm.refName = some n ∧ SeenRv s n x.rv) :
    Ok P0 (afterCheck cfg cm xr) s := by
  unfold afterCheck
  cases xr with
  | none => exact ok_restOf cfg cm none s hcm hnf hx
  | some p =>
    obtain ⟨n, x⟩ := p
    generalize upgradeOf cfg (some (n, x)) = up
    cases up with
    | none => exact ok_restOf cfg cm _ s hcm hnf hx
    | some valid =>
      dsimp only
      obtain ⟨href, hsx⟩ := hx n x rfl
      refine ok_call (fun s' hf' _ => ⟨⟨hf'.notForeign n (hnf n href).1, hf'.seen hsx⟩, hf'.acked ⟨cm, hcm, href⟩⟩) ?_
      intro s2 resp hf2 hi2 hrf
      have hnf2 : ∀ m, cm.refName = some m → NF s2 m := fun m hm => hf2.nf (n := m) (hnf m hm)
      have hx2 : ∀ (y : XR), SeenRv s2 n y.rv → ∀ m z, some (n, y) = some (m, z) → cm.refName = some m ∧ SeenRv s2 m z.rv := by
        intro y hy m z h; cases h; exact ⟨href, hy⟩
      cases resp with
      | claim c => exact ok_ret _ _
      | ok => exact ok_ret _ _
      | xr x' =>
        refine ok_restOf cfg cm _ s2 (hf2.hist _ hcm) hnf2 (hx2 x' ?_)
        -- the state the patch produced has the claimRef of the state whose resourceVersion it carried
        obtain ⟨hx'm, y, hym, hyrv, hyc⟩ := hrf x' rfl
        obtain ⟨z, hzm, hzrv, hznf⟩ := hf2.seen hsx
        have hzy : z.cref = y.cref := hi2.rvU n z y hzm hym (hzrv.trans hyrv.symm)
        refine ⟨x', hx'm, rfl, ?_⟩
        intro ⟨r, hr, hne⟩
        exact hznf ⟨r, by rw [hzy, hyc]; exact hr, hne⟩
      | err e =>
        cases e with
        | notFound => exact ok_restOf cfg cm _ s2 (hf2.hist _ hcm) hnf2 (hx2 x (hf2.seen hsx))
        | conflict => exact ok_failWith _ _ _
        | invalid => exact ok_failWith _ _ _
        | «exists» => exact ok_failWith _ _ _
        | other => exact ok_failWith _ _ _

theorem ok_checked (cfg : Cfg) (cm : Claim) (xr : Option (Name × XR)) (s : St) (hi : Inv P0 s) (hcm : cm ∈ s.hist)
    (hsome : ∀ n x, xr = some (n, x) → cm.refName = some n ∧ some x ∈ s.xhist n)
    (hnone : xr = none → ∀ n, cm.refName = some n → none ∈ s.xhist n) : Ok P0 (checked cfg cm xr) s := by
  unfold checked
  cases xr with
  | none =>
    dsimp only
    refine ok_afterCheck cfg cm none s hcm ?_ (fun n x h => by cases h)
    intro n hn
    exact nf_of_hist hi (hnone rfl n hn) (fun x h => by cases h)
  | some p =>
    obtain ⟨n, x⟩ := p
    dsimp only
    obtain ⟨href, hxs⟩ := hsome n x rfl
    split
    · exact ok_statusThen _ _ _
    · rename_i hne
      have hnfx : ¬ x.foreignTo s.me := by
        intro ⟨r, hr, hrne⟩
        apply hne
        unfold unbound
        rw [hr, id_of_mem hi hcm]
        simpa using hrne
      refine ok_afterCheck cfg cm _ s hcm ?_ (fun m y h => by cases h; exact ⟨href, x, hxs, rfl, hnfx⟩)
      intro m hm
      rw [href] at hm; cases hm
      refine nf_of_hist hi hxs ?_
      intro y hy
      cases hy
      exact hnfx

theorem ok_withClaim (cfg : Cfg) (cm : Claim) (s : St) (hi : Inv P0 s) (hcm : cm ∈ s.hist) : Ok P0 (withClaim cfg cm) s := by
  unfold withClaim
  cases href : cm.refName with
  | none =>
    dsimp only
    exact ok_checked cfg cm none s hi hcm (fun n x h => by cases h) (fun _ n hn => by rw [href] at hn; cases hn)
  | some n =>
    dsimp only
    refine ok_call (fun _ _ _ => trivial) ?_
    intro s2 resp hf2 hi2 hrf
    cases resp with
    | claim c => exact ok_ret _ _
    | ok => exact ok_ret _ _
    | xr x =>
      refine ok_checked cfg cm _ s2 hi2 (hf2.hist _ hcm) ?_ (fun h => by cases h)
      intro m y h; cases h
      exact ⟨href, hrf.2 x rfl⟩
    | err e =>
      cases e with
      | notFound =>
        refine ok_checked cfg cm none s2 hi2 (hf2.hist _ hcm) (fun m y h => by cases h) ?_
        intro _ m hm
        rw [href] at hm; cases hm
        exact hrf.1 rfl
      | conflict => exact ok_statusThen _ _ _
      | invalid => exact ok_statusThen _ _ _
      | «exists» => exact ok_statusThen _ _ _
      | other => exact ok_statusThen _ _ _

/-- The whole reconcile is safe from any state, for every cache lag, name oracle and
managed-fields oracle. -/
theorem ok_reconcile (cfg : Cfg) (s : St) : Ok P0 (reconcile cfg) s := by
  unfold reconcile
  refine ok_call (fun _ _ _ => trivial) ?_
  intro s2 resp _ hi2 hrf
  cases resp with
  | xr x => exact ok_ret _ _
  | ok => exact ok_ret _ _
  | claim cm => exact ok_withClaim cfg cm s2 hi2 (hrf cm rfl)
  | err e => cases e <;> exact ok_ret _ _

/-! ### the interleaved system -/

theorem reach_inv {s0 : St} (h0 : Inv P0 s0) {sys : Sys} (hr : Reach s0 sys) :
    Inv P0 sys.st ∧ ∀ p, sys.thread = some p → Ok P0 p sys.st := by
  induction hr with
  | init => exact ⟨h0, fun p h => by cases h⟩
  | step a b _ hstep ih =>
    obtain ⟨hi, hok⟩ := ih
    cases hstep with
    | env s s' t he =>
      obtain ⟨hi', hf⟩ := env_inv_fut hi he
      exact ⟨hi', fun p hp => ok_fut (hok p hp) hf⟩
    | start s t cfg =>
      exact ⟨hi, fun p hp => by cases hp; exact ok_reconcile cfg s⟩
    | callOk s r k =>
      have h := hok _ rfl s (Fut.refl s) hi
      exact ⟨(exec_inv_fut hi r h.1).1, fun p hp => by cases hp; exact h.2.1⟩
    | callErr s r k e he =>
      have h := hok _ rfl s (Fut.refl s) hi
      exact ⟨hi, fun p hp => by cases hp; exact h.2.2.1 e he⟩
    | callLost s r k e he =>
      have h := hok _ rfl s (Fut.refl s) hi
      exact ⟨(exec_inv_fut hi r h.1).1, fun p hp => by cases hp; exact h.2.2.2 e he⟩
    | done s a =>
      exact ⟨hi, fun p hp => by cases hp⟩

end Xp.C06

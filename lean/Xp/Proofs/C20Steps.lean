import Xp.Proofs.C20Kept
/-
C20 helper lemmas, part 3: which component of the store each request writes,
and the request class of every step.
-/
namespace Xp.C20
open Xp

variable {α β : Type}

inductive Comp where
  | secrets | pkgs | crds | whcs | lock | sc | drc
  deriving DecidableEq, Repr

/-- the component a request writes (none: a read, or a write that cannot change anything) -/
def Req.comp : Req → Option Comp
  | .createSecret _ => some .secrets
  | .updateSecret _ _ => some .secrets
  | .createPkg _ => some .pkgs
  | .patchPkg _ _ _ => some .pkgs
  | .createCrd _ => some .crds
  | .patchCrd _ _ => some .crds
  | .patchCrdStored _ _ => some .crds
  | .createWhc _ => some .whcs
  | .patchWhc _ _ _ => some .whcs
  | .createLock => some .lock
  | .createSc _ => some .sc
  | .createDrc => some .drc
  | _ => none

section frames
variable (s : Store) (r : Req)

theorem frame_secrets (h : r.comp ≠ some .secrets) : (exec s r).1.secrets = s.secrets := by
  cases r <;> simp [Req.comp] at h <;> simp only [exec] <;> repeat (first | rfl | split)
theorem frame_pkgs (h : r.comp ≠ some .pkgs) : (exec s r).1.pkgs = s.pkgs := by
  cases r <;> simp [Req.comp] at h <;> simp only [exec] <;> repeat (first | rfl | split)
theorem frame_crds (h : r.comp ≠ some .crds) : (exec s r).1.crds = s.crds := by
  cases r <;> simp [Req.comp] at h <;> simp only [exec] <;> repeat (first | rfl | split)
theorem frame_whcs (h : r.comp ≠ some .whcs) : (exec s r).1.whcs = s.whcs := by
  cases r <;> simp [Req.comp] at h <;> simp only [exec] <;> repeat (first | rfl | split)
theorem frame_crs : (exec s r).1.crs = s.crs := by
  cases r <;> simp only [exec] <;> repeat (first | rfl | split)
theorem frame_lock (h : r.comp ≠ some .lock) : (exec s r).1.lock = s.lock := by
  cases r <;> simp [Req.comp] at h <;> simp only [exec] <;> repeat (first | rfl | split)
theorem frame_sc (h : r.comp ≠ some .sc) : (exec s r).1.sc = s.sc := by
  cases r <;> simp [Req.comp] at h <;> simp only [exec] <;> repeat (first | rfl | split)
theorem frame_drc (h : r.comp ≠ some .drc) : (exec s r).1.drc = s.drc := by
  cases r <;> simp [Req.comp] at h <;> simp only [exec] <;> repeat (first | rfl | split)
end frames

/-- requests that write at most component `c` -/
def Only (c : Comp) (r : Req) : Prop := r.comp = none ∨ r.comp = some c

theorem okOr_issues (Q : Req → Prop) (tag : String) (x : Resp) : Issues Q (okOr tag x) := by
  unfold okOr; split <;> exact .ret _

/-- walks a program and discharges the request-class side conditions by `simp [Only, Req.comp]` -/
macro "issues_step" : tactic => `(tactic| first
  | exact Issues.ret _
  | exact okOr_issues _ _ _
  | (guard_target = Issues _ (Prog.call _ _); refine Issues.call _ _ (by first | trivial | simp [Only, Req.comp]) ?_; intro _)
  | (guard_target = Issues _ (Prog.bind _ _); refine issues_bind ?_ ?_)
  | (guard_target = Issues _ (forEach _ _); refine issues_forEach ?_ _; intro _)
  | intro _
  | split
  | dsimp only)

theorem getBundle_issues (c : Comp) (ref : String) : Issues (Only c) (getBundle ref) := by
  unfold getBundle; repeat' issues_step

theorem crdsStep_issues (ref : Option String) (d : Dir) : Issues (Only .crds) (crdsStep ref d) := by
  have hb : ∀ cb, Issues (Only .crds) (crdsBody d cb) := by
    intro cb; unfold crdsBody applyCrd; repeat' issues_step
  unfold crdsStep
  split
  · exact hb _
  · refine issues_bind (getBundle_issues _ _) ?_
    intro b; split
    · exact .ret _
    · exact hb _

theorem whcsStep_issues (ref : String) (svc : Svc) (d : Dir) : Issues (Only .whcs) (whcsStep ref svc d) := by
  unfold whcsStep
  refine issues_bind (getBundle_issues _ _) ?_
  intro b
  unfold applyWhc
  repeat' issues_step

theorem migrateStep_issues (crd old : String) : Issues (Only .crds) (migrateStep crd old) := by
  unfold migrateStep migrateCrs migrateFinish; repeat' issues_step

theorem lockStep_issues : Issues (Only .lock) lockStep := by
  unfold lockStep; repeat' issues_step

theorem scStep_issues (ns : String) : Issues (Only .sc) (scStep ns) := by
  unfold scStep createIfAbsent; repeat' issues_step

theorem drcStep_issues : Issues (Only .drc) drcStep := by
  unfold drcStep createIfAbsent; repeat' issues_step

theorem installWith_issues (res : List (String × String) → Ref → String) (p c f : List Img) :
    Issues (Only .pkgs) (installWith res p c f) := by
  unfold installWith installBody installApply listOf applyPkg; repeat' issues_step

/-- the TLS programs write secrets only -/
theorem tlsStep_issues_only (g : Generator) (ca : String) (server client : Option TlsRef) (n : Nat) :
    Issues (Only .secrets) (tlsStep g ca server client n) := by
  unfold tlsStep ensureOpt ensureLeaf issueLeaf loadOrGenerateCA genCA writeSecret
  repeat' issues_step

end Xp.C20

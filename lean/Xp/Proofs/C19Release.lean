import Xp.Proofs.C19Final
import Xp.Model.C19Skel
/-
C19 helper lemmas: "deleting the user releases the used", the progress half: ONE fault-free
reconcile, run in isolation, of a Usage whose deletion was requested and which is the last Usage
of its used resource removes the in-use label and lets the Usage go.
-/
namespace Xp.C19

theorem getU_dropU_self (s : Store) (n : String) : (s.dropU n).getU n = none := by
  simp [Store.getU, Store.dropU, List.find?_eq_none]

theorem updR_reply_of_rv {s : Store} {q x : Res} (hg : s.getR q.group q.kind q.name = some x) (hrv : x.rv = q.rv) :
    ∃ r', (s.updR q).2 = .res r' := by
  unfold Store.updR
  simp only [hg, hrv, ne_eq, not_true_eq_false, if_false]
  split
  · exact ⟨_, rfl⟩
  · exact ⟨_, rfl⟩

/-- what the deletion reconcile of the last Usage of `r` leaves behind, as a closed term -/
def releasedStore (s : Store) (x : Usage) (r : Res) : Store :=
  (((s.updR { r with inUse := false }).1).dropU x.name).bump

/-- the run: start, Get the Usage, [Get the using resource: NotFound,] Get the used resource, List
(fewer than two), Update (label removed), RemoveFinalizer: done, nothing in flight -/
theorem release_run (maxc : Nat) (s : Store) (x : Usage) (r : Res) (g : String) (hmax : 0 < maxc)
    (hx : s.getU x.name = some x) (hdel : x.deleting = true) (hfin : x.fin = true)
    (hgv : parseGV x.of.av = some g) (hof : x.of.name ≠ "")
    (hby : ∀ b, x.by_ = some b → b.name ≠ "" ∧ (x.composed = true → s.getR (groupOf b.av) b.kind b.name = none))
    (hr : s.getR (groupOf x.of.av) x.of.kind x.of.name = some r)
    (hcnt : s.countU (indexValue x.of.av x.of.kind x.of.name) < 2) :
    Sys.finish x.name 7 ((⟨s, [], maxc⟩ : Sys).exec (.start x.name)).1 = ⟨releasedStore s x r, [], maxc⟩ := by
  have h0 : ¬ (0 ≥ maxc) := by omega
  obtain ⟨_, hg1, hg2, hg3⟩ := getR_some hr
  have hr' : s.getR r.group r.kind r.name = some r := by rw [hg1, hg2, hg3]; exact hr
  obtain ⟨r', hres⟩ := updR_reply_of_rv (q := { r with inUse := false }) hr' rfl
  have hx1 : (s.updR { r with inUse := false }).1.getU x.name = some x := by
    unfold Store.getU; rw [updR_usages]; exact hx
  have hne : ∀ y : Usage, y.fin = false → (y.onto x = x) = False := by
    intro y hy
    simp only [eq_iff_iff, iff_false]
    intro h
    have := congrArg Usage.fin h
    simp [Usage.onto, hfin, hy] at this
  unfold releasedStore
  cases hb : x.by_ with
  | none =>
    simp [Sys.exec, Sys.thread?, h0, Sys.finish, Thread.step, Thread.request, Store.exec, hx, staleResp, Thread.next,
      Thread.afterGet, hgv, hof, Thread.afterOf, hb, Thread.afterResolve, hdel, Thread.goto, hr, hcnt,
      Thread.afterUnlabel, hfin, hres, hx1, Store.updU, hne]
  | some b =>
    obtain ⟨hbn, hbu⟩ := hby b hb
    cases hc : x.composed with
    | false =>
      simp [Sys.exec, Sys.thread?, h0, Sys.finish, Thread.step, Thread.request, Store.exec, hx, staleResp, Thread.next,
        Thread.afterGet, hgv, hof, Thread.afterOf, hb, hbn, hc, Thread.afterResolve, hdel, Thread.goto, hr, hcnt,
        Thread.afterUnlabel, hfin, hres, hx1, Store.updU, hne]
    | true =>
      have hbu' := hbu hc
      simp [Sys.exec, Sys.thread?, h0, Sys.finish, Thread.step, Thread.request, Store.exec, hx, staleResp, Thread.next,
        Thread.afterGet, hgv, hof, Thread.afterOf, hb, hbn, hc, hbu', Thread.afterResolve, hdel, Thread.goto, hr, hcnt,
        Thread.afterUnlabel, hfin, hres, hx1, Store.updU, hne]

/-- in the released store the Usage is gone … -/
theorem released_usage_gone (s : Store) (x : Usage) (r : Res) : (releasedStore s x r).getU x.name = none := by
  unfold releasedStore
  exact getU_dropU_self _ _

/-- … and the resource is still there, without the label -/
theorem released_unlabelled {s : Store} (hs : StoreInv s) (x : Usage) {r : Res}
    (hr : s.getR r.group r.kind r.name = some r) :
    (∃ r' ∈ (releasedStore s x r).res, r'.group = r.group ∧ r'.kind = r.kind ∧ r'.name = r.name) ∧
    ∀ r' ∈ (releasedStore s x r).res, r'.group = r.group → r'.kind = r.kind → r'.name = r.name → r'.inUse = false := by
  have hrm := (getR_some hr).1
  unfold releasedStore
  simp only [bump_res, dropU_res]
  have spec := updR_spec s { r with inUse := false }
  generalize (s.updR { r with inUse := false }).1 = s1 at spec ⊢
  generalize (s.updR { r with inUse := false }).2 = resp at spec
  cases spec with
  | notFound hg => simp only at hg; rw [hr] at hg; cases hg
  | conflict y hg hne => simp only at hg; rw [hr] at hg; cases hg; exact absurd rfl hne
  | noop y hg hy hon =>
    simp only at hg; rw [hr] at hg; cases hg
    have hin : r.inUse = false := by
      have := congrArg Res.inUse hon; simpa using this
    refine ⟨⟨r, hrm, rfl, rfl, rfl⟩, fun r' hr' h1 h2 h3 => ?_⟩
    rw [hs.resUniq r' hr' r hrm h1 h2 h3]; exact hin
  | put y hg hy =>
    simp only at hg; rw [hr] at hg; cases hg
    constructor
    · refine ⟨{ ({ r with inUse := false } : Res) with uid := r.uid, rv := s.nextRv }, ?_, rfl, rfl, rfl⟩
      rw [bump_res]
      exact mem_putR.mpr (.inr ⟨rfl, r, hrm, rfl, rfl, rfl⟩)
    · intro r' hr' h1 h2 h3
      rw [bump_res] at hr'
      rcases mem_putR.mp hr' with ⟨_, hdiff⟩ | ⟨rfl, _⟩
      · exact absurd ⟨h1, h2, h3⟩ hdiff
      · rfl

end Xp.C19

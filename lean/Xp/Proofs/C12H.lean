import Xp.Proofs.C12
/-
C12: the input of `Composition.Hash` — for which pairs of contents it is injective, and
what that means for the naming assumption of the history theorems.

`hashToks c = mapToks c.labels ++ mapToks c.annos ++ [.spec c.spec]` (no separator). Two
contents have the same input iff they are equal or one is a label<->annotation MOVE of the
other (`Shift`): same spec, all four maps non-empty, and the entries of labels followed by
those of the annotations are the same sequence. An empty map renders as its own token, so a
move that empties or fills a map changes the input.
-/
namespace Xp.C12

/-- `c'` is `c` with entries moved between the end of the labels and the beginning of the
annotations (key order), neither map becoming empty -/
def Shift (c c' : Content) : Prop :=
  c.spec = c'.spec ∧ c.labels ≠ [] ∧ c.annos ≠ [] ∧ c'.labels ≠ [] ∧ c'.annos ≠ [] ∧
    c.labels ++ c.annos = c'.labels ++ c'.annos

instance (c c' : Content) : Decidable (Shift c c') := by unfold Shift; infer_instance

theorem ent_inj {a b : String × String} (h : ent a = ent b) : a = b := by
  cases a; cases b
  simp only [ent, Tok.entry.injEq] at h
  exact Prod.ext h.1 h.2

theorem map_ent_inj : ∀ {l l' : Labels}, l.map ent = l'.map ent → l = l'
  | [], [], _ => rfl
  | [], _ :: _, h => by simp at h
  | _ :: _, [], h => by simp at h
  | a :: l, b :: l', h => by
    simp only [List.map_cons, List.cons.injEq] at h
    rw [ent_inj h.1, map_ent_inj h.2]

theorem nil_not_mem_map_ent (l : Labels) : Tok.nil ∉ l.map ent := by
  intro h
  obtain ⟨kv, _, e⟩ := List.mem_map.mp h
  simp [ent] at e

theorem mapToks_of_ne {l : Labels} (h : l ≠ []) : mapToks l = l.map ent := by
  cases l with
  | nil => exact absurd rfl h
  | cons x xs => rfl

theorem nil_mem_mapToks {l : Labels} : Tok.nil ∈ mapToks l ↔ l = [] := by
  cases l with
  | nil => simp [mapToks]
  | cons x xs =>
    constructor
    · intro h; exact absurd h (by rw [mapToks_of_ne (by simp)]; exact nil_not_mem_map_ent _)
    · intro h; cases h

theorem mapToks_inj {l l' : Labels} (h : mapToks l = mapToks l') : l = l' := by
  by_cases e : l = [] <;> by_cases e' : l' = []
  · rw [e, e']
  · have : Tok.nil ∈ mapToks l' := h ▸ (nil_mem_mapToks.mpr e)
    exact absurd (nil_mem_mapToks.mp this) e'
  · have : Tok.nil ∈ mapToks l := h ▸ (nil_mem_mapToks.mpr e')
    exact absurd (nil_mem_mapToks.mp this) e
  · rw [mapToks_of_ne e, mapToks_of_ne e'] at h
    exact map_ent_inj h

theorem mapToks_length_pos (l : Labels) : 0 < (mapToks l).length := by
  cases l <;> simp [mapToks]

/-- **For which pairs of contents the input of `Composition.Hash` is injective**: two
contents have the same input iff they are equal or a label<->annotation move of each other. -/
theorem hashToks_eq_iff' (c c' : Content) : hashToks c = hashToks c' ↔ c = c' ∨ Shift c c' := by
  constructor
  · intro h
    unfold hashToks at h
    obtain ⟨h1, h2⟩ := List.append_inj' h rfl
    have hs : c.spec = c'.spec := by simpa using h2
    have ext : c.labels = c'.labels → c.annos = c'.annos → c = c' := by
      intro a b; cases c; cases c'; simp_all
    by_cases eL : c.labels = [] <;> by_cases eL' : c'.labels = []
    · -- both label maps empty: the annotation parts are compared token by token
      rw [eL, eL'] at h1
      simp only [mapToks, List.cons_append, List.nil_append, List.cons.injEq, true_and] at h1
      exact Or.inl (ext (eL.trans eL'.symm) (mapToks_inj h1))
    · -- the first token tells an empty label map from a non-empty one
      exfalso
      rw [eL, mapToks_of_ne eL'] at h1
      cases hl : c'.labels with
      | nil => exact eL' hl
      | cons x xs => rw [hl] at h1; simp [mapToks, ent] at h1
    · exfalso
      rw [eL', mapToks_of_ne eL] at h1
      cases hl : c.labels with
      | nil => exact eL hl
      | cons x xs => rw [hl] at h1; simp [mapToks, ent] at h1
    · rw [mapToks_of_ne eL, mapToks_of_ne eL'] at h1
      by_cases eA : c.annos = [] <;> by_cases eA' : c'.annos = []
      · rw [eA, eA'] at h1
        obtain ⟨h3, _⟩ := List.append_inj' h1 rfl
        exact Or.inl (ext (map_ent_inj h3) (eA.trans eA'.symm))
      · -- the empty annotation map leaves its token, the other side has entries only
        exfalso
        rw [eA, mapToks_of_ne eA', ← List.map_append] at h1
        have : Tok.nil ∈ (c'.labels ++ c'.annos).map ent := by rw [← h1]; simp [mapToks]
        exact nil_not_mem_map_ent _ this
      · exfalso
        rw [eA', mapToks_of_ne eA, ← List.map_append] at h1
        have : Tok.nil ∈ (c.labels ++ c.annos).map ent := by rw [h1]; simp [mapToks]
        exact nil_not_mem_map_ent _ this
      · rw [mapToks_of_ne eA, mapToks_of_ne eA', ← List.map_append, ← List.map_append] at h1
        exact Or.inr ⟨hs, eL, eA, eL', eA', map_ent_inj h1⟩
  · rintro (h | ⟨hs, eL, eA, eL', eA', h⟩)
    · rw [h]
    · unfold hashToks
      rw [mapToks_of_ne eL, mapToks_of_ne eA, mapToks_of_ne eL', mapToks_of_ne eA', ← List.map_append,
        ← List.map_append, h, hs]

/-- equal inputs have equal specs: whatever else collides, **the hash is a function of the
spec and determines it** -/
theorem hashToks_spec {c c' : Content} (h : hashToks c = hashToks c') : c.spec = c'.spec := by
  rcases (hashToks_eq_iff' c c').mp h with e | e
  · rw [e]
  · exact e.1

/-- … and the same sequence of label entries followed by annotation entries -/
theorem hashToks_entries {c c' : Content} (h : hashToks c = hashToks c') :
    c.labels ++ c.annos = c'.labels ++ c'.annos := by
  rcases (hashToks_eq_iff' c c').mp h with e | e
  · rw [e]
  · exact e.2.2.2.2.2

/-- a set of contents without a label<->annotation move -/
def Separated (D : Content → Prop) : Prop := ∀ c c', D c → D c' → Shift c c' → c = c'

/-- the digest is collision-free, also on the prefixes the code keeps, on the inputs that occur -/
structure DigestInj (dg : List Tok → String) (D : Content → Prop) : Prop where
  label : ∀ c c', D c → D c' →
    takeStr Xp.Gen.revisionHashLabelLen (dg (hashToks c)) = takeStr Xp.Gen.revisionHashLabelLen (dg (hashToks c')) →
    hashToks c = hashToks c'
  name : ∀ n c n' c', D c → D c' → (Naming.ofDigest dg).name n c = (Naming.ofDigest dg).name n' c' →
    n = n' ∧ hashToks c = hashToks c'

/-- **The naming assumption of the history theorems made precise**: for the naming the code
implements (`Naming.ofDigest`), `Naming.Inj` on a set `D` of contents follows from a
collision-free digest and `D` containing no label<->annotation move. -/
theorem ofDigest_inj' {dg : List Tok → String} {D : Content → Prop} (hd : DigestInj dg D) (hs : Separated D) :
    (Naming.ofDigest dg).Inj D where
  hash := fun c c' d d' h => by
    rcases (hashToks_eq_iff' c c').mp (hd.label c c' d d' h) with e | e
    · exact e
    · exact hs c c' d d' e
  name := fun n c n' c' d d' h => by
    obtain ⟨e1, e2⟩ := hd.name n c n' c' d d' h
    refine ⟨e1, ?_⟩
    rcases (hashToks_eq_iff' c c').mp e2 with e | e
    · exact e
    · exact hs c c' d d' e

/-- … and it is necessary: whatever the digest, two distinct contents of `D` that are a move
of each other get the same hash label and the same revision name — `Naming.Inj` is false. -/
theorem ofDigest_not_inj' (dg : List Tok → String) {D : Content → Prop} {c c' : Content} (d : D c) (d' : D c')
    (hne : c ≠ c') (hsh : Shift c c') : ¬ (Naming.ofDigest dg).Inj D := by
  intro hi
  have e : hashToks c = hashToks c' := (hashToks_eq_iff' c c').mpr (Or.inr hsh)
  exact hne (hi.hash c c' d d' (by simp only [Naming.ofDigest, e]))

/-! ### the renumbering loop never falls through to `Create` when a listed revision carries
the current hash label (so colliding contents share one revision) -/

/-- no `Create` is issued on any path of the program -/
def NoCreate : P Res → Prop
  | .ret _ => True
  | .call r c => (∀ x, r ≠ .createRev x) ∧ ∀ x, NoCreate (c x)

theorem renumLoop_noCreate (h : String) (latest : Nat) (k : Nat → P Res) (hk : ∀ n, 0 < n → NoCreate (k n)) :
    ∀ (l : List Rev) (ex : Nat), (∀ r ∈ l, 1 ≤ r.num) → (0 < ex ∨ ∃ r ∈ l, r.hash = h) →
      NoCreate (renumLoop h latest l ex k)
  | [], ex, _, hex => by
    rcases hex with h0 | ⟨r, hr, _⟩
    · exact hk ex h0
    · cases hr
  | r :: rs, ex, hpos, hex => by
    have hposs : ∀ x ∈ rs, 1 ≤ x.num := fun x hx => hpos x (List.mem_cons_of_mem _ hx)
    have hr1 : 0 < r.num := hpos r (List.mem_cons_self ..)
    unfold renumLoop
    by_cases hh : r.hash ≠ h
    · rw [if_pos hh]
      refine renumLoop_noCreate h latest k hk rs ex hposs ?_
      rcases hex with h0 | ⟨x, hx, hxh⟩
      · exact Or.inl h0
      · rcases List.mem_cons.mp hx with e | e
        · exact absurd (e ▸ hxh) hh
        · exact Or.inr ⟨x, e, hxh⟩
    · rw [if_neg hh]
      by_cases hn : r.num = latest
      · rw [if_pos hn]
        exact renumLoop_noCreate h latest k hk rs r.num hposs (Or.inl hr1)
      · rw [if_neg hn]
        refine ⟨fun x e => (by cases e), fun x => ?_⟩
        cases x <;> first
          | exact renumLoop_noCreate h latest k hk rs r.num hposs (Or.inl hr1)
          | exact trivial

end Xp.C12

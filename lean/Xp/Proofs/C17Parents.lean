import Xp.Model.C17
import Xp.Model.C17Rec
import Xp.Proofs.C17Init
/-
C17 helper lemmas: the parent constraints MapUpgradingDag.Init records on the node of a lock
package, for every lock: one contribution per dependency ENTRY that points at the package, each
being the constraint of the FIRST such entry of its parent (LockPackage.AddNeighbors `break`s
at the first match). Core Lean only.
-/
namespace Xp.C17

/-- what the upgrading DAG records as ParentConstraints of the lock package `x`: for every lock
package `p`, in lock order, for every dependency entry of `p` on `x`, the constraint of `p`'s
first entry on `x` -/
def lockParents (pkgs : List Pkg) (x : String) : List String :=
  pkgs.flatMap fun p => (p.deps.filter (fun e => e.pkg == x)).flatMap fun _ => neighborCons (pkgNode p) x

/-- the node stored for lock package `p` is a lock package with `p`'s dependencies -/
def ShapeOf (d : Dag) (p : Pkg) : Prop := ∃ f, d.get p.source = some f ∧ f.isPkg = true ∧ f.deps = p.deps

theorem neighborCons_shape {f : Node} {p : Pkg} (h1 : f.isPkg = true) (h2 : f.deps = p.deps) (x : String) :
    neighborCons f x = neighborCons (pkgNode p) x := by
  unfold neighborCons pkgNode
  simp only [h1, h2, if_true]

theorem Dag.get_id {d : Dag} {x : String} {n : Node} (h : d.get x = some n) : n.id = x := by
  unfold Dag.get at h
  have := List.find?_some h
  simpa using this

theorem addParents_id (y : String) (cs : List String) (n : Node) :
    (if n.id == y then { n with parents := n.parents ++ cs } else n).id = n.id := by
  split <;> rfl

theorem parentsOf_addParents (d : Dag) (y : String) (cs : List String) (x : String) (hx : d.has x = true) :
    parentsOf (addParents d y cs) x = if x == y then parentsOf d x ++ cs else parentsOf d x := by
  unfold parentsOf addParents
  rw [Dag.get_map_same_id _ _ (addParents_id y cs)]
  unfold Dag.has at hx
  cases hg : d.get x with
  | none => rw [hg] at hx; cases hx
  | some n =>
    have hid : n.id = x := Dag.get_id hg
    simp only [Option.map_some, Option.getD_some, hid]
    split <;> rfl

theorem has_addParents (d : Dag) (y : String) (cs : List String) (x : String) :
    (addParents d y cs).has x = d.has x := by
  rw [Dag.has_eq, Dag.has_eq, addParents_nb]

theorem shape_addParents {d : Dag} {p : Pkg} (y : String) (cs : List String) (h : ShapeOf d p) :
    ShapeOf (addParents d y cs) p := by
  obtain ⟨f, hf, h1, h2⟩ := h
  unfold ShapeOf addParents
  rw [Dag.get_map_same_id _ _ (addParents_id y cs), hf]
  refine ⟨_, rfl, ?_, ?_⟩ <;> (dsimp only; split <;> assumption)

theorem has_append {d e : Dag} {x : String} (h : d.has x = true) : (d ++ e).has x = true := by
  unfold Dag.has at *
  rw [Dag.get_append]
  cases hg : d.get x with
  | none => rw [hg] at h; cases h
  | some n => rfl

theorem parentsOf_append {d e : Dag} {x : String} (h : d.has x = true) : parentsOf (d ++ e) x = parentsOf d x := by
  unfold parentsOf
  rw [Dag.get_append]
  unfold Dag.has at h
  cases hg : d.get x with
  | none => rw [hg] at h; cases h
  | some n => rfl

theorem shape_append {d e : Dag} {p : Pkg} (h : ShapeOf d p) : ShapeOf (d ++ e) p := by
  obtain ⟨f, hf, h1, h2⟩ := h
  exact ⟨f, by rw [Dag.get_append, hf]; rfl, h1, h2⟩

/-- one AddEdge of the upgrading DAG, seen from a present node `x` -/
theorem addEdge_parents (o : Oracle) (d : Dag) (frm : String) (to : Dep) (d' : Dag) (i : Bool) (f : Node)
    (h : addEdge o true d frm to = .ok (d', i)) (hf : d.get frm = some f) (x : String) (hx : d.has x = true) :
    parentsOf d' x = parentsOf d x ++ (if to.pkg == x then neighborCons f x else []) ∧
    d'.has x = true ∧ (∀ p, ShapeOf d p → ShapeOf d' p) := by
  unfold addEdge at h
  rw [hf] at h
  simp only at h
  cases hg : d.get to.pkg with
  | none =>
    rw [hg] at h
    simp only [Except.ok.injEq, Prod.mk.injEq] at h
    obtain ⟨rfl, _⟩ := h
    have hne : (to.pkg == x) = false := by
      cases hb : to.pkg == x with
      | false => rfl
      | true =>
        have : to.pkg = x := by simpa using hb
        rw [this] at hg
        unfold Dag.has at hx
        rw [hg] at hx
        cases hx
    refine ⟨by rw [parentsOf_append hx, hne]; simp, has_append hx, fun p hp => shape_append hp⟩
  | some org =>
    rw [hg] at h
    have hd : d' = addParents d to.pkg (neighborCons f to.pkg) := by
      simp only [if_true] at h
      split at h <;> (simp only [Except.ok.injEq, Prod.mk.injEq] at h; exact h.1.symm)
    subst hd
    refine ⟨?_, by rw [has_addParents]; exact hx, fun p hp => shape_addParents _ _ hp⟩
    rw [parentsOf_addParents d _ _ x hx]
    cases hb : to.pkg == x with
    | false =>
      have : (x == to.pkg) = false := by
        cases hb' : x == to.pkg with
        | false => rfl
        | true =>
          have e : x = to.pkg := by simpa using hb'
          rw [e] at hb
          simp at hb
      simp [this]
    | true =>
      have e : to.pkg = x := by simpa using hb
      subst e
      simp

/-- the AddEdges of one lock package `p` -/
theorem addEdges_parents (o : Oracle) (p : Pkg) (x : String) :
    ∀ (es : List Dep) (d : Dag) (imp : List Dep) (d' : Dag) (imp' : List Dep),
      addEdges o true p.source d es imp = .ok (d', imp') → ShapeOf d p → d.has x = true →
      parentsOf d' x = parentsOf d x ++ (es.filter (fun e => e.pkg == x)).flatMap (fun _ => neighborCons (pkgNode p) x) ∧
      d'.has x = true ∧ (∀ q, ShapeOf d q → ShapeOf d' q) := by
  intro es
  induction es with
  | nil =>
    intro d imp d' imp' h _ hx
    simp only [addEdges, Except.ok.injEq, Prod.mk.injEq] at h
    obtain ⟨rfl, _⟩ := h
    exact ⟨by simp, hx, fun _ hq => hq⟩
  | cons e es ih =>
    intro d imp d' imp' h hs hx
    unfold addEdges at h
    cases ha : addEdge o true d p.source e with
    | error err => rw [ha] at h; cases h
    | ok r =>
      obtain ⟨d1, i⟩ := r
      rw [ha] at h
      simp only at h
      obtain ⟨f, hf, h1, h2⟩ := hs
      obtain ⟨hp1, hx1, hsh1⟩ := addEdge_parents o d p.source e d1 i f ha hf x hx
      obtain ⟨hp2, hx2, hsh2⟩ := ih d1 _ d' imp' h (hsh1 p ⟨f, hf, h1, h2⟩) hx1
      refine ⟨?_, hx2, fun q hq => hsh2 q (hsh1 q hq)⟩
      rw [hp2, hp1, neighborCons_shape h1 h2 x]
      cases hb : e.pkg == x with
      | false => simp [hb]
      | true => simp [hb, List.append_assoc]

/-- the edge phase of Init over the lock packages `ps` -/
theorem initEdges_parents (o : Oracle) (x : String) :
    ∀ (ps : List Pkg) (d : Dag) (imp : List Dep) (d' : Dag) (imp' : List Dep),
      initEdges o true d ps imp = .ok (d', imp') → (∀ p ∈ ps, ShapeOf d p) → d.has x = true →
      parentsOf d' x = parentsOf d x ++ lockParents ps x := by
  intro ps
  induction ps with
  | nil =>
    intro d imp d' imp' h _ _
    simp only [initEdges, Except.ok.injEq, Prod.mk.injEq] at h
    obtain ⟨rfl, _⟩ := h
    simp [lockParents]
  | cons p ps ih =>
    intro d imp d' imp' h hs hx
    unfold initEdges at h
    cases ha : addEdges o true p.source d p.deps imp with
    | error err => rw [ha] at h; cases h
    | ok r =>
      obtain ⟨d1, imp1⟩ := r
      rw [ha] at h
      simp only at h
      obtain ⟨hp1, hx1, hsh1⟩ := addEdges_parents o p x p.deps d imp d1 imp1 ha (hs p (List.mem_cons_self ..)) hx
      have hp2 := ih d1 imp1 d' imp' h (fun q hq => hsh1 q (hs q (List.mem_cons_of_mem _ hq))) hx1
      rw [hp2, hp1]
      simp [lockParents, List.append_assoc]

theorem find_of_nodup : ∀ (pkgs : List Pkg), (pkgs.map (·.source)).Nodup → ∀ p ∈ pkgs,
    pkgs.find? (fun q => q.source == p.source) = some p := by
  intro pkgs
  induction pkgs with
  | nil => intro _ p hp; cases hp
  | cons q qs ih =>
    intro hn p hp
    simp only [List.map_cons, List.nodup_cons] at hn
    cases hp with
    | head => simp
    | tail _ hp' =>
      have hne : (q.source == p.source) = false := by
        cases hb : q.source == p.source with
        | false => rfl
        | true =>
          have e : q.source = p.source := by simpa using hb
          exact absurd (List.mem_map.2 ⟨p, hp', e.symm⟩) hn.1
      simp only [List.find?_cons, hne]
      exact ih hn.2 p hp'

/-- **MapUpgradingDag.Init: the parent constraints of a lock package**, for every lock. -/
theorem init_parents {o : Oracle} {pkgs : List Pkg} {d : Dag} {imp : List Dep}
    (h : init o true pkgs = .ok (d, imp)) (x : String) (hx : x ∈ pkgs.map (·.source)) :
    parentsOf d x = lockParents pkgs x := by
  unfold init at h
  cases ha : addNodes [] (pkgs.map pkgNode) with
  | error e => rw [ha] at h; cases h
  | ok d0 =>
    rw [ha] at h
    simp only at h
    have hd0 : d0 = pkgs.map pkgNode := by simpa using addNodes_eq _ _ _ ha
    have hnd : d0.keys.Nodup := addNodes_nodup _ _ _ ha (by simp [Dag.keys])
    subst hd0
    have hsrc : (pkgs.map (·.source)).Nodup := by
      have : Dag.keys (pkgs.map pkgNode) = pkgs.map (·.source) := by
        unfold Dag.keys; rw [List.map_map]; rfl
      rw [← this]; exact hnd
    have hget : ∀ p ∈ pkgs, Dag.get (pkgs.map pkgNode) p.source = some (pkgNode p) := by
      intro p hp
      unfold Dag.get
      rw [List.find?_map]
      have : ((fun n : Node => n.id == p.source) ∘ pkgNode) = (fun q : Pkg => q.source == p.source) := rfl
      rw [this, find_of_nodup pkgs hsrc p hp]
      rfl
    have hshape : ∀ p ∈ pkgs, ShapeOf (pkgs.map pkgNode) p := fun p hp => ⟨pkgNode p, hget p hp, rfl, rfl⟩
    obtain ⟨p, hp, rfl⟩ := List.mem_map.1 hx
    have hhas : Dag.has (pkgs.map pkgNode) p.source = true := by unfold Dag.has; rw [hget p hp]; rfl
    have h0 : parentsOf (pkgs.map pkgNode) p.source = [] := by unfold parentsOf; rw [hget p hp]; rfl
    have := initEdges_parents o p.source pkgs _ [] d imp h hshape hhas
    rw [this, h0]
    simp

end Xp.C17

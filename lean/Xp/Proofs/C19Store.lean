import Xp.Model.C19
/-
C19 helper lemmas, part 1: the API-server operations (membership after put/drop,
specification of updU / updStatus / updR, the index count).
-/
namespace Xp.C19

/-! ### Bool predicates as propositions -/

@[simp] theorem Res.is_iff (r : Res) (g k n : String) :
    r.is g k n = true ↔ r.group = g ∧ r.kind = k ∧ r.name = n := by
  simp [Res.is, and_assoc]

theorem Res.is_self (r : Res) : r.is r.group r.kind r.name = true := by simp

@[simp] theorem Usage.names_iff (u : Usage) (r : Res) :
    u.names r = true ↔ u.of.name ≠ "" ∧ groupOf u.of.av = r.group ∧ u.of.kind = r.kind ∧ u.of.name = r.name := by
  simp [Usage.names, and_assoc]

@[simp] theorem Usage.indexedBy_iff (u : Usage) (key : String) :
    u.indexedBy key = true ↔ u.of.name ≠ "" ∧ indexValue u.of.av u.of.kind u.of.name = key := by
  simp [Usage.indexedBy]

/-- a Usage that names a resource is listed under that resource's index key, whatever API
version the Usage or the request uses -/
theorem names_indexedBy {u : Usage} {r : Res} (h : u.names r = true) :
    u.indexedBy (indexKey r.group r.kind r.name) = true := by
  simp only [Usage.names_iff] at h
  obtain ⟨h0, h1, h2, h3⟩ := h
  simp only [Usage.indexedBy_iff]
  exact ⟨h0, by simp [indexValue, h1, h2, h3]⟩

/-! ### lookups -/

theorem getU_some {s : Store} {n : String} {x : Usage} (h : s.getU n = some x) :
    x ∈ s.usages ∧ x.name = n := by
  unfold Store.getU at h
  have h1 := List.mem_of_find?_eq_some h
  have h2 := List.find?_some h
  simp at h2
  exact ⟨h1, h2⟩

theorem getU_none {s : Store} {n : String} (h : s.getU n = none) : ∀ x ∈ s.usages, x.name ≠ n := by
  unfold Store.getU at h
  intro x hx
  have := List.find?_eq_none.mp h x hx
  simpa using this

theorem getR_some {s : Store} {g k n : String} {x : Res} (h : s.getR g k n = some x) :
    x ∈ s.res ∧ x.group = g ∧ x.kind = k ∧ x.name = n := by
  unfold Store.getR at h
  have h1 := List.mem_of_find?_eq_some h
  have h2 := List.find?_some h
  simp at h2
  exact ⟨h1, h2⟩

theorem getR_none {s : Store} {g k n : String} (h : s.getR g k n = none) :
    ∀ x ∈ s.res, ¬ (x.group = g ∧ x.kind = k ∧ x.name = n) := by
  unfold Store.getR at h
  intro x hx
  have := List.find?_eq_none.mp h x hx
  simpa using this

/-! ### membership after put / drop -/

theorem mem_putU {s : Store} {n y : Usage} :
    y ∈ (s.putU n).usages ↔ (y ∈ s.usages ∧ y.name ≠ n.name) ∨ (y = n ∧ ∃ x ∈ s.usages, x.name = n.name) := by
  simp only [Store.putU, List.mem_map]
  constructor
  · rintro ⟨x, hx, rfl⟩
    by_cases h : x.name = n.name
    · right; simp [h]; exact ⟨x, hx, h⟩
    · left; simp [h]; exact hx
  · rintro (⟨hy, hn⟩ | ⟨rfl, x, hx, hn⟩)
    · exact ⟨y, hy, by simp [hn]⟩
    · exact ⟨x, hx, by simp [hn]⟩

theorem mem_dropU {s : Store} {nm : String} {y : Usage} :
    y ∈ (s.dropU nm).usages ↔ y ∈ s.usages ∧ y.name ≠ nm := by
  simp [Store.dropU]

theorem mem_putR {s : Store} {n y : Res} :
    y ∈ (s.putR n).res ↔
      (y ∈ s.res ∧ ¬ (y.group = n.group ∧ y.kind = n.kind ∧ y.name = n.name)) ∨
      (y = n ∧ ∃ x ∈ s.res, x.group = n.group ∧ x.kind = n.kind ∧ x.name = n.name) := by
  simp only [Store.putR, List.mem_map]
  constructor
  · rintro ⟨x, hx, rfl⟩
    by_cases h : x.group = n.group ∧ x.kind = n.kind ∧ x.name = n.name
    · right
      have : x.is n.group n.kind n.name = true := by simp [h]
      simp [this]; exact ⟨x, hx, h⟩
    · left
      have : x.is n.group n.kind n.name = false := by
        cases hb : x.is n.group n.kind n.name
        · rfl
        · exact absurd ((Res.is_iff _ _ _ _).mp hb) h
      simp [this]; exact ⟨hx, by simpa using h⟩
  · rintro (⟨hy, hn⟩ | ⟨rfl, x, hx, hn⟩)
    · refine ⟨y, hy, ?_⟩
      have : y.is n.group n.kind n.name = false := by
        cases hb : y.is n.group n.kind n.name
        · rfl
        · exact absurd ((Res.is_iff _ _ _ _).mp hb) hn
      simp [this]
    · refine ⟨x, hx, ?_⟩
      have : x.is y.group y.kind y.name = true := by simp [hn]
      simp [this]

theorem mem_dropR {s : Store} {g k n : String} {y : Res} :
    y ∈ (s.dropR g k n).res ↔ y ∈ s.res ∧ ¬ (y.group = g ∧ y.kind = k ∧ y.name = n) := by
  simp only [Store.dropR, List.mem_filter, Bool.not_eq_eq_eq_not, Bool.not_true]
  constructor
  · rintro ⟨h1, h2⟩
    exact ⟨h1, fun h => by rw [(Res.is_iff _ _ _ _).mpr h] at h2; cases h2⟩
  · rintro ⟨h1, h2⟩
    refine ⟨h1, ?_⟩
    cases hb : y.is g k n
    · rfl
    · exact absurd ((Res.is_iff _ _ _ _).mp hb) h2

@[simp] theorem putU_res (s : Store) (n : Usage) : (s.putU n).res = s.res := rfl
@[simp] theorem dropU_res (s : Store) (n : String) : (s.dropU n).res = s.res := rfl
@[simp] theorem putR_usages (s : Store) (n : Res) : (s.putR n).usages = s.usages := rfl
@[simp] theorem dropR_usages (s : Store) (g k n : String) : (s.dropR g k n).usages = s.usages := rfl
@[simp] theorem bump_usages (s : Store) : s.bump.usages = s.usages := rfl
@[simp] theorem bump_res (s : Store) : s.bump.res = s.res := rfl
@[simp] theorem bump_nextRv (s : Store) : s.bump.nextRv = s.nextRv + 1 := rfl
@[simp] theorem bump_nextUid (s : Store) : s.bump.nextUid = s.nextUid := rfl
@[simp] theorem bump_born (s : Store) : s.bump.born = s.born := rfl
@[simp] theorem putU_nextRv (s : Store) (n : Usage) : (s.putU n).nextRv = s.nextRv := rfl
@[simp] theorem dropU_nextRv (s : Store) (n : String) : (s.dropU n).nextRv = s.nextRv := rfl
@[simp] theorem putR_nextRv (s : Store) (n : Res) : (s.putR n).nextRv = s.nextRv := rfl
@[simp] theorem dropR_nextRv (s : Store) (g k n : String) : (s.dropR g k n).nextRv = s.nextRv := rfl
@[simp] theorem putU_nextUid (s : Store) (n : Usage) : (s.putU n).nextUid = s.nextUid := rfl
@[simp] theorem dropU_nextUid (s : Store) (n : String) : (s.dropU n).nextUid = s.nextUid := rfl
@[simp] theorem putR_nextUid (s : Store) (n : Res) : (s.putR n).nextUid = s.nextUid := rfl
@[simp] theorem dropR_nextUid (s : Store) (g k n : String) : (s.dropR g k n).nextUid = s.nextUid := rfl
@[simp] theorem putU_born (s : Store) (n : Usage) : (s.putU n).born = s.born := rfl
@[simp] theorem dropU_born (s : Store) (n : String) : (s.dropU n).born = s.born := rfl
@[simp] theorem putR_born (s : Store) (n : Res) : (s.putR n).born = s.born := rfl
@[simp] theorem dropR_born (s : Store) (g k n : String) : (s.dropR g k n).born = s.born := rfl

/-! ### the index count -/

theorem countU_pos {s : Store} {key : String} :
    s.countU key > 0 ↔ ∃ u ∈ s.usages, u.indexedBy key = true := by
  unfold Store.countU
  show 0 < _ ↔ _
  rw [List.length_pos_iff_exists_mem]
  simp only [List.mem_filter]

theorem countU_zero {s : Store} {key : String} :
    s.countU key = 0 ↔ ∀ u ∈ s.usages, u.indexedBy key = false := by
  unfold Store.countU
  rw [List.length_eq_zero_iff, List.filter_eq_nil_iff]
  constructor
  · intro h u hu
    cases hb : u.indexedBy key
    · rfl
    · exact absurd hb (h u hu)
  · intro h u hu hb
    rw [h u hu] at hb; cases hb

theorem filter_length_lt_two {α : Type} (p : α → Bool) (l : List α)
    (h : (l.filter p).length < 2) {x y : α} (hx : x ∈ l) (hy : y ∈ l) (px : p x = true) (py : p y = true) :
    x = y := by
  induction l with
  | nil => cases hx
  | cons a as ih =>
    by_cases pa : p a = true
    · simp only [List.filter_cons, pa, if_true, List.length_cons] at h
      have hz : (as.filter p).length = 0 := by omega
      have hnil : as.filter p = [] := List.length_eq_zero_iff.mp hz
      have none : ∀ z ∈ as, p z = true → False := by
        intro z hz pz
        have : z ∈ as.filter p := List.mem_filter.mpr ⟨hz, pz⟩
        rw [hnil] at this; cases this
      rcases List.mem_cons.mp hx with rfl | hx'
      · rcases List.mem_cons.mp hy with rfl | hy'
        · rfl
        · exact (none y hy' py).elim
      · exact (none x hx' px).elim
    · have pa' : p a = false := by cases h' : p a <;> simp_all
      simp only [List.filter_cons, pa', Bool.false_eq_true, if_false] at h
      rcases List.mem_cons.mp hx with rfl | hx'
      · exact absurd px pa
      · rcases List.mem_cons.mp hy with rfl | hy'
        · exact absurd py pa
        · exact ih h hx' hy'

/-- if the index lists fewer than two Usages, two listed Usages are the same one -/
theorem countU_lt_two {s : Store} {key : String} (h : s.countU key < 2) {x y : Usage}
    (hx : x ∈ s.usages) (hy : y ∈ s.usages) (px : x.indexedBy key = true) (py : y.indexedBy key = true) :
    x = y :=
  filter_length_lt_two _ _ h hx hy px py

/-! ### specification of the writes -/

/-- what `updU` can do -/
inductive UpdUSpec (s : Store) (u : Usage) : Store → Resp → Prop where
  | notFound : s.getU u.name = none → UpdUSpec s u s (.err .notFound)
  | conflict (x : Usage) : s.getU u.name = some x → x.rv ≠ u.rv → UpdUSpec s u s (.err .conflict)
  | noop (x : Usage) : s.getU u.name = some x → x.rv = u.rv → x = u.onto x → UpdUSpec s u s (.usage x)
  | put (x : Usage) : s.getU u.name = some x → x.rv = u.rv →
      ¬ (x.deleting = true ∧ u.fin = false) →
      UpdUSpec s u ((s.putU { u.onto x with rv := s.nextRv }).bump) (.usage { u.onto x with rv := s.nextRv })
  | gone (x : Usage) : s.getU u.name = some x → x.rv = u.rv → x.deleting = true → u.fin = false →
      UpdUSpec s u ((s.dropU u.name).bump) (.usage { u.onto x with rv := s.nextRv })

theorem updU_spec (s : Store) (u : Usage) : UpdUSpec s u (s.updU u).1 (s.updU u).2 := by
  unfold Store.updU
  split
  · next hg => exact .notFound hg
  · next x hg =>
    split
    · next hrv => exact .conflict x hg hrv
    · next hrv =>
      have hrv' : x.rv = u.rv := by simpa using hrv
      split
      · next hn => exact .noop x hg hrv' hn.symm
      · next hn =>
        split
        · next hd =>
          simp at hd
          exact .gone x hg hrv' hd.1 hd.2
        · next hd =>
          have : ¬ (x.deleting = true ∧ u.fin = false) := by simpa using hd
          exact .put x hg hrv' this

inductive UpdStatusSpec (s : Store) (u : Usage) : Store → Resp → Prop where
  | notFound : s.getU u.name = none → UpdStatusSpec s u s (.err .notFound)
  | conflict (x : Usage) : s.getU u.name = some x → x.rv ≠ u.rv → UpdStatusSpec s u s (.err .conflict)
  | noop (x : Usage) : s.getU u.name = some x → x.rv = u.rv → x.ready = u.ready → UpdStatusSpec s u s (.usage x)
  | put (x : Usage) : s.getU u.name = some x → x.rv = u.rv → x.ready ≠ u.ready →
      UpdStatusSpec s u ((s.putU { x with ready := u.ready, rv := s.nextRv }).bump)
        (.usage { x with ready := u.ready, rv := s.nextRv })

theorem updStatus_spec (s : Store) (u : Usage) : UpdStatusSpec s u (s.updStatus u).1 (s.updStatus u).2 := by
  unfold Store.updStatus
  split
  · next hg => exact .notFound hg
  · next x hg =>
    split
    · next hrv => exact .conflict x hg hrv
    · next hrv =>
      have hrv' : x.rv = u.rv := by simpa using hrv
      split
      · next hr => exact .noop x hg hrv' hr
      · next hr => exact .put x hg hrv' hr

inductive UpdRSpec (s : Store) (r : Res) : Store → Resp → Prop where
  | notFound : s.getR r.group r.kind r.name = none → UpdRSpec s r s (.err .notFound)
  | conflict (x : Res) : s.getR r.group r.kind r.name = some x → x.rv ≠ r.rv → UpdRSpec s r s (.err .conflict)
  | noop (x : Res) : s.getR r.group r.kind r.name = some x → x.rv = r.rv → x = { r with uid := x.uid } →
      UpdRSpec s r s (.res x)
  | put (x : Res) : s.getR r.group r.kind r.name = some x → x.rv = r.rv →
      UpdRSpec s r ((s.putR { r with uid := x.uid, rv := s.nextRv }).bump) (.res { r with uid := x.uid, rv := s.nextRv })

theorem updR_spec (s : Store) (r : Res) : UpdRSpec s r (s.updR r).1 (s.updR r).2 := by
  unfold Store.updR
  split
  · next hg => exact .notFound hg
  · next x hg =>
    split
    · next hrv => exact .conflict x hg hrv
    · next hrv =>
      have hrv' : x.rv = r.rv := by simpa using hrv
      split
      · next hn => exact .noop x hg hrv' hn.symm
      · next hn => exact .put x hg hrv'
/-! ### specification of the admission webhook and of a delete request -/

/-- what `validateNoUsages` can answer; `n` is the number of Usages the List returned -/
inductive AdmitSpec (s : Store) (r : Res) (p : String) (n : Nat) : Store → Verdict → Prop where
  | listFailed : AdmitSpec s r p n s .errored
  | patchFailed : n > 0 → r.attempt ≠ some (effPolicy p) → AdmitSpec s r p n s .errored
  | deniedRecorded : n > 0 → r.attempt = some (effPolicy p) → AdmitSpec s r p n s .denied
  | deniedPatched : n > 0 → r.attempt ≠ some (effPolicy p) →
      AdmitSpec s r p n (s.putR { r with attempt := some (effPolicy p), rv := s.nextRv }).bump .denied
  | allowed : n = 0 → AdmitSpec s r p n s .allowed

theorem admitDelete_spec (s : Store) (r : Res) (p : String) (lo po : Bool) (st : Option Nat) :
    AdmitSpec s r p (st.getD (s.countU (indexKey r.group r.kind r.name)))
      (s.admitDelete r p lo po st).1 (s.admitDelete r p lo po st).2 := by
  unfold Store.admitDelete
  split
  · exact .listFailed
  · split
    · next hn =>
      split
      · next ha =>
        split
        · exact .patchFailed hn ha
        · exact .deniedPatched hn ha
      · next ha => exact .deniedRecorded hn (by simpa using ha)
    · next hn => exact .allowed (by omega)

/-- no faults: the answer is denied or allowed -/
theorem admitDelete_ok (s : Store) (r : Res) (p : String) (st : Option Nat) :
    (s.admitDelete r p true true st).2 ≠ .errored := by
  unfold Store.admitDelete
  simp only [Bool.not_true, Bool.false_eq_true, if_false]
  split
  · split <;> simp
  · simp

inductive DeleteSpec (s : Store) (g k n p : String) (lo po : Bool) (st : Option Nat) : Store → DelResult → Prop where
  | notFound : s.getR g k n = none → DeleteSpec s g k n p lo po st s .notFound
  | unlabelled (r : Res) : s.getR g k n = some r → r.inUse = false →
      DeleteSpec s g k n p lo po st (s.dropR g k n) (.done false .allowed)
  | refused (r : Res) (v : Verdict) : s.getR g k n = some r → r.inUse = true →
      (s.admitDelete r p lo po st).2 = v → v ≠ .allowed →
      DeleteSpec s g k n p lo po st (s.admitDelete r p lo po st).1 (.done true v)
  | admitted (r : Res) : s.getR g k n = some r → r.inUse = true →
      (s.admitDelete r p lo po st).2 = .allowed →
      DeleteSpec s g k n p lo po st ((s.admitDelete r p lo po st).1.dropR g k n) (.done true .allowed)

theorem deleteRes_spec (s : Store) (g k n p : String) (lo po : Bool) (st : Option Nat) :
    DeleteSpec s g k n p lo po st (s.deleteRes g k n p lo po st).1 (s.deleteRes g k n p lo po st).2 := by
  unfold Store.deleteRes
  split
  · next hg => exact .notFound hg
  · next r hg =>
    split
    · next hin =>
      split
      · next hv => exact .admitted r hg hin hv
      · next v hv => exact .refused r _ hg hin rfl (fun h => hv h)
    · next hin => exact .unlabelled r hg (by simpa using hin)

end Xp.C19

import Xp.Model.C01
/-
Helper lemmas for the C01 theorems: store lemmas, the invariant `Good`, and one
"safety" lemma per phase of the function composer.
-/
namespace Xp.C01

def key (o : CObj) : Ref := ⟨o.kind, o.name⟩

/-- The invariant carried at every instant. -/
structure Good (s : St) : Prop where
  nodup : (s.objs.map key).Nodup
  named : ∀ o ∈ s.objs, o.name ≠ ""
  noLeak : ∀ o ∈ s.objs, o.ctrl = .xr → o.deleting = false → key o ∈ s.refs
  obsUniq : ∀ o1 ∈ s.objs, ∀ o2 ∈ s.objs, key o1 ∈ s.refs → key o2 ∈ s.refs →
    o1.annot = o2.annot → o1.annot ≠ "" → o1 = o2
  /-- every object recorded as foreign-controlled at the start is still there, byte for byte -/
  frame : ∀ o ∈ s.foreign0, o.ctrl = .other ∧ o ∈ s.objs

/-! ### store lemmas -/

theorem findObj_some {objs : List CObj} {k n : String} {o : CObj} (h : findObj objs k n = some o) :
    o ∈ objs ∧ o.kind = k ∧ o.name = n := by
  unfold findObj at h
  have h1 := List.mem_of_find?_eq_some h
  have h2 := List.find?_some h
  simp at h2
  exact ⟨h1, h2.1, h2.2⟩

theorem findObj_none {objs : List CObj} {k n : String} (h : findObj objs k n = none) :
    ∀ o ∈ objs, ¬ (o.kind = k ∧ o.name = n) := by
  unfold findObj at h
  intro o ho hk
  have := List.find?_eq_none.mp h o ho
  simp [hk] at this

theorem key_eq_iff (o : CObj) (k n : String) : key o = ⟨k, n⟩ ↔ (o.kind = k ∧ o.name = n) := by
  simp [key]

theorem eq_of_map_nodup {α β : Type} (f : α → β) {l : List α} (hn : (l.map f).Nodup) {a b : α}
    (h1 : a ∈ l) (h2 : b ∈ l) (hk : f a = f b) : a = b := by
  induction l with
  | nil => cases h1
  | cons x xs ih =>
    simp only [List.map_cons, List.nodup_cons, List.mem_map, not_exists, not_and] at hn
    rcases List.mem_cons.mp h1 with rfl | h1'
    · rcases List.mem_cons.mp h2 with rfl | h2'
      · rfl
      · exact absurd hk.symm (hn.1 b h2')
    · rcases List.mem_cons.mp h2 with rfl | h2'
      · exact absurd hk (hn.1 a h1')
      · exact ih hn.2 h1' h2'

theorem eq_of_key_eq {objs : List CObj} (hn : (objs.map key).Nodup) {o1 o2 : CObj}
    (h1 : o1 ∈ objs) (h2 : o2 ∈ objs) (hk : key o1 = key o2) : o1 = o2 := by
  induction objs with
  | nil => cases h1
  | cons x xs ih =>
    simp only [List.map_cons, List.nodup_cons, List.mem_map, not_exists, not_and] at hn
    rcases List.mem_cons.mp h1 with rfl | h1'
    · rcases List.mem_cons.mp h2 with rfl | h2'
      · rfl
      · exact absurd hk.symm (hn.1 o2 h2')
    · rcases List.mem_cons.mp h2 with rfl | h2'
      · exact absurd hk (hn.1 o1 h1')
      · exact ih hn.2 h1' h2'

theorem findObj_of_mem {objs : List CObj} (hn : (objs.map key).Nodup) {o : CObj} (h : o ∈ objs) :
    findObj objs o.kind o.name = some o := by
  cases hf : findObj objs o.kind o.name with
  | none => exact absurd ⟨rfl, rfl⟩ (findObj_none hf o h)
  | some o' =>
    obtain ⟨hm, hk, hnm⟩ := findObj_some hf
    have : key o' = key o := by simp [key, hk, hnm]
    rw [eq_of_key_eq hn hm h this]

theorem mem_removeObj {objs : List CObj} {k n : String} {o : CObj} :
    o ∈ removeObj objs k n ↔ o ∈ objs ∧ ¬ (o.kind = k ∧ o.name = n) := by
  simp only [removeObj, List.mem_filter, decide_eq_true_eq]

theorem mem_mapObj {objs : List CObj} {k n : String} {f : CObj → CObj} {o : CObj} :
    o ∈ mapObj objs k n f ↔ ∃ o0 ∈ objs, o = (if o0.kind = k ∧ o0.name = n then f o0 else o0) := by
  simp [mapObj, eq_comm]

theorem map_key_mapObj {objs : List CObj} {k n : String} {f : CObj → CObj}
    (hf : ∀ o, key (f o) = key o) : (mapObj objs k n f).map key = objs.map key := by
  simp only [mapObj, List.map_map]
  apply List.map_congr_left
  intro o _
  simp only [Function.comp]
  split
  · exact hf o
  · rfl

theorem nodup_removeObj {objs : List CObj} {k n : String} (hn : (objs.map key).Nodup) :
    ((removeObj objs k n).map key).Nodup := by
  unfold removeObj
  exact (List.filter_sublist.map key).nodup hn


/-! ### shrinking: what garbage collection does to the store -/

/-- `s'` is `s` with some objects removed or marked terminating; refs unchanged. -/
structure Shrunk (s s' : St) : Prop where
  refs : s'.refs = s.refs
  nodup : (s'.objs.map key).Nodup
  sub : ∀ o' ∈ s'.objs, ∃ o ∈ s.objs, key o' = key o ∧ o'.annot = o.annot ∧ o'.ctrl = o.ctrl ∧
    (o'.deleting = false → o' = o)
  foreign0 : s'.foreign0 = s.foreign0
  keepForeign : ∀ o ∈ s.objs, o.ctrl = .other → o ∈ s'.objs
  /-- the set of cache misses is an input of the reconcile: no request writes it -/
  miss : s'.miss = s.miss

theorem Shrunk.rfl' {s : St} (hg : Good s) : Shrunk s s :=
  ⟨rfl, hg.nodup, fun o ho => ⟨o, ho, rfl, rfl, rfl, fun _ => rfl⟩, rfl, fun _ h _ => h, rfl⟩

theorem Shrunk.trans {s1 s2 s3 : St} (h12 : Shrunk s1 s2) (h23 : Shrunk s2 s3) : Shrunk s1 s3 := by
  refine ⟨h23.refs.trans h12.refs, h23.nodup, ?_, h23.foreign0.trans h12.foreign0,
    fun o ho hc => h23.keepForeign o (h12.keepForeign o ho hc) hc, h23.miss.trans h12.miss⟩
  intro o3 ho3
  obtain ⟨o2, ho2, hk, ha, hc, hd⟩ := h23.sub o3 ho3
  obtain ⟨o1, ho1, hk', ha', hc', hd'⟩ := h12.sub o2 ho2
  refine ⟨o1, ho1, hk.trans hk', ha.trans ha', hc.trans hc', ?_⟩
  intro h
  have e := hd h
  subst e
  exact hd' h

theorem Shrunk.good {s s' : St} (hg : Good s) (h : Shrunk s s') : Good s' := by
  refine ⟨h.nodup, ?_, ?_, ?_, ?_⟩
  rotate_right
  · intro o ho
    rw [h.foreign0] at ho
    exact ⟨(hg.frame o ho).1, h.keepForeign o (hg.frame o ho).2 (hg.frame o ho).1⟩
  · intro o' ho'
    obtain ⟨o, ho, hk, _⟩ := h.sub o' ho'
    have := hg.named o ho
    simp only [key, Ref.mk.injEq] at hk
    rw [hk.2]; exact this
  · intro o' ho' hc hd
    obtain ⟨o, ho, _, _, _, he⟩ := h.sub o' ho'
    have e := he hd
    subst e
    rw [h.refs]
    exact hg.noLeak _ ho hc hd
  · intro a ha b hb hka hkb hab hne
    obtain ⟨a0, ha0, hk1, han1, hc1, _⟩ := h.sub a ha
    obtain ⟨b0, hb0, hk2, han2, hc2, _⟩ := h.sub b hb
    rw [h.refs] at hka hkb
    have : a0 = b0 := hg.obsUniq a0 ha0 b0 hb0 (hk1 ▸ hka) (hk2 ▸ hkb)
      (by rw [← han1, ← han2]; exact hab) (by rw [← han1]; exact hne)
    subst this
    exact eq_of_key_eq h.nodup ha hb (hk1.trans hk2.symm)

/-- once every object with key `K` is terminating (or gone), that stays so under further shrinking -/
theorem Shrunk.dead_persist {s s' : St} (h : Shrunk s s') (K : Ref)
    (hd : ∀ o ∈ s.objs, key o = K → o.deleting = true) : ∀ o ∈ s'.objs, key o = K → o.deleting = true := by
  intro o' ho' hk
  obtain ⟨o, ho, hk', _, _, he⟩ := h.sub o' ho'
  cases hdel : o'.deleting with
  | true => rfl
  | false =>
    have e := he hdel
    subst e
    have := hd _ ho hk
    rw [hdel] at this; cases this

theorem exec_delete_none {s : St} {k n : String} (h : findObj s.objs k n = none) :
    exec s (.delete k n) = (s, .notFound) := by simp [exec, h]

theorem exec_delete_fin {s : St} {k n : String} {o : CObj} (h : findObj s.objs k n = some o) (hf : o.fin = true) :
    exec s (.delete k n) = ({ s with objs := mapObj s.objs k n (fun o => { o with deleting := true }) }, .ok) := by
  simp [exec, h, hf]

theorem exec_delete_nofin {s : St} {k n : String} {o : CObj} (h : findObj s.objs k n = some o) (hf : o.fin = false) :
    exec s (.delete k n) = ({ s with objs := removeObj s.objs k n }, .ok) := by
  simp [exec, h, hf]

theorem exec_delete_shrunk (s : St) (hn : (s.objs.map key).Nodup) (k n : String)
    (hnf : ∀ x ∈ s.objs, key x = ⟨k, n⟩ → x.ctrl ≠ .other) :
    Shrunk s (exec s (.delete k n)).1 ∧
    ∀ o ∈ (exec s (.delete k n)).1.objs, key o = ⟨k, n⟩ → o.deleting = true := by
  have hkeep : ∀ o ∈ s.objs, o.ctrl = .other → ¬ (o.kind = k ∧ o.name = n) :=
    fun o ho hc hm => hnf o ho ((key_eq_iff o k n).mpr hm) hc
  cases hf : findObj s.objs k n with
  | none =>
    rw [exec_delete_none hf]
    refine ⟨⟨rfl, hn, fun o ho => ⟨o, ho, rfl, rfl, rfl, fun _ => rfl⟩, rfl, fun _ h _ => h, rfl⟩, ?_⟩
    intro o ho hk
    exact absurd ((key_eq_iff o k n).mp hk) (findObj_none hf o ho)
  | some o0 =>
    cases hfin : o0.fin with
    | true =>
      rw [exec_delete_fin hf hfin]
      have h1 : ((mapObj s.objs k n (fun o => { o with deleting := true })).map key).Nodup := by
        rw [map_key_mapObj (f := fun o => { o with deleting := true }) (fun o => rfl)]; exact hn
      have h2 : ∀ o' ∈ mapObj s.objs k n (fun o => { o with deleting := true }),
          ∃ o ∈ s.objs, key o' = key o ∧ o'.annot = o.annot ∧ o'.ctrl = o.ctrl ∧ (o'.deleting = false → o' = o) := by
        intro o' ho'
        obtain ⟨o, ho, he⟩ := mem_mapObj.mp ho'
        refine ⟨o, ho, ?_⟩
        subst he
        split
        · exact ⟨rfl, rfl, rfl, fun h => by simp at h⟩
        · exact ⟨rfl, rfl, rfl, fun _ => rfl⟩
      have h3 : ∀ o ∈ s.objs, o.ctrl = .other → o ∈ mapObj s.objs k n (fun o => { o with deleting := true }) := by
        intro o ho hc
        apply mem_mapObj.mpr
        refine ⟨o, ho, ?_⟩
        simp [hkeep o ho hc]
      refine ⟨⟨rfl, h1, h2, rfl, h3, rfl⟩, ?_⟩
      intro o' ho' hk
      obtain ⟨o, ho, he⟩ := mem_mapObj.mp ho'
      subst he
      by_cases hm : o.kind = k ∧ o.name = n
      · simp [hm]
      · simp only [hm, if_false] at hk ⊢
        exact absurd ((key_eq_iff o k n).mp hk) hm
    | false =>
      rw [exec_delete_nofin hf hfin]
      refine ⟨⟨rfl, nodup_removeObj hn, ?_, rfl, ?_, rfl⟩, ?_⟩
      · intro o' ho'
        exact ⟨o', (mem_removeObj.mp ho').1, rfl, rfl, rfl, fun _ => rfl⟩
      · intro o ho hc
        exact mem_removeObj.mpr ⟨ho, hkeep o ho hc⟩
      · intro o' ho' hk
        exact absurd ((key_eq_iff o' k n).mp hk) (mem_removeObj.mp ho').2

theorem exec_gcUpdate_state (s : St) (k n : String) : (exec s (.gcUpdate k n)).1 = s := by
  simp only [exec]; split <;> rfl

/-! ### safety of the epilogues -/

theorem exec_statusUpdate_state (s : St) (rv : Option Nat) : (exec s (.statusUpdate rv)).1 = s := by
  simp only [exec]; split <;> rfl

theorem safe_onErrorO {s : St} (hg : Good s) (l : Option Nat) : Safe sem Good (onErrorO l) s := by
  unfold onErrorO
  simp only [Safe, sem, exec_statusUpdate_state]
  refine ⟨hg, ?_, ?_, ?_⟩ <;> first | trivial | (split <;> simp [Safe])

theorem safe_onError {s : St} (hg : Good s) (l : Nat) : Safe sem Good (onError l) s := safe_onErrorO hg _

theorem safe_onConflict (s : St) : Safe sem Good onConflict s := by simp [onConflict, Safe]

theorem safe_finish {s : St} (hg : Good s) (l : Nat) (b : Bool) : Safe sem Good (finish l b) s := by
  unfold finish
  simp only [Safe, sem, exec_statusUpdate_state]
  refine ⟨hg, ?_, ?_, ?_⟩ <;> first | trivial | (split <;> simp [Safe])

/-- a guarded write: it is enough to show the post-state is good and the continuation is safe there -/
theorem safe_wcall {s : St} (hg : Good s) (lrv : Nat) (r : Req) (k : Resp → P)
    (h1 : Good (exec s r).1)
    (hk : (exec s r).2 ≠ .err → (exec s r).2 ≠ .conflict → Safe sem Good (k (exec s r).2) (exec s r).1) :
    Safe sem Good (wcall lrv r k) s := by
  unfold wcall
  simp only [Safe, sem]
  refine ⟨h1, ?_, safe_onError hg _, ?_⟩
  · cases hr : (exec s r).2 with
    | err => exact safe_onError h1 _
    | conflict => exact safe_onConflict _
    | _ => simp only []; exact hr ▸ hk (by rw [hr]; simp) (by rw [hr]; simp)
  · by_cases hr : isRead r = true
    · simp only [hr, if_true]; exact safe_onError hg _
    · simp only [hr]; exact safe_onConflict _


/-! ### exec equations -/

theorem exec_getObj_some {s : St} {k n : String} {o : CObj} (h : findObj s.objs k n = some o) :
    exec s (.getObj k n) = (s, .found o) := by simp [exec, h]

theorem exec_getObj_none {s : St} {k n : String} (h : findObj s.objs k n = none) :
    exec s (.getObj k n) = (s, .notFound) := by simp [exec, h]

/-! ### reads through the informer cache -/

theorem exec_getCached_miss {s : St} {k n : String} (h : (⟨k, n⟩ : Ref) ∈ s.miss) :
    exec s (.getCached k n) = (s, .notFound) := by simp [exec, h]

theorem exec_getCached_hit {s : St} {k n : String} (h : (⟨k, n⟩ : Ref) ∉ s.miss) :
    exec s (.getCached k n) = exec s (.getObj k n) := by simp [exec, h]

/-- an object that does not exist is not in the cache either -/
theorem exec_getCached_none {s : St} {k n : String} (h : findObj s.objs k n = none) :
    exec s (.getCached k n) = (s, .notFound) := by
  by_cases hm : (⟨k, n⟩ : Ref) ∈ s.miss
  · exact exec_getCached_miss hm
  · rw [exec_getCached_hit hm, exec_getObj_none h]

theorem exec_getCached_some {s : St} {k n : String} {o : CObj} (h : findObj s.objs k n = some o)
    (hm : (⟨k, n⟩ : Ref) ∉ s.miss) : exec s (.getCached k n) = (s, .found o) := by
  rw [exec_getCached_hit hm, exec_getObj_some h]

/-- a cached read answers NotFound, or the object the store holds -/
theorem exec_getCached_resp (s : St) (k n : String) :
    exec s (.getCached k n) = (s, .notFound) ∨
    ∃ o, findObj s.objs k n = some o ∧ exec s (.getCached k n) = (s, .found o) := by
  cases hf : findObj s.objs k n with
  | none => exact Or.inl (exec_getCached_none hf)
  | some o =>
    by_cases hm : (⟨k, n⟩ : Ref) ∈ s.miss
    · exact Or.inl (exec_getCached_miss hm)
    · exact Or.inr ⟨o, rfl, exec_getCached_some hf hm⟩

/-- no request writes the set of cache misses -/
theorem exec_miss (s : St) (r : Req) : (exec s r).1.miss = s.miss := by
  cases r <;> simp only [exec] <;> (repeat' split) <;> rfl

/-- the names the generator proposes are not names of objects that exist but are missing from
the cache: then "the cache says the name is free" means the name is free. (The code accepts
this risk knowingly: `names.nameGenerator.GenerateName` probes a random 5-character suffix with
the cached client, "names can become unavailable shortly after".) -/
def FreshAvoids (miss : List Ref) (fresh : List String) : Prop := ∀ x ∈ fresh, ∀ r ∈ miss, r.name ≠ x

theorem FreshAvoids.tail {miss : List Ref} {x : String} {xs : List String} (h : FreshAvoids miss (x :: xs)) :
    FreshAvoids miss xs := fun y hy => h y (List.mem_cons_of_mem _ hy)

theorem FreshAvoids.head {miss : List Ref} {x : String} {xs : List String} (h : FreshAvoids miss (x :: xs))
    (k : String) : (⟨k, x⟩ : Ref) ∉ miss := fun hm => h x (List.mem_cons_self ..) _ hm rfl

theorem FreshAvoids.nil (fresh : List String) : FreshAvoids [] fresh := fun _ _ _ h => by cases h

/-! ### observed-resource map -/

theorem obsLookup_insert_self (obs : Obs) (n : String) (o : CObj) : obsLookup (obsInsert obs n o) n = some o := by
  induction obs with
  | nil => simp [obsInsert, obsLookup]
  | cons p ps ih =>
    unfold obsInsert
    split
    · simp [obsLookup]
    · rename_i h
      simp only [obsLookup, List.find?, h, decide_false] at ih ⊢
      exact ih

theorem obsLookup_insert_ne (obs : Obs) (n a : String) (o : CObj) (h : a ≠ n) :
    obsLookup (obsInsert obs n o) a = obsLookup obs a := by
  induction obs with
  | nil => simp [obsInsert, obsLookup, Ne.symm h]
  | cons p ps ih =>
    unfold obsInsert
    split
    · rename_i hp
      have : ¬ p.1 = a := fun e => h (e ▸ hp)
      simp [obsLookup, List.find?, Ne.symm h, this]
    · simp only [obsLookup, List.find?] at ih ⊢
      split
      · rfl
      · exact ih

theorem mem_of_obsLookup {obs : Obs} {a : String} {o : CObj} (h : obsLookup obs a = some o) : (a, o) ∈ obs := by
  unfold obsLookup at h
  cases hf : obs.find? (fun p => decide (p.1 = a)) with
  | none => simp [hf] at h
  | some p =>
    simp [hf] at h
    have hm := List.mem_of_find?_eq_some hf
    have hp := List.find?_some hf
    simp at hp
    obtain ⟨p1, p2⟩ := p
    simp at hp h
    subst hp; subst h
    exact hm

/-- what the observe loop has established after processing the references in `done` -/
def ObsOKp (s : St) (done : List Ref) (obs : Obs) : Prop :=
  (∀ o ∈ s.objs, key o ∈ done → o.ctrl ≠ .other → o.annot ≠ "" ∧ obsLookup obs o.annot = some o) ∧
  (∀ a o, obsLookup obs a = some o → o ∈ s.objs ∧ key o ∈ s.refs ∧ o.ctrl ≠ .other ∧ o.annot = a ∧ a ≠ "") ∧
  (∀ p ∈ obs, p.2 ∈ s.objs ∧ p.2.ctrl ≠ .other ∧ p.2.annot = p.1 ∧ key p.2 ∈ s.refs)

theorem obs_elems_ok {s : St} {done : List Ref} {obs : Obs} (h : ObsOKp s done obs) :
    ∀ p ∈ obs, p.2 ∈ s.objs ∧ p.2.ctrl ≠ .other := fun p hp => ⟨(h.2.2 p hp).1, (h.2.2 p hp).2.1⟩

theorem mem_obsInsert {obs : Obs} {n : String} {o : CObj} {p : String × CObj} (h : p ∈ obsInsert obs n o) :
    p ∈ obs ∨ p = (n, o) := by
  induction obs with
  | nil => simp [obsInsert] at h; exact Or.inr h
  | cons q qs ih =>
    unfold obsInsert at h
    split at h
    · rcases List.mem_cons.mp h with rfl | h'
      · exact Or.inr rfl
      · exact Or.inl (List.mem_cons_of_mem _ h')
    · rcases List.mem_cons.mp h with rfl | h'
      · exact Or.inl (List.mem_cons_self ..)
      · rcases ih h' with h'' | h''
        · exact Or.inl (List.mem_cons_of_mem _ h'')
        · exact Or.inr h''

theorem obsOKp_skip {s : St} {done : List Ref} {obs : Obs} (r : Ref) (h : ObsOKp s done obs)
    (hr : ∀ o ∈ s.objs, key o = r → o.ctrl = .other) : ObsOKp s (done ++ [r]) obs := by
  refine ⟨?_, h.2⟩
  intro o ho hk hc
  rcases List.mem_append.mp hk with hk | hk
  · exact h.1 o ho hk hc
  · simp at hk; exact absurd (hr o ho hk) hc

theorem obsOKp_insert {s : St} (hg : Good s) {done : List Ref} {obs : Obs} (r : Ref) (o : CObj)
    (h : ObsOKp s done obs) (hd : ∀ x ∈ done, x ∈ s.refs) (hr : r ∈ s.refs)
    (ho : o ∈ s.objs) (hk : key o = r) (hc : o.ctrl ≠ .other) (ha : o.annot ≠ "") :
    ObsOKp s (done ++ [r]) (obsInsert obs o.annot o) := by
  refine ⟨?_, ?_⟩
  · intro o2 ho2 hk2 hc2
    rcases List.mem_append.mp hk2 with hk2 | hk2
    · obtain ⟨hne, hl⟩ := h.1 o2 ho2 hk2 hc2
      refine ⟨hne, ?_⟩
      by_cases he : o2.annot = o.annot
      · have : o2 = o := hg.obsUniq o2 ho2 o ho (hd _ hk2) (hk ▸ hr) he hne
        subst this
        exact obsLookup_insert_self _ _ _
      · rw [obsLookup_insert_ne _ _ _ _ he]; exact hl
    · simp at hk2
      have : o2 = o := eq_of_key_eq hg.nodup ho2 ho (hk2.trans hk.symm)
      subst this
      exact ⟨ha, obsLookup_insert_self _ _ _⟩
  · refine ⟨?_, ?_⟩
    · intro a o2 hl
      by_cases he : a = o.annot
      · subst he
        rw [obsLookup_insert_self] at hl
        cases hl
        exact ⟨ho, hk ▸ hr, hc, rfl, ha⟩
      · rw [obsLookup_insert_ne _ _ _ _ he] at hl
        exact h.2.1 a o2 hl
    · intro p hp
      rcases mem_obsInsert hp with hp | rfl
      · exact h.2.2 p hp
      · exact ⟨ho, hc, rfl, hk ▸ hr⟩

theorem safe_observeFn {s : St} (hg : Good s) (lrv : Nat) (k : Obs → P) :
    ∀ (rs done : List Ref) (acc : Obs), (∀ r ∈ rs, r ∈ s.refs) → (∀ r ∈ done, r ∈ s.refs) → ObsOKp s done acc →
      (∀ obs, ObsOKp s (done ++ rs) obs → Safe sem Good (k obs) s) →
      Safe sem Good (observeFn lrv rs acc k) s := by
  intro rs
  induction rs with
  | nil =>
    intro done acc _ _ hacc hk
    simp only [observeFn]
    exact hk acc (by simpa using hacc)
  | cons r rs ih =>
    intro done acc hrs hdone hacc hk
    have hr : r ∈ s.refs := hrs r (List.mem_cons_self ..)
    have hrs' : ∀ x ∈ rs, x ∈ s.refs := fun x hx => hrs x (List.mem_cons_of_mem _ hx)
    have hdone' : ∀ x ∈ done ++ [r], x ∈ s.refs := by
      intro x hx
      rcases List.mem_append.mp hx with hx | hx
      · exact hdone x hx
      · simp at hx; exact hx ▸ hr
    have hk' : ∀ obs, ObsOKp s ((done ++ [r]) ++ rs) obs → Safe sem Good (k obs) s := by
      intro obs h; exact hk obs (by simpa using h)
    simp only [observeFn]
    by_cases hn : r.name = ""
    · simp only [hn, if_true]
      apply ih (done ++ [r]) acc hrs' hdone' _ hk'
      apply obsOKp_skip r hacc
      intro o ho hko
      have := hg.named o ho
      rw [← hko] at hn
      exact absurd hn this
    · simp only [hn, if_false]
      -- the continuation after an object has been read
      have hfound : ∀ o, findObj s.objs r.kind r.name = some o →
          Safe sem Good (if o.ctrl = .other then observeFn lrv rs acc k
            else if o.annot = "" then onError lrv
            else observeFn lrv rs (obsInsert acc o.annot o) k) s := by
        intro o hf
        obtain ⟨hm, hk1, hk2⟩ := findObj_some hf
        have hko : key o = r := by cases r; simp_all [key]
        by_cases hc : o.ctrl = .other
        · simp only [hc, if_true]
          apply ih (done ++ [r]) acc hrs' hdone' _ hk'
          apply obsOKp_skip r hacc
          intro o2 ho2 hk2'
          have : o2 = o := eq_of_key_eq hg.nodup ho2 hm (hk2'.trans hko.symm)
          exact this ▸ hc
        · simp only [hc, if_false]
          by_cases ha : o.annot = ""
          · simp only [ha, if_true]; exact safe_onError hg _
          · simp only [ha, if_false]
            exact ih (done ++ [r]) _ hrs' hdone' (obsOKp_insert hg r o hacc hdone hr hm hko hc ha) hk'
      cases hf : findObj s.objs r.kind r.name with
      | some o =>
        by_cases hm : (⟨r.kind, r.name⟩ : Ref) ∈ s.miss
        · -- missing from the cache: the live read finds it
          simp only [Safe, sem, exec_getCached_miss hm, exec_getObj_some hf, isRead, if_true]
          exact ⟨hg, ⟨hg, hfound o hf, safe_onError hg _, safe_onError hg _⟩, safe_onError hg _, safe_onError hg _⟩
        · simp only [Safe, sem, exec_getCached_some hf hm, isRead, if_true]
          exact ⟨hg, hfound o hf, safe_onError hg _, safe_onError hg _⟩
      | none =>
        have hnone : Safe sem Good (observeFn lrv rs acc k) s := by
          apply ih (done ++ [r]) acc hrs' hdone' _ hk'
          apply obsOKp_skip r hacc
          intro o ho hko
          exact absurd ((key_eq_iff o r.kind r.name).mp (by cases r; simpa [key] using hko)) (findObj_none hf o ho)
        simp only [Safe, sem, exec_getCached_none hf, exec_getObj_none hf, isRead, if_true]
        exact ⟨hg, ⟨hg, hnone, safe_onError hg _, safe_onError hg _⟩, safe_onError hg _, safe_onError hg _⟩


/-! ### render loop -/

/-- where the name of a rendered desired resource comes from -/
def Entry (s : St) (obs : Obs) (n : Named) : Prop :=
  if n.gen then obsLookup obs n.d.rname = none ∧ findObj s.objs n.d.kind n.name = none ∧ n.name ≠ ""
  else ∃ o, obsLookup obs n.d.rname = some o ∧ n.name = o.name

structure NamedOK (s : St) (obs : Obs) (ds : List Desired) (named : List Named) : Prop where
  entry : ∀ n ∈ named, Entry s obs n
  fromDs : ∀ n ∈ named, n.d ∈ ds
  cover : ∀ d ∈ ds, ∃ n ∈ named, n.d = d
  nodup : (named.map (·.d.rname)).Nodup

theorem safe_renderFn {s : St} (hg : Good s) (lrv : Nat) (obs : Obs) (ds0 : List Desired) (k : List Named → P)
    (hk : ∀ named, NamedOK s obs ds0 named → Safe sem Good (k named) s) :
    ∀ (ds : List Desired) (fresh : List String) (acc : List Named),
      (∀ x ∈ fresh, x ≠ "") → FreshAvoids s.miss fresh →
      (∀ n ∈ acc, Entry s obs n) → (∀ n ∈ acc, n.d ∈ ds0) → (∀ d ∈ ds, d ∈ ds0) →
      (∀ d ∈ ds0, d ∈ ds ∨ ∃ n ∈ acc, n.d = d) →
      (ds.map (·.rname) ++ acc.map (·.d.rname)).Nodup →
      Safe sem Good (renderFn lrv obs ds fresh acc k) s := by
  intro ds
  induction ds with
  | nil =>
    intro fresh acc _ _ he hf _ hc hn
    simp only [renderFn]
    apply hk
    refine ⟨?_, ?_, ?_, ?_⟩
    · intro n hn'; exact he n (List.mem_reverse.mp hn')
    · intro n hn'; exact hf n (List.mem_reverse.mp hn')
    · intro d hd
      rcases hc d hd with h | ⟨n, hn', e⟩
      · cases h
      · exact ⟨n, List.mem_reverse.mpr hn', e⟩
    · simp only [List.map_nil, List.nil_append] at hn
      rw [List.map_reverse]; exact (List.reverse_perm _).nodup_iff.mpr hn
  | cons d ds ih =>
    intro fresh acc hfr hfm he hf hds hc hn
    have hds' : ∀ x ∈ ds, x ∈ ds0 := fun x hx => hds x (List.mem_cons_of_mem _ hx)
    have hd0 : d ∈ ds0 := hds d (List.mem_cons_self ..)
    -- moving `d` from the todo list to the accumulator keeps the bookkeeping
    have step : ∀ (nm : Named), nm.d = d → Entry s obs nm → ∀ fresh', (∀ x ∈ fresh', x ≠ "") →
        FreshAvoids s.miss fresh' →
        Safe sem Good (renderFn lrv obs ds fresh' (nm :: acc) k) s := by
      intro nm hnd hent fresh' hfr' hfm'
      apply ih fresh' (nm :: acc) hfr' hfm'
      · intro n hn'; rcases List.mem_cons.mp hn' with rfl | h; exact hent; exact he n h
      · intro n hn'; rcases List.mem_cons.mp hn' with rfl | h; exact hnd ▸ hd0; exact hf n h
      · exact hds'
      · intro x hx
        rcases hc x hx with h | ⟨n, hn', e⟩
        · rcases List.mem_cons.mp h with rfl | h
          · exact Or.inr ⟨nm, List.mem_cons_self .., hnd⟩
          · exact Or.inl h
        · exact Or.inr ⟨n, List.mem_cons_of_mem _ hn', e⟩
      · have : (ds.map (·.rname) ++ (nm :: acc).map (·.d.rname)).Perm ((d :: ds).map (·.rname) ++ acc.map (·.d.rname)) := by
          simp only [List.map_cons, hnd, List.cons_append]
          exact List.perm_middle
        exact this.nodup_iff.mpr hn
    simp only [renderFn]
    cases hl : obsLookup obs d.rname with
    | some o =>
      simp only []
      exact step ⟨d, o.name, false⟩ rfl (by simp [Entry, hl]) fresh hfr hfm
    | none =>
      simp only []
      cases fresh with
      | nil => simp only []; exact safe_onError hg _
      | cons nm fresh' =>
        simp only []
        have hfr' : ∀ x ∈ fresh', x ≠ "" := fun x hx => hfr x (List.mem_cons_of_mem _ hx)
        -- the proposed name is not the name of an object missing from the cache: the probe is exact
        have hm : (⟨d.kind, nm⟩ : Ref) ∉ s.miss := hfm.head d.kind
        cases hfo : findObj s.objs d.kind nm with
        | some o =>
          simp only [Safe, sem, exec_getCached_some hfo hm, isRead, if_true]
          exact ⟨hg, safe_onError hg _, safe_onError hg _, safe_onError hg _⟩
        | none =>
          simp only [Safe, sem, exec_getCached_none hfo, isRead, if_true]
          refine ⟨hg, ?_, safe_onError hg _, safe_onError hg _⟩
          exact step ⟨d, nm, true⟩ rfl (by simp [Entry, hl, hfo, hfr nm (List.mem_cons_self ..)]) fresh' hfr' hfm.tail

/-! ### garbage-collection loop -/

theorem safe_gcFn (lrv : Nat) (k : P) :
    ∀ (os : List CObj) (s : St), Good s →
      (∀ o ∈ os, ∀ x ∈ s.objs, key x = key o → x.ctrl ≠ .other) →
      (∀ s', Shrunk s s' → (∀ o ∈ os, ∀ o' ∈ s'.objs, key o' = key o → o'.deleting = true) → Safe sem Good k s') →
      Safe sem Good (gcFn lrv os k) s := by
  intro os
  induction os with
  | nil =>
    intro s hg _ hk
    simp only [gcFn]
    exact hk s (Shrunk.rfl' hg) (by intro o ho; cases ho)
  | cons o os ih =>
    intro s hg hnf hk
    simp only [gcFn]
    apply safe_wcall hg
    · rw [exec_gcUpdate_state]; exact hg
    · intro _ _
      rw [exec_gcUpdate_state]
      obtain ⟨hsh, hdead⟩ := exec_delete_shrunk s hg.nodup o.kind o.name
        (by intro x hx hkx; exact hnf o (List.mem_cons_self ..) x hx (by simpa [key] using hkx))
      have hg1 := hsh.good hg
      apply safe_wcall hg
      · exact hg1
      · intro _ _
        apply ih _ hg1
        · intro o' ho' x hx hkx
          obtain ⟨x0, hx0, hk0, _, hc0, _⟩ := hsh.sub x hx
          rw [hc0]
          exact hnf o' (List.mem_cons_of_mem _ ho') x0 hx0 (hk0 ▸ hkx)
        intro s' hs' hd'
        apply hk s' (hsh.trans hs')
        intro x hx
        rcases List.mem_cons.mp hx with rfl | hx
        · exact hs'.dead_persist (key x) (by intro o' ho' hk'; exact hdead o' ho' (by simpa [key] using hk'))
        · exact hd' x hx

/-! ### after the references are persisted: the apply loop -/

/-- an entry of the freshly persisted reference list: (composition resource name, reference) -/
abbrev Ent := String × Ref

/-- invariant between the refs write and the end of the apply loop -/
structure Mid (s : St) (ents : List Ent) : Prop where
  nodup : (s.objs.map key).Nodup
  namedObjs : ∀ o ∈ s.objs, o.name ≠ ""
  refs : ∀ r, r ∈ s.refs ↔ ∃ e ∈ ents, r = e.2
  noLeak : ∀ o ∈ s.objs, o.ctrl = .xr → o.deleting = false → key o ∈ s.refs
  tagged : ∀ o ∈ s.objs, key o ∈ s.refs → ∃ e ∈ ents, key o = e.2 ∧ o.annot = e.1
  inj : ∀ e1 ∈ ents, ∀ e2 ∈ ents, e1.1 = e2.1 → e1 = e2
  frame : ∀ o ∈ s.foreign0, o.ctrl = .other ∧ o ∈ s.objs

theorem Mid.good {s : St} {ents : List Ent} (h : Mid s ents) : Good s := by
  refine ⟨h.nodup, h.namedObjs, h.noLeak, ?_, h.frame⟩
  intro o1 ho1 o2 ho2 hk1 hk2 ha _
  obtain ⟨n1, hn1, e1, a1⟩ := h.tagged o1 ho1 hk1
  obtain ⟨n2, hn2, e2, a2⟩ := h.tagged o2 ho2 hk2
  have : n1 = n2 := h.inj n1 hn1 n2 hn2 (by rw [← a1, ← a2]; exact ha)
  subst this
  exact eq_of_key_eq h.nodup ho1 ho2 (e1.trans e2.symm)

theorem Mid.congr {s s' : St} {ents : List Ent} (h : Mid s ents) (hr : s'.refs = s.refs) (ho : s'.objs = s.objs)
    (hf : s'.foreign0 = s.foreign0) : Mid s' ents := by
  refine ⟨ho ▸ h.nodup, ho ▸ h.namedObjs, ?_, ?_, ?_, h.inj, ?_⟩
  · rw [hr]; exact h.refs
  · rw [hr, ho]; exact h.noLeak
  · rw [hr, ho]; exact h.tagged
  · rw [hf, ho]; exact h.frame

/-- writing (creating or overwriting) the object an entry refers to, with the entry's
annotation and the XR as controller, keeps the invariant -/
theorem mid_write {s : St} {ents : List Ent} (h : Mid s ents) (e : Ent) (he : e ∈ ents) (hne : e.2.name ≠ "")
    (f : CObj → CObj) (hfk : ∀ o, key (f o) = key o) (hfa : ∀ o, (f o).annot = e.1)
    (newObj : CObj) (hnk : key newObj = e.2) (hna : newObj.annot = e.1)
    (hnf : ∀ o, findObj s.objs e.2.kind e.2.name = some o → o.ctrl ≠ .other) :
    Mid { s with objs := match findObj s.objs e.2.kind e.2.name with
                          | some _ => mapObj s.objs e.2.kind e.2.name f
                          | none => s.objs ++ [newObj] } ents := by
  have hkr : e.2 ∈ s.refs := (h.refs _).mpr ⟨e, he, rfl⟩
  cases hf : findObj s.objs e.2.kind e.2.name with
  | none =>
    simp only []
    have hnew : ∀ o ∈ s.objs, key o ≠ e.2 := by
      intro o ho hk
      exact findObj_none hf o ho ((key_eq_iff _ _ _).mp (by rw [hk]))
    refine ⟨?_, ?_, h.refs, ?_, ?_, h.inj, fun o ho => ⟨(h.frame o ho).1, List.mem_append_left _ (h.frame o ho).2⟩⟩
    · simp only [List.map_append, List.map_cons, List.map_nil]
      apply List.nodup_append.mpr
      refine ⟨h.nodup, by simp, ?_⟩
      intro a ha b hb
      simp only [List.mem_singleton] at hb
      obtain ⟨o, ho, rfl⟩ := List.mem_map.mp ha
      subst hb
      rw [hnk]
      exact hnew o ho
    · intro o ho
      rcases List.mem_append.mp ho with ho | ho
      · exact h.namedObjs o ho
      · simp at ho; subst ho
        have : o.name = e.2.name := by have := congrArg Ref.name hnk; simpa [key] using this
        rw [this]; exact hne
    · intro o ho hc hd
      rcases List.mem_append.mp ho with ho | ho
      · exact h.noLeak o ho hc hd
      · simp at ho; subst ho; show key o ∈ s.refs; rw [hnk]; exact hkr
    · intro o ho hk
      rcases List.mem_append.mp ho with ho | ho
      · exact h.tagged o ho hk
      · simp at ho; subst ho; exact ⟨e, he, hnk, hna⟩
  | some o0 =>
    simp only []
    have hframe : ∀ o ∈ s.foreign0, o.ctrl = .other ∧ o ∈ mapObj s.objs e.2.kind e.2.name f := by
      intro o ho
      obtain ⟨hc, hm⟩ := h.frame o ho
      refine ⟨hc, mem_mapObj.mpr ⟨o, hm, ?_⟩⟩
      have hne : ¬ (o.kind = e.2.kind ∧ o.name = e.2.name) := by
        intro hk
        obtain ⟨hm0, hk0, hn0⟩ := findObj_some hf
        have : o = o0 := eq_of_key_eq h.nodup hm hm0 (by simp [key, hk.1, hk.2, hk0, hn0])
        exact hnf o0 hf (this ▸ hc)
      simp [hne]
    refine ⟨?_, ?_, h.refs, ?_, ?_, h.inj, hframe⟩
    · show ((mapObj s.objs _ _ _).map key).Nodup
      rw [map_key_mapObj hfk]
      exact h.nodup
    · intro o ho
      obtain ⟨o1, ho1, rfl⟩ := mem_mapObj.mp ho
      split
      · have := congrArg Ref.name (hfk o1)
        simp only [key] at this
        rw [this]; exact h.namedObjs o1 ho1
      · exact h.namedObjs o1 ho1
    · intro o ho hc hd
      obtain ⟨o1, ho1, rfl⟩ := mem_mapObj.mp ho
      by_cases hm : o1.kind = e.2.kind ∧ o1.name = e.2.name
      · simp only [hm, and_self, if_true]
        show key (f o1) ∈ s.refs
        rw [hfk]
        have : key o1 = e.2 := by cases h2 : e.2; simp_all [key]
        rw [this]; exact hkr
      · simp only [hm, if_false] at hc hd ⊢
        exact h.noLeak o1 ho1 hc hd
    · intro o ho hk
      obtain ⟨o1, ho1, rfl⟩ := mem_mapObj.mp ho
      by_cases hm : o1.kind = e.2.kind ∧ o1.name = e.2.name
      · simp only [hm, and_self, if_true]
        have : key o1 = e.2 := by cases h2 : e.2; simp_all [key]
        exact ⟨e, he, by rw [hfk, this], hfa o1⟩
      · simp only [hm, if_false] at hk ⊢
        exact h.tagged o1 ho1 hk

theorem mid_apply {s : St} {ents : List Ent} (h : Mid s ents) (e : Ent) (he : e ∈ ents) (hne : e.2.name ≠ "") (c : Nat) :
    Mid (exec s (.apply e.2.kind e.2.name e.1 c)).1 ents := by
  by_cases hinv : c = invalidContent
  · simp only [exec, hinv, if_true]; exact h
  have hw := mid_write h e he hne (fun o => { o with annot := e.1, ctrl := .xr, content := c, ssa := true })
    (fun _ => rfl) (fun _ => rfl) ⟨e.2.kind, e.2.name, e.1, .xr, false, false, c, true⟩ rfl rfl
  cases hf : findObj s.objs e.2.kind e.2.name with
  | none => simp only [exec, hinv, if_false, hf]; simpa [hf] using hw (by intro o ho; rw [hf] at ho; cases ho)
  | some o0 =>
    by_cases hc0 : o0.ctrl = .other
    · simp only [exec, hinv, if_false, hf, hc0, if_true]; exact h
    · simp only [exec, hinv, if_false, hf, hc0]
      simpa [hf] using hw (by intro o ho; rw [hf] at ho; cases ho; exact hc0)

theorem safe_applyFn (lrv : Nat) (named : List Named) (ents : List Ent) (k : Bool → P) :
    ∀ (l : List Named) (s : St) (b : Bool), Mid s ents →
      (∀ e ∈ l, (e.d.rname, nkey e) ∈ ents ∧ e.name ≠ "") →
      (∀ s' b', Mid s' ents → Safe sem Good (k b') s') →
      Safe sem Good (applyFn lrv l b k) s := by
  intro l
  induction l with
  | nil => intro s b hm _ hk; simp only [applyFn]; exact hk s b hm
  | cons e l ih =>
    intro s b hm hl hk
    simp only [applyFn]
    obtain ⟨hee, hen⟩ := hl e (List.mem_cons_self ..)
    have hm1 := mid_apply hm (e.d.rname, nkey e) hee hen e.d.content
    apply safe_wcall hm.good
    · exact hm1.good
    · intro _ _
      have hl' : ∀ x ∈ l, (x.d.rname, nkey x) ∈ ents ∧ x.name ≠ "" := fun x hx => hl x (List.mem_cons_of_mem _ hx)
      split
      · exact ih _ false hm1 hl' hk
      · exact ih _ b hm1 hl' hk

/-! ### assembling the function composer -/

/-- hypotheses on the function pipeline's output: it is a map (distinct resource names)
and a desired resource name keeps its kind (the property's own hypothesis H1) -/
structure OutOK (out : Obs → FnOut) : Prop where
  nodup : ∀ obs ds, out obs = .desired ds → (ds.map (·.rname)).Nodup
  kind : ∀ obs ds, out obs = .desired ds → ∀ d ∈ ds, ∀ o, obsLookup obs d.rname = some o → o.kind = d.kind

/-- hypotheses on the nondeterministic choices: generated names are non-empty, and the
two loop orders are enumerations of the map they iterate -/
structure ChOK (ch : Choices) : Prop where
  fresh : ∀ x ∈ ch.fresh, x ≠ ""
  gc : ∀ l x, x ∈ ch.gcOrder l ↔ x ∈ l
  apply : ∀ l x, x ∈ ch.applyOrder l ↔ x ∈ l

def entsOf (named : List Named) : List Ent := named.map fun n => (n.d.rname, nkey n)

theorem mem_refsOf (named : List Named) (r : Ref) : r ∈ refsOf named ↔ ∃ e ∈ entsOf named, r = e.2 := by
  simp only [refsOf, entsOf, List.mem_mergeSort, List.mem_map]
  constructor
  · rintro ⟨n, hn, rfl⟩; exact ⟨_, ⟨n, hn, rfl⟩, rfl⟩
  · rintro ⟨_, ⟨n, hn, rfl⟩, rfl⟩; exact ⟨n, hn, rfl⟩

theorem exec_patchRefs_refs (s : St) (v : String) (r : List Ref) : (exec s (.patchRefs v r)).1.refs = r := by
  simp only [exec]; split
  · rename_i h; exact h.1.symm
  · rfl

theorem exec_patchRefs_objs (s : St) (v : String) (r : List Ref) : (exec s (.patchRefs v r)).1.objs = s.objs := by
  simp only [exec]; split <;> rfl

theorem exec_patchRefs_foreign0 (s : St) (v : String) (r : List Ref) : (exec s (.patchRefs v r)).1.foreign0 = s.foreign0 := by
  simp only [exec]; split <;> rfl

/-- The heart of C01: when the new references are persisted, every live composed
resource controlled by the XR is among them. -/
theorem mid_after_patch {s0 s3 : St} (hg : Good s0) {obs : Obs} (hobs : ObsOKp s0 s0.refs obs)
    {ds : List Desired} {named : List Named} (hn : NamedOK s0 obs ds named)
    (hkind : ∀ d ∈ ds, ∀ o, obsLookup obs d.rname = some o → o.kind = d.kind)
    (hsh : Shrunk s0 s3) (ver : String)
    (hdead : ∀ o ∈ (obs.filter fun p => !(ds.any (·.rname = p.1))).map (·.2), ∀ o' ∈ s3.objs, key o' = key o → o'.deleting = true) :
    Mid (exec s3 (.patchRefs ver (refsOf named))).1 (entsOf named) := by
  have hg3 := hsh.good hg
  -- a rendered entry that was inherited points at the observed object it was inherited from
  have hinh : ∀ n ∈ named, n.gen = false → ∃ o ∈ s0.objs, obsLookup obs n.d.rname = some o ∧ key o = nkey n ∧ o.annot = n.d.rname := by
    intro n hnm hgen
    have he := hn.entry n hnm
    simp only [Entry, hgen] at he
    obtain ⟨o, hl, hname⟩ := he
    obtain ⟨hmem, _, _, hann, _⟩ := hobs.2.1 _ _ hl
    have hk := hkind n.d (hn.fromDs n hnm) o hl
    exact ⟨o, hmem, hl, by simp [key, nkey, hk, hname], hann⟩
  refine ⟨?_, ?_, ?_, ?_, ?_, ?_, ?_⟩
  rotate_right
  · rw [exec_patchRefs_objs, exec_patchRefs_foreign0]; exact hg3.frame
  · rw [exec_patchRefs_objs]; exact hg3.nodup
  · rw [exec_patchRefs_objs]; exact hg3.named
  · intro r; rw [exec_patchRefs_refs]; exact mem_refsOf named r
  · -- noLeak
    rw [exec_patchRefs_objs, exec_patchRefs_refs]
    intro o' ho' hc hd
    obtain ⟨o, ho, hk, _, _, he⟩ := hsh.sub o' ho'
    have e := he hd
    subst e
    have hkr : key o' ∈ s0.refs := hg.noLeak o' ho hc hd
    have hcne : o'.ctrl ≠ .other := by rw [hc]; decide
    obtain ⟨hane, hl⟩ := hobs.1 o' ho hkr hcne
    by_cases hdes : ds.any (·.rname = o'.annot) = true
    · obtain ⟨d, hd', hdn⟩ := List.any_eq_true.mp hdes
      simp only [decide_eq_true_eq] at hdn
      obtain ⟨n, hnm, hnd⟩ := hn.cover d hd'
      cases hgen : n.gen with
      | true =>
        have he := hn.entry n hnm
        simp only [Entry, hgen, if_true] at he
        rw [hnd, hdn, hl] at he
        exact absurd he.1 (by simp)
      | false =>
        obtain ⟨o2, _, hl2, hk2, _⟩ := hinh n hnm hgen
        rw [hnd, hdn, hl] at hl2
        cases hl2
        rw [hk2]
        exact (mem_refsOf named _).mpr ⟨_, List.mem_map.mpr ⟨n, hnm, rfl⟩, rfl⟩
    · -- not desired: it was garbage collected, so it cannot be live
      have hmem : o' ∈ (obs.filter fun p => !(ds.any (·.rname = p.1))).map (·.2) := by
        apply List.mem_map.mpr
        refine ⟨(o'.annot, o'), ?_, rfl⟩
        apply List.mem_filter.mpr
        refine ⟨mem_of_obsLookup hl, ?_⟩
        simp only [Bool.not_eq_true] at hdes
        simp [hdes]
      have := hdead o' hmem o' ho' rfl
      rw [hd] at this; cases this
  · -- tagged
    rw [exec_patchRefs_objs, exec_patchRefs_refs]
    intro o' ho' hk'
    obtain ⟨e, hem, hkn⟩ := (mem_refsOf named _).mp hk'
    obtain ⟨n, hnm, rfl⟩ := List.mem_map.mp hem
    simp only at hkn
    obtain ⟨o, ho, hk, han, _, _⟩ := hsh.sub o' ho'
    refine ⟨_, hem, hkn, ?_⟩
    cases hgen : n.gen with
    | true =>
      have he := hn.entry n hnm
      simp only [Entry, hgen, if_true] at he
      have : key o = ⟨n.d.kind, n.name⟩ := by rw [← hk, hkn]; rfl
      exact absurd ((key_eq_iff _ _ _).mp this) (findObj_none he.2.1 o ho)
    | false =>
      obtain ⟨o2, ho2, _, hk2, ha2⟩ := hinh n hnm hgen
      have : o = o2 := eq_of_key_eq hg.nodup ho ho2 (by rw [← hk, hkn, hk2])
      subst this
      rw [han, ha2]
  · intro e1 h1 e2 h2 he
    obtain ⟨n1, hn1, rfl⟩ := List.mem_map.mp h1
    obtain ⟨n2, hn2, rfl⟩ := List.mem_map.mp h2
    simp only at he
    have := eq_of_map_nodup (fun n : Named => n.d.rname) hn.nodup hn1 hn2 he
    rw [this]

theorem named_name_ne {s0 : St} (hg : Good s0) {obs : Obs} (hobs : ObsOKp s0 s0.refs obs)
    {ds : List Desired} {named : List Named} (hn : NamedOK s0 obs ds named) : ∀ n ∈ named, n.name ≠ "" := by
  intro n hnm
  cases hgen : n.gen with
  | true =>
    have he := hn.entry n hnm
    simp only [Entry, hgen, if_true] at he
    exact he.2.2
  | false =>
    have he := hn.entry n hnm
    simp only [Entry, hgen] at he
    obtain ⟨o, hl, hname⟩ := he
    rw [hname]
    exact hg.named o (hobs.2.1 _ _ hl).1

theorem Good.congr {s s' : St} (hg : Good s) (hr : s'.refs = s.refs) (ho : s'.objs = s.objs)
    (hf : s'.foreign0 = s.foreign0) : Good s' := by
  refine ⟨ho ▸ hg.nodup, ho ▸ hg.named, ?_, ?_, ?_⟩
  · rw [hr, ho]; exact hg.noLeak
  · rw [hr, ho]; exact hg.obsUniq
  · rw [hf, ho]; exact hg.frame

theorem exec_statusPatch (s : St) : exec s .statusPatch = (s, .okRv s.xrRv) := by simp [exec]

theorem safe_composeFn {s : St} (hg : Good s) (lrv : Nat) (out : Obs → FnOut) (ch : Choices)
    (ho : OutOK out) (hc : ChOK ch) (hfm : FreshAvoids s.miss ch.fresh) :
    Safe sem Good (composeFn lrv s.refs out ch) s := by
  unfold composeFn
  apply safe_observeFn hg lrv _ s.refs [] [] (fun r h => h) (by intro r h; cases h)
  · refine ⟨?_, ?_, ?_⟩
    · intro o _ h; cases h
    · intro a o h; simp [obsLookup] at h
    · intro p h; cases h
  · intro obs hobs
    simp only [List.nil_append] at hobs
    cases hout : out obs with
    | failed => exact safe_onError hg _
    | desired ds =>
      simp only []
      apply safe_renderFn hg lrv obs ds _ _ ds ch.fresh [] hc.fresh hfm (by intro n h; cases h) (by intro n h; cases h)
        (fun d h => h) (fun d h => Or.inl h) (by simpa using ho.nodup obs ds hout)
      intro named hnamed
      apply safe_gcFn lrv _ _ s hg
      · -- garbage-collection targets are observed objects, and observed objects are not foreign
        intro o ho x hx hkx
        have ho' := (hc.gc _ _).mp ho
        obtain ⟨⟨a, o2⟩, hmem, rfl⟩ := List.mem_map.mp ho'
        obtain ⟨hm2, hc2⟩ := obs_elems_ok hobs (a, o2) (List.mem_filter.mp hmem).1
        have : x = o2 := eq_of_key_eq hg.nodup hx hm2 hkx
        exact this ▸ hc2
      intro s3 hsh hdead
      have hmid := mid_after_patch hg hobs hnamed (ho.kind obs ds hout) hsh ch.ver
        (by intro o ho' o' ho'' hk; exact hdead o ((hc.gc _ _).mpr ho') o' ho'' hk)
      apply safe_wcall (hsh.good hg) _ _ _ hmid.good
      intro _ _
      apply safe_applyFn lrv named _ _ _ _ true hmid
      · intro e he
        have hen := (hc.apply _ _).mp he
        exact ⟨List.mem_map.mpr ⟨e, hen, rfl⟩, named_name_ne hg hobs hnamed e hen⟩
      intro s5 b hm5
      have hg5 := hm5.good
      simp only [Safe, sem, exec_statusPatch, isRead]
      exact ⟨hg5, safe_finish hg5 _ _, safe_onErrorO hg5 _, safe_onConflict _⟩

theorem exec_getXR (s : St) : exec s .getXR = (s, .xr s.xrFin s.xrRv s.refs) := by simp [exec]

theorem exec_addFinalizer (s : St) : exec s (.addFinalizer s.xrRv) =
    ({ s with xrFin := true, xrRv := s.xrRv + 1 }, .okRv (s.xrRv + 1)) := by simp [exec]

/-- Reconcile is safe as soon as the composer body is (for every local resourceVersion and
from every good store with the same references and objects). -/
theorem safe_reconcile_of_body {s : St} (hg : Good s) (m : Mode)
    (hbody : ∀ (s' : St) (lrv : Nat), Good s' → s'.refs = s.refs → s'.miss = s.miss →
      Safe sem Good (match m with
        | .fn out ch => composeFn lrv s.refs out ch
        | .pt tmpl fresh ver => composePT lrv s.refs tmpl fresh ver) s') :
    Safe sem Good (reconcile m) s := by
  unfold reconcile
  have hread : sem.errResp .conflict (.addFinalizer s.xrRv) = .conflict := rfl
  have hfail : ∀ r, sem.errResp .fail r = .err := fun _ => rfl
  have hgx : sem.exec s .getXR = (s, .xr s.xrFin s.xrRv s.refs) := exec_getXR s
  have haf : sem.exec s (.addFinalizer s.xrRv) = ({ s with xrFin := true, xrRv := s.xrRv + 1 }, .okRv (s.xrRv + 1)) :=
    exec_addFinalizer s
  have hg1 : Good { s with xrFin := true, xrRv := s.xrRv + 1 } := hg.congr rfl rfl rfl
  have hgetc : sem.errResp .conflict .getXR = .err := rfl
  simp only [Safe, hgx, hfail, hgetc]
  refine ⟨hg, ?_, trivial, trivial⟩
  by_cases hf : s.xrFin = true
  · rw [if_pos hf]
    exact hbody s _ hg rfl rfl
  · rw [if_neg hf]
    simp only [Safe, haf, hfail, hread]
    exact ⟨hg1, hbody _ _ hg1 rfl rfl, safe_onError hg _, safe_onConflict _⟩

theorem safe_reconcile_fn {s : St} (hg : Good s) (out : Obs → FnOut) (ch : Choices)
    (ho : OutOK out) (hc : ChOK ch) (hfm : FreshAvoids s.miss ch.fresh) :
    Safe sem Good (reconcile (.fn out ch)) s := by
  apply safe_reconcile_of_body hg
  intro s' lrv hg' hr hmiss
  simp only []
  rw [← hr]
  exact safe_composeFn hg' lrv out ch ho hc (hmiss ▸ hfm)

/-- the invariant does not mention the cache: any set of cache misses may be put into a good store -/
theorem Good.withMiss {s : St} (hg : Good s) (ms : List Ref) : Good { s with miss := ms } :=
  hg.congr rfl rfl rfl

/-! ### histories in which the cache misses differ from reconcile to reconcile -/

/-- every store visible at some instant of a history of reconciles; each reconcile runs under
its own fault plan, with its own inputs, and with its own set of cache misses (set when the
reconcile starts; controller-local state is lost in between) -/
def reachRounds : List (List Ref × Plan × Mode) → St → List St
  | [], s => [s]
  | (ms, pl, m) :: rest, s =>
    reach sem pl 0 (reconcile m) { s with miss := ms } ++
      reachRounds rest (run sem pl 0 (reconcile m) { s with miss := ms }).1

/-- the store such a history ends in -/
def runRounds : List (List Ref × Plan × Mode) → St → St
  | [], s => s
  | (ms, pl, m) :: rest, s => runRounds rest (run sem pl 0 (reconcile m) { s with miss := ms }).1

theorem runRounds_mem_reachRounds : ∀ (h : List (List Ref × Plan × Mode)) (s : St), runRounds h s ∈ reachRounds h s := by
  intro h
  induction h with
  | nil => intro s; simp [runRounds, reachRounds]
  | cons x rest ih =>
    obtain ⟨ms, pl, m⟩ := x
    intro s
    simp only [runRounds, reachRounds, List.mem_append]
    exact Or.inr (ih _)

theorem reachRounds_inv (Inv : St → Prop) (ok : List Ref → Mode → Prop)
    (hmiss : ∀ s ms, Inv s → Inv { s with miss := ms })
    (hrec : ∀ (s : St) (pl : Plan) (m : Mode), Inv s → ok s.miss m → ∀ s' ∈ reach sem pl 0 (reconcile m) s, Inv s') :
    ∀ (h : List (List Ref × Plan × Mode)), (∀ x ∈ h, ok x.1 x.2.2) → ∀ s, Inv s → ∀ s' ∈ reachRounds h s, Inv s' := by
  intro h
  induction h with
  | nil => intro _ s hs s' hm; simp [reachRounds] at hm; subst hm; exact hs
  | cons x rest ih =>
    obtain ⟨ms, pl, m⟩ := x
    intro hok s hs s' hm
    simp only [reachRounds, List.mem_append] at hm
    have hx : ok ms m := hok _ (List.mem_cons_self ..)
    have h1 := hrec { s with miss := ms } pl m (hmiss s ms hs) hx
    rcases hm with hm | hm
    · exact h1 s' hm
    · exact ih (fun y hy => hok y (List.mem_cons_of_mem _ hy)) _ (h1 _ (run_mem_reach sem pl 0 _ _)) s' hm

end Xp.C01

import Xp.Proofs.C13g
/-
C13 helper lemmas, part h: the IsRunning history property and the collector's clause.
-/
namespace Xp.C13

/-! ### IsRunning agrees with the acknowledged Start/Stop history -/

/-- is `n` running according to the acknowledged Start/Stop events (log is newest first) -/
def runningPer : List Ev → Nat → Bool
  | [], _ => false
  | .startOk n' _ :: rest, n => if n' = n then true else runningPer rest n
  | .stopOk n' _ :: rest, n => if n' = n then false else runningPer rest n
  | .isRunning _ _ :: rest, n => runningPer rest n

/-- every recorded IsRunning answer agrees with the events before it -/
def LogOk : List Ev → Prop
  | [] => True
  | .isRunning n b :: rest => b = runningPer rest n ∧ LogOk rest
  | .startOk _ _ :: rest => LogOk rest
  | .stopOk _ _ :: rest => LogOk rest

structure RunInv (s : Sys) : Prop where
  map : ∀ n : Nat, (aget n s.ctrls).isSome = runningPer s.log n
  log : LogOk s.log

theorem RunInv_init (ops : List Op) : RunInv (init ops) :=
  ⟨fun _ => rfl, trivial⟩

theorem RunInv_step {cfg : Cfg} {s s' : Sys} {i : Nat} {ch : Choice} (hinv : RunInv s)
    (h : step cfg s i ch = some s') : RunInv s' := by
  obtain ⟨t, pc', act, ht, hn, hs⟩ := step_unpack h
  subst hs
  have hf := next_act_cases hn
  cases act
  case nop => exact ⟨hinv.map, hinv.log⟩
  case addReg cid wid h' => exact ⟨hinv.map, hinv.log⟩
  case delReg cid wid reg => exact ⟨hinv.map, hinv.log⟩
  case rmInformer g => exact ⟨hinv.map, hinv.log⟩
  case getInformer g f =>
    obtain ⟨_, _, _, e4, e5⟩ := apply_getInformer_fields g f { s with threads := s.threads.set i { t with pc := pc' } }
    exact ⟨by rw [e4, e5]; exact hinv.map, by rw [e5]; exact hinv.log⟩
  case logEv e =>
    obtain ⟨n, _, _, he⟩ := hf
    subst he
    refine ⟨?_, ?_⟩
    · intro m; simp only [Act.apply, runningPer]; exact hinv.map m
    · simp only [Act.apply, LogOk]; exact ⟨hinv.map n, hinv.log⟩
  case newCtl n =>
    refine ⟨?_, ?_⟩
    · intro m
      simp only [Act.apply, runningPer, aget_cons]
      by_cases e : n = m
      · simp [e]
      · simp only [e, if_false]; exact hinv.map m
    · simp only [Act.apply, LogOk]; exact hinv.log
  case finishStop n cid =>
    refine ⟨?_, ?_⟩
    · intro m
      simp only [Act.apply, runningPer]
      by_cases e : n = m
      · subst e; simp [aget_adel_self]
      · simp only [e, if_false]; rw [aget_adel_ne e]; exact hinv.map m
    · simp only [Act.apply, LogOk]; exact hinv.log

theorem RunInv_reachable {cfg : Cfg} {ops : List Op} {s : Sys} (h : Reachable cfg ops s) : RunInv s := by
  induction h with
  | init => exact RunInv_init ops
  | step i ch _ hs ih => exact RunInv_step ih hs

theorem LogOk_split {pre post : List Ev} {n : Nat} {b : Bool}
    (h : LogOk (pre ++ .isRunning n b :: post)) : b = runningPer post n := by
  induction pre with
  | nil => exact h.1
  | cons e pre ih =>
    cases e with
    | startOk a c => exact ih h
    | stopOk a c => exact ih h
    | isRunning a c => exact ih h.2

/-! ### the collector -/

theorem mem_refsOf (xrs : List XR) (g : Nat) : g ∈ refsOf xrs ↔ ∃ x ∈ xrs, some g ∈ x.refs := by
  simp only [refsOf, List.mem_flatMap, List.mem_map, List.mem_filterMap, id]
  constructor
  · rintro ⟨l, ⟨x, hx, rfl⟩, a, ha, rfl⟩
    exact ⟨x, hx, ha⟩
  · rintro ⟨x, hx, h⟩
    exact ⟨x.refs, ⟨x, hx, rfl⟩, some g, h, rfl⟩

/-- a watch the collector may stop: a composed-resource watch on a kind no XR references -/
def Collectable (refs : List Nat) (w : Wid) : Prop := w.ty = .composed ∧ w.gvk ∉ refs

theorem gcStop_fixed_iff (running : List Wid) (refs : List Nat) (w : Wid) :
    w ∈ gcStop Cfg.fixed running refs ↔ w ∈ running ∧ Collectable refs w := by
  simp [gcStop, Cfg.fixed, Collectable, List.mem_filter]

/-- where a collector thread may be, and what it still intends to stop there -/
def GcPcOk (refs : List Nat) : Pc → Prop
  | .idle | .done _ | .relC _ _ => True
  | .gc1 _ r | .gcLU _ _ r | .gcCR _ _ r | .gcCRrel _ _ _ r => r = refs
  | .xw0 _ ws | .xwLU _ ws | .xwCR _ ws | .xwCRrel _ ws _ | .xwCW _ ws => ∀ w ∈ ws, Collectable refs w
  | .xwGI _ wid _ rest _ | .xwRH _ wid _ rest _ _ => Collectable refs wid ∧ ∀ w ∈ rest, Collectable refs w
  | _ => False

theorem xwNext_mem {srcs : List (Wid × Nat)} {ws : List Wid} {w : Wid} {reg : Nat} {rest : List Wid}
    (h : xwNext srcs ws = some (w, reg, rest)) : w ∈ ws ∧ ∀ x ∈ rest, x ∈ ws := by
  induction ws with
  | nil => simp [xwNext] at h
  | cons x xs ih =>
    unfold xwNext at h
    split at h
    · simp only [Option.some.injEq, Prod.mk.injEq] at h
      obtain ⟨rfl, _, rfl⟩ := h
      exact ⟨List.mem_cons_self, fun y hy => List.mem_cons_of_mem _ hy⟩
    · obtain ⟨h1, h2⟩ := ih h
      exact ⟨List.mem_cons_of_mem _ h1, fun y hy => List.mem_cons_of_mem _ (h2 y hy)⟩

theorem GcPcOk_xwPc {refs : List Nat} {srcs : List (Wid × Nat)} {ws : List Wid} (cid k : Nat)
    (h : ∀ w ∈ ws, Collectable refs w) : GcPcOk refs (xwPc cid k (xwNext srcs ws)) := by
  cases hx : xwNext srcs ws with
  | none => exact trivial
  | some p =>
    obtain ⟨w, reg, rest⟩ := p
    obtain ⟨h1, h2⟩ := xwNext_mem hx
    exact ⟨h w h1, fun x hx' => h x (h2 x hx')⟩

/-- a collector thread stays on the collector's path, intending to stop collectable watches only -/
theorem GcPcOk_next {s : Sys} {i : Nat} {n : Nat} {xrs : List XR} {pc : Pc} {ch : Choice} {pc' : Pc} {act : Act}
    (hold : GcPcOk (refsOf xrs) pc)
    (hn : next Cfg.fixed s i ⟨.gc n xrs, pc⟩ ch = some (pc', act)) : GcPcOk (refsOf xrs) pc' := by
  cases pc <;> simp only [GcPcOk] at hold <;> simp only [next] at hn
  all_goals (repeat' (split at hn))
  all_goals first
    | (cases hn; done)
    | (obtain ⟨rfl, rfl, _⟩ := acquire_some hn
       first
       | exact trivial
       | exact rfl
       | exact hold
       | exact GcPcOk_xwPc _ _ hold)
    | (simp only [Option.some.injEq, Prod.mk.injEq] at hn
       obtain ⟨rfl, rfl⟩ := hn
       first
       | exact trivial
       | exact rfl
       | exact hold
       | exact GcPcOk_xwPc _ _ hold.2
       | skip)
    | skip
  -- the collector's decision: a permutation of `gcStop`
  all_goals
    rename_i heq hperm
    subst hold
    intro w hw
    have hp := List.isPerm_iff.1 hperm
    have hw' := (hp.mem_iff).1 hw
    rw [← heq] at hw'
    exact ((gcStop_fixed_iff _ _ _).1 hw').2

def GcInv (s : Sys) : Prop :=
  ∀ (i : Nat) (t : Thread), s.threads[i]? = some t → ∀ n xrs, t.op = .gc n xrs → GcPcOk (refsOf xrs) t.pc

theorem GcInv_init (ops : List Op) : GcInv (init ops) := by
  intro i t ht n refs _
  simp only [init, List.getElem?_map] at ht
  cases h1 : ops[i]? <;> simp [h1] at ht
  subst ht
  exact trivial

theorem GcInv_step {s s' : Sys} {i : Nat} {ch : Choice} (hinv : GcInv s)
    (h : step Cfg.fixed s i ch = some s') : GcInv s' := by
  obtain ⟨t, pc', act, ht, hn, hs⟩ := step_unpack h
  have hth := step_threads ht hs
  intro j tj hj n refs hop
  rw [hth j] at hj
  by_cases e : j = i
  · simp only [e, if_true, Option.some.injEq] at hj
    subst hj
    simp only at hop ⊢
    have hold := hinv i t ht n refs hop
    obtain ⟨op, pc⟩ := t
    simp only at hop hold hn
    subst hop
    exact GcPcOk_next hold hn
  · simp only [e, if_false] at hj
    exact hinv j tj hj n refs hop

theorem GcInv_reachable {ops : List Op} {s : Sys} (h : Reachable Cfg.fixed ops s) : GcInv s := by
  induction h with
  | init => exact GcInv_init ops
  | step i ch _ hs ih => exact GcInv_step ih hs

/-- whatever a step of a collector thread removes from a controller's sources is collectable -/
theorem gc_step_removes_collectable {s s' : Sys} {i : Nat} {ch : Choice} {t : Thread} {n : Nat} {xrs : List XR}
    (hgc : GcInv s) (ht : s.threads[i]? = some t) (hop : t.op = .gc n xrs)
    (h : step Cfg.fixed s i ch = some s') (cid : Nat) (w : Wid) (reg : Nat)
    (hbefore : aget w (srcsOf s cid) = some reg) (hafter : aget w (srcsOf s' cid) = none) :
    Collectable (refsOf xrs) w := by
  obtain ⟨t', pc', act, ht', hn, hs⟩ := step_unpack h
  rw [ht] at ht'
  cases ht'
  have hok := hgc i t ht n xrs hop
  have hf := next_act_cases hn
  subst hs
  cases act
  case nop =>
    have h2 : aget w (srcsOf s cid) = none := hafter
    rw [hbefore] at h2; cases h2
  case logEv e =>
    have h2 : aget w (srcsOf s cid) = none := hafter
    rw [hbefore] at h2; cases h2
  case rmInformer g =>
    have h2 : aget w (srcsOf s cid) = none := hafter
    rw [hbefore] at h2; cases h2
  case getInformer g f =>
    obtain ⟨e1, _⟩ := srcsOf_apply_getInformer g f { s with threads := s.threads.set i { t with pc := pc' } } cid
    rw [e1] at hafter
    have h2 : aget w (srcsOf s cid) = none := hafter
    rw [hbefore] at h2; cases h2
  case newCtl m =>
    simp only [Act.apply, srcsOf_eq, srcsOfObjs_append_new] at hafter
    rw [srcsOf_eq] at hbefore
    rw [hbefore] at hafter; cases hafter
  case finishStop m c =>
    rw [srcsOf_finishStop] at hafter
    have h2 : aget w (srcsOf s cid) = none := hafter
    rw [hbefore] at h2; cases h2
  case addReg c wid h' =>
    obtain ⟨a, st, rest, hpc, _, _⟩ := hf
    rw [hpc] at hok
    exact absurd hok (by simp [GcPcOk])
  case delReg c wid reg' =>
    rw [srcsOf_delReg] at hafter
    rcases hf with ⟨m, h', hpc, _⟩ | ⟨rest, k, h', hpc, _⟩
    · rw [hpc] at hok; exact absurd hok (by simp [GcPcOk])
    · rw [hpc] at hok
      simp only [GcPcOk] at hok
      by_cases ec : cid = c
      · subst ec
        simp only [if_true] at hafter
        by_cases ew : w = wid
        · rw [ew]; exact hok.1
        · rw [aget_adel_ne (fun e => ew e.symm)] at hafter
          have h2 : aget w (srcsOf s cid) = none := hafter
          rw [hbefore] at h2; cases h2
      · simp only [ec, if_false] at hafter
        have h2 : aget w (srcsOf s cid) = none := hafter
        rw [hbefore] at h2; cases h2

end Xp.C13

import Xp.Model.C16
/-
Helper lemmas for C16 (core Lean only).
-/
namespace Xp.C16

/-! ### owner-reference lists -/

/-- some entry carries uid `u` -/
def hasUid (l : List ORef) (u : Nat) : Prop := ∃ r ∈ l, r.uid = u
/-- some entry with uid `u` is a controller reference -/
def ctrl (l : List ORef) (u : Nat) : Prop := ∃ r ∈ l, r.uid = u ∧ r.isCtrl = true

theorem mem_addOwner_self (l : List ORef) (r : ORef) : r ∈ addOwner l r := by
  induction l with
  | nil => simp [addOwner]
  | cons x xs ih =>
    unfold addOwner
    split
    · simp
    · exact List.mem_cons_of_mem _ ih

/-- after `meta.AddOwnerReference(o, r)` the first entry carrying `r`'s uid is `r` -/
theorem find_addOwner_self (l : List ORef) (r : ORef) :
    (addOwner l r).find? (fun x => x.uid = r.uid) = some r := by
  induction l with
  | nil => simp [addOwner]
  | cons y ys ih =>
    unfold addOwner
    split
    · simp
    · rename_i hne
      rw [List.find?_cons]
      simp [hne, ih]

theorem mem_addOwner (l : List ORef) (r x : ORef) (h : x ∈ addOwner l r) : x = r ∨ x ∈ l := by
  induction l with
  | nil => simp [addOwner] at h; exact Or.inl h
  | cons y ys ih =>
    unfold addOwner at h
    split at h
    · rcases List.mem_cons.mp h with h | h
      · exact Or.inl h
      · exact Or.inr (List.mem_cons_of_mem _ h)
    · rcases List.mem_cons.mp h with h | h
      · exact Or.inr (h ▸ List.mem_cons_self)
      · rcases ih h with h | h
        · exact Or.inl h
        · exact Or.inr (List.mem_cons_of_mem _ h)

theorem mem_addOwner_of_ne (l : List ORef) (r x : ORef) (h : x ∈ l) (hne : x.uid ≠ r.uid) : x ∈ addOwner l r := by
  induction l with
  | nil => cases h
  | cons y ys ih =>
    unfold addOwner
    rcases List.mem_cons.mp h with h | h
    · subst h
      simp [hne]
    · split
      · exact List.mem_cons_of_mem _ h
      · exact List.mem_cons_of_mem _ (ih h)

theorem hasUid_addOwner (l : List ORef) (r : ORef) (u : Nat) (h : hasUid l u) : hasUid (addOwner l r) u := by
  obtain ⟨x, hx, hu⟩ := h
  by_cases e : x.uid = r.uid
  · exact ⟨r, mem_addOwner_self l r, by rw [← e, hu]⟩
  · exact ⟨x, mem_addOwner_of_ne l r x hx e, hu⟩

theorem ctrl_addOwner_of_not (l : List ORef) (r : ORef) (u : Nat) (hr : r.isCtrl = false)
    (h : ctrl (addOwner l r) u) : ctrl l u := by
  obtain ⟨x, hx, hu, hc⟩ := h
  rcases mem_addOwner l r x hx with e | e
  · subst e; rw [hr] at hc; cases hc
  · exact ⟨x, e, hu, hc⟩

theorem two_le_length_of_mem {α : Type} (m : List α) (a b : α) (ha : a ∈ m) (hb : b ∈ m) (hne : a ≠ b) :
    2 ≤ m.length := by
  match m, ha, hb with
  | [x], ha, hb =>
    simp at ha hb
    exact absurd (ha.trans hb.symm) hne
  | _ :: _ :: _, _, _ => simp

theorem ctrlCount_ge_two (l : List ORef) (a b : ORef) (ha : a ∈ l) (hb : b ∈ l) (hne : a ≠ b)
    (hca : a.isCtrl = true) (hcb : b.isCtrl = true) : 2 ≤ ctrlCount l := by
  unfold ctrlCount
  exact two_le_length_of_mem _ a b (List.mem_filter.mpr ⟨ha, hca⟩) (List.mem_filter.mpr ⟨hb, hcb⟩) hne

theorem ctrl_unique (l : List ORef) (a b : ORef) (h : ctrlCount l ≤ 1) (ha : a ∈ l) (hb : b ∈ l)
    (hca : a.isCtrl = true) (hcb : b.isCtrl = true) : a = b := by
  by_cases e : a = b
  · exact e
  · have := ctrlCount_ge_two l a b ha hb e hca hcb
    omega

theorem controllerOf_some (l : List ORef) (c : ORef) (h : controllerOf l = some c) : c ∈ l ∧ c.isCtrl = true := by
  unfold controllerOf at h
  exact ⟨List.mem_of_find?_eq_some h, by simpa using List.find?_some h⟩

theorem controllerOf_none (l : List ORef) (h : controllerOf l = none) (r : ORef) (hr : r ∈ l) : r.isCtrl = false := by
  unfold controllerOf at h
  have := List.find?_eq_none.mp h r hr
  simpa using this

theorem asController_isCtrl (p : Parent) : (asController p).isCtrl = true := rfl
theorem asOwner_isCtrl (p : Parent) : (asOwner p).isCtrl = false := rfl
theorem asController_uid (p : Parent) : (asController p).uid = p.uid := rfl
theorem asOwner_uid (p : Parent) : (asOwner p).uid = p.uid := rfl

theorem pkgRef_not_ctrl (p : Parent) (q : ORef) (h : pkgRef p = some q) : q.isCtrl = false := by
  unfold pkgRef at h
  cases hf : p.owners.find? (fun r => r.name = p.label) with
  | none => simp [hf] at h
  | some r => simp [hf] at h; subst h; rfl

theorem pkgRef_controller (p : Parent) (q : ORef) (h : pkgRef p = some q) : q.controller = some false := by
  unfold pkgRef at h
  cases hf : p.owners.find? (fun r => r.name = p.label) with
  | none => simp [hf] at h
  | some r => simp [hf] at h; subst h; rfl

theorem hasUid_withPkg (p : Parent) (l : List ORef) (u : Nat) (h : hasUid l u) : hasUid (withPkg p l) u := by
  unfold withPkg
  split
  · exact hasUid_addOwner _ _ _ h
  · exact h

theorem ctrl_withPkg (p : Parent) (l : List ORef) (u : Nat) (h : ctrl (withPkg p l) u) : ctrl l u := by
  unfold withPkg at h
  split at h
  · rename_i q hq
    exact ctrl_addOwner_of_not _ _ _ (pkgRef_not_ctrl p q hq) h
  · exact h

theorem mem_withPkg_of_ne (p : Parent) (l : List ORef) (x : ORef) (h : x ∈ l)
    (hne : ∀ q, pkgRef p = some q → x.uid ≠ q.uid) : x ∈ withPkg p l := by
  unfold withPkg
  split
  · rename_i q hq
    exact mem_addOwner_of_ne _ _ _ h (hne q hq)
  · exact h

theorem pkg_mem_withPkg (p : Parent) (l : List ORef) (q : ORef) (h : pkgRef p = some q) : q ∈ withPkg p l := by
  unfold withPkg
  rw [h]
  exact mem_addOwner_self _ _

end Xp.C16

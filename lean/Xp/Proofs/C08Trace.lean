import Xp.Proofs.C08Store
import Xp.Proofs.C08Local
/-
C08 trace lemmas: what a reconcile has learned from the replies it saw stays true
under every step of the interleaved system (stable facts), hence the local guard
of every request implies the state-based ordering constraint `safeReq` at the
moment the request is applied, in every reachable configuration.
-/
namespace Xp.C08
open Xp.Gen

theorem Fact.holds_le {s s' : St} (hle : Le s s') (f : Fact) (hf : f.holds s) : f.holds s' := by
  cases f with
  | gone k =>
    simp only [Fact.holds] at hf ⊢
    cases h : find s' k with
    | none => rfl
    | some o' =>
      obtain ⟨o, ho, _⟩ := hle.find k o' h
      rw [hf] at ho; cases ho
  | goneOrDel k =>
    intro o' h
    obtain ⟨o, ho, hm⟩ := hle.find k o' h
    exact hm.del (hf o ho)
  | noneOf kd =>
    intro o' h
    obtain ⟨o, ho, hk⟩ := hle.keys o' h
    rw [← hk]; exact hf o ho
  | stopped c =>
    intro h
    exact hf (hle.run c h)
  | immut k a =>
    intro o' h
    obtain ⟨o, ho, hm⟩ := hle.find k o' h
    have hs := hf o ho
    have hk : o.key.kind = k.kind := by rw [find_key ho]
    refine ⟨Nat.le_trans hs.rv hm.rv, hm.uid.trans hs.uid, hm.of_.trans hs.of_, hm.owners.trans hs.owners,
      hm.refKind.trans hs.refKind, hm.ofKind.trans hs.ofKind, ?_⟩
    intro hh
    rcases hh with hh | hh
    · have e1 : o.rv = a.rv := Nat.le_antisymm (hh ▸ hm.rv) hs.rv
      have s1 := hs.same (.inl e1)
      have s2 := hm.same (.inl (hh.trans e1.symm))
      exact ⟨s2.1.trans s1.1, s2.2.trans s1.2⟩
    · have s1 := hs.same (.inr hh)
      have s2 := hm.same (.inr (hk ▸ hh))
      exact ⟨s2.1.trans s1.1, s2.2.trans s1.2⟩
  | pkgsSub ps =>
    intro l' h p hp
    obtain ⟨l, hl, hm⟩ := hle.find lockKey l' h
    exact hf l hl p (hm.pkgs p hp)
  | notInLock n =>
    intro l' h hn
    obtain ⟨l, hl, hm⟩ := hle.find lockKey l' h
    exact hf l hl (hm.pkgs n hn)

theorem facts_append (h : Hist) (r : Req) (x : Resp) : facts (h ++ [(r, x)]) = facts h ++ learn r x := by
  simp [facts]

theorem mem_facts {h : Hist} {r : Req} {x : Resp} {f : Fact} (hm : (r, x) ∈ h) (hf : f ∈ learn r x) : f ∈ facts h := by
  simp only [facts, List.mem_flatMap]
  exact ⟨(r, x), hm, hf⟩

theorem learn_errResp (o : Outcome) (r : Req) : learn r (errResp o r) = [] := by
  unfold errResp
  cases o <;> cases r <;> simp [learn, Req.isWrite]

theorem insertByName_ne_nil (o : Obj) (l : List Obj) : insertByName o l ≠ [] := by
  cases l with
  | nil => simp [insertByName]
  | cons x xs => unfold insertByName; split <;> simp

theorem sortByName_nil {l : List Obj} (h : sortByName l = []) : l = [] := by
  cases l with
  | nil => rfl
  | cons x xs => exact absurd h (insertByName_ne_nil _ _)

theorem ofKind_nil {s : St} {kd : Kind} (h : ofKind s kd = []) : ∀ o ∈ s.objs, o.key.kind ≠ kd := by
  intro o ho hk
  have hn := sortByName_nil h
  have : o ∈ s.objs.filter (fun o => o.key.kind = kd) := List.mem_filter.mpr ⟨ho, by simpa using hk⟩
  rw [hn] at this
  cases this

theorem find_commit_cases (s : St) (o o' : Obj) (ho : find s o.key = some o) (hk : o'.key = o.key) (c : Obj)
    (hc : find (commit s o o').1 o.key = some c) : (c = o ∧ o' = o) ∨ c.pkgs = o'.pkgs := by
  unfold commit at hc
  split at hc
  · rename_i he
    rw [ho] at hc; exact .inl ⟨(Option.some.inj hc).symm, he⟩
  · simp only [] at hc
    split at hc
    · rw [find_erase] at hc; simp at hc
    · have hk' : o.key = ({ o' with rv := s.nextRv } : Obj).key := hk.symm
      rw [find_put, if_pos hk', find_nextRv, ho] at hc
      simp only [Option.map_some, Option.some.injEq] at hc
      subst hc
      exact .inr rfl

theorem exec_delete_none (s : St) (k : Key) (fg : Bool) (h : find s k = none) :
    exec s (.delete k fg) = (s, .notFound) := by
  simp [exec, h]

theorem exec_delete_some (s : St) (k : Key) (fg : Bool) (o : Obj) (h : find s k = some o) :
    exec s (.delete k fg) = (deleteObj s o fg, .ok) := by
  simp [exec, h]

theorem deleteObj_del (s : St) (o : Obj) (fg : Bool) (ho : find s o.key = some o) (c : Obj)
    (hc : find (deleteObj s o fg) o.key = some c) : c.del = true := by
  unfold deleteObj deleteWith at hc
  generalize (if (fg && !o.fins.contains fgFin) = true then o.fins ++ [fgFin] else o.fins) = fins at hc
  split at hc
  · rw [find_erase] at hc; simp at hc
  · split at hc
    · rename_i hd
      rw [ho] at hc; cases hc
      simp only [Bool.and_eq_true] at hd; exact hd.1
    · rw [find_put] at hc
      simp only [if_true] at hc
      rw [find_nextRv, ho] at hc
      simp at hc; subst hc; rfl

theorem learn_sound_delete (s : St) (k : Key) (fg : Bool) :
    ∀ f ∈ learn (.delete k fg) (exec s (.delete k fg)).2, f.holds (exec s (.delete k fg)).1 := by
  cases h : find s k with
  | none =>
    rw [exec_delete_none s k fg h]
    intro f hf; simp [learn] at hf; subst hf; exact h
  | some o =>
    rw [exec_delete_some s k fg o h]
    intro f hf
    simp [learn] at hf; subst hf
    have hk := find_key h
    intro c hc
    rw [← hk] at hc
    exact deleteObj_del s o fg (by rw [hk]; exact h) c hc

theorem exec_withObj_none (s : St) (k : Key) (rv : Nat) (f : Obj → Obj) (h : find s k = none) :
    withObj s k rv f = (s, .notFound) := by
  simp [withObj, h]

theorem learn_sound_lockRemove (s : St) (rv : Nat) (n : String) :
    ∀ f ∈ learn (.lockRemove rv n) (exec s (.lockRemove rv n)).2, f.holds (exec s (.lockRemove rv n)).1 := by
  simp only [exec]
  cases h : find s lockKey with
  | none => rw [exec_withObj_none _ _ _ _ h]; intro f hf; simp [learn] at hf
  | some l =>
    have hk := find_key h
    have hl : find s l.key = some l := by rw [hk]; exact h
    unfold withObj
    rw [h]
    simp only []
    split
    · intro f hf; simp [learn] at hf
    · intro f hf
      simp [learn] at hf; subst hf
      intro c hc hn
      rw [← hk] at hc
      have hc' : find (commit s l { l with pkgs := l.pkgs.filter (· ≠ n) }).1 l.key = some c := hc
      rcases find_commit_cases s l { l with pkgs := l.pkgs.filter (· ≠ n) } hl rfl c hc' with ⟨e1, e2⟩ | e
      · subst e1
        have h3 : (c.pkgs.filter (· ≠ n)) = c.pkgs := congrArg Obj.pkgs e2
        have hm : n ∈ c.pkgs.filter (· ≠ n) := by rw [h3]; exact hn
        simp at hm
      · have e' : c.pkgs = l.pkgs.filter (· ≠ n) := e
        rw [e'] at hn
        simp at hn

theorem learn_sound (s : St) (r : Req) : ∀ f ∈ learn r (exec s r).2, f.holds (exec s r).1 := by
  cases r with
  | get k =>
    simp only [exec]
    cases h : find s k with
    | none => intro f hf; simp [learn] at hf; subst hf; exact h
    | some o =>
      intro f hf
      simp only [learn, List.mem_cons] at hf
      rcases hf with rfl | hf
      · intro o' ho'; rw [h] at ho'; cases ho'
        exact ⟨Nat.le_refl _, rfl, rfl, rfl, rfl, rfl, fun _ => ⟨rfl, rfl⟩⟩
      · split at hf
        · rename_i hk
          simp at hf; subst hf
          intro l hl p hp
          rw [← hk, h] at hl; cases hl; exact hp
        · cases hf
  | list kd =>
    simp only [exec]
    cases h : ofKind s kd with
    | nil => intro f hf; simp [learn] at hf; subst hf; exact ofKind_nil h
    | cons a b => intro f hf; simp [learn] at hf
  | delete k fg => exact learn_sound_delete s k fg
  | stop c =>
    intro f hf
    simp [exec, learn] at hf; subst hf
    simp [exec, Fact.holds]
  | lockRemove rv n => exact learn_sound_lockRemove s rv n
  | listUsagesOf kd n => intro f hf; simp [learn] at hf
  | listSel kd n => intro f hf; simp [learn] at hf
  | setStatus k rv cs => intro f hf; simp [learn] at hf
  | removeFin k rv fin => intro f hf; simp [learn] at hf
  | deleteAll kd => intro f hf; simp [learn] at hf
  | unlabel k rv => intro f hf; simp [learn] at hf
  | cacheDelete n => intro f hf; simp [learn] at hf


/-! ### from what was seen to what holds now -/

section seen
variable {s : St} {h : Hist} (hf : ∀ f ∈ facts h, f.holds s)
include hf

theorem gone_of_seen {k : Key} (hm : (Req.get k, Resp.notFound) ∈ h) : find s k = none :=
  hf (.gone k) (mem_facts hm (by simp [learn]))

theorem same_of_seen {k : Key} {a : Obj} (hm : (Req.get k, Resp.obj a) ∈ h) : ∀ o, find s k = some o → Obj.Same k a o :=
  hf (.immut k a) (mem_facts hm (by simp [learn]))

theorem noneOf_of_seen {kd : Kind} (hm : (Req.list kd, Resp.list []) ∈ h) : noneOf s kd = true := by
  have := hf (.noneOf kd) (mem_facts hm (by simp [learn]))
  simp only [noneOf, List.all_eq_true]
  intro o ho
  simpa using this o ho

theorem stopped_of_seen {c : String} (hm : (Req.stop c, Resp.ok) ∈ h) : s.running.contains c = false := by
  have := hf (.stopped c) (mem_facts hm (by simp [learn]))
  simpa [Fact.holds] using this

theorem crdNotOurs_of_seen {crd : String} {uid : Nat} (hx : CRDNotOursSeen h crd uid) : crdNotOurs s crd uid = true := by
  unfold crdNotOurs
  rcases hx with hx | ⟨c, hc, hn⟩
  · rw [gone_of_seen hf hx]
  · cases hfd : find s ⟨.crd, crd⟩ with
    | none => rfl
    | some c' =>
      have hs := same_of_seen hf hc c' hfd
      simp only []
      unfold Obj.controlledBy at hn ⊢
      rw [hs.owners, hn]; rfl

theorem claimXRGone_of_seen {cm0 cm : Obj} (hr : cm.ref = cm0.ref) (hfl : cm.flag = cm0.flag)
    (hx : XRGoneSeen h cm0) : claimXRGone s cm = true := by
  unfold claimXRGone
  rw [hr, hfl]
  rcases hx with hx | hx | ⟨hfl, hx | hx⟩
  · simp [hx]
  · rw [gone_of_seen hf hx]; simp
  · have := hf (.goneOrDel ⟨.xr, cm0.ref⟩) (mem_facts hx (by simp [learn]))
    cases hfd : find s ⟨.xr, cm0.ref⟩ with
    | none => simp
    | some x => simp [this x hfd, hfl]
  · have := hf (.gone ⟨.xr, cm0.ref⟩) (mem_facts hx (by simp [learn]))
    simp only [Fact.holds] at this
    rw [this]; simp

theorem notInLock_of_seen {n : String} (hx : NotInLockSeen h n) :
    (match find s lockKey with | none => true | some l => !l.pkgs.contains n) = true := by
  cases hfd : find s lockKey with
  | none => rfl
  | some l =>
    simp only []
    rcases hx with hx | ⟨l0, hl0, hn⟩ | ⟨rv, l0, hl0⟩
    · rw [gone_of_seen hf hx] at hfd; cases hfd
    · have := hf (.pkgsSub l0.pkgs) (mem_facts hl0 (by simp [learn]))
      have hsub := this l hfd
      have : n ∉ l.pkgs := fun hm => hn (hsub n hm)
      simpa using this
    · have := hf (.notInLock n) (mem_facts hl0 (by simp [learn]))
      simpa using this l hfd

end seen

theorem Before.mem {h : Hist} {a b : Req × Resp} (hb : Before h a b) : a ∈ h ∧ b ∈ h := by
  obtain ⟨h1, h2, h3, rfl⟩ := hb
  constructor <;> simp

/-- the local guard of a request, together with the fact that everything learned so
far still holds, gives the state-based ordering constraint -/
theorem safe_of_guard (s : St) (c : Ctl) (n : String) (h : Hist) (r : Req)
    (hg : guardH c n h r) (hf : ∀ f ∈ facts h, f.holds s) : safeReq s c n r = true := by
  cases r with
  | removeFin k rv fin =>
    cases c with
    | claim =>
      simp only [safeReq, guardH] at hg ⊢
      by_cases hfin : fin = c08ClaimFinalizer
      · obtain ⟨hk, cm0, hget, hrv, hx⟩ := hg hfin
        subst hk
        cases hfd : find s ⟨.claim, n⟩ with
        | none => simp
        | some cm =>
          have hs := same_of_seen hf hget cm hfd
          by_cases hr : cm.rv = rv
          · have hsm := hs.same (.inl (hr.trans hrv))
            simp [claimXRGone_of_seen hf hsm.1 hsm.2 hx]
          · simp [hr]
      · simp [hfin]
    | xr => rfl
    | defined =>
      simp only [safeReq, guardH] at hg ⊢
      by_cases hfin : fin = c08DefinedFinalizer
      · obtain ⟨hk, d0, hget, hx⟩ := hg hfin
        subst hk
        cases hfd : find s ⟨.xrd, n⟩ with
        | none => simp
        | some d =>
          have hs := same_of_seen hf hget d hfd
          have := crdNotOurs_of_seen hf hx
          rw [← hs.uid, ← (hs.same (.inr rfl)).1] at this
          simp [this]
      · simp [hfin]
    | offered =>
      simp only [safeReq, guardH] at hg ⊢
      by_cases hfin : fin = c08OfferedFinalizer
      · obtain ⟨hk, d0, hget, hx⟩ := hg hfin
        subst hk
        cases hfd : find s ⟨.xrd, n⟩ with
        | none => simp
        | some d =>
          have hs := same_of_seen hf hget d hfd
          have := crdNotOurs_of_seen hf hx
          rw [← hs.uid, ← hs.of_] at this
          simp [this]
      · simp [hfin]
    | rev =>
      simp only [safeReq, guardH] at hg ⊢
      by_cases hfin : fin = c08RevisionFinalizer
      · obtain ⟨hk, hx⟩ := hg hfin
        subst hk
        have := notInLock_of_seen hf hx
        simp only [Bool.or_eq_true]
        right; exact this
      · simp [hfin]
    | usage =>
      simp only [safeReq, guardH] at hg ⊢
      by_cases hfin : fin = c08UsageFinalizer
      · obtain ⟨hk, u0, hget, hrv, hx⟩ := hg hfin
        subst hk
        cases hfd : find s ⟨.usage, n⟩ with
        | none => simp
        | some u =>
          have hs := same_of_seen hf hget u hfd
          simp only [Bool.or_eq_true]
          right
          by_cases hr : u.rv = rv
          · have hsm := hs.same (.inl (hr.trans hrv))
            rw [hsm.1, hsm.2, hs.refKind]
            rcases hx with hx | hx | hx
            · left; right; simp [hx]
            · left; right; simp [hx]
            · right; simp [present, gone_of_seen hf hx]
          · left; left; simpa using hr
      · simp [hfin]
  | delete k fg =>
    cases c with
    | defined =>
      simp only [safeReq, guardH] at hg ⊢
      by_cases hk : k.kind = .crd
      · obtain ⟨h1, h2⟩ := (hg hk).mem
        simp only [Bool.or_eq_true, Bool.and_eq_true]
        right
        exact ⟨noneOf_of_seen hf h1, by rw [stopped_of_seen hf h2]; rfl⟩
      · simp [hk]
    | offered =>
      simp only [safeReq, guardH] at hg ⊢
      by_cases hk : k.kind = .crd
      · obtain ⟨h1, h2⟩ := (hg hk).mem
        simp only [Bool.or_eq_true, Bool.and_eq_true]
        right
        exact ⟨noneOf_of_seen hf h1, by rw [stopped_of_seen hf h2]; rfl⟩
      · simp [hk]
    | claim => rfl
    | xr => rfl
    | rev => rfl
    | usage => rfl
  | stop ctl =>
    cases c with
    | defined =>
      simp only [safeReq, guardH] at hg ⊢
      obtain ⟨_, d0, hget, hx⟩ := hg
      cases hfd : find s ⟨.xrd, n⟩ with
      | none => rfl
      | some d =>
        have hs := same_of_seen hf hget d hfd
        simp only [Bool.or_eq_true]
        rcases hx with hx | hx
        · left
          have := crdNotOurs_of_seen hf hx
          rw [← hs.uid, ← (hs.same (.inr rfl)).1] at this
          exact this
        · right; exact noneOf_of_seen hf hx
    | offered =>
      simp only [safeReq, guardH] at hg ⊢
      obtain ⟨_, d0, hget, hx⟩ := hg
      cases hfd : find s ⟨.xrd, n⟩ with
      | none => rfl
      | some d =>
        have hs := same_of_seen hf hget d hfd
        simp only [Bool.or_eq_true]
        rcases hx with hx | hx
        · left
          have := crdNotOurs_of_seen hf hx
          rw [← hs.uid, ← hs.of_] at this
          exact this
        · right; exact noneOf_of_seen hf hx
    | claim => rfl
    | xr => rfl
    | rev => rfl
    | usage => rfl
  | get k => rfl
  | list kd => rfl
  | listUsagesOf kd m => rfl
  | listSel kd m => rfl
  | setStatus k rv cs => rfl
  | deleteAll kd => rfl
  | lockRemove rv m => rfl
  | unlabel k rv => rfl
  | cacheDelete m => rfl


/-! ### the invariant of the interleaved system -/

def ThreadOK (st : St) (t : Thread) : Prop :=
  Always (guardH t.ctl t.name) t.hist t.prog ∧ ∀ f ∈ facts t.hist, f.holds st

/-- the store is well-formed, every in-flight reconcile respects its guard from here on and
what it has learned holds, and every store a lagging cache may show is an earlier one in
the teardown order -/
structure Inv (s : Sys) : Prop where
  wf : WF s.st
  ths : ∀ t ∈ s.ths, ThreadOK s.st t
  past : ∀ p ∈ s.past, WF p ∧ Le p s.st

theorem ThreadOK.le {st st' : St} {t : Thread} (hle : Le st st') (h : ThreadOK st t) : ThreadOK st' t :=
  ⟨h.1, fun f hf => Fact.holds_le hle f (h.2 f hf)⟩

theorem ThreadOK.dead {st : St} {t : Thread} (h : ThreadOK st t) : ThreadOK st t.dead :=
  ⟨trivial, h.2⟩

/-- what one schedule step has to establish -/
structure StepOK (s s' : Sys) : Prop where
  wf : WF s'.st
  ths : ∀ t ∈ s'.ths, ThreadOK s'.st t
  le : Le s.st s'.st

theorem stepOK_env (s : Sys) (st' : St) (hs : Step s.st st') (hi : Inv s) : StepOK s { s with st := st' } :=
  ⟨hs.wf, fun t ht => (hi.ths t ht).le hs.le, hs.le⟩

theorem stepOK_refl (s : Sys) (hi : Inv s) : StepOK s s := ⟨hi.wf, hi.ths, Le.refl _⟩

theorem exec_read (s : St) (r : Req) (h : r.isRead = true) : (exec s r).1 = s := by
  cases r <;> simp [Req.isRead] at h <;> rfl

/-- reconcile `i` sees a reply that teaches only things that hold in the new store -/
theorem stepOK_reply (s : Sys) (hi : Inv s) (i : Nat) (t : Thread) (r : Req) (k : Resp → P)
    (hti : s.ths[i]? = some t) (hp : t.prog = .call r k) (st' : St) (x : Resp)
    (hs : Step s.st st') (hx : ∀ f ∈ learn r x, f.holds st') : StepOK s (s.reply i t r k st' x) := by
  have htm : t ∈ s.ths := List.mem_of_getElem? hti
  have hok := hi.ths t htm
  have hal : guardH t.ctl t.name t.hist r ∧ ∀ x, Always (guardH t.ctl t.name) (t.hist ++ [(r, x)]) (k x) := by
    have := hok.1; rw [hp] at this; exact this
  refine ⟨hs.wf, ?_, hs.le⟩
  intro t' ht'
  simp only [Sys.reply] at ht' ⊢
  rcases List.mem_or_eq_of_mem_set ht' with h' | rfl
  · exact (hi.ths t' h').le hs.le
  · refine ⟨hal.2 x, ?_⟩
    intro f hf
    simp only [facts_append, List.mem_append] at hf
    rcases hf with hf | hf
    · exact Fact.holds_le hs.le f (hok.2 f hf)
    · exact hx f hf

theorem stepOK_crash (s : Sys) (hi : Inv s) (st' : St) (hs : Step s.st st') :
    StepOK s { s with st := st', ths := s.ths.map Thread.dead } := by
  refine ⟨hs.wf, ?_, hs.le⟩
  intro t' ht'
  simp only [List.mem_map] at ht'
  obtain ⟨t0, h0, rfl⟩ := ht'
  exact ((hi.ths t0 h0).le hs.le).dead

theorem stepOK_act1 (s : Sys) (a : Act) (ha : a.isCreate = false) (hi : Inv s) : StepOK s (s.act1 a) := by
  cases a with
  | create o => cases ha
  | live l => cases ha
  | spawn c n =>
    refine ⟨hi.wf, ?_, Le.refl _⟩
    intro t ht
    simp only [Sys.act1] at ht
    rcases List.mem_append.mp ht with ht | ht
    · exact hi.ths t ht
    · rw [List.mem_singleton.mp ht]
      exact ⟨always_program c n, by intro f hf; simp [facts] at hf⟩
  | del k => exact stepOK_env s _ (step_deleteKey hi.wf _ _) hi
  | gc => exact stepOK_env s _ (step_gcStep hi.wf) hi
  | unfin k f => exact stepOK_env s _ (step_envUnfin hi.wf _ _) hi
  | edit k e => exact stepOK_env s _ (step_envEdit hi.wf _ _) hi
  | step i o =>
    simp only [Sys.act1]
    cases hti : s.ths[i]? with
    | none => exact stepOK_refl s hi
    | some t =>
      simp only []
      cases hp : t.prog with
      | ret a => exact stepOK_refl s hi
      | call r k =>
        simp only []
        cases o with
        | ok => exact stepOK_reply s hi i t r k hti hp _ _ (step_exec hi.wf r) (learn_sound _ _)
        | fail =>
          exact stepOK_reply s hi i t r k hti hp _ _ (Step.refl hi.wf) (by rw [learn_errResp]; intro f hf; cases hf)
        | conflict =>
          exact stepOK_reply s hi i t r k hti hp _ _ (Step.refl hi.wf) (by rw [learn_errResp]; intro f hf; cases hf)
        | crashBefore => exact stepOK_crash s hi _ (step_crash hi.wf)
        | crashAfter => exact stepOK_crash s hi _ ((step_exec hi.wf r).trans (step_crash (step_exec hi.wf r).wf))
  | lagStep i j =>
    simp only [Sys.act1]
    cases hti : s.ths[i]? with
    | none => exact stepOK_refl s hi
    | some t =>
      simp only []
      cases hp : t.prog with
      | ret a => exact stepOK_refl s hi
      | call r k =>
        simp only []
        split
        · rename_i hr
          cases hpj : s.past[j]? with
          | some p =>
            simp only []
            -- the reply comes from an earlier store: what it teaches held there, hence holds now
            obtain ⟨_, hle⟩ := hi.past p (List.mem_of_getElem? hpj)
            refine stepOK_reply s hi i t r k hti hp _ _ (Step.refl hi.wf) ?_
            intro f hf
            have := learn_sound p r f hf
            rw [exec_read p r hr] at this
            exact Fact.holds_le hle f this
          | none =>
            simp only []
            refine stepOK_reply s hi i t r k hti hp _ _ (Step.refl hi.wf) ?_
            intro f hf
            have := learn_sound s.st r f hf
            rw [exec_read s.st r hr] at this
            exact this
        · exact stepOK_reply s hi i t r k hti hp _ _ (step_exec hi.wf r) (learn_sound _ _)

theorem inv_act (s : Sys) (a : Act) (ha : a.isCreate = false) (hi : Inv s) : Inv (s.act a) := by
  have h := stepOK_act1 s a ha hi
  refine ⟨h.wf, h.ths, ?_⟩
  intro p hp
  simp only [Sys.act] at hp ⊢
  rcases List.mem_append.mp hp with hp | hp
  · exact ⟨(hi.past p hp).1, (hi.past p hp).2.trans h.le⟩
  · rw [List.mem_singleton.mp hp]
    exact ⟨hi.wf, h.le⟩

theorem inv_run (s : Sys) (acts : List Act) (hn : ∀ a ∈ acts, a.isCreate = false) (hi : Inv s) : Inv (s.run acts) := by
  induction acts generalizing s with
  | nil => exact hi
  | cons a rest ih =>
    exact ih _ (fun b hb => hn b (List.mem_cons_of_mem _ hb)) (inv_act s a (hn a (List.mem_cons_self ..)) hi)

theorem inv_init (st0 : St) (hw : WF st0) : Inv { st := st0, ths := [] } where
  wf := hw
  ths := by intro t ht; cases ht
  past := by intro p hp; cases hp

/-- In every configuration reachable from any well-formed store with no reconcile in flight
by a schedule without creation steps, the next request of every in-flight reconcile
satisfies the ordering constraint in the current state — whatever the interleaving, the
faults, the crashes, the third-party edits and the lag of the caches so far. -/
theorem safe_reachable (st0 : St) (hw : WF st0) (acts : List Act) (hn : ∀ a ∈ acts, a.isCreate = false)
    (t : Thread) (r : Req) (k : Resp → P)
    (ht : t ∈ (reach st0 acts).ths) (hp : t.prog = .call r k) :
    safeReq (reach st0 acts).st t.ctl t.name r = true := by
  have hinv : Inv (reach st0 acts) := inv_run _ acts hn (inv_init st0 hw)
  have hok := hinv.ths t ht
  have hg : guardH t.ctl t.name t.hist r := by
    have := hok.1; rw [hp] at this; exact this.1
  exact safe_of_guard _ _ _ _ _ hg hok.2

/-- every store a lagging cache may show in a reachable configuration is an earlier store
of the same run in the teardown order -/
theorem past_le_reachable (st0 : St) (hw : WF st0) (acts : List Act) (hn : ∀ a ∈ acts, a.isCreate = false) :
    ∀ p ∈ (reach st0 acts).past, Le p (reach st0 acts).st :=
  fun p hp => ((inv_run _ acts hn (inv_init st0 hw)).past p hp).2

end Xp.C08

import Xp.Proofs.C08Store
import Xp.Proofs.C08Local
/-
C08 trace lemmas: what a reconcile has learned from the replies it saw stays true
under every step of the interleaved system (stable facts), hence the local guard
of every request implies the state-based ordering constraint `safeReq` at the
moment the request is applied, in every reachable configuration.
-/
namespace Xp.C08
open Xp.Gen

/-- the stored object agrees with a copy read earlier on the fields nothing changes -/
def Obj.Same (a o : Obj) : Prop :=
  o.uid = a.uid ∧ o.ref = a.ref ∧ o.of = a.of ∧ o.flag = a.flag ∧ o.owners = a.owners

/-- facts a reconcile can learn from a reply and that no later step invalidates -/
inductive Fact where
  | gone (k : Key)
  | goneOrDel (k : Key)
  | noneOf (kd : Kind)
  | stopped (c : String)
  | immut (k : Key) (a : Obj)
  | pkgsSub (ps : List String)
  | notInLock (n : String)

def Fact.holds (s : St) : Fact → Prop
  | .gone k => find s k = none
  | .goneOrDel k => ∀ o, find s k = some o → o.del = true
  | .noneOf kd => ∀ o ∈ s.objs, o.key.kind ≠ kd
  | .stopped c => c ∉ s.running
  | .immut k a => ∀ o, find s k = some o → Obj.Same a o
  | .pkgsSub ps => ∀ l, find s lockKey = some l → ∀ p ∈ l.pkgs, p ∈ ps
  | .notInLock n => ∀ l, find s lockKey = some l → n ∉ l.pkgs

theorem Fact.holds_le {s s' : St} (hle : Le s s') (f : Fact) (hf : f.holds s) : f.holds s' := by
  cases f with
  | gone k =>
    simp only [Fact.holds] at hf ⊢
    cases h : find s' k with
    | none => rfl
    | some o' =>
      obtain ⟨o, ho, _⟩ := hle.find k o' h
      rw [hf] at ho; cases ho
  | goneOrDel k =>
    intro o' h
    obtain ⟨o, ho, hm⟩ := hle.find k o' h
    exact hm.2.2.2.2.2.2.1 (hf o ho)
  | noneOf kd =>
    intro o' h
    obtain ⟨o, ho, hk⟩ := hle.keys o' h
    rw [← hk]; exact hf o ho
  | stopped c =>
    intro h
    exact hf (hle.run c h)
  | immut k a =>
    intro o' h
    obtain ⟨o, ho, hm⟩ := hle.find k o' h
    obtain ⟨h1, h2, h3, h4, h5⟩ := hf o ho
    obtain ⟨_, m2, m3, m4, m5, m6, _, _⟩ := hm
    exact ⟨m2.trans h1, m3.trans h2, m4.trans h3, m5.trans h4, m6.trans h5⟩
  | pkgsSub ps =>
    intro l' h p hp
    obtain ⟨l, hl, hm⟩ := hle.find lockKey l' h
    exact hf l hl p (hm.2.2.2.2.2.2.2 p hp)
  | notInLock n =>
    intro l' h hn
    obtain ⟨l, hl, hm⟩ := hle.find lockKey l' h
    exact hf l hl (hm.2.2.2.2.2.2.2 n hn)

/-- what a reply teaches -/
def learn : Req → Resp → List Fact
  | .get k, .notFound => [.gone k]
  | .get k, .obj o => .immut k o :: (if k = lockKey then [.pkgsSub o.pkgs] else [])
  | .delete k _, .ok => [.goneOrDel k]
  | .delete k _, .notFound => [.gone k]
  | .list kd, .list [] => [.noneOf kd]
  | .stop c, .ok => [.stopped c]
  | .lockRemove _ n, .obj _ => [.notInLock n]
  | _, _ => []

def facts (h : Hist) : List Fact := h.flatMap (fun p => learn p.1 p.2)

theorem facts_append (h : Hist) (r : Req) (x : Resp) : facts (h ++ [(r, x)]) = facts h ++ learn r x := by
  simp [facts]

theorem mem_facts {h : Hist} {r : Req} {x : Resp} {f : Fact} (hm : (r, x) ∈ h) (hf : f ∈ learn r x) : f ∈ facts h := by
  simp only [facts, List.mem_flatMap]
  exact ⟨(r, x), hm, hf⟩

theorem learn_errResp (o : Outcome) (r : Req) : learn r (errResp o r) = [] := by
  unfold errResp
  cases o <;> cases r <;> simp [learn, Req.isWrite]

theorem insertByName_ne_nil (o : Obj) (l : List Obj) : insertByName o l ≠ [] := by
  cases l with
  | nil => simp [insertByName]
  | cons x xs => unfold insertByName; split <;> simp

theorem sortByName_nil {l : List Obj} (h : sortByName l = []) : l = [] := by
  cases l with
  | nil => rfl
  | cons x xs => exact absurd h (insertByName_ne_nil _ _)

theorem ofKind_nil {s : St} {kd : Kind} (h : ofKind s kd = []) : ∀ o ∈ s.objs, o.key.kind ≠ kd := by
  intro o ho hk
  have hn := sortByName_nil h
  have : o ∈ s.objs.filter (fun o => o.key.kind = kd) := List.mem_filter.mpr ⟨ho, by simpa using hk⟩
  rw [hn] at this
  cases this

theorem find_commit_cases (s : St) (o o' : Obj) (ho : find s o.key = some o) (hk : o'.key = o.key) (c : Obj)
    (hc : find (commit s o o').1 o.key = some c) : (c = o ∧ o' = o) ∨ c.pkgs = o'.pkgs := by
  unfold commit at hc
  split at hc
  · rename_i he
    rw [ho] at hc; exact .inl ⟨(Option.some.inj hc).symm, he⟩
  · simp only [] at hc
    split at hc
    · rw [find_erase] at hc; simp at hc
    · have hk' : o.key = ({ o' with rv := s.nextRv } : Obj).key := hk.symm
      rw [find_put, if_pos hk', find_nextRv, ho] at hc
      simp only [Option.map_some, Option.some.injEq] at hc
      subst hc
      exact .inr rfl

theorem exec_delete_none (s : St) (k : Key) (fg : Bool) (h : find s k = none) :
    exec s (.delete k fg) = (s, .notFound) := by
  simp [exec, h]

theorem exec_delete_some (s : St) (k : Key) (fg : Bool) (o : Obj) (h : find s k = some o) :
    exec s (.delete k fg) = (deleteObj s o fg, .ok) := by
  simp [exec, h]

theorem deleteObj_del (s : St) (o : Obj) (fg : Bool) (ho : find s o.key = some o) (c : Obj)
    (hc : find (deleteObj s o fg) o.key = some c) : c.del = true := by
  unfold deleteObj deleteWith at hc
  generalize (if (fg && !o.fins.contains fgFin) = true then o.fins ++ [fgFin] else o.fins) = fins at hc
  split at hc
  · rw [find_erase] at hc; simp at hc
  · split at hc
    · rename_i hd
      rw [ho] at hc; cases hc
      simp only [Bool.and_eq_true] at hd; exact hd.1
    · rw [find_put] at hc
      simp only [if_true] at hc
      rw [find_nextRv, ho] at hc
      simp at hc; subst hc; rfl

theorem learn_sound_delete (s : St) (k : Key) (fg : Bool) :
    ∀ f ∈ learn (.delete k fg) (exec s (.delete k fg)).2, f.holds (exec s (.delete k fg)).1 := by
  cases h : find s k with
  | none =>
    rw [exec_delete_none s k fg h]
    intro f hf; simp [learn] at hf; subst hf; exact h
  | some o =>
    rw [exec_delete_some s k fg o h]
    intro f hf
    simp [learn] at hf; subst hf
    have hk := find_key h
    intro c hc
    rw [← hk] at hc
    exact deleteObj_del s o fg (by rw [hk]; exact h) c hc

theorem exec_withObj_none (s : St) (k : Key) (rv : Nat) (f : Obj → Obj) (h : find s k = none) :
    withObj s k rv f = (s, .notFound) := by
  simp [withObj, h]

theorem learn_sound_lockRemove (s : St) (rv : Nat) (n : String) :
    ∀ f ∈ learn (.lockRemove rv n) (exec s (.lockRemove rv n)).2, f.holds (exec s (.lockRemove rv n)).1 := by
  simp only [exec]
  cases h : find s lockKey with
  | none => rw [exec_withObj_none _ _ _ _ h]; intro f hf; simp [learn] at hf
  | some l =>
    have hk := find_key h
    have hl : find s l.key = some l := by rw [hk]; exact h
    unfold withObj
    rw [h]
    simp only []
    split
    · intro f hf; simp [learn] at hf
    · intro f hf
      simp [learn] at hf; subst hf
      intro c hc hn
      rw [← hk] at hc
      have hc' : find (commit s l { l with pkgs := l.pkgs.filter (· ≠ n) }).1 l.key = some c := hc
      rcases find_commit_cases s l { l with pkgs := l.pkgs.filter (· ≠ n) } hl rfl c hc' with ⟨e1, e2⟩ | e
      · subst e1
        have h3 : (c.pkgs.filter (· ≠ n)) = c.pkgs := congrArg Obj.pkgs e2
        have hm : n ∈ c.pkgs.filter (· ≠ n) := by rw [h3]; exact hn
        simp at hm
      · have e' : c.pkgs = l.pkgs.filter (· ≠ n) := e
        rw [e'] at hn
        simp at hn

theorem learn_sound (s : St) (r : Req) : ∀ f ∈ learn r (exec s r).2, f.holds (exec s r).1 := by
  cases r with
  | get k =>
    simp only [exec]
    cases h : find s k with
    | none => intro f hf; simp [learn] at hf; subst hf; exact h
    | some o =>
      intro f hf
      simp only [learn, List.mem_cons] at hf
      rcases hf with rfl | hf
      · intro o' ho'; rw [h] at ho'; cases ho'; exact ⟨rfl, rfl, rfl, rfl, rfl⟩
      · split at hf
        · rename_i hk
          simp at hf; subst hf
          intro l hl p hp
          rw [← hk, h] at hl; cases hl; exact hp
        · cases hf
  | list kd =>
    simp only [exec]
    cases h : ofKind s kd with
    | nil => intro f hf; simp [learn] at hf; subst hf; exact ofKind_nil h
    | cons a b => intro f hf; simp [learn] at hf
  | delete k fg => exact learn_sound_delete s k fg
  | stop c =>
    intro f hf
    simp [exec, learn] at hf; subst hf
    simp [exec, Fact.holds]
  | lockRemove rv n => exact learn_sound_lockRemove s rv n
  | listUsagesOf n => intro f hf; simp [learn] at hf
  | setStatus k rv cs => intro f hf; simp [learn] at hf
  | removeFin k rv fin => intro f hf; simp [learn] at hf
  | deleteAll kd => intro f hf; simp [learn] at hf
  | unlabel k rv => intro f hf; simp [learn] at hf
  | cacheDelete n => intro f hf; simp [learn] at hf


/-! ### from what was seen to what holds now -/

section seen
variable {s : St} {h : Hist} (hf : ∀ f ∈ facts h, f.holds s)
include hf

theorem gone_of_seen {k : Key} (hm : (Req.get k, Resp.notFound) ∈ h) : find s k = none :=
  hf (.gone k) (mem_facts hm (by simp [learn]))

theorem same_of_seen {k : Key} {a : Obj} (hm : (Req.get k, Resp.obj a) ∈ h) : ∀ o, find s k = some o → Obj.Same a o :=
  hf (.immut k a) (mem_facts hm (by simp [learn]))

theorem noneOf_of_seen {kd : Kind} (hm : (Req.list kd, Resp.list []) ∈ h) : noneOf s kd = true := by
  have := hf (.noneOf kd) (mem_facts hm (by simp [learn]))
  simp only [noneOf, List.all_eq_true]
  intro o ho
  simpa using this o ho

theorem stopped_of_seen {c : String} (hm : (Req.stop c, Resp.ok) ∈ h) : s.running.contains c = false := by
  have := hf (.stopped c) (mem_facts hm (by simp [learn]))
  simpa [Fact.holds] using this

theorem crdNotOurs_of_seen {crd : String} {uid : Nat} (hx : CRDNotOursSeen h crd uid) : crdNotOurs s crd uid = true := by
  unfold crdNotOurs
  rcases hx with hx | ⟨c, hc, hn⟩
  · rw [gone_of_seen hf hx]
  · cases hfd : find s ⟨.crd, crd⟩ with
    | none => rfl
    | some c' =>
      have hs := same_of_seen hf hc c' hfd
      simp only []
      unfold Obj.controlledBy at hn ⊢
      rw [hs.2.2.2.2, hn]; rfl

theorem claimXRGone_of_seen {cm0 cm : Obj} (hs : Obj.Same cm0 cm) (hx : XRGoneSeen h cm0) : claimXRGone s cm = true := by
  unfold claimXRGone
  rw [hs.2.1, hs.2.2.2.1]
  rcases hx with hx | hx | ⟨hfl, hx | hx⟩
  · simp [hx]
  · rw [gone_of_seen hf hx]; simp
  · have := hf (.goneOrDel ⟨.xr, cm0.ref⟩) (mem_facts hx (by simp [learn]))
    cases hfd : find s ⟨.xr, cm0.ref⟩ with
    | none => simp
    | some x => simp [this x hfd, hfl]
  · have := hf (.gone ⟨.xr, cm0.ref⟩) (mem_facts hx (by simp [learn]))
    simp only [Fact.holds] at this
    rw [this]; simp

theorem notInLock_of_seen {n : String} (hx : NotInLockSeen h n) :
    (match find s lockKey with | none => true | some l => !l.pkgs.contains n) = true := by
  cases hfd : find s lockKey with
  | none => rfl
  | some l =>
    simp only []
    rcases hx with hx | ⟨l0, hl0, hn⟩ | ⟨rv, l0, hl0⟩
    · rw [gone_of_seen hf hx] at hfd; cases hfd
    · have := hf (.pkgsSub l0.pkgs) (mem_facts hl0 (by simp [learn]))
      have hsub := this l hfd
      have : n ∉ l.pkgs := fun hm => hn (hsub n hm)
      simpa using this
    · have := hf (.notInLock n) (mem_facts hl0 (by simp [learn]))
      simpa using this l hfd

end seen

theorem Before.mem {h : Hist} {a b : Req × Resp} (hb : Before h a b) : a ∈ h ∧ b ∈ h := by
  obtain ⟨h1, h2, h3, rfl⟩ := hb
  constructor <;> simp

/-- the local guard of a request, together with the fact that everything learned so
far still holds, gives the state-based ordering constraint -/
theorem safe_of_guard (s : St) (c : Ctl) (n : String) (h : Hist) (r : Req)
    (hg : guardH c n h r) (hf : ∀ f ∈ facts h, f.holds s) : safeReq s c n r = true := by
  cases r with
  | removeFin k rv fin =>
    cases c with
    | claim =>
      simp only [safeReq, guardH] at hg ⊢
      by_cases hfin : fin = c08ClaimFinalizer
      · obtain ⟨hk, cm0, hget, hx⟩ := hg hfin
        subst hk
        cases hfd : find s ⟨.claim, n⟩ with
        | none => simp
        | some cm =>
          have hs := same_of_seen hf hget cm hfd
          simp [claimXRGone_of_seen hf hs hx]
      · simp [hfin]
    | xr => rfl
    | defined =>
      simp only [safeReq, guardH] at hg ⊢
      by_cases hfin : fin = c08DefinedFinalizer
      · obtain ⟨hk, d0, hget, hx⟩ := hg hfin
        subst hk
        cases hfd : find s ⟨.xrd, n⟩ with
        | none => simp
        | some d =>
          have hs := same_of_seen hf hget d hfd
          have := crdNotOurs_of_seen hf hx
          rw [← hs.1, ← hs.2.1] at this
          simp [this]
      · simp [hfin]
    | offered =>
      simp only [safeReq, guardH] at hg ⊢
      by_cases hfin : fin = c08OfferedFinalizer
      · obtain ⟨hk, d0, hget, hx⟩ := hg hfin
        subst hk
        cases hfd : find s ⟨.xrd, n⟩ with
        | none => simp
        | some d =>
          have hs := same_of_seen hf hget d hfd
          have := crdNotOurs_of_seen hf hx
          rw [← hs.1, ← hs.2.2.1] at this
          simp [this]
      · simp [hfin]
    | rev =>
      simp only [safeReq, guardH] at hg ⊢
      by_cases hfin : fin = c08RevisionFinalizer
      · obtain ⟨hk, hx⟩ := hg hfin
        subst hk
        have := notInLock_of_seen hf hx
        simp only [Bool.or_eq_true]
        right; exact this
      · simp [hfin]
    | usage =>
      simp only [safeReq, guardH] at hg ⊢
      by_cases hfin : fin = c08UsageFinalizer
      · obtain ⟨hk, u0, hget, hx⟩ := hg hfin
        subst hk
        cases hfd : find s ⟨.usage, n⟩ with
        | none => simp
        | some u =>
          have hs := same_of_seen hf hget u hfd
          simp only [Bool.or_eq_true]
          right
          rw [hs.2.1, hs.2.2.2.1]
          rcases hx with hx | hx | hx
          · simp [hx]
          · simp [hx]
          · simp [present, gone_of_seen hf hx]
      · simp [hfin]
  | delete k fg =>
    cases c with
    | defined =>
      simp only [safeReq, guardH] at hg ⊢
      by_cases hk : k.kind = .crd
      · obtain ⟨h1, h2⟩ := (hg hk).mem
        simp only [Bool.or_eq_true, Bool.and_eq_true]
        right
        exact ⟨noneOf_of_seen hf h1, by rw [stopped_of_seen hf h2]; rfl⟩
      · simp [hk]
    | offered =>
      simp only [safeReq, guardH] at hg ⊢
      by_cases hk : k.kind = .crd
      · obtain ⟨h1, h2⟩ := (hg hk).mem
        simp only [Bool.or_eq_true, Bool.and_eq_true]
        right
        exact ⟨noneOf_of_seen hf h1, by rw [stopped_of_seen hf h2]; rfl⟩
      · simp [hk]
    | claim => rfl
    | xr => rfl
    | rev => rfl
    | usage => rfl
  | stop ctl =>
    cases c with
    | defined =>
      simp only [safeReq, guardH] at hg ⊢
      obtain ⟨_, d0, hget, hx⟩ := hg
      cases hfd : find s ⟨.xrd, n⟩ with
      | none => rfl
      | some d =>
        have hs := same_of_seen hf hget d hfd
        simp only [Bool.or_eq_true]
        rcases hx with hx | hx
        · left
          have := crdNotOurs_of_seen hf hx
          rw [← hs.1, ← hs.2.1] at this
          exact this
        · right; exact noneOf_of_seen hf hx
    | offered =>
      simp only [safeReq, guardH] at hg ⊢
      obtain ⟨_, d0, hget, hx⟩ := hg
      cases hfd : find s ⟨.xrd, n⟩ with
      | none => rfl
      | some d =>
        have hs := same_of_seen hf hget d hfd
        simp only [Bool.or_eq_true]
        rcases hx with hx | hx
        · left
          have := crdNotOurs_of_seen hf hx
          rw [← hs.1, ← hs.2.2.1] at this
          exact this
        · right; exact noneOf_of_seen hf hx
    | claim => rfl
    | xr => rfl
    | rev => rfl
    | usage => rfl
  | get k => rfl
  | list kd => rfl
  | listUsagesOf m => rfl
  | setStatus k rv cs => rfl
  | deleteAll kd => rfl
  | lockRemove rv m => rfl
  | unlabel k rv => rfl
  | cacheDelete m => rfl


/-! ### the invariant of the interleaved system -/

def ThreadOK (st : St) (t : Thread) : Prop :=
  Always (guardH t.ctl t.name) t.hist t.prog ∧ ∀ f ∈ facts t.hist, f.holds st

def Inv (s : Sys) : Prop := ∀ t ∈ s.ths, ThreadOK s.st t

theorem ThreadOK.le {st st' : St} {t : Thread} (hle : Le st st') (h : ThreadOK st t) : ThreadOK st' t :=
  ⟨h.1, fun f hf => Fact.holds_le hle f (h.2 f hf)⟩

theorem ThreadOK.dead {st : St} {t : Thread} (h : ThreadOK st t) : ThreadOK st t.dead :=
  ⟨trivial, h.2⟩

theorem inv_env (s : Sys) (st' : St) (hle : Le s.st st') (hi : Inv s) : Inv { s with st := st' } :=
  fun t ht => (hi t ht).le hle

theorem inv_act (s : Sys) (a : Act) (ha : a.isCreate = false) (hi : Inv s) : Inv (s.act a) := by
  cases a with
  | create o => cases ha
  | spawn c n =>
    intro t ht
    simp only [Sys.act, List.mem_append, List.mem_singleton] at ht
    rcases ht with ht | rfl
    · exact hi t ht
    · exact ⟨always_program c n, by intro f hf; simp [facts] at hf⟩
  | del k => exact inv_env s _ (le_deleteKey _ _ _) hi
  | gc => exact inv_env s _ (le_gcStep _) hi
  | unfin k f => exact inv_env s _ (le_envUnfin _ _ _) hi
  | step i o =>
    simp only [Sys.act]
    cases hti : s.ths[i]? with
    | none => exact hi
    | some t =>
      simp only []
      have htm : t ∈ s.ths := List.mem_of_getElem? hti
      have hok := hi t htm
      cases hp : t.prog with
      | ret a => exact hi
      | call r k =>
        simp only []
        have hal : guardH t.ctl t.name t.hist r ∧ ∀ x, Always (guardH t.ctl t.name) (t.hist ++ [(r, x)]) (k x) := by
          have := hok.1; rw [hp] at this; exact this
        -- a thread that saw a reply which teaches nothing
        have silent : ∀ x, learn r x = [] →
            Inv { s with ths := s.ths.set i { t with hist := t.hist ++ [(r, x)], prog := k x } } := by
          intro x hx t' ht'
          rcases List.mem_or_eq_of_mem_set ht' with h' | rfl
          · exact hi t' h'
          · refine ⟨hal.2 x, ?_⟩
            intro f hf
            simp only [facts_append, hx, List.append_nil] at hf
            exact hok.2 f hf
        cases o with
        | ok =>
          simp only []
          intro t' ht'
          rcases List.mem_or_eq_of_mem_set ht' with h' | rfl
          · exact (hi t' h').le (le_exec _ _)
          · refine ⟨hal.2 _, ?_⟩
            intro f hf
            simp only [facts_append, List.mem_append] at hf
            rcases hf with hf | hf
            · exact Fact.holds_le (le_exec _ _) f (hok.2 f hf)
            · exact learn_sound _ _ f hf
        | fail => exact silent _ (learn_errResp _ _)
        | conflict => exact silent _ (learn_errResp _ _)
        | crashBefore =>
          intro t' ht'
          simp only [List.mem_map] at ht'
          obtain ⟨t0, h0, rfl⟩ := ht'
          exact ((hi t0 h0).le (le_crash _)).dead
        | crashAfter =>
          intro t' ht'
          simp only [List.mem_map] at ht'
          obtain ⟨t0, h0, rfl⟩ := ht'
          exact ((hi t0 h0).le ((le_exec _ _).trans (le_crash _))).dead

theorem inv_run (s : Sys) (acts : List Act) (hn : ∀ a ∈ acts, a.isCreate = false) (hi : Inv s) : Inv (s.run acts) := by
  induction acts generalizing s with
  | nil => exact hi
  | cons a rest ih =>
    exact ih _ (fun b hb => hn b (List.mem_cons_of_mem _ hb)) (inv_act s a (hn a (List.mem_cons_self ..)) hi)

/-- In every configuration reachable from any store with no reconcile in flight by a
schedule without creation steps, the next
request of every in-flight reconcile satisfies the ordering constraint in the current
state — whatever the interleaving, the faults and the crashes so far. -/
theorem safe_reachable (st0 : St) (acts : List Act) (hn : ∀ a ∈ acts, a.isCreate = false)
    (t : Thread) (r : Req) (k : Resp → P)
    (ht : t ∈ (Sys.run ⟨st0, []⟩ acts).ths) (hp : t.prog = .call r k) :
    safeReq (Sys.run ⟨st0, []⟩ acts).st t.ctl t.name r = true := by
  have hinv : Inv (Sys.run ⟨st0, []⟩ acts) := inv_run _ acts hn (by intro t ht; cases ht)
  have hok := hinv t ht
  have hg : guardH t.ctl t.name t.hist r := by
    have := hok.1; rw [hp] at this; exact this.1
  exact safe_of_guard _ _ _ _ _ hg hok.2

end Xp.C08

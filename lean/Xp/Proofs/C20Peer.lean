import Xp.Proofs.C20Crash
/-
C20 helper lemmas, part 12: interference by a concurrent peer initialiser
(`Xp.runE` / `Xp.ownE` / `Xp.WpE` of Base/Prog.lean instantiated for the C20 store).

* rely `PeerKeeps cas env`: whatever the peer does before any of our calls, it never rewrites a
  protected secret (a complete CA secret, a non-CA secret holding material) – which is what every
  initialiser guarantees itself (`own_step_keeps`), so the rely is met by a peer that is an initialiser
  (`peerInit_keeps`);
* guarantee of our own calls, for ANY environment: `own_step_keeps`, `own_write_shape`;
* `own_leaves_chain`: what our run writes chains to the CA stored at the end of the run;
* `CAWellFormed` / `rerun_succeeds`: a fault-free, interference-free re-run from whatever an
  interfered run leaves behind completes.
-/
namespace Xp.C20
open Xp

variable {α β : Type}

/-! ### the rely -/

/-- the peer never rewrites a protected secret -/
def PeerKeeps (cas : List String) (env : Env Store) : Prop := ∀ k s, KeptFrom cas s (env k s)

theorem peerKeeps_none (cas : List String) : PeerKeeps cas Env.none := fun _ s => keptFrom_refl cas s

/-- a peer that runs the same initialisation (any step list with the same CA names, any generator,
any nonce) obeys the rely -/
theorem peerInit_keeps (g : Generator) (steps : List Step) (cas : List String)
    (h : ∀ ca ∈ caNames steps, ca ∈ cas) (n k0 : Nat) : PeerKeeps cas (peerInit g steps n k0) := by
  intro k s
  unfold peerInit
  split
  · exact kept_of_issues Plan.allOk 0 _ (runSteps_issues_safe g steps cas h n 0) s s (keptFrom_refl _ s) _
      (run_mem_reach sem Plan.allOk 0 _ s)
  · exact keptFrom_refl _ s

/-! ### what a secret write does -/

theorem writes_writeSecret (old : Option Secret) (new : Secret) : (writeSecret old new).writes = some new := by
  cases old <;> rfl

theorem writes_comp {r : Req} {new : Secret} (h : r.writes = some new) : r.comp = some .secrets := by
  cases r <;> simp [Req.writes] at h <;> rfl

/-- a secret write that is answered `ok` stored exactly the secret it carried -/
theorem exec_write_ok {s : Store} {r : Req} {new : Secret} (hw : r.writes = some new) (hok : (exec s r).2 = .ok) :
    findSecret (exec s r).1 new.name = some new := by
  cases r <;> simp [Req.writes] at hw
  case createSecret x =>
    subst hw
    cases hf : findSecret s x.name with
    | some v => simp [exec, hf] at hok
    | none =>
      simp only [exec, hf]
      exact find_append_new _ _ hf
  case updateSecret old x =>
    subst hw
    cases hf : findSecret s x.name with
    | none => simp [exec, hf] at hok
    | some cur =>
      by_cases hc : cur = old
      · simp only [exec, hf, hc, if_true]
        exact find_map_replace_self _ _ _ hf
      · simp [exec, hf, hc] at hok

/-- a secret write that changed the store was applied to an absent name (create) or to exactly the
object it was computed from (update) -/
theorem exec_write_changed {s : Store} {r : Req} (hch : (exec s r).1 ≠ s) :
    (∀ new, r = .createSecret new → findSecret s new.name = none) ∧
    (∀ old new, r = .updateSecret old new → findSecret s new.name = some old) := by
  constructor
  · intro new e
    subst e
    cases hf : findSecret s new.name with
    | none => rfl
    | some v => exact absurd (by simp [exec, hf]) hch
  · intro old new e
    subst e
    cases hf : findSecret s new.name with
    | none => exact absurd (by simp [exec, hf]) hch
    | some cur =>
      by_cases hc : cur = old
      · rw [hc]
      · exact absurd (by simp [exec, hf, hc]) hch

/-! ### (a) the guarantee of our own calls, for every environment -/

/-- every own call of a run keeps every secret that is protected at the moment of the call -/
theorem own_step_keeps (g : Generator) (steps : List Step) (env : Env Store) (plan : Plan) (n : Nat) (s : Store) :
    ∀ x ∈ ownE sem env plan 0 (runSteps g steps n 0) s, KeptFrom (caNames steps) x.1 (exec x.1 x.2).1 := by
  intro x hx
  have hq := ownE_issues sem (SafeReq (caNames steps)) env plan 0 _
    (runSteps_issues_safe g steps (caNames steps) (fun _ h => h) n 0) s x hx
  exact exec_kept (keptFrom_refl _ x.1) hq

/-- the shape of every own secret write that changes the store: a create of an absent object, or an
update of exactly the object that was read, which was not protected -/
theorem own_write_shape (g : Generator) (steps : List Step) (env : Env Store) (plan : Plan) (n : Nat) (s : Store) :
    ∀ x ∈ ownE sem env plan 0 (runSteps g steps n 0) s, (exec x.1 x.2).1 ≠ x.1 →
      (∀ new, x.2 = .createSecret new → findSecret x.1 new.name = none) ∧
      (∀ old new, x.2 = .updateSecret old new →
        findSecret x.1 new.name = some old ∧ ¬ Protected (caNames steps) old) := by
  intro x hx hch
  have hq := ownE_issues sem (SafeReq (caNames steps)) env plan 0 _
    (runSteps_issues_safe g steps (caNames steps) (fun _ h => h) n 0) s x hx
  obtain ⟨h1, h2⟩ := exec_write_changed hch
  refine ⟨h1, ?_⟩
  intro old new e
  have hf := h2 old new e
  refine ⟨hf, ?_⟩
  rw [e] at hq
  obtain ⟨q1, q2⟩ := hq
  have hname : old.name = new.name := find_name hf
  rintro (hp | ⟨hp1, hp2⟩)
  · rw [q1] at hp; cases hp
  · rw [hname] at hp1
    rw [q2 hp1] at hp2; cases hp2

/-- under the rely, protected secrets of the start are in place whenever the run ends (under every
plan: at every instant) -/
theorem kept_under_interference (g : Generator) (steps : List Step) (env : Env Store)
    (henv : PeerKeeps (caNames steps) env) (plan : Plan) (n : Nat) (s : Store) :
    KeptFrom (caNames steps) s (runE sem env plan 0 (runSteps g steps n 0) s).1 :=
  (runE_rel sem (KeptFrom (caNames steps)) (keptFrom_refl _) (fun _ _ _ => keptFrom_trans)
    (SafeReq (caNames steps)) (fun s r hq => exec_kept (keptFrom_refl _ s) hq) env henv plan 0 _
    (runSteps_issues_safe g steps (caNames steps) (fun _ h => h) n 0) s).1

/-! ### (b) our own leaf writes chain to the CA that is stored at the end -/

/-- guarantee of every own call: a secret other than the CA secret is written only while the stored CA
secret is complete and is the signer of the certificate being written -/
def ChainG (ca : String) (refs : List TlsRef) (s : Store) (r : Req) : Prop :=
  ∀ new, r.writes = some new → new.name ≠ ca →
    ∃ sg ref, CAsigner s ca sg ∧ ref ∈ refs ∧ new.name = ref.name ∧ LeafGood sg ref new

def LoadPost (ca : String) (s : Store) (a : Option Signer × Nat) : Prop := ∀ sg, a.1 = some sg → CAsigner s ca sg

theorem chainG_nowrite {ca : String} {refs : List TlsRef} {s : Store} {r : Req} (h : r.writes = none) :
    ChainG ca refs s r := by
  intro new hn; rw [h] at hn; cases hn

theorem chainG_ca {ca : String} {refs : List TlsRef} {s : Store} {r : Req} {x : Secret}
    (h : r.writes = some x) (hx : x.name = ca) : ChainG ca refs s r := by
  intro new hn hne
  rw [h] at hn; cases hn
  exact absurd hx hne

theorem CAsigner_kept {ca : String} {sg : Signer} {s s' : Store} (h : CAsigner s ca sg) (hk : KeptFrom [ca] s s') :
    CAsigner s' ca sg := by
  obtain ⟨sec, h1, h2, h3, h4⟩ := h
  exact ⟨sec, hk ca sec h1 (Or.inl h2), h2, h3, h4⟩

theorem genCA_wp (g : Generator) (ca : String) (refs : List TlsRef) (old : Option Secret) (n : Nat) (s : Store) :
    WpE sem (KeptFrom [ca]) (ChainG ca refs) (genCA g ca old n) (LoadPost ca) s := by
  unfold genCA
  split
  · intro sg h; cases h
  · rename_i kp c _
    intro s' _
    have hw := writes_writeSecret old (caSecret ca old kp c)
    refine ⟨chainG_ca hw rfl, ?_, ?_, ?_⟩
    · show WpE sem _ _ (match (exec s' (writeSecret old (caSecret ca old kp c))).2 with
        | .ok => (.ret (some (Signer.mk kp c), n + 1) : P (Option Signer × Nat))
        | _ => .ret (none, n + 1)) _ (exec s' (writeSecret old (caSecret ca old kp c))).1
      split
      · rename_i hok
        intro sg hsg
        cases hsg
        exact ⟨_, by simpa using exec_write_ok hw hok, by simp [caSecret, isComplete], rfl, rfl⟩
      · intro sg h; cases h
    · intro sg h; cases h
    · intro sg h; cases h

theorem loadCA_wp (g : Generator) (ca : String) (refs : List TlsRef) (n : Nat) (s : Store) :
    WpE sem (KeptFrom [ca]) (ChainG ca refs) (loadOrGenerateCA g ca n) (LoadPost ca) s := by
  unfold loadOrGenerateCA
  intro s' _
  refine ⟨chainG_nowrite rfl, ?_, ?_, ?_⟩
  · show WpE sem _ _ (match (exec s' (.getSecret ca)).2 with
      | .err .notFound => genCA g ca none n
      | .secret sec => if isComplete sec then .ret (parseSigner sec.key sec.crt, n) else genCA g ca (some sec) n
      | _ => .ret (none, n)) _ (exec s' (.getSecret ca)).1
    rw [exec_getSecret]
    cases hf : findSecret s' ca with
    | none => exact genCA_wp g ca refs none n s'
    | some sec =>
      simp only
      split
      · rename_i hc
        intro sg hsg
        obtain ⟨hk, hcr⟩ := parseSigner_inv hsg
        exact ⟨sec, hf, hc, hk, hcr⟩
      · exact genCA_wp g ca refs (some sec) n s'
  · intro sg h; cases h
  · intro sg h; cases h

theorem leafReq_chainG {ca : String} {refs : List TlsRef} {sg : Signer} {s : Store} {r : Req}
    (hs : CAsigner s ca sg) (hq : LeafReq sg refs r) : ChainG ca refs s r := by
  intro new hn _
  cases r <;> simp [Req.writes] at hn
  case createSecret x =>
    subst hn
    obtain ⟨ref, h1, h2, h3⟩ := hq
    exact ⟨sg, ref, hs, h1, h2, h3⟩
  case updateSecret old x =>
    subst hn
    obtain ⟨_, ref, h1, h2, h3⟩ := hq
    exact ⟨sg, ref, hs, h1, h2, h3⟩

theorem tlsStep_wp (g : Generator) (hg : g.Sound) (ca : String) (sv cl : Option TlsRef) (refs : List TlsRef)
    (hrefs : ∀ r ∈ optRefs sv cl, r ∈ refs) (n : Nat) (s : Store) :
    WpE sem (KeptFrom [ca]) (ChainG ca refs) (tlsStep g ca sv cl n) (fun _ _ => True) s := by
  unfold tlsStep
  split
  · trivial
  · refine wpE_bind sem _ _ _ _ _ s ?_
    refine wpE_mono sem _ _ _ (fun _ _ h => h) _ _ _ ?_ s (loadCA_wp g ca refs n s)
    rintro t ⟨osg, n1⟩ hpost
    cases osg with
    | none => trivial
    | some sg =>
      have hsg : CAsigner t ca sg := hpost sg rfl
      simp only
      have hissues : Issues (fun r => LeafReq sg refs r ∧ SafeReq [ca] r)
          (Prog.bind (ensureOpt g sv sg n1) fun (r, n) => match r with
            | .ok => ensureOpt g cl sg n
            | e => .ret (e, n)) := by
        refine issues_bind (issues_and (ensureOpt_issues_leaf g hg sv sg n1 _
          (fun r hr => hrefs r (by simp [optRefs, hr]))) (ensureOpt_issues g sv sg n1)) ?_
        rintro ⟨r, n2⟩
        simp only
        split
        · exact issues_and (ensureOpt_issues_leaf g hg cl sg n2 _ (fun r hr => hrefs r (by simp [optRefs, hr])))
            (ensureOpt_issues g cl sg n2)
        · exact .ret _
      have := wpE_of_issues sem (KeptFrom [ca]) (fun x => CAsigner x ca sg) (fun r => LeafReq sg refs r ∧ SafeReq [ca] r)
        (fun x r hi hq => CAsigner_kept hi (exec_kept (keptFrom_refl _ x) hq.2))
        (fun _ _ hi hk => CAsigner_kept hi hk) _ hissues t hsg
      exact wpE_mono sem _ _ _ (fun _ _ h => leafReq_chainG h.1 h.2.1) _ _ _ (fun _ _ _ => trivial) t this

theorem only_chainG {c : Comp} (hc : c ≠ .secrets) {ca : String} {refs : List TlsRef} {s : Store} {r : Req}
    (h : Only c r) : ChainG ca refs s r := by
  intro new hn _
  have := writes_comp hn
  rcases h with e | e
  · rw [e] at this; cases this
  · rw [e] at this; cases this; exact absurd rfl hc

theorem step_wp (g : Generator) (hg : g.Sound) (ca : String) (refs : List TlsRef) (st : Step)
    (hst : ∀ ca' sv cl, st = .tls ca' sv cl → ca' = ca ∧ ∀ r ∈ optRefs sv cl, r ∈ refs) (n : Nat) (s : Store) :
    WpE sem (KeptFrom [ca]) (ChainG ca refs) (st.prog g n) (fun _ _ => True) s := by
  have key : ∀ (c : Comp) (p : P (Res × Nat)), c ≠ .secrets → Issues (Only c) p →
      WpE sem (KeptFrom [ca]) (ChainG ca refs) p (fun _ _ => True) s := by
    intro c p hc hp
    have := wpE_of_issues sem (KeptFrom [ca]) (fun _ => True) (Only c) (fun _ _ _ _ => trivial)
      (fun _ _ _ _ => trivial) p hp s trivial
    exact wpE_mono sem _ _ _ (fun _ _ h => only_chainG hc h.2) _ _ _ (fun _ _ _ => trivial) s this
  cases st with
  | tls ca' sv cl =>
    obtain ⟨e, hr⟩ := hst ca' sv cl rfl
    subst e
    exact tlsStep_wp g hg ca' sv cl refs hr n s
  | crds ref d => exact key .crds _ (by decide) (withNonce_issues n (crdsStep_issues ref d))
  | whcs ref svc d => exact key .whcs _ (by decide) (withNonce_issues n (whcsStep_issues ref svc d))
  | mig crd old => exact key .crds _ (by decide) (withNonce_issues n (migrateStep_issues crd old))
  | lock => exact key .lock _ (by decide) (withNonce_issues n lockStep_issues)
  | install p c f => exact key .pkgs _ (by decide) (withNonce_issues n (installWith_issues _ p c f))
  | sc ns => exact key .sc _ (by decide) (withNonce_issues n (scStep_issues ns))
  | drc => exact key .drc _ (by decide) (withNonce_issues n drcStep_issues)

theorem runSteps_wp (g : Generator) (hg : g.Sound) (ca : String) (refs : List TlsRef) (steps : List Step)
    (hst : ∀ st ∈ steps, ∀ ca' sv cl, st = .tls ca' sv cl → ca' = ca ∧ ∀ r ∈ optRefs sv cl, r ∈ refs)
    (n d : Nat) (s : Store) :
    WpE sem (KeptFrom [ca]) (ChainG ca refs) (runSteps g steps n d) (fun _ _ => True) s := by
  induction steps generalizing n d s with
  | nil => trivial
  | cons st rest ih =>
    unfold runSteps
    refine wpE_bind sem _ _ _ _ _ s ?_
    refine wpE_mono sem _ _ _ (fun _ _ h => h) _ _ _ ?_ s (step_wp g hg ca refs st (hst st (by simp)) n s)
    rintro t ⟨r, n'⟩ _
    simp only
    split
    · exact ih (fun st' h => hst st' (by simp [h])) _ _ _
    · trivial

/-- (b): every secret other than the CA secret that our run wrote (the write was applied) is, when the
run ends – after whatever a rely-obeying peer did in between –, still exactly what we wrote, and it
chains to the CA stored at that moment and names the configured DNS names. -/
theorem own_leaves_chain (g : Generator) (hg : g.Sound) (steps : List Step) (ca : String)
    (hca : ∀ c ∈ caNames steps, c = ca) (env : Env Store) (henv : PeerKeeps [ca] env)
    (plan : Plan) (n : Nat) (s : Store) :
    ∀ x ∈ ownE sem env plan 0 (runSteps g steps n 0) s, ∀ new, x.2.writes = some new → new.name ≠ ca →
      (exec x.1 x.2).2 = .ok →
      findSecret (runE sem env plan 0 (runSteps g steps n 0) s).1 new.name = some new ∧
      Chained ca (leafRefs steps) (runE sem env plan 0 (runSteps g steps n 0) s).1 new.name := by
  intro x hx new hw hne hok
  have hcas : ∀ c ∈ caNames steps, c ∈ [ca] := fun c hc => by simp [hca c hc]
  have hissues := runSteps_issues_safe g steps [ca] hcas n 0
  have hst : ∀ st ∈ steps, ∀ ca' sv cl, st = .tls ca' sv cl → ca' = ca ∧ ∀ r ∈ optRefs sv cl, r ∈ leafRefs steps := by
    intro st hmem ca' sv cl e
    exact ⟨hca ca' (mem_caNames_of_step hmem e), mem_leafRefs_of_step hmem e⟩
  obtain ⟨hG, _⟩ := wpE_sound sem (KeptFrom [ca]) (ChainG ca (leafRefs steps)) env henv plan 0 _ _ s
    (runSteps_wp g hg ca (leafRefs steps) steps hst n 0 s)
  obtain ⟨sg, ref, hsg, hr1, hr2, c, g1, g2, g3, g4, g5, _⟩ := hG x hx new hw hne
  have hq := ownE_issues sem (SafeReq [ca]) env plan 0 _ hissues s x hx
  obtain ⟨_, hrel⟩ := runE_rel sem (KeptFrom [ca]) (keptFrom_refl _) (fun _ _ _ => keptFrom_trans)
    (SafeReq [ca]) (fun s r hq => exec_kept (keptFrom_refl _ s) hq) env henv plan 0 _ hissues s
  have hpost := (hrel x hx).2
  obtain ⟨sec, s1, s2, _, s4⟩ := CAsigner_kept hsg (exec_kept (keptFrom_refl _ x.1) hq)
  have hfind := exec_write_ok hw hok
  have hch : Chained ca (leafRefs steps) (exec x.1 x.2).1 new.name :=
    ⟨sec, sg.cert, new, c, ref, s1, s2, s4, hfind, g1, g2, g3, g4, hr1, hr2.symm, g5⟩
  refine ⟨hpost new.name new hfind (Or.inr ⟨by simp [hne], by simp [hasMaterial, g1]⟩), ?_⟩
  exact chained_kept hne hch hpost

/-! ### (c) convergence: the re-run after an interfered run completes -/

/-- key and certificate of a complete secret belong together and load as a signer -/
def WFSecret (x : Secret) : Prop :=
  isComplete x = true → ∃ sg, parseSigner x.key x.crt = some sg ∧ sg.key = sg.cert.kp

/-- the CA secret, if complete, loads and its key matches its certificate -/
def CAWellFormed (ca : String) (s : Store) : Prop := ∀ sec, findSecret s ca = some sec → WFSecret sec

/-- the peer never stores a CA secret that does not load (every initialiser stores well-formed ones:
`runSteps_issues_wf`) -/
def PeerWellFormed (ca : String) (env : Env Store) : Prop := ∀ k s, CAWellFormed ca s → CAWellFormed ca (env k s)

/-- the generator does not fail on a self-signed request or on a signer whose key matches its certificate -/
structure Generator.Total (g : Generator) : Prop where
  self : ∀ dns ca n, (g dns ca none n).isSome = true
  signed : ∀ dns ca sg n, sg.key = sg.cert.kp → (g dns ca (some sg) n).isSome = true

def WFReq (r : Req) : Prop := ∀ new, r.writes = some new → WFSecret new

theorem exec_wf {ca : String} {s : Store} {r : Req} (h : CAWellFormed ca s) (hq : WFReq r) :
    CAWellFormed ca (exec s r).1 := by
  by_cases hw : r.comp = some .secrets
  · cases r <;> simp [Req.comp] at hw
    case createSecret x =>
      cases hf : findSecret s x.name with
      | some v => simpa [exec, hf] using h
      | none =>
        intro sec hsec
        simp only [exec, hf] at hsec
        by_cases hn : ca = x.name
        · subst hn
          change List.find? _ (s.secrets ++ [x]) = some sec at hsec
          rw [find_append_new _ _ hf] at hsec
          cases hsec
          exact hq _ rfl
        · exact h sec (by rw [← hsec]; exact (find_append_other _ _ _ hn).symm)
    case updateSecret old x =>
      cases hf : findSecret s x.name with
      | none => simpa [exec, hf] using h
      | some cur =>
        by_cases hc : cur = old
        · intro sec hsec
          simp only [exec, hf, hc, if_true] at hsec
          by_cases hn : ca = x.name
          · subst hn
            change List.find? _ (s.secrets.map fun y => if y.name = x.name then x else y) = some sec at hsec
            rw [find_map_replace_self _ _ _ hf] at hsec
            cases hsec
            exact hq _ rfl
          · exact h sec (by rw [← hsec]; exact (find_map_replace _ _ _ hn).symm)
        · simpa [exec, hf, hc] using h
  · intro sec hsec
    refine h sec ?_
    simp only [findSecret] at hsec ⊢
    rw [frame_secrets s r hw] at hsec; exact hsec

theorem wf_write (old : Option Secret) (new : Secret) (h : WFSecret new) : WFReq (writeSecret old new) := by
  intro x hx
  rw [writes_writeSecret] at hx
  cases hx; exact h

theorem only_wf {c : Comp} (hc : c ≠ .secrets) (r : Req) (h : Only c r) : WFReq r := by
  intro new hn
  have := writes_comp hn
  rcases h with e | e
  · rw [e] at this; cases this
  · rw [e] at this; cases this; exact absurd rfl hc

theorem wf_generated {g : Generator} (hg : g.Sound) {dns : List String} {isCa : Bool} {sgn : Option Signer} {n kp : Nat}
    {c : CertInfo} (h : g dns isCa sgn n = some (kp, c)) (x : Secret) (hk : x.key = .key kp) (hc : x.crt = .cert c) :
    WFSecret x := by
  intro _
  refine ⟨⟨kp, c⟩, by simp [parseSigner, hk, hc], ?_⟩
  exact (hg.kp _ _ _ _ _ _ h).1.symm

theorem tlsStep_issues_wf (g : Generator) (hg : g.Sound) (ca : String) (sv cl : Option TlsRef) (n : Nat) :
    Issues WFReq (tlsStep g ca sv cl n) := by
  have hleaf : ∀ (ref : Option TlsRef) (sg : Signer) (n : Nat), Issues WFReq (ensureOpt g ref sg n) := by
    intro ref sg n
    unfold ensureOpt
    split
    · exact .ret _
    · rename_i r
      have issue : ∀ old, Issues WFReq (issueLeaf g r sg n old) := by
        intro old
        unfold issueLeaf
        split
        · exact .ret _
        · split
          · exact .ret _
          · rename_i kp c hgen
            refine .call _ _ (wf_write _ _ (wf_generated hg hgen _ rfl rfl)) ?_
            intro y; split <;> exact .ret _
      unfold ensureLeaf
      refine .call _ _ (fun _ h => by cases h) ?_
      intro x
      split
      · exact issue _
      · split
        · exact .ret _
        · exact issue _
      · exact .ret _
  have hgen : ∀ old n, Issues WFReq (genCA g ca old n) := by
    intro old n
    unfold genCA
    split
    · exact .ret _
    · rename_i kp c hgen
      refine .call _ _ (wf_write _ _ (wf_generated hg hgen _ rfl rfl)) ?_
      intro y; split <;> exact .ret _
  unfold tlsStep
  split
  · exact .ret _
  · refine issues_bind ?_ ?_
    · unfold loadOrGenerateCA
      refine .call _ _ (fun _ h => by cases h) ?_
      intro x; split
      · exact hgen _ _
      · split
        · exact .ret _
        · exact hgen _ _
      · exact .ret _
    · rintro ⟨sg, n'⟩
      simp only
      split
      · exact .ret _
      · refine issues_bind (hleaf _ _ _) ?_
        rintro ⟨r, n''⟩
        simp only
        split
        · exact hleaf _ _ _
        · exact .ret _

theorem step_issues_wf (g : Generator) (hg : g.Sound) (n : Nat) (st : Step) : Issues WFReq (st.prog g n) := by
  cases st with
  | tls ca sv cl => exact tlsStep_issues_wf g hg ca sv cl n
  | crds ref d => exact withNonce_issues n (issues_mono (only_wf (by decide)) (crdsStep_issues ref d))
  | whcs ref svc d => exact withNonce_issues n (issues_mono (only_wf (by decide)) (whcsStep_issues ref svc d))
  | mig crd old => exact withNonce_issues n (issues_mono (only_wf (by decide)) (migrateStep_issues crd old))
  | lock => exact withNonce_issues n (issues_mono (only_wf (by decide)) lockStep_issues)
  | install p c f => exact withNonce_issues n (issues_mono (only_wf (by decide)) (installWith_issues _ p c f))
  | sc ns => exact withNonce_issues n (issues_mono (only_wf (by decide)) (scStep_issues ns))
  | drc => exact withNonce_issues n (issues_mono (only_wf (by decide)) drcStep_issues)

theorem runSteps_issues_wf (g : Generator) (hg : g.Sound) (steps : List Step) (n d : Nat) :
    Issues WFReq (runSteps g steps n d) :=
  runSteps_issues g steps (fun st _ n' => step_issues_wf g hg n' st) n d

/-- whatever a well-formedness-preserving peer and the fault plan do, an (interfered, aborted) run
leaves the CA secret well-formed -/
theorem wf_after_interference (g : Generator) (hg : g.Sound) (steps : List Step) (ca : String)
    (env : Env Store) (hw : PeerWellFormed ca env) (plan : Plan) (n : Nat) (s : Store) (hs : CAWellFormed ca s) :
    CAWellFormed ca (runE sem env plan 0 (runSteps g steps n 0) s).1 :=
  runE_inv sem (CAWellFormed ca) WFReq (fun _ _ hi hq => exec_wf hi hq) env hw plan 0 _
    (runSteps_issues_wf g hg steps n 0) s hs

theorem genCA_succeeds (g : Generator) (hg : g.Sound) (ht : g.Total) (ca : String) (old : Option Secret) (n : Nat) (t : Store)
    (ho : findSecret t ca = old) :
    ∃ t1 sg n1, evalOk (genCA g ca old n) t = (t1, (some sg, n1)) ∧ sg.key = sg.cert.kp := by
  unfold genCA
  cases hgen : g ["crossplane-root-ca"] true none n with
  | none => have := ht.self ["crossplane-root-ca"] true n; rw [hgen] at this; cases this
  | some kc =>
    obtain ⟨kp, c⟩ := kc
    obtain ⟨e1, _, _⟩ := exec_write t old (caSecret ca old kp c) (by simpa using ho)
    simp only [evalOk_call, e1, evalOk_ret]
    exact ⟨_, _, _, rfl, (hg.kp _ _ _ _ _ _ hgen).1.symm⟩

theorem load_succeeds (g : Generator) (hg : g.Sound) (ht : g.Total) (ca : String) (n : Nat) (t : Store)
    (hwf : CAWellFormed ca t) :
    ∃ t1 sg n1, evalOk (loadOrGenerateCA g ca n) t = (t1, (some sg, n1)) ∧ sg.key = sg.cert.kp := by
  unfold loadOrGenerateCA
  simp only [evalOk_call, exec_getSecret]
  cases hf : findSecret t ca with
  | none => exact genCA_succeeds g hg ht ca none n t hf
  | some sec =>
    simp only
    split
    · rename_i hc
      obtain ⟨sg, hp, hk⟩ := hwf sec hf hc
      exact ⟨t, sg, n, by simp [hp], hk⟩
    · exact genCA_succeeds g hg ht ca (some sec) n t hf

def dnsOK (ref : Option TlsRef) : Prop := ∀ r, ref = some r → r.dns ≠ []

theorem ensureOpt_succeeds (g : Generator) (ht : g.Total) (ref : Option TlsRef) (sg : Signer) (n : Nat) (t : Store)
    (hsg : sg.key = sg.cert.kp) (hd : dnsOK ref) : ∃ t' n', evalOk (ensureOpt g ref sg n) t = (t', (Res.ok, n')) := by
  unfold ensureOpt
  cases ref with
  | none => exact ⟨t, n, rfl⟩
  | some r =>
    simp only
    have issue : ∀ old, findSecret t r.name = old → ∃ t' n', evalOk (issueLeaf g r sg n old) t = (t', (Res.ok, n')) := by
      intro old ho
      unfold issueLeaf
      rw [if_neg (hd r rfl)]
      cases hgen : g r.dns false (some sg) n with
      | none => have := ht.signed r.dns false sg n hsg; rw [hgen] at this; cases this
      | some kc =>
        obtain ⟨kp, c⟩ := kc
        obtain ⟨e1, _, _⟩ := exec_write t old (leafSecret r.name old kp c sg) (by simpa using ho)
        simp only [evalOk_call, e1, evalOk_ret]
        exact ⟨_, _, rfl⟩
    unfold ensureLeaf
    simp only [evalOk_call, exec_getSecret]
    cases hf : findSecret t r.name with
    | none => exact issue none hf
    | some sec =>
      simp only
      split
      · exact ⟨t, n, rfl⟩
      · exact issue (some sec) hf

/-- from a store whose CA secret is well-formed a fault-free, interference-free TLS step completes -/
theorem tls_succeeds (g : Generator) (hg : g.Sound) (ht : g.Total) (ca : String) (sv cl : Option TlsRef) (n : Nat) (t : Store)
    (hwf : CAWellFormed ca t) (hsv : dnsOK sv) (hcl : dnsOK cl) :
    ∃ t' n', evalOk (tlsStep g ca sv cl n) t = (t', (Res.ok, n')) := by
  unfold tlsStep
  split
  · exact ⟨t, n, rfl⟩
  · obtain ⟨t1, sg, n1, e1, hk⟩ := load_succeeds g hg ht ca n t hwf
    rw [evalOk_bind, e1]
    simp only
    obtain ⟨t2, n2, e2⟩ := ensureOpt_succeeds g ht sv sg n1 t1 hk hsv
    rw [evalOk_bind, e2]
    simp only
    exact ensureOpt_succeeds g ht cl sg n2 t2 hk hcl

/-- a step list that consists of TLS steps for the CA secret `ca` with non-empty DNS names -/
def TlsOnly (ca : String) (steps : List Step) : Prop :=
  ∀ st ∈ steps, ∃ sv cl, st = .tls ca sv cl ∧ dnsOK sv ∧ dnsOK cl

theorem tlsSteps_succeed (g : Generator) (hg : g.Sound) (ht : g.Total) (ca : String) (steps : List Step)
    (hsteps : TlsOnly ca steps) (n d : Nat) (t : Store) (hwf : CAWellFormed ca t) :
    ∃ t' n', evalOk (runSteps g steps n d) t = (t', (Res.ok, n', d + steps.length)) := by
  induction steps generalizing n d t with
  | nil => exact ⟨t, n, rfl⟩
  | cons st rest ih =>
    obtain ⟨sv, cl, e, hsv, hcl⟩ := hsteps st (by simp)
    subst e
    obtain ⟨t1, n1, e1⟩ := tls_succeeds g hg ht ca sv cl n t hwf hsv hcl
    have hwf1 : CAWellFormed ca t1 := by
      have := evalOk_inv (CAWellFormed ca) WFReq (fun _ _ hi hq => exec_wf hi hq) _
        (tlsStep_issues_wf g hg ca sv cl n) t hwf
      rw [e1] at this; exact this
    obtain ⟨t', n', e'⟩ := ih (fun st' h => hsteps st' (by simp [h])) n1 (d + 1) t1 hwf1
    refine ⟨t', n', ?_⟩
    rw [runSteps_cons_eval]
    show (match (evalOk (tlsStep g ca sv cl n) t).2 with
      | (.ok, n') => evalOk (runSteps g rest n' (d + 1)) (evalOk (tlsStep g ca sv cl n) t).1
      | (e, n') => ((evalOk (tlsStep g ca sv cl n) t).1, (e, n', d))) = _
    rw [e1]
    simp only
    rw [e']
    simp; omega

/-- (c): after a run disturbed by a peer (any writes that keep the CA secret well-formed) and by any
fault plan, a fault-free, interference-free re-run completes and keeps every protected secret it finds -/
theorem rerun_succeeds (g : Generator) (hg : g.Sound) (ht : g.Total) (ca : String) (steps : List Step)
    (hsteps : TlsOnly ca steps) (env : Env Store) (hw : PeerWellFormed ca env) (plan : Plan) (n m : Nat)
    (s : Store) (hs : CAWellFormed ca s) :
    ∃ t' m', run sem Plan.allOk 0 (runSteps g steps m 0) (runE sem env plan 0 (runSteps g steps n 0) s).1 =
        (t', some (Res.ok, m', steps.length)) ∧
      KeptFrom (caNames steps) (runE sem env plan 0 (runSteps g steps n 0) s).1 t' := by
  have hwf := wf_after_interference g hg steps ca env hw plan n s hs
  obtain ⟨t', m', e⟩ := tlsSteps_succeed g hg ht ca steps hsteps m 0 _ hwf
  refine ⟨t', m', ?_, ?_⟩
  · rw [run_allOk, e]; simp
  · have := kept_of_issues Plan.allOk 0 _ (runSteps_issues_safe g steps (caNames steps) (fun _ h => h) m 0)
      _ _ (keptFrom_refl _ _) _ (run_mem_reach sem Plan.allOk 0 (runSteps g steps m 0)
        (runE sem env plan 0 (runSteps g steps n 0) s).1)
    rw [run_allOk, e] at this
    exact this

/-- a peer that is an initialiser (sound generator) never stores a CA secret that does not load -/
theorem peerInit_wf (g : Generator) (hg : g.Sound) (steps : List Step) (ca : String) (n k0 : Nat) :
    PeerWellFormed ca (peerInit g steps n k0) := by
  intro k s hs
  unfold peerInit
  split
  · exact reach_inv sem (CAWellFormed ca) WFReq (fun _ _ hi hq => exec_wf hi hq) Plan.allOk 0 _
      (runSteps_issues_wf g hg steps n 0) s hs _ (run_mem_reach sem Plan.allOk 0 _ s)
  · exact hs

/-! ### the concrete peers used by the examples of Props/C20.lean -/

/-- the TLS step of core.initCommand.Run with webhooks enabled -/
def pxSteps : List Step :=
  [.tls "crossplane-root-ca"
    (some ⟨"crossplane-tls-server", ["crossplane-webhooks", "crossplane-webhooks.crossplane-system", "crossplane-webhooks.crossplane-system.svc"]⟩)
    (some ⟨"crossplane-tls-client", ["crossplane.crossplane-system"]⟩)]

/-- a cluster without any TLS secret -/
def pxFresh : Store := ⟨[], [], [], [], [], none, none, none⟩

/-- pod B: the same initialisation (key pairs 500, 501, 502), run to completion right before OUR call 1 –
our Create of the CA secret, after our Get (call 0) was answered NotFound -/
def pxPeer : Env Store := peerInit stdGen pxSteps 500 1

/-- a peer that obeys the rely but is not an initialiser: it drops a certificate of a foreign authority
into the server secret if that secret does not exist -/
def pxForeign : Env Store := fun k s =>
  if k = 0 ∧ findSecret s "crossplane-tls-server" = none then
    { s with secrets := s.secrets ++ [⟨"crossplane-tls-server", .cert ⟨9, 9, ["old.example.org"], false⟩, .key 9,
        .cert ⟨9, 9, ["crossplane-root-ca"], true⟩, 0, 0⟩] }
  else s

theorem pxForeign_keeps : PeerKeeps ["crossplane-root-ca"] pxForeign := by
  intro k s
  unfold pxForeign
  split
  · intro n sec h _
    simp only [findSecret] at h ⊢
    exact find_append_some _ _ _ _ h
  · exact keptFrom_refl _ s

/-- a peer that breaks the rely: before our call 1 it overwrites the CA secret -/
def pxRogue : Env Store := fun k s =>
  if k = 1 then upsertSecret s ⟨"crossplane-root-ca", .cert ⟨7, 7, ["crossplane-root-ca"], true⟩, .key 7, .empty, 0, 0⟩ else s

/-- a cluster whose CA secret is complete -/
def pxWithCA : Store :=
  ⟨[⟨"crossplane-root-ca", .cert ⟨1, 1, ["crossplane-root-ca"], true⟩, .key 1, .empty, 0, 0⟩], [], [], [], [], none, none, none⟩

end Xp.C20

import Xp.Proofs.C19Store
/-
C19 helper lemmas: the rendered index key `group.kind.name` is injective on identifiers as the
API server admits them (groups without upper-case letters, Kinds starting with one and dot-free).
-/
namespace Xp.C19

theorem split_first_dot : ∀ (k k' n n' : List Char), '.' ∉ k → '.' ∉ k' →
    k ++ '.' :: n = k' ++ '.' :: n' → k = k' ∧ n = n'
  | [], [], n, n', _, _, h => by simpa using h
  | [], c :: k', n, n', _, hk', h => by
    simp only [List.nil_append, List.cons_append, List.cons.injEq] at h
    exact absurd (by rw [← h.1]; exact List.mem_cons_self) hk'
  | c :: k, [], n, n', hk, _, h => by
    simp only [List.nil_append, List.cons_append, List.cons.injEq] at h
    exact absurd (by rw [h.1]; exact List.mem_cons_self) hk
  | c :: k, c' :: k', n, n', hk, hk', h => by
    simp only [List.cons_append, List.cons.injEq] at h
    have ih := split_first_dot k k' n n' (fun hm => hk (List.mem_cons_of_mem _ hm))
      (fun hm => hk' (List.mem_cons_of_mem _ hm)) h.2
    exact ⟨by rw [h.1, ih.1], ih.2⟩

/-- a lower-case prefix followed by a dot cannot be confused with the start of a Kind -/
theorem no_kind_head (g1 : List Char) (rest : List Char) (u : Char) (ks tail : List Char)
    (hg1 : ∀ c ∈ g1, c.isUpper = false) (hu : u.isUpper = true)
    (h : u :: ks ++ tail = g1 ++ '.' :: rest) : False := by
  cases g1 with
  | nil =>
    simp only [List.nil_append, List.cons_append, List.cons.injEq] at h
    rw [h.1] at hu
    exact absurd hu (by decide)
  | cons d g2 =>
    simp only [List.cons_append, List.cons.injEq] at h
    have := hg1 d List.mem_cons_self
    rw [← h.1, hu] at this
    cases this

theorem key_split : ∀ (g g' k k' n n' : List Char),
    (∀ c ∈ g, c.isUpper = false) → (∀ c ∈ g', c.isUpper = false) →
    (∃ c cs, k = c :: cs ∧ c.isUpper = true) → '.' ∉ k →
    (∃ c cs, k' = c :: cs ∧ c.isUpper = true) → '.' ∉ k' →
    g ++ '.' :: (k ++ '.' :: n) = g' ++ '.' :: (k' ++ '.' :: n') → g = g' ∧ k = k' ∧ n = n'
  | [], [], k, k', n, n', _, _, _, hk, _, hk', h => by
    simp only [List.nil_append, List.cons.injEq, true_and] at h
    exact ⟨rfl, split_first_dot k k' n n' hk hk' h⟩
  | [], c :: g1, k, k', n, n', _, hg', ⟨u, ks, hku, hu⟩, _, _, _, h => by
    simp only [List.nil_append, List.cons_append, List.cons.injEq] at h
    subst hku
    exact (no_kind_head g1 _ u ks _ (fun c hc => hg' c (List.mem_cons_of_mem _ hc)) hu h.2).elim
  | c :: g1, [], k, k', n, n', hg, _, _, _, ⟨u, ks, hku, hu⟩, _, h => by
    simp only [List.nil_append, List.cons_append, List.cons.injEq] at h
    subst hku
    exact (no_kind_head g1 _ u ks _ (fun c hc => hg c (List.mem_cons_of_mem _ hc)) hu h.2.symm).elim
  | c :: g1, c' :: g2, k, k', n, n', hg, hg', hk1, hk2, hk1', hk2', h => by
    simp only [List.cons_append, List.cons.injEq] at h
    have ih := key_split g1 g2 k k' n n' (fun x hx => hg x (List.mem_cons_of_mem _ hx))
      (fun x hx => hg' x (List.mem_cons_of_mem _ hx)) hk1 hk2 hk1' hk2' h.2
    exact ⟨by rw [h.1, ih.1], ih.2⟩

theorem indexKey_toList (g k n : String) :
    (indexKey g k n).toList = g.toList ++ '.' :: (k.toList ++ '.' :: n.toList) := by
  have hd : (".":String).toList = ['.'] := by decide
  simp only [indexKey, String.toList_append, hd, List.append_assoc, List.cons_append, List.nil_append]

/-- the rendered key determines group, kind and name on well-formed identifiers -/
theorem indexKey_inj {g k n g' k' n' : String} (hg : lowerId g) (hk : kindId k) (hg' : lowerId g') (hk' : kindId k')
    (h : indexKey g k n = indexKey g' k' n') : g = g' ∧ k = k' ∧ n = n' := by
  have hl := congrArg String.toList h
  rw [indexKey_toList, indexKey_toList] at hl
  obtain ⟨h1, h2, h3⟩ := key_split _ _ _ _ _ _ hg hg' hk.1 hk.2 hk'.1 hk'.2 hl
  exact ⟨String.ext h1, String.ext h2, String.ext h3⟩

/-- on well-formed identifiers "indexed under the object's key" is "names the object" -/
theorem indexedBy_iff_names {u : Usage} {r : Res} (hu : lowerId (groupOf u.of.av) ∧ kindId u.of.kind)
    (hr : lowerId r.group ∧ kindId r.kind) :
    u.indexedBy (indexKey r.group r.kind r.name) = true ↔ u.names r = true := by
  constructor
  · intro h
    obtain ⟨hne, hkey⟩ := (Usage.indexedBy_iff u _).mp h
    obtain ⟨h1, h2, h3⟩ := indexKey_inj hu.1 hu.2 hr.1 hr.2 hkey
    exact (Usage.names_iff u r).mpr ⟨hne, h1, h2, h3⟩
  · exact names_indexedBy

/-- the group of a lower-case apiVersion is lower-case -/
theorem lowerId_groupOf {av : String} (h : lowerId av) : lowerId (groupOf av) := by
  have hempty : lowerId "" := by intro c hc; simp at hc
  unfold groupOf parseGV
  simp only
  split
  · exact hempty
  · split
    · exact hempty
    · intro c hc
      simp only [Option.getD_some, String.toList_ofList] at hc
      exact h c ((List.takeWhile_sublist _).mem hc)
    · exact hempty

end Xp.C19

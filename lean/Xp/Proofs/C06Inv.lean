import Xp.Model.C06
/-
C06 helper lemmas, part 1: the store invariant, the "possible future" preorder
under which thread-local knowledge is stable, and their preservation by every
API call (under the guarantee `G`) and by every environment step.
-/
namespace Xp.C06

/-- `b` keeps whatever resourceRef `a` has (the reference is set-once) -/
def refExt (a b : Claim) : Prop := ∀ n, a.refName = some n → b.refName = some n

theorem refExt_refl (a : Claim) : refExt a a := fun _ h => h

theorem refExt_trans {a b c : Claim} (h1 : refExt a b) (h2 : refExt b c) : refExt a c :=
  fun n h => h2 n (h1 n h)

/-- some stored version of the claim carried `spec.resourceRef.name = n` -/
def acked (s : St) (n : Name) : Prop := ∃ v ∈ s.hist, v.refName = some n

/-- `x` carries a claimRef that is not this claim's reference (it differs in at least one of name,
namespace, group, version, kind) -/
def XR.foreignTo (x : XR) (me : CRef) : Prop := ∃ r, x.cref = some r ∧ r ≠ me

/-- XR `n` exists and its claimRef names another claim, in a world WITHOUT other claims' controllers
(`St.peers = false`). There the fact "not foreign" is stable (nobody but this controller sets a
claimRef); in a world with peers nothing of the kind is (`foreignAt` is then constantly false and
the guarantee about unconditional writes is void: see `SeenRv` for what remains). -/
def foreignAt (s : St) (n : Name) : Prop := s.peers = false ∧ ∃ x, s.xrs n = some x ∧ x.foreignTo s.me

/-- some state XR `n` ever had carried resourceVersion `v` and was not bound to another claim: what a
thread knows after reading such a state; a write that carries `v` can only take effect on a state
with the same claimRef (`Inv.rvU`), in every world -/
def SeenRv (s : St) (n : Name) (v : Nat) : Prop := ∃ x, some x ∈ s.xhist n ∧ x.rv = v ∧ ¬ x.foreignTo s.me

/-- some state the name `n` ever had since the start was absent, unbound or bound to this claim: what a thread
knows after ANY read of the name that passed the bound check (or answered NotFound), in every world -/
def SeenNF (s : St) (n : Name) : Prop := ∃ ox ∈ s.xhist n, ∀ x, ox = some x → ¬ x.foreignTo s.me

/-- what the reconcile knows about the name before an UNCONDITIONAL request: in a world without other claims'
controllers the XR is not foreign NOW; in every world it was not foreign in SOME state of the name -/
def NF (s : St) (n : Name) : Prop := ¬ foreignAt s n ∧ SeenNF s n

/-- XR `n` exists and its claimRef is exactly this claim's reference -/
def boundAt (s : St) (n : Name) : Prop := ∃ x, s.xrs n = some x ∧ x.cref = some s.me

/-- the ghost trace is well formed: every `create n` has an older `ack n` (or `n` was
already recorded before the start), and no write ever hit a foreign-bound XR -/
def TraceOk (P0 : Name → Prop) (strict : Prop) (me : CRef) : List Ev → Prop
  | [] => True
  | e :: t => TraceOk P0 strict me t ∧ (∀ n, e = .create n → Ev.ack n ∈ t ∨ P0 n) ∧
      (∀ n r, e = .xrWrite n (some r) → strict → r = me) ∧ (∀ n r, e = .xrWriteG n (some r) → r = me)

/-- newest-first history: strictly decreasing rv, set-once resourceRef -/
def HistOk (l : List Claim) : Prop :=
  l.Pairwise (fun newer older => older.rv < newer.rv ∧ refExt older newer)

structure Inv (P0 : Name → Prop) (s : St) : Prop where
  rvLt : ∀ v ∈ s.hist, v.rv < s.nextRv
  mono : HistOk s.hist
  cur : ∀ c, s.claim = some c → ∃ t, s.hist = c :: t
  bound : ∀ n, boundAt s n → acked s n
  ackd : ∀ n, acked s n → Ev.ack n ∈ s.trace ∨ P0 n
  ackHist : ∀ n, Ev.ack n ∈ s.trace → acked s n
  p0 : ∀ n, P0 n → acked s n
  trace : TraceOk P0 (s.peers = false) s.me s.trace
  /-- every stored version of the claim is the same object: `cm.GetReference()` never changes -/
  idOk : ∀ v ∈ s.hist, v.id = s.me
  /-- the stored state of every XR name is the newest entry of its history -/
  xcur : ∀ n, s.xrs n ∈ s.xhist n
  /-- an XR that is bound to another claim now has been so in every state the name ever had:
  nobody but this controller creates XRs or sets a claimRef, and it only ever writes its own -/
  xfor : ∀ n, foreignAt s n → ∀ ox ∈ s.xhist n, ∃ x, ox = some x ∧ x.foreignTo s.me
  /-- resourceVersions of XR states are below the counter … -/
  xrvLt : ∀ n x, some x ∈ s.xhist n → x.rv < s.nextRv
  /-- … and two states of a name with the same resourceVersion carry the same claimRef -/
  rvU : ∀ n a b, some a ∈ s.xhist n → some b ∈ s.xhist n → a.rv = b.rv → a.cref = b.cref

/-- `s'` is a possible future of `s`: what a thread learnt in `s` and may still rely on in `s'` -/
structure Fut (s s' : St) : Prop where
  hist : ∀ v ∈ s.hist, v ∈ s'.hist
  notForeign : ∀ n, ¬ foreignAt s n → ¬ foreignAt s' n
  /-- XR state histories only grow -/
  xh : ∀ n ox, ox ∈ s.xhist n → ox ∈ s'.xhist n
  me : s'.me = s.me

theorem Fut.refl (s : St) : Fut s s := ⟨fun _ h => h, fun _ h => h, fun _ _ h => h, rfl⟩

theorem Fut.trans {a b c : St} (h1 : Fut a b) (h2 : Fut b c) : Fut a c :=
  ⟨fun v h => h2.hist v (h1.hist v h), fun n h => h2.notForeign n (h1.notForeign n h),
    fun n ox h => h2.xh n ox (h1.xh n ox h), h2.me.trans h1.me⟩

theorem Fut.seen {s s' : St} (h : Fut s s') {n : Name} {v : Nat} (hs : SeenRv s n v) : SeenRv s' n v := by
  obtain ⟨x, hx, hv, hnf⟩ := hs
  exact ⟨x, h.xh n _ hx, hv, by rw [h.me]; exact hnf⟩

theorem Fut.seenNF {s s' : St} (h : Fut s s') {n : Name} (hs : SeenNF s n) : SeenNF s' n := by
  obtain ⟨ox, hox, hnf⟩ := hs
  exact ⟨ox, h.xh n _ hox, by rw [h.me]; exact hnf⟩

theorem Fut.nf {s s' : St} (h : Fut s s') {n : Name} (hs : NF s n) : NF s' n :=
  ⟨h.notForeign n hs.1, h.seenNF hs.2⟩

theorem Fut.acked {s s' : St} (h : Fut s s') {n : Name} (ha : acked s n) : acked s' n := by
  obtain ⟨v, hv, hr⟩ := ha
  exact ⟨v, h.hist v hv, hr⟩

/-- The guarantee: what must hold of a request at the instant it is applied. -/
def G (s : St) : Req → Prop
  | .getClaim _ => True
  | .getXR _ _ => True
  | .updClaimStatus _ => True
  | .updClaim c => ∃ v ∈ s.hist, v.rv = c.rv ∧ refExt v c
  | .upgradeXR n rv _ => (¬ foreignAt s n ∧ SeenRv s n rv) ∧ acked s n
  | .deleteXR n _ => NF s n ∧ acked s n
  | .createXR n _ cref => acked s n ∧ cref = s.me
  | .patchXR n rv cref => ((acked s n ∧ NF s n) ∧ cref = s.me) ∧ ∀ v, rv = some v → SeenRv s n v
  | .applyXR n cref => (acked s n ∧ NF s n) ∧ cref = s.me

/-! ### history lemmas -/

theorem pairwise_mem_cases {α : Type} {R : α → α → Prop} {l : List α} (h : l.Pairwise R) {a b : α}
    (ha : a ∈ l) (hb : b ∈ l) : a = b ∨ R a b ∨ R b a := by
  induction l with
  | nil => cases ha
  | cons x xs ih =>
    rw [List.pairwise_cons] at h
    rcases List.mem_cons.mp ha with rfl | ha'
    · rcases List.mem_cons.mp hb with rfl | hb'
      · exact Or.inl rfl
      · exact Or.inr (Or.inl (h.1 b hb'))
    · rcases List.mem_cons.mp hb with rfl | hb'
      · exact Or.inr (Or.inr (h.1 a ha'))
      · exact ih h.2 ha' hb'

theorem hist_rv_inj {l : List Claim} (h : HistOk l) {a b : Claim} (ha : a ∈ l) (hb : b ∈ l)
    (hrv : a.rv = b.rv) : a = b := by
  rcases pairwise_mem_cases h ha hb with e | ⟨hlt, _⟩ | ⟨hlt, _⟩
  · exact e
  · omega
  · omega

/-- set-once, as a statement about any two stored versions -/
theorem hist_ref_unique {l : List Claim} (h : HistOk l) {a b : Claim} (ha : a ∈ l) (hb : b ∈ l)
    {n m : Name} (hn : a.refName = some n) (hm : b.refName = some m) : n = m := by
  rcases pairwise_mem_cases h ha hb with e | ⟨_, hx⟩ | ⟨_, hx⟩
  · subst e; rw [hn] at hm; exact Option.some.inj hm
  · have := hx m hm; rw [hn] at this; exact Option.some.inj this
  · have := hx n hn; rw [hm] at this; exact (Option.some.inj this).symm

theorem acked_unique {P0 : Name → Prop} {s : St} (hi : Inv P0 s) {n m : Name} (hn : acked s n) (hm : acked s m) : n = m := by
  obtain ⟨a, ha, han⟩ := hn
  obtain ⟨b, hb, hbm⟩ := hm
  exact hist_ref_unique hi.mono ha hb han hbm

theorem cur_mem {P0 : Name → Prop} {s : St} (hi : Inv P0 s) {c : Claim} (hc : s.claim = some c) : c ∈ s.hist := by
  obtain ⟨t, ht⟩ := hi.cur c hc
  rw [ht]; exact List.mem_cons_self

/-- a (possibly stale) read that shows XR `n` absent, unbound or bound to this claim proves that
`n` is not bound to another claim now -/
theorem not_foreign_of_hist {P0 : Name → Prop} {s : St} (hi : Inv P0 s) {n : Name} {ox : Option XR}
    (hox : ox ∈ s.xhist n) (h : ∀ x, ox = some x → ¬ x.foreignTo s.me) : ¬ foreignAt s n := by
  intro hf
  obtain ⟨x, hx, hc⟩ := hi.xfor n hf ox hox
  exact h x hx hc

theorem nf_of_hist {P0 : Name → Prop} {s : St} (hi : Inv P0 s) {n : Name} {ox : Option XR}
    (hox : ox ∈ s.xhist n) (h : ∀ x, ox = some x → ¬ x.foreignTo s.me) : NF s n :=
  ⟨not_foreign_of_hist hi hox h, ox, hox, h⟩

/-! ### primitives preserve the invariant -/

theorem inv_emit {P0 : Name → Prop} {s : St} (hi : Inv P0 s) (e : Ev)
    (h1 : ∀ n, e = .create n → Ev.ack n ∈ s.trace ∨ P0 n) (h2 : ∀ n r, e = .xrWrite n (some r) → s.peers = false → r = s.me)
    (h2g : ∀ n r, e = .xrWriteG n (some r) → r = s.me)
    (h3 : ∀ n, e = .ack n → acked s n) : Inv P0 (emit s e) where
  rvLt := hi.rvLt
  mono := hi.mono
  cur := hi.cur
  bound := hi.bound
  ackd := fun n h => by
    rcases hi.ackd n h with h | h
    · exact Or.inl (List.mem_cons_of_mem _ h)
    · exact Or.inr h
  ackHist := fun n h => by
    rcases List.mem_cons.mp h with h | h
    · exact h3 n h.symm
    · exact hi.ackHist n h
  p0 := hi.p0
  trace := ⟨hi.trace, h1, h2, h2g⟩
  idOk := hi.idOk
  xcur := hi.xcur
  xfor := hi.xfor
  xrvLt := hi.xrvLt
  rvU := hi.rvU

theorem fut_emit (s : St) (e : Ev) : Fut s (emit s e) := ⟨fun _ h => h, fun _ h => h, fun _ _ h => h, rfl⟩

theorem acked_pushClaim {s : St} {c : Claim} {n : Name} (h : acked s n) : acked (pushClaim s c).1 n := by
  obtain ⟨v, hv, hr⟩ := h
  exact ⟨v, List.mem_cons_of_mem _ hv, hr⟩

theorem fut_pushClaim (s : St) (c : Claim) : Fut s (pushClaim s c).1 :=
  ⟨fun _ h => List.mem_cons_of_mem _ h, fun _ h => h, fun _ _ h => h, rfl⟩

theorem pushClaim_resp_mem (s : St) (c : Claim) : (pushClaim s c).2 ∈ (pushClaim s c).1.hist :=
  List.mem_cons_self

theorem traceOk_append_acks {P0 : Name → Prop} {strict : Prop} {me : CRef} {extra tr : List Ev} (h : TraceOk P0 strict me tr)
    (he : ∀ e ∈ extra, ∃ n, e = Ev.ack n) : TraceOk P0 strict me (extra ++ tr) := by
  induction extra with
  | nil => exact h
  | cons e es ih =>
    obtain ⟨n, rfl⟩ := he e List.mem_cons_self
    refine ⟨ih (fun e' h' => he e' (List.mem_cons_of_mem _ h')), ?_, ?_, ?_⟩
    · intro m hm; cases hm
    · intro m r hm; cases hm
    · intro m r hm; cases hm

/-- storing a new version `c` on top of the current one (while appending acknowledgement
events `extra`) keeps the invariant provided `c` keeps the current resourceRef, `extra`
only acknowledges `c`'s reference, and `c`'s reference (if any) is acknowledged -/
theorem inv_pushClaim {P0 : Name → Prop} {s : St} (hi : Inv P0 s) {cur c : Claim} (extra : List Ev)
    (hc : s.claim = some cur) (hext : refExt cur c)
    (hextra : ∀ e ∈ extra, ∃ n, e = Ev.ack n ∧ c.refName = some n)
    (hack : ∀ n, c.refName = some n → Ev.ack n ∈ extra ++ s.trace ∨ P0 n) (hid : c.id = s.me) :
    Inv P0 (pushClaim { s with trace := extra ++ s.trace } c).1 := by
  obtain ⟨t, ht⟩ := hi.cur cur hc
  have hmono := hi.mono
  unfold HistOk at hmono
  rw [ht, List.pairwise_cons] at hmono
  have hacked : ∀ n, acked s n → acked (pushClaim { s with trace := extra ++ s.trace } c).1 n := by
    intro n ⟨v, hv, hr⟩
    exact ⟨v, List.mem_cons_of_mem _ hv, hr⟩
  refine
    { rvLt := ?_, mono := ?_, cur := ?_, bound := ?_, ackd := ?_, ackHist := ?_, p0 := ?_, trace := ?_,
      idOk := ?_, xcur := hi.xcur, xfor := hi.xfor, xrvLt := ?_, rvU := hi.rvU }
  · intro v hv
    simp only [pushClaim] at hv ⊢
    rcases List.mem_cons.mp hv with rfl | hv
    · simp
    · have := hi.rvLt v hv; omega
  · simp only [pushClaim, HistOk]
    rw [List.pairwise_cons]
    refine ⟨?_, hi.mono⟩
    intro v hv
    refine ⟨by simpa using hi.rvLt v hv, ?_⟩
    have hcv : refExt v cur := by
      rw [ht] at hv
      rcases List.mem_cons.mp hv with rfl | hv
      · exact refExt_refl _
      · exact (hmono.1 v hv).2
    intro n hn
    exact hext n (hcv n hn)
  · intro c' hc'
    simp only [pushClaim] at hc' ⊢
    split at hc'
    · cases hc'
    · cases hc'; exact ⟨_, rfl⟩
  · intro n hb
    exact hacked n (hi.bound n hb)
  · intro n ⟨v, hv, hr⟩
    simp only [pushClaim] at hv
    rcases List.mem_cons.mp hv with rfl | hv
    · exact hack n hr
    · rcases hi.ackd n ⟨v, hv, hr⟩ with h | h
      · exact Or.inl (List.mem_append_right _ h)
      · exact Or.inr h
  · intro n hn
    simp only [pushClaim] at hn
    rcases List.mem_append.mp hn with hn | hn
    · obtain ⟨m, hm, hr⟩ := hextra _ hn
      cases hm
      exact ⟨_, List.mem_cons_self, hr⟩
    · exact hacked n (hi.ackHist n hn)
  · intro n hn
    exact hacked n (hi.p0 n hn)
  · simp only [pushClaim]
    exact traceOk_append_acks hi.trace (fun e he => by obtain ⟨n, hn, _⟩ := hextra e he; exact ⟨n, hn⟩)
  · intro v hv
    simp only [pushClaim] at hv ⊢
    rcases List.mem_cons.mp hv with rfl | hv
    · exact hid
    · exact hi.idOk v hv
  · intro n x hx
    have := hi.xrvLt n x hx
    simp only [pushClaim]
    omega

/-- special case: no event, same reference as the current version -/
theorem inv_pushClaim_same {P0 : Name → Prop} {s : St} (hi : Inv P0 s) {cur c : Claim}
    (hc : s.claim = some cur) (href : c.refName = cur.refName) (hid : c.id = cur.id) : Inv P0 (pushClaim s c).1 := by
  have := inv_pushClaim hi (c := c) [] hc (fun n hn => by rw [href]; exact hn) (fun e he => by cases he)
    (fun n hn => by
      have : acked s n := ⟨cur, cur_mem hi hc, by rw [← href]; exact hn⟩
      simpa using hi.ackd n this) (hid.trans (hi.idOk cur (cur_mem hi hc)))
  simpa using this

theorem fut_pushClaim' (s : St) (extra : List Ev) (c : Claim) :
    Fut s (pushClaim { s with trace := extra ++ s.trace } c).1 :=
  ⟨fun _ h => List.mem_cons_of_mem _ h, fun _ h => h, fun _ _ h => h, rfl⟩

theorem foreignAt_putXR_iff (s : St) (n : Name) (x : XR) (m : Name) :
    foreignAt (putXR s n x).1 m ↔ (if m = n then (s.peers = false ∧ x.foreignTo s.me) else foreignAt s m) := by
  unfold foreignAt putXR XR.foreignTo
  by_cases h : m = n
  · simp [h]
  · simp [h]

theorem boundAt_putXR_iff (s : St) (n : Name) (x : XR) (m : Name) :
    boundAt (putXR s n x).1 m ↔ (if m = n then x.cref = some s.me else boundAt s m) := by
  unfold boundAt putXR
  by_cases h : m = n
  · simp [h]
  · simp [h]

theorem inv_putXR {P0 : Name → Prop} {s : St} (hi : Inv P0 s) (n : Name) (x : XR)
    (hb : x.cref = some s.me → acked s n) (hfo : s.peers = false → x.foreignTo s.me → foreignAt s n) :
    Inv P0 (putXR s n x).1 where
  rvLt := fun v hv => by have := hi.rvLt v hv; simp only [putXR]; omega
  mono := hi.mono
  cur := hi.cur
  bound := fun m hm => by
    rw [boundAt_putXR_iff] at hm
    by_cases h : m = n
    · subst h; simp at hm; exact hb hm
    · simp [h] at hm; exact hi.bound m hm
  ackd := hi.ackd
  ackHist := hi.ackHist
  p0 := hi.p0
  trace := hi.trace
  idOk := hi.idOk
  xcur := fun m => by
    simp only [putXR]
    by_cases h : m = n
    · simp [h]
    · simp [h]; exact hi.xcur m
  xfor := fun m hm ox hox => by
    rw [foreignAt_putXR_iff] at hm
    simp only [putXR] at hox
    by_cases h : m = n
    · subst h
      simp at hm hox
      rcases hox with rfl | hox
      · exact ⟨_, rfl, hm.2⟩
      · exact hi.xfor m (hfo hm.1 hm.2) ox hox
    · simp [h] at hm hox
      exact hi.xfor m hm ox hox
  xrvLt := fun m y hy => by
    simp only [putXR] at hy ⊢
    by_cases h : m = n
    · subst h
      simp at hy
      rcases hy with rfl | hy
      · simp
      · have := hi.xrvLt m y hy; omega
    · simp [h] at hy
      have := hi.xrvLt m y hy; omega
  rvU := fun m a b ha hb' hab => by
    simp only [putXR] at ha hb'
    by_cases h : m = n
    · subst h
      simp at ha hb'
      rcases ha with rfl | ha
      · rcases hb' with rfl | hb'
        · rfl
        · have := hi.xrvLt m b hb'; simp at hab; omega
      · rcases hb' with rfl | hb'
        · have := hi.xrvLt m a ha; simp at hab; omega
        · exact hi.rvU m a b ha hb' hab
    · simp [h] at ha hb'
      exact hi.rvU m a b ha hb' hab

/-- rewriting XR `n` keeps every "not foreign" fact if the new content is not foreign-bound
unless the old one was -/
theorem fut_putXR (s : St) (n : Name) (x : XR) (h : s.peers = false → x.foreignTo s.me → foreignAt s n) : Fut s (putXR s n x).1 where
  hist := fun _ hv => hv
  notForeign := fun m hm hf => by
    rw [foreignAt_putXR_iff] at hf
    by_cases e : m = n
    · subst e; simp at hf; exact hm (h hf.1 hf.2)
    · simp [e] at hf; exact hm hf
  xh := fun m ox hox => by
    simp only [putXR]
    by_cases e : m = n
    · simp [e]; exact Or.inr (e ▸ hox)
    · simp [e]; exact hox
  me := rfl

theorem inv_setXR {P0 : Name → Prop} {s : St} (hi : Inv P0 s) (n : Name) (ox : Option XR)
    (hb : ∀ x, ox = some x → x.cref = some s.me → acked s n)
    (hfo : ∀ x, ox = some x → s.peers = false → x.foreignTo s.me → foreignAt s n)
    (hrv : ∀ x, ox = some x → x.rv < s.nextRv ∧ ∀ b, some b ∈ s.xhist n → b.rv = x.rv → b.cref = x.cref) :
    Inv P0 (setXR s n ox) where
  rvLt := hi.rvLt
  mono := hi.mono
  cur := hi.cur
  bound := fun m ⟨x, hx, hc⟩ => by
    simp only [setXR] at hx
    by_cases h : m = n
    · subst h; simp at hx; exact hb x hx hc
    · simp [h] at hx; exact hi.bound m ⟨x, hx, hc⟩
  ackd := hi.ackd
  ackHist := hi.ackHist
  p0 := hi.p0
  trace := hi.trace
  idOk := hi.idOk
  xcur := fun m => by
    simp only [setXR]
    by_cases h : m = n
    · simp [h]
    · simp [h]; exact hi.xcur m
  xfor := fun m ⟨hp, x, hx, hc⟩ oy hoy => by
    simp only [setXR] at hx hoy
    by_cases h : m = n
    · subst h
      simp at hx hoy
      rcases hoy with rfl | hoy
      · exact ⟨x, hx, hc⟩
      · exact hi.xfor m (hfo x hx hp hc) oy hoy
    · simp [h] at hx hoy
      exact hi.xfor m ⟨hp, x, hx, hc⟩ oy hoy
  xrvLt := fun m y hy => by
    simp only [setXR] at hy ⊢
    by_cases h : m = n
    · subst h
      simp at hy
      rcases hy with rfl | hy
      · exact (hrv y rfl).1
      · exact hi.xrvLt m y hy
    · simp [h] at hy
      exact hi.xrvLt m y hy
  rvU := fun m a b ha hb' hab => by
    simp only [setXR] at ha hb'
    by_cases h : m = n
    · subst h
      simp at ha hb'
      rcases ha with rfl | ha
      · rcases hb' with hb' | hb'
        · cases hb'; rfl
        · exact ((hrv a rfl).2 b hb' hab.symm).symm
      · rcases hb' with rfl | hb'
        · exact (hrv b rfl).2 a ha hab
        · exact hi.rvU m a b ha hb' hab
    · simp [h] at ha hb'
      exact hi.rvU m a b ha hb' hab

theorem fut_setXR (s : St) (n : Name) (ox : Option XR)
    (h : ∀ x, ox = some x → s.peers = false → x.foreignTo s.me → foreignAt s n) : Fut s (setXR s n ox) where
  hist := fun _ hv => hv
  notForeign := fun m hm ⟨hp, x, hx, hc⟩ => by
    simp only [setXR] at hx
    by_cases e : m = n
    · subst e; simp at hx; exact hm (h x hx hp hc)
    · simp [e] at hx; exact hm ⟨hp, x, hx, hc⟩
  xh := fun m oy hoy => by
    simp only [setXR]
    by_cases e : m = n
    · simp [e]; exact Or.inr (e ▸ hoy)
    · simp [e]; exact hoy
  me := rfl

/-! ### every API call preserves the invariant and is a "future" -/

/-- a write to an XR that is not foreign-bound records a claimRef that is this claim's (or none) -/
theorem was_me_of_not {s : St} {n : Name} {x : XR} (hx : s.xrs n = some x) (h : ¬ foreignAt s n) :
    ∀ r, x.cref = some r → s.peers = false → r = s.me := by
  intro r hc hp
  apply Classical.byContradiction
  intro hne
  exact h ⟨hp, x, hx, r, hc, hne⟩

/-- a write that carries the resourceVersion of a state that was seen not to be foreign-bound, and that
the server accepts, hits a state with the same claimRef: it records this claim's claimRef (or none) -/
theorem was_me_of_seen {P0 : Name → Prop} {s : St} (hi : Inv P0 s) {n : Name} {x : XR} (hx : s.xrs n = some x)
    (h : SeenRv s n x.rv) : ∀ r, x.cref = some r → r = s.me := by
  intro r hc
  obtain ⟨y, hy, hrv, hnf⟩ := h
  have hxm : some x ∈ s.xhist n := hx ▸ hi.xcur n
  have heq : y.cref = x.cref := hi.rvU n y x hy hxm hrv
  apply Classical.byContradiction
  intro hne
  exact hnf ⟨r, heq ▸ hc, hne⟩

theorem not_foreignTo_of_cref {x : XR} {me : CRef} (h : x.cref = some me) : ¬ x.foreignTo me := by
  intro ⟨r, hr, hne⟩
  rw [h] at hr
  exact hne (Option.some.inj hr).symm

theorem delete_core {P0 : Name → Prop} {s : St} (hi : Inv P0 s) {n : Name} {x : XR} (hx : s.xrs n = some x)
    (x1 : XR) (hc : x1.cref = x.cref) (hr : x1.rv = x.rv) :
    Inv P0 (delState s n x x1) ∧ Fut s (delState s n x x1) ∧ (delState s n x x1).me = s.me ∧
      (delState s n x x1).peers = s.peers := by
  have hb : x1.cref = some s.me → acked s n := fun h => hi.bound n ⟨x, hx, hc ▸ h⟩
  have hf : s.peers = false → x1.foreignTo s.me → foreignAt s n := fun hp ⟨r, hr, hne⟩ => ⟨hp, x, hx, r, hc ▸ hr, hne⟩
  have hxm : some x ∈ s.xhist n := hx ▸ hi.xcur n
  have hrv : x1.rv < s.nextRv ∧ ∀ b, some b ∈ s.xhist n → b.rv = x1.rv → b.cref = x1.cref :=
    ⟨hr ▸ hi.xrvLt n x hxm, fun b hb' hbr => (hi.rvU n b x hb' hxm (hbr.trans hr)).trans hc.symm⟩
  unfold delState
  by_cases h1 : x1.fin = true
  · by_cases h2 : x1.deleting = true
    · simp only [h1, h2, if_true]
      by_cases h3 : x1 = x
      · simp only [h3, if_true]
        exact ⟨hi, Fut.refl s, trivial, trivial⟩
      · simp only [h3, if_false]
        exact ⟨inv_setXR hi n _ (fun y hy hcy => by have := Option.some.inj hy; subst this; exact hb hcy)
            (fun y hy hp hcy => by have := Option.some.inj hy; subst this; exact hf hp hcy)
            (fun y hy => by have := Option.some.inj hy; subst this; exact hrv),
          fut_setXR s n _ (fun y hy hp hcy => by have := Option.some.inj hy; subst this; exact hf hp hcy), rfl, rfl⟩
    · simp only [h1, h2, if_true]
      exact ⟨inv_putXR hi n _ (fun h => hb h) (fun hp h => hf hp h), fut_putXR s n _ (fun hp h => hf hp h), rfl, rfl⟩
  · simp only [h1]
    exact ⟨inv_setXR hi n none (fun y hy => by cases hy) (fun y hy => by cases hy) (fun y hy => by cases hy),
      fut_setXR s n none (fun y hy => by cases hy), rfl, rfl⟩

theorem exec_inv_fut {P0 : Name → Prop} {s : St} (hi : Inv P0 s) (r : Req) (hg : G s r) :
    Inv P0 (exec s r).1 ∧ Fut s (exec s r).1 := by
  cases r with
  | getClaim pick =>
    simp only [exec]
    split
    · exact ⟨hi, Fut.refl s⟩
    · split <;> exact ⟨hi, Fut.refl s⟩
  | getXR n sel =>
    simp only [exec]
    split <;> exact ⟨hi, Fut.refl s⟩
  | updClaim c =>
    simp only [exec]
    split
    · exact ⟨hi, Fut.refl s⟩
    · rename_i cur hc
      split
      · exact ⟨hi, Fut.refl s⟩
      · rename_i hrv
        have hrv : c.rv = cur.rv := by simpa using hrv
        obtain ⟨v, hv, hvr, hext⟩ := hg
        have hveq : v = cur := hist_rv_inj hi.mono hv (cur_mem hi hc) (hvr.trans hrv)
        subst hveq
        refine ⟨inv_pushClaim hi (ackOf c) hc (fun n hn => hext n hn) ?_ ?_ (hi.idOk v hv), fut_pushClaim' _ _ _⟩
        · intro e he
          unfold ackOf at he
          split at he
          · rename_i n hn; simp at he; exact ⟨n, he, hn⟩
          · cases he
        · intro n hn
          refine Or.inl (List.mem_append_left _ ?_)
          show Ev.ack n ∈ ackOf c
          have hn' : c.refName = some n := hn
          unfold ackOf; rw [hn']; simp
  | updClaimStatus rv =>
    simp only [exec]
    split
    · exact ⟨hi, Fut.refl s⟩
    · rename_i cur hc
      split
      · exact ⟨hi, Fut.refl s⟩
      · exact ⟨inv_pushClaim_same hi hc rfl rfl, fut_pushClaim _ _⟩
  | upgradeXR n rv valid =>
    simp only [exec]
    split
    · exact ⟨hi, Fut.refl s⟩
    · rename_i x hx
      split
      · exact ⟨hi, Fut.refl s⟩
      · split
        · exact ⟨hi, Fut.refl s⟩
        · rename_i hrv
          have hrv : rv = x.rv := by simpa using hrv
          have hb : x.cref = some s.me → acked s n := fun h => hi.bound n ⟨x, hx, h⟩
          refine ⟨inv_emit (inv_putXR hi n { x with mf := (applyUpDec valid x.mf).getD x.mf } hb (fun hp h => ⟨hp, x, hx, h⟩)) _ (fun m h => by cases h) (fun m r h => by cases h)
              (fun m r h => ?_) (fun m h => by cases h),
            (fut_putXR s n { x with mf := (applyUpDec valid x.mf).getD x.mf } (fun hp h => ⟨hp, x, hx, h⟩)).trans (fut_emit _ _)⟩
          exact was_me_of_seen hi hx (hrv ▸ hg.1.2) r (Ev.xrWriteG.inj h).2
  | deleteXR n fg =>
    simp only [exec]
    split
    · exact ⟨hi, Fut.refl s⟩
    · rename_i x hx
      have hcref : (if fg then { x with fin := true } else x).cref = x.cref := by split <;> rfl
      have hrvx : (if fg then { x with fin := true } else x).rv = x.rv := by split <;> rfl
      obtain ⟨h1, h2, h3, h4⟩ := delete_core hi hx _ hcref hrvx
      refine ⟨inv_emit h1 _ (fun m h => by cases h) (fun m r h hp => ?_) (fun m r h => by cases h) (fun m h => by cases h),
        h2.trans (fut_emit _ _)⟩
      rw [h3]
      rw [h4] at hp
      exact was_me_of_not hx hg.1.1 r (Ev.xrWrite.inj h).2 hp
  | createXR n rvSet cref =>
    simp only [exec]
    split
    · exact ⟨hi, Fut.refl s⟩
    · rename_i hx
      split
      · exact ⟨hi, Fut.refl s⟩
      · obtain ⟨hack, hme⟩ := hg
        subst hme
        refine ⟨inv_emit (inv_putXR hi n (newXR s.me csaManager) (fun _ => hack) (fun _ h => absurd h (not_foreignTo_of_cref rfl))) _ ?_
            (fun m r h => by cases h) (fun m r h => by cases h) (fun m h => by cases h),
          (fut_putXR s n (newXR s.me csaManager) (fun _ h => absurd h (not_foreignTo_of_cref rfl))).trans (fut_emit _ _)⟩
        intro m hm
        cases hm
        exact hi.ackd n hack
  | patchXR n rv cref =>
    simp only [exec]
    split
    · exact ⟨hi, Fut.refl s⟩
    · rename_i x hx
      obtain ⟨⟨⟨hack, hnfa⟩, hme⟩, hseen⟩ := hg
      subst hme
      have hinv := inv_putXR hi n (bindXR s.me x) (fun _ => hack) (fun _ h => absurd h (not_foreignTo_of_cref rfl))
      have hfut := fut_putXR s n (bindXR s.me x) (fun _ h => absurd h (not_foreignTo_of_cref rfl))
      cases rv with
      | none =>
        simp only [Option.isSome_none, Bool.false_eq_true, if_false]
        exact ⟨inv_emit hinv _ (fun m h => by cases h)
            (fun m r h hp => was_me_of_not hx hnfa.1 r (Ev.xrWrite.inj h).2 hp) (fun m r h => by cases h) (fun m h => by cases h),
          hfut.trans (fut_emit _ _)⟩
      | some v =>
        simp only [Option.isSome_some, if_true]
        split
        · exact ⟨hi, Fut.refl s⟩
        · rename_i hcond
          have hv : v = x.rv := by simpa using hcond
          exact ⟨inv_emit hinv _ (fun m h => by cases h) (fun m r h => by cases h)
              (fun m r h => was_me_of_seen hi hx (hv ▸ hseen v rfl) r (Ev.xrWriteG.inj h).2) (fun m h => by cases h),
            hfut.trans (fut_emit _ _)⟩
  | applyXR n cref =>
    simp only [exec]
    obtain ⟨⟨hack, hnfa⟩, hme⟩ := hg
    subst hme
    split
    · refine ⟨inv_emit (inv_putXR hi n (newXR s.me ssaManager) (fun _ => hack) (fun _ h => absurd h (not_foreignTo_of_cref rfl))) _ ?_
          (fun m r h => by cases h) (fun m r h => by cases h) (fun m h => by cases h),
        (fut_putXR s n (newXR s.me ssaManager) (fun _ h => absurd h (not_foreignTo_of_cref rfl))).trans (fut_emit _ _)⟩
      intro m hm
      cases hm
      exact hi.ackd n hack
    · rename_i x hx
      refine ⟨inv_emit (inv_putXR hi n (applyBindXR s.me x) (fun _ => hack) (fun _ h => absurd h (not_foreignTo_of_cref rfl))) _ (fun m h => by cases h)
          (fun m r h hp => ?_) (fun m r h => by cases h) (fun m h => by cases h),
        (fut_putXR s n (applyBindXR s.me x) (fun _ h => absurd h (not_foreignTo_of_cref rfl))).trans (fut_emit _ _)⟩
      exact was_me_of_not hx hnfa.1 r (Ev.xrWrite.inj h).2 hp

/-! ### environment steps -/

theorem env_inv_fut {P0 : Name → Prop} {s s' : St} (hi : Inv P0 s) (he : Env s s') : Inv P0 s' ∧ Fut s s' := by
  cases he with
  | xrWrite n x x' hx hc =>
    have hf : s.peers = false → x'.foreignTo s.me → foreignAt s n := fun hp ⟨r, hr, hne⟩ => ⟨hp, x, hx, r, hc ▸ hr, hne⟩
    exact ⟨inv_putXR hi n x' (fun h => hi.bound n ⟨x, hx, hc ▸ h⟩) hf, fut_putXR s n x' hf⟩
  | xrRemove n =>
    exact ⟨inv_setXR hi n none (fun y hy => by cases hy) (fun y hy => by cases hy) (fun y hy => by cases hy),
      fut_setXR s n none (fun y hy => by cases hy)⟩
  | xrCreate n x' hx hc =>
    have hf : s.peers = false → x'.foreignTo s.me → foreignAt s n := fun _ ⟨r, hr, _⟩ => by rw [hc] at hr; cases hr
    exact ⟨inv_putXR hi n x' (fun h => by rw [hc] at h; cases h) hf, fut_putXR s n x' hf⟩
  | peerWrite n x' hp hb =>
    have hf : s.peers = false → x'.foreignTo s.me → foreignAt s n := fun h _ => by rw [hp] at h; cases h
    exact ⟨inv_putXR hi n x' (fun h => by obtain ⟨x, hx, hc⟩ := hb h; exact hi.bound n ⟨x, hx, hc⟩) hf, fut_putXR s n x' hf⟩
  | xrSet n x x' hx hc hr =>
    have hxm : some x ∈ s.xhist n := hx ▸ hi.xcur n
    have hf : ∀ y, some x' = some y → s.peers = false → y.foreignTo s.me → foreignAt s n := by
      intro y hy hp ⟨r, hr', hne⟩
      cases hy
      exact ⟨hp, x, hx, r, hc ▸ hr', hne⟩
    refine ⟨inv_setXR hi n (some x') ?_ hf ?_, fut_setXR s n (some x') hf⟩
    · intro y hy hcy
      cases hy
      exact hi.bound n ⟨x, hx, hc ▸ hcy⟩
    · intro y hy
      cases hy
      exact ⟨hr ▸ hi.xrvLt n x hxm, fun b hb hbr => (hi.rvU n b x hb hxm (hbr.trans hr)).trans hc.symm⟩
  | claimWrite c c' hc href hid =>
    exact ⟨inv_pushClaim_same hi hc href hid, fut_pushClaim _ _⟩
  | claimGone =>
    refine ⟨{ rvLt := hi.rvLt, mono := hi.mono, cur := fun c h => (by cases h), bound := hi.bound, ackd := hi.ackd,
              ackHist := hi.ackHist, p0 := hi.p0, trace := hi.trace, idOk := hi.idOk, xcur := hi.xcur, xfor := hi.xfor,
              xrvLt := hi.xrvLt, rvU := hi.rvU },
      ⟨fun _ h => h, fun _ h => h, fun _ _ h => h, rfl⟩⟩
  | tick k o =>
    refine ⟨{ rvLt := fun v hv => Nat.lt_of_lt_of_le (hi.rvLt v hv) (Nat.le_add_right _ _), mono := hi.mono, cur := hi.cur,
              bound := hi.bound, ackd := hi.ackd,
              ackHist := hi.ackHist, p0 := hi.p0, trace := hi.trace, idOk := hi.idOk, xcur := hi.xcur, xfor := hi.xfor,
              xrvLt := fun n x hx => Nat.lt_of_lt_of_le (hi.xrvLt n x hx) (Nat.le_add_right _ _), rvU := hi.rvU },
      ⟨fun _ h => h, fun _ h => h, fun _ _ h => h, rfl⟩⟩

/-! ### the scripted environment actions of the harness -/

/-- which scripted actions are environment steps of the world `peers` for the claim `me`: a claimRef
is only ever set by the controller of ANOTHER claim, and only where such controllers exist; an action
on another claim's object is a claim action -/
def EnvAct.adm (peers : Bool) (me : CRef) : EnvAct → Prop
  | .xrCreate _ (some r) _ => peers = true ∧ r ≠ me
  | .xrBind _ r _ => peers = true ∧ r ≠ me
  | .other _ a => a = .claimDelete ∨ a = .claimTouch ∨ ∃ t, a = .claimRetype t
  | _ => True

/-- a claim action changes nothing but the claim under reconciliation and the resourceVersion counter -/
theorem claimAct_frame (s : St) (a : EnvAct) (h : a = .claimDelete ∨ a = .claimTouch ∨ ∃ t, a = .claimRetype t) :
    ∃ k, (applyEnv s a).xrs = s.xrs ∧ (applyEnv s a).xhist = s.xhist ∧ (applyEnv s a).peers = s.peers ∧
      (applyEnv s a).others = s.others ∧ (applyEnv s a).me = s.me ∧ (applyEnv s a).nextRv = s.nextRv + k := by
  rcases h with rfl | rfl | ⟨t, rfl⟩
  · simp only [applyEnv]
    split
    · split
      · split
        · exact ⟨0, rfl, rfl, rfl, rfl, rfl, rfl⟩
        · exact ⟨1, rfl, rfl, rfl, rfl, rfl, rfl⟩
      · exact ⟨0, rfl, rfl, rfl, rfl, rfl, rfl⟩
    · exact ⟨0, rfl, rfl, rfl, rfl, rfl, rfl⟩
  · simp only [applyEnv]
    split
    · exact ⟨1, rfl, rfl, rfl, rfl, rfl, rfl⟩
    · exact ⟨0, rfl, rfl, rfl, rfl, rfl, rfl⟩
  · simp only [applyEnv]
    split
    · split
      · split
        · exact ⟨0, rfl, rfl, rfl, rfl, rfl, rfl⟩
        · exact ⟨1, rfl, rfl, rfl, rfl, rfl, rfl⟩
      · exact ⟨0, rfl, rfl, rfl, rfl, rfl, rfl⟩
    · exact ⟨0, rfl, rfl, rfl, rfl, rfl, rfl⟩

/-- switching to the claim in slot `j`, doing something that only touches that claim, and switching
back leaves this claim's view unchanged but for the resourceVersion counter and `others` -/
theorem swap_back (s X : St) (j : Nat) (d : Side) (hd : s.others[j]? = some d) (hx : X.xrs = s.xrs)
    (hxh : X.xhist = s.xhist) (hp : X.peers = s.peers) (ho : X.others = s.others.set j s.side) (k : Nat)
    (hn : X.nextRv = s.nextRv + k) :
    swap X j = { s with nextRv := s.nextRv + k, others := X.others.set j X.side } := by
  have hj : j < s.others.length := by
    rcases Nat.lt_or_ge j s.others.length with h | h
    · exact h
    · rw [List.getElem?_eq_none h] at hd; cases hd
  have hget : X.others[j]? = some s.side := by
    rw [ho, List.getElem?_set_self hj]
  unfold swap
  rw [hget]
  obtain ⟨me, claim, hist, xrs, xhist, nextRv, trace, peers, others⟩ := s
  obtain ⟨me', claim', hist', xrs', xhist', nextRv', trace', peers', others'⟩ := X
  simp only [St.load, St.side] at *
  subst hx hxh hp hn
  rfl

/-- the scripted environment actions of the harness are environment steps (or no-ops) -/
theorem applyEnv_env (s : St) (a : EnvAct) (h : a.adm s.peers s.me) : applyEnv s a = s ∨ Env s (applyEnv s a) := by
  cases a with
  | xrTouch n g =>
    simp only [applyEnv]
    split
    · rename_i x hx; exact Or.inr (Env.xrWrite s n x _ hx rfl)
    · exact Or.inl rfl
  | xrRemove n =>
    simp only [applyEnv]
    split
    · exact Or.inr (Env.xrRemove s n)
    · exact Or.inl rfl
  | xrDelete n =>
    simp only [applyEnv]
    split
    · rename_i x hx
      split
      · split
        · exact Or.inl rfl
        · exact Or.inr (Env.xrWrite s n x _ hx rfl)
      · exact Or.inr (Env.xrRemove s n)
    · exact Or.inl rfl
  | claimDelete =>
    simp only [applyEnv]
    split
    · rename_i c hc
      split
      · split
        · exact Or.inl rfl
        · exact Or.inr (Env.claimWrite s c _ hc rfl rfl)
      · exact Or.inr (Env.claimGone s)
    · exact Or.inl rfl
  | claimTouch =>
    simp only [applyEnv]
    split
    · rename_i c hc; exact Or.inr (Env.claimWrite s c c hc rfl rfl)
    · exact Or.inl rfl
  | claimRetype t =>
    simp only [applyEnv]
    split
    · rename_i c hc
      split
      · rename_i r hr
        split
        · exact Or.inl rfl
        · refine Or.inr (Env.claimWrite s c _ hc ?_ rfl)
          simp [Claim.refName, hr, mkXRef]
      · exact Or.inl rfl
    · exact Or.inl rfl
  | xrCreate n r uid =>
    simp only [applyEnv]
    split
    · exact Or.inl rfl
    · rename_i hx
      cases r with
      | none => exact Or.inr (Env.xrCreate s n _ hx rfl)
      | some r =>
        obtain ⟨hp, hne⟩ := h
        exact Or.inr (Env.peerWrite s n _ hp (fun hc => absurd (Option.some.inj hc) hne))
  | xrBind n r uid =>
    obtain ⟨hp, hne⟩ := h
    simp only [applyEnv]
    split
    · split
      · exact Or.inl rfl
      · exact Or.inr (Env.peerWrite s n _ hp (fun hc => absurd (Option.some.inj hc) hne))
    · exact Or.inl rfl
  | other j a =>
    simp only [applyEnv]
    split
    · rename_i d hd
      have hj : j < s.others.length := by
        rcases Nat.lt_or_ge j s.others.length with h' | h'
        · exact h'
        · rw [List.getElem?_eq_none h'] at hd; cases hd
      obtain ⟨k, h1, h2, h3, h4, _, h6⟩ := claimAct_frame (swap s j) a h
      have hsw : swap s j = { s.load d with others := s.others.set j s.side } := by
        unfold swap; rw [hd]
      rw [hsw] at h1 h2 h3 h4 h6
      rw [hsw]
      have := swap_back s (applyEnv { s.load d with others := s.others.set j s.side } a) j d hd h1 h2 h3 h4 k h6
      rw [this]
      exact Or.inr (Env.tick s k _)
    · exact Or.inl rfl

theorem env_me_peers {s s' : St} (h : Env s s') : s'.me = s.me ∧ s'.peers = s.peers := by
  cases h <;> exact ⟨rfl, rfl⟩

theorem applyEnv_me_peers (s : St) (a : EnvAct) (h : a.adm s.peers s.me) :
    (applyEnv s a).me = s.me ∧ (applyEnv s a).peers = s.peers := by
  rcases applyEnv_env s a h with e | e
  · rw [e]; exact ⟨rfl, rfl⟩
  · exact env_me_peers e

end Xp.C06

import Xp.Proofs.C19SerialSys
/-
C19 helper lemmas, part 10: step-level facts (who can make a Usage ready, who can
remove a label) used by the property theorems.
-/
namespace Xp.C19

theorem updU_usages_from (s : Store) (u : Usage) : ∀ y' ∈ (s.updU u).1.usages,
    ∃ y ∈ s.usages, y.name = y'.name ∧ y.ready = y'.ready := by
  have spec := updU_spec s u
  generalize (s.updU u).1 = s' at spec ⊢
  generalize (s.updU u).2 = resp at spec
  intro y' hy'
  cases spec with
  | notFound hg => exact ⟨y', hy', rfl, rfl⟩
  | conflict x hg hne => exact ⟨y', hy', rfl, rfl⟩
  | noop x hg hx hon => exact ⟨y', hy', rfl, rfl⟩
  | put x hg hx hng =>
    rw [bump_usages] at hy'
    rcases mem_putU.mp hy' with ⟨hy'', _⟩ | ⟨rfl, _⟩
    · exact ⟨y', hy'', rfl, rfl⟩
    · have hx' := getU_some hg
      exact ⟨x, hx'.1, hx'.2, rfl⟩
  | gone x hg hx hd hf =>
    rw [bump_usages] at hy'
    exact ⟨y', (mem_dropU.mp hy').1, rfl, rfl⟩

theorem updStatus_res (s : Store) (u : Usage) : (s.updStatus u).1.res = s.res := by
  unfold Store.updStatus
  split
  · rfl
  · split
    · rfl
    · split <;> rfl

theorem updR_usages (s : Store) (r : Res) : (s.updR r).1.usages = s.usages := by
  unfold Store.updR
  split
  · rfl
  · split
    · rfl
    · split <;> rfl

theorem updR_res_from (s : Store) (q : Res) : ∀ r' ∈ (s.updR q).1.res, r' ∈ s.res ∨ r'.inUse = q.inUse := by
  have spec := updR_spec s q
  generalize (s.updR q).1 = s' at spec ⊢
  generalize (s.updR q).2 = resp at spec
  intro r' hr'
  cases spec with
  | notFound hg => exact .inl hr'
  | conflict x hg hne => exact .inl hr'
  | noop x hg hx hon => exact .inl hr'
  | put x hg hx =>
    rw [bump_res] at hr'
    rcases mem_putR.mp hr' with ⟨h, _⟩ | ⟨rfl, _⟩
    · exact .inl h
    · exact .inr rfl

/-- a call of a reconcile makes a Usage ready only at `status`, and then its used resource is labelled -/
theorem exec_newly_ready {s : Store} {t : Thread} (ht : TInv s t) (hsf : serialFacts s t.uname t.u t.pc) :
    ∀ y' ∈ (s.exec t.request).1.usages, y'.ready = true →
      (∃ y ∈ s.usages, y.name = y'.name ∧ y.ready = true) ∨ Labelled s y' := by
  have same : ∀ y' ∈ s.usages, y'.ready = true →
      (∃ y ∈ s.usages, y.name = y'.name ∧ y.ready = true) ∨ Labelled s y' :=
    fun y' hy' hr => .inl ⟨y', hy', rfl, hr⟩
  have viaU : ∀ u', ∀ y' ∈ (s.updU u').1.usages, y'.ready = true →
      (∃ y ∈ s.usages, y.name = y'.name ∧ y.ready = true) ∨ Labelled s y' := by
    intro u' y' hy' hr
    obtain ⟨y, hy, hn, hrd⟩ := updU_usages_from s u' y' hy'
    exact .inl ⟨y, hy, hn, hrd.trans hr⟩
  have viaR : ∀ q, ∀ y' ∈ (s.updR q).1.usages, y'.ready = true →
      (∃ y ∈ s.usages, y.name = y'.name ∧ y.ready = true) ∨ Labelled s y' := by
    intro q y' hy' hr
    rw [updR_usages] at hy'
    exact same y' hy' hr
  obtain ⟨nm, pc, u, orv, ord, seen⟩ := t
  cases pc with
  | status =>
    rcases ht with h | ⟨hb, hf⟩
    · cases h
    · simp only [Thread.request, Store.exec]
      have spec := updStatus_spec s { u with ready := true }
      generalize (s.updStatus { u with ready := true }).1 = s' at spec ⊢
      generalize (s.updStatus { u with ready := true }).2 = resp at spec
      intro y' hy' hr
      cases spec with
      | notFound hg => exact same y' hy' hr
      | conflict x hg hne => exact same y' hy' hr
      | noop x hg hx hon => exact same y' hy' hr
      | put x hg hx hng =>
        obtain ⟨rfl, hmem⟩ := hb.hit hg hb.name hx
        rw [bump_usages] at hy'
        rcases mem_putU.mp hy' with ⟨hy'', _⟩ | ⟨rfl, _⟩
        · exact same y' hy'' hr
        · exact .inr (Labelled.of_eq hsf rfl)
  | byList => simp only [Thread.request]; cases u.by_ <;> exact same
  | dGetUsing => simp only [Thread.request]; cases u.by_ <;> exact same
  | getUsing => simp only [Thread.request]; cases u.by_ <;> exact same
  | getUsage => exact same
  | ofList => exact same
  | dGetUsed => exact same
  | dList used => exact same
  | getUsed => exact same
  | ofUpdate pick => exact viaU _
  | byUpdate pick => exact viaU _
  | dRemoveFin => exact viaU _
  | addFin => exact viaU _
  | addDetails => exact viaU _
  | addOwner ref => exact viaU _
  | dUnlabel used => exact viaR _
  | label used => exact viaR _

/-- a call of a reconcile removes a label only at `dUnlabel` -/
theorem exec_unlabel {s : Store} (hs : StoreInv s) {t : Thread} :
    ∀ r ∈ s.res, r.inUse = true → ∀ r' ∈ (s.exec t.request).1.res,
      r'.group = r.group → r'.kind = r.kind → r'.name = r.name → r'.inUse = false →
      ∃ used, t.pc = .dUnlabel used ∧ (s.exec t.request).1 = (s.updR { used with inUse := false }).1 := by
  have same : ∀ r ∈ s.res, r.inUse = true → ∀ r' ∈ s.res,
      r'.group = r.group → r'.kind = r.kind → r'.name = r.name → r'.inUse = false → False := by
    intro r hr hin r' hr' h1 h2 h3 hno
    have := hs.resUniq r' hr' r hr h1 h2 h3
    rw [this, hin] at hno; cases hno
  obtain ⟨nm, pc, u, orv, ord, seen⟩ := t
  intro r hr hin r' hr' h1 h2 h3 hno
  cases pc with
  | dUnlabel used => exact ⟨used, rfl, rfl⟩
  | label used =>
    exfalso
    simp only [Thread.request, Store.exec] at hr'
    rcases updR_res_from s _ r' hr' with h | h
    · exact same r hr hin r' h h1 h2 h3 hno
    · rw [hno] at h; cases h
  | byList =>
    exfalso; simp only [Thread.request] at hr'
    cases hb : u.by_ <;> rw [hb] at hr' <;> exact same r hr hin r' hr' h1 h2 h3 hno
  | dGetUsing =>
    exfalso; simp only [Thread.request] at hr'
    cases hb : u.by_ <;> rw [hb] at hr' <;> exact same r hr hin r' hr' h1 h2 h3 hno
  | getUsing =>
    exfalso; simp only [Thread.request] at hr'
    cases hb : u.by_ <;> rw [hb] at hr' <;> exact same r hr hin r' hr' h1 h2 h3 hno
  | status =>
    exfalso
    simp only [Thread.request, Store.exec] at hr'
    rw [updStatus_res] at hr'
    exact same r hr hin r' hr' h1 h2 h3 hno
  | getUsage => exact (same r hr hin r' hr' h1 h2 h3 hno).elim
  | ofList => exact (same r hr hin r' hr' h1 h2 h3 hno).elim
  | dGetUsed => exact (same r hr hin r' hr' h1 h2 h3 hno).elim
  | dList used => exact (same r hr hin r' hr' h1 h2 h3 hno).elim
  | getUsed => exact (same r hr hin r' hr' h1 h2 h3 hno).elim
  | ofUpdate pick =>
    exfalso; simp only [Thread.request, Store.exec] at hr'; rw [updU_res] at hr'
    exact same r hr hin r' hr' h1 h2 h3 hno
  | byUpdate pick =>
    exfalso; simp only [Thread.request, Store.exec] at hr'; rw [updU_res] at hr'
    exact same r hr hin r' hr' h1 h2 h3 hno
  | dRemoveFin =>
    exfalso; simp only [Thread.request, Store.exec] at hr'; rw [updU_res] at hr'
    exact same r hr hin r' hr' h1 h2 h3 hno
  | addFin =>
    exfalso; simp only [Thread.request, Store.exec] at hr'; rw [updU_res] at hr'
    exact same r hr hin r' hr' h1 h2 h3 hno
  | addDetails =>
    exfalso; simp only [Thread.request, Store.exec] at hr'; rw [updU_res] at hr'
    exact same r hr hin r' hr' h1 h2 h3 hno
  | addOwner ref =>
    exfalso; simp only [Thread.request, Store.exec] at hr'; rw [updU_res] at hr'
    exact same r hr hin r' hr' h1 h2 h3 hno

/-! ### the environment never changes the label of a resource that stays -/

theorem createRes_res_from (s : Store) (g k n : String) (l : Labels) (iu : Bool) (c : String) :
    ∀ r' ∈ (s.createRes g k n l iu c).1.res,
      r' ∈ s.res ∨ ∀ x ∈ s.res, ¬ (x.group = r'.group ∧ x.kind = r'.kind ∧ x.name = r'.name) := by
  intro r' hr'
  unfold Store.createRes at hr'
  split at hr'
  · exact .inl hr'
  · split at hr'
    · exact .inl hr'
    · next hg =>
      simp only [List.mem_append, List.mem_singleton] at hr'
      rcases hr' with h | rfl
      · exact .inl h
      · exact .inr (getR_none hg)

theorem admitDelete_res_from (s : Store) (r : Res) (hr : r ∈ s.res) (p : String) (lo po : Bool) (st : Option Nat) :
    ∀ r' ∈ (s.admitDelete r p lo po st).1.res,
      r' ∈ s.res ∨ ∃ x ∈ s.res, x.group = r'.group ∧ x.kind = r'.kind ∧ x.name = r'.name ∧ x.inUse = r'.inUse := by
  have a := admitDelete_spec s r p lo po st
  generalize (s.admitDelete r p lo po st).1 = s1 at a ⊢
  generalize (s.admitDelete r p lo po st).2 = v at a
  intro r' hr'
  cases a with
  | deniedPatched hn ha =>
    rw [bump_res] at hr'
    rcases mem_putR.mp hr' with ⟨h, _⟩ | ⟨rfl, _⟩
    · exact .inl h
    · exact .inr ⟨r, hr, rfl, rfl, rfl, rfl⟩
  | _ => exact .inl hr'

theorem deleteRes_res_from (s : Store) (g k n p : String) (lo po : Bool) (st : Option Nat) :
    ∀ r' ∈ (s.deleteRes g k n p lo po st).1.res,
      r' ∈ s.res ∨ ∃ x ∈ s.res, x.group = r'.group ∧ x.kind = r'.kind ∧ x.name = r'.name ∧ x.inUse = r'.inUse := by
  have spec := deleteRes_spec s g k n p lo po st
  generalize (s.deleteRes g k n p lo po st).1 = s' at spec ⊢
  generalize (s.deleteRes g k n p lo po st).2 = res at spec
  intro r' hr'
  cases spec with
  | notFound hg => exact .inl hr'
  | unlabelled r hg hin => exact .inl (mem_dropR.mp hr').1
  | refused r v hg hin hv hne => exact admitDelete_res_from s r (getR_some hg).1 p lo po st r' hr'
  | admitted r hg hin hv => exact admitDelete_res_from s r (getR_some hg).1 p lo po st r' (mem_dropR.mp hr').1

theorem touchRes_res_from (s : Store) (g k n : String) (l : Labels) :
    ∀ r' ∈ (s.touchRes g k n l).1.res,
      r' ∈ s.res ∨ ∃ x ∈ s.res, x.group = r'.group ∧ x.kind = r'.kind ∧ x.name = r'.name ∧ x.inUse = r'.inUse := by
  unfold Store.touchRes
  split
  · exact fun r' h => .inl h
  · next r hg =>
    split
    · exact fun r' h => .inl h
    · intro r' hr'
      rw [bump_res] at hr'
      rcases mem_putR.mp hr' with ⟨h, _⟩ | ⟨rfl, _⟩
      · exact .inl h
      · exact .inr ⟨r, (getR_some hg).1, rfl, rfl, rfl, rfl⟩

theorem gcRes_res_from (s : Store) (g k n : String) :
    ∀ r' ∈ (s.gcRes g k n).1.res,
      r' ∈ s.res ∨ ∃ x ∈ s.res, x.group = r'.group ∧ x.kind = r'.kind ∧ x.name = r'.name ∧ x.inUse = r'.inUse := by
  unfold Store.gcRes
  split
  · exact fun r' h => .inl h
  · split
    · exact fun r' h => .inl h
    · split
      · exact fun r' h => .inl h
      · exact deleteRes_res_from s g k n _ _ _ _

theorem getR_dropR (s : Store) (g k n : String) : (s.dropR g k n).getR g k n = none := by
  unfold Store.getR
  rw [List.find?_eq_none]
  intro x hx
  have := (mem_dropR.mp hx).2
  cases hb : x.is g k n with
  | false => simp
  | true => exact absurd ((Res.is_iff _ _ _ _).mp hb) this

theorem getR_putR_self {s : Store} {n : Res} (h : ∃ x ∈ s.res, x.group = n.group ∧ x.kind = n.kind ∧ x.name = n.name) :
    (s.putR n).getR n.group n.kind n.name = some n := by
  obtain ⟨x, hx, hk⟩ := h
  have hmem : n ∈ (s.putR n).res := mem_putR.mpr (.inr ⟨rfl, x, hx, hk⟩)
  cases hg : (s.putR n).getR n.group n.kind n.name with
  | none => exact absurd ⟨rfl, rfl, rfl⟩ (getR_none hg n hmem)
  | some y =>
    have hy := getR_some hg
    rcases mem_putR.mp hy.1 with ⟨_, hne⟩ | ⟨rfl, _⟩
    · exact absurd hy.2 hne
    · rfl

theorem step_store (sys : Sys) (n : String) (o : Outcome) :
    (sys.exec (.step n o none)).1.store =
      match sys.thread? n with
      | none => sys.store
      | some t => (t.step o none sys.store).store := by
  simp only [Sys.exec]
  cases sys.thread? n with
  | none => rfl
  | some t =>
    simp only []
    split <;> rfl

end Xp.C19

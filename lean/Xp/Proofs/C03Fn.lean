import Xp.Proofs.C03
/-
C03 helper lemmas over the reconcile model of C01: which requests the function composer can
issue (under every fault plan) and which it does issue on a fault-free run.
-/
namespace Xp.C01

/-! ### request classes -/

/-- not a garbage-collection request (label-stripping Update or Delete of a composed resource) -/
def NoGc : Req → Prop
  | .delete _ _ | .gcUpdate _ _ => False
  | _ => True

theorem issues_wcall {Q : Req → Prop} (lrv : Nat) (r : Req) (k : Resp → P) (hr : Q r)
    (hs : Q (.statusUpdate (some lrv))) (hk : ∀ x, Issues Q (k x)) : Issues Q (wcall lrv r k) := by
  have herr : Issues Q (onError lrv) := by
    unfold onError onErrorO
    refine Issues.call _ _ hs ?_
    intro x; cases x <;> exact Issues.ret _
  unfold wcall
  refine Issues.call _ _ hr ?_
  intro x
  cases x <;> first | exact herr | exact Issues.ret _ | exact hk _

theorem issues_onErrorO' {Q : Req → Prop} (l : Option Nat) (hs : Q (.statusUpdate l)) : Issues Q (onErrorO l) := by
  unfold onErrorO
  refine Issues.call _ _ hs ?_
  intro x; cases x <;> exact Issues.ret _

theorem issues_finish {Q : Req → Prop} (l : Nat) (b : Bool) (hs : Q (.statusUpdate (some l))) : Issues Q (finish l b) := by
  unfold finish
  refine Issues.call _ _ hs ?_
  intro x; cases x <;> exact Issues.ret _

theorem issues_renderFn {Q : Req → Prop} (hget : ∀ k n, Q (.getCached k n)) (hst : ∀ l, Q (.statusUpdate l))
    (lrv : Nat) (obs : Obs) (k : List Named → P) (hk : ∀ ns, Issues Q (k ns)) :
    ∀ (ds : List Desired) (fresh : List String) (acc : List Named), Issues Q (renderFn lrv obs ds fresh acc k) := by
  intro ds
  induction ds with
  | nil => intro fresh acc; simp only [renderFn]; exact hk _
  | cons d ds ih =>
    intro fresh acc
    simp only [renderFn]
    split
    · exact ih _ _
    · split
      · exact issues_onErrorO' _ (hst _)
      · refine Issues.call _ _ (hget _ _) ?_
        intro x
        cases x <;> first | exact ih _ _ | exact issues_onErrorO' _ (hst _)

theorem issues_gcFn {Q : Req → Prop} (lrv : Nat) (os : List CObj) (k : P)
    (hQ : ∀ o ∈ os, Q (.gcUpdate o.kind o.name) ∧ Q (.delete o.kind o.name))
    (hs : Q (.statusUpdate (some lrv))) (hk : Issues Q k) : Issues Q (gcFn lrv os k) := by
  induction os with
  | nil => simpa [gcFn] using hk
  | cons o os ih =>
    simp only [gcFn]
    refine issues_wcall _ _ _ (hQ o (List.mem_cons_self ..)).1 hs ?_
    intro _
    refine issues_wcall _ _ _ (hQ o (List.mem_cons_self ..)).2 hs ?_
    intro _
    exact ih (fun o' ho' => hQ o' (List.mem_cons_of_mem _ ho'))

theorem issues_applyFn {Q : Req → Prop} (hap : ∀ k n a c, Q (.apply k n a c)) (hst : ∀ l, Q (.statusUpdate l))
    (lrv : Nat) (k : Bool → P) (hk : ∀ b, Issues Q (k b)) :
    ∀ (ns : List Named) (b : Bool), Issues Q (applyFn lrv ns b k) := by
  intro ns
  induction ns with
  | nil => intro b; simp only [applyFn]; exact hk b
  | cons n ns ih =>
    intro b
    simp only [applyFn]
    refine issues_wcall _ _ _ (hap ..) (hst _) ?_
    intro x
    cases x <;> exact ih _

/-! ### the function composer split at the point where the pipeline has returned -/

/-- what `composeFn` does once the observation is complete -/
def composeTail (lrv : Nat) (out : Obs → FnOut) (ch : Choices) (obs : Obs) : P :=
  match out obs with
  | .failed => onError lrv
  | .desired ds =>
    renderFn lrv obs ds ch.fresh [] fun named =>
    gcFn lrv (ch.gcOrder ((obs.filter fun p => !(ds.any (·.rname = p.1))).map (·.2))) <|
    wcall lrv (.patchRefs ch.ver (refsOf named)) fun _ =>
    applyFn lrv (ch.applyOrder named) true fun synced =>
    .call .statusPatch fun
      | .okRv rv => finish rv synced
      | .conflict => onConflict
      | _ => onErrorO none

theorem composeFn_eq (lrv : Nat) (refs : List Ref) (out : Obs → FnOut) (ch : Choices) :
    composeFn lrv refs out ch = observeFn lrv refs [] (composeTail lrv out ch) := rfl

theorem composeTail_failed {lrv : Nat} {out : Obs → FnOut} {ch : Choices} {obs : Obs} (h : out obs = .failed) :
    composeTail lrv out ch obs = onError lrv := by
  simp only [composeTail, h]

theorem composeTail_desired {lrv : Nat} {out : Obs → FnOut} {ch : Choices} {obs : Obs} {ds : List Desired}
    (h : out obs = .desired ds) :
    composeTail lrv out ch obs =
      renderFn lrv obs ds ch.fresh [] fun named =>
      gcFn lrv (ch.gcOrder ((obs.filter fun p => !(ds.any (·.rname = p.1))).map (·.2))) <|
      wcall lrv (.patchRefs ch.ver (refsOf named)) fun _ =>
      applyFn lrv (ch.applyOrder named) true fun synced =>
      .call .statusPatch fun
        | .okRv rv => finish rv synced
        | .conflict => onConflict
        | _ => onErrorO none := by
  simp only [composeTail, h]

/-- everything after the garbage collection issues no garbage-collection request -/
theorem issues_afterGc {Q : Req → Prop} (hQ : ∀ r, NoGc r → Q r) (lrv : Nat) (ch : Choices) (named : List Named) :
    Issues Q (wcall lrv (.patchRefs ch.ver (refsOf named)) fun _ =>
      applyFn lrv (ch.applyOrder named) true fun synced =>
      .call .statusPatch fun
        | .okRv rv => finish rv synced
        | .conflict => onConflict
        | _ => onErrorO none) := by
  refine issues_wcall _ _ _ (hQ _ trivial) (hQ _ trivial) ?_
  intro _
  refine issues_applyFn (fun _ _ _ _ => hQ _ trivial) (fun _ => hQ _ trivial) _ _ ?_ _ _
  intro b
  refine Issues.call _ _ (hQ _ trivial) ?_
  intro x
  cases x <;> first | exact issues_finish _ _ (hQ _ trivial) | exact Issues.ret _ | exact issues_onErrorO' _ (hQ _ trivial)

/-! ### the observation as a pure function of the store -/

/-- `ObserveComposedResources` when every read succeeds: the referenced objects that exist and
are not controlled by someone else, by resource name; `none` = an unannotated one was met
(the observation errors) -/
def observePure (objs : List CObj) : List Ref → Obs → Option Obs
  | [], acc => some acc
  | r :: rs, acc =>
    if r.name = "" then observePure objs rs acc else
    match findObj objs r.kind r.name with
    | none => observePure objs rs acc
    | some o =>
      if o.ctrl = .other then observePure objs rs acc
      else if o.annot = "" then none
      else observePure objs rs (obsInsert acc o.annot o)

theorem observePure_skip {objs : List CObj} {r : Ref} (rs : List Ref) (acc : Obs) (h : r.name = "") :
    observePure objs (r :: rs) acc = observePure objs rs acc := by
  simp only [observePure, h, if_true]

theorem observePure_none {objs : List CObj} {r : Ref} (rs : List Ref) (acc : Obs) (h : r.name ≠ "")
    (hf : findObj objs r.kind r.name = none) :
    observePure objs (r :: rs) acc = observePure objs rs acc := by
  simp only [observePure, h, if_false, hf]

theorem observePure_some {objs : List CObj} {r : Ref} {o : CObj} (rs : List Ref) (acc : Obs) (h : r.name ≠ "")
    (hf : findObj objs r.kind r.name = some o) :
    observePure objs (r :: rs) acc =
      if o.ctrl = .other then observePure objs rs acc
      else if o.annot = "" then none
      else observePure objs rs (obsInsert acc o.annot o) := by
  simp only [observePure, h, if_false, hf]

theorem emits_onError {Q : Req → Prop} (lrv : Nat) (hst : ∀ l, Q (.statusUpdate l)) (s : St) :
    Emits sem Q (onError lrv) s := (issues_onErrorO' _ (hst _)).emits s

/-- Under every fault plan and for every set of cache misses the observe loop either aborts or
hands the pure observation of the store (`observePure`, which does not depend on the cache) to its
continuation; it issues reads only. -/
theorem emits_observeFn {Q : Req → Prop} (hget : ∀ k n, Q (.getObj k n)) (hgetc : ∀ k n, Q (.getCached k n))
    (hst : ∀ l, Q (.statusUpdate l)) (s : St) (lrv : Nat) (k : Obs → P) :
    ∀ (rs : List Ref) (acc : Obs),
      (∀ obs, observePure s.objs rs acc = some obs → Emits sem Q (k obs) s) →
      Emits sem Q (observeFn lrv rs acc k) s := by
  intro rs
  induction rs with
  | nil => intro acc hk; simp only [observeFn]; exact hk acc rfl
  | cons r rs ih =>
    intro acc hk
    simp only [observeFn]
    by_cases hn : r.name = ""
    · simp only [hn, if_true]
      exact ih acc (fun obs h => hk obs (by rw [observePure_skip rs acc hn]; exact h))
    · simp only [hn, if_false]
      cases hf : findObj s.objs r.kind r.name with
      | none =>
        have hnone : Emits sem Q (observeFn lrv rs acc k) s :=
          ih acc (fun obs h => hk obs (by rw [observePure_none rs acc hn hf]; exact h))
        simp only [Emits, sem, exec_getCached_none hf, exec_getObj_none hf, isRead, if_true]
        exact ⟨hgetc _ _, ⟨hget _ _, hnone, emits_onError _ hst _, emits_onError _ hst _⟩,
          emits_onError _ hst _, emits_onError _ hst _⟩
      | some o =>
        have hfound : Emits sem Q (if o.ctrl = .other then observeFn lrv rs acc k
            else if o.annot = "" then onError lrv
            else observeFn lrv rs (obsInsert acc o.annot o) k) s := by
          have hk' := fun obs h => hk obs (by rw [observePure_some rs acc hn hf]; exact h)
          by_cases hc : o.ctrl = .other
          · simp only [hc, if_true] at hk' ⊢; exact ih acc hk'
          · simp only [hc, if_false] at hk' ⊢
            by_cases ha : o.annot = ""
            · simp only [ha, if_true]; exact emits_onError _ hst _
            · simp only [ha, if_false] at hk' ⊢; exact ih _ hk'
        by_cases hmiss : (⟨r.kind, r.name⟩ : Ref) ∈ s.miss
        · -- missing from the cache: the live read finds it
          simp only [Emits, sem, exec_getCached_miss hmiss, exec_getObj_some hf, isRead, if_true]
          exact ⟨hgetc _ _, ⟨hget _ _, hfound, emits_onError _ hst _, emits_onError _ hst _⟩,
            emits_onError _ hst _, emits_onError _ hst _⟩
        · simp only [Emits, sem, exec_getCached_some hf hmiss, isRead, if_true]
          exact ⟨hgetc _ _, hfound, emits_onError _ hst _, emits_onError _ hst _⟩

/-- what being in the observation means -/
structure ObservedAs (s : St) (a : String) (o : CObj) : Prop where
  ref : (⟨o.kind, o.name⟩ : Ref) ∈ s.refs
  named : o.name ≠ ""
  found : findObj s.objs o.kind o.name = some o
  notForeign : o.ctrl ≠ .other
  annot : o.annot = a
  annotNe : a ≠ ""

theorem observePure_sound (s : St) :
    ∀ (rs : List Ref) (acc obs : Obs), (∀ r ∈ rs, r ∈ s.refs) → (∀ p ∈ acc, ObservedAs s p.1 p.2) →
      observePure s.objs rs acc = some obs → ∀ p ∈ obs, ObservedAs s p.1 p.2 := by
  intro rs
  induction rs with
  | nil => intro acc obs _ hacc h; simp only [observePure, Option.some.injEq] at h; subst h; exact hacc
  | cons r rs ih =>
    intro acc obs hrs hacc h
    have hrs' : ∀ x ∈ rs, x ∈ s.refs := fun x hx => hrs x (List.mem_cons_of_mem _ hx)
    by_cases hn : r.name = ""
    · rw [observePure_skip rs acc hn] at h; exact ih acc obs hrs' hacc h
    · cases hf : findObj s.objs r.kind r.name with
      | none => rw [observePure_none rs acc hn hf] at h; exact ih acc obs hrs' hacc h
      | some o =>
        rw [observePure_some rs acc hn hf] at h
        by_cases hc : o.ctrl = .other
        · simp only [hc, if_true] at h; exact ih acc obs hrs' hacc h
        · simp only [hc, if_false] at h
          by_cases ha : o.annot = ""
          · simp [ha] at h
          · simp only [ha, if_false] at h
            refine ih _ obs hrs' ?_ h
            intro p hp
            rcases mem_obsInsert hp with hp | rfl
            · exact hacc p hp
            · obtain ⟨_, hk1, hk2⟩ := findObj_some hf
              have hr : (⟨o.kind, o.name⟩ : Ref) = r := by cases r; simp_all
              exact ⟨hr ▸ hrs r (List.mem_cons_self ..), hk2 ▸ hn, by rw [hk1, hk2]; exact hf, hc, rfl, ha⟩

/-- two entries of an observation that name the same object are the same entry -/
theorem observedAs_key_unique {s : St} {a a' : String} {o o' : CObj} (h : ObservedAs s a o) (h' : ObservedAs s a' o')
    (hk : o'.kind = o.kind) (hn : o'.name = o.name) : o' = o ∧ a' = a := by
  have := h'.found
  rw [hk, hn, h.found] at this
  cases this
  exact ⟨rfl, h'.annot.symm.trans h.annot⟩

/-- in a `Good` store the observation is complete: every referenced, existing object that is
not controlled by someone else is in it under its annotation -/
theorem observePure_complete {s : St} (hg : Good s) :
    ∀ (rs done : List Ref) (acc obs : Obs), (∀ r ∈ rs, r ∈ s.refs) → (∀ r ∈ done, r ∈ s.refs) → ObsOKp s done acc →
      observePure s.objs rs acc = some obs → ObsOKp s (done ++ rs) obs := by
  intro rs
  induction rs with
  | nil => intro done acc obs _ _ hacc h; simp only [observePure, Option.some.injEq] at h; subst h; simpa using hacc
  | cons r rs ih =>
    intro done acc obs hrs hdone hacc h
    have hr : r ∈ s.refs := hrs r (List.mem_cons_self ..)
    have hrs' : ∀ x ∈ rs, x ∈ s.refs := fun x hx => hrs x (List.mem_cons_of_mem _ hx)
    have hdone' : ∀ x ∈ done ++ [r], x ∈ s.refs := by
      intro x hx
      rcases List.mem_append.mp hx with hx | hx
      · exact hdone x hx
      · simp at hx; exact hx ▸ hr
    have fin : ∀ acc', ObsOKp s (done ++ [r]) acc' → observePure s.objs rs acc' = some obs →
        ObsOKp s (done ++ r :: rs) obs := by
      intro acc' h1 h2
      simpa using ih (done ++ [r]) acc' obs hrs' hdone' h1 h2
    by_cases hn : r.name = ""
    · rw [observePure_skip rs acc hn] at h
      refine fin acc ?_ h
      apply obsOKp_skip r hacc
      intro o ho hko
      have := hg.named o ho
      rw [← hko] at hn
      exact absurd hn this
    · cases hf : findObj s.objs r.kind r.name with
      | none =>
        rw [observePure_none rs acc hn hf] at h
        refine fin acc ?_ h
        apply obsOKp_skip r hacc
        intro o ho hko
        exact absurd ((key_eq_iff o r.kind r.name).mp (by cases r; simpa [key] using hko)) (findObj_none hf o ho)
      | some o =>
        rw [observePure_some rs acc hn hf] at h
        obtain ⟨hm, hk1, hk2⟩ := findObj_some hf
        have hko : key o = r := by cases r; simp_all [key]
        by_cases hc : o.ctrl = .other
        · simp only [hc, if_true] at h
          refine fin acc ?_ h
          apply obsOKp_skip r hacc
          intro o2 ho2 hk2'
          have : o2 = o := eq_of_key_eq hg.nodup ho2 hm (hk2'.trans hko.symm)
          exact this ▸ hc
        · simp only [hc, if_false] at h
          by_cases ha : o.annot = ""
          · simp [ha] at h
          · simp only [ha, if_false] at h
            exact fin _ (obsOKp_insert hg r o hacc hdone hr hm hko hc ha) h

/-! ### the reconcile header -/

/-- the composer `Reconcile` runs once the XR carries its finalizer -/
def bodyOf (m : Mode) (refs : List Ref) (lrv : Nat) : P :=
  match m with
  | .fn out ch => composeFn lrv refs out ch
  | .pt tmpl fresh ver => composePT lrv refs tmpl fresh ver

theorem reconcile_eq (m : Mode) :
    reconcile m = .call .getXR fun
      | .xr fin rv refs =>
        if fin then bodyOf m refs rv
        else .call (.addFinalizer rv) fun
          | .okRv rv' => bodyOf m refs rv'
          | .conflict => onConflict
          | _ => onError rv
      | _ => .ret .error := by
  cases m <;> rfl

theorem exec_addFinalizer_objs (s : St) (rv : Nat) :
    (exec s (.addFinalizer rv)).1.objs = s.objs ∧ (exec s (.addFinalizer rv)).1.refs = s.refs := by
  simp only [exec]; split <;> exact ⟨rfl, rfl⟩

/-- whatever the composer may issue from a store with the same objects and references,
`Reconcile` may issue, plus reads of the XR, the finalizer update and status updates -/
theorem emits_reconcile {Q : Req → Prop} (hQ : ∀ r, NoGc r → Q r) (m : Mode) (s : St)
    (hbody : ∀ lrv s', s'.objs = s.objs → Emits sem Q (bodyOf m s.refs lrv) s') :
    Emits sem Q (reconcile m) s := by
  rw [reconcile_eq]
  have hst : ∀ l, Q (.statusUpdate l) := fun _ => hQ _ trivial
  simp only [Emits, sem, exec_getXR, isRead, if_true]
  refine ⟨hQ _ trivial, ?_, trivial, trivial⟩
  split
  · exact hbody _ s rfl
  · simp only [Emits, Bool.false_eq_true, if_false]
    refine ⟨hQ _ trivial, ?_, emits_onError _ hst _, trivial⟩
    have hobjs := (exec_addFinalizer_objs s s.xrRv).1
    generalize exec s (.addFinalizer s.xrRv) = x at hobjs
    obtain ⟨s', rsp⟩ := x
    cases rsp <;> first | exact hbody _ s' hobjs | exact emits_onError _ hst _ | trivial

/-! ### the function composer: what may be issued -/

theorem emits_composeFn {Q : Req → Prop} (hQ : ∀ r, NoGc r → Q r) (out : Obs → FnOut) (ch : Choices)
    (refs : List Ref) (lrv : Nat) (s : St)
    (hgc : ∀ obs ds, observePure s.objs refs [] = some obs → out obs = .desired ds →
      ∀ o ∈ ch.gcOrder ((obs.filter fun p => !(ds.any (·.rname = p.1))).map (·.2)),
        Q (.gcUpdate o.kind o.name) ∧ Q (.delete o.kind o.name)) :
    Emits sem Q (composeFn lrv refs out ch) s := by
  have hst : ∀ l, Q (.statusUpdate l) := fun _ => hQ _ trivial
  have hget : ∀ k n, Q (.getObj k n) := fun _ _ => hQ _ trivial
  have hgetc : ∀ k n, Q (.getCached k n) := fun _ _ => hQ _ trivial
  rw [composeFn_eq]
  apply emits_observeFn hget hgetc hst
  intro obs hobs
  apply Issues.emits
  cases ho : out obs with
  | failed => rw [composeTail_failed ho]; exact issues_onErrorO' _ (hst _)
  | desired ds =>
    rw [composeTail_desired ho]
    apply issues_renderFn hgetc hst
    intro named
    exact issues_gcFn _ _ _ (hgc obs ds hobs ho) (hst _) (issues_afterGc hQ _ _ _)

/-! ### fault-free runs -/

/-- the requests applied by the fault-free run -/
def okApplied (p : P) (s : St) : List Req := applied sem Plan.allOk 0 p s

/-- the result of the fault-free run -/
def okRes (p : P) (s : St) : Option Result := (run sem Plan.allOk 0 p s).2

theorem okApplied_ret (a : Result) (s : St) : okApplied (.ret a) s = [] := rfl
theorem okRes_ret (a : Result) (s : St) : okRes (.ret a) s = some a := rfl

theorem okApplied_call (r : Req) (c : Resp → P) (s : St) :
    okApplied (.call r c) s = r :: okApplied (c (exec s r).2) (exec s r).1 := by
  simp only [okApplied, applied, Plan.allOk, sem]
  rw [applied_allOk_index _ _ 1]

theorem okRes_call (r : Req) (c : Resp → P) (s : St) :
    okRes (.call r c) s = okRes (c (exec s r).2) (exec s r).1 := by
  simp only [okRes, run, Plan.allOk, sem]
  rw [run_allOk_index' _ _ 1]

/-- the fault-free run got as far as a request of class `C`, or succeeded altogether -/
def Reached (C : Req → Prop) (p : P) (s : St) : Prop :=
  okRes p s = some .success ∨ ∃ r ∈ okApplied p s, C r

theorem reached_call {C : Req → Prop} {r : Req} {c : Resp → P} {s : St} (hr : ¬ C r)
    (h : Reached C (.call r c) s) : Reached C (c (exec s r).2) (exec s r).1 := by
  rcases h with h | ⟨x, hx, hc⟩
  · exact Or.inl (by rw [okRes_call] at h; exact h)
  · rw [okApplied_call] at hx
    rcases List.mem_cons.mp hx with rfl | hx
    · exact absurd hc hr
    · exact Or.inr ⟨x, hx, hc⟩

theorem not_reached_ret {C : Req → Prop} {a : Result} {s : St} (ha : a ≠ .success) : ¬ Reached C (.ret a) s := by
  rintro (h | ⟨x, hx, _⟩)
  · rw [okRes_ret] at h; cases h; exact ha rfl
  · simp [okApplied_ret] at hx

theorem not_reached_onErrorO {C : Req → Prop} {l : Option Nat} {s : St} (hs : ¬ C (.statusUpdate l)) :
    ¬ Reached C (onErrorO l) s := by
  intro h
  unfold onErrorO at h
  have h' := reached_call hs h
  generalize (exec s (.statusUpdate l)).2 = x at h'
  cases x <;> exact not_reached_ret (by decide) h'

theorem not_reached_onError {C : Req → Prop} {l : Nat} {s : St} (hs : ∀ l, ¬ C (.statusUpdate l)) :
    ¬ Reached C (onError l) s := not_reached_onErrorO (hs _)

theorem reached_observeFn {C : Req → Prop} (hget : ∀ k n, ¬ C (.getObj k n)) (hgetc : ∀ k n, ¬ C (.getCached k n))
    (hst : ∀ l, ¬ C (.statusUpdate l)) (s : St) (lrv : Nat) (k : Obs → P) :
    ∀ (rs : List Ref) (acc : Obs), Reached C (observeFn lrv rs acc k) s →
      ∃ obs, observePure s.objs rs acc = some obs ∧ Reached C (k obs) s ∧
        ∀ r ∈ okApplied (k obs) s, r ∈ okApplied (observeFn lrv rs acc k) s := by
  intro rs
  induction rs with
  | nil => intro acc h; simp only [observeFn] at h ⊢; exact ⟨acc, rfl, h, fun _ hr => hr⟩
  | cons r rs ih =>
    intro acc h
    simp only [observeFn] at h ⊢
    by_cases hn : r.name = ""
    · simp only [hn, if_true] at h ⊢
      rw [observePure_skip rs acc hn]; exact ih acc h
    · simp only [hn, if_false] at h ⊢
      cases hf : findObj s.objs r.kind r.name with
      | none =>
        rw [observePure_none rs acc hn hf]
        have h1 := reached_call (hgetc _ _) h
        rw [exec_getCached_none hf] at h1
        have h2 := reached_call (hget _ _) h1
        rw [exec_getObj_none hf] at h2
        obtain ⟨obs, e, hr, hsub⟩ := ih acc h2
        refine ⟨obs, e, hr, ?_⟩
        intro x hx
        rw [okApplied_call, exec_getCached_none hf]
        simp only []
        rw [okApplied_call, exec_getObj_none hf]
        exact List.mem_cons_of_mem _ (List.mem_cons_of_mem _ (hsub x hx))
      | some o =>
        rw [observePure_some rs acc hn hf]
        -- the continuation once the object has been read (from the cache, or live after a miss)
        have hcont : ∀ (p : P), p = (if o.ctrl = .other then observeFn lrv rs acc k
              else if o.annot = "" then onError lrv else observeFn lrv rs (obsInsert acc o.annot o) k) →
            Reached C p s →
            ∃ obs, (if o.ctrl = .other then observePure s.objs rs acc
              else if o.annot = "" then none else observePure s.objs rs (obsInsert acc o.annot o)) = some obs ∧
              Reached C (k obs) s ∧ ∀ x ∈ okApplied (k obs) s, x ∈ okApplied p s := by
          intro p he h1
          subst he
          by_cases hc : o.ctrl = .other
          · simp only [hc, if_true] at h1 ⊢; exact ih acc h1
          · simp only [hc, if_false] at h1 ⊢
            by_cases ha : o.annot = ""
            · simp only [ha, if_true] at h1; exact absurd h1 (not_reached_onError hst)
            · simp only [ha, if_false] at h1 ⊢; exact ih _ h1
        by_cases hmiss : (⟨r.kind, r.name⟩ : Ref) ∈ s.miss
        · have h1 := reached_call (hgetc _ _) h
          rw [exec_getCached_miss hmiss] at h1
          simp only [] at h1
          have h2 := reached_call (hget _ _) h1
          rw [exec_getObj_some hf] at h2
          simp only [] at h2
          obtain ⟨obs, e, hr, hsub⟩ := hcont _ rfl h2
          refine ⟨obs, e, hr, ?_⟩
          intro x hx
          rw [okApplied_call, exec_getCached_miss hmiss]
          simp only []
          rw [okApplied_call, exec_getObj_some hf]
          exact List.mem_cons_of_mem _ (List.mem_cons_of_mem _ (hsub x hx))
        · have h1 := reached_call (hgetc _ _) h
          rw [exec_getCached_some hf hmiss] at h1
          simp only [] at h1
          obtain ⟨obs, e, hr, hsub⟩ := hcont _ rfl h1
          refine ⟨obs, e, hr, ?_⟩
          intro x hx
          rw [okApplied_call, exec_getCached_some hf hmiss]
          exact List.mem_cons_of_mem _ (hsub x hx)

theorem reached_renderFn {C : Req → Prop} (hget : ∀ k n, ¬ C (.getCached k n)) (hst : ∀ l, ¬ C (.statusUpdate l))
    (s : St) (lrv : Nat) (obs : Obs) (k : List Named → P) :
    ∀ (ds : List Desired) (fresh : List String) (acc : List Named), Reached C (renderFn lrv obs ds fresh acc k) s →
      ∃ named, Reached C (k named) s ∧
        ∀ r ∈ okApplied (k named) s, r ∈ okApplied (renderFn lrv obs ds fresh acc k) s := by
  intro ds
  induction ds with
  | nil => intro fresh acc h; simp only [renderFn] at h ⊢; exact ⟨_, h, fun _ hr => hr⟩
  | cons d ds ih =>
    intro fresh acc h
    cases hl : obsLookup obs d.rname with
    | some o =>
      simp only [renderFn, hl] at h ⊢
      exact ih _ _ h
    | none =>
      cases fresh with
      | nil =>
        simp only [renderFn, hl] at h
        exact absurd h (not_reached_onError hst)
      | cons n fresh' =>
        simp only [renderFn, hl] at h ⊢
        have h1 := reached_call (hget _ _) h
        rcases exec_getCached_resp s d.kind n with hf | ⟨o, _, hf⟩
        · rw [hf] at h1
          simp only [] at h1
          obtain ⟨named, hr, hsub⟩ := ih _ _ h1
          refine ⟨named, hr, ?_⟩
          intro x hx
          rw [okApplied_call, hf]
          exact List.mem_cons_of_mem _ (hsub x hx)
        · rw [hf] at h1
          exact absurd h1 (not_reached_onError hst)

theorem exec_gcUpdate_resp (s : St) (k n : String) :
    (exec s (.gcUpdate k n)).2 = .ok ∨ (exec s (.gcUpdate k n)).2 = .notFound := by
  simp only [exec]; split
  · exact Or.inl rfl
  · exact Or.inr rfl

theorem exec_delete_resp (s : St) (k n : String) :
    (exec s (.delete k n)).2 = .ok ∨ (exec s (.delete k n)).2 = .notFound := by
  simp only [exec]; split
  · split <;> exact Or.inl rfl
  · exact Or.inr rfl

theorem okApplied_wcall {lrv : Nat} {r : Req} {k : Resp → P} {s : St}
    (h : (exec s r).2 = .ok ∨ (exec s r).2 = .notFound) :
    okApplied (wcall lrv r k) s = r :: okApplied (k (exec s r).2) (exec s r).1 := by
  unfold wcall
  rw [okApplied_call]
  rcases h with h | h <;> rw [h]

/-- on a fault-free run the garbage-collection loop issues both requests for every target -/
theorem okApplied_gcFn (lrv : Nat) (k : P) :
    ∀ (os : List CObj) (s : St), ∀ o ∈ os,
      Req.gcUpdate o.kind o.name ∈ okApplied (gcFn lrv os k) s ∧ Req.delete o.kind o.name ∈ okApplied (gcFn lrv os k) s := by
  intro os
  induction os with
  | nil => intro s o ho; cases ho
  | cons o' os ih =>
    intro s o ho
    simp only [gcFn]
    rw [okApplied_wcall (exec_gcUpdate_resp ..), okApplied_wcall (exec_delete_resp ..)]
    rcases List.mem_cons.mp ho with rfl | ho
    · exact ⟨List.mem_cons_self .., List.mem_cons_of_mem _ (List.mem_cons_self ..)⟩
    · exact ⟨List.mem_cons_of_mem _ (List.mem_cons_of_mem _ (ih _ o ho).1),
        List.mem_cons_of_mem _ (List.mem_cons_of_mem _ (ih _ o ho).2)⟩

/-- the part of a fault-free `Reconcile` in front of the composer -/
theorem reached_reconcile {C : Req → Prop} (hC : ∀ r, C r → ¬ NoGc r ∨ (∃ v rf, r = .patchRefs v rf) ∨ (∃ rv v rf, r = .updateXR rv v rf))
    (m : Mode) (s : St) (h : Reached C (reconcile m) s) :
    ∃ lrv s', s'.objs = s.objs ∧ Reached C (bodyOf m s.refs lrv) s' ∧
      ∀ r ∈ okApplied (bodyOf m s.refs lrv) s', r ∈ okApplied (reconcile m) s := by
  have hst : ∀ l, ¬ C (.statusUpdate l) := by
    intro l hc; rcases hC _ hc with h | ⟨_, _, h⟩ | ⟨_, _, _, h⟩
    · exact h trivial
    · cases h
    · cases h
  have hget : ¬ C .getXR := by
    intro hc; rcases hC _ hc with h | ⟨_, _, h⟩ | ⟨_, _, _, h⟩
    · exact h trivial
    · cases h
    · cases h
  have hfin : ∀ rv, ¬ C (.addFinalizer rv) := by
    intro rv hc; rcases hC _ hc with h | ⟨_, _, h⟩ | ⟨_, _, _, h⟩
    · exact h trivial
    · cases h
    · cases h
  rw [reconcile_eq] at h ⊢
  have h1 := reached_call hget h
  rw [okApplied_call]
  rw [exec_getXR] at h1 ⊢
  simp only [] at h1 ⊢
  by_cases hf : s.xrFin = true
  · simp only [hf, if_true] at h1 ⊢
    exact ⟨_, s, rfl, h1, fun r hr => List.mem_cons_of_mem _ hr⟩
  · simp only [hf, Bool.false_eq_true, if_false] at h1 ⊢
    have h2 := reached_call (hfin _) h1
    rw [okApplied_call]
    rw [exec_addFinalizer] at h2 ⊢
    simp only [] at h2 ⊢
    exact ⟨s.xrRv + 1, { s with xrFin := true, xrRv := s.xrRv + 1 }, rfl, h2,
      fun r hr => List.mem_cons_of_mem _ (List.mem_cons_of_mem _ hr)⟩

end Xp.C01

import Xp.Proofs.C01
/-
Safety of the P&T composer (named templates): same invariant `Good`, different phases.
-/
namespace Xp.C01

/-! ### association map -/

theorem assocLookup_insert_self (a : Assoc) (n : String) (r : Ref) : assocLookup (assocInsert a n r) n = some r := by
  induction a with
  | nil => simp [assocInsert, assocLookup]
  | cons p ps ih =>
    unfold assocInsert
    split
    · simp [assocLookup]
    · rename_i h
      simp only [assocLookup, List.find?, h, decide_false] at ih ⊢
      exact ih

theorem assocLookup_insert_ne (a : Assoc) (n t : String) (r : Ref) (h : t ≠ n) :
    assocLookup (assocInsert a n r) t = assocLookup a t := by
  induction a with
  | nil => simp [assocInsert, assocLookup, Ne.symm h]
  | cons p ps ih =>
    unfold assocInsert
    split
    · rename_i hp
      have : ¬ p.1 = t := fun e => h (e ▸ hp)
      simp [assocLookup, List.find?, Ne.symm h, this]
    · simp only [assocLookup, List.find?] at ih ⊢
      split
      · rfl
      · exact ih

def isTmpl (tmpl : List Desired) (a : String) : Bool := tmpl.any (·.rname = a)

/-- loop invariant of AssociateTemplates after processing the references in `done` -/
structure AssocOK (s0 s : St) (tmpl : List Desired) (done : List Ref) (a : Assoc) : Prop where
  sh : Shrunk s0 s
  fwd : ∀ o ∈ s.objs, key o ∈ done → o.annot ≠ "" ∧
    (if isTmpl tmpl o.annot then assocLookup a o.annot = some (key o) else o.deleting = true)
  bwd : ∀ t r, assocLookup a t = some r → isTmpl tmpl t = true ∧ ∃ o ∈ s.objs, key o = r ∧ o.annot = t

theorem assocOK_skip {s0 s : St} {tmpl : List Desired} {done : List Ref} {a : Assoc} (r : Ref)
    (h : AssocOK s0 s tmpl done a) (hr : ∀ o ∈ s.objs, key o ≠ r) : AssocOK s0 s tmpl (done ++ [r]) a := by
  refine ⟨h.sh, ?_, h.bwd⟩
  intro o ho hk
  rcases List.mem_append.mp hk with hk | hk
  · exact h.fwd o ho hk
  · simp at hk; exact absurd hk (hr o ho)

/-- objects other than the deleted one survive a delete unchanged -/
theorem exec_delete_others (s : St) (k n : String) (o : CObj) (ho : o ∈ s.objs) (hk : key o ≠ ⟨k, n⟩) :
    o ∈ (exec s (.delete k n)).1.objs := by
  have hne : ¬ (o.kind = k ∧ o.name = n) := fun h => hk ((key_eq_iff o k n).mpr h)
  cases hf : findObj s.objs k n with
  | none => rw [exec_delete_none hf]; exact ho
  | some o0 =>
    cases hfin : o0.fin with
    | true =>
      rw [exec_delete_fin hf hfin]
      exact mem_mapObj.mpr ⟨o, ho, by simp [hne]⟩
    | false =>
      rw [exec_delete_nofin hf hfin]
      exact mem_removeObj.mpr ⟨ho, hne⟩

theorem safe_associatePT {s0 : St} (hg0 : Good s0) (lrv : Nat) (tmpl : List Desired) (k : Assoc → P) :
    ∀ (rs done : List Ref) (acc : Assoc) (s : St), (∀ r ∈ rs, r ∈ s0.refs) → (∀ r ∈ done, r ∈ s0.refs) →
      AssocOK s0 s tmpl done acc →
      (∀ a s', AssocOK s0 s' tmpl (done ++ rs) a → Safe sem Good (k a) s') →
      Safe sem Good (associatePT lrv tmpl rs acc k) s := by
  intro rs
  induction rs with
  | nil =>
    intro done acc s _ _ hacc hk
    simp only [associatePT]
    exact hk acc s (by simpa using hacc)
  | cons r rs ih =>
    intro done acc s hrs hdone hacc hk
    have hg : Good s := hacc.sh.good hg0
    have hr : r ∈ s0.refs := hrs r (List.mem_cons_self ..)
    have hrs' : ∀ x ∈ rs, x ∈ s0.refs := fun x hx => hrs x (List.mem_cons_of_mem _ hx)
    have hdone' : ∀ x ∈ done ++ [r], x ∈ s0.refs := by
      intro x hx
      rcases List.mem_append.mp hx with hx | hx
      · exact hdone x hx
      · simp at hx; exact hx ▸ hr
    have hk' : ∀ a s', AssocOK s0 s' tmpl ((done ++ [r]) ++ rs) a → Safe sem Good (k a) s' := by
      intro a s' h; exact hk a s' (by simpa using h)
    simp only [associatePT]
    by_cases hn : r.name = ""
    · simp only [hn, if_true]
      apply ih (done ++ [r]) acc s hrs' hdone' _ hk'
      apply assocOK_skip r hacc
      intro o ho hko
      have := hg.named o ho
      rw [← hko] at hn
      exact absurd hn this
    · simp only [hn, if_false]
      have hfound : ∀ o, findObj s.objs r.kind r.name = some o →
          Safe sem Good (if o.annot = "" then onError lrv
            else if (tmpl.any (·.rname = o.annot)) = true then associatePT lrv tmpl rs (assocInsert acc o.annot r) k
            else if o.ctrl = .other then onError lrv
            else wcall lrv (.gcUpdate o.kind o.name) fun _ => wcall lrv (.delete o.kind o.name) fun _ =>
              associatePT lrv tmpl rs acc k) s := by
        intro o hf
        obtain ⟨hm, hk1, hk2⟩ := findObj_some hf
        have hko : key o = r := by cases r; simp_all [key]
        by_cases ha : o.annot = ""
        · simp only [ha, if_true]; exact safe_onError hg _
        · simp only [ha, if_false]
          by_cases ht : (tmpl.any (·.rname = o.annot)) = true
          · simp only [ht, if_true]
            apply ih (done ++ [r]) _ s hrs' hdone' _ hk'
            refine ⟨hacc.sh, ?_, ?_⟩
            · intro o2 ho2 hk2'
              have hrefs : s.refs = s0.refs := hacc.sh.refs
              rcases List.mem_append.mp hk2' with hk2' | hk2'
              · obtain ⟨hne, hl⟩ := hacc.fwd o2 ho2 hk2'
                refine ⟨hne, ?_⟩
                by_cases he : o2.annot = o.annot
                · have : o2 = o := hg.obsUniq o2 ho2 o hm (hrefs ▸ hdone _ hk2') (hrefs ▸ hko ▸ hr) he hne
                  subst this
                  have : isTmpl tmpl o2.annot = true := ht
                  simp only [this, if_true]
                  rw [assocLookup_insert_self, hko]
                · by_cases ht2 : isTmpl tmpl o2.annot = true
                  · simp only [ht2, if_true] at hl ⊢
                    rw [assocLookup_insert_ne _ _ _ _ he]; exact hl
                  · simp only [ht2] at hl ⊢; exact hl
              · simp at hk2'
                have : o2 = o := eq_of_key_eq hg.nodup ho2 hm (hk2'.trans hko.symm)
                subst this
                have : isTmpl tmpl o2.annot = true := ht
                simp only [this, if_true]
                exact ⟨ha, by rw [assocLookup_insert_self, hko]⟩
            · intro t r2 hl
              by_cases he : t = o.annot
              · subst he
                rw [assocLookup_insert_self] at hl
                cases hl
                exact ⟨ht, o, hm, hko, rfl⟩
              · rw [assocLookup_insert_ne _ _ _ _ he] at hl
                exact hacc.bwd t r2 hl
          · simp only [ht]
            by_cases hc : o.ctrl = .other
            · simp only [hc, if_true]; exact safe_onError hg _
            · simp only [hc, if_false]
              apply safe_wcall hg
              · rw [exec_gcUpdate_state]; exact hg
              · intro _ _
                rw [exec_gcUpdate_state]
                obtain ⟨hsh, hdead⟩ := exec_delete_shrunk s hg.nodup o.kind o.name
                  (by intro x hx hkx
                      have : x = o := eq_of_key_eq hg.nodup hx hm (by rw [hkx]; rfl)
                      exact this ▸ hc)
                have hsh0 := hacc.sh.trans hsh
                apply safe_wcall hg
                · exact hsh.good hg
                · intro _ _
                  apply ih (done ++ [r]) acc _ hrs' hdone' _ hk'
                  refine ⟨hsh0, ?_, ?_⟩
                  · intro o2 ho2 hk2'
                    obtain ⟨o1, ho1, hk12, ha12, _, hd12⟩ := hsh.sub o2 ho2
                    rcases List.mem_append.mp hk2' with hk2' | hk2'
                    · obtain ⟨hne, hl⟩ := hacc.fwd o1 ho1 (hk12 ▸ hk2')
                      rw [ha12]
                      refine ⟨hne, ?_⟩
                      by_cases ht2 : isTmpl tmpl o1.annot = true
                      · simp only [ht2, if_true] at hl ⊢; rw [hk12]; exact hl
                      · simp only [ht2] at hl ⊢
                        cases hd2 : o2.deleting with
                        | true => rfl
                        | false =>
                          have := hd12 hd2; subst this
                          rw [hd2] at hl; cases hl
                    · simp at hk2'
                      have : key o2 = ⟨o.kind, o.name⟩ := by rw [hk2', ← hko]; rfl
                      have hd2 := hdead o2 ho2 this
                      have : o1 = o := eq_of_key_eq hg.nodup ho1 hm (by rw [← hk12, hk2', hko])
                      subst this
                      rw [ha12]
                      have : ¬ isTmpl tmpl o1.annot = true := ht
                      simp only [this]
                      exact ⟨ha, hd2⟩
                  · intro t r2 hl
                    obtain ⟨htt, o3, ho3, hk3, ha3⟩ := hacc.bwd t r2 hl
                    refine ⟨htt, o3, ?_, hk3, ha3⟩
                    apply exec_delete_others s o.kind o.name o3 ho3
                    intro hke
                    have : o3 = o := eq_of_key_eq hg.nodup ho3 hm (by rw [hke]; rfl)
                    subst this
                    rw [ha3] at ht
                    exact ht htt
      cases hf : findObj s.objs r.kind r.name with
      | some o =>
        by_cases hm : (⟨r.kind, r.name⟩ : Ref) ∈ s.miss
        · -- missing from the cache: the live read finds it
          simp only [Safe, sem, exec_getCached_miss hm, exec_getObj_some hf, isRead, if_true]
          exact ⟨hg, ⟨hg, hfound o hf, safe_onError hg _, safe_onError hg _⟩, safe_onError hg _, safe_onError hg _⟩
        · simp only [Safe, sem, exec_getCached_some hf hm, isRead, if_true]
          exact ⟨hg, hfound o hf, safe_onError hg _, safe_onError hg _⟩
      | none =>
        have hnone : Safe sem Good (associatePT lrv tmpl rs acc k) s := by
          apply ih (done ++ [r]) acc s hrs' hdone' _ hk'
          apply assocOK_skip r hacc
          intro o ho hko
          exact absurd ((key_eq_iff o r.kind r.name).mp (by cases r; simpa [key] using hko)) (findObj_none hf o ho)
        simp only [Safe, sem, exec_getCached_none hf, exec_getObj_none hf, isRead, if_true]
        exact ⟨hg, ⟨hg, hnone, safe_onError hg _, safe_onError hg _⟩, safe_onError hg _, safe_onError hg _⟩


/-! ### render loop of the P&T composer -/

def REntry (s : St) (a : Assoc) (e : Rendered) : Prop :=
  if e.rendered then
    assocLookup a e.d.rname = some (rkey e) ∨
    (assocLookup a e.d.rname = none ∧ findObj s.objs e.d.kind e.name = none ∧ e.name ≠ "")
  else e.name = "" ∧ assocLookup a e.d.rname = none

structure RendOK (s : St) (a : Assoc) (tmpl : List Desired) (rs : List Rendered) : Prop where
  entry : ∀ e ∈ rs, REntry s a e
  cover : ∀ d ∈ tmpl, ∃ e ∈ rs, e.d = d
  nodup : (rs.map (·.d.rname)).Nodup

theorem safe_renderPT {s : St} (hg : Good s) (lrv : Nat) (a : Assoc) (tmpl : List Desired) (k : List Rendered → P)
    (hk : ∀ rs, RendOK s a tmpl rs → Safe sem Good (k rs) s) :
    ∀ (ds : List Desired) (fresh : List String) (acc : List Rendered),
      (∀ x ∈ fresh, x ≠ "") → FreshAvoids s.miss fresh →
      (∀ e ∈ acc, REntry s a e) →
      (∀ d ∈ tmpl, d ∈ ds ∨ ∃ e ∈ acc, e.d = d) →
      (ds.map (·.rname) ++ acc.map (·.d.rname)).Nodup →
      Safe sem Good (renderPT lrv a ds fresh acc k) s := by
  intro ds
  induction ds with
  | nil =>
    intro fresh acc _ _ he hc hn
    simp only [renderPT]
    apply hk
    refine ⟨?_, ?_, ?_⟩
    · intro e he'; exact he e (List.mem_reverse.mp he')
    · intro d hd
      rcases hc d hd with h | ⟨e, he', ee⟩
      · cases h
      · exact ⟨e, List.mem_reverse.mpr he', ee⟩
    · simp only [List.map_nil, List.nil_append] at hn
      rw [List.map_reverse]; exact (List.reverse_perm _).nodup_iff.mpr hn
  | cons d ds ih =>
    intro fresh acc hfr hfm he hc hn
    have step : ∀ (nm : Rendered), nm.d = d → REntry s a nm → ∀ fresh', (∀ x ∈ fresh', x ≠ "") →
        FreshAvoids s.miss fresh' →
        Safe sem Good (renderPT lrv a ds fresh' (nm :: acc) k) s := by
      intro nm hnd hent fresh' hfr' hfm'
      apply ih fresh' (nm :: acc) hfr' hfm'
      · intro e he'; rcases List.mem_cons.mp he' with rfl | h; exact hent; exact he e h
      · intro x hx
        rcases hc x hx with h | ⟨e, he', ee⟩
        · rcases List.mem_cons.mp h with rfl | h
          · exact Or.inr ⟨nm, List.mem_cons_self .., hnd⟩
          · exact Or.inl h
        · exact Or.inr ⟨e, List.mem_cons_of_mem _ he', ee⟩
      · have : (ds.map (·.rname) ++ (nm :: acc).map (·.d.rname)).Perm ((d :: ds).map (·.rname) ++ acc.map (·.d.rname)) := by
          simp only [List.map_cons, hnd, List.cons_append]
          exact List.perm_middle
        exact this.nodup_iff.mpr hn
    simp only [renderPT]
    cases hl : assocLookup a d.rname with
    | some r =>
      simp only []
      by_cases hkd : r.kind = d.kind
      · simp only [hkd, if_true]
        apply step ⟨d, r.name, true⟩ rfl _ fresh hfr hfm
        simp only [REntry, if_true, rkey, hl]
        left; cases r; simp_all
      · simp only [hkd, if_false]; exact safe_onError hg _
    | none =>
      simp only []
      cases fresh with
      | nil =>
        simp only []
        exact step ⟨d, "", false⟩ rfl (by simp [REntry, hl]) [] (by intro x hx; cases hx) hfm
      | cons nm fresh' =>
        simp only []
        have hfr' : ∀ x ∈ fresh', x ≠ "" := fun x hx => hfr x (List.mem_cons_of_mem _ hx)
        have hun := step ⟨d, "", false⟩ rfl (by simp [REntry, hl]) fresh' hfr' hfm.tail
        -- the proposed name is not the name of an object missing from the cache: the probe is exact
        have hm : (⟨d.kind, nm⟩ : Ref) ∉ s.miss := hfm.head d.kind
        cases hfo : findObj s.objs d.kind nm with
        | some o =>
          simp only [Safe, sem, exec_getCached_some hfo hm, isRead, if_true]
          exact ⟨hg, hun, hun, hun⟩
        | none =>
          simp only [Safe, sem, exec_getCached_none hfo, isRead, if_true]
          refine ⟨hg, ?_, hun, hun⟩
          exact step ⟨d, nm, true⟩ rfl (by simp [REntry, hl, hfo, hfr nm (List.mem_cons_self ..)]) fresh' hfr' hfm.tail

/-! ### references written, then the apply loop -/

def entsPT (rs : List Rendered) : List Ent := rs.map fun e => (e.d.rname, rkey e)

theorem exec_updateXR_cases (s : St) (rv : Nat) (ver : String) (refs : List Ref) :
    ((exec s (.updateXR rv ver refs)).2 = .conflict ∧ (exec s (.updateXR rv ver refs)).1 = s) ∨
    ((exec s (.updateXR rv ver refs)).2 ≠ .conflict ∧ (exec s (.updateXR rv ver refs)).2 ≠ .err ∧
      (exec s (.updateXR rv ver refs)).1.refs = refs ∧ (exec s (.updateXR rv ver refs)).1.objs = s.objs ∧
      (exec s (.updateXR rv ver refs)).1.foreign0 = s.foreign0) := by
  simp only [exec]
  by_cases h1 : rv ≠ s.xrRv
  · left; simp [h1]
  · right
    by_cases h2 : refs = s.refs ∧ (refs = [] ∨ ver = s.refsVer)
    · rw [if_neg h1, if_pos h2]
      exact ⟨by simp, by simp, h2.1.symm, rfl, rfl⟩
    · rw [if_neg h1, if_neg h2]
      exact ⟨by simp, by simp, rfl, rfl, rfl⟩

/-- when the P&T composer persists its references, every live composed resource
controlled by the XR is among them -/
theorem mid_after_update {s0 s s' : St} (hg0 : Good s0) {tmpl : List Desired} {a : Assoc}
    (hass : AssocOK s0 s tmpl s0.refs a) {rs : List Rendered} (hr : RendOK s a tmpl rs)
    (hrefs : s'.refs = rs.map rkey) (hobjs : s'.objs = s.objs) (hf0 : s'.foreign0 = s.foreign0) : Mid s' (entsPT rs) := by
  have hg := hass.sh.good hg0
  have hmem : ∀ r, r ∈ rs.map rkey ↔ ∃ e ∈ entsPT rs, r = e.2 := by
    intro r
    simp only [entsPT, List.mem_map]
    constructor
    · rintro ⟨e, he, rfl⟩; exact ⟨_, ⟨e, he, rfl⟩, rfl⟩
    · rintro ⟨_, ⟨e, he, rfl⟩, rfl⟩; exact ⟨e, he, rfl⟩
  refine ⟨hobjs ▸ hg.nodup, hobjs ▸ hg.named, ?_, ?_, ?_, ?_, ?_⟩
  rotate_right
  · rw [hf0, hobjs]; exact hg.frame
  · intro r; rw [hrefs]; exact hmem r
  · rw [hobjs, hrefs]
    intro o ho hc hd
    have hkr : key o ∈ s0.refs := hass.sh.refs ▸ hg.noLeak o ho hc hd
    obtain ⟨hne, hl⟩ := hass.fwd o ho hkr
    by_cases ht : isTmpl tmpl o.annot = true
    · simp only [ht, if_true] at hl
      obtain ⟨d, hd', hdn⟩ := List.any_eq_true.mp ht
      simp only [decide_eq_true_eq] at hdn
      obtain ⟨e, he, hed⟩ := hr.cover d hd'
      have hent := hr.entry e he
      unfold REntry at hent
      cases hren : e.rendered with
      | true =>
        simp only [hren, if_true, hed, hdn, hl] at hent
        rcases hent with h | h
        · simp only [Option.some.injEq] at h
          rw [h]; exact List.mem_map.mpr ⟨e, he, rfl⟩
        · exact absurd h.1 (by simp)
      | false =>
        simp only [hren, hed, hdn, hl] at hent
        exact absurd hent.2 (by simp)
    · simp only [ht] at hl
      rw [hd] at hl; cases hl
  · rw [hobjs, hrefs]
    intro o ho hk
    obtain ⟨e, he, hke⟩ := List.mem_map.mp hk
    refine ⟨_, List.mem_map.mpr ⟨e, he, rfl⟩, hke.symm, ?_⟩
    have hent := hr.entry e he
    unfold REntry at hent
    cases hren : e.rendered with
    | true =>
      simp only [hren, if_true] at hent
      rcases hent with h | h
      · obtain ⟨_, o2, ho2, hk2, ha2⟩ := hass.bwd _ _ h
        have : o = o2 := eq_of_key_eq hg.nodup ho ho2 (by rw [hk2, hke])
        rw [this]; exact ha2
      · have : key o = ⟨e.d.kind, e.name⟩ := by rw [← hke]; rfl
        exact absurd ((key_eq_iff _ _ _).mp this) (findObj_none h.2.1 o ho)
    | false =>
      simp only [hren] at hent
      have : o.name = "" := by
        have := congrArg Ref.name hke
        simp only [rkey, key] at this
        rw [← this]; exact hent.1
      exact absurd this (hg.named o ho)
  · intro e1 h1 e2 h2 he
    obtain ⟨n1, hn1, rfl⟩ := List.mem_map.mp h1
    obtain ⟨n2, hn2, rfl⟩ := List.mem_map.mp h2
    simp only at he
    have := eq_of_map_nodup (fun n : Rendered => n.d.rname) hr.nodup hn1 hn2 he
    rw [this]

theorem rendered_name_ne {s0 s : St} (hg0 : Good s0) {tmpl : List Desired} {a : Assoc}
    (hass : AssocOK s0 s tmpl s0.refs a) {rs : List Rendered} (hr : RendOK s a tmpl rs) :
    ∀ e ∈ rs, e.rendered = true → e.name ≠ "" := by
  intro e he hren
  have hg := hass.sh.good hg0
  have hent := hr.entry e he
  unfold REntry at hent
  simp only [hren, if_true] at hent
  rcases hent with h | h
  · obtain ⟨_, o2, ho2, hk2, _⟩ := hass.bwd _ _ h
    have : o2.name = e.name := by have := congrArg Ref.name hk2; simpa [key, rkey] using this
    rw [← this]; exact hg.named o2 ho2
  · exact h.2.2

theorem mid_create {s : St} {ents : List Ent} (h : Mid s ents) (e : Ent) (he : e ∈ ents) (hne : e.2.name ≠ "") (c : Nat)
    (hf : findObj s.objs e.2.kind e.2.name = none) :
    ((exec s (.create e.2.kind e.2.name e.1 c)).2 = .ok ∨ (exec s (.create e.2.kind e.2.name e.1 c)).2 = .invalid) ∧
    Mid (exec s (.create e.2.kind e.2.name e.1 c)).1 ents := by
  by_cases hinv : c = invalidContent
  · simp only [exec, hf, hinv, if_true]; exact ⟨Or.inr trivial, h⟩
  have hw := mid_write h e he hne (fun o => { o with annot := e.1 }) (fun _ => rfl) (fun _ => rfl)
    ⟨e.2.kind, e.2.name, e.1, .xr, false, false, c, false⟩ rfl rfl
    (by intro o ho; rw [hf] at ho; cases ho)
  simp only [exec, hf, hinv, if_false]
  exact ⟨Or.inl trivial, by simpa [hf] using hw⟩

/-- a Create of an object that exists (it was missing from the cache) writes nothing -/
theorem exec_create_exists {s : St} {k n a : String} {c : Nat} {o : CObj} (hf : findObj s.objs k n = some o) :
    exec s (.create k n a c) = (s, .exists_) := by
  simp only [exec, hf]

theorem mid_mergePatch {s : St} {ents : List Ent} (h : Mid s ents) (e : Ent) (he : e ∈ ents) (hne : e.2.name ≠ "") (c : Nat)
    {o : CObj} (hf : findObj s.objs e.2.kind e.2.name = some o) (hc : o.ctrl ≠ .other) :
    ((exec s (.mergePatch e.2.kind e.2.name e.1 c)).2 = .ok ∨ (exec s (.mergePatch e.2.kind e.2.name e.1 c)).2 = .invalid) ∧
    Mid (exec s (.mergePatch e.2.kind e.2.name e.1 c)).1 ents := by
  by_cases hinv : c = invalidContent
  · simp only [exec, hinv, if_true, hf]; exact ⟨Or.inr trivial, h⟩
  have hw := mid_write h e he hne (fun o => { o with annot := e.1, ctrl := .xr, content := c }) (fun _ => rfl) (fun _ => rfl)
    ⟨e.2.kind, e.2.name, e.1, .xr, false, false, c, false⟩ rfl rfl
    (by intro o' ho'; rw [hf] at ho'; cases ho'; exact hc)
  simp only [exec, hinv, if_false, hf, hc]
  exact ⟨Or.inl trivial, by simpa [hf] using hw⟩

theorem safe_applyPT (lrv : Nat) (ents : List Ent) (k : Bool → P) :
    ∀ (l : List Rendered) (s : St) (b : Bool), Mid s ents →
      (∀ e ∈ l, e.rendered = true → (e.d.rname, rkey e) ∈ ents ∧ e.name ≠ "") →
      (∀ s' b', Mid s' ents → Safe sem Good (k b') s') →
      Safe sem Good (applyPT lrv l b k) s := by
  intro l
  induction l with
  | nil => intro s b hm _ hk; simp only [applyPT]; exact hk s b hm
  | cons e l ih =>
    intro s b hm hl hk
    have hg := hm.good
    have hl' : ∀ x ∈ l, x.rendered = true → (x.d.rname, rkey x) ∈ ents ∧ x.name ≠ "" :=
      fun x hx => hl x (List.mem_cons_of_mem _ hx)
    simp only [applyPT]
    cases hren : e.rendered with
    | false => simp only [Bool.not_false, if_true]; exact ih s false hm hl' hk
    | true =>
      simp only [Bool.not_true, Bool.false_eq_true, if_false]
      obtain ⟨hee, hen⟩ := hl e (List.mem_cons_self ..) hren
      cases hf : findObj s.objs e.d.kind e.name with
      | none =>
        simp only [Safe, sem, exec_getCached_none hf, isRead, if_true]
        refine ⟨hg, ?_, safe_onError hg _, safe_onError hg _⟩
        obtain ⟨hresp, hm1⟩ := mid_create hm (e.d.rname, rkey e) hee hen e.d.content hf
        apply safe_wcall hg _ _ _ hm1.good
        intro _ _
        rcases hresp with hresp | hresp <;> rw [hresp]
        · exact ih _ b hm1 hl' hk
        · exact ih _ false hm1 hl' hk
      | some o =>
        by_cases hmiss : (⟨e.d.kind, e.name⟩ : Ref) ∈ s.miss
        · -- the object exists but is missing from the cache: Apply takes the Create branch, the
          -- API server answers AlreadyExists, nothing is written and the reconcile errors
          simp only [Safe, sem, exec_getCached_miss hmiss, isRead, if_true]
          refine ⟨hg, ?_, safe_onError hg _, safe_onError hg _⟩
          have hex : exec s (.create e.d.kind e.name e.d.rname e.d.content) = (s, .exists_) := exec_create_exists hf
          apply safe_wcall hg _ _ _ (by rw [hex]; exact hg)
          intro _ _
          rw [hex]
          exact safe_onError hg _
        simp only [Safe, sem, exec_getCached_some hf hmiss, isRead, if_true]
        refine ⟨hg, ?_, safe_onError hg _, safe_onError hg _⟩
        by_cases hc : o.ctrl = .other
        · simp only [hc, if_true]; exact safe_onError hg _
        · simp only [hc, if_false]
          obtain ⟨hresp, hm1⟩ := mid_mergePatch hm (e.d.rname, rkey e) hee hen e.d.content hf hc
          apply safe_wcall hg _ _ _ hm1.good
          intro _ _
          rcases hresp with hresp | hresp <;> rw [hresp]
          · exact ih _ b hm1 hl' hk
          · exact ih _ false hm1 hl' hk

structure TmplOK (tmpl : List Desired) (fresh : List String) : Prop where
  nodup : (tmpl.map (·.rname)).Nodup
  fresh : ∀ x ∈ fresh, x ≠ ""

theorem exec_patchXR (s : St) : exec s .patchXR = (s, .ok) := by simp [exec]

theorem safe_composePT {s : St} (hg : Good s) (lrv : Nat) (tmpl : List Desired) (fresh : List String) (ver : String)
    (ht : TmplOK tmpl fresh) (hfm : FreshAvoids s.miss fresh) : Safe sem Good (composePT lrv s.refs tmpl fresh ver) s := by
  unfold composePT
  apply safe_associatePT hg lrv tmpl _ s.refs [] [] s (fun r h => h) (by intro r h; cases h)
  · refine ⟨Shrunk.rfl' hg, ?_, ?_⟩
    · intro o _ h; cases h
    · intro t r h; simp [assocLookup] at h
  · intro a s1 hass
    simp only [List.nil_append] at hass
    have hg1 := hass.sh.good hg
    apply safe_renderPT hg1 lrv a tmpl _ _ tmpl fresh [] ht.fresh (hass.sh.miss ▸ hfm) (by intro e h; cases h)
      (fun d h => Or.inl h) (by simpa using ht.nodup)
    intro rs hrs
    rcases exec_updateXR_cases s1 lrv ver (rs.map rkey) with ⟨hc, hst⟩ | ⟨hnc, hne, hr, ho, hf0⟩
    · -- rejected (stale resourceVersion): nothing written
      apply safe_wcall hg1 _ _ _ (by rw [hst]; exact hg1)
      intro _ h2; exact absurd hc h2
    · have hmid := mid_after_update hg hass hrs hr ho hf0
      apply safe_wcall hg1 _ _ _ hmid.good
      intro _ _
      apply safe_applyPT _ (entsPT rs) _ rs _ true hmid
      · intro e he hren
        exact ⟨List.mem_map.mpr ⟨e, he, rfl⟩, rendered_name_ne hg hass hrs e he hren⟩
      intro s5 b hm5
      have hg5 := hm5.good
      have hgx : sem.exec s5 .getXR = (s5, .xr s5.xrFin s5.xrRv s5.refs) := exec_getXR s5
      have hfail : ∀ r, sem.errResp .fail r = .err := fun _ => rfl
      have hgetc : sem.errResp .conflict .getXR = .err := rfl
      simp only [Safe, hgx, hfail, hgetc]
      refine ⟨hg5, ?_, safe_onError hg5 _, safe_onError hg5 _⟩
      apply safe_wcall hg5
      · rw [exec_patchXR]; exact hg5
      · intro _ _; rw [exec_patchXR]; exact safe_finish hg5 _ _

theorem safe_reconcile_pt {s : St} (hg : Good s) (tmpl : List Desired) (fresh : List String) (ver : String)
    (ht : TmplOK tmpl fresh) (hfm : FreshAvoids s.miss fresh) : Safe sem Good (reconcile (.pt tmpl fresh ver)) s := by
  apply safe_reconcile_of_body hg
  intro s' lrv hg' hr hmiss
  simp only []
  rw [← hr]
  exact safe_composePT hg' lrv tmpl fresh ver ht (hmiss ▸ hfm)

end Xp.C01

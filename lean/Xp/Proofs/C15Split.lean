import Xp.Model.C15Split
namespace Xp.C15

def Line.isSep : Line → Bool
  | .sep _ | .badsep => true
  | _ => false

/-- lines without separators are collected -/
theorem chunks_nosep_append (a rest acc : List Line) (h : ∀ l ∈ a, l.isSep = false) :
    chunks (a ++ rest) acc = chunks rest (acc ++ a) := by
  induction a generalizing acc with
  | nil => simp
  | cons l a ih =>
    have hl := h l (by simp)
    have ih' := ih (acc ++ [l]) (fun x hx => h x (by simp [hx]))
    cases l with
    | sep p => simp [Line.isSep] at hl
    | badsep => simp [Line.isSep] at hl
    | comment => simp only [List.cons_append, chunks]; rw [ih']; simp
    | blank => simp only [List.cons_append, chunks]; rw [ih']; simp
    | body i => simp only [List.cons_append, chunks]; rw [ih']; simp

/-- at a separator the reader hands out what it collected and starts afresh -/
theorem chunks_at_sep (a b acc : List Line) (p : Bool) (h : ∀ l ∈ a, l.isSep = false) (hne : acc ++ a ≠ []) :
    chunks (a ++ .sep p :: b) acc = (chunks b []).map ((acc ++ a) :: ·) := by
  rw [chunks_nosep_append a _ acc h]
  have : (acc ++ a).isEmpty = false := by cases hx : acc ++ a <;> simp_all
  simp [chunks, this]

theorem chunks_nosep (ls : List Line) (h : ∀ l ∈ ls, l.isSep = false) :
    chunks ls [] = some (if ls.isEmpty then [] else [ls]) := by
  have := chunks_nosep_append ls [] [] h
  simp only [List.append_nil, List.nil_append] at this
  rw [this]
  simp [chunks]

theorem docs_empty (tbl : List Doc) (cs : List Line) (h : ∀ l ∈ cs, l = .comment ∨ l = .blank) :
    docsOfLines tbl cs = some [] := by
  unfold docsOfLines
  rw [chunks_nosep cs (by intro l hl; rcases h l hl with rfl | rfl <;> rfl)]
  by_cases he : cs.isEmpty
  · simp [he]
  · have : chunkEmpty cs = true := by
      simp only [chunkEmpty, List.all_eq_true]
      intro l hl
      rcases h l hl with rfl | rfl <;> rfl
    simp [he, this]

theorem filterMap_body (c : List Line) (i : Nat) (hc : ∀ l ∈ c, l = .comment ∨ l = .blank ∨ l = .body i) :
    ∀ j ∈ c.filterMap bodyIdx, j = i := by
  intro j hj
  simp only [List.mem_filterMap] at hj
  obtain ⟨l, hl, hb⟩ := hj
  rcases hc l hl with rfl | rfl | rfl <;> simp [bodyIdx] at hb
  exact hb.symm

theorem docOfChunk_one (tbl : List Doc) (c : List Line) (i : Nat)
    (hc : ∀ l ∈ c, l = .comment ∨ l = .blank ∨ l = .body i) (hb : Line.body i ∈ c) :
    chunkEmpty c = false ∧ docOfChunk tbl c = (tbl[i]?).getD .bad := by
  constructor
  · cases hx : chunkEmpty c
    · rfl
    · simp only [chunkEmpty, List.all_eq_true] at hx
      have := hx _ hb
      simp [lineEmpty] at this
  · have hall := filterMap_body c i hc
    have hmem : i ∈ c.filterMap bodyIdx := by
      simp only [List.mem_filterMap]
      exact ⟨_, hb, rfl⟩
    unfold docOfChunk
    cases hf : c.filterMap bodyIdx with
    | nil => rw [hf] at hmem; cases hmem
    | cons j js =>
      rw [hf] at hall
      have hj : j = i := hall j (by simp)
      subst hj
      have : js.all (· == j) = true := by
        simp only [List.all_eq_true, beq_iff_eq]
        intro x hx
        exact hall x (by simp [hx])
      simp [this]

theorem docs_one (tbl : List Doc) (c : List Line) (i : Nat)
    (hc : ∀ l ∈ c, l = .comment ∨ l = .blank ∨ l = .body i) (hb : Line.body i ∈ c) :
    docsOfLines tbl c = some [(tbl[i]?).getD .bad] := by
  unfold docsOfLines
  rw [chunks_nosep c (by intro l hl; rcases hc l hl with rfl | rfl | rfl <;> rfl)]
  have hne : c.isEmpty = false := by cases c <;> simp at hb ⊢
  obtain ⟨hce, hdoc⟩ := docOfChunk_one tbl c i hc hb
  simp [hne, hce, hdoc]

end Xp.C15

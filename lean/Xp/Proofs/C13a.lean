import Xp.Model.C13
/-
C13 helper lemmas, part a: association lists, the derived lock state, and the
lock-discipline facts about `next` (which steps acquire, which only release).
-/
namespace Xp.C13

/-! ### association lists -/

section alist
variable {α β : Type} [DecidableEq α]

@[simp] theorem aget_nil (k : α) : aget k ([] : List (α × β)) = none := rfl

theorem aget_cons (k k' : α) (v : β) (m : List (α × β)) :
    aget k ((k', v) :: m) = if k' = k then some v else aget k m := rfl

theorem aget_adel_self (k : α) (m : List (α × β)) : aget k (adel k m) = none := by
  induction m with
  | nil => rfl
  | cons p m ih =>
    obtain ⟨k', v⟩ := p
    by_cases h : k' = k
    · simp [adel, List.filter, h] at ih ⊢; exact ih
    · simp [adel, List.filter, h, aget_cons] at ih ⊢; exact ih

theorem aget_adel_ne {k k' : α} (h : k' ≠ k) (m : List (α × β)) : aget k (adel k' m) = aget k m := by
  induction m with
  | nil => rfl
  | cons p m ih =>
    obtain ⟨k'', v⟩ := p
    by_cases h2 : k'' = k'
    · subst h2
      simp [adel, List.filter, aget_cons, h] at ih ⊢; exact ih
    · simp [adel, List.filter, h2, aget_cons] at ih ⊢
      split <;> simp_all

theorem aget_aset_self (k : α) (v : β) (m : List (α × β)) : aget k (aset k v m) = some v := by
  simp [aset, aget_cons]

theorem aget_aset_ne {k k' : α} (h : k' ≠ k) (v : β) (m : List (α × β)) : aget k (aset k' v m) = aget k m := by
  simp [aset, aget_cons, h, aget_adel_ne h]

theorem aget_some_mem {k : α} {v : β} {m : List (α × β)} (h : aget k m = some v) : (k, v) ∈ m := by
  induction m with
  | nil => simp at h
  | cons p m ih =>
    obtain ⟨k', v'⟩ := p
    rw [aget_cons] at h
    split at h
    · rename_i e; cases h; subst e; simp
    · exact List.mem_cons_of_mem _ (ih h)

theorem adel_eq_nil_of_nil (k : α) : adel k ([] : List (α × β)) = [] := rfl

end alist

/-! ### modes and holdings -/

theorem Mode.compat_comm (a b : Mode) : a.compat b = b.compat a := by
  cases a <;> cases b <;> rfl

theorem Held.compat_comm (a b : Held) : a.compat b = b.compat a := by
  obtain ⟨ae, ac⟩ := a
  obtain ⟨be, bc⟩ := b
  simp only [Held.compat, Mode.compat_comm ae be]
  congr 1
  cases ac with
  | none => cases bc <;> rfl
  | some p =>
    cases bc with
    | none => rfl
    | some q =>
      obtain ⟨c1, m1⟩ := p
      obtain ⟨c2, m2⟩ := q
      simp only [Mode.compat_comm m1 m2]
      rw [bne_comm]

/-- `a` holds no more than `b` -/
def Mode.le : Mode → Mode → Bool
  | .n, _ => true
  | .r, .r => true
  | .r, .w => true
  | .w, .w => true
  | _, _ => false

def Held.le (a b : Held) : Bool :=
  a.e.le b.e &&
  (match a.c, b.c with
   | none, _ => true
   | some (c1, m1), some (c2, m2) => c1 == c2 && m1.le m2
   | some _, none => false)

theorem Mode.compat_of_le {a b x : Mode} (h : a.le b = true) (hc : b.compat x = true) : a.compat x = true := by
  cases a <;> cases b <;> cases x <;> simp_all [Mode.le, Mode.compat]

theorem Held.compat_of_le {a b x : Held} (h : a.le b = true) (hc : b.compat x = true) : a.compat x = true := by
  obtain ⟨ae, ac⟩ := a
  obtain ⟨be, bc⟩ := b
  obtain ⟨xe, xc⟩ := x
  simp only [Held.le, Held.compat, Bool.and_eq_true] at h hc ⊢
  refine ⟨Mode.compat_of_le h.1 hc.1, ?_⟩
  cases ac with
  | none => rfl
  | some p =>
    obtain ⟨c1, m1⟩ := p
    cases bc with
    | none => simp at h
    | some q =>
      obtain ⟨c2, m2⟩ := q
      cases xc with
      | none => rfl
      | some y =>
        obtain ⟨c3, m3⟩ := y
        have h2 := h.2
        have hc2 := hc.2
        simp only [Bool.and_eq_true, beq_iff_eq, Bool.or_eq_true, bne_iff_ne] at h2 hc2 ⊢
        obtain ⟨e, hm⟩ := h2
        subst e
        cases hc2 with
        | inl hne => exact Or.inl hne
        | inr hm2 => exact Or.inr (Mode.compat_of_le hm hm2)

/-! ### `free` -/

theorem freeAux_iff (want : Held) (i : Nat) (us : List Thread) (j0 : Nat) :
    freeAux want i j0 us = true ↔
      ∀ k u, us[k]? = some u → j0 + k ≠ i → want.compat u.pc.held = true := by
  induction us generalizing j0 with
  | nil => simp [freeAux]
  | cons u us ih =>
    simp only [freeAux, Bool.and_eq_true, Bool.or_eq_true, beq_iff_eq, ih]
    constructor
    · rintro ⟨h0, hr⟩ k u' hk hne
      cases k with
      | zero =>
        simp at hk; subst hk
        cases h0 with
        | inl e => exact absurd (by simpa using e) hne
        | inr c => exact c
      | succ k =>
        simp at hk
        exact hr k u' hk (by omega)
    · intro h
      refine ⟨?_, ?_⟩
      · by_cases e : j0 = i
        · exact Or.inl e
        · exact Or.inr (h 0 u (by simp) (by simpa using e))
      · intro k u' hk hne
        exact h (k + 1) u' (by simpa using hk) (by omega)

theorem free_iff (s : Sys) (i : Nat) (want : Held) :
    free s i want = true ↔ ∀ j u, s.threads[j]? = some u → j ≠ i → want.compat u.pc.held = true := by
  simp [free, freeAux_iff]

/-! ### which steps acquire -/

theorem acquire_some {s : Sys} {i : Nat} {pc pc' : Pc} {a act : Act} (h : acquire s i pc a = some (pc', act)) :
    pc' = pc ∧ act = a ∧ free s i pc.held = true := by
  unfold acquire at h
  split at h
  · rename_i hf; cases h; exact ⟨rfl, rfl, hf⟩
  · cases h

theorem swPc_held (cid : Nat) (a : List Nat) (st : List Wid) (o) : (swPc cid a st o).held = ⟨.n, some (cid, .w)⟩ := by
  cases o with
  | none => rfl
  | some p => obtain ⟨w, r⟩ := p; rfl

theorem xwPc_held (cid k : Nat) (o) : (xwPc cid k o).held = ⟨.n, some (cid, .w)⟩ := by
  cases o with
  | none => rfl
  | some p => obtain ⟨w, r, l⟩ := p; rfl

/-- every step either acquires (and then the target holdings were checked against all other
threads) or ends up holding no more than before -/
theorem next_held {cfg : Cfg} {s : Sys} {i : Nat} {t : Thread} {ch : Choice} {pc' : Pc} {act : Act}
    (h : next cfg s i t ch = some (pc', act)) :
    free s i pc'.held = true ∨ pc'.held.le t.pc.held = true := by
  obtain ⟨op, pc⟩ := t
  cases pc <;> simp only [next] at h
  all_goals (repeat' (split at h))
  all_goals first
    | (cases h; done)
    | (obtain ⟨rfl, rfl, hf⟩ := acquire_some h; exact Or.inl hf)
    | (simp only [Option.some.injEq, Prod.mk.injEq] at h
       obtain ⟨rfl, rfl⟩ := h
       right
       simp only [swPc_held, xwPc_held]
       first | rfl | simp [Pc.held, Held.le, Mode.le])

end Xp.C13

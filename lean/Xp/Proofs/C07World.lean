import Xp.Model.C07World
import Xp.Proofs.C07
import Xp.Proofs.C07Hist
/-
Lemmas about the call-level world model of the claim syncers (Xp/Model/C07World.lean).
-/
namespace Xp.C07
open Xp

/-! ### basics -/

@[simp] theorem applyActs_nil (s : Srv) : applyActs s [] = s := rfl

@[simp] theorem quiet_acts (k : Nat) : World.quiet.acts k = [] := rfl
@[simp] theorem quiet_inj (k : Nat) : World.quiet.inj k = none := rfl
@[simp] theorem quiet_getLive : World.quiet.getLive = true := rfl

theorem claimWrite_ok_iff (inj : Option String) (held : Nat) (s : Srv) (f : KObj → KObj) (s' : Srv)
    (h : claimWrite inj held s f = .ok s') :
    inj = none ∧ held = s.cmV ∧ s'.cm = f s.cm ∧ s'.xr = s.xr ∧ s'.xrV = s.xrV ∧ s'.prev = s.prev := by
  unfold claimWrite at h
  cases inj with
  | some e => simp at h
  | none =>
    simp only [] at h
    split at h
    · simp at h
    · rename_i hv
      have hv' : held = s.cmV := by simpa using hv
      simp only [Except.ok.injEq] at h
      subst h
      exact ⟨rfl, hv', rfl, rfl, rfl, rfl⟩

theorem claimWrite_fresh (s : Srv) (f : KObj → KObj) :
    claimWrite none s.cmV s f = .ok { s with cm := f s.cm, cmV := bump (!kobjSame s.cm (f s.cm)) s.cmV } := by
  simp [claimWrite]

theorem claimWrite_ok_eq (held : Nat) (s : Srv) (f : KObj → KObj) (h : held = s.cmV) :
    claimWrite none held s f = .ok { s with cm := f s.cm, cmV := bump (!kobjSame s.cm (f s.cm)) s.cmV } := by
  subst h
  exact claimWrite_fresh s f

theorem claimWrite_error (inj : Option String) (held : Nat) (s : Srv) (f : KObj → KObj) (e : String)
    (h : claimWrite inj held s f = .error e) :
    (∃ cls, inj = some cls ∧ e = apiErr cls) ∨ (inj = none ∧ held ≠ s.cmV ∧ e = apiErr "conflict") := by
  unfold claimWrite at h
  cases inj with
  | some cls =>
    simp only [Except.error.injEq] at h
    exact Or.inl ⟨cls, rfl, h.symm⟩
  | none =>
    simp only [] at h
    split at h
    · rename_i hv
      simp only [Except.error.injEq] at h
      exact Or.inr ⟨rfl, by simpa using hv, h.symm⟩
    · simp at h

/-- a stale copy never writes: a claim write whose version is not the stored one fails -/
theorem claimWrite_stale (inj : Option String) (held : Nat) (s : Srv) (f : KObj → KObj) (h : held ≠ s.cmV) :
    ∃ e, claimWrite inj held s f = .error e ∧ e ≠ "" := by
  unfold claimWrite
  cases inj with
  | some cls => exact ⟨_, rfl, by simp [apiErr]⟩
  | none =>
    have : (held != s.cmV) = true := by simpa using h
    simp only [this, if_true]
    exact ⟨_, rfl, by simp [apiErr]⟩

theorem apiErr_ne_empty (cls : String) : apiErr cls ≠ "" := by
  simp [apiErr]

/-! ### the quiet world is the value-level model -/

/-- **syncSSAW_quiet**: no third party, no failing call, the reconciler read the stored
objects: the call-level model of the server-side syncer is `syncSSA`. -/
theorem syncSSAW_quiet (c : Cfg) (gen : String) (s : Srv) :
    let o := syncSSAW c gen World.quiet s.cm s.cmV s.xr s
    o.srv.toSt = (syncSSA c gen s.toSt).st ∧ o.writes = (syncSSA c gen s.toSt).writes ∧
      o.err = (syncSSA c gen s.toSt).err := by
  unfold syncSSAW syncSSA
  simp only [Srv.toSt]
  cases hcs : s.cm.spec with
  | none => exact ⟨rfl, rfl, rfl⟩
  | some v =>
    cases v with
    | obj cs =>
      simp only [quiet_acts, applyActs_nil, quiet_inj, claimWrite_fresh]
      cases hst : (applySSA s.xr s.prev (ssaPatch c gen s.cm s.xr cs)).status with
      | none => exact ⟨rfl, rfl, rfl⟩
      | some st =>
        cases st with
        | obj xst =>
          simp only [claimWrite, bne_self_eq_false, Bool.false_eq_true, if_false]
          and_intros <;> first | rfl | trivial
        | _ => exact ⟨rfl, rfl, rfl⟩
    | _ => exact ⟨rfl, rfl, rfl⟩

theorem csaBackW_quiet (c : Cfg) (cm1 xrA : KObj) (k : Nat) (s : Srv) (ws : List Write)
    (hcm : s.cm = cm1) (hx : s.xr = some xrA) :
    let o := csaBackW World.quiet k cm1 s.cmV xrA s ws
    let o' := csaBack c cm1 xrA s.toSt ws
    o.srv.toSt = o'.st ∧ o.writes = o'.writes ∧ o.err = o'.err := by
  subst hcm
  unfold csaBackW csaBack
  simp only [Srv.toSt]
  cases hm : csaMergeStatus s.cm.status xrA.status with
  | error e => exact ⟨rfl, rfl, rfl⟩
  | ok st' =>
    simp only [quiet_acts, applyActs_nil, quiet_inj, claimWrite, bne_self_eq_false, Bool.false_eq_true, if_false,
      storeClaimStatus]
    cases hsp : s.cm.spec with
    | none => and_intros <;> first | rfl | trivial | simp [hx]
    | some v =>
      cases v with
      | obj cs =>
        simp only [bne_self_eq_false, Bool.false_eq_true, if_false]
        and_intros <;> first | rfl | trivial | simp [hx, storeClaimUpdate]
      | _ => and_intros <;> first | rfl | trivial | simp [hx]

theorem csaApplyW_quiet (c : Cfg) (k : Nat) (d : KObj) (s : Srv) (ws : List Write)
    (hp : s.xr = none → s.prev = none) :
    let o := csaApplyW World.quiet k d s.xr s.xrV s.cm s.cmV s ws
    let xrA := (match s.xr with
      | none => d
      | some cur => if kobjEqv cur d then cur else mergePatchXR cur d)
    let w2 := (match s.xr with
      | none => [Write.xrCreate d]
      | some cur => if kobjEqv cur d then [] else [Write.xrPatch d])
    let o' := csaBack c s.cm xrA { cm := s.cm, xr := some xrA, prev := s.prev } (ws ++ w2)
    o.srv.toSt = o'.st ∧ o.writes = o'.writes ∧ o.err = o'.err := by
  obtain ⟨cm, cmV, xr, xrV, prev⟩ := s
  unfold csaApplyW csaGet
  simp only [quiet_acts, applyActs_nil, quiet_inj, quiet_getLive, if_true]
  cases xr with
  | none =>
    simp only [Option.map_none, csaAfterGet, quiet_acts, applyActs_nil, quiet_inj, Option.isSome_none,
      Bool.false_eq_true, if_false]
    have hprev : prev = none := hp rfl
    subst hprev
    have := csaBackW_quiet c cm d (k + 2) { cm := cm, cmV := cmV, xr := some d, xrV := xrV + 1, prev := none } (ws ++ [Write.xrCreate d]) rfl rfl
    simpa [Srv.toSt] using this
  | some cur =>
    simp only [Option.map_some, csaAfterGet, quiet_acts, applyActs_nil, quiet_inj, Option.isSome_some,
      Bool.true_and, beq_self_eq_true]
    by_cases heq : kobjEqv cur d = true
    · simp only [heq, if_true, List.append_nil]
      have := csaBackW_quiet c cm cur (k + 1) { cm := cm, cmV := cmV, xr := some cur, xrV := xrV, prev := prev } ws rfl rfl
      simpa [Srv.toSt] using this
    · have heq' : kobjEqv cur d = false := by simpa using heq
      simp only [heq', Bool.false_eq_true, if_false, bne_self_eq_false]
      have := csaBackW_quiet c cm (mergePatchXR cur d) (k + 2)
        { cm := cm, cmV := cmV, xr := some (mergePatchXR cur d), xrV := bump (!kobjSame cur (mergePatchXR cur d)) xrV, prev := prev }
        (ws ++ [Write.xrPatch d]) rfl rfl
      simpa [Srv.toSt] using this

/-- **syncCSAW_quiet**: the same for the client-side syncer (a pair without an XR has
nothing applied by the claim controller's field manager). -/
theorem syncCSAW_quiet (c : Cfg) (gen : String) (s : Srv) (hp : s.xr = none → s.prev = none) :
    let o := syncCSAW c gen World.quiet s.cm s.cmV s.xr s.xrV s
    o.srv.toSt = (syncCSA c gen s.toSt).st ∧ o.writes = (syncCSA c gen s.toSt).writes ∧
      o.err = (syncCSA c gen s.toSt).err := by
  unfold syncCSAW syncCSA
  simp only [Srv.toSt]
  cases hcs : s.cm.spec with
  | none => exact ⟨rfl, rfl, rfl⟩
  | some v =>
    cases v with
    | obj cs =>
      simp only []
      by_cases href : refIs c (csaDesired c gen s.cm s.xr cs).name cs = true
      · simp only [href, if_true, List.nil_append]
        have := csaApplyW_quiet c 0 (csaDesired c gen s.cm s.xr cs) s [] hp
        simp only [List.nil_append] at this
        have hb : csaBound c gen { cm := s.cm, xr := s.xr, prev := s.prev } cs = s.cm := by
          simp [csaBound, href]
        simp only [hb, csaApplied]
        exact this
      · have href' : refIs c (csaDesired c gen s.cm s.xr cs).name cs = false := by simpa using href
        simp only [href', Bool.false_eq_true, if_false, quiet_acts, applyActs_nil, quiet_inj, claimWrite,
          bne_self_eq_false]
        have hb : csaBound c gen { cm := s.cm, xr := s.xr, prev := s.prev } cs =
            storeClaimUpdate s.cm (csaBind c (csaDesired c gen s.cm s.xr cs).name s.cm cs) := by
          simp [csaBound, href']
        simp only [hb, csaApplied]
        have := csaApplyW_quiet c 1 (csaDesired c gen s.cm s.xr cs)
          { s with cm := storeClaimUpdate s.cm (csaBind c (csaDesired c gen s.cm s.xr cs).name s.cm cs),
                   cmV := bump (!kobjSame s.cm (storeClaimUpdate s.cm (csaBind c (csaDesired c gen s.cm s.xr cs).name s.cm cs))) s.cmV }
          [Write.claimUpdate (csaBind c (csaDesired c gen s.cm s.xr cs).name s.cm cs)] hp
        exact this
    | _ => exact ⟨rfl, rfl, rfl⟩

/-! ### what is sent to the XR depends on what was READ only -/

theorem csaBackW_writes (w : World) (k : Nat) (cm1 : KObj) (cmV : Nat) (xrA : KObj) (s : Srv) (ws : List Write)
    (wr : Write) (h : wr ∈ (csaBackW w k cm1 cmV xrA s ws).writes) (hx : wr.isXR = true) : wr ∈ ws := by
  unfold csaBackW at h
  split at h
  · exact h
  · simp only [] at h
    split at h
    · simp only [List.mem_append, List.mem_singleton] at h
      rcases h with h | h
      · exact h
      · subst h; simp [Write.isXR] at hx
    · split at h
      · split at h <;>
        · simp only [List.mem_append, List.mem_cons, List.not_mem_nil, or_false] at h
          rcases h with h | h | h
          · exact h
          · subst h; simp [Write.isXR] at hx
          · subst h; simp [Write.isXR] at hx
      · simp only [List.mem_append, List.mem_singleton] at h
        rcases h with h | h
        · exact h
        · subst h; simp [Write.isXR] at hx

theorem csaAfterGet_writes (w : World) (k : Nat) (d : KObj) (rxr : Option KObj) (rxrV : Nat)
    (cm1 : KObj) (cmV : Nat) (sg : Srv) (ws : List Write) (got : Option (KObj × Nat))
    (wr : Write) (h : wr ∈ (csaAfterGet w k d rxr rxrV cm1 cmV sg ws got).writes) (hx : wr.isXR = true) :
    wr ∈ ws ∨ wr = .xrCreate d ∨ wr = .xrPatch d := by
  have mem_app : ∀ (x : Write), wr ∈ ws ++ [x] → wr ∈ ws ∨ wr = x := by
    intro x hm
    simpa [List.mem_append] using hm
  cases got with
  | none =>
    simp only [csaAfterGet] at h
    split at h
    · rcases mem_app _ h with h | h
      · exact Or.inl h
      · exact Or.inr (Or.inl h)
    · split at h
      · rcases mem_app _ h with h | h
        · exact Or.inl h
        · exact Or.inr (Or.inl h)
      · split at h
        · rcases mem_app _ h with h | h
          · exact Or.inl h
          · exact Or.inr (Or.inl h)
        · rcases mem_app _ (csaBackW_writes _ _ _ _ _ _ _ wr h hx) with h | h
          · exact Or.inl h
          · exact Or.inr (Or.inl h)
  | some p =>
    obtain ⟨cur, curV⟩ := p
    simp only [csaAfterGet] at h
    split at h
    · exact Or.inl (csaBackW_writes _ _ _ _ _ _ _ wr h hx)
    · split at h
      · rcases mem_app _ h with h | h
        · exact Or.inl h
        · exact Or.inr (Or.inr h)
      · split at h
        · rcases mem_app _ h with h | h
          · exact Or.inl h
          · exact Or.inr (Or.inr h)
        · split at h
          · rcases mem_app _ h with h | h
            · exact Or.inl h
            · exact Or.inr (Or.inr h)
          · rcases mem_app _ (csaBackW_writes _ _ _ _ _ _ _ wr h hx) with h | h
            · exact Or.inl h
            · exact Or.inr (Or.inr h)

theorem csaApplyW_writes (w : World) (k : Nat) (d : KObj) (rxr : Option KObj) (rxrV : Nat)
    (cm1 : KObj) (cmV : Nat) (s : Srv) (ws : List Write)
    (wr : Write) (h : wr ∈ (csaApplyW w k d rxr rxrV cm1 cmV s ws).writes) (hx : wr.isXR = true) :
    wr ∈ ws ∨ wr = .xrCreate d ∨ wr = .xrPatch d := by
  unfold csaApplyW at h
  simp only [] at h
  split at h
  · exact Or.inl h
  · exact csaAfterGet_writes _ _ _ _ _ _ _ _ _ _ wr h hx

/-- server-side syncer: in every world the only XR write is the apply of `ssaPatch` of the
objects as READ -/
theorem syncSSAW_xr_writes (c : Cfg) (gen : String) (w : World) (rcm : KObj) (rcmV : Nat) (rxr : Option KObj)
    (s : Srv) (cs : AL J) (hcs : rcm.spec = some (.obj cs))
    (wr : Write) (h : wr ∈ (syncSSAW c gen w rcm rcmV rxr s).writes) (hx : wr.isXR = true) :
    wr = .xrApply (ssaPatch c gen rcm rxr cs) := by
  unfold syncSSAW at h
  rw [hcs] at h
  simp only [] at h
  have two : ∀ (a : KObj) (rest : List Write), (∀ x ∈ rest, Write.isXR x = false) →
      wr ∈ [Write.claimUpdate a, Write.xrApply (ssaPatch c gen rcm rxr cs)] ++ rest →
      wr = .xrApply (ssaPatch c gen rcm rxr cs) := by
    intro a rest hr hm
    simp only [List.cons_append, List.nil_append, List.mem_cons] at hm
    rcases hm with hm | hm | hm
    · subst hm; simp [Write.isXR] at hx
    · exact hm
    · have := hr _ hm; rw [this] at hx; cases hx
  split at h
  · simp only [List.mem_singleton] at h
    subst h; simp [Write.isXR] at hx
  · split at h
    · exact two _ [] (by simp) (by simpa using h)
    · split at h
      · exact two _ [] (by simp) (by simpa using h)
      · split at h <;> exact two _ [_] (by simp [Write.isXR]) h
      · exact two _ [] (by simp) (by simpa using h)

/-- client-side syncer: in every world the only XR writes are the create / merge patch of
`csaDesired` of the objects as READ -/
theorem syncCSAW_xr_writes (c : Cfg) (gen : String) (w : World) (rcm : KObj) (rcmV : Nat) (rxr : Option KObj)
    (rxrV : Nat) (s : Srv) (cs : AL J) (hcs : rcm.spec = some (.obj cs))
    (wr : Write) (h : wr ∈ (syncCSAW c gen w rcm rcmV rxr rxrV s).writes) (hx : wr.isXR = true) :
    wr = .xrCreate (csaDesired c gen rcm rxr cs) ∨ wr = .xrPatch (csaDesired c gen rcm rxr cs) := by
  unfold syncCSAW at h
  rw [hcs] at h
  simp only [] at h
  split at h
  · rcases csaApplyW_writes _ _ _ _ _ _ _ _ _ wr h hx with h | h
    · cases h
    · exact h
  · split at h
    · simp only [List.mem_singleton] at h
      subst h; simp [Write.isXR] at hx
    · rcases csaApplyW_writes _ _ _ _ _ _ _ _ _ wr h hx with h | h
      · simp only [List.mem_singleton] at h
        subst h; simp [Write.isXR] at hx
      · exact h

/-! ### whatever XR the write meets in the store keeps what its side owns -/

/-- server-side apply of the body computed from ANY read onto ANY stored XR -/
theorem applySSA_keeps_owned (c : Cfg) (gen : String) (rcm : KObj) (rxr : Option KObj) (cs : AL J)
    (cur : KObj) (prev : Option KObj) (hv : ClaimValid cs)
    (hprev : ∀ q, prev = some q → ∀ k, XrOwned k → alookup k q.specFields = none) :
    let y := applySSA (some cur) prev (ssaPatch c gen rcm rxr cs)
    (∀ k, XrOwned k → alookup k y.specFields = alookup k cur.specFields) ∧ y.status = cur.status ∧ y.name = cur.name := by
  refine ⟨?_, rfl, rfl⟩
  intro k hk
  apply applySSA_spec_untouched cur prev _ _ k rfl
  · exact ssaPatch_not_owned c gen rcm rxr cs hv k hk
  · intro q hq; exact hprev q hq k hk

/-- the client-side merge patch of the desired XR computed from ANY read onto ANY stored XR -/
theorem mergePatch_keeps_owned (c : Cfg) (gen : String) (rcm : KObj) (rxr : Option KObj) (cs : AL J)
    (cur : KObj) (hv : ClaimValid cs) :
    let y := mergePatchXR cur (csaDesired c gen rcm rxr cs)
    (∀ k, XrOwned k → alookup k y.specFields = alookup k cur.specFields) ∧ y.status = cur.status := by
  refine ⟨?_, rfl⟩
  intro k hk
  apply mergePatchXR_spec_untouched cur _ _ k rfl
  have key : alookup k (specToXR c rcm (policyOf (xrSpecFields rxr) == some "Manual") cs) = none := by
    rw [alookup_specToXR]
    rcases hk with hk | hk
    · have : k ≠ "claimRef" := by intro e; subst e; revert hk; decide
      simp [this, hk]
    · subst hk
      have ho : owner "resourceRefs" = .xrOnly := by decide
      simp [ho, hv _ ho]
  exact key

/-- an external name the stored XR has survives the apply when the XR as READ carried that
same name (the boundary of the recorded finding D27) -/
theorem applySSA_extName_of_read (c : Cfg) (gen : String) (rcm : KObj) (rxr : Option KObj) (cs : AL J)
    (cur : KObj) (prev : Option KObj) (hen : extName rxr ≠ "") (hnd : NoDup rcm.anns) :
    extName (some (applySSA (some cur) prev (ssaPatch c gen rcm rxr cs))) = extName rxr := by
  have hp : (ssaPatch c gen rcm rxr cs).annotations =
      setAnn (nonEmptyUnreserved rcm.annotations) extNameKey (extName rxr) := by
    have : (extName rxr != "") = true := by simp [hen]
    simp only [ssaPatch, this, if_true]
  have hnd' : NoDup ((setAnn (nonEmptyUnreserved rcm.annotations) extNameKey (extName rxr)).getD []) :=
    NoDup_setAnn _ _ _ (NoDup_nonEmptyUnreserved _ hnd)
  have hl : alookup extNameKey ((setAnn (nonEmptyUnreserved rcm.annotations) extNameKey (extName rxr)).getD []) =
      some (extName rxr) := by rw [anns_setAnn]; simp
  cases hs : setAnn (nonEmptyUnreserved rcm.annotations) extNameKey (extName rxr) with
  | none => rw [hs] at hl; simp at hl
  | some m =>
    rw [hs] at hl hnd'
    simp only [Option.getD_some] at hl hnd'
    have : ∃ d, (applySSA (some cur) prev (ssaPatch c gen rcm rxr cs)).annotations = some (addAll d m) := by
      simp only [applySSA, hp, hs]
      exact ⟨_, rfl⟩
    obtain ⟨d, hd⟩ := this
    show (alookup extNameKey (applySSA (some cur) prev (ssaPatch c gen rcm rxr cs)).anns).getD "" = _
    simp only [KObj.anns, hd, Option.getD_some]
    rw [alookup_addAll _ _ _ hnd', hl]; rfl

/-! ### the configuration last applied never owns, in every world -/

def PrevOK (s : Srv) : Prop := ∀ q, s.prev = some q → ∀ k, XrOwned k → alookup k q.specFields = none

theorem applyAct_prevOK (s : Srv) (a : Act) (h : PrevOK s) : PrevOK (applyAct s a) := by
  cases a with
  | editClaim d => exact h
  | xrCtl d =>
    unfold applyAct
    cases hx : s.xr with
    | none => intro q hq; exact h q hq
    | some x => intro q hq; exact h q hq
  | deleteXR => intro q hq; simp [applyAct] at hq
  | createXR x =>
    unfold applyAct
    cases hx : s.xr with
    | none => intro q hq; simp at hq
    | some x => intro q hq; exact h q hq

theorem applyActs_prevOK (l : List Act) : ∀ s, PrevOK s → PrevOK (applyActs s l) := by
  induction l with
  | nil => intro s h; exact h
  | cons a rest ih => intro s h; exact ih _ (applyAct_prevOK s a h)

theorem claimWrite_prevOK (inj : Option String) (held : Nat) (s s' : Srv) (f : KObj → KObj)
    (h : claimWrite inj held s f = .ok s') (hp : PrevOK s) : PrevOK s' := by
  have := (claimWrite_ok_iff inj held s f s' h).2.2.2.2.2
  intro q hq; rw [this] at hq; exact hp q hq

theorem syncSSAW_prevOK (c : Cfg) (gen : String) (w : World) (rcm : KObj) (rcmV : Nat) (rxr : Option KObj)
    (s : Srv) (hp : PrevOK s) (hv : ClaimValid rcm.specFields) :
    PrevOK (syncSSAW c gen w rcm rcmV rxr s).srv := by
  unfold syncSSAW
  split
  · rename_i cs hcs
    have hv' : ClaimValid cs := by simpa [KObj.specFields, hcs, objFields] using hv
    have hnew : ∀ (s1 : Srv) (xr' : KObj) (v : Nat),
        PrevOK { s1 with xr := some xr', xrV := v, prev := some (ssaPatch c gen rcm rxr cs) } := by
      intro s1 xr' v q hq k hk
      simp only [Option.some.injEq] at hq
      subst hq
      exact ssaPatch_not_owned c gen rcm rxr cs hv' k hk
    simp only []
    split
    · exact applyActs_prevOK _ _ hp
    · rename_i s0' h0
      have h0' := claimWrite_prevOK _ _ _ _ _ h0 (applyActs_prevOK _ _ hp)
      split
      · exact applyActs_prevOK _ _ h0'
      · split
        · exact hnew _ _ _
        · split
          · exact applyActs_prevOK _ _ (hnew _ _ _)
          · rename_i s2' h2
            exact claimWrite_prevOK _ _ _ _ _ h2 (applyActs_prevOK _ _ (hnew _ _ _))
        · exact hnew _ _ _
  · exact hp

/-! ### a stale copy of the claim never overwrites the stored claim -/

theorem ClaimByEnv.refl (s : Srv) : ClaimByEnv s s := ⟨[], rfl, rfl⟩

theorem ClaimByEnv.acts (s s' : Srv) (l : List Act) (h : ClaimByEnv s s') : ClaimByEnv s (applyActs s' l) := by
  obtain ⟨l0, h1, h2⟩ := h
  refine ⟨l0 ++ l, ?_, ?_⟩
  all_goals
    simp only [applyActs, List.foldl_append]
    -- the claim part of applyAct depends on the claim part only
    have key : ∀ (l : List Act) (a b : Srv), a.cm = b.cm → a.cmV = b.cmV →
        (l.foldl applyAct a).cm = (l.foldl applyAct b).cm ∧ (l.foldl applyAct a).cmV = (l.foldl applyAct b).cmV := by
      intro l
      induction l with
      | nil => intro a b h1 h2; exact ⟨h1, h2⟩
      | cons x rest ih =>
        intro a b h1 h2
        simp only [List.foldl_cons]
        apply ih
        · cases x with
          | editClaim d => simp [applyAct, h1]
          | xrCtl d => unfold applyAct; cases a.xr <;> cases b.xr <;> simp [h1]
          | deleteXR => simp [applyAct, h1]
          | createXR y => unfold applyAct; cases a.xr <;> cases b.xr <;> simp [h1]
        · cases x with
          | editClaim d => simp [applyAct, h1, h2]
          | xrCtl d => unfold applyAct; cases a.xr <;> cases b.xr <;> simp [h2]
          | deleteXR => simp [applyAct, h2]
          | createXR y => unfold applyAct; cases a.xr <;> cases b.xr <;> simp [h2]
    have := key l _ _ h1 h2
    first | exact this.1 | exact this.2

/-- versions only grow under third-party writes -/
theorem applyActs_cmV_le (l : List Act) : ∀ s, s.cmV ≤ (applyActs s l).cmV := by
  induction l with
  | nil => intro s; exact Nat.le_refl _
  | cons a rest ih =>
    intro s
    refine Nat.le_trans ?_ (ih (applyAct s a))
    cases a with
    | editClaim d => simp only [applyAct, bump]; split <;> omega
    | xrCtl d => unfold applyAct; cases s.xr <;> simp
    | deleteXR => simp [applyAct]
    | createXR y => unfold applyAct; cases s.xr <;> simp

theorem applyActs_claim_congr (l : List Act) : ∀ (a b : Srv), a.cm = b.cm → a.cmV = b.cmV →
    (applyActs a l).cm = (applyActs b l).cm ∧ (applyActs a l).cmV = (applyActs b l).cmV := by
  induction l with
  | nil => intro a b h1 h2; exact ⟨h1, h2⟩
  | cons x rest ih =>
    intro a b h1 h2
    simp only [applyActs, List.foldl_cons]
    apply ih
    · cases x with
      | editClaim d => simp [applyAct, h1]
      | xrCtl d => unfold applyAct; cases a.xr <;> cases b.xr <;> simp [h1]
      | deleteXR => simp [applyAct, h1]
      | createXR y => unfold applyAct; cases a.xr <;> cases b.xr <;> simp [h1]
    · cases x with
      | editClaim d => simp [applyAct, h1, h2]
      | xrCtl d => unfold applyAct; cases a.xr <;> cases b.xr <;> simp [h2]
      | deleteXR => simp [applyAct, h2]
      | createXR y => unfold applyAct; cases a.xr <;> cases b.xr <;> simp [h2]

theorem ClaimByEnv.of_same (s a b : Srv) (h : ClaimByEnv s a) (h1 : a.cm = b.cm) (h2 : a.cmV = b.cmV) :
    ClaimByEnv s b := by
  obtain ⟨l, e1, e2⟩ := h
  exact ⟨l, e1.trans h1, e2.trans h2⟩

theorem ClaimByEnv.trans (s a b : Srv) (h : ClaimByEnv s a) (h' : ClaimByEnv a b) : ClaimByEnv s b := by
  obtain ⟨l0, e1, e2⟩ := h
  obtain ⟨l1, f1, f2⟩ := h'
  refine ⟨l0 ++ l1, ?_, ?_⟩
  · have := (applyActs_claim_congr l1 (applyActs s l0) a e1 e2).1
    simp only [applyActs, List.foldl_append] at this ⊢
    exact this.trans f1
  · have := (applyActs_claim_congr l1 (applyActs s l0) a e1 e2).2
    simp only [applyActs, List.foldl_append] at this ⊢
    exact this.trans f2

theorem ClaimByEnv.step (s : Srv) (l : List Act) : ClaimByEnv s (applyActs s l) := ⟨l, rfl, rfl⟩

theorem ClaimByEnv.cmV_le (s s' : Srv) (h : ClaimByEnv s s') : s.cmV ≤ s'.cmV := by
  obtain ⟨l, _, e2⟩ := h
  rw [← e2]; exact applyActs_cmV_le l s

theorem csaMergeStatus_err_ne (a b : Option J) (e : String) (h : csaMergeStatus a b = .error e) : e ≠ "" := by
  unfold csaMergeStatus at h
  split at h <;> first | (cases h; done) | (cases h; decide)

/-- **server-side syncer**: a claim that was read before the stored claim moved on (an older
version from the cache, or a user edit between the read and the first write) is never
written: the first call fails with a Conflict, the store holds what third parties alone
made of it, nothing is sent to the XR. -/
theorem syncSSAW_stale_claim (c : Cfg) (gen : String) (w : World) (rcm : KObj) (rcmV : Nat) (rxr : Option KObj)
    (s : Srv) (cs : AL J) (hcs : rcm.spec = some (.obj cs))
    (hstale : rcmV ≠ (applyActs s (w.acts 0)).cmV) :
    let o := syncSSAW c gen w rcm rcmV rxr s
    o.err ≠ "" ∧ o.srv = applyActs s (w.acts 0) ∧ o.calls = 1 ∧ (∀ wr ∈ o.writes, wr.isXR = false) := by
  unfold syncSSAW
  rw [hcs]
  simp only []
  obtain ⟨e, he, hne⟩ := claimWrite_stale (w.inj 0) rcmV (applyActs s (w.acts 0))
    (fun st => storeClaimUpdate st (ssaClaim c (ssaPatch c gen rcm rxr cs).name rcm rxr cs)) hstale
  rw [he]
  refine ⟨hne, rfl, rfl, ?_⟩
  intro wr hwr
  simp only [List.mem_singleton] at hwr
  subst hwr; rfl

theorem csaBackW_stale (w : World) (k : Nat) (cm1 : KObj) (cmV : Nat) (xrA : KObj) (s : Srv) (ws : List Write)
    (h : cmV < s.cmV) :
    (csaBackW w k cm1 cmV xrA s ws).err ≠ "" ∧ ClaimByEnv s (csaBackW w k cm1 cmV xrA s ws).srv := by
  unfold csaBackW
  split
  · rename_i e he
    exact ⟨csaMergeStatus_err_ne _ _ e he, ClaimByEnv.refl s⟩
  · simp only []
    have hlt : cmV ≠ (applyActs s (w.acts k)).cmV := by
      have := applyActs_cmV_le (w.acts k) s
      omega
    rename_i st' _
    obtain ⟨e, he, hne⟩ := claimWrite_stale (w.inj k) cmV (applyActs s (w.acts k))
      (fun st => storeClaimStatus st { cm1 with status := st' }) hlt
    rw [he]
    exact ⟨hne, ClaimByEnv.step s _⟩

theorem csaGet_err_ne (w : World) (k : Nat) (rxr : Option KObj) (rxrV : Nat) (sg : Srv) (e : String)
    (h : csaGet w k rxr rxrV sg = .error e) : e ≠ "" := by
  unfold csaGet at h
  cases hi : w.inj k with
  | none => simp only [hi] at h; split at h <;> cases h
  | some cls =>
    simp only [hi] at h
    split at h
    · cases h
    · simp only [Except.error.injEq] at h; subst h; exact apiErr_ne_empty _

theorem csaApplyW_stale (w : World) (k : Nat) (d : KObj) (rxr : Option KObj) (rxrV : Nat)
    (cm1 : KObj) (cmV : Nat) (s : Srv) (ws : List Write) (h : cmV < s.cmV) :
    (csaApplyW w k d rxr rxrV cm1 cmV s ws).err ≠ "" ∧ ClaimByEnv s (csaApplyW w k d rxr rxrV cm1 cmV s ws).srv := by
  have e1 := ClaimByEnv.step s (w.acts k)
  have e2 := ClaimByEnv.trans _ _ _ e1 (ClaimByEnv.step (applyActs s (w.acts k)) (w.acts (k + 1)))
  have back : ∀ (k' : Nat) (xrA : KObj) (s' : Srv) (ws' : List Write), ClaimByEnv s s' →
      (csaBackW w k' cm1 cmV xrA s' ws').err ≠ "" ∧ ClaimByEnv s (csaBackW w k' cm1 cmV xrA s' ws').srv := by
    intro k' xrA s' ws' hs'
    have hl := ClaimByEnv.cmV_le _ _ hs'
    have := csaBackW_stale w k' cm1 cmV xrA s' ws' (by omega)
    exact ⟨this.1, ClaimByEnv.trans _ _ _ hs' this.2⟩
  unfold csaApplyW
  simp only []
  split
  · rename_i e he
    exact ⟨csaGet_err_ne _ _ _ _ _ e he, e1⟩
  · rename_i got _
    cases got with
    | none =>
      simp only [csaAfterGet]
      split
      · exact ⟨apiErr_ne_empty _, e2⟩
      · split
        · exact ⟨apiErr_ne_empty _, e2⟩
        · split
          · exact ⟨apiErr_ne_empty _, e2⟩
          · exact back _ _ _ _ (ClaimByEnv.of_same _ _ _ e2 rfl rfl)
    | some p =>
      obtain ⟨cur, curV⟩ := p
      simp only [csaAfterGet]
      split
      · exact back _ _ _ _ e1
      · split
        · exact ⟨apiErr_ne_empty _, e2⟩
        · split
          · exact ⟨apiErr_ne_empty _, e2⟩
          · split
            · exact ⟨apiErr_ne_empty _, e2⟩
            · exact back _ _ _ _ (ClaimByEnv.of_same _ _ _ e2 rfl rfl)

/-- **client-side syncer**: the same. A sync working on a stale copy of the claim ends in
an error and the stored claim is what third parties alone made of it. -/
theorem syncCSAW_stale_claim (c : Cfg) (gen : String) (w : World) (rcm : KObj) (rcmV : Nat) (rxr : Option KObj)
    (rxrV : Nat) (s : Srv) (cs : AL J) (hcs : rcm.spec = some (.obj cs)) (hstale : rcmV < s.cmV) :
    let o := syncCSAW c gen w rcm rcmV rxr rxrV s
    o.err ≠ "" ∧ ClaimByEnv s o.srv := by
  unfold syncCSAW
  rw [hcs]
  simp only []
  split
  · exact csaApplyW_stale w 0 _ rxr rxrV rcm rcmV s [] hstale
  · have hlt : rcmV ≠ (applyActs s (w.acts 0)).cmV := by
      have := applyActs_cmV_le (w.acts 0) s
      omega
    obtain ⟨e, he, hne⟩ := claimWrite_stale (w.inj 0) rcmV (applyActs s (w.acts 0))
      (fun st => storeClaimUpdate st (csaBind c (csaDesired c gen rcm rxr cs).name rcm cs)) hlt
    rw [he]
    exact ⟨hne, ClaimByEnv.step s _⟩

/-! ### no API error is swallowed -/

/-- **server-side syncer**: a sync that returns no error had no failing call. -/
theorem syncSSAW_ok_no_failed_call (c : Cfg) (gen : String) (w : World) (rcm : KObj) (rcmV : Nat)
    (rxr : Option KObj) (s : Srv) (cs : AL J) (hcs : rcm.spec = some (.obj cs))
    (hok : (syncSSAW c gen w rcm rcmV rxr s).err = "") :
    ∀ k, k < (syncSSAW c gen w rcm rcmV rxr s).calls → w.inj k = none := by
  unfold syncSSAW at hok ⊢
  rw [hcs] at hok ⊢
  simp only [] at hok ⊢
  split at hok
  · rename_i e he
    simp only [] at hok
    rcases claimWrite_error _ _ _ _ _ he with ⟨cls, _, h2⟩ | ⟨_, _, h2⟩ <;>
      (subst h2; exact absurd hok (apiErr_ne_empty _))
  · rename_i s0' h0
    have i0 := (claimWrite_ok_iff _ _ _ _ _ h0).1
    split at hok
    · rename_i e he
      simp only [] at hok
      exact absurd hok (apiErr_ne_empty _)
    · rename_i hi1
      split at hok
      · intro k hk
        have : k = 0 ∨ k = 1 := by simp only [] at hk; omega
        rcases this with h | h <;> subst h <;> assumption
      · split at hok
        · rename_i e he
          simp only [] at hok
          rcases claimWrite_error _ _ _ _ _ he with ⟨cls, _, h2⟩ | ⟨_, _, h2⟩ <;>
            (subst h2; exact absurd hok (apiErr_ne_empty _))
        · rename_i s2' h2
          have i2 := (claimWrite_ok_iff _ _ _ _ _ h2).1
          intro k hk
          have : k = 0 ∨ k = 1 ∨ k = 2 := by simp only [] at hk; omega
          rcases this with h | h | h <;> subst h <;> assumption
      · simp only [] at hok
        exact absurd hok (by decide)

theorem csaBackW_ok (w : World) (k : Nat) (cm1 : KObj) (cmV : Nat) (xrA : KObj) (s : Srv) (ws : List Write)
    (hok : (csaBackW w k cm1 cmV xrA s ws).err = "") :
    (csaBackW w k cm1 cmV xrA s ws).calls = k + 2 ∧ w.inj k = none ∧ w.inj (k + 1) = none := by
  unfold csaBackW at hok ⊢
  split at hok
  · rename_i e he
    exact absurd hok (csaMergeStatus_err_ne _ _ e he)
  · simp only [] at hok ⊢
    split at hok
    · rename_i e he
      simp only [] at hok
      rcases claimWrite_error _ _ _ _ _ he with ⟨cls, _, h2⟩ | ⟨_, _, h2⟩ <;>
        (subst h2; exact absurd hok (apiErr_ne_empty _))
    · rename_i s2' h2
      have i2 := (claimWrite_ok_iff _ _ _ _ _ h2).1
      split at hok
      · split at hok
        · rename_i e he
          simp only [] at hok
          rcases claimWrite_error _ _ _ _ _ he with ⟨cls, _, h3⟩ | ⟨_, _, h3⟩ <;>
            (subst h3; exact absurd hok (apiErr_ne_empty _))
        · rename_i s3' h3
          exact ⟨rfl, i2, (claimWrite_ok_iff _ _ _ _ _ h3).1⟩
      · simp only [] at hok
        exact absurd hok (by decide)

/-- a successful run from call `k` on had no failing call, except a NotFound at call `k` -/
def OkCalls (w : World) (k : Nat) (o : OutW) : Prop :=
  o.err = "" → ∀ j, k ≤ j → j < o.calls → ∀ e, w.inj j = some e → j = k ∧ e = "notFound"

theorem OkCalls.of_err (w : World) (k : Nat) (o : OutW) (h : o.err ≠ "") : OkCalls w k o :=
  fun hok => absurd hok h

theorem OkCalls.of_back (w : World) (k n : Nat) (cm1 : KObj) (cmV : Nat) (xrA : KObj) (s : Srv) (ws : List Write)
    (hbelow : ∀ j, k ≤ j → j < n → ∀ e, w.inj j = some e → j = k ∧ e = "notFound") :
    OkCalls w k (csaBackW w n cm1 cmV xrA s ws) := by
  intro hok j hk hj e he
  have := csaBackW_ok _ _ _ _ _ _ _ hok
  rw [this.1] at hj
  by_cases hlt : j < n
  · exact hbelow j hk hlt e he
  · have : j = n ∨ j = n + 1 := by omega
    rcases this with h | h <;> subst h
    · rw [this.2.1] at he; cases he
    · rw [this.2.2] at he; cases he

theorem csaApplyW_ok (w : World) (k : Nat) (d : KObj) (rxr : Option KObj) (rxrV : Nat)
    (cm1 : KObj) (cmV : Nat) (s : Srv) (ws : List Write) :
    OkCalls w k (csaApplyW w k d rxr rxrV cm1 cmV s ws) := by
  have err : ∀ (srv : Srv) (wr : List Write) (cls : String) (n : Nat),
      OkCalls w k { srv := srv, writes := wr, err := apiErr cls, calls := n } :=
    fun _ _ cls _ => OkCalls.of_err _ _ _ (apiErr_ne_empty cls)
  -- the calls below k + 2 once the Get (call k) answered and call k + 1 did not fail
  have below2 : (w.inj k = none ∨ w.inj k = some "notFound") → w.inj (k + 1) = none →
      ∀ j, k ≤ j → j < k + 2 → ∀ e, w.inj j = some e → j = k ∧ e = "notFound" := by
    intro h0 h1 j hk hj e he
    have : j = k ∨ j = k + 1 := by omega
    rcases this with h | h <;> subst h
    · rcases h0 with h0 | h0 <;> rw [h0] at he <;> cases he
      exact ⟨rfl, rfl⟩
    · rw [h1] at he; cases he
  have below1 : w.inj k = none → ∀ j, k ≤ j → j < k + 1 → ∀ e, w.inj j = some e → j = k ∧ e = "notFound" := by
    intro h0 j hk hj e he
    have : j = k := by omega
    subst this; rw [h0] at he; cases he
  unfold csaApplyW
  simp only []
  split
  · rename_i e he
    exact OkCalls.of_err _ _ _ (csaGet_err_ne _ _ _ _ _ e he)
  · rename_i got hg
    -- what the Get's answer says about the injection at call k
    have hk0 : w.inj k = none ∨ w.inj k = some "notFound" := by
      unfold csaGet at hg
      cases hi : w.inj k with
      | none => exact Or.inl rfl
      | some cls =>
        simp only [hi] at hg
        split at hg
        · rename_i hc
          have : cls = "notFound" := by simpa using hc
          subst this; exact Or.inr rfl
        · cases hg
    have hsome : ∀ p, got = some p → w.inj k = none := by
      intro p hp
      unfold csaGet at hg
      cases hi : w.inj k with
      | none => rfl
      | some cls =>
        simp only [hi] at hg
        split at hg
        · simp only [Except.ok.injEq] at hg; rw [hp] at hg; cases hg
        · cases hg
    cases got with
    | none =>
      simp only [csaAfterGet]
      split
      · exact err _ _ _ _
      · rename_i hi1
        split
        · exact err _ _ _ _
        · split
          · exact err _ _ _ _
          · exact OkCalls.of_back _ _ _ _ _ _ _ _ (below2 hk0 hi1)
    | some p =>
      have hinj := hsome p rfl
      obtain ⟨cur, curV⟩ := p
      simp only [csaAfterGet]
      split
      · exact OkCalls.of_back _ _ _ _ _ _ _ _ (below1 hinj)
      · split
        · exact err _ _ _ _
        · rename_i hi1
          split
          · exact err _ _ _ _
          · split
            · exact err _ _ _ _
            · exact OkCalls.of_back _ _ _ _ _ _ _ _ (below2 (Or.inl hinj) hi1)

/-- **client-side syncer**: a sync that returns no error had no failing call - except that
the Get inside Apply (the first or second call) may have answered NotFound, which means
"create the XR". -/
theorem syncCSAW_ok_no_failed_call (c : Cfg) (gen : String) (w : World) (rcm : KObj) (rcmV : Nat)
    (rxr : Option KObj) (rxrV : Nat) (s : Srv)
    (hok : (syncCSAW c gen w rcm rcmV rxr rxrV s).err = "") :
    ∀ j, j < (syncCSAW c gen w rcm rcmV rxr rxrV s).calls → ∀ e, w.inj j = some e → j ≤ 1 ∧ e = "notFound" := by
  revert hok
  unfold syncCSAW
  split
  · simp only []
    split
    · intro hok j hj e he
      have := csaApplyW_ok w 0 _ rxr rxrV rcm rcmV s [] hok j (Nat.zero_le _) hj e he
      exact ⟨by omega, this.2⟩
    · split
      · rename_i e he
        intro hok
        simp only [] at hok
        rcases claimWrite_error _ _ _ _ _ he with ⟨cls, _, h2⟩ | ⟨_, _, h2⟩ <;>
          (subst h2; exact absurd hok (apiErr_ne_empty _))
      · rename_i s0' h0
        have i0 := (claimWrite_ok_iff _ _ _ _ _ h0).1
        intro hok j hj e he
        by_cases hj0 : j = 0
        · subst hj0; rw [i0] at he; cases he
        · have := csaApplyW_ok w 1 _ rxr rxrV s0'.cm s0'.cmV s0' _ hok j (by omega) hj e he
          exact ⟨by omega, this.2⟩
  · intro hok
    simp only [] at hok
    exact absurd hok (by decide)

/-! ### the client-side syncer never touches the applied configuration -/

theorem csaBackW_prevOK (w : World) (k : Nat) (cm1 : KObj) (cmV : Nat) (xrA : KObj) (s : Srv) (ws : List Write)
    (hp : PrevOK s) : PrevOK (csaBackW w k cm1 cmV xrA s ws).srv := by
  unfold csaBackW
  split
  · exact hp
  · simp only []
    split
    · exact applyActs_prevOK _ _ hp
    · rename_i s2' h2
      have h2' := claimWrite_prevOK _ _ _ _ _ h2 (applyActs_prevOK _ _ hp)
      split
      · split
        · exact applyActs_prevOK _ _ h2'
        · rename_i s3' h3
          exact claimWrite_prevOK _ _ _ _ _ h3 (applyActs_prevOK _ _ h2')
      · exact h2'

theorem csaApplyW_prevOK (w : World) (k : Nat) (d : KObj) (rxr : Option KObj) (rxrV : Nat)
    (cm1 : KObj) (cmV : Nat) (s : Srv) (ws : List Write) (hp : PrevOK s) :
    PrevOK (csaApplyW w k d rxr rxrV cm1 cmV s ws).srv := by
  have h1 := applyActs_prevOK (w.acts k) s hp
  have h2 := applyActs_prevOK (w.acts (k + 1)) _ h1
  unfold csaApplyW
  simp only []
  split
  · exact h1
  · rename_i got _
    cases got with
    | none =>
      simp only [csaAfterGet]
      split
      · exact h2
      · split
        · exact h2
        · split
          · exact h2
          · apply csaBackW_prevOK
            intro q hq; cases hq
    | some p =>
      obtain ⟨cur, curV⟩ := p
      simp only [csaAfterGet]
      split
      · exact csaBackW_prevOK _ _ _ _ _ _ _ h1
      · split
        · exact h2
        · split
          · exact h2
          · split
            · exact h2
            · apply csaBackW_prevOK
              intro q hq; exact h2 q hq

theorem syncCSAW_prevOK (c : Cfg) (gen : String) (w : World) (rcm : KObj) (rcmV : Nat) (rxr : Option KObj)
    (rxrV : Nat) (s : Srv) (hp : PrevOK s) : PrevOK (syncCSAW c gen w rcm rcmV rxr rxrV s).srv := by
  unfold syncCSAW
  split
  · simp only []
    split
    · exact csaApplyW_prevOK _ _ _ _ _ _ _ _ _ hp
    · split
      · exact applyActs_prevOK _ _ hp
      · rename_i s0' h0
        exact csaApplyW_prevOK _ _ _ _ _ _ _ _ _ (claimWrite_prevOK _ _ _ _ _ h0 (applyActs_prevOK _ _ hp))
  · exact hp

end Xp.C07

import Xp.Proofs.C20Install
/-
C20: "every stored package's source is the one ParsePackageSourceFromReference computes from its reference
as written" is an invariant of the installer – the hypothesis `r.src = parseSource r.str` of the theorems over
references as written (Props/C20.lean) holds of every package the installer ever writes, at every instant,
under every fault plan, when it holds of the cluster it starts from and of the requested images (the driver
builds both that way).
-/
namespace Xp.C20
open Xp

/-- the source carried by the reference is the one computed from its string -/
def Ref.Parsed (r : Ref) : Prop := r.src = parseSource r.str

def ParsedStore (s : Store) : Prop := ∀ q ∈ s.pkgs, ∀ r, q.ref = some r → r.Parsed
def ParsedImgs (l : List Img) : Prop := ∀ i ∈ l, ∀ r, i.ref = some r → r.Parsed

def ParsedReq : Req → Prop
  | .createPkg p => ∀ r, p.ref = some r → r.Parsed
  | .patchPkg _ _ r => r.Parsed
  | _ => True

theorem exec_parsed {s : Store} {r : Req} (h : ParsedStore s) (hq : ParsedReq r) : ParsedStore (exec s r).1 := by
  by_cases hc : r.comp = some .pkgs
  · cases r <;> simp [Req.comp] at hc
    case createPkg p =>
      simp only [exec]
      split
      · exact h
      · intro q hqm r' hr'
        simp only [List.mem_append, List.mem_singleton] at hqm
        rcases hqm with hqm | hqm
        · exact h q hqm r' hr'
        · subst hqm; exact hq r' hr'
    case patchPkg k n r =>
      simp only [ParsedReq] at hq
      simp only [exec]
      split
      · exact h
      · intro q hqm r' hr'
        simp only [List.mem_map] at hqm
        obtain ⟨q1, hq1, he⟩ := hqm
        by_cases hm : q1.kind = k ∧ q1.name = n
        · simp [hm] at he
          subst he
          simp at hr'; subst hr'
          exact hq
        · simp [hm] at he
          subst he
          exact h q1 hq1 r' hr'
  · intro q hqm; rw [frame_pkgs (s := s) (r := r) hc] at hqm; exact h q hqm

theorem buildAll_parsed (res : List (String × String) → Ref → String) (m : List (String × String)) (imgs : List Img)
    (l : List (String × Ref)) (h : buildAll res m imgs = some l) (hi : ParsedImgs imgs) : ∀ nr ∈ l, nr.2.Parsed := by
  induction imgs generalizing l with
  | nil => simp [buildAll] at h; subst h; intro nr hnr; cases hnr
  | cons i is ih =>
    unfold buildAll at h
    split at h
    · cases h
    · rename_i r hr
      cases hb : buildAll res m is with
      | none => simp [hb] at h
      | some l' =>
        simp [hb] at h
        subst h
        intro nr hnr
        rcases List.mem_cons.mp hnr with e | e
        · subst e; exact hi i (by simp) r hr
        · exact ih l' hb (fun j hj => hi j (by simp [hj])) nr e

theorem applyPkg_issues_parsed (k : PKind) (nr : String × Ref) (h : nr.2.Parsed) : Issues ParsedReq (applyPkg k nr) := by
  unfold applyPkg
  refine .call _ _ trivial ?_
  intro x
  split
  · refine .call _ _ (by intro r hr; simp at hr; subst hr; exact h) ?_
    intro y; exact okOr_issues _ _ _
  · refine .call _ _ h ?_
    intro y; exact okOr_issues _ _ _
  · exact .ret _

theorem installBody_issues_parsed (p c f : List Img) (pl cl fl : List Pkg)
    (hp : ParsedImgs p) (hc : ParsedImgs c) (hf : ParsedImgs f) :
    Issues ParsedReq (installBody resolve p c f pl cl fl) := by
  unfold installBody
  split
  · exact .ret _
  · rename_i ps hps
    split
    · exact .ret _
    · rename_i cs hcs
      split
      · exact .ret _
      · rename_i fs hfs
        unfold installApply
        refine issues_bind (issues_forEach_mem ps fun a ha => applyPkg_issues_parsed _ a (buildAll_parsed _ _ _ _ hps hp a ha)) ?_
        intro r; split
        · refine issues_bind (issues_forEach_mem cs fun a ha => applyPkg_issues_parsed _ a (buildAll_parsed _ _ _ _ hcs hc a ha)) ?_
          intro r; split
          · exact issues_forEach_mem fs fun a ha => applyPkg_issues_parsed _ a (buildAll_parsed _ _ _ _ hfs hf a ha)
          · exact .ret _
        · exact .ret _

theorem installStep_parsed (plan : Plan) (k : Nat) (s : Store) (p c f : List Img)
    (hs : ParsedStore s) (hp : ParsedImgs p) (hc : ParsedImgs c) (hf : ParsedImgs f) :
    ∀ x ∈ reach sem plan k (installStep p c f) s, ParsedStore x := by
  unfold installStep installWith
  refine reach_listOf _ plan _ _ k s hs fun k1 => ?_
  refine reach_listOf _ plan _ _ k1 s hs fun k2 => ?_
  refine reach_listOf _ plan _ _ k2 s hs fun k3 => ?_
  exact reach_inv sem ParsedStore ParsedReq (fun _ _ hi hq => exec_parsed hi hq) plan k3 _
    (installBody_issues_parsed p c f _ _ _ hp hc hf) s hs

end Xp.C20

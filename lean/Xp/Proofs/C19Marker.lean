import Xp.Proofs.C19Sys
/-
C19 helper lemmas, part 7: the marker invariant (a ready, not deleted Usage has a
labelled used resource) and its preservation by the store mutators.
-/
namespace Xp.C19

/-- the used resource of `u` exists and carries the in-use label -/
def Labelled (s : Store) (u : Usage) : Prop :=
  (∃ r ∈ s.res, u.names r = true) ∧ ∀ r ∈ s.res, u.names r = true → r.inUse = true

def Marker (s : Store) : Prop :=
  ∀ u ∈ s.usages, u.ready = true → u.deleting = false → Labelled s u

theorem names_key {u : Usage} {r r' : Res} (h : u.names r = true) (hg : r'.group = r.group) (hk : r'.kind = r.kind)
    (hn : r'.name = r.name) : u.names r' = true := by
  simp only [Usage.names_iff] at h ⊢
  rw [hg, hk, hn]; exact h

theorem names_same_key {u : Usage} {r r' : Res} (h : u.names r = true) (h' : u.names r' = true) :
    r'.group = r.group ∧ r'.kind = r.kind ∧ r'.name = r.name := by
  simp only [Usage.names_iff] at h h'
  exact ⟨h'.2.1.symm.trans h.2.1, h'.2.2.1.symm.trans h.2.2.1, h'.2.2.2.symm.trans h.2.2.2⟩

theorem names_of_eq {u u' : Usage} (h : u'.of = u.of) (r : Res) : u'.names r = u.names r := by
  simp only [Usage.names, h]

theorem Labelled.of_eq {s : Store} {u u' : Usage} (h : Labelled s u) (ho : u'.of = u.of) : Labelled s u' := by
  obtain ⟨⟨r, hr, hn⟩, hall⟩ := h
  exact ⟨⟨r, hr, by rw [names_of_eq ho]; exact hn⟩, fun r' hr' hn' => hall r' hr' (by rw [← names_of_eq ho]; exact hn')⟩

theorem Labelled.sameRes {s s' : Store} {u : Usage} (h : Labelled s u) (e : s'.res = s.res) : Labelled s' u := by
  unfold Labelled; rw [e]; exact h

/-- replacing a resource by a version that keeps (or sets) the label -/
theorem Labelled.putR {s : Store} {u : Usage} (h : Labelled s u) {n : Res}
    (hkeep : ∀ x ∈ s.res, x.group = n.group → x.kind = n.kind → x.name = n.name → x.inUse = true → n.inUse = true) :
    Labelled (s.putR n).bump u := by
  obtain ⟨⟨r, hr, hn⟩, hall⟩ := h
  constructor
  · by_cases hk : r.group = n.group ∧ r.kind = n.kind ∧ r.name = n.name
    · refine ⟨n, ?_, names_key hn hk.1.symm hk.2.1.symm hk.2.2.symm⟩
      rw [bump_res]; exact mem_putR.mpr (.inr ⟨rfl, r, hr, hk⟩)
    · refine ⟨r, ?_, hn⟩
      rw [bump_res]; exact mem_putR.mpr (.inl ⟨hr, hk⟩)
  · intro r' hr' hn'
    rw [bump_res] at hr'
    rcases mem_putR.mp hr' with ⟨hr'', _⟩ | ⟨rfl, x, hx, hxk⟩
    · exact hall r' hr'' hn'
    · exact hkeep x hx hxk.1 hxk.2.1 hxk.2.2 (hall x hx (names_key hn' hxk.1 hxk.2.1 hxk.2.2))

/-- replacing a resource the Usage does not name -/
theorem Labelled.putR_other {s : Store} {u : Usage} (h : Labelled s u) {n : Res} (hno : u.names n = false) :
    Labelled (s.putR n).bump u := by
  obtain ⟨⟨r, hr, hn⟩, hall⟩ := h
  constructor
  · refine ⟨r, ?_, hn⟩
    rw [bump_res]
    refine mem_putR.mpr (.inl ⟨hr, fun hk => ?_⟩)
    have := names_key hn hk.1.symm hk.2.1.symm hk.2.2.symm
    rw [hno] at this; cases this
  · intro r' hr' hn'
    rw [bump_res] at hr'
    rcases mem_putR.mp hr' with ⟨hr'', _⟩ | ⟨rfl, _⟩
    · exact hall r' hr'' hn'
    · rw [hno] at hn'; cases hn'

/-- removing a resource the Usage does not name -/
theorem Labelled.dropR_other {s : Store} {u : Usage} (h : Labelled s u) {g k n : String}
    (hno : ∀ r ∈ s.res, r.group = g → r.kind = k → r.name = n → u.names r = false) :
    Labelled (s.dropR g k n) u := by
  obtain ⟨⟨r, hr, hn⟩, hall⟩ := h
  constructor
  · refine ⟨r, mem_dropR.mpr ⟨hr, fun hk => ?_⟩, hn⟩
    have := hno r hr hk.1 hk.2.1 hk.2.2
    rw [hn] at this; cases this
  · intro r' hr' hn'
    exact hall r' (mem_dropR.mp hr').1 hn'

theorem Marker.sameBoth {s s' : Store} (h : Marker s) (eu : s'.usages = s.usages) (er : s'.res = s.res) : Marker s' := by
  intro u hu hr hd
  rw [eu] at hu
  exact (h u hu hr hd).sameRes er

/-- an own-thread update of a Usage that keeps ready/deleting and (if ready) spec.of -/
theorem Marker.putU {s : Store} (h : Marker s) {x n : Usage} (hx : x ∈ s.usages)
    (hr : n.ready = x.ready) (hd : n.deleting = x.deleting) (ho : x.ready = true → n.of = x.of) :
    Marker (s.putU n).bump := by
  intro u hu hur hud
  rw [bump_usages] at hu
  rcases mem_putU.mp hu with ⟨hu', _⟩ | ⟨rfl, _⟩
  · exact (h u hu' hur hud).sameRes rfl
  · have hxr : x.ready = true := by rw [← hr]; exact hur
    exact ((h x hx hxr (by rw [← hd]; exact hud)).of_eq (ho hxr)).sameRes rfl

theorem Marker.dropU {s : Store} (h : Marker s) (nm : String) : Marker (s.dropU nm) := by
  intro u hu hur hud
  exact (h u (mem_dropU.mp hu).1 hur hud).sameRes rfl

theorem Marker.bump {s : Store} (h : Marker s) : Marker s.bump := h

theorem Marker.empty : Marker Store.empty := by
  intro u hu; simp [Store.empty] at hu

/-! ### the environment -/

theorem Labelled.createRes {s : Store} {u : Usage} (h : Labelled s u) (g k n : String) (l : Labels) (iu : Bool)
    (c : String) : Labelled (s.createRes g k n l iu c).1 u := by
  unfold Store.createRes
  split
  · exact h
  · split
    · exact h
    · next hg =>
      have hnone := getR_none hg
      obtain ⟨⟨r, hr, hn⟩, hall⟩ := h
      constructor
      · exact ⟨r, List.mem_append_left _ hr, hn⟩
      · intro r' hr' hn'
        simp only [List.mem_append, List.mem_singleton] at hr'
        rcases hr' with hr' | rfl
        · exact hall r' hr' hn'
        · have hk := names_same_key hn' hn
          exact absurd ⟨hk.1, hk.2.1, hk.2.2⟩ (hnone r hr)

theorem Marker.createRes {s : Store} (h : Marker s) (g k n : String) (l : Labels) (iu : Bool) (c : String) :
    Marker (s.createRes g k n l iu c).1 := by
  intro u hu hur hud
  have hu' : u ∈ s.usages := by
    have := (SameUsages.createRes s g k n l iu c).usages
    rw [this] at hu; exact hu
  exact (h u hu' hur hud).createRes g k n l iu c

theorem createUsage_res (s : Store) (nm : String) (of : RSpec) (b : Option RSpec) (r : Option String) (c : Bool)
    (ct : String) : (s.createUsage nm of b r c ct).1.res = s.res := by
  unfold Store.createUsage
  split
  · rfl
  · split <;> rfl

theorem Marker.createUsage {s : Store} (h : Marker s) (nm : String) (of : RSpec) (b : Option RSpec)
    (r : Option String) (c : Bool) (ct : String) : Marker (s.createUsage nm of b r c ct).1 := by
  intro u hu hur hud
  refine Labelled.sameRes ?_ (createUsage_res s nm of b r c ct)
  unfold Store.createUsage at hu
  split at hu
  · exact h u hu hur hud
  · split at hu
    · exact h u hu hur hud
    · simp only [List.mem_append, List.mem_singleton] at hu
      rcases hu with hu | rfl
      · exact h u hu hur hud
      · simp at hur

theorem deleteUsage_res (s : Store) (nm : String) : (s.deleteUsage nm).1.res = s.res := by
  unfold Store.deleteUsage
  split
  · rfl
  · split
    · split <;> rfl
    · rfl

theorem Marker.deleteUsage {s : Store} (h : Marker s) (nm : String) : Marker (s.deleteUsage nm).1 := by
  unfold Store.deleteUsage
  split
  · exact h
  · next x hg =>
    split
    · split
      · exact h
      · intro u hu hur hud
        rw [bump_usages] at hu
        rcases mem_putU.mp hu with ⟨hu', _⟩ | ⟨rfl, _⟩
        · exact (h u hu' hur hud).sameRes rfl
        · simp at hud
    · exact h.dropU nm

theorem not_names_all {s : Store} {u : Usage} {r : Res} {g k n : String}
    (hr : r.group = g ∧ r.kind = k ∧ r.name = n) (hno : u.names r = false) :
    ∀ r' ∈ s.res, r'.group = g → r'.kind = k → r'.name = n → u.names r' = false := by
  intro r' _ h1 h2 h3
  cases hb : u.names r' with
  | false => rfl
  | true =>
    have := names_key hb (hr.1.trans h1.symm) (hr.2.1.trans h2.symm) (hr.2.2.trans h3.symm)
    rw [hno] at this; cases this

/-- a delete request never removes (or unlabels) the used resource of a Usage that is in the store -/
theorem Labelled.deleteRes {s : Store} {u : Usage} (h : Labelled s u)
    (hidx : ∃ x ∈ s.usages, x.of = u.of) (g k n p : String) (lo po : Bool) :
    Labelled (s.deleteRes g k n p lo po none).1 u := by
  obtain ⟨x, hx, hxo⟩ := hidx
  have spec := deleteRes_spec s g k n p lo po none
  generalize (s.deleteRes g k n p lo po none).1 = s' at spec ⊢
  generalize (s.deleteRes g k n p lo po none).2 = res at spec
  cases spec with
  | notFound hg => exact h
  | unlabelled r hg hin =>
    have hr := getR_some hg
    have hno : u.names r = false := by
      cases hb : u.names r with
      | false => rfl
      | true => have := h.2 r hr.1 hb; rw [hin] at this; cases this
    exact h.dropR_other (not_names_all hr.2 hno)
  | refused r v hg hin hv hne =>
    have hr := getR_some hg
    have a := admitDelete_spec s r p lo po none
    generalize (s.admitDelete r p lo po none).1 = s1 at a ⊢
    generalize (s.admitDelete r p lo po none).2 = v1 at a
    cases a with
    | deniedPatched hn ha => exact h.putR (fun _ _ _ _ _ _ => hin)
    | _ => exact h
  | admitted r hg hin hv =>
    have hr := getR_some hg
    have a := admitDelete_spec s r p lo po none
    rw [hv] at a
    generalize (s.admitDelete r p lo po none).1 = s1 at a ⊢
    cases a with
    | allowed hn =>
      simp only [Option.getD_none] at hn
      have hz := countU_zero.mp hn
      have hno : u.names r = false := by
        cases hb : u.names r with
        | false => rfl
        | true =>
          have hi := names_indexedBy (u := x) (r := r) (by rw [names_of_eq hxo]; exact hb)
          rw [hz x hx] at hi; cases hi
      exact h.dropR_other (not_names_all hr.2 hno)

/-- another writer's label edit keeps the in-use label -/
theorem Labelled.touchRes {s : Store} (hs : StoreInv s) {u : Usage} (h : Labelled s u) (g k n : String) (l : Labels) :
    Labelled (s.touchRes g k n l).1 u := by
  unfold Store.touchRes
  split
  · exact h
  · next r hg =>
    have hr := getR_some hg
    split
    · exact h
    · refine h.putR (fun x hx h1 h2 h3 hin => ?_)
      have : x = r := hs.resUniq x hx r hr.1 h1 h2 h3
      rw [← this]; exact hin

theorem Marker.touchRes {s : Store} (hs : StoreInv s) (h : Marker s) (g k n : String) (l : Labels) :
    Marker (s.touchRes g k n l).1 := by
  intro u hu hur hud
  have hu' : u ∈ s.usages := by
    have := (SameUsages.touchRes s g k n l).usages
    rw [this] at hu; exact hu
  exact (h u hu' hur hud).touchRes hs g k n l

theorem Marker.deleteRes {s : Store} (h : Marker s) (g k n p : String) (lo po : Bool) :
    Marker (s.deleteRes g k n p lo po none).1 := by
  intro u hu hur hud
  have hu' : u ∈ s.usages := by
    have := (SameUsages.deleteRes s g k n p lo po none).usages
    rw [this] at hu; exact hu
  exact (h u hu' hur hud).deleteRes ⟨u, hu', rfl⟩ g k n p lo po

theorem Marker.gcUsage {s : Store} (h : Marker s) (nm : String) : Marker (s.gcUsage nm).1 := by
  unfold Store.gcUsage
  split
  · exact h
  · split
    · exact h
    · split
      · exact h
      · exact h.deleteUsage nm

theorem Marker.gcRes {s : Store} (h : Marker s) (g k n : String) : Marker (s.gcRes g k n).1 := by
  unfold Store.gcRes
  split
  · exact h
  · split
    · exact h
    · split
      · exact h
      · exact h.deleteRes g k n _ _ _

theorem Labelled.gcRes {s : Store} {u : Usage} (h : Labelled s u) (hidx : ∃ x ∈ s.usages, x.of = u.of)
    (g k n : String) : Labelled (s.gcRes g k n).1 u := by
  unfold Store.gcRes
  split
  · exact h
  · split
    · exact h
    · split
      · exact h
      · exact h.deleteRes hidx g k n _ _ _

theorem reapplyUsage_res (s : Store) (nm c : String) : (s.reapplyUsage nm c).1.res = s.res := by
  unfold Store.reapplyUsage
  split
  · rfl
  · split
    · rfl
    · split
      · rfl
      · split <;> rfl

theorem Marker.reapplyUsage {s : Store} (h : Marker s) (nm c : String) : Marker (s.reapplyUsage nm c).1 := by
  unfold Store.reapplyUsage
  split
  · exact h
  · next x hg =>
    split
    · exact h
    · split
      · exact h
      · split
        · exact h
        · exact h.putU (getU_some hg).1 rfl rfl (fun _ => rfl)

end Xp.C19

import Xp.Proofs.C20Crash
/-
C20: the concrete installation used by the non-vacuity examples of Props/C20.lean.
-/
namespace Xp.C20

/-- a small installation: webhooks on, one CRD with webhook conversion, two webhook configurations, a
host-qualified provider that is already installed under a custom name, a partially initialised
cluster (CA present, server certificate missing) -/
def exCfg : Cfg :=
  { ns := "crossplane-system", sa := "crossplane", webhook := true, svcName := "crossplane-webhooks",
    svcNs := "crossplane-system", svcPort := 9443, ca := "crossplane-root-ca", server := "crossplane-tls-server",
    client := "crossplane-tls-client", ess := "ess-server",
    p := [⟨"xpkg.upbound.io/crossplane/provider-aws:v1.1.0", some ⟨"xpkg.upbound.io", "crossplane/provider-aws", "v1.1.0", false,
      "xpkg.upbound.io/crossplane/provider-aws:v1.1.0", "xpkg.upbound.io/crossplane/provider-aws"⟩⟩],
    c := [], f := [],
    crdDir := ⟨false, [.crd ⟨"locks.pkg.crossplane.io", 2, [("v1beta1", true), ("v1alpha1", false)], true⟩]⟩,
    whcDir := ⟨false, [.whc ⟨.validating, "validating-webhook-configuration", ["a.crossplane.io"]⟩,
                       .whc ⟨.mutating, "mutating-webhook-configuration", ["b.crossplane.io"]⟩]⟩ }

def exStore : Store :=
  { secrets := [⟨"crossplane-root-ca", .cert ⟨1, 1, ["crossplane-root-ca"], true⟩, .key 1, .empty, 0, 0⟩],
    pkgs := [⟨.provider, "my-aws", "xpkg.upbound.io/crossplane/provider-aws:v1.0.0",
      some ⟨"xpkg.upbound.io", "crossplane/provider-aws", "v1.0.0", false,
        "xpkg.upbound.io/crossplane/provider-aws:v1.0.0", "xpkg.upbound.io/crossplane/provider-aws"⟩, 3⟩],
    crds := [⟨"locks.pkg.crossplane.io", 1, [("v1alpha1", true)], false, .empty, ["v1alpha1"], 7⟩],
    whcs := [], crs := [⟨"locks.pkg.crossplane.io", "lock", 0⟩], lock := some 2, sc := none, drc := none }

end Xp.C20

import Xp.Model.C17
import Xp.Proofs.C17Res
/-
C17 helper lemmas for Resolve next to other writers of the Lock (`resolveI`, `Interf`):
the interference-free case is `resolve`; a run that ends without error is `resolveTail` on
the lock as last read; conflicts. Core Lean only.
-/
namespace Xp.C17

/-! ### no other writer: the old model -/

theorem resolveTailI_quiet (retry : Bool) (o : Oracle) (upg : Bool) (self : Pkg) (lock1 : List Pkg) (d : Dag)
    (implied : List Dep) : resolveTailI retry o upg self lock1 d implied none = resolveTail o upg self lock1 d implied := by
  unfold resolveTailI
  split <;> rfl

theorem resolveI_quiet (retry : Bool) (o : Oracle) (upg : Bool) (lock : List Pkg) (self : Pkg) :
    resolveI retry o upg lock self Interf.quiet = resolveG true o upg lock self := by
  unfold resolveI resolveG Interf.quiet
  cases hi0 : init o upg lock with
  | error e => rfl
  | ok r0 =>
    obtain ⟨d0, imp0⟩ := r0
    simp only [Option.getD_none, ite_self, Bool.and_true]
    cases hm : lock.any (movedEntry self) with
    | false =>
      simp only [Bool.false_eq_true, if_false]
      exact resolveTailI_quiet ..
    | true =>
      simp only [if_true]
      cases hi1 : init o upg (removeSelf lock self.name) with
      | error e => rfl
      | ok r1 =>
        obtain ⟨d1, imp1⟩ := r1
        exact resolveTailI_quiet ..

/-! ### a run without error ran `resolveTail` on the lock as last read -/

theorem resolveTailI_ok {o : Oracle} {upg : Bool} {self : Pkg} {lock1 : List Pkg} {d : Dag} {implied : List Dep}
    {upd : Option (List Pkg)} (h : (resolveTailI false o upg self lock1 d implied upd).err ≠ .conflict) :
    resolveTailI false o upg self lock1 d implied upd = resolveTail o upg self lock1 d implied ∧
    (lock1.any (fun lp => lp.name == self.name) = false → upd = none) := by
  unfold resolveTailI at h ⊢
  cases hpe : lock1.any (fun lp => lp.name == self.name) with
  | true => simp
  | false =>
    rw [hpe] at h
    simp only [Bool.false_eq_true, if_false] at h ⊢
    cases upd with
    | none => simp
    | some w => simp at h

theorem resolveI_eq_tail {o : Oracle} {upg : Bool} {lock : List Pkg} {self : Pkg} {env : Interf}
    (h : (resolveI false o upg lock self env).err = .none) :
    ∃ d implied,
      init o upg (lastRead lock self env) = .ok (d, implied) ∧
      resolveI false o upg lock self env = resolveTail o upg self (lastRead lock self env) d implied ∧
      ((lastRead lock self env).any (fun lp => lp.name == self.name) = false → env.upd = none) := by
  unfold resolveI at h ⊢
  unfold lastRead
  cases hi0 : init o upg lock with
  | error e => rw [hi0] at h; simp at h
  | ok r0 =>
    obtain ⟨d0, imp0⟩ := r0
    rw [hi0] at h
    simp only [] at h ⊢
    cases hm : lock.any (movedEntry self) with
    | false =>
      rw [hm] at h
      simp only [Bool.false_eq_true, if_false] at h ⊢
      have hne : (resolveTailI false o upg self lock d0 imp0 env.upd).err ≠ .conflict := by rw [h]; simp
      obtain ⟨e1, e2⟩ := resolveTailI_ok hne
      exact ⟨d0, imp0, hi0, e1, e2⟩
    | true =>
      rw [hm] at h
      simp only [if_true] at h ⊢
      split at h
      · simp at h
      · cases hi1 : init o upg (env.refresh.getD (removeSelf (env.rmGet.getD lock) self.name)) with
        | error e => rw [hi1] at h; simp at h
        | ok r1 =>
          obtain ⟨d1, imp1⟩ := r1
          rw [hi1] at h
          simp only [] at h ⊢
          have hne : (resolveTailI false o upg self (env.refresh.getD (removeSelf (env.rmGet.getD lock) self.name)) d1 imp1 env.upd).err ≠ .conflict := by rw [h]; simp
          obtain ⟨e1, e2⟩ := resolveTailI_ok hne
          exact ⟨d1, imp1, rfl, e1, e2⟩

/-! ### the lock as last read holds only the revision's own entries -/

theorem ownEntry_removeSelf {l : List Pkg} {self : Pkg} (wf : LockWF l self) : OwnEntry (removeSelf l self.name) self :=
  ⟨fun p hp hs => wf.own p (removeSelf_sub _ _ _ hp) hs,
   fun q hq hqn => absurd hqn (removeSelf_name l self.name wf.names q hq)⟩

theorem ownEntry_lastReadI {lock : List Pkg} {self : Pkg} {env : Interf} (wf : LockWF lock self) (ewf : EnvWF env self) :
    OwnEntry (lastRead lock self env) self := by
  unfold lastRead
  cases hm : lock.any (movedEntry self) with
  | false =>
    have := ownEntry_lastRead wf
    rw [hm] at this
    simpa using this
  | true =>
    simp only [if_true]
    cases hr : env.refresh with
    | some w => exact ewf.refresh w hr
    | none =>
      simp only [Option.getD_none]
      cases hg : env.rmGet with
      | none => exact ownEntry_removeSelf wf
      | some w => exact ownEntry_removeSelf (ewf.rmGet w hg)

/-! ### soundness next to other writers -/

theorem resolveI_sound (o : Oracle) (upg : Bool) (lock : List Pkg) (self : Pkg) (env : Interf)
    (wf : LockWF lock self) (ewf : EnvWF env self)
    (h : (resolveI false o upg lock self env).err = .none) :
    lockNb (resolveI false o upg lock self env).lock self.source = some (self.deps.map (·.pkg)) ∧
    (∀ e ∈ self.deps, ∃ p ∈ (resolveI false o upg lock self env).lock, p.source = e.pkg ∧ VersionOk o e p.version) ∧
    (∀ m, Reach (lockNb (resolveI false o upg lock self env).lock) self.source m →
      m ∈ (resolveI false o upg lock self env).lock.map (·.source)) := by
  obtain ⟨d, implied, hinit, heq, _⟩ := resolveI_eq_tail h
  rw [heq] at h ⊢
  exact resolveTail_sound o upg self _ d implied hinit (ownEntry_lastReadI wf ewf) h

/-- every branch of `resolveTail` leaves `lock1`, plus the revision when it was not there -/
theorem resolveTail_lock (o : Oracle) (upg : Bool) (self : Pkg) (lock1 : List Pkg) (d : Dag) (implied : List Dep) :
    (resolveTail o upg self lock1 d implied).lock =
      if lock1.any (fun lp => lp.name == self.name) then lock1 else lock1 ++ [self] := by
  unfold resolveTail
  simp only []
  repeat' split
  all_goals rfl

/-- "no error": the stored lock is the lock as last read, plus the revision's entry when Resolve
had to add it — and then nobody wrote in between -/
theorem resolveI_ok_lock {o : Oracle} {upg : Bool} {lock : List Pkg} {self : Pkg} {env : Interf}
    (h : (resolveI false o upg lock self env).err = .none) :
    ((lastRead lock self env).any (fun lp => lp.name == self.name) = true ∧
      (resolveI false o upg lock self env).lock = lastRead lock self env) ∨
    ((lastRead lock self env).any (fun lp => lp.name == self.name) = false ∧ env.upd = none ∧
      (resolveI false o upg lock self env).lock = lastRead lock self env ++ [self]) := by
  obtain ⟨d, implied, _, heq, hupd⟩ := resolveI_eq_tail h
  rw [heq, resolveTail_lock]
  cases hpe : (lastRead lock self env).any (fun lp => lp.name == self.name) with
  | true => left; simp
  | false => right; exact ⟨rfl, hupd hpe, by simp⟩

/-! ### conflicts -/

theorem checkDeps_error_ne_conflict (o : Oracle) (d : Dag) : ∀ (es : List Dep) (k : Nat) (e : ResErr),
    checkDeps o d es k = .error e → e ≠ .conflict := by
  intro es
  induction es with
  | nil => intro k e hh; simp [checkDeps] at hh
  | cons x xs ih =>
    intro k e hh
    unfold checkDeps at hh
    cases hx : checkDep o d x with
    | none => rw [hx] at hh; exact ih k e hh
    | some r =>
      rw [hx] at hh
      obtain ⟨err, counted⟩ := r
      cases counted with
      | true => exact ih (k + 1) e hh
      | false =>
        simp only [Except.error.injEq] at hh
        subst hh
        intro he
        subst he
        unfold checkDep at hx
        repeat' split at hx
        all_goals simp at hx

theorem resolveTail_err_ne_conflict (o : Oracle) (upg : Bool) (self : Pkg) (lock1 : List Pkg) (d : Dag) (implied : List Dep) :
    (resolveTail o upg self lock1 d implied).err ≠ .conflict := by
  unfold resolveTail
  simp only []
  generalize hpe : lock1.any (fun lp => lp.name == self.name) = prExists at *
  generalize hd2 : (if prExists = true then d else addOrUpdate upg d (pkgNode self)) = d2 at *
  generalize hcond : (!prExists && decide ((if prExists = true then (0 : Int) else
    ↑(self.deps.filter (fun e => d2.has e.pkg)).length) ≠ ↑self.deps.length)) = cond at *
  cases cond with
  | true => simp
  | false =>
    simp only [Bool.false_eq_true, if_false]
    cases ht : trace d2 self.source with
    | error e => simp
    | ok tree =>
      simp only []
      by_cases hmiss : (implied.filter (fun i => tree.contains i.pkg)).length ≠ 0
      · rw [if_pos hmiss]; simp
      · rw [if_neg hmiss]
        cases hc : checkDeps o d2 self.deps 0 with
        | error e => exact checkDeps_error_ne_conflict o d2 _ _ _ hc
        | ok k =>
          simp only []
          split <;> simp

/-- Resolve returns the conflict error exactly when another writer stored something right
before an Update that Resolve sends; the other writer's contents are what is stored then, and
nothing is reported installed. -/
theorem resolveI_conflict_iff (o : Oracle) (upg : Bool) (lock : List Pkg) (self : Pkg) (env : Interf)
    (hinit : ∀ e, init o upg lock ≠ .error e) :
    (resolveI false o upg lock self env).err = .conflict ↔
      (lock.any (movedEntry self) = true ∧ (env.rmGet.getD lock).any (fun lp => lp.name == self.name) = true ∧
        env.rmUpd.isSome = true) ∨
      ((∀ e, init o upg (lastRead lock self env) ≠ .error e) ∧
        (lastRead lock self env).any (fun lp => lp.name == self.name) = false ∧ env.upd.isSome = true ∧
        (lock.any (movedEntry self) = true → (env.rmGet.getD lock).any (fun lp => lp.name == self.name) = true → env.rmUpd = none)) := by
  unfold resolveI lastRead
  cases hi0 : init o upg lock with
  | error e => exact absurd hi0 (hinit e)
  | ok r0 =>
    obtain ⟨d0, imp0⟩ := r0
    simp only []
    have tailI : ∀ (l : List Pkg) (d : Dag) (imp : List Dep),
        (resolveTailI false o upg self l d imp env.upd).err = .conflict ↔
          (l.any (fun lp => lp.name == self.name) = false ∧ env.upd.isSome = true) := by
      intro l d imp
      unfold resolveTailI
      cases hpe : l.any (fun lp => lp.name == self.name) with
      | true => simp [resolveTail_err_ne_conflict]
      | false =>
        cases env.upd with
        | none => simp [resolveTail_err_ne_conflict]
        | some w => simp
    cases hm : lock.any (movedEntry self) with
    | false =>
      simp only [Bool.false_eq_true, if_false, false_and, false_or, false_implies, and_true]
      rw [tailI]
      constructor
      · rintro ⟨a, b⟩
        exact ⟨fun e he => (by rw [hi0] at he; cases he), a, b⟩
      · rintro ⟨_, a, b⟩
        exact ⟨a, b⟩
    | true =>
      simp only [if_true, true_and, true_implies]
      cases hn : (env.rmGet.getD lock).any (fun lp => lp.name == self.name) with
      | false =>
        simp only [Bool.false_eq_true, if_false, false_and, false_or, false_implies, and_true]
        cases hi1 : init o upg (env.refresh.getD (removeSelf (env.rmGet.getD lock) self.name)) with
        | error e =>
          simp only []
          constructor
          · intro h; cases h
          · rintro ⟨h, _⟩; exact absurd rfl (h e)
        | ok r1 =>
          obtain ⟨d1, imp1⟩ := r1
          simp only []
          rw [tailI]
          constructor
          · rintro ⟨a, b⟩
            exact ⟨fun e he => (by cases he), a, b⟩
          · rintro ⟨_, a, b⟩
            exact ⟨a, b⟩
      | true =>
        simp only [if_true, true_and, true_implies]
        cases hu : env.rmUpd with
        | some w => simp
        | none =>
          simp only [Option.isSome_none, Bool.false_eq_true, false_or, and_true]
          cases hi1 : init o upg (env.refresh.getD (removeSelf (env.rmGet.getD lock) self.name)) with
          | error e =>
            simp only []
            constructor
            · intro h; cases h
            · rintro ⟨h, _⟩; exact absurd rfl (h e)
          | ok r1 =>
            obtain ⟨d1, imp1⟩ := r1
            simp only []
            rw [tailI]
            constructor
            · rintro ⟨a, b⟩
              exact ⟨fun e he => (by cases he), a, b⟩
            · rintro ⟨_, a, b⟩
              exact ⟨a, b⟩

/-- on a conflict the stored lock is what the other writer left, and Resolve claims nothing -/
theorem resolveI_conflict_out {o : Oracle} {upg : Bool} {lock : List Pkg} {self : Pkg} {env : Interf}
    (h : (resolveI false o upg lock self env).err = .conflict) :
    (env.rmUpd = some (resolveI false o upg lock self env).lock ∨ env.upd = some (resolveI false o upg lock self env).lock) ∧
    (resolveI false o upg lock self env).installed = 0 ∧ (resolveI false o upg lock self env).invalid = 0 := by
  have tailI : ∀ (l : List Pkg) (d : Dag) (imp : List Dep),
      (resolveTailI false o upg self l d imp env.upd).err = .conflict →
        env.upd = some (resolveTailI false o upg self l d imp env.upd).lock ∧
        (resolveTailI false o upg self l d imp env.upd).installed = 0 ∧
        (resolveTailI false o upg self l d imp env.upd).invalid = 0 := by
    intro l d imp
    unfold resolveTailI
    cases hpe : l.any (fun lp => lp.name == self.name) with
    | true => simp [resolveTail_err_ne_conflict]
    | false =>
      cases env.upd with
      | none => simp [resolveTail_err_ne_conflict]
      | some w => simp
  unfold resolveI at h ⊢
  cases hi0 : init o upg lock with
  | error e => rw [hi0] at h; simp at h
  | ok r0 =>
    obtain ⟨d0, imp0⟩ := r0
    rw [hi0] at h
    simp only [] at h ⊢
    cases hm : lock.any (movedEntry self) with
    | false =>
      rw [hm] at h
      simp only [Bool.false_eq_true, if_false] at h ⊢
      obtain ⟨a, b, c⟩ := tailI _ _ _ h
      exact ⟨Or.inr a, b, c⟩
    | true =>
      rw [hm] at h
      simp only [if_true] at h ⊢
      split
      · rename_i w hw
        split at hw
        · exact ⟨Or.inl hw, rfl, rfl⟩
        · cases hw
      · rename_i hw
        rw [hw] at h
        simp only [] at h
        cases hi1 : init o upg (env.refresh.getD (removeSelf (env.rmGet.getD lock) self.name)) with
        | error e => rw [hi1] at h; simp at h
        | ok r1 =>
          obtain ⟨d1, imp1⟩ := r1
          rw [hi1] at h
          simp only [] at h ⊢
          obtain ⟨a, b, c⟩ := tailI _ _ _ h
          exact ⟨Or.inr a, b, c⟩

/-- the lock Resolve leaves without other writers: the lock as read when the DAG cannot be built,
else the refreshed lock `lock1`, plus the revision when it was not there -/
theorem resolveG_lock (o : Oracle) (upg : Bool) (lock : List Pkg) (self : Pkg) :
    ∃ lock1, lock1 = (if lock.any (movedEntry self) = true then removeSelf lock self.name else lock) ∧
      (((resolveG true o upg lock self).err = .initDag ∧
          ((resolveG true o upg lock self).lock = lock ∨ (resolveG true o upg lock self).lock = lock1)) ∨
       (resolveG true o upg lock self).lock =
          if lock1.any (fun lp => lp.name == self.name) then lock1 else lock1 ++ [self]) := by
  refine ⟨_, rfl, ?_⟩
  unfold resolveG
  cases hi0 : init o upg lock with
  | error e => left; exact ⟨rfl, Or.inl rfl⟩
  | ok r0 =>
    obtain ⟨d0, imp0⟩ := r0
    simp only []
    generalize (if lock.any (movedEntry self) = true then removeSelf lock self.name else lock) = lock1
    generalize (if (lock.any (movedEntry self) && true) = true then init o upg lock1 else Except.ok (d0, imp0)) = r
    cases r with
    | error e => left; exact ⟨rfl, Or.inr rfl⟩
    | ok r1 => right; exact resolveTail_lock ..

theorem mem_removeSelf_of_ne {p : Pkg} {name : String} (hn : p.name ≠ name) : ∀ (l : List Pkg), p ∈ l → p ∈ removeSelf l name := by
  intro l
  induction l with
  | nil => intro h; cases h
  | cons x xs ih =>
    intro h
    unfold removeSelf
    split
    · rename_i hx
      cases h with
      | head => exact absurd (by simpa using hx) hn
      | tail _ h' => exact h'
    · cases h with
      | head => exact List.mem_cons_self ..
      | tail _ h' => exact List.mem_cons_of_mem _ (ih h')

end Xp.C17

import Xp.Model.C12
/-
Helper lemmas for the C12 theorems (core Lean only).

Part 1: a state-dependent Hoare-style predicate `SafeP` over `Xp.Prog` programs:
every applied request keeps `Inv` and moves the store along `R`, and every
returned value satisfies `Post` — under every fault plan.
Part 2: facts about the store operations (update / create keep well-formedness
and only move revisions forward).
Part 3: the two loops of the repaired `Reconcile`, `reconcile`, `fetch`.
-/
namespace Xp.C12

/-! ## Part 1: generic -/
section Generic
variable {S Req Resp α : Type}

/-- The Bool is "no fault so far": `Post true` is what holds for the value returned
on the fault-free path, `Post false` for a value returned after some call failed. -/
def SafeP (sem : Sem S Req Resp) (Inv : S → Prop) (R : S → S → Prop) (Post : Bool → α → S → Prop) :
    Bool → Prog Req Resp α → S → Prop
  | b, .ret a, s => Post b a s
  | b, .call r c, s =>
      Inv (sem.exec s r).1 ∧ R s (sem.exec s r).1 ∧
      SafeP sem Inv R Post b (c (sem.exec s r).2) (sem.exec s r).1 ∧
      SafeP sem Inv R Post false (c (sem.errResp .fail r)) s ∧
      SafeP sem Inv R Post false (c (sem.errResp .conflict r)) s

variable (sem : Sem S Req Resp) (Inv : S → Prop) (R : S → S → Prop) (Post : Bool → α → S → Prop)
variable (hrefl : ∀ s, R s s) (htrans : ∀ a b c, R a b → R b c → R a c)
include hrefl htrans

/-- every store visible during the run satisfies `Inv` and is `R`-after the start -/
theorem safeP_reach (plan : Plan) (k : Nat) (b : Bool) (p : Prog Req Resp α) (s : S) (hs : Inv s)
    (hp : SafeP sem Inv R Post b p s) : ∀ s' ∈ reach sem plan k p s, Inv s' ∧ R s s' := by
  induction p generalizing k s b with
  | ret a => intro s' h; simp [reach] at h; subst h; exact ⟨hs, hrefl _⟩
  | call r c ih =>
    obtain ⟨h1, h2, h3, h4, h5⟩ := hp
    intro s' h
    unfold reach at h
    split at h
    · cases List.mem_cons.mp h with
      | inl e => subst e; exact ⟨hs, hrefl _⟩
      | inr h' =>
        have := ih _ _ _ _ h1 h3 s' h'
        exact ⟨this.1, htrans _ _ _ h2 this.2⟩
    · exact ih _ _ _ _ hs h4 s' h
    · exact ih _ _ _ _ hs h5 s' h
    · simp at h; subst h; exact ⟨hs, hrefl _⟩
    · simp at h; rcases h with h | h
      · subst h; exact ⟨hs, hrefl _⟩
      · subst h; exact ⟨h1, h2⟩

/-- every store visible during the run is `R`-before the final store -/
theorem safeP_reach_final (plan : Plan) (k : Nat) (b : Bool) (p : Prog Req Resp α) (s : S) (hs : Inv s)
    (hp : SafeP sem Inv R Post b p s) : ∀ s' ∈ reach sem plan k p s, R s' (run sem plan k p s).1 := by
  induction p generalizing k s b with
  | ret a => intro s' h; simp [reach] at h; subst h; exact hrefl _
  | call r c ih =>
    obtain ⟨h1, h2, h3, h4, h5⟩ := hp
    intro s' h
    unfold reach at h
    unfold run
    split at h
    · cases List.mem_cons.mp h with
      | inl e =>
        subst e
        have hf := (safeP_reach sem Inv R Post hrefl htrans plan (k+1) _ _ _ h1 h3 _ (run_mem_reach sem plan (k+1) _ _)).2
        exact htrans _ _ _ h2 hf
      | inr h' => exact ih _ _ _ _ h1 h3 s' h'
    · exact ih _ _ _ _ hs h4 s' h
    · exact ih _ _ _ _ hs h5 s' h
    · simp at h; subst h; exact hrefl _
    · simp at h; rcases h with h | h
      · subst h; exact h2
      · subst h; exact hrefl _

/-- the visible stores are pairwise ordered by `R` (earlier before later) -/
theorem safeP_pairwise (plan : Plan) (k : Nat) (b : Bool) (p : Prog Req Resp α) (s : S) (hs : Inv s)
    (hp : SafeP sem Inv R Post b p s) : (reach sem plan k p s).Pairwise R := by
  induction p generalizing k s b with
  | ret a => simp [reach]
  | call r c ih =>
    obtain ⟨h1, h2, h3, h4, h5⟩ := hp
    unfold reach
    split
    · refine List.pairwise_cons.mpr ⟨?_, ih _ _ _ _ h1 h3⟩
      intro s' h'
      exact htrans _ _ _ h2 (safeP_reach sem Inv R Post hrefl htrans plan (k+1) _ _ _ h1 h3 s' h').2
    · exact ih _ _ _ _ hs h4
    · exact ih _ _ _ _ hs h5
    · simp
    · simp [h2]

omit hrefl htrans in
/-- the value returned by a run that did not crash satisfies `Post` (for the
fault flag the run ended with) in the final store -/
theorem safeP_run (plan : Plan) (k : Nat) (b : Bool) (p : Prog Req Resp α) (s : S)
    (hp : SafeP sem Inv R Post b p s) :
    ∀ a, (run sem plan k p s).2 = some a → ∃ b', Post b' a (run sem plan k p s).1 := by
  induction p generalizing k s b with
  | ret a => intro a' h; simp [run] at h; subst h; exact ⟨b, hp⟩
  | call r c ih =>
    obtain ⟨h1, h2, h3, h4, h5⟩ := hp
    intro a h
    unfold run at h ⊢
    split at h
    · exact ih _ _ _ _ h3 a h
    · exact ih _ _ _ _ h4 a h
    · exact ih _ _ _ _ h5 a h
    · simp at h
    · simp at h

omit hrefl htrans in
/-- without faults the run does not crash and its value satisfies `Post b` -/
theorem safeP_run_allOk (k : Nat) (b : Bool) (p : Prog Req Resp α) (s : S)
    (hp : SafeP sem Inv R Post b p s) :
    ∃ a, (run sem Plan.allOk k p s).2 = some a ∧ Post b a (run sem Plan.allOk k p s).1 := by
  induction p generalizing k s b with
  | ret a => exact ⟨a, rfl, hp⟩
  | call r c ih =>
    obtain ⟨h1, h2, h3, h4, h5⟩ := hp
    unfold run
    simp only [Plan.allOk]
    exact ih _ _ _ _ h3

end Generic

/-! ## Part 2: the store -/

/-- recorded assumption: the content hash is collision-free on the set `D` of
contents that occur, also on the 63-character prefix used for the hash label and
the 7-character prefix used for the revision name `<composition>-<prefix>` -/
structure Naming.Inj (H : Naming) (D : Content → Prop) : Prop where
  hash : ∀ c c', D c → D c' → H.hash c = H.hash c' → c = c'
  name : ∀ n c n' c', D c → D c' → H.name n c = H.name n' c' → n = n' ∧ c = c'

/-- the revision is the image of some content: its name and hash label are that
content's, its spec and labels equal that content's -/
def Faithful (H : Naming) (D : Content → Prop) (r : Rev) : Prop :=
  ∃ c : Content, D c ∧ r.name = H.name r.comp c ∧ r.hash = H.hash c ∧ r.spec = toRevisionSpec c.spec ∧ r.labels = c.labels

structure WF (H : Naming) (D : Content → Prop) (s : Store) : Prop where
  comps : ∀ c ∈ s.comps, D c.content
  names : s.revs.Pairwise (fun a b => a.name ≠ b.name)
  faithful : ∀ r ∈ s.revs, Faithful H D r
  pos : ∀ r ∈ s.revs, 1 ≤ r.num
  nums : ∀ r ∈ s.revs, ∀ r' ∈ s.revs, r.comp = r'.comp → r.num = r'.num → r.name = r'.name

/-- `r'` is `r` at a later time: everything but the revision number and the owner
reference is identical, and the number did not decrease -/
def Same (r r' : Rev) : Prop :=
  r'.name = r.name ∧ r'.comp = r.comp ∧ r'.hash = r.hash ∧ r'.spec = r.spec ∧ r'.labels = r.labels ∧ r.num ≤ r'.num

/-- no revision is deleted or edited, numbers only grow -/
def Le (s s' : Store) : Prop := ∀ r ∈ s.revs, ∃ r' ∈ s'.revs, Same r r'

theorem Same.refl (r : Rev) : Same r r := ⟨rfl, rfl, rfl, rfl, rfl, Nat.le_refl _⟩

theorem Same.trans {a b c : Rev} (h1 : Same a b) (h2 : Same b c) : Same a c := by
  obtain ⟨a1, a2, a3, a4, a5, a6⟩ := h1
  obtain ⟨b1, b2, b3, b4, b5, b6⟩ := h2
  exact ⟨b1.trans a1, b2.trans a2, b3.trans a3, b4.trans a4, b5.trans a5, Nat.le_trans a6 b6⟩

theorem Le.refl (s : Store) : Le s s := fun r hr => ⟨r, hr, Same.refl r⟩

theorem Le.trans (a b c : Store) (h1 : Le a b) (h2 : Le b c) : Le a c := by
  intro r hr
  obtain ⟨r1, hr1, s1⟩ := h1 r hr
  obtain ⟨r2, hr2, s2⟩ := h2 r1 hr1
  exact ⟨r2, hr2, s1.trans s2⟩

theorem Le.of_revs_eq {s s' : Store} (h : s'.revs = s.revs) : Le s s' := by
  intro r hr; exact ⟨r, h ▸ hr, Same.refl r⟩

theorem WF.of_revs_eq {H : Naming} {D : Content → Prop} {s s' : Store} (h : s'.revs = s.revs) (hc : s'.comps = s.comps)
    (w : WF H D s) : WF H D s' :=
  ⟨hc ▸ w.comps, h ▸ w.names, h ▸ w.faithful, h ▸ w.pos, h ▸ w.nums⟩

theorem WF.empty (H : Naming) (D : Content → Prop) : WF H D Store.empty :=
  ⟨fun _ h => by simp [Store.empty] at h, List.Pairwise.nil, fun _ h => by simp [Store.empty] at h, fun _ h => by simp [Store.empty] at h,
   fun _ h => by simp [Store.empty] at h⟩

theorem eq_of_name_eq {l : List Rev} (hp : l.Pairwise (fun a b => a.name ≠ b.name)) {a b : Rev}
    (ha : a ∈ l) (hb : b ∈ l) (h : a.name = b.name) : a = b := by
  induction l with
  | nil => cases ha
  | cons x xs ih =>
    obtain ⟨hx, hxs⟩ := List.pairwise_cons.mp hp
    cases List.mem_cons.mp ha with
    | inl ea =>
      cases List.mem_cons.mp hb with
      | inl eb => rw [ea, eb]
      | inr hb' => exact absurd (ea ▸ h) (hx b hb')
    | inr ha' =>
      cases List.mem_cons.mp hb with
      | inl eb => exact absurd (eb ▸ h).symm (hx a ha')
      | inr hb' => exact ih hxs ha' hb'

/-- two revisions of one composition with the same hash label are the same object -/
theorem WF.name_of_hash {H : Naming} {D : Content → Prop} (hi : H.Inj D) {s : Store} (w : WF H D s) {a b : Rev}
    (ha : a ∈ s.revs) (hb : b ∈ s.revs) (hc : a.comp = b.comp) (hh : a.hash = b.hash) : a.name = b.name := by
  obtain ⟨c, d1, n1, h1, _, _⟩ := w.faithful a ha
  obtain ⟨c', d2, n2, h2, _, _⟩ := w.faithful b hb
  have : c = c' := hi.hash _ _ d1 d2 (h1 ▸ h2 ▸ hh)
  rw [n1, n2, hc, this]

/-- replace the revision named like `r1` by `r1` -/
def replaceRev (r1 : Rev) (l : List Rev) : List Rev := l.map fun x => if x.name = r1.name then r1 else x

theorem replaceRev_names (r1 : Rev) (l : List Rev) : (replaceRev r1 l).map (·.name) = l.map (·.name) := by
  induction l with
  | nil => rfl
  | cons x xs ih =>
    simp only [replaceRev, List.map_cons] at ih ⊢
    rw [ih]
    by_cases h : x.name = r1.name <;> simp [h]

theorem pairwise_names_of_map {l l' : List Rev} (h : l'.map (·.name) = l.map (·.name))
    (hp : l.Pairwise (fun a b => a.name ≠ b.name)) : l'.Pairwise (fun a b => a.name ≠ b.name) := by
  have h1 : (l.map (·.name)).Pairwise (· ≠ ·) := List.pairwise_map.mpr hp
  rw [← h] at h1
  exact List.pairwise_map.mp h1

theorem mem_replaceRev {r1 x : Rev} {l : List Rev} (h : x ∈ replaceRev r1 l) :
    (x = r1 ∧ ∃ y ∈ l, y.name = r1.name) ∨ (x ∈ l ∧ x.name ≠ r1.name) := by
  simp only [replaceRev, List.mem_map] at h
  obtain ⟨y, hy, e⟩ := h
  by_cases hn : y.name = r1.name
  · simp only [hn, if_true] at e; exact Or.inl ⟨e.symm, y, hy, hn⟩
  · simp only [hn, if_false] at e; exact Or.inr ⟨e ▸ hy, e ▸ hn⟩

theorem mem_replaceRev_of_ne {r1 x : Rev} {l : List Rev} (hx : x ∈ l) (hn : x.name ≠ r1.name) :
    x ∈ replaceRev r1 l := by
  simp only [replaceRev, List.mem_map]
  exact ⟨x, hx, by simp [hn]⟩

theorem mem_replaceRev_self {r0 r1 : Rev} {l : List Rev} (h0 : r0 ∈ l) (hn : r0.name = r1.name) :
    r1 ∈ replaceRev r1 l := by
  simp only [replaceRev, List.mem_map]
  exact ⟨r0, h0, by simp [hn]⟩

theorem find_of_mem {l : List Rev} (hp : l.Pairwise (fun a b => a.name ≠ b.name)) {r0 : Rev} (h0 : r0 ∈ l) :
    l.find? (fun x => decide (x.name = r0.name)) = some r0 := by
  cases h : l.find? (fun x => decide (x.name = r0.name)) with
  | none =>
    have := List.find?_eq_none.mp h r0 h0
    simp at this
  | some y =>
    have hy : y ∈ l := List.mem_of_find?_eq_some h
    have hn : y.name = r0.name := by have := List.find?_some h; simpa using this
    rw [eq_of_name_eq hp hy h0 hn]

/-- an `Update` whose base is the stored revision (nobody touched it since it was read) is
applied; the stored revision gets the next resourceVersion -/
theorem exec_updateRev_present {s : Store} (hp : s.revs.Pairwise (fun a b => a.name ≠ b.name)) {r0 r1 : Rev}
    (h0 : r0 ∈ s.revs) (hn : r1.name = r0.name) :
    exec s (.updateRev r0 r1) =
      ({ s with revs := replaceRev { r1 with rv := r0.rv + 1 } s.revs }, .rev { r1 with rv := r0.rv + 1 }) := by
  have hf : s.revs.find? (fun x => decide (x.name = r1.name)) = some r0 := by rw [hn]; exact find_of_mem hp h0
  simp only [exec, hf, if_true, replaceRev]

/-- an update that only moves the number forward (to a number unused in the
composition) and/or changes the owner keeps the store well-formed and is a step
of `Le` -/
theorem update_ok {H : Naming} {D : Content → Prop} {s : Store} (w : WF H D s) {r0 r1 : Rev} (h0 : r0 ∈ s.revs) (hs : Same r0 r1)
    (hfresh : ∀ x ∈ s.revs, x.comp = r1.comp → x.num = r1.num → x.name = r1.name) :
    WF H D { s with revs := replaceRev r1 s.revs } ∧ Le s { s with revs := replaceRev r1 s.revs } := by
  obtain ⟨e1, e2, e3, e4, e5, e6⟩ := hs
  have hf1 : Faithful H D r1 := by
    obtain ⟨c, dc, a, b, d, e⟩ := w.faithful r0 h0
    exact ⟨c, dc, by rw [e1, e2]; exact a, by rw [e3]; exact b, by rw [e4]; exact d, by rw [e5]; exact e⟩
  refine ⟨⟨w.comps, ?_, ?_, ?_, ?_⟩, ?_⟩
  · exact pairwise_names_of_map (replaceRev_names r1 s.revs) w.names
  · intro x hx
    rcases mem_replaceRev hx with ⟨e, _⟩ | ⟨hx', _⟩
    · exact e ▸ hf1
    · exact w.faithful x hx'
  · intro x hx
    rcases mem_replaceRev hx with ⟨e, _⟩ | ⟨hx', _⟩
    · rw [e]; exact Nat.le_trans (w.pos r0 h0) e6
    · exact w.pos x hx'
  · intro x hx y hy hc hnum
    rcases mem_replaceRev hx with ⟨ex, _⟩ | ⟨hx', hxn⟩ <;> rcases mem_replaceRev hy with ⟨ey, _⟩ | ⟨hy', hyn⟩
    · rw [ex, ey]
    · rw [ex] at hc hnum ⊢; exact (hfresh y hy' hc.symm hnum.symm).symm
    · rw [ey] at hc hnum ⊢; exact hfresh x hx' hc hnum
    · exact w.nums x hx' y hy' hc hnum
  · intro x hx
    by_cases hn : x.name = r1.name
    · have : x = r0 := eq_of_name_eq w.names hx h0 (hn.trans e1)
      exact ⟨r1, mem_replaceRev_self h0 e1.symm, this ▸ ⟨e1, e2, e3, e4, e5, e6⟩⟩
    · exact ⟨x, mem_replaceRev_of_ne hx hn, Same.refl x⟩

theorem mem_insertRev {r x : Rev} {l : List Rev} : x ∈ insertRev r l ↔ x = r ∨ x ∈ l := by
  induction l with
  | nil => simp [insertRev]
  | cons y ys ih =>
    unfold insertRev
    split
    · simp
    · simp only [List.mem_cons, ih]
      constructor
      · rintro (h | h | h)
        · exact Or.inr (Or.inl h)
        · exact Or.inl h
        · exact Or.inr (Or.inr h)
      · rintro (h | h | h)
        · exact Or.inr (Or.inl h)
        · exact Or.inl h
        · exact Or.inr (Or.inr h)

theorem pairwise_insertRev {r : Rev} {l : List Rev} (hp : l.Pairwise (fun a b => a.name ≠ b.name))
    (hr : ∀ x ∈ l, x.name ≠ r.name) : (insertRev r l).Pairwise (fun a b => a.name ≠ b.name) := by
  induction l with
  | nil => simp [insertRev]
  | cons y ys ih =>
    obtain ⟨hy, hys⟩ := List.pairwise_cons.mp hp
    unfold insertRev
    split
    · refine List.pairwise_cons.mpr ⟨?_, hp⟩
      intro x hx; exact (hr x hx).symm
    · refine List.pairwise_cons.mpr ⟨?_, ih hys (fun x hx => hr x (List.mem_cons_of_mem _ hx))⟩
      intro x hx
      rcases mem_insertRev.mp hx with e | hx'
      · rw [e]; exact hr y (List.mem_cons_self ..)
      · exact hy x hx'

/-- creating a faithful revision with a fresh name and a number unused in its
composition keeps the store well-formed -/
theorem create_ok {H : Naming} {D : Content → Prop} {s : Store} (w : WF H D s) {r : Rev} (hf : Faithful H D r) (hpos : 1 ≤ r.num)
    (hname : ∀ x ∈ s.revs, x.name ≠ r.name)
    (hnum : ∀ x ∈ s.revs, x.comp = r.comp → x.num ≠ r.num) :
    WF H D { s with revs := insertRev r s.revs } ∧ Le s { s with revs := insertRev r s.revs } := by
  refine ⟨⟨w.comps, pairwise_insertRev w.names hname, ?_, ?_, ?_⟩, ?_⟩
  · intro x hx
    rcases mem_insertRev.mp hx with e | hx'
    · exact e ▸ hf
    · exact w.faithful x hx'
  · intro x hx
    rcases mem_insertRev.mp hx with e | hx'
    · exact e ▸ hpos
    · exact w.pos x hx'
  · intro x hx y hy hc hn
    rcases mem_insertRev.mp hx with ex | hx' <;> rcases mem_insertRev.mp hy with ey | hy'
    · rw [ex, ey]
    · rw [ex] at hc hn; exact absurd hn.symm (hnum y hy' hc.symm)
    · rw [ey] at hc hn; exact absurd hn (hnum x hx' hc)
    · exact w.nums x hx' y hy' hc hn
  · intro x hx; exact ⟨x, mem_insertRev.mpr (Or.inr hx), Same.refl x⟩

theorem exec_createRev_absent {s : Store} {r : Rev} (h : ∀ x ∈ s.revs, x.name ≠ r.name) :
    exec s (.createRev r) = ({ s with revs := insertRev r s.revs }, .ok) := by
  have : s.revs.any (fun x => x.name = r.name) = false := by
    simp only [List.any_eq_false, decide_eq_true_eq]; exact h
  simp [exec, this]

theorem exec_createRev_present {s : Store} {r : Rev} (h : ∃ x ∈ s.revs, x.name = r.name) :
    exec s (.createRev r) = (s, .alreadyExists) := by
  have : s.revs.any (fun x => x.name = r.name) = true := by
    simp only [List.any_eq_true, decide_eq_true_eq]; exact h
  simp [exec, this]

/-- requests that never touch the revisions -/
def Req.readsRevs : Req → Prop
  | .updateRev _ _ | .createRev _ => False
  | _ => True

theorem exec_revs_of_reads {s : Store} {r : Req} (h : r.readsRevs) : (exec s r).1.revs = s.revs := by
  cases r <;> simp [Req.readsRevs] at h <;> simp [exec]
  all_goals (split <;> try rfl)
  all_goals (split <;> rfl)

theorem exec_comps (s : Store) (r : Req) : (exec s r).1.comps = s.comps := by
  cases r <;> simp [exec] <;> split <;> (try rfl) <;> split <;> rfl

/-! ## Part 3: the programs -/

section Programs
variable {α : Type}

theorem safeP_call (Inv : Store → Prop) (R : Store → Store → Prop) (Post : Bool → α → Store → Prop) (b : Bool)
    (r : Req) (c : Resp → P α) (s : Store) :
    SafeP sem Inv R Post b (.call r c) s ↔
      Inv (exec s r).1 ∧ R s (exec s r).1 ∧ SafeP sem Inv R Post b (c (exec s r).2) (exec s r).1 ∧
      SafeP sem Inv R Post false (c (sem.errResp .fail r)) s ∧
      SafeP sem Inv R Post false (c (sem.errResp .conflict r)) s :=
  Iff.rfl

theorem safeP_ret (Inv : Store → Prop) (R : Store → Store → Prop) (Post : Bool → α → Store → Prop) (b : Bool)
    (a : α) (s : Store) :
    SafeP sem Inv R Post b (.ret a : P α) s ↔ Post b a s := Iff.rfl

end Programs

/-- a revision with its owner reference erased -/
def er (r : Rev) : Rev := { r with ctrl := none, rv := 0 }

theorem er_name {a b : Rev} (h : er a = er b) : a.name = b.name := by
  have := congrArg Rev.name h; exact this
theorem er_comp {a b : Rev} (h : er a = er b) : a.comp = b.comp := by
  have := congrArg Rev.comp h; exact this
theorem er_num {a b : Rev} (h : er a = er b) : a.num = b.num := by
  have := congrArg Rev.num h; exact this
theorem er_hash {a b : Rev} (h : er a = er b) : a.hash = b.hash := by
  have := congrArg Rev.hash h; exact this
theorem er_spec {a b : Rev} (h : er a = er b) : a.spec = b.spec := by
  have := congrArg Rev.spec h; exact this
theorem er_labels {a b : Rev} (h : er a = er b) : a.labels = b.labels := by
  have := congrArg Rev.labels h; exact this

theorem replaceRev_er {l : List Rev} (hp : l.Pairwise (fun a b => a.name ≠ b.name)) {r0 r1 : Rev}
    (h0 : r0 ∈ l) (hn : r1.name = r0.name) (he : er r1 = er r0) : (replaceRev r1 l).map er = l.map er := by
  simp only [replaceRev, List.map_map]
  apply List.map_congr_left
  intro x hx
  by_cases h : x.name = r1.name
  · have : x = r0 := eq_of_name_eq hp hx h0 (h.trans hn)
    subst this
    simp only [Function.comp, h, if_true]
    exact he
  · simp [Function.comp, h]

/-- the adoption loop: every write keeps the store well-formed and monotone; on
exit the controller holds exactly the listed revisions, all controlled, and the
store differs from the initial one only in owner references -/
theorem adopt_safe {H : Naming} {D : Content → Prop} (uid : Nat) {Post : Bool → Res → Store → Prop}
    (hab : ∀ s, Post false .err s) (b : Bool) :
    ∀ (l : List Rev) (s : Store) (k : List Rev → P Res),
      WF H D s → (∀ r ∈ l, r ∈ s.revs) → l.Pairwise (fun a b => a.name ≠ b.name) →
      (b = true → ∀ r ∈ l, r.ctrl = none ∨ r.ctrl = some uid) →
      (∀ l' s', WF H D s' → s'.revs.map er = s.revs.map er → l'.map er = l.map er →
          (∀ x ∈ l', x ∈ s'.revs ∧ x.ctrl = some uid) →
          (∀ x ∈ s.revs, (∀ y ∈ l, y.name ≠ x.name) → x ∈ s'.revs) →
          SafeP sem (WF H D) Le Post b (k l') s') →
      SafeP sem (WF H D) Le Post b (adoptLoop uid l k) s := by
  intro l
  induction l with
  | nil =>
    intro s k w _ _ _ hk
    simp only [adoptLoop]
    exact hk [] s w rfl rfl (fun x hx => by cases hx) (fun x hx _ => hx)
  | cons r rs ih =>
    intro s k w hmem hpw hown hk
    have hown_rs : b = true → ∀ x ∈ rs, x.ctrl = none ∨ x.ctrl = some uid :=
      fun hb x hx => hown hb x (List.mem_cons_of_mem _ hx)
    obtain ⟨hr_rs, hpw_rs⟩ := List.pairwise_cons.mp hpw
    have hr : r ∈ s.revs := hmem r (List.mem_cons_self ..)
    have hrs : ∀ x ∈ rs, x ∈ s.revs := fun x hx => hmem x (List.mem_cons_of_mem _ hx)
    simp only [adoptLoop]
    split
    · -- already controlled
      rename_i hc
      apply ih s _ w hrs hpw_rs hown_rs
      intro l' s' w' e1 e2 h3 h4
      apply hk (r :: l') s' w' e1 (by simp [e2])
      · intro x hx
        cases List.mem_cons.mp hx with
        | inl e => subst e; exact ⟨h4 x hr (fun y hy => (hr_rs y hy).symm), hc⟩
        | inr hx' => exact h3 x hx'
      · intro x hx hne
        exact h4 x hx (fun y hy => hne y (List.mem_cons_of_mem _ hy))
    · split
      · -- controlled by somebody else: impossible on the fault-free path by assumption
        rename_i hc1 hc2
        cases b with
        | false => exact (safeP_ret _ _ _ _ _ _).mpr (hab s)
        | true =>
          rcases hown rfl r (List.mem_cons_self ..) with h | h
          · rw [h] at hc2; cases hc2
          · exact absurd h hc1
      · -- adopt
        rename_i hc1 hc2
        have hnone : r.ctrl = none := by
          cases h : r.ctrl with
          | none => rfl
          | some u => simp [h] at hc2
        let r1 : Rev := { r with ctrl := some uid, rv := r.rv + 1 }
        have hex : exec s (.updateRev r { r with ctrl := some uid }) = ({ s with revs := replaceRev r1 s.revs }, .rev r1) :=
          exec_updateRev_present w.names hr rfl
        have hsame : Same r r1 := ⟨rfl, rfl, rfl, rfl, rfl, Nat.le_refl _⟩
        have hfresh : ∀ x ∈ s.revs, x.comp = r1.comp → x.num = r1.num → x.name = r1.name :=
          fun x hx hc hn => w.nums x hx r hr hc hn
        obtain ⟨w1, le1⟩ := update_ok w hr hsame hfresh
        have her : er r1 = er r := by simp [er, r1]
        rw [safeP_call, hex]
        refine ⟨w1, le1, ?_, (safeP_ret _ _ _ _ _ _).mpr (hab s), (safeP_ret _ _ _ _ _ _).mpr (hab s)⟩
        -- continue with the rest of the list in the updated store
        have hrs1 : ∀ x ∈ rs, x ∈ ({ s with revs := replaceRev r1 s.revs } : Store).revs :=
          fun x hx => mem_replaceRev_of_ne (hrs x hx) (fun e => hr_rs x hx e.symm)
        apply ih _ _ w1 hrs1 hpw_rs hown_rs
        intro l' s' w' e1 e2 h3 h4
        have e1' : s'.revs.map er = s.revs.map er := by
          rw [e1]; exact replaceRev_er w.names hr rfl her
        apply hk (r1 :: l') s' w' e1' (by simp [e2, her])
        · intro x hx
          cases List.mem_cons.mp hx with
          | inl e =>
            subst e
            refine ⟨h4 r1 (mem_replaceRev_self hr rfl) (fun y hy => (hr_rs y hy).symm), rfl⟩
          | inr hx' => exact h3 x hx'
        · intro x hx hne
          have hxn : x.name ≠ r1.name := fun e => hne r (List.mem_cons_self ..) e.symm
          exact h4 x (mem_replaceRev_of_ne hx hxn) (fun y hy => hne y (List.mem_cons_of_mem _ hy))

/-- `LatestRevision` bounds the number of every controlled revision of the list -/
theorem latestGo_ge (uid : Nat) : ∀ (l : List Rev) (best : Option Rev),
    ((best.map (·.num)).getD 0 ≤ ((latestGo uid best l).map (·.num)).getD 0) ∧
    ∀ r ∈ l, r.ctrl = some uid → r.num ≤ ((latestGo uid best l).map (·.num)).getD 0 := by
  intro l
  induction l with
  | nil => intro best; exact ⟨Nat.le_refl _, fun r hr => by cases hr⟩
  | cons x xs ih =>
    intro best
    simp only [latestGo]
    split
    · rename_i hc
      obtain ⟨i1, i2⟩ := ih (some x)
      simp only [Option.map_some, Option.getD_some] at i1
      refine ⟨Nat.le_trans (Nat.le_of_lt hc.2) i1, ?_⟩
      intro r hr hcr
      cases List.mem_cons.mp hr with
      | inl e => rw [e]; exact i1
      | inr hr' => exact i2 r hr' hcr
    · rename_i hc
      obtain ⟨i1, i2⟩ := ih best
      refine ⟨i1, ?_⟩
      intro r hr hcr
      cases List.mem_cons.mp hr with
      | inl e =>
        rw [e]
        have : ¬ ((best.map (·.num)).getD 0 < x.num) := fun h => hc ⟨e ▸ hcr, h⟩
        exact Nat.le_trans (Nat.le_of_not_lt this) i1
      | inr hr' => exact i2 r hr' hcr

theorem latestNum_ge (uid : Nat) (l : List Rev) : ∀ r ∈ l, r.ctrl = some uid → r.num ≤ latestNum uid l :=
  (latestGo_ge uid l none).2

/-- what `LatestRevision` returns is a controlled element of the list with the
strictly highest number among the controlled ones before it and the highest overall -/
theorem latestGo_some (uid : Nat) : ∀ (l : List Rev) (best : Option Rev) (r : Rev),
    latestGo uid best l = some r → (best = some r ∨ (r ∈ l ∧ r.ctrl = some uid)) := by
  intro l
  induction l with
  | nil => intro best r h; exact Or.inl h
  | cons x xs ih =>
    intro best r h
    simp only [latestGo] at h
    split at h
    · rename_i hc
      rcases ih _ _ h with e | ⟨m, c⟩
      · have : x = r := Option.some.inj e
        exact Or.inr ⟨this ▸ List.mem_cons_self .., this ▸ hc.1⟩
      · exact Or.inr ⟨List.mem_cons_of_mem _ m, c⟩
    · rcases ih _ _ h with e | ⟨m, c⟩
      · exact Or.inl e
      · exact Or.inr ⟨List.mem_cons_of_mem _ m, c⟩

theorem latestRev_some {uid : Nat} {l : List Rev} {r : Rev} (h : latestRev uid l = some r) :
    r ∈ l ∧ r.ctrl = some uid ∧ ∀ x ∈ l, x.ctrl = some uid → x.num ≤ r.num := by
  rcases latestGo_some uid l none r h with e | ⟨m, c⟩
  · cases e
  · refine ⟨m, c, ?_⟩
    intro x hx hc
    have := latestNum_ge uid l x hx hc
    simpa [latestNum, h] using this

/-- the current hash `h` of composition `cn` is matched: a controlled revision of
`cn` carries it and has the strictly highest number of `cn`'s revisions -/
def GoodH (cn h : String) (uid : Nat) (s : Store) : Prop :=
  ∃ r ∈ s.revs, r.comp = cn ∧ r.hash = h ∧ r.ctrl = some uid ∧
    ∀ x ∈ s.revs, x.comp = cn → x.name ≠ r.name → x.num < r.num

/-- loop invariant of the renumbering loop -/
def RI (cn h : String) (uid latest : Nat) (rem : List Rev) (s : Store) (ex : Nat) : Prop :=
  (ex = 0 ∧ (∀ x ∈ s.revs, x.comp = cn → x.num ≤ latest) ∧
    (∀ x ∈ s.revs, x.comp = cn → x.hash = h → x ∈ rem)) ∨
  ((∀ r ∈ rem, r.hash ≠ h) ∧ 1 ≤ ex ∧ GoodH cn h uid s)

theorem renum_safe {H : Naming} {D : Content → Prop} (hi : H.Inj D) (cn h : String) (uid latest : Nat)
    {Post : Bool → Res → Store → Prop}
    (habe : ∀ s, Post false .err s) (habr : ∀ s, Post false .requeue s) (b : Bool) :
    ∀ (rem : List Rev) (s : Store) (ex : Nat) (k : Nat → P Res),
      WF H D s → (∀ r ∈ rem, r ∈ s.revs ∧ r.comp = cn ∧ r.ctrl = some uid) →
      rem.Pairwise (fun a b => a.name ≠ b.name) →
      RI cn h uid latest rem s ex →
      (∀ ex' s', WF H D s' → RI cn h uid latest [] s' ex' → SafeP sem (WF H D) Le Post b (k ex') s') →
      SafeP sem (WF H D) Le Post b (renumLoop h latest rem ex k) s := by
  intro rem
  induction rem with
  | nil =>
    intro s ex k w _ _ hri hk
    simp only [renumLoop]
    exact hk ex s w hri
  | cons r rs ih =>
    intro s ex k w hmem hpw hri hk
    obtain ⟨hr_rs, hpw_rs⟩ := List.pairwise_cons.mp hpw
    obtain ⟨hr, hrc, hru⟩ := hmem r (List.mem_cons_self ..)
    have hrs : ∀ x ∈ rs, x ∈ s.revs ∧ x.comp = cn ∧ x.ctrl = some uid :=
      fun x hx => hmem x (List.mem_cons_of_mem _ hx)
    simp only [renumLoop]
    split
    · -- hash differs: skip
      rename_i hne
      apply ih s ex k w hrs hpw_rs _ hk
      rcases hri with ⟨a1, a2, a3⟩ | ⟨b1, b2, b3⟩
      · refine Or.inl ⟨a1, a2, ?_⟩
        intro x hx hxc hxh
        cases List.mem_cons.mp (a3 x hx hxc hxh) with
        | inl e => exact absurd (e ▸ hxh) hne
        | inr h' => exact h'
      · exact Or.inr ⟨fun x hx => b1 x (List.mem_cons_of_mem _ hx), b2, b3⟩
    · rename_i hh
      have hh : r.hash = h := by
        by_cases e : r.hash = h
        · exact e
        · exact absurd e hh
      -- no other remaining revision carries this hash
      have huniq : ∀ x ∈ rs, x.hash ≠ h := by
        intro x hx e
        obtain ⟨hxm, hxc, _⟩ := hrs x hx
        have := w.name_of_hash hi hxm hr (hxc.trans hrc.symm) (e.trans hh.symm)
        exact hr_rs x hx this.symm
      -- we are necessarily in the phase where nothing matched yet
      have hle : ∀ x ∈ s.revs, x.comp = cn → x.num ≤ latest := by
        rcases hri with ⟨_, a, _⟩ | ⟨b1, _, _⟩
        · exact a
        · exact absurd hh (b1 r (List.mem_cons_self ..))
      split
      · -- already the highest number
        rename_i hnum
        apply ih s r.num k w hrs hpw_rs _ hk
        refine Or.inr ⟨huniq, w.pos r hr, r, hr, hrc, hh, hru, ?_⟩
        intro x hx hxc hxn
        have h1 : x.num ≤ r.num := hnum ▸ hle x hx hxc
        have h2 : x.num ≠ r.num := fun e => hxn (w.nums x hx r hr (hxc.trans hrc.symm) e)
        exact Nat.lt_of_le_of_ne h1 h2
      · -- renumber to latest+1
        rename_i hnum
        let r1 : Rev := { r with num := latest + 1, rv := r.rv + 1 }
        have hex : exec s (.updateRev r { r with num := latest + 1 }) = ({ s with revs := replaceRev r1 s.revs }, .rev r1) :=
          exec_updateRev_present w.names hr rfl
        have hrl : r.num ≤ latest := hle r hr hrc
        have hsame : Same r r1 := ⟨rfl, rfl, rfl, rfl, rfl, Nat.le_succ_of_le hrl⟩
        have hfresh : ∀ x ∈ s.revs, x.comp = r1.comp → x.num = r1.num → x.name = r1.name := by
          intro x hx hc hn
          have : x.num ≤ latest := hle x hx (hc.trans hrc)
          have hn' : x.num = latest + 1 := hn
          omega
        obtain ⟨w1, le1⟩ := update_ok w hr hsame hfresh
        rw [safeP_call, hex]
        refine ⟨w1, le1, ?_, (safeP_ret _ _ _ _ _ _).mpr (habe s), (safeP_ret _ _ _ _ _ _).mpr (habr s)⟩
        have hrs1 : ∀ x ∈ rs, x ∈ ({ s with revs := replaceRev r1 s.revs } : Store).revs ∧ x.comp = cn ∧ x.ctrl = some uid :=
          fun x hx => ⟨mem_replaceRev_of_ne (hrs x hx).1 (fun e => hr_rs x hx e.symm), (hrs x hx).2⟩
        apply ih _ r.num k w1 hrs1 hpw_rs _ hk
        refine Or.inr ⟨huniq, w.pos r hr, r1, mem_replaceRev_self hr rfl, hrc, hh, hru, ?_⟩
        intro x hx hxc hxn
        rcases mem_replaceRev hx with ⟨e, _⟩ | ⟨hx', _⟩
        · exact absurd (e ▸ rfl) hxn
        · have : x.num ≤ latest := hle x hx' hxc
          show x.num < latest + 1
          omega

/-! ### the revision controller -/

/-- what a successful reconcile establishes for the Composition it read: the
revision of its current content exists, is faithful, is controlled by it and has
the strictly highest number among the revisions of that Composition -/
def Good (H : Naming) (c : Comp) (s : Store) : Prop :=
  ∃ r ∈ s.revs, r.comp = c.name ∧ r.hash = H.hash c.content ∧ r.spec = toRevisionSpec c.content.spec ∧
    r.labels = c.content.labels ∧ r.ctrl = some c.uid ∧
    ∀ x ∈ s.revs, x.comp = c.name → x.name ≠ r.name → x.num < r.num

theorem goodH_good {H : Naming} {D : Content → Prop} (hi : H.Inj D) {s : Store} (w : WF H D s) {c : Comp}
    (hD : D c.content) (g : GoodH c.name (H.hash c.content) c.uid s) : Good H c s := by
  obtain ⟨r, hr, hc, hh, hu, hmax⟩ := g
  obtain ⟨c', d', _, h2, h3, h4⟩ := w.faithful r hr
  have : c' = c.content := hi.hash _ _ d' hD (h2 ▸ hh)
  exact ⟨r, hr, hc, hh, this ▸ h3, this ▸ h4, hu, hmax⟩

/-- `Post` of a reconcile: on the fault-free path it returns without error; whenever
it returns without error the current content's revision is the highest -/
@[reducible] def RecPost (H : Naming) (s0 : Store) (name : String) : Bool → Res → Store → Prop :=
  fun b res s' => (b = true → res = .done ∨ res = .created) ∧
    ((res = .done ∨ res = .created) →
      ∀ c, s0.comps.find? (·.name = name) = some c → c.deleting = false → Good H c s')

theorem exec_listRevs_nil (s : Store) (cn : String) :
    exec s (.listRevs [] cn) = (s, .revs (s.revs.filter fun r => decide (r.comp = cn))) := by
  simp [exec, selOK]

theorem mem_of_map_er {l l' : List Rev} (h : l'.map er = l.map er) {x : Rev} (hx : x ∈ l') :
    ∃ y ∈ l, er y = er x := by
  have : er x ∈ l.map er := h ▸ List.mem_map_of_mem hx
  obtain ⟨y, hy, e⟩ := List.mem_map.mp this
  exact ⟨y, hy, e⟩

theorem names_of_map_er {l l' : List Rev} (h : l'.map er = l.map er) : l'.map (·.name) = l.map (·.name) := by
  have := congrArg (List.map (·.name)) h
  have hc : ((fun x : Rev => x.name) ∘ er) = (fun x : Rev => x.name) := rfl
  simpa only [List.map_map, hc] using this

/-- `b = true` additionally needs: no revision of the Composition is controlled by
somebody else (otherwise every reconcile fails by design) -/
theorem reconcile_safe {H : Naming} {D : Content → Prop} (hi : H.Inj D) (name : String) (s : Store) (w : WF H D s)
    (b : Bool)
    (hown : b = true → ∀ c, s.comps.find? (·.name = name) = some c →
      ∀ x ∈ s.revs, x.comp = c.name → x.ctrl = none ∨ x.ctrl = some c.uid) :
    SafeP sem (WF H D) Le (RecPost H s name) b (reconcile H name) s := by
  have habe : ∀ s', RecPost H s name false .err s' :=
    fun _ => ⟨fun h => (by cases h), fun h => (by rcases h with h | h <;> cases h)⟩
  have habr : ∀ s', RecPost H s name false .requeue s' :=
    fun _ => ⟨fun h => (by cases h), fun h => (by rcases h with h | h <;> cases h)⟩
  have err : ∀ s', SafeP sem (WF H D) Le (RecPost H s name) false (.ret .err : P Res) s' :=
    fun s' => (safeP_ret _ _ _ _ _ _).mpr (habe s')
  unfold reconcile
  rw [safeP_call]
  simp only [exec]
  refine ⟨w, Le.refl s, ?_, err s, err s⟩
  cases hfind : s.comps.find? (fun c => decide (c.name = name)) with
  | none =>
    refine (safeP_ret _ _ _ _ _ _).mpr ⟨fun _ => Or.inl rfl, ?_⟩
    intro _ c hc; rw [hfind] at hc; cases hc
  | some c =>
    have hD : D c.content := w.comps c (List.mem_of_find?_eq_some hfind)
    simp only []
    split
    · rename_i hdel
      refine (safeP_ret _ _ _ _ _ _).mpr ⟨fun _ => Or.inl rfl, ?_⟩
      intro _ c' hc' hd
      rw [hfind] at hc'; cases hc'; rw [hdel] at hd; cases hd
    · rw [safeP_call, exec_listRevs_nil]
      refine ⟨w, Le.refl s, ?_, err s, err s⟩
      simp only []
      have hsub : (s.revs.filter fun r => decide (r.comp = c.name)).Sublist s.revs := List.filter_sublist
      apply adopt_safe c.uid habe b _ s _ w (fun r hr => (List.mem_filter.mp hr).1) (w.names.sublist hsub)
      · intro hb r hr
        obtain ⟨hr1, hr2⟩ := List.mem_filter.mp hr
        exact hown hb c hfind r hr1 (by simpa using hr2)
      intro l' s' w' e1 e2 h3 h4
      -- facts about the list the controller now holds
      have hl'comp : ∀ x ∈ l', x.comp = c.name := by
        intro x hx
        obtain ⟨y, hy, e⟩ := mem_of_map_er e2 hx
        have := (List.mem_filter.mp hy).2
        rw [← er_comp e]; simpa using this
      have hl'pw : l'.Pairwise (fun a b => a.name ≠ b.name) :=
        pairwise_names_of_map (names_of_map_er e2) (w.names.sublist hsub)
      have hcover : ∀ x ∈ s'.revs, x.comp = c.name → x ∈ l' := by
        intro x hx hxc
        obtain ⟨y, hy, e⟩ := mem_of_map_er e1 hx
        have hyc : y.comp = c.name := (er_comp e).trans hxc
        have hyl : y ∈ s.revs.filter fun r => decide (r.comp = c.name) :=
          List.mem_filter.mpr ⟨hy, by simpa using hyc⟩
        have : er y ∈ l'.map er := e2 ▸ List.mem_map_of_mem hyl
        obtain ⟨z, hz, ez⟩ := List.mem_map.mp this
        have hzn : z.name = x.name := (er_name ez).trans (er_name e)
        have : z = x := eq_of_name_eq w'.names (h3 z hz).1 hx hzn
        exact this ▸ hz
      have hbound : ∀ x ∈ s'.revs, x.comp = c.name → x.num ≤ latestNum c.uid l' := by
        intro x hx hxc
        have hxl := hcover x hx hxc
        exact latestNum_ge c.uid l' x hxl (h3 x hxl).2
      apply renum_safe hi c.name (H.hash c.content) c.uid (latestNum c.uid l') habe habr b l' s' 0 _ w'
        (fun x hx => ⟨(h3 x hx).1, hl'comp x hx, (h3 x hx).2⟩) hl'pw
        (Or.inl ⟨rfl, hbound, fun x hx hxc _ => hcover x hx hxc⟩)
      intro ex s'' w'' hri
      split
      · -- a matching revision exists
        rename_i hex
        refine (safeP_ret _ _ _ _ _ _).mpr ⟨fun _ => Or.inl rfl, ?_⟩
        intro _ c' hc' _
        rw [hfind] at hc'; cases hc'
        rcases hri with ⟨e0, _⟩ | ⟨_, _, g⟩
        · omega
        · exact goodH_good hi w'' hD g
      · -- none matched: create revision latest+1
        rename_i hex
        obtain ⟨hle, hnomatch⟩ : (∀ x ∈ s''.revs, x.comp = c.name → x.num ≤ latestNum c.uid l') ∧
            (∀ x ∈ s''.revs, x.comp = c.name → x.hash = H.hash c.content → False) := by
          rcases hri with ⟨_, a, a2⟩ | ⟨_, b', _⟩
          · exact ⟨a, fun x hx hc hh => by cases a2 x hx hc hh⟩
          · omega
        -- the name is free: a revision of that name would be the (absent) matching one
        have hname' : ∀ x ∈ s''.revs, x.name ≠ (newRev H c (latestNum c.uid l' + 1)).name := by
          intro x hx e
          obtain ⟨cx, dx, n1, h1, _, _⟩ := w''.faithful x hx
          have e' : H.name x.comp cx = H.name c.name c.content := n1.symm.trans e
          obtain ⟨ec, ecx⟩ := hi.name _ _ _ _ dx hD e'
          exact hnomatch x hx ec (h1.trans (ecx ▸ rfl))
        rw [safeP_call, exec_createRev_absent hname']
        have hf : Faithful H D (newRev H c (latestNum c.uid l' + 1)) := ⟨c.content, hD, rfl, rfl, rfl, rfl⟩
        obtain ⟨w3, le3⟩ := create_ok w'' hf (Nat.succ_le_succ (Nat.zero_le _)) hname'
          (fun x hx hc => by have := hle x hx hc; show x.num ≠ latestNum c.uid l' + 1; omega)
        refine ⟨w3, le3, ?_, err _, err _⟩
        refine (safeP_ret _ _ _ _ _ _).mpr ⟨fun _ => Or.inr rfl, ?_⟩
        intro _ c' hc' _
        rw [hfind] at hc'; cases hc'
        refine ⟨newRev H c (latestNum c.uid l' + 1), mem_insertRev.mpr (Or.inl rfl), rfl, rfl, rfl, rfl, rfl, ?_⟩
        intro x hx hxc hxn
        rcases mem_insertRev.mp hx with e | hx'
        · exact absurd (e ▸ rfl) hxn
        · have := hle x hx' hxc
          show x.num < latestNum c.uid l' + 1
          omega

/-! ### weakening -/

theorem SafeP.mono {S Req Resp α : Type} {sm : Sem S Req Resp} {Inv Inv' : S → Prop} {R R' : S → S → Prop}
    {Post Post' : Bool → α → S → Prop} (hI : ∀ s, Inv s → Inv' s) (hR : ∀ a b, R a b → R' a b)
    (hP : ∀ b a s, Post b a s → Post' b a s) :
    ∀ (p : Prog Req Resp α) (b : Bool) (s : S), SafeP sm Inv R Post b p s → SafeP sm Inv' R' Post' b p s := by
  intro p
  induction p with
  | ret a => intro b s h; exact hP b a s h
  | call r c ih =>
    intro b s h
    obtain ⟨h1, h2, h3, h4, h5⟩ := h
    exact ⟨hI _ h1, hR _ _ h2, ih _ _ _ h3, ih _ _ _ h4, ih _ _ _ h5⟩

/-! ### XR side: `APIRevisionFetcher.Fetch` -/

/-- the revision an XR references in a store -/
def xrRef (s : Store) (n : String) : Option String := (s.xrs.find? (·.name = n)).bind (·.ref)

/-- the label selector as the API server evaluates it (the composition-name key
is always overridden by the fetcher) -/
def effSel (x : XR) : Labels := (fetchSel x).filter (·.1 ≠ Xp.Gen.labelCompositionName)

/-- specification of the non-pinned path: `r` is the highest-numbered revision
controlled by the XR's Composition among those matching the selector, and the XR
references it afterwards -/
def AutoSpec (s : Store) (x : XR) (r : Rev) (s' : Store) : Prop :=
  ∃ c, s.comps.find? (·.name = x.comp) = some c ∧ r ∈ s.revs ∧ r.comp = c.name ∧ r.ctrl = some c.uid ∧
    selOK (effSel x) r = true ∧
    (∀ r' ∈ s.revs, r'.comp = c.name → r'.ctrl = some c.uid → selOK (effSel x) r' = true → r'.num ≤ r.num) ∧
    xrRef s' x.name = some r.name

def FetchPost (s : Store) (n : String) (res : FRes) (s' : Store) : Prop :=
  ∀ r, res = .rev r → ∀ x, s.xrs.find? (·.name = n) = some x →
    match x.policy, x.ref with
    | some .manual, some p => s' = s ∧ s.revs.find? (·.name = p) = some r
    | _, _ => AutoSpec s x r s'

theorem find_name {α : Type} {l : List α} {f : α → String} {n : String} {x : α}
    (h : l.find? (fun y => decide (f y = n)) = some x) : f x = n := by
  have := List.find?_some h; simpa using this

theorem xrRef_setXRRef {xs : List XR} {n ref : String} (h : ∃ x ∈ xs, x.name = n) :
    ((setXRRef n ref xs).find? (fun y => decide (y.name = n))).bind (·.ref) = some ref := by
  induction xs with
  | nil => obtain ⟨x, hx, _⟩ := h; cases hx
  | cons y ys ih =>
    by_cases hy : y.name = n
    · have e : setXRRef n ref (y :: ys) = { y with ref := some ref, rv := y.rv + 1 } :: setXRRef n ref ys := by
        simp [setXRRef, hy]
      rw [e, List.find?_cons_of_pos (by simpa using hy)]
      rfl
    · have : ∃ x ∈ ys, x.name = n := by
        obtain ⟨x, hx, e⟩ := h
        cases List.mem_cons.mp hx with
        | inl e' => exact absurd (e' ▸ e) hy
        | inr hx' => exact ⟨x, hx', e⟩
      have e : setXRRef n ref (y :: ys) = y :: setXRRef n ref ys := by
        simp [setXRRef, hy]
      rw [e, List.find?_cons_of_neg (by simpa using hy)]
      exact ih this

/-- invariant of a fetch: revisions and compositions are never written -/
def FetchInv (s : Store) (s' : Store) : Prop := s'.revs = s.revs ∧ s'.comps = s.comps

theorem fetch_safe (s : Store) (n : String) :
    SafeP sem (FetchInv s) (fun a b => b.revs = a.revs) (fun _ => FetchPost s n) true (fetch n) s := by
  have err : ∀ b s', SafeP sem (FetchInv s) (fun a b => b.revs = a.revs) (fun _ => FetchPost s n) b (.ret .err : P FRes) s' :=
    fun b s' => (safeP_ret _ _ _ _ _ _).mpr (fun r h => by cases h)
  have inv0 : FetchInv s s := ⟨rfl, rfl⟩
  unfold fetch
  rw [safeP_call]
  simp only [exec]
  refine ⟨inv0, (by first | trivial | rfl), ?_, err _ s, err _ s⟩
  cases hx : s.xrs.find? (fun y => decide (y.name = n)) with
  | none => exact err _ s
  | some x =>
    have hxn : x.name = n := find_name (f := XR.name) hx
    simp only []
    split
    · -- Manual with a selected revision: one Get, no write
      rename_i p hpol href
      rw [safeP_call]
      simp only [exec]
      refine ⟨inv0, (by first | trivial | rfl), ?_, err _ s, err _ s⟩
      cases hr : s.revs.find? (fun y => decide (y.name = p)) with
      | none => exact err _ s
      | some r =>
        refine (safeP_ret _ _ _ _ _ _).mpr ?_
        intro r' e x' hx'
        cases e
        rw [hx] at hx'; cases hx'
        simp only [hpol, href]
        exact ⟨by first | trivial | rfl, hr⟩
    · rename_i hnot
      rw [safeP_call]
      simp only [exec]
      refine ⟨inv0, (by first | trivial | rfl), ?_, err _ s, err _ s⟩
      cases hc : s.comps.find? (fun y => decide (y.name = x.comp)) with
      | none => exact err _ s
      | some c =>
        have hcn : c.name = x.comp := find_name (f := Comp.name) hc
        simp only []
        rw [safeP_call]
        simp only [exec]
        refine ⟨inv0, (by first | trivial | rfl), ?_, err _ s, err _ s⟩
        cases hl : latestRev c.uid (s.revs.filter fun r => decide (r.comp = c.name) &&
            selOK ((fetchSel x).filter (·.1 ≠ Xp.Gen.labelCompositionName)) r) with
        | none => simp only []; exact err _ s
        | some r =>
          simp only []
          obtain ⟨hmem, hctrl, hmax⟩ := latestRev_some hl
          obtain ⟨hrs, hrp⟩ := List.mem_filter.mp hmem
          simp only [Bool.and_eq_true, decide_eq_true_eq] at hrp
          -- the specification apart from the XR reference
          have spec : ∀ s', xrRef s' x.name = some r.name → AutoSpec s x r s' := by
            intro s' href
            refine ⟨c, hc, hrs, hrp.1, hctrl, hrp.2, ?_, href⟩
            intro r' hr' hc' hu' hs'
            exact hmax r' (List.mem_filter.mpr ⟨hr', by simp [hc', effSel] at hs' ⊢; exact hs'⟩) hu'
          have post : ∀ s', xrRef s' x.name = some r.name → FetchPost s n (.rev r) s' := by
            intro s' href r' e x' hx'
            cases e
            rw [hx] at hx'; cases hx'
            split
            · rename_i p hp hq; exact absurd hq (hnot p hp)
            · exact spec s' href
          split
          · -- already references the latest revision
            rename_i href
            refine (safeP_ret _ _ _ _ _ _).mpr (post s ?_)
            simp only [xrRef, hxn, hx, Option.bind_some, href]
          · rw [safeP_call]
            simp only [exec, hxn, hx]
            refine ⟨inv0, (by first | trivial | rfl), ?_, err _ s, err _ s⟩
            rw [safeP_call]
            have hfx : s.xrs.find? (fun y => decide (y.name = x.name)) = some x := by rw [hxn]; exact hx
            simp only [exec, hfx, if_true]
            refine ⟨⟨rfl, rfl⟩, (by first | trivial | rfl), ?_, err _ s, err _ s⟩
            refine (safeP_ret _ _ _ _ _ _).mpr (post _ ?_)
            simp only [xrRef, hxn]
            exact xrRef_setXRRef ⟨x, List.mem_of_find?_eq_some hx, hxn⟩

/-- Manual + selected revision: the store never changes, whatever the plan -/
theorem fetch_manual_safe (s : Store) (n : String) (x : XR) (p : String)
    (hx : s.xrs.find? (·.name = n) = some x) (hpol : x.policy = some .manual) (href : x.ref = some p) :
    SafeP sem (fun s' => s' = s) (fun _ _ => True) (fun _ _ _ => True) true (fetch n) s := by
  have err : ∀ (b : Bool) (a : FRes), SafeP sem (fun s' => s' = s) (fun _ _ => True) (fun _ _ _ => True) b (.ret a : P FRes) s :=
    fun b a => (safeP_ret _ _ _ _ _ _).mpr trivial
  unfold fetch
  rw [safeP_call]
  simp only [exec, hx]
  refine ⟨by first | trivial | rfl, trivial, ?_, err _ _, err _ _⟩
  split
  · rw [safeP_call]
    simp only [exec]
    refine ⟨by first | trivial | rfl, trivial, ?_, err _ _, err _ _⟩
    split <;> exact err _ _
  · rename_i hnot
    exact absurd href (hnot p hpol)

/-! ### environment actions and histories -/

theorem WF.of_map_er {H : Naming} {D : Content → Prop} {s s' : Store} (h : s'.revs.map er = s.revs.map er)
    (hc : ∀ c ∈ s'.comps, D c.content) (w : WF H D s) : WF H D s' := by
  have key : ∀ x ∈ s'.revs, ∃ y ∈ s.revs, er y = er x := fun x hx => mem_of_map_er h hx
  refine ⟨hc, pairwise_names_of_map (names_of_map_er h) w.names, ?_, ?_, ?_⟩
  · intro x hx
    obtain ⟨y, hy, e⟩ := key x hx
    obtain ⟨c, dc, a1, a2, a3, a4⟩ := w.faithful y hy
    have e1 := er_name e; have e2 := er_comp e
    have e3 : y.hash = x.hash := er_hash e
    have e4 : y.spec = x.spec := er_spec e
    have e5 : y.labels = x.labels := er_labels e
    exact ⟨c, dc, by rw [← e1, ← e2]; exact a1, by rw [← e3]; exact a2, by rw [← e4]; exact a3, by rw [← e5]; exact a4⟩
  · intro x hx
    obtain ⟨y, hy, e⟩ := key x hx
    rw [← er_num e]; exact w.pos y hy
  · intro x hx x' hx' hc hn
    obtain ⟨y, hy, e⟩ := key x hx
    obtain ⟨y', hy', e'⟩ := key x' hx'
    have := w.nums y hy y' hy' ((er_comp e).trans (hc.trans (er_comp e').symm))
      ((er_num e).trans (hn.trans (er_num e').symm))
    exact (er_name e).symm.trans (this.trans (er_name e'))

theorem Le.of_map_er {s s' : Store} (h : s'.revs.map er = s.revs.map er) : Le s s' := by
  intro r hr
  obtain ⟨y, hy, e⟩ := mem_of_map_er h.symm hr
  exact ⟨y, hy, er_name e, er_comp e, er_hash e, er_spec e, er_labels e,
    Nat.le_of_eq (er_num e).symm⟩

theorem envStep_map_er (s : Store) (e : Ev) : (envStep s e).revs.map er = s.revs.map er := by
  cases e <;> simp only [envStep]
  rename_i names v
  simp only [List.map_map]
  apply List.map_congr_left
  intro x _
  simp only [Function.comp]
  split <;> rfl

/-- an environment action is admissible when the content it gives a Composition
lies in the domain on which the hash is assumed collision-free -/
def EvOK (D : Content → Prop) : Ev → Prop
  | .putComp c => D c.content
  | _ => True

theorem mem_putComp {c x : Comp} {cs : List Comp} (h : x ∈ putComp c cs) : x = c ∨ x ∈ cs := by
  unfold putComp at h
  split at h
  · obtain ⟨y, hy, e⟩ := List.mem_map.mp h
    by_cases hn : y.name = c.name
    · simp only [hn, if_true] at e; exact Or.inl e.symm
    · simp only [hn, if_false] at e; exact Or.inr (e ▸ hy)
  · rcases List.mem_append.mp h with h | h
    · exact Or.inr h
    · simp at h; exact Or.inl h

theorem envStep_comps {D : Content → Prop} {s : Store} (hc : ∀ c ∈ s.comps, D c.content) (e : Ev) (he : EvOK D e) :
    ∀ c ∈ (envStep s e).comps, D c.content := by
  cases e <;> simp only [envStep] <;> try exact hc
  intro x hx
  rcases mem_putComp hx with e | h
  · exact e ▸ he
  · exact hc x h

theorem envStep_ok {H : Naming} {D : Content → Prop} {s : Store} (w : WF H D s) (e : Ev) (he : EvOK D e) :
    WF H D (envStep s e) ∧ Le s (envStep s e) :=
  ⟨WF.of_map_er (envStep_map_er s e) (envStep_comps w.comps e he) w, Le.of_map_er (envStep_map_er s e)⟩

/-- `fetch` as a program that keeps the revision invariants -/
theorem fetch_safe_wf {H : Naming} {D : Content → Prop} (s : Store) (w : WF H D s) (n : String) :
    SafeP sem (WF H D) Le (fun _ _ _ => True) true (fetch n) s :=
  SafeP.mono (fun _ h => WF.of_revs_eq h.1 h.2 w) (fun _ _ h => Le.of_revs_eq h) (fun _ _ _ _ => trivial) _ _ _
    (fetch_safe s n)

/-- used only to exhibit a collision-free naming in `Props/C12.lean` -/
theorem append_inj_of_len (n n' t t' : String) (hl : t.toList.length = t'.toList.length) (h : n ++ t = n' ++ t') :
    n = n' ∧ t = t' := by
  have h1 : (n ++ t).toList = (n' ++ t').toList := by rw [h]
  simp only [String.toList_append] at h1
  have := List.append_inj' h1 hl
  exact ⟨String.toList_inj.mp this.1, String.toList_inj.mp this.2⟩

/-! ### one event, then whole histories -/

theorem reachEv_ok {H : Naming} {D : Content → Prop} (hi : H.Inj D) {s : Store} (w : WF H D s) (e : Ev) (he : EvOK D e) :
    (∀ s' ∈ reachEv H s e, WF H D s' ∧ Le s s' ∧ Le s' (stepEv H s e)) ∧
    (reachEv H s e).Pairwise Le ∧ WF H D (stepEv H s e) ∧ Le s (stepEv H s e) := by
  cases e with
  | reconcile comp plan =>
    have hp := reconcile_safe hi comp s w false (fun h => by cases h)
    have h1 := safeP_reach sem (WF H D) Le _ Le.refl Le.trans plan 0 _ _ s w hp
    have h2 := safeP_reach_final sem (WF H D) Le _ Le.refl Le.trans plan 0 _ _ s w hp
    have h3 := safeP_pairwise sem (WF H D) Le _ Le.refl Le.trans plan 0 _ _ s w hp
    have hf := h1 _ (run_mem_reach sem plan 0 (reconcile H comp) s)
    exact ⟨fun s' hs' => ⟨(h1 s' hs').1, (h1 s' hs').2, h2 s' hs'⟩, h3, hf.1, hf.2⟩
  | fetch xr plan =>
    have hp := fetch_safe_wf (H := H) s w xr
    have h1 := safeP_reach sem (WF H D) Le _ Le.refl Le.trans plan 0 _ _ s w hp
    have h2 := safeP_reach_final sem (WF H D) Le _ Le.refl Le.trans plan 0 _ _ s w hp
    have h3 := safeP_pairwise sem (WF H D) Le _ Le.refl Le.trans plan 0 _ _ s w hp
    have hf := h1 _ (run_mem_reach sem plan 0 (fetch xr) s)
    exact ⟨fun s' hs' => ⟨(h1 s' hs').1, (h1 s' hs').2, h2 s' hs'⟩, h3, hf.1, hf.2⟩
  | putComp c =>
    obtain ⟨w1, l1⟩ := envStep_ok w (.putComp c) he
    refine ⟨?_, ?_, w1, l1⟩
    · intro s' hs'
      simp only [reachEv, List.mem_cons, List.mem_nil_iff, or_false] at hs'
      rcases hs' with e | e
      · subst e; exact ⟨w, Le.refl _, l1⟩
      · subst e; exact ⟨w1, l1, Le.refl _⟩
    · simp only [reachEv]; exact List.pairwise_pair.mpr l1
  | setCtrl names v =>
    obtain ⟨w1, l1⟩ := envStep_ok w (.setCtrl names v) he
    refine ⟨?_, ?_, w1, l1⟩
    · intro s' hs'
      simp only [reachEv, List.mem_cons, List.mem_nil_iff, or_false] at hs'
      rcases hs' with e | e
      · subst e; exact ⟨w, Le.refl _, l1⟩
      · subst e; exact ⟨w1, l1, Le.refl _⟩
    · simp only [reachEv]; exact List.pairwise_pair.mpr l1
  | putXR x =>
    obtain ⟨w1, l1⟩ := envStep_ok w (.putXR x) he
    refine ⟨?_, ?_, w1, l1⟩
    · intro s' hs'
      simp only [reachEv, List.mem_cons, List.mem_nil_iff, or_false] at hs'
      rcases hs' with e | e
      · subst e; exact ⟨w, Le.refl _, l1⟩
      · subst e; exact ⟨w1, l1, Le.refl _⟩
    · simp only [reachEv]; exact List.pairwise_pair.mpr l1

/-- over a whole history: every visible store is well-formed and after the start;
the visible stores are pairwise ordered (earlier `Le` later) -/
theorem reachHist_ok {H : Naming} {D : Content → Prop} (hi : H.Inj D) :
    ∀ (h : List Ev) (s : Store), WF H D s → (∀ e ∈ h, EvOK D e) →
      (∀ s' ∈ reachHist H h s, WF H D s' ∧ Le s s') ∧ (reachHist H h s).Pairwise Le ∧
      WF H D (runHist H h s) := by
  intro h
  induction h with
  | nil =>
    intro s w _
    refine ⟨?_, by simp [reachHist], w⟩
    intro s' hs'; simp [reachHist] at hs'; subst hs'; exact ⟨w, Le.refl _⟩
  | cons e es ih =>
    intro s w hev
    obtain ⟨a1, a2, a3, a4⟩ := reachEv_ok hi w e (hev e (List.mem_cons_self ..))
    obtain ⟨b1, b2, b3⟩ := ih (stepEv H s e) a3 (fun x hx => hev x (List.mem_cons_of_mem _ hx))
    refine ⟨?_, ?_, b3⟩
    · intro s' hs'
      simp only [reachHist, List.mem_append] at hs'
      rcases hs' with h | h
      · exact ⟨(a1 s' h).1, (a1 s' h).2.1⟩
      · exact ⟨(b1 s' h).1, Le.trans _ _ _ a4 (b1 s' h).2⟩
    · simp only [reachHist]
      refine List.pairwise_append.mpr ⟨a2, b2, ?_⟩
      intro x hx y hy
      exact Le.trans _ _ _ (a1 x hx).2.2 (b1 y hy).2


end Xp.C12

import Xp.Model.C08
/-
C08: small concrete worlds used by the non-vacuity examples and by the witness of the
known finding in Xp/Props/C08.lean.
-/
namespace Xp.C08
open Xp.Gen

def mk (k : Key) (uid : Nat) (fins : List String) (del : Bool) : Obj :=
  { key := k, uid := uid, rv := uid, fins := fins, del := del, owners := [], conds := [], paused := false,
    ref := "", of := "", flag := false, inuse := false, pkgs := [] }

def raceWorld : St :=
  { objs := [{ mk ⟨.xrd, "xs.example.org"⟩ 1 [c08DefinedFinalizer, c08OfferedFinalizer] true with ref := "xs.example.org", of := "cs.example.org" },
             { mk ⟨.crd, "xs.example.org"⟩ 2 [] false with owners := [⟨1, true, true⟩] },
             { mk ⟨.claim, "ns/c"⟩ 3 [c08ClaimFinalizer] false with ref := "x" }],
    nextRv := 4, running := [compositeCtrl "xs.example.org"] }

def claimWorld (fg : Bool) : St :=
  { objs := [{ mk ⟨.claim, "ns/c"⟩ 1 [c08ClaimFinalizer] true with ref := "x", flag := fg },
             { mk ⟨.xr, "x"⟩ 2 [c08XRFinalizer] false with ref := "ns/c" }],
    nextRv := 3, running := [] }

/-- a terminating claim whose XR does not exist yet (it is created by the first step of the
witness schedule) -/
def missWorld : St :=
  { objs := [{ mk ⟨.claim, "ns/c"⟩ 1 [c08ClaimFinalizer] true with ref := "x" }],
    nextRv := 2, running := [] }

def xrdWorld : St :=
  { objs := [{ mk ⟨.xrd, "xs.example.org"⟩ 1 [c08DefinedFinalizer] true with ref := "xs.example.org", of := "cs.example.org" },
             { mk ⟨.crd, "xs.example.org"⟩ 2 [] false with owners := [⟨1, true, true⟩] },
             mk ⟨.xr, "x"⟩ 3 [c08XRFinalizer] false],
    nextRv := 4, running := [compositeCtrl "xs.example.org"] }

def revWorld : St :=
  { objs := [mk ⟨.rev, "p1"⟩ 1 [c08RevisionFinalizer] true, { mk lockKey 2 [] false with pkgs := ["p1", "p2"] }],
    nextRv := 3, running := [] }

/-- a revision that is Inactive and skips dependency resolution but is still in the Lock -/
def staleRevWorld : St :=
  { objs := [{ mk ⟨.rev, "p1"⟩ 1 [c08RevisionFinalizer] true with inactive := true, skipDeps := true },
             { mk lockKey 2 [] false with pkgs := ["p1", "p2"] }],
    nextRv := 3, running := [] }

def usageWorld : St :=
  { objs := [{ mk ⟨.usage, "u"⟩ 1 [c08UsageFinalizer] true with ref := "using", of := "used", flag := true },
             mk ⟨.res, "using"⟩ 2 [] false, { mk ⟨.res, "used"⟩ 3 [] false with inuse := true }],
    nextRv := 4, running := [] }

end Xp.C08

import Xp.Model.C10Compose
/-
Helper lemmas for C10: the apply loop of PTComposer.Compose.
-/
namespace Xp.C10

theorem renderAll_length (xr : V) : ∀ (tpls : List Tpl) (rs : List Rendered),
    renderAll xr tpls = some rs → rs.length = tpls.length := by
  intro tpls
  induction tpls with
  | nil => intro rs h; simp only [renderAll, Option.some.injEq] at h; subst h; rfl
  | cons t ts ih =>
    intro rs h
    unfold renderAll at h
    split at h
    · cases h
    · rename_i r _
      cases hra : renderAll xr ts with
      | none => rw [hra] at h; cases h
      | some rs' =>
        rw [hra] at h
        simp only [Option.map_some, Option.some.injEq] at h
        subst h
        simp [ih rs' hra]

theorem renderAll_get (xr : V) : ∀ (tpls : List Tpl) (rs : List Rendered),
    renderAll xr tpls = some rs → ∀ i (h1 : i < tpls.length) (h2 : i < rs.length), renderTpl xr tpls[i] = some rs[i] := by
  intro tpls
  induction tpls with
  | nil => intro rs _ i h1; cases h1
  | cons t ts ih =>
    intro rs h i h1 h2
    unfold renderAll at h
    split at h
    · cases h
    · rename_i r hr
      cases hra : renderAll xr ts with
      | none => rw [hra] at h; cases h
      | some rs' =>
        rw [hra] at h
        simp only [Option.map_some, Option.some.injEq] at h
        subst h
        cases i with
        | zero => simpa using hr
        | succ j =>
          simp only [List.getElem_cons_succ]
          exact ih rs' hra j (by simpa using h1) (by simpa using h2)

/-- every write of the apply loop is addressed to a rendered template -/
theorem applyLoop_writes (l : List (Tpl × Rendered)) : ∀ (i0 : Nat) (w : Write), w ∈ (applyLoop i0 l).1 →
    ∃ j, ∃ h : j < l.length, w.idx = some (i0 + j) ∧ (l[j]).2.rendered = true := by
  induction l with
  | nil => intro i0 w h; simp [applyLoop] at h
  | cons x xs ih =>
    obtain ⟨t, r⟩ := x
    intro i0 w hw
    unfold applyLoop at hw
    split at hw
    · rename_i hnr
      simp only at hw
      obtain ⟨j, hj, h1, h2⟩ := ih (i0 + 1) w hw
      exact ⟨j + 1, by simp; omega, by rw [h1]; congr 1; omega, by simpa using h2⟩
    · rename_i hr
      have hrend : r.rendered = true := by simpa using hr
      have here : ∃ j, ∃ h : j < (((t, r) :: xs)).length,
          (⟨if t.refName == "" then "create" else "patch", some i0⟩ : Write).idx = some (i0 + j) ∧ (((t, r) :: xs)[j]).2.rendered = true :=
        ⟨0, by simp, by simp, by simpa using hrend⟩
      have later : ∀ w, w ∈ (applyLoop (i0 + 1) xs).1 →
          ∃ j, ∃ h : j < (((t, r) :: xs)).length, w.idx = some (i0 + j) ∧ (((t, r) :: xs)[j]).2.rendered = true := by
        intro w hw
        obtain ⟨j, hj, h1, h2⟩ := ih (i0 + 1) w hw
        exact ⟨j + 1, by simp; omega, by rw [h1]; congr 1; omega, by simpa using h2⟩
      split at hw
      · simp at hw
      · dsimp only at hw
        split at hw
        · simp only [List.mem_singleton] at hw
          subst hw
          exact here
        · simp only [List.mem_cons] at hw
          rcases hw with hw | hw
          · subst hw; exact here
          · exact later w hw
        · simp only [List.mem_cons] at hw
          rcases hw with hw | hw
          · subst hw; exact here
          · exact later w hw

/-- everything the apply loop sends is `sentFor` of the rendered template it is sent for -/
theorem applyLoop_sent (l : List (Tpl × Rendered)) : ∀ (i0 : Nat) (s : Sent), s ∈ (applyLoop i0 l).2.1 →
    ∃ j, ∃ h : j < l.length, s.idx = i0 + j ∧ (l[j]).2.rendered = true ∧
      sentFor (l[j]).1 (l[j]).2.cd = .ok (s.body, s.stored) := by
  induction l with
  | nil => intro i0 s h; simp [applyLoop] at h
  | cons x xs ih =>
    obtain ⟨t, r⟩ := x
    intro i0 s hs
    have later : ∀ s, s ∈ (applyLoop (i0 + 1) xs).2.1 →
        ∃ j, ∃ h : j < (((t, r) :: xs)).length, s.idx = i0 + j ∧ (((t, r) :: xs)[j]).2.rendered = true ∧
          sentFor (((t, r) :: xs)[j]).1 (((t, r) :: xs)[j]).2.cd = .ok (s.body, s.stored) := by
      intro s hs
      obtain ⟨j, hj, h1, h2, h3⟩ := ih (i0 + 1) s hs
      exact ⟨j + 1, by simp; omega, by rw [h1]; omega, by simpa using h2, by simpa using h3⟩
    unfold applyLoop at hs
    split at hs
    · simp only at hs
      exact later s hs
    · rename_i hr
      have hrend : r.rendered = true := by simpa using hr
      split at hs
      · simp at hs
      · rename_i b st hsf
        have here : ∀ s : Sent, s = ⟨i0, b, st⟩ →
            ∃ j, ∃ h : j < (((t, r) :: xs)).length, s.idx = i0 + j ∧ (((t, r) :: xs)[j]).2.rendered = true ∧
              sentFor (((t, r) :: xs)[j]).1 (((t, r) :: xs)[j]).2.cd = .ok (s.body, s.stored) := by
          intro s hs
          subst hs
          exact ⟨0, by simp, by simp, by simpa using hrend, by simpa using hsf⟩
        dsimp only at hs
        split at hs
        · simp only [List.mem_singleton] at hs
          exact here s hs
        · simp only [List.mem_cons] at hs
          rcases hs with hs | hs
          · exact here s hs
          · exact later s hs
        · simp only [List.mem_cons] at hs
          rcases hs with hs | hs
          · exact here s hs
          · exact later s hs

/-- if the apply loop does not abort, every rendered template gets a write -/
theorem applyLoop_complete (l : List (Tpl × Rendered)) : ∀ (i0 : Nat), (applyLoop i0 l).2.2.2 = false →
    ∀ j (h : j < l.length), (l[j]).2.rendered = true → ∃ w ∈ (applyLoop i0 l).1, w.idx = some (i0 + j) := by
  induction l with
  | nil => intro i0 _ j h; cases h
  | cons x xs ih =>
    obtain ⟨t, r⟩ := x
    intro i0 hab j hj hr
    unfold applyLoop at hab ⊢
    split
    · rename_i hnr
      rw [if_pos hnr] at hab
      simp only at hab ⊢
      cases j with
      | zero => simp at hr; simp [hr] at hnr
      | succ k =>
        obtain ⟨w, hw, hi⟩ := ih (i0 + 1) hab k (by simpa using hj) (by simpa using hr)
        exact ⟨w, hw, by rw [hi]; congr 1; omega⟩
    · rename_i hnr
      rw [if_neg hnr] at hab
      split
      · rename_i hsf
        rw [hsf] at hab
        simp at hab
      · rename_i b st hsf
        rw [hsf] at hab
        dsimp only at hab ⊢
        split
        · rename_i ho
          rw [ho] at hab
          simp at hab
        · rename_i ho
          rw [ho] at hab
          simp only at hab
          cases j with
          | zero => exact ⟨_, List.mem_cons_self, by simp⟩
          | succ k =>
            obtain ⟨w, hw, hi⟩ := ih (i0 + 1) hab k (by simpa using hj) (by simpa using hr)
            exact ⟨w, List.mem_cons_of_mem _ hw, by rw [hi]; congr 1; omega⟩
        · rename_i ho
          rw [ho] at hab
          simp only at hab
          cases j with
          | zero => exact ⟨_, List.mem_cons_self, by simp⟩
          | succ k =>
            obtain ⟨w, hw, hi⟩ := ih (i0 + 1) hab k (by simpa using hj) (by simpa using hr)
            exact ⟨w, List.mem_cons_of_mem _ hw, by rw [hi]; congr 1; omega⟩

end Xp.C10

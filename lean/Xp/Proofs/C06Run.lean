import Xp.Proofs.C06Ok
/-
C06 helper lemmas, part 3: the scheduled runner used by the correspondence driver
(`runRec`: fault plan + scripted environment actions at call boundaries) only
produces states of the interleaved system `Step`, so every state the driver
observes is covered by the theorems about `Reach`.
-/
namespace Xp.C06

/-! ### the identity of the claim and the kind of world never change -/

theorem delState_me_peers (s : St) (n : Name) (x x1 : XR) : (delState s n x x1).me = s.me ∧ (delState s n x x1).peers = s.peers := by
  unfold delState
  repeat' split
  all_goals exact ⟨rfl, rfl⟩

theorem exec_me_peers (s : St) (r : Req) : (exec s r).1.me = s.me ∧ (exec s r).1.peers = s.peers := by
  cases r <;> simp only [exec] <;> repeat' split
  all_goals first | exact ⟨rfl, rfl⟩ | exact delState_me_peers _ _ _ _

theorem exec_me (s : St) (r : Req) : (exec s r).1.me = s.me := (exec_me_peers s r).1

theorem reach_me_peers {s0 : St} {sys : Sys} (hr : Reach s0 sys) : sys.st.me = s0.me ∧ sys.st.peers = s0.peers := by
  induction hr with
  | init => exact ⟨rfl, rfl⟩
  | step a b _ hstep ih =>
    cases hstep with
    | env s s' t he => exact ⟨(env_me_peers he).1.trans ih.1, (env_me_peers he).2.trans ih.2⟩
    | start s t cfg => exact ih
    | callOk s r k => exact ⟨(exec_me_peers s r).1.trans ih.1, (exec_me_peers s r).2.trans ih.2⟩
    | callErr s r k e he => exact ih
    | callLost s r k e he => exact ⟨(exec_me_peers s r).1.trans ih.1, (exec_me_peers s r).2.trans ih.2⟩
    | done s a => exact ih

theorem reach_me {s0 : St} {sys : Sys} (hr : Reach s0 sys) : sys.st.me = s0.me := (reach_me_peers hr).1

theorem reach_env_fold {s0 : St} (acts : List EnvAct) (s : St) (t : Option P) (h : Reach s0 ⟨s, t⟩)
    (ha : ∀ a ∈ acts, a.adm s0.peers s0.me) : Reach s0 ⟨acts.foldl applyEnv s, t⟩ := by
  induction acts generalizing s with
  | nil => exact h
  | cons a as ih =>
    simp only [List.foldl_cons]
    have hmp := reach_me_peers h
    have hadm : a.adm s.peers s.me := by
      have := ha a List.mem_cons_self
      rw [hmp.1, hmp.2]; exact this
    apply ih _ _ (fun b hb => ha b (List.mem_cons_of_mem _ hb))
    rcases applyEnv_env s a hadm with e | e
    · rw [e]; exact h
    · exact Reach.step _ _ h (Step.env s _ t e)

theorem admissible_fltErr (f : Flt) (r : Req) : admissible r (fltErr f r) = true := by
  cases f with
  | ok => cases r <;> rfl
  | fail => cases r <;> rfl
  | conflict => cases r <;> rfl
  | crashBefore => cases r <;> rfl
  | crashAfter => cases r <;> rfl
  | cls e =>
    simp only [fltErr]
    split
    · assumption
    · cases r <;> rfl
  | lost e =>
    simp only [fltErr]
    split
    · assumption
    · cases r <;> rfl

/-- Every final state of a scheduled run of a program that is in flight in a reachable
system state is itself reachable (the thread being whatever is left of it; a crash is
modelled by the next `start`), for every fault plan — any error class at any call, lost replies,
crashes — and every admissible script of environment actions. -/
theorem runRec_reach {s0 : St} (plan : Nat → Flt) (env : Nat → List EnvAct) (henv : ∀ k, ∀ a ∈ env k, a.adm s0.peers s0.me)
    (k : Nat) (p : P) (s : St)
    (h : Reach s0 ⟨s, some p⟩) : ∃ t, Reach s0 ⟨(runRec plan env k p s).1, t⟩ := by
  induction p generalizing k s with
  | ret a => exact ⟨_, h⟩
  | call r c ih =>
    unfold runRec
    split
    · exact ih _ _ _ (reach_env_fold _ _ _ (Reach.step _ _ h (Step.callOk s r c)) (henv k))
    · exact ⟨_, reach_env_fold _ _ _ h (henv k)⟩
    · exact ⟨_, reach_env_fold _ _ _ (Reach.step _ _ h (Step.callOk s r c)) (henv k)⟩
    · exact ih _ _ _ (reach_env_fold _ _ _ (Reach.step _ _ h (Step.callLost s r c _ (admissible_fltErr _ r))) (henv k))
    · exact ih _ _ _ (reach_env_fold _ _ _ (Reach.step _ _ h (Step.callErr s r c _ (admissible_fltErr _ r))) (henv k))

/-! ### initial stores -/

/-- Admissible initial stores: nothing has happened yet (empty ghost trace), the claim's
version history is well formed (strictly increasing rv, set-once reference, the stored
version is the newest), and an XR already bound to this claim is one the claim
references or referenced. -/
structure Init (s0 : St) : Prop where
  trace : s0.trace = []
  rvLt : ∀ v ∈ s0.hist, v.rv < s0.nextRv
  hist : HistOk s0.hist
  cur : ∀ c, s0.claim = some c → ∃ t, s0.hist = c :: t
  bound : ∀ n, boundAt s0 n → acked s0 n
  /-- every stored version of the claim is the object the reconciler is keyed on -/
  idOk : ∀ v ∈ s0.hist, v.id = s0.me
  xcur : ∀ n, s0.xrs n ∈ s0.xhist n
  xfor : ∀ n, foreignAt s0 n → ∀ ox ∈ s0.xhist n, ∃ x, ox = some x ∧ x.foreignTo s0.me
  /-- resourceVersions of XR states are below the counter and identify the claimRef -/
  xrvLt : ∀ n x, some x ∈ s0.xhist n → x.rv < s0.nextRv
  rvU : ∀ n a b, some a ∈ s0.xhist n → some b ∈ s0.xhist n → a.rv = b.rv → a.cref = b.cref

theorem Init.inv {s0 : St} (h : Init s0) : Inv (acked s0) s0 where
  rvLt := h.rvLt
  mono := h.hist
  cur := h.cur
  bound := h.bound
  ackd := fun _ ha => Or.inr ha
  ackHist := fun n hn => by rw [h.trace] at hn; cases hn
  p0 := fun _ hn => hn
  trace := by rw [h.trace]; trivial
  idOk := h.idOk
  xcur := h.xcur
  xfor := h.xfor
  xrvLt := h.xrvLt
  rvU := h.rvU

/-- The usual start: the claim has a single stored version. -/
theorem Init.single {s0 : St} {c : Claim} (hc : s0.claim = some c) (hh : s0.hist = [c]) (hrv : c.rv < s0.nextRv)
    (ht : s0.trace = []) (hid : c.id = s0.me) (hb : ∀ n, boundAt s0 n → c.refName = some n)
    (hx : ∀ n, s0.xhist n = [s0.xrs n]) (hxrv : ∀ n x, s0.xrs n = some x → x.rv < s0.nextRv) : Init s0 where
  trace := ht
  rvLt := fun v hv => by rw [hh] at hv; simp at hv; subst hv; exact hrv
  hist := by rw [hh]; exact List.pairwise_singleton _ _
  cur := fun c' hc' => by rw [hc] at hc'; cases hc'; exact ⟨[], hh⟩
  bound := fun n hn => ⟨c, by rw [hh]; simp, hb n hn⟩
  idOk := fun v hv => by rw [hh] at hv; simp at hv; subst hv; exact hid
  xcur := fun n => by rw [hx n]; simp
  xfor := fun n ⟨_, x, hxn, hc⟩ ox hox => by
    rw [hx n] at hox; simp at hox; subst hox; exact ⟨x, hxn, hc⟩
  xrvLt := fun n x hm => by
    rw [hx n] at hm; simp at hm; exact hxrv n x hm.symm
  rvU := fun n a b ha hb _ => by
    rw [hx n] at ha hb; simp at ha hb; rw [← ha] at hb; cases hb; rfl

theorem refName_of_ref {c : Claim} {r : XRef} (h : c.ref = some r) : c.refName = some r.name := by
  rw [Claim.refName, h]; rfl

/-! ### counting bound XRs -/

def isBound (s : St) (n : Name) : Bool :=
  match s.xrs n with
  | some x => x.cref == some s.me
  | none => false

theorem isBound_iff (s : St) (n : Name) : isBound s n = true ↔ boundAt s n := by
  unfold isBound boundAt
  cases h : s.xrs n with
  | none => simp
  | some x => simp

/-! ### helper to build example executions -/

def stepOk : Sys → Sys
  | ⟨s, some (.call r k)⟩ => ⟨(exec s r).1, some (k (exec s r).2)⟩
  | sys => sys

theorem stepOk_reach {s0 : St} {sys : Sys} (h : Reach s0 sys) : Reach s0 (stepOk sys) := by
  obtain ⟨s, t⟩ := sys
  cases t with
  | none => exact h
  | some p =>
    cases p with
    | ret a => exact h
    | call r k => exact Reach.step _ _ h (Step.callOk s r k)

end Xp.C06

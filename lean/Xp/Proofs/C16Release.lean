import Xp.Proofs.C16Establish
/-
C16: master invariant of ReleaseObjects.
-/
namespace Xp.C16

/-- what ReleaseObjects of parent `p` may do to an object -/
structure QR (p : Parent) (o o' : Obj) : Prop where
  key : o'.key = o.key
  body : o'.body = o.body
  /-- no owner entry is dropped: Kubernetes GC has no reason to collect the object -/
  uids : ∀ u, hasUid o.owners u → hasUid o'.owners u
  /-- nobody becomes controller -/
  ctrls : ∀ u, ctrl o'.owners u → ctrl o.owners u
  /-- the parent is (still) an owner … -/
  mine : hasUid o'.owners p.uid
  /-- … but its (first) entry is no controller reference any more -/
  released : ∀ r, o'.owners.find? (fun r => r.uid = p.uid) = some r → r.isCtrl = false

theorem QR.trans (p : Parent) (a b c : Obj) (h1 : QR p a b) (h2 : QR p b c) : QR p a c where
  key := h2.key.trans h1.key
  body := h2.body.trans h1.body
  uids := fun u h => h2.uids u (h1.uids u h)
  ctrls := fun u h => h1.ctrls u (h2.ctrls u h)
  mine := h2.mine
  released := h2.released

theorem hasUid_flipFirst (l : List ORef) (u v : Nat) (h : hasUid l v) : hasUid (flipFirst l u) v := by
  induction l with
  | nil => exact h
  | cons x xs ih =>
    obtain ⟨r, hr, hv⟩ := h
    unfold flipFirst
    split
    · rcases List.mem_cons.mp hr with e | e
      · subst e; exact ⟨_, List.mem_cons_self, hv⟩
      · exact ⟨r, List.mem_cons_of_mem _ e, hv⟩
    · rcases List.mem_cons.mp hr with e | e
      · subst e; exact ⟨r, List.mem_cons_self, hv⟩
      · obtain ⟨r', hr', hv'⟩ := ih ⟨r, e, hv⟩
        exact ⟨r', List.mem_cons_of_mem _ hr', hv'⟩

theorem ctrl_flipFirst (l : List ORef) (u v : Nat) (h : ctrl (flipFirst l u) v) : ctrl l v := by
  induction l with
  | nil => exact h
  | cons x xs ih =>
    obtain ⟨r, hr, hv, hc⟩ := h
    unfold flipFirst at hr
    split at hr
    · rcases List.mem_cons.mp hr with e | e
      · subst e; simp [ORef.isCtrl] at hc
      · exact ⟨r, List.mem_cons_of_mem _ e, hv, hc⟩
    · rcases List.mem_cons.mp hr with e | e
      · subst e; exact ⟨r, List.mem_cons_self, hv, hc⟩
      · obtain ⟨r', hr', hv', hc'⟩ := ih ⟨r, e, hv, hc⟩
        exact ⟨r', List.mem_cons_of_mem _ hr', hv', hc'⟩

theorem find_flipFirst (l : List ORef) (u : Nat) (r : ORef)
    (h : (flipFirst l u).find? (fun r => r.uid = u) = some r) : r.isCtrl = false := by
  induction l with
  | nil => simp [flipFirst] at h
  | cons x xs ih =>
    unfold flipFirst at h
    split at h
    · rename_i hx
      simp [List.find?, hx] at h
      subst h
      rfl
    · rename_i hx
      simp only [List.find?, hx, decide_false] at h
      exact ih h

theorem releaseSub_QR (p : Parent) (cur sub : Obj) (n : Nat) (h : releaseSub p cur = some sub) :
    QR p cur { sub with rv := n } := by
  unfold releaseSub at h
  split at h
  · rename_i r hr
    split at h
    · simp only [Option.some.injEq] at h
      subst h
      have hmem := List.mem_of_find?_eq_some hr
      have huid : r.uid = p.uid := by simpa using List.find?_some hr
      exact ⟨rfl, rfl, fun u hu => hasUid_flipFirst _ _ _ hu, fun u hu => ctrl_flipFirst _ _ _ hu,
        hasUid_flipFirst _ _ _ ⟨r, hmem, huid⟩, fun r' hr' => find_flipFirst _ _ r' hr'⟩
    · cases h
  · rename_i hnone
    simp only [Option.some.injEq] at h
    subst h
    refine ⟨rfl, rfl, ?_, ?_, ⟨asOwner p, by simp, rfl⟩, ?_⟩
    · intro u ⟨r, hr, hu⟩
      exact ⟨r, List.mem_append_left _ hr, hu⟩
    · intro u ⟨r, hr, hu, hc⟩
      rcases List.mem_append.mp hr with e | e
      · exact ⟨r, e, hu, hc⟩
      · simp at e; subst e; cases hc
    · intro r hr
      simp only [List.find?_append, hnone, Option.none_or] at hr
      simp [List.find?, asOwner] at hr
      subst hr
      rfl

theorem releaseSub_key (p : Parent) (cur sub : Obj) (h : releaseSub p cur = some sub) :
    sub.key = cur.key ∧ sub.rv = cur.rv := by
  unfold releaseSub at h
  split at h
  · split at h
    · simp only [Option.some.injEq] at h; subst h; exact ⟨rfl, rfl⟩
    · cases h
  · simp only [Option.some.injEq] at h; subst h; exact ⟨rfl, rfl⟩

/-- the invariant carried through ReleaseObjects -/
structure RInv (p : Parent) (s₀ s : Store) : Prop where
  wf : WF s
  ev : Evolves (QR p) (fun _ => False) s₀.objs s.objs

theorem RInv.refl (p : Parent) (s : Store) (hw : WF s) : RInv p s s := ⟨hw, Evolves.refl _ _ _⟩

theorem releaseOne_inv (rejects : Obj → Bool) (fault : Fault) (p : Parent) (ran : Nat → Bool)
    (s₀ s : Store) (i : Nat) (ref : Ref) (hi : RInv p s₀ s) :
    RInv p s₀ (releaseOne rejects fault p ran s i ref).1 := by
  unfold releaseOne
  split
  · exact hi
  · split
    · exact hi
    · split <;> try exact hi
      split
      · exact hi
      · rename_i cur hget
        split
        · exact hi
        · rename_i sub hsub
          rw [liftW_fst]
          have he := apiUpdate_effect rejects false (fault i .real) s sub
          have ⟨hsk, _⟩ := releaseSub_key p cur sub hsub
          have hck := get_key s _ cur hget
          refine ⟨effect_wf s _ sub he.toEffect hi.wf, ?_⟩
          refine Evolves.trans (QR.trans p) (fun a b h _ => h) hi.ev (ueffect_evolves _ _ s _ sub he hi.wf ?_)
          intro c hc _ _
          rw [hsk, hck, hget] at hc
          cases hc
          exact releaseSub_QR p cur sub s.nextRv hsub

theorem releaseAll_inv (rejects : Obj → Bool) (fault : Fault) (p : Parent) (ran : Nat → Bool)
    (s₀ s : Store) (xs : List (Nat × Ref)) (hi : RInv p s₀ s) :
    RInv p s₀ (releaseAll rejects fault p ran s xs).1 := by
  induction xs generalizing s with
  | nil => exact hi
  | cons x rest ih =>
    obtain ⟨i, k⟩ := x
    have h1 := releaseOne_inv rejects fault p ran s₀ s i k hi
    unfold releaseAll
    split <;> rename_i s1 _ heq <;> (rw [heq] at h1; simp only at h1)
    · exact h1
    · have h2 := ih s1 h1
      split <;> rename_i s2 _ heq2 <;> (rw [heq2] at h2; exact h2)
    · exact ih s1 h1

/-- Master invariant of ReleaseObjects, for every fault plan and every set of goroutines that ran. -/
theorem release_inv (rejects : Obj → Bool) (fault : Fault) (p : Parent) (ran : Nat → Bool)
    (s : Store) (refs : List Ref) (order : List Nat) (hw : WF s) :
    RInv p s (release rejects fault p ran s refs order).1 :=
  releaseAll_inv rejects fault p ran s s _ (RInv.refl p s hw)

end Xp.C16

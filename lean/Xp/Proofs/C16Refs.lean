import Xp.Proofs.C16Interf
/-
C16: `status.objectRefs` and deactivation.

`ReleaseObjects` and the inactive shortcut of the reconciler trust
`status.objectRefs` to list everything the revision controls. This file proves
 * the list is only ever replaced by a *successful* Establish, and only the
   reconciled revision's own list changes;
 * Establish writes objects of the package only;
 * hence "everything the revision controls is listed, and the whole package is
   listed" (`Stable`) survives failed reconciles of the revision, reconciles of other
   revisions and its own inactive reconciles;
 * and a successful inactive reconcile of a revision whose controlled objects are
   all listed leaves it controller of nothing.
-/
namespace Xp.C16

/-! ### `status.objectRefs` is replaced on success only -/

theorem establishAndRecordI_refs (sys : Sys) (s : Store) (r : Rev) (e : Env) (tp : Interf) :
    ((establishAndRecordI sys s r e tp).2 ≠ .ok () → (establishAndRecordI sys s r e tp).1.refs = sys.refs) ∧
    ∀ v, v ≠ r.parent.uid → (establishAndRecordI sys s r e tp).1.refs v = sys.refs v := by
  unfold establishAndRecordI
  split
  · exact ⟨fun h => absurd rfl h, fun v hv => by simp [setRefs, hv]⟩
  · exact ⟨fun _ => rfl, fun _ _ => rfl⟩
  · exact ⟨fun _ => rfl, fun _ _ => rfl⟩

theorem reconcileRevI_refs (sys : Sys) (r : Rev) (e : Env) (tp : Interf) :
    ((reconcileRevI sys r e tp).2 ≠ .ok () → (reconcileRevI sys r e tp).1.refs = sys.refs) ∧
    ∀ v, v ≠ r.parent.uid → (reconcileRevI sys r e tp).1.refs v = sys.refs v := by
  unfold reconcileRevI
  split
  · exact establishAndRecordI_refs sys sys.store r e tp
  · split
    · split
      · exact ⟨fun _ => rfl, fun _ _ => rfl⟩
      · exact establishAndRecordI_refs sys _ r e tp
    · exact ⟨fun _ => rfl, fun _ _ => rfl⟩
    · exact ⟨fun _ => rfl, fun _ _ => rfl⟩

/-- an inactive revision whose list is not empty keeps its list, whatever the outcome -/
theorem reconcileRevI_refs_inactive (sys : Sys) (r : Rev) (e : Env) (tp : Interf) (hr : r.active = false)
    (hn : (sys.refs r.parent.uid).length > 0) : (reconcileRevI sys r e tp).1.refs = sys.refs := by
  unfold reconcileRevI
  simp only [hr, Bool.false_eq_true, if_false]
  split
  · simp only [hn, if_true]
  · rfl
  · rfl

/-! ### Establish writes objects of the package only -/

theorem effect_keys (s s' : Store) (o : Obj) (h : Effect s s' o) :
    ∀ o' ∈ s'.objs, o' ∈ s.objs ∨ o'.key = o.key := by
  intro o' ho'
  cases h with
  | nothing h1 _ => rw [h1] at ho'; exact Or.inl ho'
  | created _ _ h3 _ =>
    rw [h3] at ho'
    rcases List.mem_append.mp ho' with h | h
    · exact Or.inl h
    · simp only [List.mem_singleton] at h
      subst h
      exact Or.inr rfl
  | replaced c _ _ _ h4 _ =>
    rw [h4] at ho'
    obtain ⟨x, hx, hx'⟩ := List.mem_map.mp ho'
    split at hx'
    · subst hx'; exact Or.inr rfl
    · subst hx'; exact Or.inl hx

theorem establishOne_keys (rejects : Obj → Bool) (fault : Fault) (p : Parent) (control : Bool)
    (s₀ s : Store) (i : Nat) (cd : CD) (hcd : CDInv s₀ cd) :
    ∀ o' ∈ (establishOne rejects fault p control s i cd).1.objs, o' ∈ s.objs ∨ o'.key = cd.desired.key := by
  unfold establishOne
  split
  · split
    · rw [liftW_fst]
      intro o' ho'
      rcases effect_keys _ _ _ (apiCreate_effect _ _ _ _ _).toEffect o' ho' with h | h
      · exact Or.inl h
      · exact Or.inr h
    · exact fun _ h => Or.inl h
  · rename_i cur hcur
    split
    · exact fun _ h => Or.inl h
    · rename_i sub hsub
      rw [liftW_fst]
      have ⟨hsk, _⟩ := updateSub_key p control cur cd.desired sub hsub
      have hck := cdinv_key s₀ cd hcd cur hcur
      have hkey : sub.key = cd.desired.key := by
        rw [hsk]; cases control <;> simp [hck]
      intro o' ho'
      rcases effect_keys _ _ _ (apiUpdate_effect _ _ _ _ _).toEffect o' ho' with h | h
      · exact Or.inl h
      · exact Or.inr (h.trans hkey)

theorem establishAll_keys (rejects : Obj → Bool) (fault : Fault) (p : Parent) (control : Bool)
    (s₀ s : Store) (ys : List (Nat × CD)) (hcd : ∀ y ∈ ys, CDInv s₀ y.2) :
    ∀ o' ∈ (establishAll rejects fault p control s ys).1.objs,
      o' ∈ s.objs ∨ ∃ y ∈ ys, o'.key = y.2.desired.key := by
  induction ys generalizing s with
  | nil => exact fun _ h => Or.inl h
  | cons y rest ih =>
    obtain ⟨i, cd⟩ := y
    have h1 := establishOne_keys rejects fault p control s₀ s i cd (hcd (i, cd) List.mem_cons_self)
    have hrest : ∀ y ∈ rest, CDInv s₀ y.2 := fun y hy => hcd y (List.mem_cons_of_mem _ hy)
    have lift : ∀ s1 : Store, (∀ o' ∈ s1.objs, o' ∈ s.objs ∨ o'.key = cd.desired.key) →
        ∀ s2 : Store, (∀ o' ∈ s2.objs, o' ∈ s1.objs ∨ ∃ y ∈ rest, o'.key = y.2.desired.key) →
        ∀ o' ∈ s2.objs, o' ∈ s.objs ∨ ∃ y ∈ (i, cd) :: rest, o'.key = y.2.desired.key := by
      intro s1 a s2 b o' ho'
      rcases b o' ho' with h | ⟨y, hy, hk⟩
      · rcases a o' h with h | h
        · exact Or.inl h
        · exact Or.inr ⟨(i, cd), List.mem_cons_self, h⟩
      · exact Or.inr ⟨y, List.mem_cons_of_mem _ hy, hk⟩
    unfold establishAll
    split <;> rename_i s1 _ heq <;> (rw [heq] at h1; simp only at h1)
    · exact lift _ h1 _ (fun _ h => Or.inl h)
    · have h2 := ih s1 hrest
      split <;> rename_i s2 _ heq2 <;> (rw [heq2] at h2; exact lift _ h1 _ h2)
    · have h2 := ih s1 hrest
      split <;> rename_i s2 _ heq2 <;> (rw [heq2] at h2; exact lift _ h1 _ h2)

/-- Whatever Establish creates or modifies is an object of the package. -/
theorem establish_keys (rejects : Obj → Bool) (fault : Fault) (p : Parent) (control : Bool)
    (s : Store) (objs : List Desired) (vorder eorder : List Nat) :
    ∀ o' ∈ (establish rejects fault p control s objs vorder eorder).1.objs,
      o' ∈ s.objs ∨ ∃ d ∈ objs, d.key = o'.key := by
  unfold establish
  split
  · exact fun _ h => Or.inl h
  · exact fun _ h => Or.inl h
  · unfold establishCore
    have h1 := validateAll_store rejects fault p control s (pick objs vorder)
    split
    · rename_i s1 cds heq
      rw [heq] at h1; simp only at h1; subst h1
      have hcds := validateAll_cdinv rejects fault p control s1 _ cds (by rw [heq])
      have hshape := (validateAll_shape rejects fault p control s1 _ cds (by rw [heq])).2
      intro o' ho'
      rcases establishAll_keys rejects fault p control s1 s1 _
        (fun y hy => hcds y (mem_pickCD cds eorder y hy)) o' ho' with h | ⟨y, hy, hk⟩
      · exact Or.inl h
      · obtain ⟨d, hd, hdk, _⟩ := hshape y (mem_pickCD cds eorder y hy)
        have := (pick_mem objs vorder y.1 d hd).1
        exact Or.inr ⟨d, List.mem_of_getElem? this, (hk.trans hdk).symm⟩
    · rename_i s1 _ heq
      rw [heq] at h1; simp only at h1; subst h1
      exact fun _ h => Or.inl h
    · rename_i s1 heq
      rw [heq] at h1; simp only at h1; subst h1
      exact fun _ h => Or.inl h

/-! ### releasing what is listed -/

/-- everything revision `u` controls is listed in its `status.objectRefs` -/
def Listed (sys : Sys) (u : Nat) : Prop :=
  ∀ o ∈ sys.store.objs, ctrl o.owners u → ∃ k ∈ sys.refs u, k.key = o.key

/-- `u`'s owner entry on `o` (the first one carrying its uid, as `ReleaseObjects` and
`meta.AddOwnerReference` look it up), if any, is not a controller reference -/
def NotCtrlBy (o : Obj) (u : Nat) : Prop :=
  ∀ x, o.owners.find? (fun r => r.uid = u) = some x → x.isCtrl = false

theorem notCtrlBy_of_not_ctrl (o : Obj) (u : Nat) (h : ¬ ctrl o.owners u) : NotCtrlBy o u := by
  intro x hx
  cases hc : x.isCtrl with
  | false => rfl
  | true =>
    exact absurd ⟨x, List.mem_of_find?_eq_some hx, by simpa using List.find?_some hx, hc⟩ h

theorem release_ctrl_back (rejects : Obj → Bool) (fault : Fault) (p : Parent) (ran : Nat → Bool)
    (s : Store) (refs : List Ref) (order : List Nat) (hw : WF s) (u : Nat) :
    ∀ o' ∈ (release rejects fault p ran s refs order).1.objs, ctrl o'.owners u →
      ∃ o ∈ s.objs, o.key = o'.key ∧ ctrl o.owners u := by
  intro o' ho' hc
  rcases (release_inv rejects fault p ran s refs order hw).ev.bwd o' ho' with ⟨o, ho, hk, hr⟩ | ⟨_, hf⟩
  · rcases hr with e | q
    · subst e; exact ⟨o', ho, rfl, hc⟩
    · exact ⟨o, ho, hk, q.ctrls u hc⟩
  · exact hf.elim

/-- A successful inactive reconcile of a revision whose controlled objects are all listed
leaves it controller of nothing (third-party puts aside). -/
theorem reconcileRevI_released (sys sys' : Sys) (r : Rev) (e : Env) (tp : Interf) (hw : WF sys.store)
    (hr : r.active = false) (hl : Listed sys r.parent.uid)
    (ho : ∀ j, j < (sys.refs r.parent.uid).length → j ∈ e.rorder)
    (h : reconcileRevI sys r e tp = (sys', .ok ())) :
    ∀ o' ∈ sys'.store.objs, PutBy tp.Puts o' ∨ NotCtrlBy o' r.parent.uid := by
  obtain ⟨p, active, objs⟩ := r
  simp only at hr hl ho
  subst hr
  unfold reconcileRevI at h
  simp only [Bool.false_eq_true, if_false] at h
  split at h
  · rename_i s1 heq
    have hback := release_ctrl_back e.rejects e.fault p e.ran sys.store (sys.refs p.uid) e.rorder hw p.uid
    rw [heq] at hback
    simp only at hback
    split at h
    · -- the list is not empty: ReleaseObjects succeeded over all of it
      simp only [Prod.mk.injEq, and_true] at h
      subst h
      intro o' ho'
      refine Or.inr ?_
      by_cases hc : ctrl o'.owners p.uid
      · obtain ⟨o, hom, hk, hco⟩ := hback o' ho' hc
        obtain ⟨k, hkm, hkk⟩ := hl o hom hco
        obtain ⟨j, hj, hjk⟩ := List.getElem_of_mem hkm
        have hget : (sys.refs p.uid)[j]? = some k := by rw [List.getElem?_eq_getElem hj, hjk]
        have := release_ok e.rejects e.fault p e.ran sys.store s1 (sys.refs p.uid) e.rorder hw heq j k hget (ho j hj)
        exact (this o' ho' (hk.symm.trans hkk.symm)).2
      · exact notCtrlBy_of_not_ctrl o' p.uid hc
    · -- the list is empty: the revision controls nothing, and Establish(control=false) adds no controller
      rename_i hlen
      have hnil : sys.refs p.uid = [] := by
        cases hrefs : sys.refs p.uid with
        | nil => rfl
        | cons a l => rw [hrefs] at hlen; simp at hlen
      have hnone : ∀ o ∈ s1.objs, ¬ ctrl o.owners p.uid := by
        intro o hom hc
        obtain ⟨o0, ho0, _, hc0⟩ := hback o hom hc
        obtain ⟨k, hkm, _⟩ := hl o0 ho0 hc0
        rw [hnil] at hkm
        cases hkm
      have hw1 : WF s1 := by
        have := (release_inv e.rejects e.fault p e.ran sys.store (sys.refs p.uid) e.rorder hw).wf
        rw [heq] at this
        exact this
      have hst := establishAndRecordI_store sys s1 ⟨p, false, objs⟩ e tp
      rw [h] at hst
      simp only at hst
      intro o' ho'
      rw [hst] at ho'
      cases (establishI_inv e.rejects e.fault tp p false s1 objs e.vorder e.eorder hw1).objs o' ho' with
      | same hs => exact Or.inr (notCtrlBy_of_not_ctrl o' p.uid (hnone o' hs))
      | rewritten o hom hk q =>
        refine Or.inr (notCtrlBy_of_not_ctrl o' p.uid fun hc => ?_)
        rcases q.ctrls p.uid hc with h1 | ⟨h1, _⟩
        · exact hnone o hom h1
        · cases h1
      | created c => exact absurd c.active (by simp)
      | third t => exact Or.inl t
  · simp at h
  · simp at h

/-! ### `Stable`: what a healthy revision has, and what keeps it -/

/-- everything `u` controls is listed, and every object of its package (keys `K`) is listed -/
structure Stable (sys : Sys) (u : Nat) (K : String → Prop) : Prop where
  listed : Listed sys u
  whole : ∀ key, K key → ∃ k ∈ sys.refs u, k.key = key

/-- where a controller reference after one reconcile comes from -/
theorem reconcileRev_ctrl_back (sys : Sys) (r : Rev) (e : Env) (hw : WF sys.store) (u : Nat)
    (hu : r.active = true → r.parent.uid ≠ u) :
    ∀ o' ∈ (reconcileRev sys r e).1.store.objs, ctrl o'.owners u →
      ∃ o ∈ sys.store.objs, o.key = o'.key ∧ ctrl o.owners u := by
  intro o' ho' hc
  have h := (reconcileRev_hinv sys r e hw (fun v => v = r.parent.uid ∧ r.active = true) (fun ha => ⟨rfl, ha⟩)).ev
  rcases h.bwd o' ho' with ⟨o, hom, hk, hq⟩ | ⟨_, hch⟩
  · rcases hq with e1 | q
    · subst e1; exact ⟨o', hom, rfl, hc⟩
    · rcases q.ctrls u hc with h1 | ⟨h1, h2⟩
      · exact ⟨o, hom, hk, h1⟩
      · exact absurd h1.symm (hu h2)
  · obtain ⟨h1, h2⟩ := hch.ctrls u hc
    exact absurd h1.symm (hu h2)

theorem stable_other (sys : Sys) (r : Rev) (e : Env) (hw : WF sys.store) (u : Nat) (K : String → Prop)
    (hs : Stable sys u K) (hne : r.parent.uid ≠ u) : Stable (reconcileRev sys r e).1 u K := by
  -- another revision: `u`'s list is untouched, and nobody but an active parent becomes controller
  have hrefs := reconcileRevI_refs sys r e Interf.none
  rw [reconcileRevI_none] at hrefs
  have hsame : (reconcileRev sys r e).1.refs u = sys.refs u := hrefs.2 u (Ne.symm hne)
  refine ⟨fun o' ho' hc => ?_, fun key hk => by rw [hsame]; exact hs.whole key hk⟩
  obtain ⟨o, hom, hk, hco⟩ := reconcileRev_ctrl_back sys r e hw u (fun _ => hne) o' ho' hc
  obtain ⟨k, hkm, hkk⟩ := hs.listed o hom hco
  exact ⟨k, by rw [hsame]; exact hkm, hkk.trans hk⟩

theorem stable_inactive (sys : Sys) (r : Rev) (e : Env) (hw : WF sys.store) (K : String → Prop)
    (hs : Stable sys r.parent.uid K) (hina : r.active = false) : Stable (reconcileRev sys r e).1 r.parent.uid K := by
  have hback := reconcileRev_ctrl_back sys r e hw r.parent.uid (fun ha => by rw [hina] at ha; cases ha)
  by_cases hlen : (sys.refs r.parent.uid).length > 0
  · have hsame := reconcileRevI_refs_inactive sys r e Interf.none hina hlen
    rw [reconcileRevI_none] at hsame
    refine ⟨fun o' ho' hc => ?_, fun key hk => by rw [hsame]; exact hs.whole key hk⟩
    obtain ⟨o, hom, hk, hco⟩ := hback o' ho' hc
    obtain ⟨k, hkm, hkk⟩ := hs.listed o hom hco
    exact ⟨k, by rw [hsame]; exact hkm, hkk.trans hk⟩
  · -- an empty list: nothing is controlled, nothing is in `K`
    have hnil : sys.refs r.parent.uid = [] := by
      cases hrefs' : sys.refs r.parent.uid with
      | nil => rfl
      | cons a l => rw [hrefs'] at hlen; simp at hlen
    refine ⟨fun o' ho' hc => ?_, fun key hk => ?_⟩
    · obtain ⟨o, hom, _, hco⟩ := hback o' ho' hc
      obtain ⟨k, hkm, _⟩ := hs.listed o hom hco
      rw [hnil] at hkm
      cases hkm
    · obtain ⟨k, hkm, _⟩ := hs.whole key hk
      rw [hnil] at hkm
      cases hkm

/-- a FAILED active reconcile of `u` over a package within `K`: the list is kept, and whatever
the revision newly controls is an object of its package, which is listed -/
theorem stable_failed (sys : Sys) (r : Rev) (e : Env) (K : String → Prop)
    (hs : Stable sys r.parent.uid K) (hact : r.active = true) (hK : ∀ d ∈ r.objs, K d.key)
    (hfail : (reconcileRev sys r e).2 ≠ .ok ()) : Stable (reconcileRev sys r e).1 r.parent.uid K := by
  have hrefs := reconcileRevI_refs sys r e Interf.none
  rw [reconcileRevI_none] at hrefs
  have hsame : (reconcileRev sys r e).1.refs = sys.refs := hrefs.1 hfail
  refine ⟨fun o' ho' hc => ?_, fun key hk => by rw [hsame]; exact hs.whole key hk⟩
  have hst : (reconcileRev sys r e).1.store =
      (establish e.rejects e.fault r.parent r.active sys.store r.objs e.vorder e.eorder).1 := by
    unfold reconcileRev
    rw [if_pos hact]
    exact establishAndRecord_store sys sys.store r e
  rw [hst] at ho'
  rw [hsame]
  rcases establish_keys e.rejects e.fault r.parent r.active sys.store r.objs e.vorder e.eorder o' ho' with h1 | ⟨d, hd, hdk⟩
  · exact hs.listed o' h1 hc
  · obtain ⟨k, hkm, hkk⟩ := hs.whole d.key (hK d hd)
    exact ⟨k, hkm, hkk.trans hdk⟩

/-- what a step of a history may be without endangering `Stable sys u K`: a reconcile of another
revision, an inactive reconcile, or a FAILED reconcile of `u` over a package within `K` -/
def BenignStep (sys : Sys) (u : Nat) (K : String → Prop) (r : Rev) (e : Env) : Prop :=
  r.parent.uid ≠ u ∨ r.active = false ∨ ((∀ d ∈ r.objs, K d.key) ∧ (reconcileRev sys r e).2 ≠ .ok ())

theorem stable_step (sys : Sys) (r : Rev) (e : Env) (hw : WF sys.store) (u : Nat) (K : String → Prop)
    (hs : Stable sys u K) (hb : BenignStep sys u K r e) : Stable (reconcileRev sys r e).1 u K := by
  by_cases hne : r.parent.uid = u
  · subst hne
    rcases hb with h | h | ⟨hK, hfail⟩
    · exact absurd rfl h
    · exact stable_inactive sys r e hw K hs h
    · cases hact : r.active with
      | true => exact stable_failed sys r e K hs hact hK hfail
      | false => exact stable_inactive sys r e hw K hs hact
  · exact stable_other sys r e hw u K hs hne

/-- every step of the history, at the state it meets, is benign -/
def Benign (u : Nat) (K : String → Prop) : Sys → List (Rev × Env) → Prop
  | _, [] => True
  | sys, (r, e) :: rest => BenignStep sys u K r e ∧ Benign u K (reconcileRev sys r e).1 rest

/-- Induction over the history: `Stable` (and well-formedness) survive every benign history. -/
theorem stable_history (sys : Sys) (h : List (Rev × Env)) (hw : WF sys.store) (u : Nat) (K : String → Prop)
    (hs : Stable sys u K) (hb : Benign u K sys h) :
    WF (runHistory sys h).store ∧ Stable (runHistory sys h) u K := by
  induction h generalizing sys with
  | nil => exact ⟨hw, hs⟩
  | cons x rest ih =>
    obtain ⟨r, e⟩ := x
    obtain ⟨hb1, hb2⟩ := hb
    unfold runHistory
    have hw1 := (reconcileRev_hinv sys r e hw (fun _ => True) (fun _ => trivial)).wf
    exact ih _ hw1 (stable_step sys r e hw u K hs hb1) hb2

end Xp.C16

import Xp.Proofs.C06World
/-
C06 helper lemmas, part 6: the window of finding D34. Which steps of the system can turn an XR that is
not bound to another claim into one that is (only `Env.peerWrite`), and what the reconcile knows about a
name when it issues a request that carries no resourceVersion.
-/
namespace Xp.C06

/-- XR `n` exists and its claimRef names another claim — in ANY world (cf. `foreignAt`) -/
def foreignNow (s : St) (n : Name) : Prop := ∃ x, s.xrs n = some x ∧ x.foreignTo s.me

/-- the requests that carry no resourceVersion of the XR: Delete, the forced apply, the merge patch of an XR
that Reconcile's Get did not find -/
def unconditionalOn : Req → Option Name
  | .deleteXR n _ => some n
  | .applyXR n _ => some n
  | .patchXR n none _ => some n
  | _ => none

theorem foreignNow_iff (s : St) (n : Name) :
    foreignNow s n ↔ ∃ r, (s.xrs n).map (·.cref) = some (some r) ∧ r ≠ s.me := by
  unfold foreignNow XR.foreignTo
  constructor
  · rintro ⟨x, hx, r, hr, hne⟩
    exact ⟨r, by simp [hx, hr], hne⟩
  · rintro ⟨r, hr, hne⟩
    cases hx : s.xrs n with
    | none => simp [hx] at hr
    | some x => exact ⟨x, rfl, r, by simpa [hx] using hr, hne⟩

/-- a call of the claim controller that writes only its own claimRef leaves the claimRef of every XR as it
was, removes the XR, or makes it this claim's -/
theorem exec_cref (s : St) (r : Req) (hc : ∀ c, reqCref r = some c → c = s.me) (m : Name) :
    ((exec s r).1.xrs m).map (·.cref) = (s.xrs m).map (·.cref) ∨ (exec s r).1.xrs m = none ∨
      ((exec s r).1.xrs m).map (·.cref) = some (some s.me) := by
  cases r with
  | getClaim pick =>
    simp only [exec]; split
    · exact Or.inl rfl
    · split <;> exact Or.inl rfl
  | getXR n sel => simp only [exec]; split <;> exact Or.inl rfl
  | updClaim c =>
    simp only [exec]; split
    · exact Or.inl rfl
    · split <;> exact Or.inl rfl
  | updClaimStatus rv =>
    simp only [exec]; split
    · exact Or.inl rfl
    · split <;> exact Or.inl rfl
  | upgradeXR n rv d =>
    simp only [exec]; split
    · exact Or.inl rfl
    · rename_i x hx
      split
      · exact Or.inl rfl
      · split
        · exact Or.inl rfl
        · by_cases hm : m = n
          · subst hm; left; simp [emit, putXR, hx]
          · left; simp [emit, putXR, hm]
  | deleteXR n fg =>
    simp only [exec]; split
    · exact Or.inl rfl
    · rename_i x hx
      have hcref : (if fg then { x with fin := true } else x).cref = x.cref := by split <;> rfl
      generalize (if fg then { x with fin := true } else x) = x1 at hcref
      by_cases hm : m = n
      · subst hm
        unfold delState
        by_cases h1 : x1.fin = true
        · by_cases h2 : x1.deleting = true
          · by_cases h3 : x1 = x
            · subst h3; left; simp [emit, h1, h2]
            · left; simp [emit, setXR, h1, h2, h3, hx, hcref]
          · left; simp [emit, putXR, h1, h2, hx, hcref]
        · right; left; simp [emit, setXR, h1]
      · left
        unfold delState
        by_cases h1 : x1.fin = true
        · by_cases h2 : x1.deleting = true
          · by_cases h3 : x1 = x
            · subst h3; simp [emit, h1, h2]
            · simp [emit, setXR, h1, h2, h3, hm]
          · simp [emit, putXR, h1, h2, hm]
        · simp [emit, setXR, h1, hm]
  | createXR n rvSet cref =>
    have hme : cref = s.me := hc cref rfl
    simp only [exec]; split
    · exact Or.inl rfl
    · split
      · exact Or.inl rfl
      · by_cases hm : m = n
        · subst hm; right; right; simp [emit, putXR, newXR, hme]
        · left; simp [emit, putXR, hm]
  | patchXR n rv cref =>
    have hme : cref = s.me := hc cref rfl
    simp only [exec]; split
    · exact Or.inl rfl
    · rename_i x hx
      have key : ((emit (putXR s n (bindXR cref x)).fst (if rv.isSome = true then Ev.xrWriteG n x.cref else Ev.xrWrite n x.cref)).xrs m).map (·.cref) =
            (s.xrs m).map (·.cref) ∨
          (emit (putXR s n (bindXR cref x)).fst (if rv.isSome = true then Ev.xrWriteG n x.cref else Ev.xrWrite n x.cref)).xrs m = none ∨
          ((emit (putXR s n (bindXR cref x)).fst (if rv.isSome = true then Ev.xrWriteG n x.cref else Ev.xrWrite n x.cref)).xrs m).map (·.cref) =
            some (some s.me) := by
        by_cases hm : m = n
        · subst hm; right; right; simp [emit, putXR, bindXR, hme]
        · left; simp [emit, putXR, hm]
      cases rv with
      | none => simpa using key
      | some v =>
        dsimp only
        split
        · exact Or.inl rfl
        · exact key
  | applyXR n cref =>
    have hme : cref = s.me := hc cref rfl
    simp only [exec]; split
    · by_cases hm : m = n
      · subst hm; right; right; simp [emit, putXR, newXR, hme]
      · left; simp [emit, putXR, hm]
    · by_cases hm : m = n
      · subst hm; right; right; simp [emit, putXR, applyBindXR, hme]
      · left; simp [emit, putXR, hm]

/-- a call under its guarantee never turns an XR that is not bound to another claim into one that is -/
theorem exec_keeps_not_foreign {s : St} {r : Req} (hg : G s r) (n : Name) (h : ¬ foreignNow s n) :
    ¬ foreignNow (exec s r).1 n := by
  intro hf
  obtain ⟨q, hq, hne⟩ := (foreignNow_iff _ _).mp hf
  rw [exec_me] at hne
  rcases exec_cref s r (reqCref_of_G hg) n with e | e | e
  · exact h ((foreignNow_iff _ _).mpr ⟨q, e ▸ hq, hne⟩)
  · rw [e] at hq; cases hq
  · rw [e] at hq; exact hne (Option.some.inj (Option.some.inj hq)).symm

/-- an environment step leaves the claimRef of XR `n` as it was, removes the XR, creates it unbound, or is a
write of ANOTHER claim's controller to that very XR in a world with peers -/
theorem env_cref {s s' : St} (he : Env s s') (n : Name) :
    (s'.xrs n).map (·.cref) = (s.xrs n).map (·.cref) ∨ s'.xrs n = none ∨ (s'.xrs n).map (·.cref) = some none ∨
      (s.peers = true ∧ ∃ x', s' = (putXR s n x').1) := by
  cases he with
  | xrWrite m x x' hx hc =>
    left
    by_cases hm : n = m
    · subst hm; simp [putXR, hx, hc]
    · simp [putXR, hm]
  | xrRemove m =>
    by_cases hm : n = m
    · subst hm; right; left; simp [setXR]
    · left; simp [setXR, hm]
  | xrCreate m x' hx hc =>
    by_cases hm : n = m
    · subst hm; right; right; left; simp [putXR, hc]
    · left; simp [putXR, hm]
  | peerWrite m x' hp hb =>
    by_cases hm : n = m
    · subst hm; right; right; right; exact ⟨hp, x', rfl⟩
    · left; simp [putXR, hm]
  | xrSet m x x' hx hc hrv =>
    left
    by_cases hm : n = m
    · subst hm; simp [setXR, hx, hc]
    · simp [setXR, hm]
  | tick k o => left; rfl
  | claimWrite c c' hc hr hid => left; simp [pushClaim]
  | claimGone => left; rfl

/-- an environment step turns an XR that is not bound to another claim into one that is only if it is a
write of ANOTHER claim's controller to that very XR, in a world with peers -/
theorem env_foreign_only_peer {s s' : St} (he : Env s s') (n : Name) (h : ¬ foreignNow s n) (hf : foreignNow s' n) :
    s.peers = true ∧ ∃ x', s' = (putXR s n x').1 := by
  obtain ⟨q, hq, hne⟩ := (foreignNow_iff _ _).mp hf
  rw [(env_me_peers he).1] at hne
  rcases env_cref he n with e | e | e | e
  · exact absurd ((foreignNow_iff _ _).mpr ⟨q, e ▸ hq, hne⟩) h
  · rw [e] at hq; cases hq
  · rw [e] at hq; cases hq
  · exact e

end Xp.C06

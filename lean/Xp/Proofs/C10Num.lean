import Xp.Model.C10
/-
Helper lemmas for C10: decimal printing / parsing round trips.
-/
namespace Xp.C10

theorem isDigit_digitChar (d : Nat) (h : d < 10) : isDigit (digitChar d) = true := by
  have : d = 0 ∨ d = 1 ∨ d = 2 ∨ d = 3 ∨ d = 4 ∨ d = 5 ∨ d = 6 ∨ d = 7 ∨ d = 8 ∨ d = 9 := by omega
  rcases this with h | h | h | h | h | h | h | h | h | h <;> subst h <;> decide

theorem digitVal_digitChar (d : Nat) (h : d < 10) : digitVal (digitChar d) = d := by
  have : d = 0 ∨ d = 1 ∨ d = 2 ∨ d = 3 ∨ d = 4 ∨ d = 5 ∨ d = 6 ∨ d = 7 ∨ d = 8 ∨ d = 9 := by omega
  rcases this with h | h | h | h | h | h | h | h | h | h <;> subst h <;> decide

theorem parseDigitsAcc_append (acc : Nat) (xs ys : List Char) :
    parseDigitsAcc acc (xs ++ ys) = (parseDigitsAcc acc xs).bind fun a => parseDigitsAcc a ys := by
  induction xs generalizing acc with
  | nil => simp [parseDigitsAcc]
  | cons c cs ih =>
    simp only [List.cons_append, parseDigitsAcc]
    split
    · exact ih _
    · simp

theorem parseDigitsAcc_natDigits (acc n : Nat) :
    parseDigitsAcc acc (natDigits n) = some (acc * 10 ^ (natDigits n).length + n) := by
  induction n using Nat.strongRecOn generalizing acc with
  | _ n ih =>
    unfold natDigits
    split
    · rename_i h
      simp [parseDigitsAcc, isDigit_digitChar n h, digitVal_digitChar n h]
    · rename_i h
      have hlt : n / 10 < n := by omega
      rw [parseDigitsAcc_append, ih (n / 10) hlt acc]
      have hd : n % 10 < 10 := by omega
      simp only [Option.bind_some, parseDigitsAcc, isDigit_digitChar _ hd, digitVal_digitChar _ hd, if_true,
        List.length_append, List.length_cons, List.length_nil]
      congr 1
      rw [Nat.pow_succ, ← Nat.mul_assoc]
      generalize acc * 10 ^ (natDigits (n / 10)).length = x
      omega

theorem natDigits_ne_nil (n : Nat) : natDigits n ≠ [] := by
  unfold natDigits
  split <;> simp

theorem parseDigits_natDigits (n : Nat) : parseDigits (natDigits n) = some n := by
  have h := parseDigitsAcc_natDigits 0 n
  unfold parseDigits
  split
  · rename_i heq
    exact absurd heq (natDigits_ne_nil n)
  · rename_i heq
    simpa using h

theorem natDigits_head_digit (n : Nat) : ∀ c ∈ (natDigits n).head?, isDigit c = true := by
  induction n using Nat.strongRecOn with
  | _ n ih =>
    unfold natDigits
    split
    · rename_i h
      simp [isDigit_digitChar n h]
    · rename_i h
      have hlt : n / 10 < n := by omega
      intro c hc
      have hne := natDigits_ne_nil (n / 10)
      rw [List.head?_append] at hc
      cases hh : (natDigits (n / 10)).head? with
      | none => simp [List.head?_eq_none_iff] at hh; exact absurd hh hne
      | some d =>
        rw [hh] at hc
        simp at hc
        subst hc
        exact ih _ hlt d (by simp [hh])

/-- strconv.ParseInt(strconv.FormatInt(i, 10), 10, 64) = i for every int64 -/
theorem fits64_iff (i : Int) : fits64 i = true ↔ (-9223372036854775808 ≤ i ∧ i ≤ 9223372036854775807) := by
  unfold fits64 minInt64 maxInt64
  rw [Bool.and_eq_true, decide_eq_true_eq, decide_eq_true_eq]
  constructor <;> intro h <;> omega

theorem parseInt_fmtInt (i : Int) (h : fits64 i = true) : parseInt (fmtInt i) = some i := by
  rw [fits64_iff] at h
  unfold fmtInt
  split
  · rename_i hneg
    simp only [parseInt, String.toList_ofList, parseNeg, parseDigits_natDigits]
    have : i.natAbs ≤ 2 ^ 63 := by omega
    simp only [this, if_true]
    congr 1
    omega
  · rename_i hpos
    have hpos : 0 ≤ i := by omega
    -- the first character is a digit, so no sign is stripped
    have hhd := natDigits_head_digit i.toNat
    have hne := natDigits_ne_nil i.toNat
    have hp := parseDigits_natDigits i.toNat
    have hlt : i.toNat < 2 ^ 63 := by omega
    have hres : parsePos (natDigits i.toNat) = some i := by
      simp only [parsePos, hp, hlt, if_true]
      congr 1
      omega
    unfold parseInt
    rw [String.toList_ofList]
    cases hl : natDigits i.toNat with
    | nil => exact absurd hl hne
    | cons c cs =>
      have hc : isDigit c = true := hhd c (by simp [hl])
      have hplus : c ≠ '+' := by intro e; subst e; revert hc; decide
      have hminus : c ≠ '-' := by intro e; subst e; revert hc; decide
      rw [hl] at hres
      split
      · rename_i heq
        simp only [List.cons.injEq] at heq
        exact absurd heq.1 hplus
      · rename_i heq
        simp only [List.cons.injEq] at heq
        exact absurd heq.1 hminus
      · exact hres

theorem parseBool_fmtBool (b : Bool) : parseBool (fmtBool b) = some b := by
  cases b <;> decide

end Xp.C10

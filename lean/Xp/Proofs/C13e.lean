import Xp.Proofs.C13d
/-
C13 helper lemmas, part e: the inductive invariant of the fixed engine.
-/
namespace Xp.C13

structure Inv (s : Sys) : Prop where
  mutex : Mutex s
  tvalid : ∀ (i : Nat) (t : Thread), s.threads[i]? = some t → TValid s t
  tfacts : ∀ (i : Nat) (t : Thread), s.threads[i]? = some t → TFacts s t
  regId : ∀ r ∈ s.regs, r.id < s.nextReg
  regUniq : ∀ r1 ∈ s.regs, ∀ r2 ∈ s.regs, r1.id = r2.id → r1 = r2
  regLive : ∀ r ∈ s.regs, aget r.wid.gvk s.live = some r.gen
  liveTracked : ∀ (g h : Nat), aget g s.live = some h → g ∈ s.tracked
  own : ∀ r ∈ s.regs, aget r.wid (srcsOf s r.cid) = some r.id
  ctlValid : ∀ (n cid : Nat), aget n s.ctrls = some cid → cid < s.objs.length ∧ stoppedOf s cid = false
  ctlInj : ∀ (n1 n2 cid : Nat), aget n1 s.ctrls = some cid → aget n2 s.ctrls = some cid → n1 = n2
  stopClean : ∀ (cid : Nat) (c : Ctl), s.objs[cid]? = some c → c.stopped = true →
      c.cancelled = true ∧ c.sources = [] ∧ ∀ r ∈ s.regs, r.cid ≠ cid
  cancelStop : ∀ (cid : Nat) (c : Ctl), s.objs[cid]? = some c → c.cancelled = c.stopped

theorem swNext_some {srcs : List (Wid × Nat)} {a : List Nat} {st : List Wid} {ws : List Wid} {w : Wid} {rest : List Wid}
    (h : swNext srcs a st ws = some (w, rest)) : ¬((aget w srcs).isSome = true ∧ (w.gvk ∈ a ∨ w ∈ st)) := by
  induction ws with
  | nil => simp [swNext] at h
  | cons x xs ih =>
    unfold swNext at h
    split at h
    · exact ih h
    · rename_i hx
      simp only [Option.some.injEq, Prod.mk.injEq] at h
      obtain ⟨rfl, _⟩ := h
      simpa [List.contains_iff_mem] using hx

theorem xwNext_some {srcs : List (Wid × Nat)} {ws : List Wid} {w : Wid} {reg : Nat} {rest : List Wid}
    (h : xwNext srcs ws = some (w, reg, rest)) : aget w srcs = some reg := by
  induction ws with
  | nil => simp [xwNext] at h
  | cons x xs ih =>
    unfold xwNext at h
    split at h
    · rename_i r hx
      simp only [Option.some.injEq, Prod.mk.injEq] at h
      obtain ⟨rfl, rfl, _⟩ := h
      exact hx
    · exact ih h

/-- validity of the controller ids of the stepping thread's new pc -/
theorem TValid_self {s : Sys} {i : Nat} {t : Thread} {ch : Choice} {pc' : Pc} {act : Act}
    (hinv : Inv s) (ht : s.threads[i]? = some t)
    (hn : next Cfg.fixed s i t ch = some (pc', act)) (ths : List Thread) :
    TValid (act.apply { s with threads := ths }) { t with pc := pc' } := by
  have hold := hinv.tvalid i t ht
  have hlen := apply_objs_length_ge act { s with threads := ths }
  obtain ⟨op, pc⟩ := t
  intro c hc
  simp only at hc hlen
  suffices h : c < s.objs.length from Nat.lt_of_lt_of_le h hlen
  clear hlen
  unfold TValid at hold
  simp only at hold
  cases pc <;> simp only [next] at hn
  all_goals (repeat' (split at hn))
  all_goals first
    | (cases hn; done)
    | (obtain ⟨rfl, rfl, _⟩ := acquire_some hn
       try simp only [swPc_cid, xwPc_cid] at hc
       simp only [Pc.cid?] at hc hold
       first
       | (cases hc; done)
       | exact hold c hc
       | (cases hc; exact hold _ rfl)
       | exact (hinv.ctlValid _ _ hc).1
       | (cases hc; exact (hinv.ctlValid _ _ (by assumption)).1))
    | (simp only [Option.some.injEq, Prod.mk.injEq] at hn
       obtain ⟨rfl, rfl⟩ := hn
       try simp only [swPc_cid, xwPc_cid] at hc
       simp only [Pc.cid?] at hc hold
       first
       | (cases hc; done)
       | exact hold c hc
       | (cases hc; exact hold _ rfl))

theorem srcsOf_apply_getInformer (g : Nat) (f : Bool) (s : Sys) (cid : Nat) :
    srcsOf ((Act.getInformer g f).apply s) cid = srcsOf s cid ∧
    stoppedOf ((Act.getInformer g f).apply s) cid = stoppedOf s cid ∧
    ((Act.getInformer g f).apply s).regs = s.regs ∧ ((Act.getInformer g f).apply s).ctrls = s.ctrls := by
  simp only [Act.apply]
  split
  · exact ⟨rfl, rfl, rfl, rfl⟩
  · split <;> exact ⟨rfl, rfl, rfl, rfl⟩

theorem srcsOf_addReg (s : Sys) (cid : Nat) (wid : Wid) (h k : Nat) :
    srcsOf ((Act.addReg cid wid h).apply s) k =
      if k = cid then (if cid < s.objs.length then aset wid s.nextReg (srcsOf s cid) else []) else srcsOf s k := by
  simp only [Act.apply, srcsOf_eq, srcsOfObjs_modCtl]
  by_cases e : k = cid
  · subst e
    simp only [if_true]
    by_cases hl : k < s.objs.length
    · simp only [hl, if_true, srcsOfObjs]
      have : s.objs[k]? = some s.objs[k] := List.getElem?_eq_getElem hl
      rw [this]
    · simp only [hl, if_false]
      rw [List.getElem?_eq_none (Nat.le_of_not_lt hl)]
  · simp [e]

theorem stoppedOf_addReg (s : Sys) (cid : Nat) (wid : Wid) (h k : Nat) :
    stoppedOf ((Act.addReg cid wid h).apply s) k = stoppedOf s k := by
  simp only [Act.apply, stoppedOf_eq, stoppedOfObjs_modCtl]
  by_cases e : k = cid
  · subst e
    simp only [if_true, stoppedOfObjs]
    try (cases s.objs[k]? <;> rfl)
  · simp [e]

theorem srcsOf_delReg (s : Sys) (cid : Nat) (wid : Wid) (reg k : Nat) :
    srcsOf ((Act.delReg cid wid reg).apply s) k = if k = cid then adel wid (srcsOf s cid) else srcsOf s k := by
  simp only [Act.apply, srcsOf_eq, srcsOfObjs_modCtl]
  by_cases e : k = cid
  · subst e
    simp only [if_true, srcsOfObjs]
    cases s.objs[k]? <;> rfl
  · simp [e]

theorem stoppedOf_delReg (s : Sys) (cid : Nat) (wid : Wid) (reg k : Nat) :
    stoppedOf ((Act.delReg cid wid reg).apply s) k = stoppedOf s k := by
  simp only [Act.apply, stoppedOf_eq, stoppedOfObjs_modCtl]
  by_cases e : k = cid
  · subst e
    simp only [if_true, stoppedOfObjs]
    try (cases s.objs[k]? <;> rfl)
  · simp [e]

/-- what the stepping thread knows at its new pc -/
theorem TFacts_self {s : Sys} {i : Nat} {t : Thread} {ch : Choice} {pc' : Pc} {act : Act}
    (hinv : Inv s) (ht : s.threads[i]? = some t)
    (hn : next Cfg.fixed s i t ch = some (pc', act)) (ths : List Thread) :
    TFacts (act.apply { s with threads := ths }) { t with pc := pc' } := by
  have hold := hinv.tfacts i t ht
  have hval := hinv.tvalid i t ht
  obtain ⟨op, pc⟩ := t
  simp only
  cases pc <;> simp only [next] at hn
  all_goals (repeat' (split at hn))
  all_goals first
    | (cases hn; done)
    | (obtain ⟨rfl, rfl, _⟩ := acquire_some hn; exact trivial)
    | (simp only [Option.some.injEq, Prod.mk.injEq] at hn
       obtain ⟨rfl, rfl⟩ := hn
       exact trivial)
    | skip
  -- the remaining transitions are those into a pc at which the thread knows something
  case spC n cid =>
    obtain ⟨rfl, rfl, _⟩ := acquire_some hn
    exact hold
  case spGI.isFalse n cid wid reg _ =>
    simp only [Option.some.injEq, Prod.mk.injEq] at hn
    obtain ⟨rfl, rfl⟩ := hn
    obtain ⟨e1, _, _, e4⟩ := srcsOf_apply_getInformer wid.gvk false { s with threads := ths } cid
    simp only [TFacts] at hold ⊢
    rw [e1, e4]; exact hold
  case spRH.isFalse n cid wid reg hh _ =>
    simp only [Option.some.injEq, Prod.mk.injEq] at hn
    obtain ⟨rfl, rfl⟩ := hn
    simp only [TFacts] at hold ⊢
    exact hold.1
  case swCW.isFalse.isTrue cid ws a hns _ =>
    obtain ⟨rfl, rfl, _⟩ := acquire_some hn
    have : stoppedOf s cid = false := by simpa [Cfg.fixed] using hns
    exact this
  case swCW.isFalse.isFalse cid ws a _ hx => exact absurd rfl hx
  case swAI2 cid ws =>
    simp only [Option.some.injEq, Prod.mk.injEq] at hn
    obtain ⟨rfl, rfl⟩ := hn
    simp only [TFacts] at hold
    cases hsw : swNext (srcsOf s cid) s.tracked [] ws with
    | none => exact trivial
    | some p =>
      obtain ⟨w, rest⟩ := p
      simp only [swPc, TFacts, Act.apply]
      refine ⟨hold, ?_, swNext_some hsw⟩
      intro r hr _
      exact Or.inl (hinv.liveTracked _ _ (hinv.regLive r hr))
  case swGI.isFalse cid a st wid rest _ =>
    simp only [Option.some.injEq, Prod.mk.injEq] at hn
    obtain ⟨rfl, rfl⟩ := hn
    obtain ⟨e1, e2, e3, _⟩ := srcsOf_apply_getInformer wid.gvk false { s with threads := ths } cid
    simp only [TFacts] at hold ⊢
    rw [e1, e2, e3]; exact hold
  case swAH.isFalse.isTrue cid a st wid rest hh hnf _ =>
    simp only [Option.some.injEq, Prod.mk.injEq] at hn
    obtain ⟨rfl, rfl⟩ := hn
    have hv : cid < s.objs.length := hval cid rfl
    simp only [TFacts] at hold
    obtain ⟨hst, hJ, hK⟩ := hold
    cases hsw : swNext (aset wid s.nextReg (srcsOf s cid)) a (wid :: st) rest with
    | none => exact trivial
    | some p =>
      obtain ⟨w, rest'⟩ := p
      simp only [swPc, TFacts]
      refine ⟨?_, ?_, ?_⟩
      · rw [stoppedOf_addReg]; exact hst
      · intro r hr hc
        simp only [Act.apply] at hr
        rcases List.mem_cons.1 hr with rfl | hr'
        · exact Or.inr List.mem_cons_self
        · rcases hJ r hr' hc with h1 | h2
          · exact Or.inl h1
          · exact Or.inr (List.mem_cons_of_mem _ h2)
      · rw [srcsOf_addReg]
        simp only [if_true]
        have hv' : cid < ({ s with threads := ths } : Sys).objs.length := hv
        rw [if_pos hv']
        exact swNext_some hsw
  case swAH.isFalse.isFalse cid a st wid rest hh _ hx => exact absurd rfl hx
  case xwCW cid ws =>
    obtain ⟨rfl, rfl, _⟩ := acquire_some hn
    cases hxw : xwNext (srcsOf s cid) ws with
    | none => exact trivial
    | some p =>
      obtain ⟨w, reg, rest⟩ := p
      simp only [xwPc, TFacts, Act.apply]
      exact xwNext_some hxw
  case xwGI.isFalse cid wid reg rest k _ =>
    simp only [Option.some.injEq, Prod.mk.injEq] at hn
    obtain ⟨rfl, rfl⟩ := hn
    obtain ⟨e1, _, _, _⟩ := srcsOf_apply_getInformer wid.gvk false { s with threads := ths } cid
    simp only [TFacts] at hold ⊢
    rw [e1]; exact hold
  case xwRH.isFalse cid wid reg rest k hh _ =>
    simp only [Option.some.injEq, Prod.mk.injEq] at hn
    obtain ⟨rfl, rfl⟩ := hn
    cases hxw : xwNext (adel wid (srcsOf s cid)) rest with
    | none => exact trivial
    | some p =>
      obtain ⟨w, reg', rest'⟩ := p
      simp only [xwPc, TFacts]
      rw [srcsOf_delReg]
      simp only [if_true]
      exact xwNext_some hxw
  -- spLoop → spGI, and idle (Stop) → spC
  all_goals first
    | (simp only [Option.some.injEq, Prod.mk.injEq] at hn
       obtain ⟨rfl, rfl⟩ := hn
       simp only [TFacts] at hold ⊢
       exact ⟨hold, by assumption⟩)
    | (obtain ⟨rfl, rfl, _⟩ := acquire_some hn
       simp only [TFacts, Act.apply]
       assumption)

end Xp.C13

import Xp.Proofs.C19Store
/-
C19 helper lemmas, part 2: the invariants that hold for every number of
concurrent reconciles, and their preservation by the store mutators.
-/
namespace Xp.C19

/-! ### store invariant -/

structure StoreInv (s : Store) : Prop where
  usageUniq : ∀ x ∈ s.usages, ∀ y ∈ s.usages, x.name = y.name → x = y
  resUniq : ∀ x ∈ s.res, ∀ y ∈ s.res, x.group = y.group → x.kind = y.kind → x.name = y.name → x = y
  rvU : ∀ u ∈ s.usages, u.rv < s.nextRv
  delFin : ∀ u ∈ s.usages, u.deleting = true → u.fin = true
  readyOf : ∀ u ∈ s.usages, u.ready = true → u.of.name ≠ ""
  readyBy : ∀ u ∈ s.usages, u.ready = true → ∀ b, u.by_ = some b → b.name ≠ ""
  resName : ∀ r ∈ s.res, r.name ≠ ""
  born : ∀ r ∈ s.res, (r.uid, r.group, r.kind, r.name) ∈ s.born
  owned : ∀ u ∈ s.usages, u.ready = true → ∀ b, u.by_ = some b →
    ∃ o ∈ u.owners, (o.uid, groupOf b.av, b.kind, b.name) ∈ s.born

theorem StoreInv.empty : StoreInv Store.empty := by
  constructor <;> simp [Store.empty]

/-- conditions under which a usage value may be (re)stored -/
structure UsageOk (s : Store) (n : Usage) : Prop where
  delFin : n.deleting = true → n.fin = true
  readyOf : n.ready = true → n.of.name ≠ ""
  readyBy : n.ready = true → ∀ b, n.by_ = some b → b.name ≠ ""
  owned : n.ready = true → ∀ b, n.by_ = some b → ∃ o ∈ n.owners, (o.uid, groupOf b.av, b.kind, b.name) ∈ s.born

theorem StoreInv.usageOk {s : Store} (h : StoreInv s) {u : Usage} (hu : u ∈ s.usages) : UsageOk s u :=
  ⟨h.delFin u hu, h.readyOf u hu, h.readyBy u hu, h.owned u hu⟩

theorem StoreInv.putU_bump {s : Store} (h : StoreInv s) {n : Usage}
    (hrv : n.rv = s.nextRv) (hok : UsageOk s n) : StoreInv (s.putU n).bump := by
  constructor
  · intro x hx y hy hxy
    simp only [bump_usages, mem_putU] at hx hy
    rcases hx with ⟨hx, hxn⟩ | ⟨rfl, _⟩
    · rcases hy with ⟨hy, hyn⟩ | ⟨rfl, _⟩
      · exact h.usageUniq x hx y hy hxy
      · exact absurd hxy hxn
    · rcases hy with ⟨hy, hyn⟩ | ⟨rfl, _⟩
      · exact absurd hxy.symm hyn
      · rfl
  · simpa using h.resUniq
  · intro u hu
    simp only [bump_usages, mem_putU] at hu
    simp only [bump_nextRv, putU_nextRv]
    rcases hu with ⟨hu, _⟩ | ⟨rfl, _⟩
    · have := h.rvU u hu; omega
    · omega
  · intro u hu
    simp only [bump_usages, mem_putU] at hu
    rcases hu with ⟨hu, _⟩ | ⟨rfl, _⟩
    · exact h.delFin u hu
    · exact hok.delFin
  · intro u hu
    simp only [bump_usages, mem_putU] at hu
    rcases hu with ⟨hu, _⟩ | ⟨rfl, _⟩
    · exact h.readyOf u hu
    · exact hok.readyOf
  · intro u hu
    simp only [bump_usages, mem_putU] at hu
    rcases hu with ⟨hu, _⟩ | ⟨rfl, _⟩
    · exact h.readyBy u hu
    · exact hok.readyBy
  · simpa using h.resName
  · simpa using h.born
  · intro u hu
    simp only [bump_usages, mem_putU] at hu
    simp only [bump_born, putU_born]
    rcases hu with ⟨hu, _⟩ | ⟨rfl, _⟩
    · exact h.owned u hu
    · exact hok.owned

theorem StoreInv.bump {s : Store} (h : StoreInv s) : StoreInv s.bump := by
  refine ⟨h.usageUniq, h.resUniq, ?_, h.delFin, h.readyOf, h.readyBy, h.resName, h.born, h.owned⟩
  intro u hu
  have := h.rvU u hu
  simp only [bump_nextRv]; omega

theorem StoreInv.dropU {s : Store} (h : StoreInv s) (nm : String) : StoreInv (s.dropU nm) := by
  constructor
  · intro x hx y hy
    simp only [mem_dropU] at hx hy
    exact h.usageUniq x hx.1 y hy.1
  · simpa using h.resUniq
  · intro u hu; simp only [mem_dropU] at hu; simpa using h.rvU u hu.1
  · intro u hu; simp only [mem_dropU] at hu; exact h.delFin u hu.1
  · intro u hu; simp only [mem_dropU] at hu; exact h.readyOf u hu.1
  · intro u hu; simp only [mem_dropU] at hu; exact h.readyBy u hu.1
  · simpa using h.resName
  · simpa using h.born
  · intro u hu; simp only [mem_dropU] at hu; simpa using h.owned u hu.1

theorem StoreInv.putR_bump {s : Store} (h : StoreInv s) {x n : Res} (hx : x ∈ s.res)
    (hg : n.group = x.group) (hk : n.kind = x.kind) (hn : n.name = x.name) (hu : n.uid = x.uid) :
    StoreInv (s.putR n).bump := by
  constructor
  · simpa using h.usageUniq
  · intro a ha b hb h1 h2 h3
    simp only [bump_res, mem_putR] at ha hb
    rcases ha with ⟨ha, han⟩ | ⟨rfl, _⟩
    · rcases hb with ⟨hb, hbn⟩ | ⟨rfl, _⟩
      · exact h.resUniq a ha b hb h1 h2 h3
      · exact absurd ⟨h1, h2, h3⟩ han
    · rcases hb with ⟨hb, hbn⟩ | ⟨rfl, _⟩
      · exact absurd ⟨h1.symm, h2.symm, h3.symm⟩ hbn
      · rfl
  · intro u hu
    have := h.rvU u (by simpa using hu)
    simp only [bump_nextRv, putR_nextRv]; omega
  · simpa using h.delFin
  · simpa using h.readyOf
  · simpa using h.readyBy
  · intro r hr
    simp only [bump_res, mem_putR] at hr
    rcases hr with ⟨hr, _⟩ | ⟨rfl, _⟩
    · exact h.resName r hr
    · rw [hn]; exact h.resName x hx
  · intro r hr
    simp only [bump_res, mem_putR] at hr
    simp only [bump_born, putR_born]
    rcases hr with ⟨hr, _⟩ | ⟨rfl, _⟩
    · exact h.born r hr
    · rw [hg, hk, hn, hu]; exact h.born x hx
  · simpa using h.owned

theorem StoreInv.dropR {s : Store} (h : StoreInv s) (g k n : String) : StoreInv (s.dropR g k n) := by
  constructor
  · simpa using h.usageUniq
  · intro a ha b hb
    simp only [mem_dropR] at ha hb
    exact h.resUniq a ha.1 b hb.1
  · simpa using h.rvU
  · simpa using h.delFin
  · simpa using h.readyOf
  · simpa using h.readyBy
  · intro r hr; simp only [mem_dropR] at hr; exact h.resName r hr.1
  · intro r hr; simp only [mem_dropR] at hr; simpa using h.born r hr.1
  · simpa using h.owned

/-! ### environment operations preserve the store invariant -/

theorem StoreInv.createRes {s : Store} (h : StoreInv s) (g k n : String) (l : Labels) (iu : Bool) (c : String) :
    StoreInv (s.createRes g k n l iu c).1 := by
  unfold Store.createRes
  split
  · exact h
  · next hne =>
    split
    · exact h
    · next hg =>
      have hnone := getR_none hg
      constructor
      · exact h.usageUniq
      · intro a ha b hb h1 h2 h3
        simp only [List.mem_append, List.mem_singleton] at ha hb
        rcases ha with ha | rfl
        · rcases hb with hb | rfl
          · exact h.resUniq a ha b hb h1 h2 h3
          · exact absurd ⟨h1, h2, h3⟩ (hnone a ha)
        · rcases hb with hb | rfl
          · exact absurd ⟨h1.symm, h2.symm, h3.symm⟩ (hnone b hb)
          · rfl
      · intro u hu; have := h.rvU u hu; simp only; omega
      · exact h.delFin
      · exact h.readyOf
      · exact h.readyBy
      · intro r hr
        simp only [List.mem_append, List.mem_singleton] at hr
        rcases hr with hr | rfl
        · exact h.resName r hr
        · exact hne
      · intro r hr
        simp only [List.mem_append, List.mem_singleton] at hr
        rcases hr with hr | rfl
        · exact List.mem_cons_of_mem _ (h.born r hr)
        · exact List.mem_cons_self
      · intro u hu hr b hb
        obtain ⟨o, ho, hb'⟩ := h.owned u hu hr b hb
        exact ⟨o, ho, List.mem_cons_of_mem _ hb'⟩

theorem StoreInv.createUsage {s : Store} (h : StoreInv s) (nm : String) (of : RSpec) (b : Option RSpec)
    (r : Option String) (c : Bool) (ct : String) : StoreInv (s.createUsage nm of b r c ct).1 := by
  unfold Store.createUsage
  split
  · exact h
  · split
    · exact h
    · next hg =>
      have hnone := getU_none hg
      constructor
      · intro x hx y hy hxy
        simp only [List.mem_append, List.mem_singleton] at hx hy
        rcases hx with hx | rfl
        · rcases hy with hy | rfl
          · exact h.usageUniq x hx y hy hxy
          · exact absurd hxy (hnone x hx)
        · rcases hy with hy | rfl
          · exact absurd hxy.symm (hnone y hy)
          · rfl
      · exact h.resUniq
      · intro u hu
        simp only [List.mem_append, List.mem_singleton] at hu
        rcases hu with hu | rfl
        · have := h.rvU u hu; simp only; omega
        · simp only; omega
      · intro u hu
        simp only [List.mem_append, List.mem_singleton] at hu
        rcases hu with hu | rfl
        · exact h.delFin u hu
        · simp
      · intro u hu
        simp only [List.mem_append, List.mem_singleton] at hu
        rcases hu with hu | rfl
        · exact h.readyOf u hu
        · simp
      · intro u hu
        simp only [List.mem_append, List.mem_singleton] at hu
        rcases hu with hu | rfl
        · exact h.readyBy u hu
        · simp
      · exact h.resName
      · exact h.born
      · intro u hu
        simp only [List.mem_append, List.mem_singleton] at hu
        rcases hu with hu | rfl
        · exact h.owned u hu
        · simp

theorem StoreInv.deleteUsage {s : Store} (h : StoreInv s) (nm : String) : StoreInv (s.deleteUsage nm).1 := by
  unfold Store.deleteUsage
  split
  · exact h
  · next x hg =>
    have hx := getU_some hg
    split
    · next hfin =>
      split
      · exact h
      · exact h.putU_bump rfl ⟨fun _ => hfin, h.readyOf x hx.1, h.readyBy x hx.1, h.owned x hx.1⟩
    · exact h.dropU nm

theorem StoreInv.admitDelete {s : Store} (h : StoreInv s) {r : Res} (hr : r ∈ s.res) (p : String) (lo po : Bool)
    (st : Option Nat) : StoreInv (s.admitDelete r p lo po st).1 := by
  unfold Store.admitDelete
  split
  · exact h
  · split
    · split
      · split
        · exact h
        · exact h.putR_bump hr rfl rfl rfl rfl
      · exact h
    · exact h

theorem StoreInv.touchRes {s : Store} (h : StoreInv s) (g k n : String) (l : Labels) :
    StoreInv (s.touchRes g k n l).1 := by
  unfold Store.touchRes
  split
  · exact h
  · next r hg =>
    split
    · exact h
    · exact h.putR_bump (getR_some hg).1 rfl rfl rfl rfl

theorem StoreInv.deleteRes {s : Store} (h : StoreInv s) (g k n p : String) (lo po : Bool) (st : Option Nat) :
    StoreInv (s.deleteRes g k n p lo po st).1 := by
  unfold Store.deleteRes
  split
  · exact h
  · next r hg =>
    have hr := (getR_some hg).1
    split
    · split
      · exact (h.admitDelete hr p lo po st).dropR g k n
      · exact h.admitDelete hr p lo po st
    · exact h.dropR g k n

theorem StoreInv.gcUsage {s : Store} (h : StoreInv s) (nm : String) : StoreInv (s.gcUsage nm).1 := by
  unfold Store.gcUsage
  split
  · exact h
  · split
    · exact h
    · split
      · exact h
      · exact h.deleteUsage nm

theorem StoreInv.gcRes {s : Store} (h : StoreInv s) (g k n : String) : StoreInv (s.gcRes g k n).1 := by
  unfold Store.gcRes
  split
  · exact h
  · split
    · exact h
    · split
      · exact h
      · exact h.deleteRes g k n "Background" true true none

theorem StoreInv.reapplyUsage {s : Store} (h : StoreInv s) (nm c : String) : StoreInv (s.reapplyUsage nm c).1 := by
  unfold Store.reapplyUsage
  split
  · exact h
  · next x hg =>
    have hx := getU_some hg
    split
    · exact h
    · split
      · exact h
      · split
        · exact h
        · next hne =>
          have hnil : x.owners = [] := by simpa using hne
          refine h.putU_bump rfl ⟨h.delFin x hx.1, h.readyOf x hx.1, h.readyBy x hx.1, ?_⟩
          intro hr b hb
          obtain ⟨o, ho, _⟩ := h.owned x hx.1 hr b hb
          rw [hnil] at ho; cases ho

end Xp.C19

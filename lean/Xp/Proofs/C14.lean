import Xp.Model.C14
set_option linter.unusedSimpArgs false
set_option linter.unusedVariables false
/-
Helper lemmas for C14: a small Hoare-style calculus over `Prog` that quantifies
over every fault plan (`Tri`), lemmas about the API-server model, and the
symbolic execution of the package reconciler.
-/
namespace Xp.C14

/-! ### a weakest-precondition calculus over all fault plans -/

variable {α β : Type}

/-- `Tri I R Q p s`: running `p` from `s` under ANY fault plan, every store that
becomes visible satisfies `I`, every request that is applied satisfies `R`, and if
the program returns `a` in store `s'` then `Q s' a`. -/
def Tri (I : Store → Prop) (R : Req → Prop) (Q : Store → α → Prop) : P α → Store → Prop
  | .ret a, s => Q s a
  | .call r c, s =>
    (R r ∧ I (exec s r).1 ∧ Tri I R Q (c (exec s r).2) (exec s r).1) ∧
    Tri I R Q (c (errResp .fail r)) s ∧ Tri I R Q (c (errResp .conflict r)) s

theorem Tri.reach {I : Store → Prop} {R : Req → Prop} {Q : Store → α → Prop}
    (plan : Plan) (k : Nat) (p : P α) (s : Store) (hs : I s) (h : Tri I R Q p s) :
    ∀ s' ∈ reach sem plan k p s, I s' := by
  induction p generalizing k s with
  | ret a => intro s' hm; simp [Xp.reach] at hm; subst hm; exact hs
  | call r c ih =>
    obtain ⟨⟨_, h1, h2⟩, h3, h4⟩ := h
    intro s' hm
    unfold Xp.reach at hm
    split at hm
    · cases List.mem_cons.mp hm with
      | inl e => subst e; exact hs
      | inr h' => exact ih _ _ _ h1 h2 s' h'
    · exact ih _ _ _ hs h3 s' hm
    · exact ih _ _ _ hs h4 s' hm
    · simp at hm; subst hm; exact hs
    · simp at hm; rcases hm with hm | hm
      · subst hm; exact hs
      · subst hm; exact h1

theorem Tri.applied {I : Store → Prop} {R : Req → Prop} {Q : Store → α → Prop}
    (plan : Plan) (k : Nat) (p : P α) (s : Store) (h : Tri I R Q p s) :
    ∀ r ∈ applied sem plan k p s, R r := by
  induction p generalizing k s with
  | ret a => intro r hm; simp [Xp.applied] at hm
  | call r c ih =>
    obtain ⟨⟨h0, _, h2⟩, h3, h4⟩ := h
    intro q hm
    unfold Xp.applied at hm
    split at hm
    · cases List.mem_cons.mp hm with
      | inl e => subst e; exact h0
      | inr h' => exact ih _ _ _ h2 q h'
    · exact ih _ _ _ h3 q hm
    · exact ih _ _ _ h4 q hm
    · simp at hm
    · simp at hm; subst hm; exact h0

theorem Tri.run {I : Store → Prop} {R : Req → Prop} {Q : Store → α → Prop}
    (plan : Plan) (k : Nat) (p : P α) (s : Store) (h : Tri I R Q p s) (s' : Store) (a : α)
    (hr : run sem plan k p s = (s', some a)) : Q s' a := by
  induction p generalizing k s with
  | ret x => simp [Xp.run] at hr; obtain ⟨e1, e2⟩ := hr; subst e1; subst e2; exact h
  | call r c ih =>
    obtain ⟨⟨_, _, h2⟩, h3, h4⟩ := h
    unfold Xp.run at hr
    split at hr
    · exact ih _ _ _ h2 hr
    · exact ih _ _ _ h3 hr
    · exact ih _ _ _ h4 hr
    · simp at hr
    · simp at hr

theorem Tri.bind {I : Store → Prop} {R : Req → Prop} {Q' : Store → α → Prop} {Q : Store → β → Prop}
    (p : P α) (f : α → P β) (s : Store) (h : Tri I R Q' p s)
    (hf : ∀ s a, Q' s a → Tri I R Q (f a) s) : Tri I R Q (Prog.bind p f) s := by
  induction p generalizing s with
  | ret a => exact hf _ _ h
  | call r c ih =>
    obtain ⟨⟨h0, h1, h2⟩, h3, h4⟩ := h
    exact ⟨⟨h0, h1, ih _ _ h2⟩, ih _ _ h3, ih _ _ h4⟩

theorem Tri.mono {I : Store → Prop} {R : Req → Prop} {Q Q' : Store → α → Prop}
    (p : P α) (s : Store) (h : Tri I R Q p s) (hq : ∀ s a, Q s a → Q' s a) : Tri I R Q' p s := by
  induction p generalizing s with
  | ret a => exact hq _ _ h
  | call r c ih =>
    obtain ⟨⟨h0, h1, h2⟩, h3, h4⟩ := h
    exact ⟨⟨h0, h1, ih _ _ h2⟩, ih _ _ h3, ih _ _ h4⟩

/-! ### lists of revisions -/

theorem findRev_some {n : String} {l : List Rev} {r : Rev} (h : findRev n l = some r) : r ∈ l ∧ r.name = n := by
  unfold findRev at h
  exact ⟨List.mem_of_find?_eq_some h, by simpa using List.find?_some h⟩

theorem findRev_none {n : String} {l : List Rev} (h : findRev n l = none) : ∀ x ∈ l, x.name ≠ n := by
  unfold findRev at h
  intro x hx
  have := List.find?_eq_none.mp h x hx
  simpa using this

theorem findRev_isSome_of_mem {n : String} {l : List Rev} {r : Rev} (h : r ∈ l) (hn : r.name = n) :
    ∃ c, findRev n l = some c := by
  cases hf : findRev n l with
  | some c => exact ⟨c, rfl⟩
  | none => exact absurd hn (findRev_none hf r h)

theorem mem_setRev {r x : Rev} {l : List Rev} (h : x ∈ setRev r l) :
    (x = r ∧ ∃ y ∈ l, y.name = r.name) ∨ (x ∈ l ∧ x.name ≠ r.name) := by
  unfold setRev at h
  obtain ⟨y, hy, e⟩ := List.mem_map.mp h
  by_cases hn : y.name = r.name
  · simp [hn] at e; exact .inl ⟨e.symm, y, hy, hn⟩
  · simp [hn] at e; subst e; exact .inr ⟨hy, hn⟩

theorem mem_setRev_self {r c : Rev} {l : List Rev} (hc : c ∈ l) (hn : c.name = r.name) : r ∈ setRev r l := by
  unfold setRev
  exact List.mem_map.mpr ⟨c, hc, by simp [hn]⟩

theorem names_setRev (r : Rev) (l : List Rev) : (setRev r l).map (·.name) = l.map (·.name) := by
  unfold setRev
  induction l with
  | nil => rfl
  | cons x xs ih =>
    simp only [List.map_cons, List.map_map] at ih ⊢
    by_cases hn : x.name = r.name
    · simp [hn, ih]
    · simp [hn, ih]

theorem mem_insertRev {r x : Rev} {l : List Rev} : x ∈ insertRev r l ↔ x = r ∨ x ∈ l := by
  induction l with
  | nil => simp [insertRev]
  | cons y ys ih =>
    unfold insertRev
    split
    · simp
    · simp [ih]; constructor
      · rintro (h | h | h)
        · exact .inr (.inl h)
        · exact .inl h
        · exact .inr (.inr h)
      · rintro (h | h | h)
        · exact .inr (.inl h)
        · exact .inl h
        · exact .inr (.inr h)

theorem nodup_insertRev {r : Rev} {l : List Rev} (hn : ∀ x ∈ l, x.name ≠ r.name)
    (h : (l.map (·.name)).Nodup) : ((insertRev r l).map (·.name)).Nodup := by
  induction l with
  | nil => simp [insertRev]
  | cons y ys ih =>
    unfold insertRev
    split
    · simp only [List.map_cons, List.nodup_cons] at h ⊢
      refine ⟨?_, h⟩
      intro hm
      rcases List.mem_cons.mp hm with e | hm
      · exact hn y (List.mem_cons_self) e.symm
      · obtain ⟨z, hz, e⟩ := List.mem_map.mp hm
        exact hn z (List.mem_cons_of_mem _ hz) e
    · simp only [List.map_cons, List.nodup_cons] at h ⊢
      refine ⟨?_, ih (fun x hx => hn x (List.mem_cons_of_mem _ hx)) h.2⟩
      intro hm
      obtain ⟨z, hz, e⟩ := List.mem_map.mp hm
      rcases mem_insertRev.mp hz with e2 | hz
      · subst e2; exact hn y List.mem_cons_self e.symm
      · exact h.1 (List.mem_map.mpr ⟨z, hz, e⟩)

theorem nodup_filter_names (p : Rev → Bool) {l : List Rev} (h : (l.map (·.name)).Nodup) :
    ((l.filter p).map (·.name)).Nodup :=
  List.Nodup.sublist (List.Sublist.map _ List.filter_sublist) h

/-! ### invariants on the list of revisions -/

/-- at most one Active revision of `pname`, phrased on names (names are keys) -/
def AMOl (pname : String) (l : List Rev) : Prop :=
  ∀ r1 ∈ l, ∀ r2 ∈ l, isActive pname r1 = true → isActive pname r2 = true → r1.name = r2.name

/-- every Active revision of `pname` in `new` was one already in `old` -/
def ActSub (pname : String) (new old : List Rev) : Prop :=
  ∀ x ∈ new, isActive pname x = true → ∃ y ∈ old, y.name = x.name ∧ isActive pname y = true

/-- no revision of `pname` other than `cur` is Active -/
def NoOther (pname cur : String) (l : List Rev) : Prop :=
  ∀ x ∈ l, isActive pname x = true → x.name = cur

def NamesIn (l0 : List Rev) (cur : String) (l : List Rev) : Prop :=
  ∀ r ∈ l, r.name = cur ∨ ∃ r0 ∈ l0, r0.name = r.name

def NumLe (pname : String) (m : Int) (l : List Rev) : Prop :=
  ∀ x ∈ l, labelled pname x = true → x.number ≤ m

/-- the non-current revisions of `pname` are numbered at most `b` -/
def NumLeO (pname cur : String) (b : Int) (l : List Rev) : Prop :=
  ∀ x ∈ l, labelled pname x = true → x.name ≠ cur → x.number ≤ b

/-- every Active non-current revision in the store is still to be visited by the loop -/
def Todo (pname cur : String) (l rest : List Rev) : Prop :=
  ∀ x ∈ l, isActive pname x = true → x.name ≠ cur → ∃ t ∈ rest, t.name = x.name ∧ t.state = .active

theorem AMOl_of_ActSub {pname : String} {new old : List Rev} (h : ActSub pname new old) (ha : AMOl pname old) :
    AMOl pname new := by
  intro r1 h1 r2 h2 a1 a2
  obtain ⟨y1, hy1, e1, b1⟩ := h r1 h1 a1
  obtain ⟨y2, hy2, e2, b2⟩ := h r2 h2 a2
  rw [← e1, ← e2]
  exact ha y1 hy1 y2 hy2 b1 b2

theorem AMOl_of_NoOther {pname cur : String} {l : List Rev} (h : NoOther pname cur l) : AMOl pname l := by
  intro r1 h1 r2 h2 a1 a2
  rw [h r1 h1 a1, h r2 h2 a2]

theorem NoOther_of_ActSub {pname cur : String} {new old : List Rev} (h : ActSub pname new old)
    (hn : NoOther pname cur old) : NoOther pname cur new := by
  intro x hx ax
  obtain ⟨y, hy, e, b⟩ := h x hx ax
  rw [← e]; exact hn y hy b

theorem ActSub_filter (pname : String) (p : Rev → Bool) (l : List Rev) : ActSub pname (l.filter p) l := by
  intro x hx ax
  exact ⟨x, (List.mem_filter.mp hx).1, rfl, ax⟩

/-- replacing an object by one that is not Active (or has the same activity) adds no Active revision -/
theorem ActSub_setRev {pname : String} {m : Rev} {l : List Rev}
    (hm : isActive pname m = true → ∃ y ∈ l, y.name = m.name ∧ isActive pname y = true) :
    ActSub pname (setRev m l) l := by
  intro x hx ax
  rcases mem_setRev hx with ⟨e, _⟩ | ⟨hx', _⟩
  · subst e; exact hm ax
  · exact ⟨x, hx', rfl, ax⟩

theorem NoOther_setRev {pname cur : String} {m : Rev} {l : List Rev} (hm : m.name = cur)
    (h : NoOther pname cur l) : NoOther pname cur (setRev m l) := by
  intro x hx ax
  rcases mem_setRev hx with ⟨e, _⟩ | ⟨hx', _⟩
  · subst e; exact hm
  · exact h x hx' ax

theorem NoOther_insertRev {pname cur : String} {m : Rev} {l : List Rev} (hm : m.name = cur)
    (h : NoOther pname cur l) : NoOther pname cur (insertRev m l) := by
  intro x hx ax
  rcases mem_insertRev.mp hx with e | hx'
  · subst e; exact hm
  · exact h x hx' ax

/-- the invariant carried through every visible store; `W0`/`A0` are the hypotheses
about the initial store under which well-formedness / at-most-one-active are claimed -/
def I0 (W0 A0 : Prop) (pname : String) (l0 : List Rev) (cur : String) (s : Store) : Prop :=
  (W0 → (s.revs.map (·.name)).Nodup) ∧ (A0 → AMOl pname s.revs) ∧ NamesIn l0 cur s.revs

theorem I0.step {W0 A0 : Prop} {pname cur : String} {l0 : List Rev} {s : Store} (new : List Rev)
    (h : I0 W0 A0 pname l0 cur s)
    (hnd : (s.revs.map (·.name)).Nodup → (new.map (·.name)).Nodup)
    (ha : AMOl pname s.revs → AMOl pname new)
    (hnm : ∀ x ∈ new, x.name = cur ∨ ∃ y ∈ s.revs, y.name = x.name) :
    I0 W0 A0 pname l0 cur { s with revs := new } := by
  obtain ⟨h1, h2, h3⟩ := h
  refine ⟨fun w => hnd (h1 w), fun a => ha (h2 a), ?_⟩
  intro x hx
  rcases hnm x hx with e | ⟨y, hy, e⟩
  · exact .inl e
  · rcases h3 y hy with e' | ⟨r0, hr0, e'⟩
    · exact .inl (e ▸ e')
    · exact .inr ⟨r0, hr0, e'.trans e⟩

theorem I0.pkg {W0 A0 : Prop} {pname cur : String} {l0 : List Rev} {s : Store} (q : Option Pkg)
    (h : I0 W0 A0 pname l0 cur s) : I0 W0 A0 pname l0 cur { s with pkg := q } := h

/-- a replacement that adds no Active revision keeps the invariant -/
theorem I0.setRev_sub {W0 A0 : Prop} {pname cur : String} {l0 : List Rev} {s : Store} {m c : Rev}
    (h : I0 W0 A0 pname l0 cur s) (hc : c ∈ s.revs) (hn : c.name = m.name)
    (hs : ActSub pname (setRev m s.revs) s.revs) :
    I0 W0 A0 pname l0 cur { s with revs := setRev m s.revs } := by
  apply I0.step _ h
  · intro hnd; rw [names_setRev]; exact hnd
  · exact AMOl_of_ActSub hs
  · intro x hx
    rcases mem_setRev hx with ⟨e, _⟩ | ⟨hx', _⟩
    · subst e; exact .inr ⟨c, hc, hn⟩
    · exact .inr ⟨x, hx', rfl⟩

/-- writing the current revision keeps the invariant once no other revision is Active -/
theorem I0.setRev_cur {W0 A0 : Prop} {pname cur : String} {l0 : List Rev} {s : Store} {m : Rev}
    (h : I0 W0 A0 pname l0 cur s) (hm : m.name = cur) (hno : NoOther pname cur s.revs) :
    I0 W0 A0 pname l0 cur { s with revs := setRev m s.revs } := by
  apply I0.step _ h
  · intro hnd; rw [names_setRev]; exact hnd
  · intro _; exact AMOl_of_NoOther (NoOther_setRev hm hno)
  · intro x hx
    rcases mem_setRev hx with ⟨e, _⟩ | ⟨hx', _⟩
    · subst e; exact .inl hm
    · exact .inr ⟨x, hx', rfl⟩

theorem I0.insert_cur {W0 A0 : Prop} {pname cur : String} {l0 : List Rev} {s : Store} {m : Rev}
    (h : I0 W0 A0 pname l0 cur s) (hm : m.name = cur) (hno : NoOther pname cur s.revs)
    (hfresh : ∀ x ∈ s.revs, x.name ≠ m.name) :
    I0 W0 A0 pname l0 cur { s with revs := insertRev m s.revs } := by
  apply I0.step _ h
  · exact nodup_insertRev hfresh
  · intro _; exact AMOl_of_NoOther (NoOther_insertRev hm hno)
  · intro x hx
    rcases mem_insertRev.mp hx with e | hx'
    · subst e; exact .inl hm
    · exact .inr ⟨x, hx', rfl⟩

theorem I0.filter {W0 A0 : Prop} {pname cur : String} {l0 : List Rev} {s : Store} (p : Rev → Bool)
    (h : I0 W0 A0 pname l0 cur s) : I0 W0 A0 pname l0 cur { s with revs := s.revs.filter p } := by
  apply I0.step _ h
  · exact nodup_filter_names p
  · exact AMOl_of_ActSub (ActSub_filter pname p _)
  · intro x hx; exact .inr ⟨x, (List.mem_filter.mp hx).1, rfl⟩

/-! ### maxRevision -/

theorem foldl_max_ge (l : List Rev) (m : Int) :
    m ≤ l.foldl (fun m r => if r.number > m then r.number else m) m ∧
    ∀ x ∈ l, x.number ≤ l.foldl (fun m r => if r.number > m then r.number else m) m := by
  induction l generalizing m with
  | nil => simp
  | cons y ys ih =>
    simp only [List.foldl_cons]
    by_cases hc : y.number > m
    · simp only [hc, if_true]
      obtain ⟨h1, h2⟩ := ih y.number
      refine ⟨by omega, ?_⟩
      intro x hx
      rcases List.mem_cons.mp hx with e | hx
      · subst e; exact h1
      · exact h2 x hx
    · simp only [hc, if_false]
      obtain ⟨h1, h2⟩ := ih m
      refine ⟨h1, ?_⟩
      intro x hx
      rcases List.mem_cons.mp hx with e | hx
      · subst e; omega
      · exact h2 x hx

theorem le_maxRevision {l : List Rev} {x : Rev} (h : x ∈ l) : x.number ≤ maxRevision l :=
  (foldl_max_ge l 0).2 x h

theorem maxRevision_nonneg (l : List Rev) : 0 ≤ maxRevision l := (foldl_max_ge l 0).1

/-! ### symbolic execution of the reconciler -/

/-- the only delete the reconciler may apply is the collector's victim -/
def Rdel (vic : Option String) : Req → Prop := fun r => ∀ n, r = Req.deleteRev n → vic = some n

theorem applyRev_tri {I : Store → Prop} {R : Req → Prop} {Q : Store → ApplyOut → Prop}
    (d : Rev) (hasRV : Bool) (uid : String) (s : Store)
    (hR1 : R (.getRev d.name)) (hR2 : R (.patchRev d)) (hR3 : R (.createRev d hasRV))
    (hI : I s)
    (hpatch : ∀ c, findRev d.name s.revs = some c → controllable c uid = true →
      I { s with revs := setRev (mergeRev c d) s.revs } ∧
      Q { s with revs := setRev (mergeRev c d) s.revs } (.ok (mergeRev c d)))
    (hcreate : findRev d.name s.revs = none → hasRV = false →
      I { s with revs := insertRev { d with deleting := false } s.revs } ∧
      Q { s with revs := insertRev { d with deleting := false } s.revs } (.ok { d with deleting := false }))
    (herr : Q s .err) (hconf : Q s .conflict) :
    Tri I R Q (applyRev d hasRV uid) s := by
  unfold applyRev
  cases hf : findRev d.name s.revs with
  | none =>
    cases hasRV with
    | true => simp [Tri, exec, errResp, isWrite, hf, writeOut, *]
    | false =>
      have := hcreate hf rfl
      simp [Tri, exec, errResp, isWrite, hf, writeOut, *]
  | some c =>
    by_cases hc : controllable c uid = true
    · have := hpatch c hf hc
      simp [Tri, exec, errResp, isWrite, hf, writeOut, hc, *]
    · simp [Tri, exec, errResp, isWrite, hf, writeOut, hc, *]

theorem Rdel_get (vic : Option String) (n : String) : Rdel vic (.getRev n) := fun _ e => by cases e
theorem Rdel_patch (vic : Option String) (d : Rev) : Rdel vic (.patchRev d) := fun _ e => by cases e
theorem Rdel_create (vic : Option String) (d : Rev) (b : Bool) : Rdel vic (.createRev d b) := fun _ e => by cases e
theorem Rdel_update (vic : Option String) (d : Rev) : Rdel vic (.updateRev d) := fun _ e => by cases e
theorem Rdel_status (vic : Option String) (n : String) (st : Status) : Rdel vic (.statusPkg n st) := fun _ e => by cases e

/-- what holds between two iterations of the revision loop -/
def LoopInv (W0 A0 : Prop) (pname : String) (l0 : List Rev) (cur : String) (maxR B : Int)
    (s : Store) (rest : List Rev) : Prop :=
  I0 W0 A0 pname l0 cur s ∧ Todo pname cur s.revs rest ∧ (NumLe pname maxR s.revs ∧ NumLeO pname cur B s.revs) ∧
  (∀ t ∈ rest, t.parent = some pname ∧ t.number ≤ maxR ∧ (t.name ≠ cur → t.number ≤ B))

def Qloop (W0 A0 : Prop) (pname : String) (l0 : List Rev) (cur : String) (maxR B : Int)
    (s : Store) (o : Option Res) : Prop :=
  (o = none ∧ LoopInv W0 A0 pname l0 cur maxR B s []) ∨ o = some .requeue ∨ o = some .err

theorem deactLoop_tri (W0 A0 : Prop) (pname : String) (l0 : List Rev) (cur : String) (maxR B : Int)
    (vic : Option String) (uid : String) (rest : List Rev) (s : Store)
    (h : LoopInv W0 A0 pname l0 cur maxR B s rest) :
    Tri (I0 W0 A0 pname l0 cur) (Rdel vic) (Qloop W0 A0 pname l0 cur maxR B) (deactLoop uid cur rest) s := by
  induction rest generalizing s with
  | nil => exact .inl ⟨rfl, h⟩
  | cons t rest ih =>
    obtain ⟨hI, hT, hN, hR⟩ := h
    have hrest : ∀ t' ∈ rest, t'.parent = some pname ∧ t'.number ≤ maxR ∧ (t'.name ≠ cur → t'.number ≤ B) :=
      fun t' ht' => hR t' (List.mem_cons_of_mem _ ht')
    unfold deactLoop
    by_cases hc : t.name = cur
    · rw [if_pos hc]
      apply ih
      refine ⟨hI, ?_, hN, hrest⟩
      intro x hx ax hne
      obtain ⟨t', ht', e, st⟩ := hT x hx ax hne
      rcases List.mem_cons.mp ht' with e2 | ht'
      · subst e2; exact absurd (e ▸ hc) hne
      · exact ⟨t', ht', e, st⟩
    · rw [if_neg hc]
      by_cases ha : t.state = .active
      · rw [if_pos ha]
        apply Tri.bind (Q' := fun s' out =>
          (∃ r, out = .ok r ∧ LoopInv W0 A0 pname l0 cur maxR B s' rest) ∨ out = .conflict ∨ out = .err)
        · apply applyRev_tri
          · exact Rdel_get _ _
          · exact Rdel_patch _ _
          · exact Rdel_create _ _ _
          · exact hI
          · intro c hf _
            obtain ⟨hcm, hcn⟩ := findRev_some hf
            have hcn' : c.name = t.name := hcn
            have hsub : ActSub pname (setRev (mergeRev c { t with state := .inactive }) s.revs) s.revs :=
              ActSub_setRev (by intro a; simp [isActive, mergeRev] at a)
            refine ⟨I0.setRev_sub hI hcm rfl hsub, .inl ⟨_, rfl, I0.setRev_sub hI hcm rfl hsub, ?_, ?_, hrest⟩⟩
            · intro x hx ax hne
              rcases mem_setRev hx with ⟨e, _⟩ | ⟨hx', hxn⟩
              · subst e; simp [isActive, mergeRev] at ax
              · obtain ⟨t', ht', e, st⟩ := hT x hx' ax hne
                rcases List.mem_cons.mp ht' with e2 | ht'
                · subst e2; exact absurd (e.symm.trans hcn'.symm) hxn
                · exact ⟨t', ht', e, st⟩
            · constructor
              · intro x hx lx
                rcases mem_setRev hx with ⟨e, _⟩ | ⟨hx', _⟩
                · subst e; exact (hR t List.mem_cons_self).2.1
                · exact hN.1 x hx' lx
              · intro x hx lx hne
                rcases mem_setRev hx with ⟨e, _⟩ | ⟨hx', _⟩
                · subst e; exact (hR t List.mem_cons_self).2.2 hc
                · exact hN.2 x hx' lx hne
          · intro _ hh; cases hh
          · exact .inr (.inr rfl)
          · exact .inr (.inl rfl)
        · intro s' out hq
          rcases hq with ⟨r, e, hL⟩ | e | e
          · subst e; exact ih s' hL
          · subst e; exact .inr (.inl rfl)
          · subst e; exact .inr (.inr rfl)
      · rw [if_neg ha]
        apply ih
        refine ⟨hI, ?_, hN, hrest⟩
        intro x hx ax hne
        obtain ⟨t', ht', e, st⟩ := hT x hx ax hne
        rcases List.mem_cons.mp ht' with e2 | ht'
        · subst e2; exact absurd st ha
        · exact ⟨t', ht', e, st⟩

/-! ### the copied spec leaves: lookup in a JSON merge patch of a leaf map -/

/-- every leaf of `d` is present in `e` with the same value -/
def LeafCovers (d e : Labels) : Prop := ∀ kv ∈ d, getL kv.1 e = some kv.2

/-- a leaf list has each path once (what a serialised JSON object is) -/
def KeysNodup (l : Labels) : Prop := (l.map (·.1)).Nodup

instance (l : Labels) : Decidable (KeysNodup l) := by unfold KeysNodup; infer_instance

theorem getL_cons (k : String) (a : String × String) (l : Labels) :
    getL k (a :: l) = if a.1 = k then some a.2 else getL k l := by
  unfold getL
  by_cases h : a.1 = k <;> simp [List.find?_cons, h]

theorem getL_setLabel_self (k v : String) (l : Labels) : getL k (setLabel k v l) = some v := by
  induction l with
  | nil => simp [setLabel, getL_cons]
  | cons a rest ih =>
    obtain ⟨k', v'⟩ := a
    simp only [setLabel]
    by_cases h1 : k = k'
    · simp [h1, getL_cons]
    · rw [if_neg h1]
      by_cases h2 : k < k'
      · simp [h2, getL_cons]
      · rw [if_neg h2, getL_cons, if_neg (fun e => h1 e.symm)]
        exact ih

theorem getL_setLabel_ne {k k' : String} (v : String) (l : Labels) (h : k' ≠ k) :
    getL k' (setLabel k v l) = getL k' l := by
  induction l with
  | nil => simp [setLabel, getL_cons, getL, Ne.symm h]
  | cons a rest ih =>
    obtain ⟨k2, v2⟩ := a
    simp only [setLabel]
    by_cases h1 : k = k2
    · subst h1
      simp [getL_cons, Ne.symm h]
    · rw [if_neg h1]
      by_cases h2 : k < k2
      · rw [if_pos h2, getL_cons, if_neg (Ne.symm h)]
      · rw [if_neg h2, getL_cons, getL_cons, ih]

theorem getL_merge_notin (k : String) (d st : Labels) (h : k ∉ d.map (·.1)) :
    getL k (mergeLabels st d) = getL k st := by
  unfold mergeLabels
  induction d generalizing st with
  | nil => rfl
  | cons a rest ih =>
    simp only [List.map_cons, List.mem_cons, not_or] at h
    simp only [List.foldl_cons]
    rw [ih _ h.2, getL_setLabel_ne _ _ h.1]

/-- a JSON merge patch stores every leaf the desired object serialises … -/
theorem getL_merge_mem (d st : Labels) (hn : KeysNodup d) (kv : String × String) (h : kv ∈ d) :
    getL kv.1 (mergeLabels st d) = some kv.2 := by
  induction d generalizing st with
  | nil => cases h
  | cons a rest ih =>
    have hn' : a.1 ∉ rest.map (·.1) ∧ KeysNodup rest := by
      simpa [KeysNodup, List.nodup_cons] using hn
    show getL kv.1 (mergeLabels (setLabel a.1 a.2 st) rest) = some kv.2
    rcases List.mem_cons.mp h with e | h'
    · subst e
      rw [getL_merge_notin _ _ _ hn'.1, getL_setLabel_self]
    · exact ih _ hn'.2 h'

theorem LeafCovers_merge (d st : Labels) (hn : KeysNodup d) : LeafCovers d (mergeLabels st d) :=
  fun kv h => getL_merge_mem d st hn kv h

theorem LeafCovers_self (d : Labels) (hn : KeysNodup d) : LeafCovers d d := by
  induction d with
  | nil => intro kv h; cases h
  | cons a rest ih =>
    have hn' : a.1 ∉ rest.map (·.1) ∧ KeysNodup rest := by
      simpa [KeysNodup, List.nodup_cons] using hn
    intro kv h
    rcases List.mem_cons.mp h with e | h'
    · subst e; simp [getL_cons]
    · have hne : a.1 ≠ kv.1 := fun e => hn'.1 (e ▸ List.mem_map_of_mem h')
      rw [getL_cons, if_neg hne]
      exact ih hn'.2 kv h'

/-- what a completed reconcile guarantees about the store -/
def Post (pname : String) (p : Pkg) (cur : String) (dn B : Int) (s : Store) : Prop :=
  ∃ rev ∈ s.revs, rev.name = cur ∧ rev.parent = some pname ∧
    (∀ x ∈ s.revs, labelled pname x = true → x.number ≤ rev.number) ∧
    (p.spec.policy ≠ .manual → rev.state = .active) ∧ rev.image = p.spec.source ∧
    rev.number = dn ∧ NumLeO pname cur B s.revs ∧
    (KeysNodup (copiedExtra p.spec) → LeafCovers (copiedExtra p.spec) rev.extra) ∧
    rev.labels = p.spec.labels

def Qmain (pname : String) (p : Pkg) (cur : String) (dn B : Int) (s : Store) (r : Res) : Prop :=
  ∀ c a, r = .done c a → c = cur ∧ Post pname p cur dn B s

theorem Qmain_err (pname : String) (p : Pkg) (cur : String) (dn B : Int) (s : Store) : Qmain pname p cur dn B s .err := by
  intro c a e; cases e
theorem Qmain_requeue (pname : String) (p : Pkg) (cur : String) (dn B : Int) (s : Store) : Qmain pname p cur dn B s .requeue := by
  intro c a e; cases e
theorem Qmain_paused (pname : String) (p : Pkg) (cur : String) (dn B : Int) (s : Store) : Qmain pname p cur dn B s .paused := by
  intro c a e; cases e
theorem Qmain_gone (pname : String) (p : Pkg) (cur : String) (dn B : Int) (s : Store) : Qmain pname p cur dn B s .gone := by
  intro c a e; cases e

theorem exec_statusPkg_revs (s : Store) (n : String) (st : Status) : (exec s (.statusPkg n st)).1.revs = s.revs := by
  simp only [exec]
  split
  · split <;> rfl
  · rfl

theorem exec_statusPkg_resp (s : Store) (n : String) (st : Status) :
    (exec s (.statusPkg n st)).2 = .ok ∨ (exec s (.statusPkg n st)).2 = .err .notFound := by
  simp only [exec]
  split
  · split
    · exact .inl rfl
    · exact .inr rfl
  · exact .inr rfl

theorem I0_congr {W0 A0 : Prop} {pname cur : String} {l0 : List Rev} {s s' : Store} (e : s'.revs = s.revs)
    (h : I0 W0 A0 pname l0 cur s) : I0 W0 A0 pname l0 cur s' := by
  unfold I0 at *; rw [e]; exact h

theorem Post_congr {pname cur : String} {p : Pkg} {dn B : Int} {s s' : Store} (e : s'.revs = s.revs)
    (h : Post pname p cur dn B s) : Post pname p cur dn B s' := by
  unfold Post at *; rw [e]; exact h

theorem finishStatus_tri (W0 A0 : Prop) (pname : String) (l0 : List Rev) (cur : String) (vic : Option String)
    (p : Pkg) (dn B : Int) (s : Store) (hI : I0 W0 A0 pname l0 cur s) (hP : Post pname p cur dn B s) :
    Tri (I0 W0 A0 pname l0 cur) (Rdel vic) (Qmain pname p cur dn B) (finishStatus p cur) s := by
  unfold finishStatus
  refine ⟨⟨Rdel_status _ _ _, I0_congr (exec_statusPkg_revs _ _ _) hI, ?_⟩, ?_, ?_⟩
  · rcases exec_statusPkg_resp s p.name { curRev := cur, curId := p.spec.source, pausedCond := p.status.pausedCond } with e | e
    · rw [e]
      intro c a hh
      cases hh
      exact ⟨rfl, Post_congr (exec_statusPkg_revs _ _ _) hP⟩
    · rw [e]; exact Qmain_err _ _ _ _ _ _
  · exact Qmain_err _ _ _ _ _ _
  · exact Qmain_err _ _ _ _ _ _

theorem desiredCurrent_name (p : Pkg) (cur : String) (listed : List Rev) : (desiredCurrent p cur listed).name = cur := rfl
theorem desiredCurrent_parent (p : Pkg) (cur : String) (listed : List Rev) :
    (desiredCurrent p cur listed).parent = some p.name := rfl
theorem desiredCurrent_image (p : Pkg) (cur : String) (listed : List Rev) :
    (desiredCurrent p cur listed).image = p.spec.source := rfl

theorem desiredCurrent_number (p : Pkg) (cur : String) (listed : List Rev) :
    maxRevision listed ≤ (desiredCurrent p cur listed).number := by
  simp only [desiredCurrent]
  split <;> omega

theorem desiredCurrent_state (p : Pkg) (cur : String) (listed : List Rev) (h : p.spec.policy ≠ .manual) :
    (desiredCurrent p cur listed).state = .active := by
  simp only [desiredCurrent]
  split
  · rfl
  · rename_i hh
    by_cases hs : ((findRev cur listed).getD newRev).state = .active
    · exact hs
    · exact absurd ⟨hs, h⟩ hh

/-- facts available when the current revision is applied -/
def CurFacts (W0 A0 : Prop) (pname : String) (l0 : List Rev) (cur : String) (maxR B : Int) (s : Store) : Prop :=
  I0 W0 A0 pname l0 cur s ∧ NoOther pname cur s.revs ∧ NumLe pname maxR s.revs ∧ NumLeO pname cur B s.revs

theorem applyCurrent_tri (W0 A0 : Prop) (l0 : List Rev) (cur : String) (vic : Option String)
    (p : Pkg) (listed : List Rev) (B : Int) (s : Store)
    (h : CurFacts W0 A0 p.name l0 cur (maxRevision listed) B s) :
    Tri (I0 W0 A0 p.name l0 cur) (Rdel vic) (Qmain p.name p cur (desiredCurrent p cur listed).number B)
      (applyCurrent p cur listed) s := by
  obtain ⟨hI, hNo, hN, hO⟩ := h
  unfold applyCurrent
  generalize hd : desiredCurrent p cur listed = d
  have hd1 : d.name = cur := hd ▸ desiredCurrent_name p cur listed
  have hd2 : d.parent = some p.name := hd ▸ desiredCurrent_parent p cur listed
  have hd3 : maxRevision listed ≤ d.number := hd ▸ desiredCurrent_number p cur listed
  have hd4 : p.spec.policy ≠ .manual → d.state = .active := fun hh => hd ▸ desiredCurrent_state p cur listed hh
  have hd5 : d.image = p.spec.source := hd ▸ desiredCurrent_image p cur listed
  have hd6 : d.extra = copiedExtra p.spec := hd ▸ rfl
  apply Tri.bind (Q' := fun s' out =>
    (∃ pr, out = .ok pr ∧ I0 W0 A0 p.name l0 cur s' ∧ NoOther p.name cur s'.revs ∧ pr ∈ s'.revs ∧ pr.name = cur ∧
      pr.parent = some p.name ∧ pr.number = d.number ∧ pr.state = d.state ∧ pr.image = d.image ∧
      NumLe p.name d.number s'.revs ∧ NumLeO p.name cur B s'.revs ∧
      (KeysNodup d.extra → LeafCovers d.extra pr.extra)) ∨ out = .conflict ∨ out = .err)
  · apply applyRev_tri
    · exact Rdel_get _ _
    · exact Rdel_patch _ _
    · exact Rdel_create _ _ _
    · exact hI
    · intro c hf _
      obtain ⟨hcm, hcn⟩ := findRev_some hf
      have hmn : (mergeRev c d).name = cur := by show c.name = cur; rw [hcn, hd1]
      have hI' := I0.setRev_cur (m := mergeRev c d) hI hmn hNo
      refine ⟨hI', .inl ⟨_, rfl, hI', NoOther_setRev hmn hNo, mem_setRev_self hcm rfl, hmn, ?_, rfl, rfl, rfl, ?_, ?_,
        fun hk => LeafCovers_merge d.extra c.extra hk⟩⟩
      · simp [mergeRev, hd2]
      · intro x hx lx
        rcases mem_setRev hx with ⟨e, _⟩ | ⟨hx', _⟩
        · subst e; exact Int.le_refl _
        · exact Int.le_trans (hN x hx' lx) hd3
      · intro x hx lx hne
        rcases mem_setRev hx with ⟨e, _⟩ | ⟨hx', _⟩
        · subst e; exact absurd hmn hne
        · exact hO x hx' lx hne
    · intro hf _
      have hmn : ({ d with deleting := false } : Rev).name = cur := hd1
      have hfresh : ∀ x ∈ s.revs, x.name ≠ ({ d with deleting := false } : Rev).name := findRev_none hf
      have hI' := I0.insert_cur (m := { d with deleting := false }) hI hmn hNo hfresh
      refine ⟨hI', .inl ⟨_, rfl, hI', NoOther_insertRev hmn hNo, mem_insertRev.mpr (.inl rfl), hmn, hd2, rfl, rfl, rfl, ?_, ?_,
        fun hk => LeafCovers_self d.extra hk⟩⟩
      · intro x hx lx
        rcases mem_insertRev.mp hx with e | hx'
        · subst e; exact Int.le_refl _
        · exact Int.le_trans (hN x hx' lx) hd3
      · intro x hx lx hne
        rcases mem_insertRev.mp hx with e | hx'
        · subst e; exact absurd hmn hne
        · exact hO x hx' lx hne
    · exact .inr (.inr rfl)
    · exact .inr (.inl rfl)
  · intro s' out hq
    rcases hq with ⟨pr, e, hI', hNo', hmem, hn, hpar, hnum, hst, himg, hN', hO', hcov⟩ | e | e
    · subst e
      have hPost : ∀ (l : List Rev) (m : Rev), m ∈ l → m.name = cur → m.parent = some p.name → m.number = d.number →
          m.state = d.state → m.image = d.image → NumLe p.name d.number l → NumLeO p.name cur B l →
          m.extra = pr.extra → m.labels = p.spec.labels →
          ∀ s'' : Store, s''.revs = l → Post p.name p cur d.number B s'' := by
        intro l m hm1 hm2 hm3 hm4 hm5 hm6 hm7 hm8 hm9 hm10 s'' e
        refine ⟨m, e ▸ hm1, hm2, hm3, ?_, ?_, ?_, hm4, e ▸ hm8, ?_, hm10⟩
        rotate_left 3
        · intro hk; rw [hm9]; exact hd6 ▸ hcov (hd6 ▸ hk)
        · intro x hx lx; rw [hm4]; exact hm7 x (e ▸ hx) lx
        · intro hh; rw [hm5]; exact hd4 hh
        · rw [hm6]; exact hd5
      show Tri _ _ _ (if pr.labels = p.spec.labels then _ else _) s'
      by_cases hl : pr.labels = p.spec.labels
      · rw [if_pos hl]
        exact finishStatus_tri W0 A0 p.name l0 cur vic p _ _ s' hI' (hPost _ pr hmem hn hpar hnum hst himg hN' hO' rfl hl s' rfl)
      · rw [if_neg hl]
        obtain ⟨c', hf'⟩ := findRev_isSome_of_mem (n := pr.name) hmem rfl
        have hmn : ({ pr with labels := p.spec.labels, deleting := c'.deleting } : Rev).name = cur := hn
        have hI'' := I0.setRev_cur (m := { pr with labels := p.spec.labels, deleting := c'.deleting }) hI' hmn hNo'
        have hex : exec s' (.updateRev { pr with labels := p.spec.labels }) =
            ({ s' with revs := setRev { pr with labels := p.spec.labels, deleting := c'.deleting } s'.revs },
             .rev { pr with labels := p.spec.labels, deleting := c'.deleting }) := by
          simp [exec, hf']
        refine ⟨⟨Rdel_update _ _, ?_, ?_⟩, ?_, ?_⟩
        · rw [hex]; exact hI''
        · rw [hex]
          apply finishStatus_tri W0 A0 p.name l0 cur vic p _ _ _ hI''
          apply hPost _ { pr with labels := p.spec.labels, deleting := c'.deleting }
            (mem_setRev_self (findRev_some hf').1 (findRev_some hf').2) hn hpar hnum hst himg _ _ rfl rfl _ rfl
          · intro x hx lx
            rcases mem_setRev hx with ⟨e, _⟩ | ⟨hx', _⟩
            · subst e; exact Int.le_of_eq hnum
            · exact hN' x hx' lx
          · intro x hx lx hne
            rcases mem_setRev hx with ⟨e, _⟩ | ⟨hx', _⟩
            · subst e; exact absurd hmn hne
            · exact hO' x hx' lx hne
        · exact Qmain_err _ _ _ _ _ _
        · exact Qmain_requeue _ _ _ _ _ _
    · subst e; exact Qmain_requeue _ _ _ _ _ _
    · subst e; exact Qmain_err _ _ _ _ _ _

theorem NoOther_of_Todo_nil {pname cur : String} {l : List Rev} (h : Todo pname cur l []) : NoOther pname cur l := by
  intro x hx ax
  by_cases hn : x.name = cur
  · exact hn
  · obtain ⟨t, ht, _⟩ := h x hx ax hn
    cases ht

theorem stage2_tri (W0 A0 : Prop) (l0 : List Rev) (cur : String) (p : Pkg) (B : Int) (s : Store)
    (hI : I0 W0 A0 p.name l0 cur s) (hB : NumLeO p.name cur B s.revs) :
    Tri (I0 W0 A0 p.name l0 cur)
      (Rdel ((gcVictim p.spec.limit cur (s.revs.filter (labelled p.name))).map Rev.name))
      (Qmain p.name p cur (desiredCurrent p cur (s.revs.filter (labelled p.name))).number B)
      (stage2 p cur (s.revs.filter (labelled p.name))) s := by
  generalize hl : s.revs.filter (labelled p.name) = listed
  have hmem : ∀ x, x ∈ listed ↔ x ∈ s.revs ∧ labelled p.name x = true := by
    intro x; rw [← hl]; exact List.mem_filter
  unfold stage2 stage2With
  apply Tri.bind (Q' := Qloop W0 A0 p.name l0 cur (maxRevision listed) B)
  · apply deactLoop_tri
    refine ⟨hI, ?_, ?_, ?_⟩
    · intro x hx ax _
      have hlab : labelled p.name x = true := by
        simp only [isActive, Bool.and_eq_true] at ax; exact ax.1
      have hst : x.state = .active := by
        simp only [isActive, Bool.and_eq_true, decide_eq_true_eq] at ax; exact ax.2
      exact ⟨x, (hmem x).mpr ⟨hx, hlab⟩, rfl, hst⟩
    · exact ⟨fun x hx lx => le_maxRevision ((hmem x).mpr ⟨hx, lx⟩), hB⟩
    · intro t ht
      have := (hmem t).mp ht
      refine ⟨?_, le_maxRevision ht, hB t this.1 this.2⟩
      simpa [labelled] using this.2
  · intro s' o hq
    rcases hq with ⟨e, hI', hT, hN, _⟩ | e | e
    · subst e
      have hNo := NoOther_of_Todo_nil hT
      show Tri _ _ _ (match gcVictim p.spec.limit cur listed with | some v => _ | none => _) s'
      cases hv : gcVictim p.spec.limit cur listed with
      | none => exact applyCurrent_tri W0 A0 l0 cur _ p listed B s' ⟨hI', hNo, hN.1, hN.2⟩
      | some v =>
        have hR : Rdel (Option.map Rev.name (some v)) (.deleteRev v.name) := by
          intro n e; cases e; rfl
        show Tri _ _ _ (Prog.call (.deleteRev v.name) _) s'
        cases hf : findRev v.name s'.revs with
        | none =>
          have hex : exec s' (.deleteRev v.name) = (s', .err .notFound) := by simp [exec, hf]
          refine ⟨⟨hR, ?_, ?_⟩, Qmain_err _ _ _ _ _ _, Qmain_err _ _ _ _ _ _⟩
          · rw [hex]; exact hI'
          · rw [hex]; exact Qmain_err _ _ _ _ _ _
        | some c =>
          obtain ⟨hcm, hcn⟩ := findRev_some hf
          by_cases hfin : c.fin = true
          · have hex : exec s' (.deleteRev v.name) =
                ({ s' with revs := setRev { c with deleting := true } s'.revs }, .ok) := by simp [exec, hf, hfin]
            have hsub : ActSub p.name (setRev { c with deleting := true } s'.revs) s'.revs :=
              ActSub_setRev (fun a => ⟨c, hcm, rfl, a⟩)
            have hI'' := I0.setRev_sub (m := { c with deleting := true }) hI' hcm rfl hsub
            refine ⟨⟨hR, ?_, ?_⟩, Qmain_err _ _ _ _ _ _, Qmain_err _ _ _ _ _ _⟩
            · rw [hex]; exact hI''
            · rw [hex]
              apply applyCurrent_tri W0 A0 l0 cur _ p listed B _ ⟨hI'', NoOther_of_ActSub hsub hNo, ?_, ?_⟩
              · intro x hx lx
                rcases mem_setRev hx with ⟨e, _⟩ | ⟨hx', _⟩
                · subst e; exact hN.1 c hcm lx
                · exact hN.1 x hx' lx
              · intro x hx lx hne
                rcases mem_setRev hx with ⟨e, _⟩ | ⟨hx', _⟩
                · subst e; exact hN.2 c hcm lx hne
                · exact hN.2 x hx' lx hne
          · have hex : exec s' (.deleteRev v.name) =
                ({ s' with revs := s'.revs.filter (fun r => r.name ≠ v.name) }, .ok) := by simp [exec, hf, hfin]
            have hI'' := I0.filter (fun r => r.name ≠ v.name) hI'
            refine ⟨⟨hR, ?_, ?_⟩, Qmain_err _ _ _ _ _ _, Qmain_err _ _ _ _ _ _⟩
            · rw [hex]; exact hI''
            · rw [hex]
              apply applyCurrent_tri W0 A0 l0 cur _ p listed B _
                ⟨hI'', NoOther_of_ActSub (ActSub_filter _ _ _) hNo, ?_, ?_⟩
              · intro x hx lx
                exact hN.1 x (List.mem_filter.mp hx).1 lx
              · intro x hx lx hne
                exact hN.2 x (List.mem_filter.mp hx).1 lx hne
    · subst e; exact Qmain_requeue _ _ _ _ _ _
    · subst e; exact Qmain_err _ _ _ _ _ _

/-- the revision name the reconcile resolves from store `s` ("" if none) -/
def curOf (env : Env) (s : Store) : String :=
  match s.pkg with
  | some p => match revisionName env p with
    | .ok c => c
    | .error _ => ""
  | none => ""

/-- the name of the revision history GC may delete in a reconcile started from `s` -/
def vicOf (env : Env) (pname : String) (s : Store) : Option String :=
  match s.pkg with
  | some p => match revisionName env p with
    | .ok c => if c = "" then none else (gcVictim p.spec.limit c (s.revs.filter (labelled pname))).map Rev.name
    | .error _ => none
  | none => none

def Qouter (env : Env) (pname : String) (B : Int) (s0 s' : Store) (r : Res) : Prop :=
  ∀ c a, r = .done c a →
    ∃ p, s0.pkg = some p ∧ p.name = pname ∧ revisionName env p = .ok c ∧
      Post pname p c (desiredCurrent p c (s0.revs.filter (labelled pname))).number B s'

theorem Qouter_of_ne {env : Env} {pname : String} {B : Int} {s0 s' : Store} {r : Res} (h : ∀ c a, r ≠ .done c a) :
    Qouter env pname B s0 s' r := fun c a e => absurd e (h c a)

theorem statusCall_tri {I : Store → Prop} {R : Req → Prop} {Q : Store → Res → Prop}
    (n : String) (st : Status) (r : Res) (s : Store)
    (hR : R (.statusPkg n st)) (hI : I (exec s (.statusPkg n st)).1)
    (hq : ∀ s', Q s' r) (hq' : ∀ s', Q s' .err) :
    Tri I R Q (.call (.statusPkg n st) fun | .ok => .ret r | _ => .ret .err) s := by
  refine ⟨⟨hR, hI, ?_⟩, hq' _, hq' _⟩
  rcases exec_statusPkg_resp s n st with e | e
  · rw [e]; exact hq _
  · rw [e]; exact hq' _

theorem reconcile_tri (env : Env) (pname : String) (B : Int) (s : Store)
    (hB : NumLeO pname (curOf env s) B s.revs) :
    Tri (I0 ((s.revs.map (·.name)).Nodup) (AMOl pname s.revs) pname s.revs (curOf env s))
      (Rdel (vicOf env pname s)) (Qouter env pname B s) (pkgReconcile env pname) s := by
  have hI : I0 ((s.revs.map (·.name)).Nodup) (AMOl pname s.revs) pname s.revs (curOf env s) s :=
    ⟨id, id, fun r hr => .inr ⟨r, hr, rfl⟩⟩
  have hne : ∀ (r : Res), (∀ c a, r ≠ .done c a) → ∀ s', Qouter env pname B s s' r :=
    fun r h s' => Qouter_of_ne h
  have herr := hne .err (by intro c a e; cases e)
  have hgone := hne .gone (by intro c a e; cases e)
  have hpaused := hne .paused (by intro c a e; cases e)
  have hrequeue := hne .requeue (by intro c a e; cases e)
  unfold pkgReconcile reconcileWith
  refine ⟨⟨(fun _ e => by cases e), ?_, ?_⟩, herr _, herr _⟩
  · simp only [exec]; split <;> (try split) <;> exact hI
  · cases hp : s.pkg with
    | none => simp only [exec, hp]; exact hgone _
    | some p =>
      by_cases hn : p.name = pname
      · have hex : exec s (.getPkg pname) = (s, .pkg p) := by simp [exec, hp, hn]
        rw [hex]
        show Tri _ _ _ (if p.spec.paused = true then _ else _) s
        by_cases hpa : p.spec.paused = true
        · rw [if_pos hpa]
          exact statusCall_tri _ _ _ _ (Rdel_status _ _ _) (I0_congr (exec_statusPkg_revs _ _ _) hI) hpaused herr
        · rw [if_neg hpa]
          by_cases hpc : p.status.pausedCond = true
          · rw [if_pos hpc]
            exact statusCall_tri _ _ _ _ (Rdel_status _ _ _) (I0_congr (exec_statusPkg_revs _ _ _) hI) hpaused herr
          · rw [if_neg hpc]
            refine ⟨⟨(fun _ e => by cases e), hI, ?_⟩, herr _, herr _⟩
            show Tri _ _ _ (Prog.call .listImageConfigs _) s
            refine ⟨⟨(fun _ e => by cases e), hI, ?_⟩, ?_, ?_⟩
            · show Tri _ _ _ (match revisionName env p with | .error _ => _ | .ok cur => _) s
              cases hr : revisionName env p with
              | error u =>
                exact statusCall_tri _ _ _ _ (Rdel_status _ _ _) (I0_congr (exec_statusPkg_revs _ _ _) hI) herr herr
              | ok cur =>
                show Tri _ _ _ (if cur = "" then _ else _) s
                by_cases hce : cur = ""
                · rw [if_pos hce]
                  exact statusCall_tri _ _ _ _ (Rdel_status _ _ _) (I0_congr (exec_statusPkg_revs _ _ _) hI) hrequeue herr
                · rw [if_neg hce]
                  have hcur : curOf env s = cur := by simp [curOf, hp, hr]
                  have hvic : vicOf env pname s =
                      (gcVictim p.spec.limit cur (s.revs.filter (labelled p.name))).map Rev.name := by
                    simp [vicOf, hp, hr, hce, hn]
                  rw [hvic, hcur]
                  rw [hcur] at hI hB
                  subst hn
                  show Tri _ _ _ (stage2 p cur (s.revs.filter (labelled p.name))) s
                  apply Tri.mono _ _ (stage2_tri _ _ _ cur p B s hI hB)
                  intro s' r hq c a e
                  obtain ⟨e1, hP⟩ := hq c a e
                  subst e1
                  exact ⟨p, hp, rfl, hr, hP⟩
            · exact ⟨⟨Rdel_status _ _ _, I0_congr (exec_statusPkg_revs _ _ _) hI, herr _⟩, herr _, herr _⟩
            · exact ⟨⟨Rdel_status _ _ _, I0_congr (exec_statusPkg_revs _ _ _) hI, herr _⟩, herr _, herr _⟩
      · have hex : exec s (.getPkg pname) = (s, .err .notFound) := by simp [exec, hp, hn]
        rw [hex]; exact hgone _

/-! ### from names to counts -/

theorem count_le_one_of_AMOl {pname : String} {l : List Rev} (hnd : (l.map (·.name)).Nodup) (h : AMOl pname l) :
    (l.filter (isActive pname)).length ≤ 1 := by
  have hnd' := nodup_filter_names (isActive pname) hnd
  match hf : l.filter (isActive pname) with
  | [] => simp
  | [a] => simp
  | a :: b :: t =>
    exfalso
    have ha : a ∈ l.filter (isActive pname) := by rw [hf]; simp
    have hb : b ∈ l.filter (isActive pname) := by rw [hf]; simp
    have e := h a (List.mem_filter.mp ha).1 b (List.mem_filter.mp hb).1 (List.mem_filter.mp ha).2 (List.mem_filter.mp hb).2
    rw [hf] at hnd'
    simp only [List.map_cons, List.nodup_cons, List.mem_cons, not_or] at hnd'
    exact hnd'.1.1 e

theorem AMOl_of_count_le_one {pname : String} {l : List Rev} (h : (l.filter (isActive pname)).length ≤ 1) :
    AMOl pname l := by
  intro r1 h1 r2 h2 a1 a2
  have m1 : r1 ∈ l.filter (isActive pname) := List.mem_filter.mpr ⟨h1, a1⟩
  have m2 : r2 ∈ l.filter (isActive pname) := List.mem_filter.mpr ⟨h2, a2⟩
  match hf : l.filter (isActive pname) with
  | [] => rw [hf] at m1; cases m1
  | [a] =>
    rw [hf] at m1 m2
    simp at m1 m2
    rw [m1, m2]
  | a :: b :: t => rw [hf] at h; simp at h

/-- the invariant of the property, on the whole store -/
def Inv (pname : String) (s : Store) : Prop := WF s ∧ (activeRevs pname s).length ≤ 1

theorem Inv_iff (pname : String) (s : Store) : Inv pname s ↔ (s.revs.map (·.name)).Nodup ∧ AMOl pname s.revs := by
  unfold Inv WF activeRevs
  constructor
  · rintro ⟨h1, h2⟩; exact ⟨h1, AMOl_of_count_le_one h2⟩
  · rintro ⟨h1, h2⟩; exact ⟨h1, count_le_one_of_AMOl h1 h2⟩

theorem reconcile_reach_I0 (env : Env) (pname : String) (plan : Plan) (k : Nat) (s : Store) :
    ∀ s' ∈ reach sem plan k (pkgReconcile env pname) s,
      I0 ((s.revs.map (·.name)).Nodup) (AMOl pname s.revs) pname s.revs (curOf env s) s' :=
  Tri.reach plan k _ s ⟨id, id, fun r hr => .inr ⟨r, hr, rfl⟩⟩
    (reconcile_tri env pname (maxRevision (s.revs.filter (labelled pname))) s
      (fun x hx lx _ => le_maxRevision (List.mem_filter.mpr ⟨hx, lx⟩)))

theorem reconcile_reach_Inv (env : Env) (pname : String) (plan : Plan) (k : Nat) (s : Store) (h : Inv pname s) :
    ∀ s' ∈ reach sem plan k (pkgReconcile env pname) s, Inv pname s' := by
  intro s' hs'
  obtain ⟨h1, h2⟩ := (Inv_iff pname s).mp h
  obtain ⟨i1, i2, _⟩ := reconcile_reach_I0 env pname plan k s s' hs'
  exact (Inv_iff pname s').mpr ⟨i1 h1, i2 h2⟩

theorem envStep_reach_Inv (a : EnvAct) (pname : String) (plan : Plan) (k : Nat) (s : Store) (h : Inv pname s) :
    ∀ s' ∈ reach sem plan k (envStep a) s, Inv pname s' := by
  apply Tri.reach (R := fun _ => True) (Q := fun _ _ => True) plan k _ s h
  refine ⟨⟨trivial, ?_, trivial⟩, trivial, trivial⟩
  obtain ⟨h1, h2⟩ := (Inv_iff pname s).mp h
  rw [Inv_iff]
  cases a with
  | editSpec sp =>
    simp only [exec]
    split <;> exact ⟨h1, h2⟩
  | finalize =>
    exact ⟨nodup_filter_names _ h1, AMOl_of_ActSub (ActSub_filter _ _ _) h2⟩
  | addFin n =>
    simp only [exec]
    constructor
    · have : (s.revs.map (fun r => if r.name = n then { r with fin := true } else r)).map (·.name) = s.revs.map (·.name) := by
        rw [List.map_map]
        apply List.map_congr_left
        intro r _
        simp only [Function.comp]
        split <;> rfl
      rw [this]; exact h1
    · apply AMOl_of_ActSub _ h2
      intro x hx ax
      obtain ⟨y, hy, e⟩ := List.mem_map.mp hx
      refine ⟨y, hy, ?_, ?_⟩
      · rw [← e]; split <;> rfl
      · rw [← e] at ax
        split at ax
        · simpa [isActive, labelled] using ax
        · exact ax

/-! ### the collector's choice -/

theorem oldestNonCurrent_none {cur : String} {l : List Rev} (h : oldestNonCurrent cur l = none) :
    ∀ x ∈ l, x.name = cur := by
  induction l with
  | nil => intro x hx; cases hx
  | cons y ys ih =>
    unfold oldestNonCurrent at h
    by_cases hy : y.name = cur
    · rw [if_pos hy] at h
      intro x hx
      rcases List.mem_cons.mp hx with e | hx
      · subst e; exact hy
      · exact ih h x hx
    · rw [if_neg hy] at h
      cases hb : oldestNonCurrent cur ys with
      | none => rw [hb] at h; simp at h
      | some b =>
        rw [hb] at h
        simp only [] at h
        split at h <;> simp at h

theorem oldestNonCurrent_spec {cur : String} {l : List Rev} {v : Rev} (h : oldestNonCurrent cur l = some v) :
    v ∈ l ∧ v.name ≠ cur ∧ ∀ x ∈ l, x.name ≠ cur → v.number ≤ x.number := by
  induction l generalizing v with
  | nil => simp [oldestNonCurrent] at h
  | cons r rest ih =>
    unfold oldestNonCurrent at h
    by_cases hc : r.name = cur
    · rw [if_pos hc] at h
      obtain ⟨h1, h2, h3⟩ := ih h
      refine ⟨List.mem_cons_of_mem _ h1, h2, ?_⟩
      intro x hx hne
      rcases List.mem_cons.mp hx with e | hx
      · subst e; exact absurd hc hne
      · exact h3 x hx hne
    · rw [if_neg hc] at h
      cases hb : oldestNonCurrent cur rest with
      | none =>
        rw [hb] at h
        simp only [Option.some.injEq] at h
        subst h
        refine ⟨List.mem_cons_self, hc, ?_⟩
        intro x hx hne
        rcases List.mem_cons.mp hx with e | hx
        · subst e; exact Int.le_refl _
        · exact absurd (oldestNonCurrent_none hb x hx) hne
      | some b =>
        rw [hb] at h
        obtain ⟨b1, b2, b3⟩ := ih hb
        simp only [] at h
        by_cases hlt : b.number < r.number
        · rw [if_pos hlt] at h
          simp only [Option.some.injEq] at h
          subst h
          refine ⟨List.mem_cons_of_mem _ b1, b2, ?_⟩
          intro x hx hne
          rcases List.mem_cons.mp hx with e | hx
          · subst e; omega
          · exact b3 x hx hne
        · rw [if_neg hlt] at h
          simp only [Option.some.injEq] at h
          subst h
          refine ⟨List.mem_cons_self, hc, ?_⟩
          intro x hx hne
          rcases List.mem_cons.mp hx with e | hx
          · subst e; exact Int.le_refl _
          · have := b3 x hx hne; omega

theorem gcVictim_some {limit : Option Int} {cur : String} {l : List Rev} {v : Rev} (h : gcVictim limit cur l = some v) :
    ∃ lim, limit = some lim ∧ lim ≠ 0 ∧ (l.length : Int) > lim + 1 ∧ oldestNonCurrent cur l = some v := by
  unfold gcVictim gcVictimWith at h
  cases limit with
  | none => simp at h
  | some lim =>
    simp only [] at h
    split at h
    · rename_i hc; exact ⟨lim, rfl, hc.1, hc.2, h⟩
    · simp at h

theorem applied_delete (env : Env) (pname : String) (plan : Plan) (k : Nat) (s : Store) (n : String)
    (h : Req.deleteRev n ∈ applied sem plan k (pkgReconcile env pname) s) :
    ∃ p cur v, s.pkg = some p ∧ revisionName env p = .ok cur ∧ cur ≠ "" ∧
      gcVictim p.spec.limit cur (s.revs.filter (labelled pname)) = some v ∧ v.name = n := by
  have hv : vicOf env pname s = some n :=
    Tri.applied plan k _ s (reconcile_tri env pname (maxRevision (s.revs.filter (labelled pname))) s
      (fun x hx lx _ => le_maxRevision (List.mem_filter.mpr ⟨hx, lx⟩))) _ h n rfl
  unfold vicOf at hv
  cases hp : s.pkg with
  | none => rw [hp] at hv; simp at hv
  | some p =>
    rw [hp] at hv
    simp only [] at hv
    cases hr : revisionName env p with
    | error u => rw [hr] at hv; simp at hv
    | ok cur =>
      rw [hr] at hv
      simp only [] at hv
      by_cases hce : cur = ""
      · rw [if_pos hce] at hv; simp at hv
      · rw [if_neg hce] at hv
        cases hg : gcVictim p.spec.limit cur (s.revs.filter (labelled pname)) with
        | none => rw [hg] at hv; simp at hv
        | some v =>
          rw [hg] at hv
          simp only [Option.map_some, Option.some.injEq] at hv
          exact ⟨p, cur, v, rfl, hr, hce, hg, hv⟩

/-! ### strictness of "numbered last" when revision numbers are distinct -/

def DistinctNumbers (pname : String) (l : List Rev) : Prop :=
  ∀ x ∈ l, ∀ y ∈ l, labelled pname x = true → labelled pname y = true → x.number = y.number → x.name = y.name

theorem desiredCurrent_number_eq (p : Pkg) (cur : String) (listed : List Rev) :
    (desiredCurrent p cur listed).number =
      if ((findRev cur listed).getD newRev).number < maxRevision listed ∨ maxRevision listed = 0
      then maxRevision listed + 1 else ((findRev cur listed).getD newRev).number := rfl

theorem strict_bound (pname : String) (p : Pkg) (cur : String) (l : List Rev) (hd : DistinctNumbers pname l) :
    NumLeO pname cur ((desiredCurrent p cur (l.filter (labelled pname))).number - 1) l := by
  intro x hx lx hne
  have hxl : x ∈ l.filter (labelled pname) := List.mem_filter.mpr ⟨hx, lx⟩
  have hmax := le_maxRevision hxl
  have h0 := maxRevision_nonneg (l.filter (labelled pname))
  rw [desiredCurrent_number_eq]
  split
  · omega
  · rename_i hc
    cases hf : findRev cur (l.filter (labelled pname)) with
    | none =>
      rw [hf] at hc
      simp only [Option.getD_none, newRev] at hc
      omega
    | some c =>
      rw [hf] at hc
      simp only [Option.getD_some] at hc ⊢
      obtain ⟨hcm, hcn⟩ := findRev_some hf
      have hcm' := List.mem_filter.mp hcm
      have hneq : x.number ≠ c.number := by
        intro e
        exact hne ((hd x hx c hcm'.1 lx hcm'.2 e).trans hcn)
      omega

/-- the bound on the non-current revisions used for the strict statement -/
def strictB (env : Env) (pname : String) (s : Store) : Int :=
  match s.pkg with
  | some p => (desiredCurrent p (curOf env s) (s.revs.filter (labelled pname))).number - 1
  | none => maxRevision (s.revs.filter (labelled pname))

theorem strictB_ok (env : Env) (pname : String) (s : Store) (hd : DistinctNumbers pname s.revs) :
    NumLeO pname (curOf env s) (strictB env pname s) s.revs := by
  unfold strictB
  cases hp : s.pkg with
  | none => exact fun x hx lx _ => le_maxRevision (List.mem_filter.mpr ⟨hx, lx⟩)
  | some p => exact strict_bound pname p _ s.revs hd

end Xp.C14

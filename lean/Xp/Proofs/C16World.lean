import Xp.Proofs.C16Refs
import Xp.Model.C16World
/-
C16: Establish in the world of `Model/C16World.lean` — third-party writes during the
validate phase (before each Get, between a Get and its dry run) and cached reads that
miss or lag, in addition to the interference with the establish phase.

The argument. (1) The validate phase itself still writes nothing: whatever the store
looks like after it differs from the initial store by third-party writes only (`TInv`),
and the revision's write log is untouched. (2) Whatever a goroutine of validate read —
an object of the store at that moment, or an older version out of the cache — is a
VERSION (`Seen`): it carries a resourceVersion handed out before, and a stored object
with that key and that resourceVersion is that very object. Later writes (third party
or revision) only hand out newer resourceVersions (`Frozen`), so `Seen` persists, and a
real update — which carries the resourceVersion read — can only ever replace the very
object it was computed from. That object was, at the end of the validate phase, an
object of the initial store or one the third party put; hence the classification
`OriginV`.
-/
namespace Xp.C16

/-! ### stores that differ by third-party writes only -/

theorem Frozen.trans {a b c : Store} (h1 : Frozen a b) (h2 : Frozen b c) : Frozen a c :=
  ⟨Nat.le_trans h1.le h2.le,
   fun x hx hlt => h1.old x (h2.old x hx (Nat.lt_of_lt_of_le hlt h1.le)) hlt⟩

theorem applyActs_frozen (s₀ s : Store) (as : List Act) (hf : Frozen s₀ s) : Frozen s₀ (applyActs s as) := by
  induction as generalizing s with
  | nil => exact hf
  | cons a as ih => rw [applyActs_cons]; exact ih _ (applyAct_frozen s₀ s a hf)

/-- `s` arose from `s₀` by third-party writes (puts within `P`) only: well formed, every
old resourceVersion still names the old object, the revision's write log is the same, and
every object is an object of `s₀` or one the third party put -/
structure TInv (P : Obj → Prop) (s₀ s : Store) : Prop where
  wf : WF s
  frozen : Frozen s₀ s
  log : s.log = s₀.log
  objs : ∀ o ∈ s.objs, o ∈ s₀.objs ∨ PutBy P o

theorem TInv.refl (P : Obj → Prop) (s : Store) (hw : WF s) : TInv P s s :=
  ⟨hw, Frozen.refl s, rfl, fun _ h => Or.inl h⟩

theorem TInv.act {P : Obj → Prop} {s₀ s : Store} (hi : TInv P s₀ s) (a : Act) (hP : ∀ o, a = .put o → P o) :
    TInv P s₀ (applyAct s a) := by
  refine ⟨applyAct_wf s a hi.wf, applyAct_frozen s₀ s a hi.frozen, by rw [applyAct_log, hi.log], ?_⟩
  intro o' ho'
  rcases applyAct_mem s a o' ho' with h | ⟨o, ha, he⟩
  · exact hi.objs o' h
  · subst he
    exact Or.inr ⟨o, hP o ha, rfl, rfl, rfl⟩

theorem TInv.acts {P : Obj → Prop} {s₀ s : Store} (hi : TInv P s₀ s) (as : List Act)
    (hP : ∀ o, Act.put o ∈ as → P o) : TInv P s₀ (applyActs s as) := by
  induction as generalizing s with
  | nil => exact hi
  | cons a as ih =>
    rw [applyActs_cons]
    exact ih (hi.act a fun o e => hP o (e ▸ List.mem_cons_self)) fun o h => hP o (List.mem_cons_of_mem _ h)

theorem TInv.mono {P P' : Obj → Prop} {s₀ s : Store} (h : ∀ a, P a → P' a) (hi : TInv P s₀ s) : TInv P' s₀ s :=
  ⟨hi.wf, hi.frozen, hi.log, fun o ho => (hi.objs o ho).imp id (PutBy.mono h)⟩

/-! ### versions -/

/-- `c₀` is a version the server handed out before `s`: its resourceVersion is older than
`s.nextRv`, and a stored object with its key and its resourceVersion is `c₀` itself -/
def Seen (s : Store) (c₀ : Obj) : Prop :=
  c₀.rv < s.nextRv ∧ ∀ c ∈ s.objs, c.key = c₀.key → c.rv = c₀.rv → c = c₀

theorem Seen.of_mem {s : Store} {c₀ : Obj} (hw : WF s) (h : c₀ ∈ s.objs) : Seen s c₀ :=
  ⟨hw.rvs _ h, fun c hc hk _ => hw.keys c hc c₀ h hk⟩

theorem Seen.mono {s s' : Store} {c₀ : Obj} (hf : Frozen s s') (h : Seen s c₀) : Seen s' c₀ :=
  ⟨Nat.lt_of_lt_of_le h.1 hf.le, fun c hc hk hrv => h.2 c (hf.old c hc (hrv ▸ h.1)) hk hrv⟩

/-- `CDInv` for the world: the mutated `current` kept from validate to establish describes a
version `c₀` (an object of the store at that moment, or an older version out of the cache) -/
def CDSeen (s : Store) (cd : CD) : Prop :=
  ∀ cur, cd.current = some cur → ∃ c₀, Seen s c₀ ∧ c₀.key = cd.desired.key ∧ cur.key = c₀.key ∧
    cur.rv = c₀.rv ∧ cur.body = c₀.body ∧ (∀ u, hasUid c₀.owners u → hasUid cur.owners u) ∧
    (∀ u, ctrl cur.owners u → ctrl c₀.owners u)

theorem CDSeen.mono {s s' : Store} {cd : CD} (hf : Frozen s s') (h : CDSeen s cd) : CDSeen s' cd := by
  intro cur hcur
  obtain ⟨c₀, hs, r⟩ := h cur hcur
  exact ⟨c₀, hs.mono hf, r⟩

theorem cdseen_key (s : Store) (cd : CD) (h : CDSeen s cd) : ∀ cur, cd.current = some cur → cur.key = cd.desired.key := by
  intro cur hcur
  obtain ⟨c₀, _, hk₀, hck, _⟩ := h cur hcur
  exact hck.trans hk₀

/-! ### the establish phase, relative to the store `sv` the validate phase ended in -/

/-- where an object of the final store comes from, relative to the objects `l₀` Establish
started from: `Origin` plus the case the validate-phase interference adds — an object the
third party put, validated, and then rewritten by the revision within the role law -/
inductive OriginV (p : Parent) (control : Bool) (P : Obj → Prop) (l₀ : List Obj) (o' : Obj) : Prop where
  /-- untouched -/
  | same : o' ∈ l₀ → OriginV p control P l₀ o'
  /-- an object of `l₀`, rewritten by the revision within the role law `QE` -/
  | rewritten (o : Obj) : o ∈ l₀ → o.key = o'.key → QE p control o o' → OriginV p control P l₀ o'
  /-- created by the revision within the role law `CE` (which requires `control = true`) -/
  | created : CE p control o' → OriginV p control P l₀ o'
  /-- written by the third party -/
  | third : PutBy P o' → OriginV p control P l₀ o'
  /-- written by the third party, then rewritten by the revision within the role law `QE` -/
  | rethird (o : Obj) : PutBy P o → o.key = o'.key → QE p control o o' → OriginV p control P l₀ o'

structure VIInv (p : Parent) (control : Bool) (P : Obj → Prop) (l₀ : List Obj) (sv s : Store) : Prop where
  wf : WF s
  frozen : Frozen sv s
  objs : ∀ o' ∈ s.objs, OriginV p control P l₀ o'

theorem VIInv.act {p : Parent} {control : Bool} {P : Obj → Prop} {l₀ : List Obj} {sv s : Store}
    (hi : VIInv p control P l₀ sv s) (a : Act) (hP : ∀ o, a = .put o → P o) :
    VIInv p control P l₀ sv (applyAct s a) := by
  refine ⟨applyAct_wf s a hi.wf, applyAct_frozen sv s a hi.frozen, ?_⟩
  intro o' ho'
  rcases applyAct_mem s a o' ho' with h | ⟨o, ha, he⟩
  · exact hi.objs o' h
  · subst he
    exact .third ⟨o, hP o ha, rfl, rfl, rfl⟩

theorem VIInv.acts {p : Parent} {control : Bool} {P : Obj → Prop} {l₀ : List Obj} {sv s : Store}
    (hi : VIInv p control P l₀ sv s) (as : List Act) (hP : ∀ o, Act.put o ∈ as → P o) :
    VIInv p control P l₀ sv (applyActs s as) := by
  induction as generalizing s with
  | nil => exact hi
  | cons a as ih =>
    rw [applyActs_cons]
    exact ih (hi.act a fun o e => hP o (e ▸ List.mem_cons_self)) fun o h => hP o (List.mem_cons_of_mem _ h)

theorem VIInv.create {p : Parent} {control : Bool} {P : Obj → Prop} {l₀ : List Obj} {sv s s' : Store} {o : Obj}
    (hi : VIInv p control P l₀ sv s) (he : CEffect s s' o)
    (hC : s.get o.key = none → ctrlCount o.owners ≤ 1 → CE p control { o with rv := s.nextRv }) :
    VIInv p control P l₀ sv s' := by
  refine ⟨effect_wf s s' o he.toEffect hi.wf, effect_frozen sv s s' o he.toEffect hi.frozen, ?_⟩
  intro o' ho'
  cases he with
  | nothing h1 _ => rw [h1] at ho'; exact hi.objs o' ho'
  | created h1 h2 h3 _ =>
    rw [h3] at ho'
    rcases List.mem_append.mp ho' with h | h
    · exact hi.objs o' h
    · simp only [List.mem_singleton] at h
      subst h
      exact .created (hC h1 h2)

theorem VIInv.update {p : Parent} {control : Bool} {P : Obj → Prop} {l₀ : List Obj} {sv s s' : Store} {o : Obj}
    (hi : VIInv p control P l₀ sv s) (he : UEffect s s' o)
    (hQ : ∀ c, s.get o.key = some c → c.rv = o.rv → ctrlCount o.owners ≤ 1 →
      (c ∈ l₀ ∨ PutBy P c) ∧ QE p control c { o with rv := s.nextRv }) :
    VIInv p control P l₀ sv s' := by
  refine ⟨effect_wf s s' o he.toEffect hi.wf, effect_frozen sv s s' o he.toEffect hi.frozen, ?_⟩
  intro o' ho'
  cases he with
  | nothing h1 _ => rw [h1] at ho'; exact hi.objs o' ho'
  | replaced c h1 h2 h3 h4 _ =>
    rw [h4] at ho'
    obtain ⟨x, hx, hx'⟩ := List.mem_map.mp ho'
    by_cases e : x.key = o.key
    · simp only [e, if_true] at hx'
      subst hx'
      obtain ⟨hc0, hq⟩ := hQ c h1 h2 h3
      rcases hc0 with hc0 | hc0
      · exact .rewritten c hc0 (get_key s _ c h1) hq
      · exact .rethird c hc0 (get_key s _ c h1) hq
    · simp only [e, if_false] at hx'
      subst hx'
      exact hi.objs x hx

theorem establishOneI_vinv (rejects : Obj → Bool) (fault : Fault) (tp : Interf) (p : Parent) (control : Bool)
    (P : Obj → Prop) (l₀ : List Obj) (sv s : Store) (i : Nat) (cd : CD)
    (hbase : ∀ o ∈ sv.objs, o ∈ l₀ ∨ PutBy P o)
    (hP : ∀ o, Act.put o ∈ tp.pre i → P o) (hi : VIInv p control P l₀ sv s) (hcd : CDSeen sv cd) :
    VIInv p control P l₀ sv (establishOneI rejects fault tp p control s i cd).1 := by
  have hiA := hi.acts (tp.pre i) hP
  unfold establishOneI
  split
  · split
    · rename_i hc
      rw [liftW_fst]
      refine hiA.create (apiCreate_effect _ _ _ _ _) ?_
      intro _ hv
      subst hc
      exact createRefs_CE p cd.desired _ hv
    · exact hi
  · rename_i cur hcur
    split
    · exact hi
    · rename_i sub hsub
      rw [liftW_fst]
      obtain ⟨c₀, hseen, hk₀, hck, hrv, hbody, hu, hc⟩ := hcd cur hcur
      have ⟨hsk, hsrv⟩ := updateSub_key p control cur cd.desired sub hsub
      have hsubkey : sub.key = c₀.key := by
        rw [hsk]; cases control <;> simp [hck, hk₀]
      refine hiA.update (apiUpdate_effect _ _ _ _ _) ?_
      intro c hget hrvc hv
      -- the stored object carrying this resourceVersion is still the version validate read
      have hcmem := get_mem _ _ c hget
      have hckey := get_key _ _ c hget
      have hrv' : c.rv = c₀.rv := by rw [hrvc, hsrv, hrv]
      have hlt : c.rv < sv.nextRv := by rw [hrv']; exact hseen.1
      have hc0 : c ∈ sv.objs := hiA.frozen.old c hcmem hlt
      have : c = c₀ := hseen.2 c hc0 (hckey.trans hsubkey) hrv'
      subst this
      exact ⟨hbase c hc0, updateSub_QE p control c cur cd.desired sub _ hck hk₀ hbody hu hc hsub hv⟩

theorem establishAllI_vinv (rejects : Obj → Bool) (fault : Fault) (tp : Interf) (p : Parent) (control : Bool)
    (P : Obj → Prop) (l₀ : List Obj) (sv s : Store) (ys : List (Nat × CD))
    (hbase : ∀ o ∈ sv.objs, o ∈ l₀ ∨ PutBy P o)
    (hP : ∀ i o, Act.put o ∈ tp.pre i → P o) (hi : VIInv p control P l₀ sv s)
    (hcd : ∀ y ∈ ys, CDSeen sv y.2) :
    VIInv p control P l₀ sv (establishAllI rejects fault tp p control s ys).1 := by
  induction ys generalizing s with
  | nil => exact hi
  | cons y rest ih =>
    obtain ⟨i, cd⟩ := y
    have h1 := establishOneI_vinv rejects fault tp p control P l₀ sv s i cd hbase (hP i) hi (hcd (i, cd) List.mem_cons_self)
    have hrest : ∀ y ∈ rest, CDSeen sv y.2 := fun y hy => hcd y (List.mem_cons_of_mem _ hy)
    unfold establishAllI
    split <;> rename_i s1 _ heq <;> (rw [heq] at h1; simp only at h1)
    · exact h1
    · have h2 := ih s1 h1 hrest
      split <;> rename_i s2 _ heq2 <;> (rw [heq2] at h2; exact h2)
    · have h2 := ih s1 h1 hrest
      split <;> rename_i s2 _ heq2 <;> (rw [heq2] at h2; exact h2)

/-! ### the validate phase in the world -/

/-- the third party's puts during the validate phase -/
def VInterf.Puts (vi : VInterf) (a : Obj) : Prop := ∃ i, Act.put a ∈ vi.get i ∨ Act.put a ∈ vi.dry i

/-- what the cache may serve: an older version of the object asked for, handed out before
the call started -/
def StaleOK (s : Store) (vi : VInterf) (xs : List (Nat × Desired)) : Prop :=
  ∀ x ∈ xs, ∀ v, vi.stale x.1 = some (some v) → v.key = x.2.key ∧ Seen s v

theorem validateGoV_tinv (rejects : Obj → Bool) (fault : Fault) (vi : VInterf) (p : Parent) (control : Bool)
    (P : Obj → Prop) (s₀ s : Store) (i : Nat) (d : Desired)
    (hP : ∀ o, (Act.put o ∈ vi.get i ∨ Act.put o ∈ vi.dry i) → P o) (hi : TInv P s₀ s) :
    TInv P s₀ (validateGoV rejects fault vi p control s i d).1 := by
  have h1 : TInv P s₀ (applyActs s (vi.get i)) := hi.acts _ fun o h => hP o (Or.inl h)
  have h2 : TInv P s₀ (applyActs (applyActs s (vi.get i)) (vi.dry i)) := h1.acts _ fun o h => hP o (Or.inr h)
  unfold validateGoV
  dsimp only
  split <;> try exact h1
  split
  · split
    · rw [liftW_fst, apiCreate_dry]; exact h2
    · exact h1
  · split
    · exact h1
    · rw [liftW_fst, apiUpdate_dry]; exact h2

theorem validateOneV_tinv (rejects : Obj → Bool) (fault : Fault) (vi : VInterf) (p : Parent) (control : Bool)
    (P : Obj → Prop) (s₀ s : Store) (i : Nat) (d : Desired)
    (hP : ∀ o, (Act.put o ∈ vi.get i ∨ Act.put o ∈ vi.dry i) → P o) (hi : TInv P s₀ s) :
    TInv P s₀ (validateOneV rejects fault vi p control s i d).1 := by
  unfold validateOneV
  split
  · exact hi
  · exact validateGoV_tinv rejects fault vi p control P s₀ s i d hP hi

theorem validateAllV_tinv (rejects : Obj → Bool) (fault : Fault) (vi : VInterf) (p : Parent) (control : Bool)
    (P : Obj → Prop) (s₀ s : Store) (xs : List (Nat × Desired))
    (hP : ∀ a, vi.Puts a → P a) (hi : TInv P s₀ s) :
    TInv P s₀ (validateAllV rejects fault vi p control s xs).1 := by
  induction xs generalizing s with
  | nil => exact hi
  | cons x rest ih =>
    obtain ⟨i, d⟩ := x
    have h1 := validateOneV_tinv rejects fault vi p control P s₀ s i d (fun o h => hP o ⟨i, h⟩) hi
    unfold validateAllV
    split <;> rename_i s1 _ heq <;> (rw [heq] at h1; simp only at h1)
    · exact h1
    · have h2 := ih s1 h1
      split <;> rename_i s2 _ heq2 <;> (try rename_i heq3) <;> (rw [heq2] at h2; exact h2)
    · have h2 := ih s1 h1
      split <;> rename_i s2 _ heq2 <;> (rw [heq2] at h2; exact h2)

theorem viewOf_some (vi : VInterf) (s₀ s1 : Store) (i : Nat) (d : Desired) (cur : Obj)
    (hw : WF s1) (hf : Frozen s₀ s1)
    (hst : ∀ v, vi.stale i = some (some v) → v.key = d.key ∧ Seen s₀ v)
    (h : viewOf vi s1 i d = some cur) : cur.key = d.key ∧ Seen s1 cur := by
  unfold viewOf at h
  split at h
  · exact ⟨get_key s1 _ cur h, Seen.of_mem hw (get_mem s1 _ cur h)⟩
  · rename_i v hv
    subst h
    obtain ⟨hk, hs⟩ := hst cur hv
    exact ⟨hk, hs.mono hf⟩

theorem validateGoV_cdseen (rejects : Obj → Bool) (fault : Fault) (vi : VInterf) (p : Parent) (control : Bool)
    (P : Obj → Prop) (s₀ s : Store) (i : Nat) (d : Desired) (cd : CD) (hi : TInv P s₀ s)
    (hP : ∀ o, (Act.put o ∈ vi.get i ∨ Act.put o ∈ vi.dry i) → P o)
    (hst : ∀ v, vi.stale i = some (some v) → v.key = d.key ∧ Seen s₀ v)
    (h : (validateGoV rejects fault vi p control s i d).2 = .ok cd) :
    CDSeen (validateGoV rejects fault vi p control s i d).1 cd := by
  have h1 : TInv P s₀ (applyActs s (vi.get i)) := hi.acts _ fun o h => hP o (Or.inl h)
  have hf2 : Frozen (applyActs s (vi.get i)) (applyActs (applyActs s (vi.get i)) (vi.dry i)) :=
    applyActs_frozen _ _ _ (Frozen.refl _)
  unfold validateGoV at h ⊢
  dsimp only at h ⊢
  split at h <;> try (simp at h; done)
  split at h
  · split at h
    · have := liftW_ok _ _ _ h
      subst this
      intro cur hcur; cases hcur
    · simp only [R.ok.injEq] at h
      subst h
      intro cur hcur; cases hcur
  · rename_i c₀ hview
    obtain ⟨hkey, hseen⟩ := viewOf_some vi s₀ _ i d c₀ h1.wf h1.frozen hst hview
    split at h
    · simp at h
    · rename_i sub hsub
      have := liftW_ok _ _ _ h
      subst this
      rw [liftW_fst, apiUpdate_dry]
      have hseen2 := hseen.mono hf2
      intro cur hcur
      cases control with
      | true =>
        simp only [if_true, Option.some.injEq] at hcur
        subst hcur
        have ⟨hsk, _⟩ := updateSub_key p true c₀ (desiredObj d) sub hsub
        refine ⟨c₀, hseen2, ?_, rfl, rfl, rfl, fun u hu => hasUid_withPkg p _ _ hu, fun u hu => ctrl_withPkg p _ _ hu⟩
        simp only [if_true]
        rw [hsk]
        simp [desiredObj, hkey]
      | false =>
        simp only [Bool.false_eq_true, if_false, Option.some.injEq] at hcur
        subst hcur
        rw [updateSub_false] at hsub
        simp only [Except.ok.injEq] at hsub
        subst hsub
        refine ⟨c₀, hseen2, ?_, rfl, rfl, rfl, fun u hu => hasUid_addOwner _ _ _ (hasUid_withPkg p _ _ hu),
          fun u hu => ctrl_withPkg p _ _ (ctrl_addOwner_of_not _ _ _ rfl hu)⟩
        simp [desiredObj, hkey]

theorem validateOneV_cdseen (rejects : Obj → Bool) (fault : Fault) (vi : VInterf) (p : Parent) (control : Bool)
    (P : Obj → Prop) (s₀ s : Store) (i : Nat) (d : Desired) (cd : CD) (hi : TInv P s₀ s)
    (hP : ∀ o, (Act.put o ∈ vi.get i ∨ Act.put o ∈ vi.dry i) → P o)
    (hst : ∀ v, vi.stale i = some (some v) → v.key = d.key ∧ Seen s₀ v)
    (h : (validateOneV rejects fault vi p control s i d).2 = .ok cd) :
    CDSeen (validateOneV rejects fault vi p control s i d).1 cd := by
  unfold validateOneV at h ⊢
  split at h
  · simp at h
  · rename_i hn
    rw [if_neg hn]
    exact validateGoV_cdseen rejects fault vi p control P s₀ s i d cd hi hP hst h

theorem validateAllV_cdseen (rejects : Obj → Bool) (fault : Fault) (vi : VInterf) (p : Parent) (control : Bool)
    (P : Obj → Prop) (s₀ s : Store) (xs : List (Nat × Desired)) (cds : List (Nat × CD)) (hi : TInv P s₀ s)
    (hP : ∀ a, vi.Puts a → P a) (hst : StaleOK s₀ vi xs)
    (h : (validateAllV rejects fault vi p control s xs).2 = .ok cds) :
    ∀ x ∈ cds, CDSeen (validateAllV rejects fault vi p control s xs).1 x.2 := by
  induction xs generalizing s cds with
  | nil =>
    simp [validateAllV] at h
    subst h
    intro x hx; cases hx
  | cons x rest ih =>
    obtain ⟨i, d⟩ := x
    have hPi : ∀ o, (Act.put o ∈ vi.get i ∨ Act.put o ∈ vi.dry i) → P o := fun o h => hP o ⟨i, h⟩
    have hsti := hst (i, d) List.mem_cons_self
    have hstr : StaleOK s₀ vi rest := fun x hx => hst x (List.mem_cons_of_mem _ hx)
    have h1 := validateOneV_tinv rejects fault vi p control P s₀ s i d hPi hi
    have hc1 := validateOneV_cdseen rejects fault vi p control P s₀ s i d
    unfold validateAllV at h ⊢
    split at h <;> rename_i s1 _ heq <;> (rw [heq] at h1 hc1; simp only at h1 hc1)
    · simp at h
    · split at h <;> simp at h
    · rename_i cd
      have hcd := hc1 cd hi hPi hsti rfl
      have ht := validateAllV_tinv rejects fault vi p control P s1 s1 rest hP (TInv.refl P s1 h1.wf)
      split at h <;> rename_i s2 _ heq2
      · simp only [R.ok.injEq] at h
        subst h
        rename_i cds'
        have hih := ih s1 cds' h1 hstr (by rw [heq2])
        rw [heq2] at hih ht
        simp only at hih ht ⊢
        intro x hx
        rcases List.mem_cons.mp hx with e | e
        · subst e; exact hcd.mono ht.frozen
        · exact hih x e
      · simp at h
      · simp at h

/-- the validate phase in the world writes nothing: the store it ends in differs from the
initial store by third-party writes only, and the revision's write log is unchanged -/
theorem validateAllV_writes_nothing (rejects : Obj → Bool) (fault : Fault) (vi : VInterf) (p : Parent) (control : Bool)
    (s : Store) (xs : List (Nat × Desired)) (hw : WF s) :
    TInv vi.Puts s (validateAllV rejects fault vi p control s xs).1 :=
  validateAllV_tinv rejects fault vi p control vi.Puts s s xs (fun _ h => h) (TInv.refl _ s hw)

/-! ### Establish in the world: the master invariant -/

/-- the third party's puts during one Establish call in the world -/
def EPuts (vi : VInterf) (tp : Interf) (a : Obj) : Prop := vi.Puts a ∨ tp.Puts a

structure EVInv (p : Parent) (control : Bool) (P : Obj → Prop) (s s' : Store) : Prop where
  wf : WF s'
  frozen : Frozen s s'
  objs : ∀ o' ∈ s'.objs, OriginV p control P s.objs o'

theorem EVInv.ofTInv {p : Parent} {control : Bool} {P : Obj → Prop} {s s' : Store} (h : TInv P s s') :
    EVInv p control P s s' :=
  ⟨h.wf, h.frozen, fun o ho => (h.objs o ho).elim .same .third⟩

theorem establishCoreV_inv (rejects : Obj → Bool) (fault : Fault) (vi : VInterf) (tp : Interf) (p : Parent) (control : Bool)
    (s : Store) (objs : List Desired) (vorder eorder : List Nat) (hw : WF s)
    (hst : StaleOK s vi (pick objs vorder)) :
    EVInv p control (EPuts vi tp) s (establishCoreV rejects fault vi tp p control s objs vorder eorder).1 := by
  have ht := validateAllV_tinv rejects fault vi p control (EPuts vi tp) s s (pick objs vorder)
    (fun _ h => Or.inl h) (TInv.refl _ s hw)
  have hc := validateAllV_cdseen rejects fault vi p control (EPuts vi tp) s s (pick objs vorder)
  unfold establishCoreV
  split
  · rename_i sv cds heq
    rw [heq] at ht hc
    simp only at ht hc
    have hcds := hc cds (TInv.refl _ s hw) (fun _ h => Or.inl h) hst rfl
    have h0 : VIInv p control (EPuts vi tp) s.objs sv sv :=
      ⟨ht.wf, Frozen.refl sv, fun o ho => (ht.objs o ho).elim .same .third⟩
    have hfin := establishAllI_vinv rejects fault tp p control (EPuts vi tp) s.objs sv _ (pickCD cds eorder) ht.objs
      (fun i o h => Or.inr (Or.inr ⟨i, h⟩))
      (h0.acts tp.mid fun o h => Or.inr (Or.inl h))
      (fun y hy => hcds y (mem_pickCD cds eorder y hy))
    exact ⟨hfin.wf, ht.frozen.trans hfin.frozen, hfin.objs⟩
  · rename_i sv e heq
    rw [heq] at ht
    exact EVInv.ofTInv ht
  · rename_i sv heq
    rw [heq] at ht
    exact EVInv.ofTInv ht

/-- Master invariant of Establish in the world: for every fault plan, completion order,
third-party interference during validate / between the phases / during establish, and every
cache staleness of the validate-phase reads. -/
theorem establishV_inv (rejects : Obj → Bool) (fault : Fault) (vi : VInterf) (tp : Interf) (p : Parent) (control : Bool)
    (s : Store) (objs : List Desired) (vorder eorder : List Nat) (hw : WF s)
    (hst : StaleOK s vi (pick objs vorder)) :
    EVInv p control (EPuts vi tp) s (establishV rejects fault vi tp p control s objs vorder eorder).1 := by
  unfold establishV
  split
  · exact EVInv.ofTInv (TInv.refl _ s hw)
  · exact EVInv.ofTInv (TInv.refl _ s hw)
  · exact establishCoreV_inv rejects fault vi tp p control s objs vorder eorder hw hst

/-- The revision's own non-dry-run writes during Establish in the world: the log only grows,
and unless `control` it grows by updates only. -/
theorem establishV_log (rejects : Obj → Bool) (fault : Fault) (vi : VInterf) (tp : Interf) (p : Parent) (control : Bool)
    (s : Store) (objs : List Desired) (vorder eorder : List Nat) (hw : WF s) :
    LogExt control s.log (establishV rejects fault vi tp p control s objs vorder eorder).1.log := by
  unfold establishV
  split
  · exact LogExt.refl _ _
  · exact LogExt.refl _ _
  · unfold establishCoreV
    have ht := validateAllV_writes_nothing rejects fault vi p control s (pick objs vorder) hw
    split
    · rename_i sv cds heq
      rw [heq] at ht
      have := establishAllI_log rejects fault tp p control (applyActs sv tp.mid) (pickCD cds eorder)
      rw [applyActs_log, ht.log] at this
      exact this
    · rename_i sv _ heq
      rw [heq] at ht
      rw [ht.log]
      exact LogExt.refl _ _
    · rename_i sv heq
      rw [heq] at ht
      rw [ht.log]
      exact LogExt.refl _ _

/-- a failed validate phase: Establish stops there; the revision has written nothing -/
theorem establishV_validate_failed (rejects : Obj → Bool) (fault : Fault) (vi : VInterf) (tp : Interf) (p : Parent) (control : Bool)
    (s : Store) (objs : List Desired) (vorder eorder : List Nat) (hw : WF s)
    (hf : (validateAllV rejects fault vi p control s (pick objs vorder)).2.failed) :
    TInv vi.Puts s (establishV rejects fault vi tp p control s objs vorder eorder).1 ∧
    ∀ refs, (establishV rejects fault vi tp p control s objs vorder eorder).2 ≠ .ok refs := by
  have ht := validateAllV_writes_nothing rejects fault vi p control s (pick objs vorder) hw
  unfold establishV
  split
  · exact ⟨TInv.refl _ s hw, fun _ h => by cases h⟩
  · exact ⟨TInv.refl _ s hw, fun _ h => by cases h⟩
  · unfold establishCoreV
    split <;> rename_i heq <;> rw [heq] at ht hf
    · exact absurd hf (by simp [R.failed])
    · exact ⟨ht, fun _ h => by cases h⟩
    · exact ⟨ht, fun _ h => by cases h⟩

/-! ### a blocked object whose key the third party leaves alone during validation -/

/-- no validate-phase write of the third party concerns key `k` -/
def VInterf.Quiet (vi : VInterf) (k : String) : Prop := ∀ i a, (a ∈ vi.get i ∨ a ∈ vi.dry i) → a.key ≠ k

theorem find_filter_ne (l : List Obj) (k k' : String) (h : k' ≠ k) :
    (l.filter fun x => x.key != k').find? (fun o => o.key = k) = l.find? (fun o => o.key = k) := by
  induction l with
  | nil => rfl
  | cons x xs ih =>
    rw [List.filter_cons]
    by_cases e' : (x.key != k') = true
    · rw [if_pos e', List.find?_cons, List.find?_cons, ih]
    · rw [if_neg e', ih, List.find?_cons]
      have hk : x.key = k' := by simpa using e'
      have hne : ¬ (x.key = k) := by rw [hk]; exact h
      simp [hne]

theorem applyAct_get_ne (s : Store) (a : Act) (k : String) (h : a.key ≠ k) : (applyAct s a).get k = s.get k := by
  cases a with
  | del k' =>
    simp only [Act.key] at h
    simp only [applyAct, Store.get]
    exact find_filter_ne s.objs k k' h
  | put o =>
    simp only [Act.key] at h
    simp only [applyAct, Store.get, List.find?_append]
    rw [find_filter_ne s.objs k o.key h]
    simp [List.find?, h]

theorem applyActs_get_ne (s : Store) (as : List Act) (k : String) (h : ∀ a ∈ as, a.key ≠ k) :
    (applyActs s as).get k = s.get k := by
  induction as generalizing s with
  | nil => rfl
  | cons a as ih =>
    rw [applyActs_cons, ih _ fun a ha => h a (List.mem_cons_of_mem _ ha),
      applyAct_get_ne s a k (h a List.mem_cons_self)]

theorem validateGoV_get (rejects : Obj → Bool) (fault : Fault) (vi : VInterf) (p : Parent) (control : Bool)
    (s : Store) (i : Nat) (d : Desired) (k : String) (hq : vi.Quiet k) :
    (validateGoV rejects fault vi p control s i d).1.get k = s.get k := by
  have h1 : (applyActs s (vi.get i)).get k = s.get k := applyActs_get_ne _ _ _ fun a ha => hq i a (Or.inl ha)
  have h2 : (applyActs (applyActs s (vi.get i)) (vi.dry i)).get k = s.get k := by
    rw [applyActs_get_ne _ _ _ fun a ha => hq i a (Or.inr ha), h1]
  unfold validateGoV
  dsimp only
  split <;> try exact h1
  split
  · split
    · rw [liftW_fst, apiCreate_dry]; exact h2
    · exact h1
  · split
    · exact h1
    · rw [liftW_fst, apiUpdate_dry]; exact h2

theorem validateOneV_get (rejects : Obj → Bool) (fault : Fault) (vi : VInterf) (p : Parent) (control : Bool)
    (s : Store) (i : Nat) (d : Desired) (k : String) (hq : vi.Quiet k) :
    (validateOneV rejects fault vi p control s i d).1.get k = s.get k := by
  unfold validateOneV
  split
  · rfl
  · exact validateGoV_get rejects fault vi p control s i d k hq

/-- "blocked" only looks at the stored object of `d`'s key -/
theorem blocked_congr (rejects : Obj → Bool) (p : Parent) (control : Bool) (s s' : Store) (d : Desired)
    (h : s'.get d.key = s.get d.key)
    (hb : (control = true ∧ ForeignControlled p s d) ∨ (∃ o, submission p control s d = some o ∧ rejects o = true)) :
    (control = true ∧ ForeignControlled p s' d) ∨ (∃ o, submission p control s' d = some o ∧ rejects o = true) := by
  rcases hb with ⟨hc, cur, hcur, r⟩ | ⟨o, ho, hr⟩
  · exact Or.inl ⟨hc, cur, by rw [h]; exact hcur, r⟩
  · refine Or.inr ⟨o, ?_, hr⟩
    unfold submission at ho ⊢
    rw [h]
    exact ho

/-- The goroutine of a blocked object fails in the world too, provided its own read is not
stale and the third party's writes right before that read leave its key alone. -/
theorem validateGoV_blocked (rejects : Obj → Bool) (fault : Fault) (vi : VInterf) (p : Parent) (control : Bool)
    (s : Store) (i : Nat) (d : Desired) (hq : vi.Quiet d.key) (hs : vi.stale i = none)
    (hb : (control = true ∧ ForeignControlled p s d) ∨
          (∃ o, submission p control s d = some o ∧ rejects o = true)) :
    (validateGoV rejects fault vi p control s i d).2.failed := by
  have hg : (applyActs s (vi.get i)).get d.key = s.get d.key := applyActs_get_ne _ _ _ fun a ha => hq i a (Or.inl ha)
  have hb1 := blocked_congr rejects p control s (applyActs s (vi.get i)) d hg hb
  have hview : viewOf vi (applyActs s (vi.get i)) i d = (applyActs s (vi.get i)).get d.key := by
    unfold viewOf; rw [hs]
  unfold validateGoV
  dsimp only
  rw [hview]
  split <;> try trivial
  split
  · rename_i hget
    rcases hb1 with ⟨_, cur, hcur, _⟩ | ⟨o, ho, hrej⟩
    · rw [hget] at hcur; cases hcur
    · unfold submission at ho
      rw [hget] at ho
      simp only at ho
      split at ho
      · simp only [Option.some.injEq] at ho
        rename_i hc
        simp only [hc, if_true]
        subst ho
        exact liftW_failed _ _ (apiCreate_rejected _ _ _ _ _ hrej)
      · cases ho
  · rename_i cur hget
    split
    · trivial
    · rename_i sub hsub
      apply liftW_failed
      rcases hb1 with ⟨hc, cur', hcur', r, hr, hrc, hne, hq'⟩ | ⟨o, ho, hrej⟩
      · rw [hget] at hcur'
        cases hcur'
        subst hc
        exact apiUpdate_invalid _ _ _ _ _ (updateSub_foreign_invalid p cur _ sub r hr hrc hne hq' hsub)
      · unfold submission at ho
        rw [hget] at ho
        simp only [hsub, Option.some.injEq] at ho
        subst ho
        exact apiUpdate_rejected _ _ _ _ _ hrej

theorem validateOneV_blocked (rejects : Obj → Bool) (fault : Fault) (vi : VInterf) (p : Parent) (control : Bool)
    (s : Store) (i : Nat) (d : Desired) (hq : vi.Quiet d.key) (hs : vi.stale i = none)
    (hb : (control = true ∧ ForeignControlled p s d) ∨
          (∃ o, submission p control s d = some o ∧ rejects o = true) ∨
          (control = true ∧ d.needsCA = true ∧ p.tls ≠ .present)) :
    (validateOneV rejects fault vi p control s i d).2.failed := by
  unfold validateOneV
  split
  · trivial
  · rename_i hn
    rcases hb with h | h | ⟨hc, hca, ht⟩
    · exact validateGoV_blocked rejects fault vi p control s i d hq hs (Or.inl h)
    · exact validateGoV_blocked rejects fault vi p control s i d hq hs (Or.inr h)
    · exfalso
      apply hn
      simp [hc, hca, ht]

theorem validateAllV_failed (rejects : Obj → Bool) (fault : Fault) (vi : VInterf) (p : Parent) (control : Bool)
    (s : Store) (xs : List (Nat × Desired)) (i : Nat) (d : Desired) (hm : (i, d) ∈ xs)
    (hq : vi.Quiet d.key) (hs : vi.stale i = none)
    (hb : (control = true ∧ ForeignControlled p s d) ∨
          (∃ o, submission p control s d = some o ∧ rejects o = true) ∨
          (control = true ∧ d.needsCA = true ∧ p.tls ≠ .present)) :
    (validateAllV rejects fault vi p control s xs).2.failed := by
  induction xs generalizing s with
  | nil => cases hm
  | cons x rest ih =>
    obtain ⟨i', d'⟩ := x
    unfold validateAllV
    have hg := validateOneV_get rejects fault vi p control s i' d' d.key hq
    split <;> rename_i s1 _ heq <;> (rw [heq] at hg; simp only at hg)
    · trivial
    · split <;> trivial
    · rename_i cd
      rcases List.mem_cons.mp hm with e | e
      · cases e
        have hf := validateOneV_blocked rejects fault vi p control s i d hq hs hb
        rw [heq] at hf
        exact absurd hf (by simp [R.failed])
      · have hb1 : (control = true ∧ ForeignControlled p s1 d) ∨
            (∃ o, submission p control s1 d = some o ∧ rejects o = true) ∨
            (control = true ∧ d.needsCA = true ∧ p.tls ≠ .present) := by
          rcases hb with h | h | h
          · exact (blocked_congr rejects p control s s1 d hg (Or.inl h)).imp id Or.inl
          · exact (blocked_congr rejects p control s s1 d hg (Or.inr h)).imp id Or.inl
          · exact Or.inr (Or.inr h)
        have := ih s1 e hb1
        split <;> rename_i s2 _ heq2 <;> (rw [heq2] at this)
        · exact absurd this (by simp [R.failed])
        · trivial
        · trivial

/-! ### no interference: the world's definitions are those of `Model/C16.lean` -/

theorem validateGoV_none (rejects : Obj → Bool) (fault : Fault) (p : Parent) (control : Bool)
    (s : Store) (i : Nat) (d : Desired) :
    validateGoV rejects fault VInterf.none p control s i d = validateGo rejects fault p control s i d := by
  unfold validateGoV validateGo viewOf
  rfl

theorem validateAllV_none (rejects : Obj → Bool) (fault : Fault) (p : Parent) (control : Bool)
    (s : Store) (xs : List (Nat × Desired)) :
    validateAllV rejects fault VInterf.none p control s xs = validateAll rejects fault p control s xs := by
  induction xs generalizing s with
  | nil => rfl
  | cons x rest ih =>
    obtain ⟨i, d⟩ := x
    unfold validateAllV validateAll validateOneV validateOne
    rw [validateGoV_none]
    simp only [ih]
    rfl

theorem establishV_none (rejects : Obj → Bool) (fault : Fault) (tp : Interf) (p : Parent) (control : Bool)
    (s : Store) (objs : List Desired) (vorder eorder : List Nat) :
    establishV rejects fault VInterf.none tp p control s objs vorder eorder =
      establishI rejects fault tp p control s objs vorder eorder := by
  unfold establishV establishI establishCoreV establishCoreI
  simp only [validateAllV_none]
  rfl

end Xp.C16

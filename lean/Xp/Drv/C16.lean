import Xp.Base.JsonIO
import Xp.Model.C16World
namespace Xp.C16
open Lean (Json)
open Xp.IOx

def triOf (s : String) : Option Bool :=
  match s with
  | "true" => some true
  | "false" => some false
  | _ => none

def triStr : Option Bool → String
  | some true => "true"
  | some false => "false"
  | none => "nil"

def refOf (j : Json) : ORef := ⟨nat j "uid", triOf (str j "ctrl"), triOf (str j "block")⟩

def refJson (r : ORef) : Json :=
  Json.mkObj [("uid", .num r.uid), ("ctrl", .str (triStr r.controller)), ("block", .str (triStr r.block))]

def tlsOf (s : String) : Tls :=
  match s with
  | "noName" => .noName
  | "present" => .present
  | "missing" => .missing
  | "empty" => .empty
  | _ => .noRuntime

def parentOf (j : Json) : Parent :=
  ⟨nat j "uid", str j "label", (arr j "owners").map fun r => ⟨str r "name", refOf r⟩, tlsOf (str j "tls")⟩

def outcomeOf (s : String) : Outcome :=
  match s with
  | "fail" => .fail
  | "conflict" => .conflict
  | "crashBefore" => .crashBefore
  | "crashAfter" => .crashAfter
  | _ => .ok

def phaseOf (s : String) : Phase :=
  match s with
  | "get" => .get
  | "dry" => .dry
  | "tls" => .tls
  | _ => .real

/-- the first matching fault wins (as in the harness) -/
def faultOf (fs : List Json) : Fault := fun i ph =>
  match fs.find? (fun f => nat f "i" == i && phaseOf (str f "phase") == ph) with
  | some f => outcomeOf (str f "out")
  | none => .ok

def errStr : Option Err → String
  | none => ""
  | some .notFound => "notFound"
  | some .alreadyExists => "alreadyExists"
  | some .conflict => "conflict"
  | some .invalid => "invalid"
  | some .other => "other"
  | some .crashed => "crashed"
  | some .notControllable => "notControllable"

def verbStr : Verb → String
  | .create => "create"
  | .update => "update"

def logJson (e : LogEntry) : Json :=
  Json.mkObj [("verb", .str (verbStr e.verb)), ("key", .str e.key), ("err", .str (errStr e.err)), ("changed", .bool e.changed)]

def objJson (o : Obj) : Json :=
  Json.mkObj [("key", .str o.key), ("body", .num o.body), ("owners", Json.arr (o.owners.map refJson).toArray)]

def nameOfKey (k : String) : String :=
  match k.splitOn "/" with
  | _ :: rest => "/".intercalate rest
  | [] => k

def isBlockedBy (p : Parent) (cur : Obj) : Bool :=
  cur.owners.any fun r => r.isCtrl && r.uid != p.uid && (match pkgRef p with | some q => r.uid != q.uid | none => true)

def refOfX (j : Json) : Ref := ⟨str j "key", bool j "kinded"⟩

/-- one third-party write of the scenario: `{"i","act":"del"|"put","key","body","owners"}` -/
def actOf (j : Json) : Act :=
  if str j "act" == "put" then .put ⟨str j "key", 0, (arr j "owners").map refOf, nat j "body"⟩
  else .del (str j "key")

/-- where a third-party write of the scenario is placed: `""` (or `"pre"`) = right before the real
write of object `i` (`i = -1`: between the phases); `"vget"` / `"vdry"` = validate phase, before the
Get / between the Get and the dry run of object `i`; `"rget"` / `"rupd"` = ReleaseObjects, before
the Get / between the Get and the Update of reference `i` -/
def atOf (j : Json) : String :=
  let a := str j "at"
  if a == "pre" then "" else a

def actsAt (tp : List Json) (at_ : String) (i : Nat) : List Act :=
  (tp.filter fun j => atOf j == at_ && int j "i" == (i : Int)).map actOf

/-- the scenario's interference with the establish phase -/
def interfOf (tp : List Json) : Interf :=
  { mid := (tp.filter fun j => atOf j == "" && int j "i" < 0).map actOf
    pre := actsAt tp "" }

/-- what the cached Get of object `i` served: `{"i","miss","owners","body"}`; an older version
gets resourceVersion 0 (older than every stored one) -/
def staleOf (st : List Json) (objs : List Desired) (i : Nat) : Option (Option Obj) :=
  match st.find? (fun j => nat j "i" == i) with
  | none => none
  | some j =>
    if bool j "miss" then some none
    else some (some ⟨(objs[i]?.map (·.key)).getD "", 0, (arr j "owners").map refOf, nat j "body"⟩)

def vinterfOf (tp st : List Json) (objs : List Desired) : VInterf :=
  { get := actsAt tp "vget", dry := actsAt tp "vdry", stale := staleOf st objs }

def rinterfOf (tp : List Json) : RInterf :=
  { get := actsAt tp "rget", upd := actsAt tp "rupd" }

/-- mirror of `uniqueResourceIdentifier` (GVK string + "/" + name) used by the
reconciler to sort references, descending -/
def refId (r : Ref) : String :=
  let gvk :=
    if !r.kinded then "/, Kind="
    else if r.key.startsWith "XRD/" then "apiextensions.crossplane.io/v1, Kind=CompositeResourceDefinition"
    else "apiextensions.crossplane.io/v1, Kind=Composition"
  gvk ++ "/" ++ nameOfKey r.key

def sortRefsDesc (l : List Ref) : List Ref := l.mergeSort (fun a b => refId a ≥ refId b)

def refObsJson (r : Ref) : Json := Json.mkObj [("name", .str (nameOfKey r.key)), ("kinded", .bool r.kinded)]

structure Acc where
  sys : Sys
  outs : List Json
  ok : Bool
  why : String

def resStr {α : Type} : R α → String
  | .ok _ => "ok"
  | .err _ => "err"
  | .crash => "crash"

def runStep (a : Acc) (st : Json) : Acc :=
  let p := parentOf (obj st "parent")
  let control := bool st "control"
  let rejB := nats st "rejBodies"
  let rejK := strs st "rejKeys"
  let rejects : Obj → Bool := fun o => rejB.contains o.body || rejK.contains o.key
  let fault := faultOf (arr st "faults")
  let conc := nat st "conc"
  let s0 : Store := { a.sys.store with log := [] }
  let op := str st "op"
  let objs := (arr st "objs").map fun j => (⟨str j "key", nat j "body", bool j "conv"⟩ : Desired)
  let ranL := (arr st "ran").map fun j => j.getBool?.toOption.getD false
  let ran : Nat → Bool := fun i => ranL.getD i false
  let refsBefore := a.sys.refs p.uid
  let tpj := arr st "tp"
  let tp := interfOf tpj
  let vi := vinterfOf tpj (arr st "stale") objs
  let ri := rinterfOf tpj
  let staleRefs : Option (List Ref) :=
    if has st "staleRefs" then some ((arr (obj st "staleRefs") "refs").map refOfX) else none
  let listed := staleRefs.getD refsBefore
  let (sys1, result, refs) : Sys × String × List Json :=
    if op == "release" then
      let refs := (arr st "refs").map refOfX
      let (s1, r) := releaseV rejects fault ri p ran s0 refs (List.range refs.length)
      (⟨s1, a.sys.refs⟩, resStr r, [])
    else if op == "reconcile" then
      let env : Env := ⟨rejects, fault, nats st "vorder", nats st "eorder", List.range listed.length, ran, sortRefsDesc⟩
      -- "ds": spec.desiredState as the string it is (absent: Active / Inactive according to "control")
      let (sys1, r) := match optStr st "ds" with
        | some ds => reconcileState ⟨s0, a.sys.refs⟩ p objs ds env ⟨vi, tp, ri, staleRefs⟩
        | none => reconcileRevV ⟨s0, a.sys.refs⟩ ⟨p, control, objs⟩ env ⟨vi, tp, ri, staleRefs⟩
      (sys1, resStr r, (sys1.refs p.uid).map refObsJson)
    else
      let (s1, r) := establishV rejects fault vi tp p control s0 objs (nats st "vorder") (nats st "eorder")
      match r with
      | .ok ks => (⟨s1, a.sys.refs⟩, "ok", (ks.mergeSort (fun x y => nameOfKey x.key < nameOfKey y.key ||
            (nameOfKey x.key == nameOfKey y.key && (!x.kinded || y.kinded)))).map refObsJson)
      | .err _ => (⟨s1, a.sys.refs⟩, "err", [])
      | .crash => (⟨s1, a.sys.refs⟩, "crash", [])
  let s1 := sys1.store
  let log := if conc > 1 then
      s1.log.mergeSort (fun x y => x.key < y.key || (x.key == y.key && verbStr x.verb ≤ verbStr y.verb))
    else s1.log
  let store := s1.objs.mergeSort (fun x y => x.key ≤ y.key)
  let out := Json.mkObj [
    ("result", .str result),
    ("refs", Json.arr refs.toArray),
    ("store", Json.arr (store.map objJson).toArray),
    ("log", Json.arr (log.map logJson).toArray)]
  -- model-side monitor: all-or-nothing evaluated on the model's own run
  let deactivating := match optStr st "ds" with
    | some ds => ds == inactiveState
    | none => !control
  let establishing := op == "establish" || (op == "reconcile" && staleRefs.isNone && (!deactivating || listed.isEmpty))
  -- (decided from the pre-state: only meaningful when the validate phase sees that state)
  let vquiet := (arr st "stale").isEmpty && tpj.all fun j => atOf j == ""
  let blocked := establishing && vquiet && objs.any fun d =>
      (control && d.needsCA && p.tls != .present) ||
      match s0.get d.key with
      | some cur =>
        (control && isBlockedBy p cur) || rejK.contains d.key ||
          rejB.contains (if control then d.body else cur.body)
      | none => control && (rejK.contains d.key || rejB.contains d.body)
  let good := !blocked || (s1.objs == s0.objs && s1.log.isEmpty && result != "ok")
  -- model-side monitor: an inactive revision issues no create, whoever interferes
  let good2 := !(establishing && !control) || s1.log.all fun e => e.verb != .create
  { sys := sys1, outs := a.outs ++ [out], ok := a.ok && good && good2,
    why := if !good then "C16:partial-establish" else if !good2 then "C16:inactive-created" else a.why }

def handler : Handler := fun scn =>
  let objs := (arr scn "store").zipIdx.map fun (j, i) =>
    (⟨str j "key", i + 1, (arr j "owners").map refOf, nat j "body"⟩ : Obj)
  let s0 : Store := ⟨objs, objs.length + 1, []⟩
  let revs := (arr scn "revs").map fun j => (nat j "uid", (arr j "refs").map refOfX)
  let refs0 : Nat → List Ref := fun u => (revs.lookup u).getD []
  let a := (arr scn "steps").foldl runStep ⟨⟨s0, refs0⟩, [], true, ""⟩
  .ok (Json.mkObj [("steps", Json.arr a.outs.toArray)], a.ok, a.why)

end Xp.C16

import Xp.Base.JsonIO
import Xp.Model.C16World
import Xp.Model.C16Enrich
namespace Xp.C16
open Lean (Json)
open Xp.IOx

def triOf (s : String) : Option Bool :=
  match s with
  | "true" => some true
  | "false" => some false
  | _ => none

def triStr : Option Bool → String
  | some true => "true"
  | some false => "false"
  | none => "nil"

def refOf (j : Json) : ORef := ⟨nat j "uid", triOf (str j "ctrl"), triOf (str j "block")⟩

def refJson (r : ORef) : Json :=
  Json.mkObj [("uid", .num r.uid), ("ctrl", .str (triStr r.controller)), ("block", .str (triStr r.block))]

def tlsOf (s : String) : Tls :=
  match s with
  | "noName" => .noName
  | "present" => .present
  | "missing" => .missing
  | "empty" => .empty
  | _ => .noRuntime

def parentOf (j : Json) : Parent :=
  ⟨nat j "uid", str j "label", (arr j "owners").map fun r => ⟨str r "name", refOf r⟩, tlsOf (str j "tls")⟩

def outcomeOf (s : String) : Outcome :=
  match s with
  | "fail" => .fail
  | "conflict" => .conflict
  | "crashBefore" => .crashBefore
  | "crashAfter" => .crashAfter
  | _ => .ok

def phaseOf (s : String) : Phase :=
  match s with
  | "get" => .get
  | "dry" => .dry
  | "tls" => .tls
  | _ => .real

/-- the first matching fault wins (as in the harness) -/
def faultOf (fs : List Json) : Fault := fun i ph =>
  match fs.find? (fun f => nat f "i" == i && phaseOf (str f "phase") == ph) with
  | some f => outcomeOf (str f "out")
  | none => .ok

def errStr : Option Err → String
  | none => ""
  | some .notFound => "notFound"
  | some .alreadyExists => "alreadyExists"
  | some .conflict => "conflict"
  | some .invalid => "invalid"
  | some .other => "other"
  | some .crashed => "crashed"
  | some .notControllable => "notControllable"

def verbStr : Verb → String
  | .create => "create"
  | .update => "update"

def logJson (e : LogEntry) : Json :=
  Json.mkObj [("verb", .str (verbStr e.verb)), ("key", .str e.key), ("err", .str (errStr e.err)), ("changed", .bool e.changed)]

def objJson (o : Obj) : Json :=
  Json.mkObj [("key", .str o.key), ("body", .num o.body), ("owners", Json.arr (o.owners.map refJson).toArray)]

def nameOfKey (k : String) : String :=
  match k.splitOn "/" with
  | _ :: rest => "/".intercalate rest
  | [] => k

def isBlockedBy (p : Parent) (cur : Obj) : Bool :=
  cur.owners.any fun r => r.isCtrl && r.uid != p.uid && (match pkgRef p with | some q => r.uid != q.uid | none => true)

def refOfX (j : Json) : Ref := ⟨str j "key", bool j "kinded"⟩

/-- one third-party write of the scenario: `{"i","act":"del"|"put","key","body","owners"}` -/
def actOf (j : Json) : Act :=
  if str j "act" == "put" then .put ⟨str j "key", 0, (arr j "owners").map refOf, nat j "body"⟩
  else .del (str j "key")

/-- where a third-party write of the scenario is placed: `""` (or `"pre"`) = right before the real
write of object `i` (`i = -1`: between the phases); `"vget"` / `"vdry"` = validate phase, before the
Get / between the Get and the dry run of object `i`; `"rget"` / `"rupd"` = ReleaseObjects, before
the Get / between the Get and the Update of reference `i` -/
def atOf (j : Json) : String :=
  let a := str j "at"
  if a == "pre" then "" else a

def actsAt (tp : List Json) (at_ : String) (i : Nat) : List Act :=
  (tp.filter fun j => atOf j == at_ && int j "i" == (i : Int)).map actOf

/-- the scenario's interference with the establish phase -/
def interfOf (tp : List Json) : Interf :=
  { mid := (tp.filter fun j => atOf j == "" && int j "i" < 0).map actOf
    pre := actsAt tp "" }

/-- what the cached Get of object `i` served: `{"i","miss","owners","body"}`; an older version
gets resourceVersion 0 (older than every stored one) -/
def staleOf (st : List Json) (objs : List Desired) (i : Nat) : Option (Option Obj) :=
  match st.find? (fun j => nat j "i" == i) with
  | none => none
  | some j =>
    if bool j "miss" then some none
    else some (some ⟨(objs[i]?.map (·.key)).getD "", 0, (arr j "owners").map refOf, nat j "body"⟩)

def vinterfOf (tp st : List Json) (objs : List Desired) : VInterf :=
  { get := actsAt tp "vget", dry := actsAt tp "vdry", stale := staleOf st objs }

def rinterfOf (tp : List Json) : RInterf :=
  { get := actsAt tp "rget", upd := actsAt tp "rupd" }

/-- mirror of `uniqueResourceIdentifier` (GVK string + "/" + name) used by the
reconciler to sort references, descending -/
def refId (r : Ref) : String :=
  let gvk :=
    if !r.kinded then "/, Kind="
    else if r.key.startsWith "XRD/" then "apiextensions.crossplane.io/v1, Kind=CompositeResourceDefinition"
    else "apiextensions.crossplane.io/v1, Kind=Composition"
  gvk ++ "/" ++ nameOfKey r.key

def sortRefsDesc (l : List Ref) : List Ref := l.mergeSort (fun a b => refId a ≥ refId b)

def refObsJson (r : Ref) : Json := Json.mkObj [("name", .str (nameOfKey r.key)), ("kinded", .bool r.kinded)]

structure Acc where
  sys : Sys
  outs : List Json
  ok : Bool
  why : String

def resStr {α : Type} : R α → String
  | .ok _ => "ok"
  | .err _ => "err"
  | .crash => "crash"

def runStep (a : Acc) (st : Json) : Acc :=
  let p := parentOf (obj st "parent")
  let control := bool st "control"
  let rejB := nats st "rejBodies"
  let rejK := strs st "rejKeys"
  let rejects : Obj → Bool := fun o => rejB.contains o.body || rejK.contains o.key
  let fault := faultOf (arr st "faults")
  let conc := nat st "conc"
  let s0 : Store := { a.sys.store with log := [] }
  let op := str st "op"
  let objs := (arr st "objs").map fun j => (⟨str j "key", nat j "body", bool j "conv"⟩ : Desired)
  let ranL := (arr st "ran").map fun j => j.getBool?.toOption.getD false
  let ran : Nat → Bool := fun i => ranL.getD i false
  let refsBefore := a.sys.refs p.uid
  let tpj := arr st "tp"
  let tp := interfOf tpj
  let vi := vinterfOf tpj (arr st "stale") objs
  let ri := rinterfOf tpj
  let staleRefs : Option (List Ref) :=
    if has st "staleRefs" then some ((arr (obj st "staleRefs") "refs").map refOfX) else none
  let listed := staleRefs.getD refsBefore
  let (sys1, result, refs) : Sys × String × List Json :=
    if op == "release" then
      let refs := (arr st "refs").map refOfX
      let (s1, r) := releaseV rejects fault ri p ran s0 refs (List.range refs.length)
      (⟨s1, a.sys.refs⟩, resStr r, [])
    else if op == "reconcile" then
      let env : Env := ⟨rejects, fault, nats st "vorder", nats st "eorder", List.range listed.length, ran, sortRefsDesc⟩
      -- "ds": spec.desiredState as the string it is (absent: Active / Inactive according to "control")
      let (sys1, r) := match optStr st "ds" with
        | some ds => reconcileState ⟨s0, a.sys.refs⟩ p objs ds env ⟨vi, tp, ri, staleRefs⟩
        | none => reconcileRevV ⟨s0, a.sys.refs⟩ ⟨p, control, objs⟩ env ⟨vi, tp, ri, staleRefs⟩
      (sys1, resStr r, (sys1.refs p.uid).map refObsJson)
    else
      let (s1, r) := establishV rejects fault vi tp p control s0 objs (nats st "vorder") (nats st "eorder")
      match r with
      | .ok ks => (⟨s1, a.sys.refs⟩, "ok", (ks.mergeSort (fun x y => nameOfKey x.key < nameOfKey y.key ||
            (nameOfKey x.key == nameOfKey y.key && (!x.kinded || y.kinded)))).map refObsJson)
      | .err _ => (⟨s1, a.sys.refs⟩, "err", [])
      | .crash => (⟨s1, a.sys.refs⟩, "crash", [])
  let s1 := sys1.store
  let log := if conc > 1 then
      s1.log.mergeSort (fun x y => x.key < y.key || (x.key == y.key && verbStr x.verb ≤ verbStr y.verb))
    else s1.log
  let store := s1.objs.mergeSort (fun x y => x.key ≤ y.key)
  let out := Json.mkObj [
    ("result", .str result),
    ("refs", Json.arr refs.toArray),
    ("store", Json.arr (store.map objJson).toArray),
    ("log", Json.arr (log.map logJson).toArray)]
  -- model-side monitor: all-or-nothing evaluated on the model's own run
  let deactivating := match optStr st "ds" with
    | some ds => ds == inactiveState
    | none => !control
  let establishing := op == "establish" || (op == "reconcile" && staleRefs.isNone && (!deactivating || listed.isEmpty))
  -- (decided from the pre-state: only meaningful when the validate phase sees that state)
  let vquiet := (arr st "stale").isEmpty && tpj.all fun j => atOf j == ""
  let blocked := establishing && vquiet && objs.any fun d =>
      (control && d.needsCA && p.tls != .present) ||
      match s0.get d.key with
      | some cur =>
        (control && isBlockedBy p cur) || rejK.contains d.key ||
          rejB.contains (if control then d.body else cur.body)
      | none => control && (rejK.contains d.key || rejB.contains d.body)
  let good := !blocked || (s1.objs == s0.objs && s1.log.isEmpty && result != "ok")
  -- model-side monitor: an inactive revision issues no create, whoever interferes
  let good2 := !(establishing && !control) || s1.log.all fun e => e.verb != .create
  { sys := sys1, outs := a.outs ++ [out], ok := a.ok && good && good2,
    why := if !good then "C16:partial-establish" else if !good2 then "C16:inactive-created" else a.why }

/-! ### scenario family `enrich` (Model/C16Enrich.lean) -/

def optJ (j : Json) (k : String) : Option Json := if has j k then some (obj j k) else none

def pairsOf (j : Json) (k : String) : Option (List (String × String)) :=
  (optJ j k).map fun _ => (arr j k).map fun x =>
    match x with
    | .arr a => ((a[0]?.bind (·.getStr?.toOption)).getD "", (a[1]?.bind (·.getStr?.toOption)).getD "")
    | _ => ("", "")

def svcOfJ (j : Json) : Svc := ⟨str j "name", str j "ns", optStr j "path", optNat j "port"⟩
def ccOfJ (j : Json) : CC := ⟨optStr j "url", (optJ j "svc").map svcOfJ, str j "ca"⟩
def hookOfJ (j : Json) : Hook := ⟨str j "name", ccOfJ (obj j "cc"), nat j "rest"⟩
def convOfJ (j : Json) : Conv :=
  ⟨str j "strategy", (optJ j "webhook").map fun w => ⟨(optJ w "cc").map ccOfJ, strs w "rv"⟩⟩

def pobjOfJ (j : Json) : PObj :=
  let hooks := (arr j "hooks").map hookOfJ
  let shape : Shape := match str j "kind" with
    | "VWC" => .validating hooks
    | "MWC" => .mutating hooks
    | "CRD" => .crd ((optJ j "conv").map convOfJ)
    | _ => .other
  ⟨str j "name", pairsOf j "labels", shape, nat j "rest"⟩

def optStrJ : Option String → Json
  | some s => .str s
  | none => .null

def svcJ (s : Svc) : Json :=
  Json.mkObj [("name", .str s.name), ("ns", .str s.ns), ("path", optStrJ s.path),
    ("port", match s.port with | some n => .num n | none => .null)]
def ccJ (c : CC) : Json :=
  Json.mkObj [("url", optStrJ c.url), ("svc", match c.service with | some s => svcJ s | none => .null), ("ca", .str c.caBundle)]
def hookJ (h : Hook) : Json := Json.mkObj [("name", .str h.name), ("cc", ccJ h.cc), ("rest", .num h.rest)]
def convJ (c : Conv) : Json :=
  Json.mkObj [("strategy", .str c.strategy),
    ("webhook", match c.webhook with
      | some w => Json.mkObj [("cc", match w.cc with | some c => ccJ c | none => .null),
                              ("rv", Json.arr (w.reviewVersions.map Json.str).toArray)]
      | none => .null)]

def pobjJ (o : PObj) : Json :=
  let (kind, hooks, conv) : String × List Hook × Option Conv := match o.shape with
    | .validating hs => ("VWC", hs, none)
    | .mutating hs => ("MWC", hs, none)
    | .crd c => ("CRD", [], c)
    | .other => ("Other", [], none)
  Json.mkObj [("kind", .str kind), ("name", .str o.name),
    ("labels", match o.labels with
      | some l => Json.arr ((l.mergeSort (fun a b => a.1 ≤ b.1)).map fun kv => Json.arr #[.str kv.1, .str kv.2]).toArray
      | none => .null),
    ("hooks", Json.arr (hooks.map hookJ).toArray),
    ("conv", match conv with | some c => convJ c | none => .null),
    ("rest", .num o.rest)]

/-- one package object, absent from the cluster, put through Establish: `prepare`, then (object
absent) a dry-run create and a real create for a controlling parent, nothing for another -/
def enrichHandler (e : Json) : Json × Bool × String :=
  let pj := obj e "parent"
  let p : EParent := ⟨str pj "label", (arr pj "owners").map fun r => ⟨str r "kind", str r "name"⟩, pairsOf pj "common"⟩
  let control := bool e "control"
  let o := pobjOfJ (obj e "obj")
  let tls := tlsOf (str pj "tls")
  -- the object already in the cluster (served under the name asked for), if any
  let cur : Option PObj := (optJ e "cur").map fun c => pobjOfJ (c.setObjVal! "kind" (.str (str (obj e "obj") "kind")))
  -- the API-call side of the same Establish, by the model of Model/C16.lean: one object, absent or
  -- stored with the package as plain owner; `needsCA` read off the structured object
  let stored : List Obj := match cur with
    | some c => [⟨o.name, 1, [⟨3, some false, none⟩], c.rest⟩]
    | none => []
  let (s1, r) := establish (fun _ => false) Fault.none ⟨31, p.label, [], tls⟩ control ⟨stored, 2, []⟩
    [⟨o.name, o.rest + 1000, needsCAOf o⟩] [0] [0]
  let real := s1.log.length
  match prepare (str e "ns") (str e "crt") tls control p o with
  | .error _ =>
    let agree := resStr r == "err" && real == 0
    (Json.mkObj [("err", .bool true), ("obj", .null), ("dry", .num 0), ("real", .num real),
        ("looked", Json.arr #[]), ("sub", .null)], agree,
      if agree then "" else "C16:enrich-guard-mismatch")
  | .ok o' =>
    -- what the one goroutine does: Get under the prepared name; absent: an active parent creates the
    -- prepared object (dry run, then for real), another parent does nothing; present: an active
    -- parent submits the PREPARED object, another parent the object it READ
    let writes : Nat := if control || cur.isSome then 1 else 0
    let sub : Option PObj := match cur with
      | some c => if control then some o' else some { c with name := o'.name }
      | none => if control then some o' else none
    -- model-side monitor: the frame, evaluated on the model's own run
    let o1 : PObj := { o with labels := o'.labels }
    let good := o'.frame == o1.frame && (control || o' == o1) && resStr r == "ok" && real == writes
    (Json.mkObj [("err", .bool false), ("obj", pobjJ o'), ("dry", .num writes), ("real", .num real),
        ("looked", Json.arr #[.str o'.name]),
        ("sub", match sub with | some x => pobjJ x | none => .null)], good,
      if good then "" else "C16:enrich-changed-foreign-field")

def handler : Handler := fun scn =>
  if has scn "enrich" then .ok (enrichHandler (obj scn "enrich")) else
  let objs := (arr scn "store").zipIdx.map fun (j, i) =>
    (⟨str j "key", i + 1, (arr j "owners").map refOf, nat j "body"⟩ : Obj)
  let s0 : Store := ⟨objs, objs.length + 1, []⟩
  let revs := (arr scn "revs").map fun j => (nat j "uid", (arr j "refs").map refOfX)
  let refs0 : Nat → List Ref := fun u => (revs.lookup u).getD []
  let a := (arr scn "steps").foldl runStep ⟨⟨s0, refs0⟩, [], true, ""⟩
  .ok (Json.mkObj [("steps", Json.arr a.outs.toArray)], a.ok, a.why)

end Xp.C16

import Xp.Base.JsonIO
import Xp.Model.C16
namespace Xp.C16
open Lean (Json)
open Xp.IOx

def triOf (s : String) : Option Bool :=
  match s with
  | "true" => some true
  | "false" => some false
  | _ => none

def triStr : Option Bool → String
  | some true => "true"
  | some false => "false"
  | none => "nil"

def refOf (j : Json) : ORef := ⟨nat j "uid", triOf (str j "ctrl"), triOf (str j "block")⟩

def refJson (r : ORef) : Json :=
  Json.mkObj [("uid", .num r.uid), ("ctrl", .str (triStr r.controller)), ("block", .str (triStr r.block))]

def parentOf (j : Json) : Parent :=
  ⟨nat j "uid", str j "label", (arr j "owners").map fun r => ⟨str r "name", refOf r⟩⟩

def outcomeOf (s : String) : Outcome :=
  match s with
  | "fail" => .fail
  | "conflict" => .conflict
  | "crashBefore" => .crashBefore
  | "crashAfter" => .crashAfter
  | _ => .ok

def phaseOf (s : String) : Phase :=
  match s with
  | "get" => .get
  | "dry" => .dry
  | _ => .real

/-- the first matching fault wins (as in the harness) -/
def faultOf (fs : List Json) : Fault := fun i ph =>
  match fs.find? (fun f => nat f "i" == i && phaseOf (str f "phase") == ph) with
  | some f => outcomeOf (str f "out")
  | none => .ok

def errStr : Option Err → String
  | none => ""
  | some .notFound => "notFound"
  | some .alreadyExists => "alreadyExists"
  | some .conflict => "conflict"
  | some .invalid => "invalid"
  | some .other => "other"
  | some .crashed => "crashed"
  | some .notControllable => "notControllable"

def verbStr : Verb → String
  | .create => "create"
  | .update => "update"

def logJson (e : LogEntry) : Json :=
  Json.mkObj [("verb", .str (verbStr e.verb)), ("key", .str e.key), ("err", .str (errStr e.err)), ("changed", .bool e.changed)]

def objJson (o : Obj) : Json :=
  Json.mkObj [("key", .str o.key), ("body", .num o.body), ("owners", Json.arr (o.owners.map refJson).toArray)]

def nameOfKey (k : String) : String :=
  match k.splitOn "/" with
  | _ :: rest => "/".intercalate rest
  | [] => k

def isBlockedBy (p : Parent) (cur : Obj) : Bool :=
  cur.owners.any fun r => r.isCtrl && r.uid != p.uid && (match pkgRef p with | some q => r.uid != q.uid | none => true)

structure Acc where
  store : Store
  outs : List Json
  ok : Bool
  why : String

def runStep (a : Acc) (st : Json) : Acc :=
  let p := parentOf (obj st "parent")
  let control := bool st "control"
  let rejB := nats st "rejBodies"
  let rejK := strs st "rejKeys"
  let rejects : Obj → Bool := fun o => rejB.contains o.body || rejK.contains o.key
  let fault := faultOf (arr st "faults")
  let conc := nat st "conc"
  let s0 : Store := { a.store with log := [] }
  let isRelease := str st "op" == "release"
  let (s1, result, refs) :=
    if isRelease then
      let refs := strs st "refs"
      let ran := (arr st "ran").map fun j => j.getBool?.toOption.getD false
      let (s1, r) := release rejects fault p (fun i => ran.getD i false) s0 refs (List.range refs.length)
      (s1, (match r with | .ok _ => "ok" | .err _ => "err" | .crash => "crash"), ([] : List String))
    else
      let objs := (arr st "objs").map fun j => (⟨str j "key", nat j "body"⟩ : Desired)
      let (s1, r) := establish rejects fault p control s0 objs (nats st "vorder") (nats st "eorder")
      match r with
      | .ok ks => (s1, "ok", (ks.map nameOfKey).mergeSort (· ≤ ·))
      | .err _ => (s1, "err", [])
      | .crash => (s1, "crash", [])
  let log := if conc > 1 then
      s1.log.mergeSort (fun x y => x.key < y.key || (x.key == y.key && verbStr x.verb ≤ verbStr y.verb))
    else s1.log
  let store := s1.objs.mergeSort (fun x y => x.key ≤ y.key)
  let out := Json.mkObj [
    ("result", .str result),
    ("refs", Json.arr (refs.map Json.str).toArray),
    ("store", Json.arr (store.map objJson).toArray),
    ("log", Json.arr (log.map logJson).toArray)]
  -- model-side monitor: all-or-nothing evaluated on the model's own run
  let blocked :=
    if isRelease then false
    else (arr st "objs").any fun j =>
      let key := str j "key"
      match s0.get key with
      | some cur =>
        (control && isBlockedBy p cur) || rejK.contains key ||
          rejB.contains (if control then nat j "body" else cur.body)
      | none => control && (rejK.contains key || rejB.contains (nat j "body"))
  let good := !blocked || (s1.objs == s0.objs && s1.log.isEmpty && result != "ok")
  { store := s1, outs := a.outs ++ [out], ok := a.ok && good,
    why := if good then a.why else "C16:partial-establish" }

def handler : Handler := fun scn =>
  let objs := (arr scn "store").zipIdx.map fun (j, i) =>
    (⟨str j "key", i + 1, (arr j "owners").map refOf, nat j "body"⟩ : Obj)
  let s0 : Store := ⟨objs, objs.length + 1, []⟩
  let a := (arr scn "steps").foldl runStep ⟨s0, [], true, ""⟩
  .ok (Json.mkObj [("steps", Json.arr a.outs.toArray)], a.ok, a.why)

end Xp.C16

import Xp.Base.JsonIO
import Xp.Model.C18
/-
C18 driver: scenario JSON → model run → canonical observation (same shape as
harness/main/c18.go's c18Obs) + the model-side evaluation of the proved statements.
-/
namespace Xp.C18
open Lean (Json)
open Xp.IOx

def pruleOf (j : Json) : PolicyRule := ⟨strs j "v", strs j "g", strs j "r", strs j "n", strs j "u"⟩

def jstrs (l : List String) : Json := Json.arr (l.map Json.str).toArray

def pruleJson (p : PolicyRule) : Json :=
  Json.mkObj [("v", jstrs p.verbs), ("g", jstrs p.apiGroups), ("r", jstrs p.resources), ("n", jstrs p.resourceNames), ("u", jstrs p.nonResourceURLs)]

def ruleJson (r : Rule) : Json :=
  Json.mkObj [("g", .str r.apiGroup), ("r", .str r.resource), ("n", .str r.resourceName), ("u", .str r.nonResourceURL), ("v", .str r.verb)]

def optUid (s : String) : Option String := if s = "" then none else some s

def kvsOf (j : Json) (k : String) : List (String × String) :=
  (arr j k).filterMap fun x => match x with
    | .arr a => match a.toList with
      | [.str a, .str b] => some (a, b)
      | _ => none
    | _ => none

def roleOf (j : Json) : Role := ⟨str j "name", kvsOf j "labels", (arr j "rules").map pruleOf, optUid (str j "ctrl")⟩

def roleJson (r : Role) : Json :=
  Json.mkObj [("name", .str r.name),
    ("labels", Json.arr (r.labels.map fun (k, v) => Json.arr #[.str k, .str v]).toArray),
    ("rules", Json.arr (r.rules.map pruleJson).toArray),
    ("ctrl", .str (r.ctrl.getD ""))]

def subjectOf (j : Json) : Subject := ⟨str j "ns", str j "name"⟩

def bindingOf (j : Json) : Binding := ⟨str j "name", str j "roleRef", (arr j "subjects").map subjectOf, optUid (str j "ctrl")⟩

def bindingJson (b : Binding) : Json :=
  Json.mkObj [("name", .str b.name), ("roleRef", .str b.roleRef),
    ("subjects", Json.arr (b.subjects.map fun s => Json.mkObj [("ns", .str s.ns), ("name", .str s.name)]).toArray),
    ("ctrl", .str (b.ctrl.getD ""))]

def prOf (j : Json) : PR :=
  { name := str j "name", uid := str j "uid", paused := bool j "paused", deleted := bool j "deleted",
    family := str j "family",
    org := if has j "org" then some (str (obj j "org") "reg", str (obj j "org") "org") else none,
    refs := (arr j "refs").map fun r => ⟨str r "apiVersion", str r "kind", str r "name"⟩,
    requests := (arr j "requests").map pruleOf }

def xrdOf (j : Json) : XRD :=
  { name := str j "name", uid := str j "uid", deleted := bool j "deleted", group := str j "group",
    plural := str j "plural", claim := if bool j "hasClaim" then some (str j "claim") else none }

def deployOf (j : Json) : Deployment := ⟨str j "ns", str j "name", str j "sa", strs j "owners"⟩

def outcomeOf : String → Outcome
  | "fail" => .fail
  | "conflict" => .conflict
  | "crashBefore" => .crashBefore
  | "crashAfter" => .crashAfter
  | _ => .ok

def planOf (fs : List Json) : Plan := fun i =>
  match fs.find? (fun f => nat f "k" == i) with
  | some f => outcomeOf (str f "o")
  | none => .ok

def writeName : Req → Option String
  | .createRole r => some ("create:" ++ r.name)
  | .updateRole r => some ("update:" ++ r.name)
  | .createBinding b => some ("create:" ++ b.name)
  | .updateBinding b => some ("update:" ++ b.name)
  | _ => none

def resultStr : Option Result → String
  | none => "crashed"
  | some .ok => "ok"
  | some .requeue => "requeue"
  | some .err => "err"

def allowName : String := "allow"

/-- hypotheses of `tree_sound_partial` (decidable form) -/
def hypsAllow (allow : List PolicyRule) : Bool :=
  allow.all fun o => !o.resourceNames.contains wildcard && !o.nonResourceURLs.contains "" &&
    (o.nonResourceURLs.isEmpty || o.resourceNames.isEmpty)

def subOk : Sub → Bool
  | .url u _ => u != ""
  | _ => true

/-- the proved statement, evaluated: every granted sub-rule (in the theorem's domain) is covered -/
def soundOn (allow requests : List PolicyRule) : Bool :=
  !hypsAllow allow ||
  (requests.all fun q => (breakdown q).all fun s =>
    !subOk s || !(tree allow).allowed s.toRule.path || covers allow s)

def handler : Handler := fun scn =>
  let kind := str scn "kind"
  let allow := (arr scn "allow").map pruleOf
  if kind == "tree" then
    let pathOf := fun (j : Json) => match j with | .arr a => a.toList.filterMap (·.getStr?.toOption) | _ => []
    let t := ((arr scn "paths").map pathOf).foldl (fun t q => t.allow q) Node.empty
    let res := (arr scn "queries").map fun q => Json.bool (t.allowed (pathOf q))
    let out := Json.mkObj [("allowed", Json.arr res.toArray), ("rejected", Json.arr #[]), ("verr", .bool false),
      ("cov", Json.arr #[]), ("results", Json.arr #[]), ("writes", Json.arr #[]), ("roles", Json.arr #[]), ("bindings", Json.arr #[])]
    .ok (out, true, "")
  else if kind == "validate" then
    let requests := (arr scn "requests").map pruleOf
    let rej := validate allow requests
    let cov := requests.flatMap fun q => (breakdown q).map fun s => Json.bool (covers allow s)
    let out := Json.mkObj [("allowed", Json.arr #[]), ("rejected", Json.arr (rej.map ruleJson).toArray), ("verr", .bool false),
      ("cov", Json.arr cov.toArray), ("results", Json.arr #[]), ("writes", Json.arr #[]), ("roles", Json.arr #[]), ("bindings", Json.arr #[])]
    let ok := soundOn allow requests
    .ok (out, ok, if ok then "" else "C18:tree-sound-partial-false")
  else
    let validator := str scn "validator"
    let prs := (arr scn "prs").map prOf
    let target := str scn "target"
    let pre := (arr scn "roles").map roleOf
    let s0 : Store := {
      prs := prs, xrds := (arr scn "xrds").map xrdOf, deploys := (arr scn "deploys").map deployOf,
      roles := (if validator == "role" then [(⟨allowName, [], allow, none⟩ : Role)] else []) ++ pre,
      bindings := (arr scn "bindings").map bindingOf }
    let cfg : Cfg := ⟨if validator == "none" then none else some allowName⟩
    let prog : P := match kind with
      | "xrd" => reconcileXRD target
      | "binding" => reconcileBinding target
      | _ => reconcile cfg target
    -- rounds
    let step := fun (acc : Store × List String × List (List String)) (fs : Json) =>
      let (s, results, writes) := acc
      let faults := match fs with | .arr a => a.toList | _ => []
      let plan := planOf faults
      let r := run sem plan 0 prog s
      let ws := (applied sem plan 0 prog s).filterMap writeName
      (r.1, results ++ [resultStr r.2], writes ++ [ws])
    let (sN, results, writes) := (arr scn "faults").foldl step (s0, [], [])
    -- what the configured validator says about the target's requests on the initial store
    let tgt := if kind == "reconcile" then prs.find? (·.name = target) else none
    let (rej, verr) : List Rule × Bool := match tgt with
      | none => ([], false)
      | some p =>
        if validator == "none" then (expand p.requests, false)
        else if validator == "role" then (validate allow p.requests, false)
        else ([], true)
    let roles := (sN.roles.filter (·.name ≠ allowName)).mergeSort (fun a b => a.name ≤ b.name)
    let bindings := sN.bindings.mergeSort (fun a b => a.name ≤ b.name)
    let out := Json.mkObj [("allowed", Json.arr #[]), ("rejected", Json.arr (rej.map ruleJson).toArray), ("verr", .bool verr),
      ("cov", Json.arr #[]), ("results", jstrs results),
      ("writes", Json.arr (writes.map jstrs).toArray),
      ("roles", Json.arr (roles.map roleJson).toArray),
      ("bindings", Json.arr (bindings.map bindingJson).toArray)]
    -- model-side evaluation of reject_means_no_role / inactive ⇒ no write
    let anyWrite := writes.any (!·.isEmpty)
    let inactive := match kind with
      | "xrd" => match s0.xrds.find? (·.name = target) with | some d => d.deleted | none => true
      | _ => match prs.find? (·.name = target) with | some p => p.paused || p.deleted | none => true
    let ok := !(anyWrite && (inactive || !rej.isEmpty || verr))
    .ok (out, ok, if ok then "" else "C18:write-despite-rejection-in-model")

end Xp.C18

import Xp.Base.JsonIO
import Xp.Model.C18
/-
C18 driver: scenario JSON → model run → canonical observation (same shape as
harness/main/c18.go's c18Obs) + the model-side evaluation of the proved statements.
-/
namespace Xp.C18
open Lean (Json)
open Xp.IOx

def pruleOf (j : Json) : PolicyRule := ⟨strs j "v", strs j "g", strs j "r", strs j "n", strs j "u"⟩

def jstrs (l : List String) : Json := Json.arr (l.map Json.str).toArray

def pruleJson (p : PolicyRule) : Json :=
  Json.mkObj [("v", jstrs p.verbs), ("g", jstrs p.apiGroups), ("r", jstrs p.resources), ("n", jstrs p.resourceNames), ("u", jstrs p.nonResourceURLs)]

def ruleJson (r : Rule) : Json :=
  Json.mkObj [("g", .str r.apiGroup), ("r", .str r.resource), ("n", .str r.resourceName), ("u", .str r.nonResourceURL), ("v", .str r.verb)]

def optUid (s : String) : Option String := if s = "" then none else some s

def kvsOf (j : Json) (k : String) : List (String × String) :=
  (arr j k).filterMap fun x => match x with
    | .arr a => match a.toList with
      | [.str a, .str b] => some (a, b)
      | _ => none
    | _ => none

def roleOf (j : Json) : Role := ⟨str j "name", kvsOf j "labels", (arr j "rules").map pruleOf, optUid (str j "ctrl")⟩

def roleJson (r : Role) : Json :=
  Json.mkObj [("name", .str r.name),
    ("labels", Json.arr (r.labels.map fun (k, v) => Json.arr #[.str k, .str v]).toArray),
    ("rules", Json.arr (r.rules.map pruleJson).toArray),
    ("ctrl", .str (r.ctrl.getD ""))]

def subjectOf (j : Json) : Subject := ⟨str j "ns", str j "name"⟩

def bindingOf (j : Json) : Binding := ⟨str j "name", str j "roleRef", (arr j "subjects").map subjectOf, optUid (str j "ctrl")⟩

def bindingJson (b : Binding) : Json :=
  Json.mkObj [("name", .str b.name), ("roleRef", .str b.roleRef),
    ("subjects", Json.arr (b.subjects.map fun s => Json.mkObj [("ns", .str s.ns), ("name", .str s.name)]).toArray),
    ("ctrl", .str (b.ctrl.getD ""))]

def prOf (j : Json) : PR :=
  { name := str j "name", uid := str j "uid", paused := bool j "paused", deleted := bool j "deleted",
    family := str j "family",
    -- the parser's answer (registry, repository); the organisation is computed by the model (firstSeg)
    org := if has j "org" then some (Parsed.orgKey ⟨str (obj j "org") "reg", str (obj j "org") "repo"⟩) else none,
    refs := (arr j "refs").map fun r => ⟨str r "apiVersion", str r "kind", str r "name"⟩,
    requests := (arr j "requests").map pruleOf }

def xrdOf (j : Json) : XRD :=
  { name := str j "name", uid := str j "uid", deleted := bool j "deleted", group := str j "group",
    plural := str j "plural", claim := if bool j "hasClaim" then some (str j "claim") else none }

def deployOf (j : Json) : Deployment := ⟨str j "ns", str j "name", str j "sa", strs j "owners"⟩

def outcomeOf : String → Outcome
  | "fail" => .fail
  | "conflict" => .conflict
  | "crashBefore" => .crashBefore
  | "crashAfter" => .crashAfter
  | _ => .ok

/-- the error class the code can tell apart (Forbidden, Invalid, a Temporary() transport
error, context deadline exceeded: all `other`) -/
def classOf : String → Option ErrRep
  | "notFound" => some .notFound
  | "alreadyExists" => some .alreadyExists
  | "conflictErr" => some .conflict
  | "forbidden" => some .other
  | "invalid" => some .other
  | "timeout" => some .other
  | "deadline" => some .other
  | _ => none

def editOf (j : Json) : Option Edit :=
  match str j "op" with
  | "setRole" => some (.setRole (roleOf (obj j "role")))
  | "delRole" => some (.delRole (str j "name"))
  | "setPR" => some (.setPR (prOf (obj j "pr")))
  | "delPR" => some (.delPR (str j "name"))
  | "setXRD" => some (.setXRD (xrdOf (obj j "xrd")))
  | "delXRD" => some (.delXRD (str j "name"))
  | "setDeploy" => some (.setDeploy (deployOf (obj j "deploy")))
  | "delDeploy" => some (.delDeploy (str j "ns") (str j "name"))
  | "setBinding" => some (.setBinding (bindingOf (obj j "binding")))
  | "delBinding" => some (.delBinding (str j "name"))
  | _ => none

def editsOf (j : Json) (k : String) : List Edit := (arr j k).filterMap editOf

def applyEdits (s : Store) (es : List Edit) : Store := es.foldl applyEdit s

/-- the world of one round: events are indexed by the call number within the round -/
def worldOf (evs : List Json) (snap0 snapR : Store) : World :=
  let ev := fun (k : Nat) => evs.find? (fun e => nat e "k" == k)
  { plan := fun k => match ev k with | some e => outcomeOf (str e "o") | none => .ok,
    inj := fun k => match ev k with | some e => classOf (str e "o") | none => none,
    env := fun k s => match ev k with | some e => applyEdits s (editsOf e "edits") | none => s,
    view := fun k s => match ev k with
      | some e =>
        let base := match str e "view" with
          | "old" => snapR
          | "old0" => snap0
          | _ => s
        hideNames (strs e "miss") base
      | none => s }

def writeName : Req → Option String
  | .createRole r => some ("create:" ++ r.name)
  | .updateRole r _ => some ("update:" ++ r.name)
  | .createBinding b => some ("create:" ++ b.name)
  | .updateBinding b _ => some ("update:" ++ b.name)
  | _ => none

/-- the writes that took effect -/
def effWrites (own : List (Store × Req)) : List String :=
  own.filterMap fun (st, r) =>
    match (exec st r).2 with
    | .done => writeName r
    | _ => none

def resultStr : Option Result → String
  | none => "crashed"
  | some .ok => "ok"
  | some .requeue => "requeue"
  | some .err => "err"

def allowName : String := "allow"

/-- hypotheses of `tree_sound_partial` (decidable form) -/
def hypsAllow (allow : List PolicyRule) : Bool :=
  allow.all fun o => !o.resourceNames.contains wildcard && !o.nonResourceURLs.contains "" &&
    (o.nonResourceURLs.isEmpty || o.resourceNames.isEmpty)

def subOk : Sub → Bool
  | .url u _ => u != ""
  | _ => true

/-- the proved statement, evaluated: every granted sub-rule (in the theorem's domain) is covered -/
def soundOn (allow requests : List PolicyRule) : Bool :=
  !hypsAllow allow ||
  (requests.all fun q => (breakdown q).all fun s =>
    !subOk s || !(tree allow).allowed s.toRule.path || covers allow s)

/-- `writes_justified_by_reads_interf` & co., evaluated on the round's own calls: every write
that took effect has, earlier in the same round, the reads that justify it -/
def justifiedOn (kind : String) (cfg : Cfg) (target : String) (own : List (Store × Req)) : Bool :=
  let rec go (pre : List (Store × Req)) : List (Store × Req) → Bool
    | [] => true
    | (st, r) :: rest =>
      (if !r.isWrite then true else
        match kind with
        | "xrd" => pre.any fun (s1, q) => match q with
            | .getXRD n => n == target && (match s1.xrds.find? (·.name = n) with | some d => !d.deleted | none => false)
            | _ => false
        | "binding" => pre.any fun (s1, q) => match q with
            | .getPR n => n == target && (match s1.prs.find? (·.name = n) with | some p => !p.paused && !p.deleted | none => false)
            | _ => false
        | _ =>
          pre.any fun (s1, q) => match q with
            | .getPR n => n == target && (match s1.prs.find? (·.name = n) with
                | some p => !p.paused && !p.deleted &&
                    (match cfg.allowRole with
                     | none => (expand p.requests).isEmpty
                     | some a => pre.any fun (s3, q3) => match q3 with
                         | .getRole n3 => n3 == a && (match s3.roles.find? (·.name = a) with
                             | some ar => (validate ar.rules p.requests).isEmpty
                             | none => false)
                         | _ => false)
                | none => false)
            | _ => false) && go (pre ++ [(st, r)]) rest
  go [] own

def handler : Handler := fun scn =>
  let kind := str scn "kind"
  let allow := (arr scn "allow").map pruleOf
  if kind == "tree" then
    let pathOf := fun (j : Json) => match j with | .arr a => a.toList.filterMap (·.getStr?.toOption) | _ => []
    let t := ((arr scn "paths").map pathOf).foldl (fun t q => t.allow q) Node.empty
    let res := (arr scn "queries").map fun q => Json.bool (t.allowed (pathOf q))
    let out := Json.mkObj [("allowed", Json.arr res.toArray), ("rejected", Json.arr #[]), ("verr", .bool false),
      ("cov", Json.arr #[]), ("results", Json.arr #[]), ("writes", Json.arr #[]), ("roles", Json.arr #[]), ("bindings", Json.arr #[]),
      ("preRej", Json.arr #[]), ("preErr", Json.arr #[])]
    .ok (out, true, "")
  else if kind == "validate" then
    let requests := (arr scn "requests").map pruleOf
    let done := str scn "ctx" == "done"
    -- validator "none" = VerySecureValidator = Expand of the requests
    let verdict := if str scn "validator" == "none" then expandCtx done requests else validateCtx done allow requests
    let rej := verdict.getD []
    let cov := requests.flatMap fun q => (breakdown q).map fun s => Json.bool (covers allow s)
    -- the earlier validations of the same long-lived validator: each is a call of its own
    let pre := arr scn "pre"
    let preRej := pre.map fun st =>
      if bool st "gone" then Json.arr #[]
      else Json.arr ((validate ((arr st "allow").map pruleOf) ((arr st "requests").map pruleOf)).map ruleJson).toArray
    let preErr := pre.map fun st => Json.bool (bool st "gone")
    let out := Json.mkObj [("allowed", Json.arr #[]), ("rejected", Json.arr (rej.map ruleJson).toArray), ("verr", .bool verdict.isNone),
      ("cov", Json.arr cov.toArray), ("results", Json.arr #[]), ("writes", Json.arr #[]), ("roles", Json.arr #[]), ("bindings", Json.arr #[]),
      ("preRej", Json.arr preRej.toArray), ("preErr", Json.arr preErr.toArray)]
    let ok := soundOn allow requests
    .ok (out, ok, if ok then "" else "C18:tree-sound-partial-false")
  else
    let validator := str scn "validator"
    let prs := (arr scn "prs").map prOf
    let target := str scn "target"
    let pre := (arr scn "roles").map roleOf
    let s0 : Store := {
      prs := prs, xrds := (arr scn "xrds").map xrdOf, deploys := (arr scn "deploys").map deployOf,
      roles := (if validator == "role" then [(⟨allowName, [], allow, none⟩ : Role)] else []) ++ pre,
      bindings := (arr scn "bindings").map bindingOf }
    let cfg : Cfg := ⟨if validator == "none" then none else some allowName⟩
    let progOf : String → P := fun t => match kind with
      | "xrd" => reconcileXRD t
      | "binding" => reconcileBinding t
      | _ => reconcile cfg t
    -- rounds: edits by other writers between the reconciles, then one reconcile in its world
    let step := fun (acc : Store × List String × List (List String) × Bool) (rd : Json) =>
      let (s, results, writes, just) := acc
      let s1 := applyEdits s (editsOf rd "pre")
      let w := worldOf (arr rd "evs") s0 s1
      let prog := progOf (str rd "target")
      let r := runW w 0 prog s1
      let own := ownW w 0 prog s1
      (r.1, results ++ [resultStr r.2], writes ++ [effWrites own],
        just && justifiedOn kind cfg (str rd "target") (own.filter fun (st, q) => !q.isWrite || (match (exec st q).2 with | .done => true | _ => false)))
    let (sN, results, writes, just) := (arr scn "rounds").foldl step (s0, [], [], true)
    -- what the configured validator says about the target's requests on the initial store
    let tgt := if kind == "reconcile" then prs.find? (·.name = target) else none
    let (rej, verr) : List Rule × Bool := match tgt with
      | none => ([], false)
      | some p =>
        if validator == "none" then (expand p.requests, false)
        else if validator == "role" then (validate allow p.requests, false)
        else ([], true)
    let roles := (sN.roles.filter (·.name ≠ allowName)).mergeSort (fun a b => a.name ≤ b.name)
    let bindings := sN.bindings.mergeSort (fun a b => a.name ≤ b.name)
    let out := Json.mkObj [("allowed", Json.arr #[]), ("rejected", Json.arr (rej.map ruleJson).toArray), ("verr", .bool verr),
      ("cov", Json.arr #[]), ("results", jstrs results),
      ("writes", Json.arr (writes.map jstrs).toArray),
      ("roles", Json.arr (roles.map roleJson).toArray),
      ("bindings", Json.arr (bindings.map bindingJson).toArray),
      ("preRej", Json.arr #[]), ("preErr", Json.arr #[])]
    .ok (out, just, if just then "" else "C18:write-not-justified-by-reads-in-model")

end Xp.C18

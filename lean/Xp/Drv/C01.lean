import Xp.Base.JsonIO
import Xp.Model.C01
namespace Xp.C01
open Lean (Json)
open Xp.IOx

def ctrlOf : String → Ctrl
  | "xr" => .xr
  | "other" => .other
  | _ => .none

def ctrlStr : Ctrl → String
  | .xr => "xr" | .other => "other" | .none => "none"

def objOf (j : Json) : CObj :=
  ⟨str j "kind", str j "name", str j "annot", ctrlOf (str j "ctrl"), bool j "fin", bool j "deleting", nat j "content", bool j "ssa"⟩

def objJson (o : CObj) : Json := Json.mkObj [
  ("kind", .str o.kind), ("name", .str o.name), ("annot", .str o.annot), ("ctrl", .str (ctrlStr o.ctrl)),
  ("fin", .bool o.fin), ("deleting", .bool o.deleting), ("content", .num o.content), ("ssa", .bool o.ssa)]

def refJson (r : Ref) : Json := Json.mkObj [("kind", .str r.kind), ("name", .str r.name)]

def desiredOf (j : Json) : Desired := ⟨str j "rname", str j "kind", nat j "content", bool j "ready"⟩

def outcomeOf : String → Outcome
  | "fail" => .fail | "conflict" => .conflict | "crashBefore" => .crashBefore | "crashAfter" => .crashAfter | _ => .ok

def outcomeStr : Outcome → String
  | .ok => "ok" | .fail => "fail" | .conflict => "conflict" | .crashBefore => "crashBefore" | .crashAfter => "crashAfter"

def reqStr : Req → String
  | .getXR => "get XThing/xr"
  | .addFinalizer _ => "update XThing/xr"
  | .getObj k n => s!"get {k}/{n}"
  | .getCached k n => s!"get {k}/{n}"   -- the call log does not tell a cached from a live Get
  | .gcUpdate k n => s!"update {k}/{n}"
  | .delete k n => s!"delete {k}/{n}"
  | .patchRefs _ _ => "patch XThing/xr apply"
  | .updateXR _ _ _ => "update XThing/xr"
  | .apply k n _ _ => s!"patch {k}/{n} apply"
  | .create k n _ _ => s!"create {k}/{n}"
  | .mergePatch k n _ _ => s!"patch {k}/{n} merge"
  | .patchXR => "patch XThing/xr merge"
  | .statusPatch => "patch XThing/xr/status apply"
  | .statusUpdate _ => "update XThing/xr/status"

def errStr (o : Outcome) (r : Option Resp) : String :=
  match o, r with
  | .crashBefore, _ | .crashAfter, _ => "crashed"
  | _, some .notFound => "notFound"
  | _, some .exists_ => "alreadyExists"
  | _, some .invalid => "invalid"
  | _, some .conflict => "conflict"
  | _, some .err => "other"
  | _, _ => ""

def callStr (e : Req × Outcome × Option Resp) : String :=
  s!"{reqStr e.1} {outcomeStr e.2.1}>{errStr e.2.1 e.2.2}"

def keyLe (a b : String × String) : Bool := (a.1 ++ "/" ++ a.2) ≤ (b.1 ++ "/" ++ b.2)

/-- model-side monitor: no live XR-controlled object outside spec.resourceRefs, at most one per name -/
def noLeak (s : St) : Bool :=
  s.objs.all fun o => !(o.ctrl == .xr && !o.deleting) || s.refs.any (fun r => r.kind == o.kind && r.name == o.name)

def uniq (s : St) : Bool :=
  s.objs.all fun o => !(o.ctrl == .xr && !o.deleting && o.annot != "") ||
    (s.objs.filter fun p => p.ctrl == .xr && !p.deleting && p.annot == o.annot).length ≤ 1

def handler : Handler := fun scn => do
  -- the monitor-only family (harness/main/c01.go c01GenConn: composed resources with a connection
  -- secret, whose read inside ObserveComposedResources the model has no step for): nothing to compare
  if has scn "direct" then return (Json.mkObj [], true, "")
  let mode := str scn "mode"
  let objs0 := (arr scn "objs").map objOf
  let refs0 : List Ref := (arr scn "refs").map fun j => ⟨str j "kind", str j "name"⟩
  let mut st : St := { xrFin := bool scn "fin", xrRv := 0, refs := refs0,
                       objs := objs0, refsVer := "v1", xrApplied := !(bool scn "fresh"), foreign0 := objs0.filter (·.ctrl == .other) }
  let mut outs : Array Json := #[]
  let mut ok := true
  let mut why := ""
  if !noLeak st then throw "initial state already violates the invariant (outside the property's hypothesis)"
  -- "stale": per round, whether the first read of the XR is served by a lagging cache (the XR as it
  -- was when the previous round started); absent = every read is fresh
  let stale : List Bool := (arr scn "stale").map fun j => match j with | .bool b => b | _ => false
  let mut prev : St := st
  let mut idx : Nat := 0
  for rd in arr scn "rounds" do
    let ds := (arr rd "desired").map desiredOf
    let h := obj rd "hints"
    let gen := (arr h "gen").map fun p => match p with
      | .arr a => ((a[0]?.bind (·.getStr?.toOption)).getD "", (a[1]?.bind (·.getStr?.toOption)).getD "")
      | _ => ("", "")
    let fnErr := str rd "fnErr"
    let ver := if str rd "ver" == "" then "v1" else str rd "ver"
    let ch : Choices := ⟨ver, gen.map (·.2), orderBy (·.annot) (strs h "gc"), orderBy (·.d.rname) (strs h "apply")⟩
    let m : Mode := if mode == "fn" then
        .fn (fun _ => if fnErr == "" then .desired (orderBy (·.rname) (gen.map (·.1)).eraseDups ds) else .failed) ch
      else .pt ds (gen.map (·.2)) ver
    let plan : Plan := if has rd "fault" then
        let f := obj rd "fault"
        Plan.at (nat f "k") (outcomeOf (str f "o"))
      else Plan.allOk
    -- composed resources missing from the informer cache during this reconcile (absent = none)
    let miss : List Ref := (arr rd "miss").map fun j => ⟨str j "kind", str j "name"⟩
    st := { st with miss := miss }
    -- `gen`: one entry (resource name, candidate) per candidate the name generator drew, in order
    -- (several per resource when candidates were taken); the generator retries up to `maxTries` times
    let prog := if stale.getD idx false then reconcileStaleT maxTries m prev.xrFin prev.xrRv prev.refs
      else reconcileT maxTries m
    prev := st
    idx := idx + 1
    let log := callLog sem plan 0 prog st
    let res := run sem plan 0 prog st
    let states := reach sem plan 0 prog st
    if !(states.all noLeak) then
      ok := false; why := "C01:leak"
    if (uniq st) && !(states.all uniq) then
      ok := false; why := "C01:duplicate"
    if !(states.all fun s' => s'.foreign0.all fun o => s'.objs.contains o) then
      ok := false; why := "C02:foreign-touched"
    st := res.1
    let result := match res.2 with
      | none => "crashed"
      | some .success => "success"
      | some .handled => "handled"
      | some .error => "error"
    let refs := (st.refs.map fun r => (r.kind, r.name)).mergeSort keyLe
    let objs := st.objs.mergeSort fun a b => keyLe (a.kind, a.name) (b.kind, b.name)
    outs := outs.push <| Json.mkObj [
      ("calls", Json.arr (log.map fun e => Json.str (callStr e)).toArray),
      ("refs", Json.arr (refs.map fun r => refJson ⟨r.1, r.2⟩).toArray),
      ("objs", Json.arr (objs.map objJson).toArray),
      ("result", .str result),
      ("xrFin", .bool st.xrFin)]
  return (Json.mkObj [("rounds", Json.arr outs)], ok, why)

end Xp.C01

import Xp.Base.JsonIO
import Xp.Model.C15
import Xp.Model.C15Tee
import Xp.Model.C15Split
namespace Xp.C15
open Lean (Json)
open Xp.IOx

def ptypeOf : String → PType
  | "configuration" => .configuration
  | "function" => .function
  | _ => .provider

def conOf : String → Con
  | "in" => .inRange
  | "out" => .outOfRange
  | "bad" => .malformed
  | _ => .none

def docOf (j : Json) : Doc :=
  match str j "t" with
  | "meta" => .md ⟨str j "gvk", str j "name", conOf (str j "con")⟩
  | "obj" => .ob ⟨str j "gvk", str j "name"⟩
  | "empty" => .empty
  | _ => .bad

def leftOf : String → Option Left
  | "none" => some .none
  | "nohdr" => some .nohdr
  | "hdr" => some .hdr
  | "full" => some .full
  | _ => none

/-- the stream the harness puts into files that must NOT be selected: a package of the
revision's own type, so that it would pass every gate -/
def decoyDocs (t : PType) : List Doc :=
  match t with
  | .provider => [.md ⟨"meta.pkg.crossplane.io/v1/Provider", "decoy", .none⟩,
                  .ob ⟨"apiextensions.k8s.io/v1/CustomResourceDefinition", "decoys.example.org"⟩]
  | .configuration => [.md ⟨"meta.pkg.crossplane.io/v1/Configuration", "decoy", .none⟩,
                  .ob ⟨"apiextensions.crossplane.io/v1/Composition", "decoys.example.org"⟩]
  | .function => [.md ⟨"meta.pkg.crossplane.io/v1/Function", "decoy", .none⟩,
                  .ob ⟨"apiextensions.k8s.io/v1/CustomResourceDefinition", "decoys.example.org"⟩]

/-- one entry of the scenario's layer description: `n` layers (default 1) with this
annotation and these tar entries, in order (`c`: `real` = the revision's declared stream,
`decoy`, anything else = a file that is no package stream) -/
def layersOf (t : PType) (docs : List Doc) (j : Json) : List Layer :=
  let ann := match str j "ann" with | "base" => Ann.base | "" => .none | _ => .other
  let entries : List (String × List Doc) := (arr j "files").map fun f =>
    (str f "name", match str f "c" with | "real" => docs | "decoy" => decoyDocs t | _ => [.bad])
  List.replicate (max 1 (nat j "n")) (Layer.ofTar ann entries)

/-- one run-length encoded line token of the scenario: `sep` (exactly `---`), `sepc` (blanks / a comment follow), `badsep`, `comment`,
`blank`, `b<i>`, each optionally followed by `x<count>` -/
def linesOfTok (s : String) : List Line :=
  let (t, n) := match s.splitOn "x" with
    | [t, c] => (t, c.toNat?.getD 1)
    | _ => (s, 1)
  let l : Line := match t with
    | "sep" => .sep true
    | "sepc" => .sep false
    | "badsep" => .badsep
    | "comment" => .comment
    | "blank" => .blank
    | _ => .body ((t.drop 1).toNat?.getD 9999)
  List.replicate n l

/-- the documents of a revision's stream: computed from its lines (`docsOfLines`: separator
rule, empty documents skipped); a malformed separator makes the stream undecodable.  Scenarios
without `lines` (the `xpkg build` test renders its own stream) fall back to the table. -/
def streamDocs (j : Json) : List Doc :=
  let tbl := (arr j "docs").map docOf
  let toks := strs j "lines"
  if toks.isEmpty then tbl
  else match docsOfLines tbl (toks.flatMap linesOfTok) with
    | some ds => ds
    | none => [.bad]

def revOf (j : Json) : Rev :=
  let docs := streamDocs j
  { ptype := ptypeOf (str j "ptype"), key := str j "key", skey := str j "skey", source := str j "source",
    layers := (arr j "layers").flatMap (layersOf (ptypeOf (str j "ptype")) docs),
    never := bool j "never", ignore := bool j "ignore", resolve := bool j "resolve" }

/-- the stream the scenario says the image declares (what the Go-side monitors judge against) -/
def declaredOf (j : Json) : List Doc := streamDocs j

/-- the cache entry a scenario starts with: the DECLARED stream (`docs` of the scenario; for a
valid image that is `r.docs`), whole or cut -/
def preEntry (decl : List Doc) : String → Option Entry
  | "warm" => some (.content decl)
  | "nohdr" => some (.broken false)
  | "hdr" => some (.broken true)
  | _ => none

def getEOf : String → GetE
  | "miss" => .miss
  | "" => .ok
  | _ => .err

/-- class of a failed write, as the code distinguishes them -/
def wErrOf : String → WErr
  | "" => .ok
  | "conflict" => .conflict
  | "notfound" => .notFound
  | _ => .err

def envOf : String → Except String Env
  | "" => .ok .none
  | "touch" => .ok .touch
  | "wipe" => .ok .wipe
  | "recreate" => .ok .recreate
  | "flip" => .ok .flip
  | e => .error s!"unknown third-party action {e}"

def cfgOf (j : Json) : ImgCfg :=
  { name := str j "name", prefixes := strs j "prefixes",
    verif := match str j "verif" with | "cosign" => .cosign | "nocosign" => .nocosign | _ => .none,
    ok := bool j "ok" }

def stepOf (j : Json) : Except String Step :=
  let i := nat j "r"
  let f := obj j "f"
  if str j "k" == "cfg" then
    .ok (.configs ((arr j "cfgs").map cfgOf))
  else if str j "k" == "sig" then
    .ok (.verify i { getE := getEOf (str f "getE"), stat := str f "stat" != "", listErr := str j "sigCfg" != "" })
  else
    let o := obj j "o"
    match leftOf (str o "left"), envOf (str f "env") with
    | none, _ => .error s!"unknown leftover class {str o "left"}"
    | _, .error e => .error e
    | some left, .ok env =>
      let updOf : String → Upd := fun s => match s with | "conflict" => Upd.conflict | "" => .ok | _ => .err
      let upd := updOf (str f "upd")
      .ok (.reconcile i (bool j "active") (bool j "deleted")
        { init := bool f "init", read := int f "read" ≥ 0, store := str f "store" != "",
          seen := bool o "seen", left := left, get := bool f "get", del := bool f "del", upd := upd, est := bool f "est",
          estConflict := str f "estC" == "conflict", getE := getEOf (str f "getE"), fin := wErrOf (str f "fin"),
          stat := str f "stat" != "", env := env,
          pullCfg := str f "pullCfg" != "", rel := updOf (str f "rel"), dep := updOf (str f "dep") })

def healthStr : Health → String
  | .none => "none" | .healthy => "healthy" | .unhealthy => "unhealthy" | .unknown => "unknown" | .awaiting => "awaiting"

def verifStr : Verif → String
  | .none => "none" | .succeeded => "succeeded" | .skipped => "skipped" | .failed => "failed" | .incomplete => "incomplete"

def entryStr (decl : List Doc) : Option Entry → String
  | none => "absent"
  | some (.broken false) => "nohdr"
  | some (.broken true) => "hdr"
  | some (.content ds) => if ds == decl then "full" else "other"

def objJson (o : Obj) : Json := Json.arr #[.str o.gvk, .str o.name]

def stepIdx : Step → Nat
  | .reconcile i _ _ _ => i
  | .verify i _ => i
  | .configs _ => 0

def obsJson (revs : List Rev) (decls : List (List Doc)) (w : World) (i : Nat) (o : Out) : Json :=
  let st := (w.sts[i]?).getD {}
  let live := st.present
  Json.mkObj [
    ("res", .str o.res),
    ("est", match o.est with | none => Json.null | some os => Json.arr (os.map objJson).toArray),
    ("control", .bool o.control),
    ("cache", Json.arr ((revs.zip decls).map fun (r, d) => Json.str (entryStr d (w.cache r.id))).toArray),
    ("healthy", .str (if live then healthStr st.health else "none")),
    ("verified", .str (if live then verifStr st.verif else "none")),
    ("refs", .num (if live then st.refs else 0)),
    ("exists", .bool live)]

/-- model-side property verdict of one step taken from world `w` -/
def stepOk (feature : Bool) (revs : List Rev) (decls : List (List Doc)) (w : World) (s : Step) (o : Out) : Bool :=
  let i := stepIdx s
  match o.est, revs[i]? with
  | some os, some r =>
    (match parse (decls[i]?.getD []) with
     | some p => os == p.objs && specOK r.ptype p && (r.ignore || compatible p) && lintS r.ptype p == lint r.ptype p
     | none => false) &&
    (!feature || ((w.sts[i]?).map (fun st => st.verif.isTrue)).getD false) &&
    (match s with | .reconcile _ _ _ f => f.env == .none | _ => true)
  | _, _ => true

/-- run a history, collecting the per-step observation and the model-side property
verdict.  A step flagged `par` ran concurrently with the next one: both are taken in
sequence (they commute, `reconciles_commute`) and both observations show the world
after the pair. -/
def runObs (feature : Bool) (revs : List Rev) (decls : List (List Doc)) : World → List (Step × Bool) → List Json × Bool
  | _, [] => ([], true)
  | w, (s1, true) :: (s2, _) :: ss =>
    let (w1, o1) := w.step true feature revs s1
    let (w2, o2) := w1.step true feature revs s2
    let ok := stepOk feature revs decls w s1 o1 && stepOk feature revs decls w1 s2 o2
    let (js, ok') := runObs feature revs decls w2 ss
    (obsJson revs decls w2 (stepIdx s1) o1 :: obsJson revs decls w2 (stepIdx s2) o2 :: js, ok && ok')
  | w, (s, _) :: ss =>
    let (w', o) := w.step true feature revs s
    let ok := stepOk feature revs decls w s o
    let (js, ok') := runObs feature revs decls w' ss
    (obsJson revs decls w' (stepIdx s) o :: js, ok && ok')

def buildObs (revs : List Rev) (decls : List (List Doc)) : Json × Bool :=
  match revs, decls with
  | r :: _, d :: _ =>
    match parse d with
    | some p =>
      let built := lintS r.ptype p
      let objs := p.objs.mergeSort (fun a b => a.gvk ++ a.name ≤ b.gvk ++ b.name)
      (Json.mkObj [("built", .bool built), ("same", .bool built), ("objs", Json.arr ((if built then objs else []).map objJson).toArray)], true)
    | none => (Json.mkObj [("built", .bool false), ("same", .bool false), ("objs", Json.arr #[])], true)
  | _, _ => (Json.null, true)

def rresOf : String → RRes
  | "eof" => .eof
  | "srcErr" => .srcErr
  | _ => .ok

def rresStr : RRes → String
  | .ok => "ok" | .eof => "eof" | .srcErr => "srcErr" | .writeErr => "writeErr"

def natsJson (xs : List Nat) : Json := Json.arr (xs.map fun (n : Nat) => Json.num (n : Lean.JsonNumber)).toArray

/-- kind `tee`: the model of `teeReadCloser` on the scripted source / capped writer -/
def teeObs (j : Json) : Json × Bool :=
  let evs : List SrcEv := (arr j "events").map fun e => ⟨(arr e "data").map (fun d => (d.getNat?.toOption).getD 0), rresOf (str e "res")⟩
  let cap : Option Nat := if int j "cap" < 0 then none else some (int j "cap").toNat
  let t : Tee := { src := evs, cap := cap }
  let (rs, t') := Tee.reads true (nat j "reads") t
  -- model-side verdict: a clean result never follows an error
  let rec okSeq : List (List Nat × RRes) → Bool → Bool
    | [], _ => true
    | (d, r) :: rest, failed => (if failed then d.isEmpty && r.isErr else true) && okSeq rest (failed || r.isErr)
  (Json.mkObj [
    ("reads", Json.arr (rs.map fun (d, r) => Json.arr #[Json.num (d.length : Lean.JsonNumber), Json.str (rresStr r)]).toArray),
    ("seen", natsJson (seenBytes rs)),
    ("out", natsJson t'.out)], okSeq rs false && seenBytes rs == t'.out)

def handler : Handler := fun scn =>
  let revs := (arr scn "revs").map revOf
  if str scn "kind" == "ids" then
    .ok (Json.mkObj [("ok", .bool true)], true, "")
  else if str scn "kind" == "tee" then
    let (j, ok) := teeObs (obj scn "tee")
    .ok (j, ok, if ok then "" else "C15:model-tee-error-not-sticky")
  else if str scn "kind" == "build" then
    let (j, ok) := buildObs revs ((arr scn "revs").map declaredOf)
    .ok (j, ok, "")
  else do
    let steps ← (arr scn "steps").mapM fun j => do
      let s ← stepOf j
      pure (s, bool j "par")
    let pres := (arr scn "revs").map fun j => str j "pre"
    let decls := (arr scn "revs").map declaredOf
    let cache : Cache := ((revs.zip decls).zip pres).foldl (fun c ((r, d), pre) => match preEntry d pre with | some e => c.put r.id e | none => c) Cache.empty
    let w : World := { cache := cache, sts := revs.map fun _ => {}, cfgs := (arr scn "cfgs").map cfgOf }
    let (js, ok) := runObs (bool scn "feature") revs decls w steps
    .ok (Json.mkObj [("steps", Json.arr js.toArray)], ok, if ok then "" else "C15:model-installed-not-declared")

end Xp.C15

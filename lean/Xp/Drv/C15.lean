import Xp.Base.JsonIO
import Xp.Model.C15
namespace Xp.C15
open Lean (Json)
open Xp.IOx

def ptypeOf : String → PType
  | "configuration" => .configuration
  | "function" => .function
  | _ => .provider

def conOf : String → Con
  | "in" => .inRange
  | "out" => .outOfRange
  | "bad" => .malformed
  | _ => .none

def docOf (j : Json) : Doc :=
  match str j "t" with
  | "meta" => .md ⟨str j "gvk", str j "name", conOf (str j "con")⟩
  | "obj" => .ob ⟨str j "gvk", str j "name"⟩
  | "empty" => .empty
  | _ => .bad

def leftOf : String → Option Left
  | "none" => some .none
  | "nohdr" => some .nohdr
  | "hdr" => some .hdr
  | "full" => some .full
  | _ => none

def revOf (j : Json) : Rev :=
  let img := str j "img"
  { ptype := ptypeOf (str j "ptype"), key := str j "key", skey := str j "skey", source := str j "source",
    docs := (arr j "docs").map docOf,
    imgOk := img != "twoann" && img != "nofile" && img != "toomany",
    never := bool j "never", ignore := bool j "ignore" }

def preEntry (r : Rev) : String → Option Entry
  | "warm" => some (.content r.docs)
  | "nohdr" => some (.broken false)
  | "hdr" => some (.broken true)
  | _ => none

def getEOf : String → GetE
  | "miss" => .miss
  | "" => .ok
  | _ => .err

/-- class of a failed write, as the code distinguishes them -/
def wErrOf : String → WErr
  | "" => .ok
  | "conflict" => .conflict
  | "notfound" => .notFound
  | _ => .err

def envOf : String → Except String Env
  | "" => .ok .none
  | "touch" => .ok .touch
  | "wipe" => .ok .wipe
  | "recreate" => .ok .recreate
  | "flip" => .ok .flip
  | e => .error s!"unknown third-party action {e}"

def cfgOf (j : Json) : ImgCfg :=
  { name := str j "name", prefixes := strs j "prefixes",
    verif := match str j "verif" with | "cosign" => .cosign | "nocosign" => .nocosign | _ => .none,
    ok := bool j "ok" }

def stepOf (j : Json) : Except String Step :=
  let i := nat j "r"
  let f := obj j "f"
  if str j "k" == "cfg" then
    .ok (.configs ((arr j "cfgs").map cfgOf))
  else if str j "k" == "sig" then
    .ok (.verify i { getE := getEOf (str f "getE"), stat := str f "stat" != "", listErr := str j "sigCfg" == "err" })
  else
    let o := obj j "o"
    match leftOf (str o "left"), envOf (str f "env") with
    | none, _ => .error s!"unknown leftover class {str o "left"}"
    | _, .error e => .error e
    | some left, .ok env =>
      let upd := match str f "upd" with | "conflict" => Upd.conflict | "" => .ok | _ => .err
      .ok (.reconcile i (bool j "active") (bool j "deleted")
        { init := bool f "init", read := int f "read" ≥ 0, store := str f "store" != "",
          seen := bool o "seen", left := left, get := bool f "get", del := bool f "del", upd := upd, est := bool f "est",
          estConflict := str f "estC" == "conflict", getE := getEOf (str f "getE"), fin := wErrOf (str f "fin"),
          stat := str f "stat" != "", env := env })

def healthStr : Health → String
  | .none => "none" | .healthy => "healthy" | .unhealthy => "unhealthy" | .unknown => "unknown" | .awaiting => "awaiting"

def verifStr : Verif → String
  | .none => "none" | .succeeded => "succeeded" | .skipped => "skipped" | .failed => "failed" | .incomplete => "incomplete"

def entryStr (r : Rev) : Option Entry → String
  | none => "absent"
  | some (.broken false) => "nohdr"
  | some (.broken true) => "hdr"
  | some (.content ds) => if ds == r.docs then "full" else "other"

def objJson (o : Obj) : Json := Json.arr #[.str o.gvk, .str o.name]

def stepIdx : Step → Nat
  | .reconcile i _ _ _ => i
  | .verify i _ => i
  | .configs _ => 0

def obsJson (revs : List Rev) (w : World) (i : Nat) (o : Out) : Json :=
  let st := (w.sts[i]?).getD {}
  let live := st.present
  Json.mkObj [
    ("res", .str o.res),
    ("est", match o.est with | none => Json.null | some os => Json.arr (os.map objJson).toArray),
    ("control", .bool o.control),
    ("cache", Json.arr (revs.map fun r => Json.str (entryStr r (w.cache r.id))).toArray),
    ("healthy", .str (if live then healthStr st.health else "none")),
    ("verified", .str (if live then verifStr st.verif else "none")),
    ("refs", .num (if live then st.refs else 0)),
    ("exists", .bool live)]

/-- model-side property verdict of one step taken from world `w` -/
def stepOk (feature : Bool) (revs : List Rev) (w : World) (s : Step) (o : Out) : Bool :=
  let i := stepIdx s
  match o.est, revs[i]? with
  | some os, some r =>
    (match parse r.docs with
     | some p => os == p.objs && specOK r.ptype p && (r.ignore || compatible p)
     | none => false) &&
    (!feature || ((w.sts[i]?).map (fun st => st.verif.isTrue)).getD false) &&
    (match s with | .reconcile _ _ _ f => f.env == .none | _ => true)
  | _, _ => true

/-- run a history, collecting the per-step observation and the model-side property
verdict.  A step flagged `par` ran concurrently with the next one: both are taken in
sequence (they commute, `reconciles_commute`) and both observations show the world
after the pair. -/
def runObs (feature : Bool) (revs : List Rev) : World → List (Step × Bool) → List Json × Bool
  | _, [] => ([], true)
  | w, (s1, true) :: (s2, _) :: ss =>
    let (w1, o1) := w.step true feature revs s1
    let (w2, o2) := w1.step true feature revs s2
    let ok := stepOk feature revs w s1 o1 && stepOk feature revs w1 s2 o2
    let (js, ok') := runObs feature revs w2 ss
    (obsJson revs w2 (stepIdx s1) o1 :: obsJson revs w2 (stepIdx s2) o2 :: js, ok && ok')
  | w, (s, _) :: ss =>
    let (w', o) := w.step true feature revs s
    let ok := stepOk feature revs w s o
    let (js, ok') := runObs feature revs w' ss
    (obsJson revs w' (stepIdx s) o :: js, ok && ok')

def buildObs (revs : List Rev) : Json × Bool :=
  match revs with
  | r :: _ =>
    match parse r.docs with
    | some p =>
      let built := lint r.ptype p
      let objs := p.objs.mergeSort (fun a b => a.gvk ++ a.name ≤ b.gvk ++ b.name)
      (Json.mkObj [("built", .bool built), ("same", .bool built), ("objs", Json.arr ((if built then objs else []).map objJson).toArray)], true)
    | none => (Json.mkObj [("built", .bool false), ("same", .bool false), ("objs", Json.arr #[])], true)
  | [] => (Json.null, true)

def handler : Handler := fun scn =>
  let revs := (arr scn "revs").map revOf
  if str scn "kind" == "ids" then
    .ok (Json.mkObj [("ok", .bool true)], true, "")
  else if str scn "kind" == "build" then
    let (j, ok) := buildObs revs
    .ok (j, ok, "")
  else do
    let steps ← (arr scn "steps").mapM fun j => do
      let s ← stepOf j
      pure (s, bool j "par")
    let pres := (arr scn "revs").map fun j => str j "pre"
    let cache : Cache := (revs.zip pres).foldl (fun c (r, pre) => match preEntry r pre with | some e => c.put r.id e | none => c) Cache.empty
    let w : World := { cache := cache, sts := revs.map fun _ => {}, cfgs := (arr scn "cfgs").map cfgOf }
    let (js, ok) := runObs (bool scn "feature") revs w steps
    .ok (Json.mkObj [("steps", Json.arr js.toArray)], ok, if ok then "" else "C15:model-installed-not-declared")

end Xp.C15

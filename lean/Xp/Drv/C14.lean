import Xp.Base.JsonIO
import Xp.Model.C14
import Xp.Model.C14World
namespace Xp.C14
open Lean (Json)
open Xp.IOx

def labelsOf (j : Json) (k : String) : Labels :=
  (arr j k).filterMap fun x =>
    match x with
    | .arr a => match a.toList with
      | [.str k, .str v] => some (k, v)
      | _ => none
    | _ => none

def labelsJson (l : Labels) : Json := Json.arr (l.map fun (k, v) => Json.arr #[.str k, .str v]).toArray

def stateOf : String → State
  | "Active" => .active
  | "Inactive" => .inactive
  | _ => .unset

def stateStr : State → String
  | .active => "Active"
  | .inactive => "Inactive"
  | .unset => ""

def optOf (s : String) : Option String := if s = "" then none else some s

def revOf (j : Json) : Rev :=
  { name := str j "name", parent := optOf (str j "parent"), number := int j "number", state := stateOf (str j "state"),
    ctrl := optOf (str j "ctrl"), image := str j "image", labels := labelsOf j "labels",
    fin := bool j "fin" || bool j "deleting", deleting := bool j "deleting", extra := labelsOf j "extra" }

def revJson (r : Rev) : Json := Json.mkObj [
  ("name", .str r.name), ("parent", .str (r.parent.getD "")), ("number", .num (Lean.JsonNumber.fromInt r.number)),
  ("state", .str (stateStr r.state)), ("ctrl", .str (r.ctrl.getD "")), ("image", .str r.image),
  ("labels", labelsJson r.labels), ("fin", .bool r.fin), ("deleting", .bool r.deleting),
  ("extra", labelsJson r.extra)]

def specOf (j : Json) : Spec :=
  { source := str j "source"
    limit := (j.getObjValAs? Int "limit").toOption
    policy := match str j "policy" with | "Automatic" => .automatic | "Manual" => .manual | _ => .unset
    pull := match str j "pull" with | "Always" => .always | "Never" => .never | "IfNotPresent" => .ifNotPresent | _ => .unset
    paused := bool j "paused"
    labels := labelsOf j "labels"
    extra := labelsOf j "extra" }

def pkgOf (j : Json) : Pkg :=
  { name := str j "name", uid := str j "uid", spec := specOf (obj j "spec"),
    status := { curRev := str j "curRev", curId := str j "curId", pausedCond := bool j "pausedCond" } }

def revsJson (l : List Rev) : Json := Json.arr (l.map revJson).toArray

def dedup : List (List Rev) → List (List Rev)
  | [] => []
  | [x] => [x]
  | x :: y :: rest => if x = y then dedup (y :: rest) else x :: dedup (y :: rest)

def outcomeOf : String → Outcome
  | "fail" => .fail
  | "conflict" => .conflict
  | "crashBefore" => .crashBefore
  | "crashAfter" => .crashAfter
  | _ => .ok

def planOf (fs : List Json) : Plan := fun k =>
  match fs.find? (fun f => nat f "k" == k) with
  | some f => outcomeOf (str f "o")
  | none => .ok

def headOf (s : String) : Head :=
  if s = "" || s.startsWith "err" then .err (errClassOfKind s) else if s = "nil" then .nil else .digest s

def isAscii (s : String) : Bool := s.toList.all (fun c => c.toNat < 128)

def resStr : Option Res → String
  | none => "crashed"
  | some .gone => "ok"
  | some .paused => "ok"
  | some .err => "err"
  | some .requeue => "requeue"
  | some (.done _ true) => "okAfter"
  | some (.done _ false) => "ok"

def pkgObs (s : Store) : Json :=
  match s.pkg with
  | some p => Json.mkObj [("exists", .bool true), ("curRev", .str p.status.curRev), ("curId", .str p.status.curId), ("pausedCond", .bool p.status.pausedCond)]
  | none => Json.mkObj [("exists", .bool false), ("curRev", .str ""), ("curId", .str ""), ("pausedCond", .bool false)]

/-- the property predicate evaluated on the model's own run of one reconcile -/
def checkRun (pname : String) (env : Env) (plan : Plan) (s : Store) : Option String :=
  let prog := pkgReconcile env pname
  let states := reach sem plan 0 prog s
  let (s', r) := run sem plan 0 prog s
  let app := applied sem plan 0 prog s
  if decide (WF s) && (activeRevs pname s).length ≤ 1 && states.any (fun x => (activeRevs pname x).length > 1) then
    some "C14:two-active"
  else
    let gcBad := match s.pkg with
      | none => app.any (fun q => match q with | .deleteRev _ => true | _ => false)
      | some p =>
        match revisionName env p with
        | .ok cur =>
          let v := (gcVictim p.spec.limit cur (s.revs.filter (labelled pname))).map Rev.name
          app.any (fun q => match q with | .deleteRev n => v != some n || n == cur | _ => false)
        | .error _ => app.any (fun q => match q with | .deleteRev _ => true | _ => false)
    if gcBad then some "C14:gc" else
    let fetchFailed := match s.pkg with
      | some p => (match revisionName env p with | .error _ => true | .ok _ => false)
      | none => false
    if fetchFailed && (app.any isRevWrite || states.any (fun x => x.revs != s.revs ||
        x.pkg.map (fun q => (q.status.curRev, q.status.curId)) != s.pkg.map (fun q => (q.status.curRev, q.status.curId)))) then
      some "C14:write-after-fetch-error" else
    match r with
    | some (.done cur _) =>
      match findRev cur s'.revs with
      | none => some "C14:current-missing"
      | some c =>
        if c.parent != some pname then some "C14:current-missing"
        else if s'.revs.any (fun x => labelled pname x && x.number > c.number) then some "C14:current-not-highest"
        else if ((s.revs.filter (labelled pname)).map (·.number)).Nodup &&
            s'.revs.any (fun x => labelled pname x && x.name != cur && x.number == c.number) then some "C14:current-not-strictly-highest"
        else if (s.pkg.map (fun q => q.spec.policy)) != some Policy.manual && c.state != State.active then some "C14:current-not-active"
        else none
    | _ => none

/-- a fault outcome of the scenario: fail | conflict | crashBefore | crashAfter | fail:<class> -/
def outOf : String → Out
  | "fail" => .fail .other
  | "conflict" => .fail .conflict
  | "crashBefore" => .crashBefore
  | "crashAfter" => .crashAfter
  | "fail:notFound" => .fail .notFound
  | s => if s.startsWith "fail:" then .fail .other else .ok

def actOf (j : Json) : Act :=
  match str j "op" with
  | "edit" => .edit (specOf (obj j "spec"))
  | "touch" => .touch (str j "name")
  | "del" => .del (str j "name")
  | "deact" => .deact (str j "name")
  | "create" => .create (revOf (obj j "rev"))
  | _ => .sync

def schedOf (faults acts : List Json) : Sched :=
  { out := fun k => match faults.find? (fun f => nat f "k" == k) with
      | some f => outOf (str f "o")
      | none => .ok
    env := fun k w => (acts.filter (fun a => nat a "k" == k)).foldl (fun w a => actW w (actOf a)) w }

def hasKey (j : Json) (k : String) : Bool :=
  match j.getObjVal? k with
  | .ok .null => false
  | .ok _ => true
  | .error _ => false

/-- the informer cache the harness shipped with the step (`view`), for package `p` -/
def viewOf (st : Json) (p : Pkg) : View × List String :=
  if !hasKey st "view" then ({}, []) else
  let v := obj st "view"
  let revs : Option (List Rev) :=
    if bool v "hasRevs" then some ((arr v "revs").foldl (fun acc j => insertRev (revOf j) acc) []) else none
  let pk : Option (Option Pkg) :=
    if !hasKey v "pkg" then none else
    let q := obj v "pkg"
    if bool q "missing" then some none
    else some (some { name := p.name, uid := str q "uid", spec := specOf (obj q "spec"),
                      status := { curRev := str q "curRev", curId := str q "curId", pausedCond := bool q "pausedCond" } })
  ({ revs := revs, pkg := pk }, strs v "stale")

/-- a plain step: a fresh cache, nobody else, no error classes - the world of `Xp.run sem` -/
def plainStep (st : Json) : Bool :=
  !hasKey st "view" && (arr st "acts").isEmpty && (arr st "faults").all (fun f => !(str f "o").startsWith "fail:")

def setPkg (p : Pkg) : List Pkg → List Pkg
  | [] => [p]
  | q :: rest => if q.name = p.name then p :: rest else q :: setPkg p rest

def handler : Handler := fun scn =>
  if str scn "kind" == "name" then
    let names := (arr scn "probes").map fun p =>
      match p with
      | .arr a => match a.toList with
        | [.str n, .str h] => friendlyID n h
        | _ => ""
      | _ => ""
    let asciiOk := (arr scn "probes").all fun p =>
      match p with
      | .arr a => a.toList.all (fun x => match x with | .str s => isAscii s | _ => false)
      | _ => false
    if !asciiOk then .error "non-ASCII name probe: outside the model's domain" else
    .ok (Json.mkObj [("recs", Json.arr #[]), ("revs", Json.arr #[]), ("names", Json.arr (names.map Json.str).toArray)], true, "")
  else
  let p0 := pkgOf (obj scn "pkg")
  let more := (arr scn "more").map pkgOf
  let pkgs0 : List Pkg := more.foldl (fun acc q => if acc.any (fun x => x.name == q.name) then acc else acc ++ [q]) [p0]
  if !(pkgs0.all fun p => isAscii p.name && isAscii p.spec.source) then .error "non-ASCII package: outside the model's domain" else
  let revs0 : List Rev := (arr scn "revs").foldl (fun acc j => insertRev (revOf j) acc) []
  let pnOf := fun (st : Json) => if str st "pkg" == "" then p0.name else str st "pkg"
  let step := fun (acc : List Pkg × List Rev × List Json × Option String) (st : Json) =>
    let (pkgs, revs, recs, bad) := acc
    let pn := pnOf st
    match pkgs.find? (fun q => q.name == pn) with
    | none => acc
    | some p =>
    match str st "op" with
    | "edit" =>
      if hasKey st "spec" then (setPkg { p with spec := specOf (obj st "spec") } pkgs, revs, recs, bad) else acc
    | "recreate" =>
      if str st "uid" == "" then acc else
      (setPkg { p with uid := str st "uid", status := { curRev := "", curId := "", pausedCond := false } } pkgs, revs, recs, bad)
    | "finalize" => (pkgs, (exec { pkg := none, revs := revs } (.env .finalize)).1.revs, recs, bad)
    | "addfin" => (pkgs, (exec { pkg := none, revs := revs } (.env (.addFin (str st "name")))).1.revs, recs, bad)
    | "reconcile" =>
      let env : Env := { head := fun _ => headOf (str st "head"), parseOk := fun _ => bool st "parseOk" }
      let s : Store := { pkg := some p, revs := revs }
      let (view, stale) := viewOf st p
      let w0 : World := { live := s, view := view, dirty := stale }
      let sc := schedOf (arr st "faults") (arr st "acts")
      let prog := pkgReconcile env p.name
      let states := afterW sc 0 prog w0
      let (w', r) := runW sc 0 prog w0
      let o := Json.mkObj [("res", .str (resStr r)),
        ("trace", Json.arr ((dedup (states.map (·.live.revs))).map revsJson).toArray),
        ("pkg", pkgObs w'.live)]
      let bad' := match bad with
        | some b => some b
        | none =>
          if plainStep st then
            -- the plain world is `Xp.run sem`: check the property on it, and that `runW` is `run` there
            let plan := planOf (arr st "faults")
            let (s1, r1) := run sem plan 0 prog s
            if s1 != w'.live || r1 != r then some "C14:world-model-differs-from-plain-model"
            else checkRun p.name env plan s
          else
            -- the world of `le_one_active_every_instant_under_interference`: fresh revision cache,
            -- quiet other clients, the List not answered NotFound: at most one Active at every instant
            let listNF := (arr st "faults").any (fun f => nat f "k" == 1 && str f "o" == "fail:notFound")
            if view.revs.isNone && !listNF && decide (WF s) && (activeRevs p.name s).length ≤ 1 &&
                (reachW sc 0 prog w0).any (fun x => (activeW p.name x).length > 1) then some "C14:two-active"
            else none
      let pkgs' := match w'.live.pkg with
        | some q => setPkg q pkgs
        | none => pkgs
      (pkgs', w'.live.revs, recs ++ [o], bad')
    | _ => acc
  let (_, revsF, recs, bad) := (arr scn "steps").foldl step (pkgs0, revs0, [], none)
  let out := Json.mkObj [("recs", Json.arr recs.toArray), ("revs", revsJson revsF), ("names", Json.arr #[])]
  .ok (out, bad.isNone, bad.getD "")

end Xp.C14

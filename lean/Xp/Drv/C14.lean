import Xp.Base.JsonIO
import Xp.Model.C14
namespace Xp.C14
open Lean (Json)
open Xp.IOx

def labelsOf (j : Json) (k : String) : Labels :=
  (arr j k).filterMap fun x =>
    match x with
    | .arr a => match a.toList with
      | [.str k, .str v] => some (k, v)
      | _ => none
    | _ => none

def labelsJson (l : Labels) : Json := Json.arr (l.map fun (k, v) => Json.arr #[.str k, .str v]).toArray

def stateOf : String → State
  | "Active" => .active
  | "Inactive" => .inactive
  | _ => .unset

def stateStr : State → String
  | .active => "Active"
  | .inactive => "Inactive"
  | .unset => ""

def optOf (s : String) : Option String := if s = "" then none else some s

def revOf (j : Json) : Rev :=
  { name := str j "name", parent := optOf (str j "parent"), number := int j "number", state := stateOf (str j "state"),
    ctrl := optOf (str j "ctrl"), image := str j "image", labels := labelsOf j "labels",
    fin := bool j "fin" || bool j "deleting", deleting := bool j "deleting" }

def revJson (r : Rev) : Json := Json.mkObj [
  ("name", .str r.name), ("parent", .str (r.parent.getD "")), ("number", .num (Lean.JsonNumber.fromInt r.number)),
  ("state", .str (stateStr r.state)), ("ctrl", .str (r.ctrl.getD "")), ("image", .str r.image),
  ("labels", labelsJson r.labels), ("fin", .bool r.fin), ("deleting", .bool r.deleting)]

def specOf (j : Json) : Spec :=
  { source := str j "source"
    limit := (j.getObjValAs? Int "limit").toOption
    policy := match str j "policy" with | "Automatic" => .automatic | "Manual" => .manual | _ => .unset
    pull := match str j "pull" with | "Always" => .always | "Never" => .never | "IfNotPresent" => .ifNotPresent | _ => .unset
    paused := bool j "paused"
    labels := labelsOf j "labels" }

def pkgOf (j : Json) : Pkg :=
  { name := str j "name", uid := str j "uid", spec := specOf (obj j "spec"),
    status := { curRev := str j "curRev", curId := str j "curId", pausedCond := bool j "pausedCond" } }

def revsJson (l : List Rev) : Json := Json.arr (l.map revJson).toArray

def dedup : List (List Rev) → List (List Rev)
  | [] => []
  | [x] => [x]
  | x :: y :: rest => if x = y then dedup (y :: rest) else x :: dedup (y :: rest)

def outcomeOf : String → Outcome
  | "fail" => .fail
  | "conflict" => .conflict
  | "crashBefore" => .crashBefore
  | "crashAfter" => .crashAfter
  | _ => .ok

def planOf (fs : List Json) : Plan := fun k =>
  match fs.find? (fun f => nat f "k" == k) with
  | some f => outcomeOf (str f "o")
  | none => .ok

def headOf (s : String) : Head :=
  if s = "" || s.startsWith "err" then .err (errClassOfKind s) else if s = "nil" then .nil else .digest s

def isAscii (s : String) : Bool := s.toList.all (fun c => c.toNat < 128)

def resStr : Option Res → String
  | none => "crashed"
  | some .gone => "ok"
  | some .paused => "ok"
  | some .err => "err"
  | some .requeue => "requeue"
  | some (.done _ true) => "okAfter"
  | some (.done _ false) => "ok"

def pkgObs (s : Store) : Json :=
  match s.pkg with
  | some p => Json.mkObj [("exists", .bool true), ("curRev", .str p.status.curRev), ("curId", .str p.status.curId), ("pausedCond", .bool p.status.pausedCond)]
  | none => Json.mkObj [("exists", .bool false), ("curRev", .str ""), ("curId", .str ""), ("pausedCond", .bool false)]

/-- the property predicate evaluated on the model's own run of one reconcile -/
def checkRun (pname : String) (env : Env) (plan : Plan) (s : Store) : Option String :=
  let prog := pkgReconcile env pname
  let states := reach sem plan 0 prog s
  let (s', r) := run sem plan 0 prog s
  let app := applied sem plan 0 prog s
  if decide (WF s) && (activeRevs pname s).length ≤ 1 && states.any (fun x => (activeRevs pname x).length > 1) then
    some "C14:two-active"
  else
    let gcBad := match s.pkg with
      | none => app.any (fun q => match q with | .deleteRev _ => true | _ => false)
      | some p =>
        match revisionName env p with
        | .ok cur =>
          let v := (gcVictim p.spec.limit cur (s.revs.filter (labelled pname))).map Rev.name
          app.any (fun q => match q with | .deleteRev n => v != some n || n == cur | _ => false)
        | .error _ => app.any (fun q => match q with | .deleteRev _ => true | _ => false)
    if gcBad then some "C14:gc" else
    let fetchFailed := match s.pkg with
      | some p => (match revisionName env p with | .error _ => true | .ok _ => false)
      | none => false
    if fetchFailed && (app.any isRevWrite || states.any (fun x => x.revs != s.revs ||
        x.pkg.map (fun q => (q.status.curRev, q.status.curId)) != s.pkg.map (fun q => (q.status.curRev, q.status.curId)))) then
      some "C14:write-after-fetch-error" else
    match r with
    | some (.done cur _) =>
      match findRev cur s'.revs with
      | none => some "C14:current-missing"
      | some c =>
        if c.parent != some pname then some "C14:current-missing"
        else if s'.revs.any (fun x => labelled pname x && x.number > c.number) then some "C14:current-not-highest"
        else if ((s.revs.filter (labelled pname)).map (·.number)).Nodup &&
            s'.revs.any (fun x => labelled pname x && x.name != cur && x.number == c.number) then some "C14:current-not-strictly-highest"
        else if (s.pkg.map (fun q => q.spec.policy)) != some Policy.manual && c.state != State.active then some "C14:current-not-active"
        else none
    | _ => none

def handler : Handler := fun scn =>
  if str scn "kind" == "name" then
    let names := (arr scn "probes").map fun p =>
      match p with
      | .arr a => match a.toList with
        | [.str n, .str h] => friendlyID n h
        | _ => ""
      | _ => ""
    let asciiOk := (arr scn "probes").all fun p =>
      match p with
      | .arr a => a.toList.all (fun x => match x with | .str s => isAscii s | _ => false)
      | _ => false
    if !asciiOk then .error "non-ASCII name probe: outside the model's domain" else
    .ok (Json.mkObj [("recs", Json.arr #[]), ("revs", Json.arr #[]), ("names", Json.arr (names.map Json.str).toArray)], true, "")
  else
  let p := pkgOf (obj scn "pkg")
  if !(isAscii p.name && isAscii p.spec.source) then .error "non-ASCII package: outside the model's domain" else
  let s0 : Store := { pkg := some p, revs := (arr scn "revs").foldl (fun acc j => insertRev (revOf j) acc) [] }
  let step := fun (acc : Store × List Json × Option String) (st : Json) =>
    let (s, recs, bad) := acc
    match str st "op" with
    | "edit" => ((exec s (.env (.editSpec (specOf (obj st "spec"))))).1, recs, bad)
    | "finalize" => ((exec s (.env .finalize)).1, recs, bad)
    | "addfin" => ((exec s (.env (.addFin (str st "name")))).1, recs, bad)
    | "reconcile" =>
      let env : Env := { head := fun _ => headOf (str st "head"), parseOk := fun _ => bool st "parseOk" }
      let plan := planOf (arr st "faults")
      let prog := pkgReconcile env p.name
      let states := reach sem plan 0 prog s
      let (s', r) := run sem plan 0 prog s
      let o := Json.mkObj [("res", .str (resStr r)),
        ("trace", Json.arr ((dedup (states.map (·.revs))).map revsJson).toArray),
        ("pkg", pkgObs s')]
      let bad' := match bad with | some b => some b | none => checkRun p.name env plan s
      (s', recs ++ [o], bad')
    | _ => acc
  let (sf, recs, bad) := (arr scn "steps").foldl step (s0, [], none)
  let out := Json.mkObj [("recs", Json.arr recs.toArray), ("revs", revsJson sf.revs), ("names", Json.arr #[])]
  .ok (out, bad.isNone, bad.getD "")

end Xp.C14

import Xp.Base.JsonIO
import Xp.Model.C13
/-
Driver for C13 (never used in a theorem).

The harness records, for one run of the real engine, the sequence of scheduling rounds:
which thread it released (started, or let through the external call it was parked at), whether
that call was made to fail, and the status of every thread once all goroutines had come to
rest (parked at the next external call / blocked on an engine mutex / finished).  Between two
such points the Go runtime decides the order in which runnable goroutines take the engine's
locks.  The driver therefore checks *trace inclusion*: it keeps the set of model states that
are reachable by the recorded round followed by any interleaving of internal steps (lock
acquisitions, releases, map iteration order) up to quiescence, and keeps those whose thread
statuses equal the recorded ones.  An empty set means the real run is not a run of the model.
-/
namespace Xp.C13
open Lean (Json)
open Xp.IOx

def wtOf : String → WType
  | "claim" => .claim | "xr" => .xr | "rev" => .rev | _ => .composed

def wtStr : WType → String
  | .claim => "claim" | .xr => "xr" | .composed => "composed" | .rev => "rev"

def widOf (j : Json) : Wid := ⟨wtOf (str j "t"), nat j "g"⟩
def widStr (w : Wid) : String := s!"{wtStr w.ty}/{w.gvk}"

def opOf (j : Json) : Op :=
  let n := nat j "n"
  match str j "op" with
  | "start" => .start n
  | "stop" => .stop n
  | "isRunning" => .isRunning n
  | "startWatches" => .startWatches n ((arr j "ws").map widOf)
  | "stopWatches" => .stopWatches n ((arr j "ws").map widOf)
  | "getWatches" => .getWatches n
  | "gc" => .gc n ((arr j "xrs").map fun x =>
      { deleting := bool x "del", paused := bool x "paused", hasCompositionRef := !(bool x "nocomp"),
        ready := !(bool x "notready"), synced := !(bool x "unsynced"),
        refs := (arr x "refs").map fun r => if str r "bad" == "" then some (nat r "g") else none,
        rev := if nat x "rev" == 0 then none else some (nat x "rev") })
  | "cacheRead" => .cacheRead (nat j "g")
  | _ => .removeInformer (nat j "g")

/-- the external call a thread is parked at, in the harness' notation -/
def hookOf (t : Thread) : Option String :=
  match t.pc with
  | .idle =>
    match t.op with
    | .gc _ _ => some "p:LS:0"
    | .removeInformer g => some s!"p:RI:{g}"
    | .cacheRead g => some s!"p:CR:{g}"
    | _ => none
  | .stNC n => some s!"p:NC:{n}"
  | .spGI _ _ wid _ | .swGI _ _ _ wid _ | .xwGI _ wid _ _ _ => some s!"p:GI:{wid.gvk}"
  | .spRH _ _ _ reg _ | .xwRH _ _ reg _ _ _ => some s!"p:RH:{reg}"
  | .swAH _ _ _ wid _ _ => some s!"p:AH:{wid.gvk}"
  | .swAI _ _ | .swAI2 _ _ => some "p:AI:0"
  | _ => none

/-- the harness' numbering of the error classes (c13ErrClasses) -/
def clsOf : Nat → ErrClass
  | 1 => .notFound | 2 => .conflict | 3 => .alreadyExists | 4 => .invalid | 5 => .forbidden
  | 6 => .noKindMatch | 7 => .transportTemporary | 8 => .deadlineExceeded | 9 => .cancelled
  | 10 => .tooManyRequests | _ => .generic

def isDone (t : Thread) : Bool := match t.pc with | .done _ => true | _ => false

def statusVec (s : Sys) (started : List Bool) : List String :=
  (s.threads.zip started).map fun (t, st) =>
    if !st then "n" else if isDone t then "d" else (hookOf t).getD "b"

def insertAll (x : Wid) : List Wid → List (List Wid)
  | [] => [[x]]
  | y :: ys => (x :: y :: ys) :: (insertAll x ys).map (y :: ·)

def perms : List Wid → List (List Wid)
  | [] => [[]]
  | x :: xs => (perms xs).flatMap (insertAll x)

/-- the order in which the real collector listed the watches it asked StopWatches to stop
(recorded by the harness; Go map order). The model accepts it only if it is a permutation of
its own stop set (`next`, pc `gcCRrel`), so the hint selects a model run, it cannot create one. -/
def askedOf (j : Json) : List Wid := (arr j "asked").map widOf

/-- successors by one internal step (not an external call) of a started thread -/
def internalSuccs (cfg : Cfg) (hints : List (List Wid)) (s : Sys) (started : List Bool) : List Sys :=
  ((s.threads.zip started).zipIdx).flatMap fun ((t, st), i) =>
    if !st || isDone t || (hookOf t).isSome then [] else
    match t.pc with
    | .spLoop _ cid =>
      match srcsOf s cid with
      | [] => (step cfg s i {}).toList
      | srcs => srcs.filterMap fun (w, _) => step cfg s i { pick := w }
    | .gcCRrel _ l _ refs =>
      let stop := (gcStop cfg l refs).eraseDups
      let cands := match hints.getD i [] with
        | [] => if stop.length ≤ 5 then perms stop else [stop]
        | hint => [hint]
      cands.filterMap fun p => step cfg s i { perm := p }
    | _ => (step cfg s i {}).toList

partial def closure (cfg : Cfg) (hints : List (List Wid)) (started : List Bool) (todo : List Sys) (seen : List Sys) (acc : List Sys) : List Sys :=
  match todo with
  | [] => acc
  | s :: rest =>
    if seen.contains s then closure cfg hints started rest seen acc else
    match internalSuccs cfg hints s started with
    | [] => closure cfg hints started rest (s :: seen) (s :: acc)
    | succs => closure cfg hints started (succs ++ rest) (s :: seen) acc

def resStr (op : Op) : Res → String
  | .ok => "ok" | .err => "err" | .notRunning => match op with | .gc _ _ => "err" | _ => "notRunning"
  | .bool b => if b then "true" else "false"
  | .count k ok =>
    match op with
    | .gc _ _ => if ok then "ok" else "err"
    | _ => s!"{k}:{if ok then "ok" else "err"}"
  | .watches l => "w:" ++ ",".intercalate ((l.map widStr).mergeSort (· ≤ ·))

def obsOf (s : Sys) (names : Nat) (deadlock : Bool) : Json :=
  let res := s.threads.map fun t => match t.pc with | .done r => resStr t.op r | _ => ""
  if deadlock then
    Json.mkObj [("res", Json.arr (res.map Json.str).toArray), ("running", Json.arr #[]), ("watches", Json.arr #[]),
      ("regs", Json.arr #[]), ("tracked", Json.arr #[]), ("live", Json.arr #[]), ("cancelled", Json.arr #[]), ("deadlock", .bool true)]
  else
  let running := (List.range names).filter fun n => (aget n s.ctrls).isSome
  let watches := running.map fun n =>
    let cid := (aget n s.ctrls).getD 0
    Json.mkObj [("n", Json.num (Lean.JsonNumber.fromNat n)), ("w", Json.arr ((((srcsOf s cid).map (fun p => widStr p.1)).mergeSort (· ≤ ·)).map Json.str).toArray)]
  let regs := (s.regs.map fun r => s!"k{r.wid.gvk}/c{r.cid}/{wtStr r.wid.ty}").mergeSort (· ≤ ·)
  let nums (l : List Nat) : Json := Json.arr ((l.mergeSort (· ≤ ·)).map (fun (n : Nat) => Json.num (Lean.JsonNumber.fromNat n))).toArray
  let cancelled := ((List.range s.objs.length).zip s.objs).filterMap fun (i, c) => if c.cancelled then some i else none
  Json.mkObj [("res", Json.arr (res.map Json.str).toArray), ("running", nums running), ("watches", Json.arr watches.toArray),
    ("regs", Json.arr (regs.map Json.str).toArray), ("tracked", nums s.tracked), ("live", nums (s.live.map (·.1))),
    ("cancelled", nums cancelled), ("deadlock", .bool false)]

/-! model-side monitor: the decidable forms of the invariants the theorems establish -/

def mutexOk (s : Sys) : Bool :=
  (s.threads.zipIdx).all fun (t, i) => (s.threads.zipIdx).all fun (u, j) => i == j || t.pc.held.compat u.pc.held

def oneLiveOk (s : Sys) : Bool :=
  s.regs.all fun r1 => s.regs.all fun r2 => !(r1.cid == r2.cid && r1.wid == r2.wid) || r1.id == r2.id

def recordedOk (s : Sys) : Bool :=
  s.regs.all fun r => aget r.wid (srcsOf s r.cid) == some r.id

def stopCleanOk (s : Sys) : Bool :=
  ((List.range s.objs.length).zip s.objs).all fun (cid, c) =>
    !c.stopped || (c.cancelled && c.sources.isEmpty && s.regs.all (fun r => r.cid != cid) && s.ctrls.all (fun p => p.2 != cid))

def stateOk (s : Sys) : Option String :=
  if !mutexOk s then some "C13:model-mutex"
  else if !oneLiveOk s then some "C13:model-duplicate-registration"
  else if !recordedOk s then some "C13:model-orphan-registration"
  else if !stopCleanOk s then some "C13:model-stop-unclean"
  else none

structure Rep where
  cands : List Sys
  started : List Bool
  bad : Option String := none     -- first invariant violation seen
  lost : Option Nat := none       -- event index at which no model run matched

def replay (cfg : Cfg) (hints : List (List Wid)) (events : List Json) (r0 : Rep) : Rep := Id.run do
  let mut r := r0
  let mut k := 0
  for ev in events do
    if r.lost.isSome then break
    let t := nat ev "t"
    let f := bool ev "f"
    let st := strs ev "st"
    let wasStarted := r.started.getD t true
    let started := r.started.set t true
    let fired :=
      if !wasStarted then r.cands
      else r.cands.filterMap fun s =>
        match s.threads[t]? with
        | some th => if (hookOf th).isSome then step cfg s t { fault := f, cls := clsOf (nat ev "fc") } else none
        | none => none
    let closed := closure cfg hints started fired [] []
    let keep := closed.filter fun s => statusVec s started == st
    let bad := match r.bad with
      | some b => some b
      | none => keep.findSome? stateOk
    r := { cands := keep, started := started, bad := bad, lost := if keep.isEmpty then some k else none }
    k := k + 1
  return r

def handler : Handler := fun scn =>
  let ops := (arr scn "threads").map opOf
  let names := nat scn "names"
  let hint := obj scn "final"
  let dead := bool hint "deadlock"
  let r := replay Cfg.fixed ((arr scn "threads").map askedOf) (arr scn "events") { cands := [init ops], started := ops.map fun _ => false }
  match r.lost with
  | some k => .ok (Json.mkObj [("noModelRun", Json.num (Lean.JsonNumber.fromNat k))], true, "")
  | none =>
    let outs := r.cands.map fun s => obsOf s names dead
    let out := match outs.find? (fun o => o.compress == hint.compress) with
      | some o => o
      | none => outs.headD Json.null
    match r.bad with
    | some b => .ok (out, false, b)
    | none => .ok (out, true, "")

end Xp.C13

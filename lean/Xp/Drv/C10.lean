import Xp.Base.JsonIO
import Xp.Model.C10
import Xp.Model.C10Compose
import Xp.Model.C10World
namespace Xp.C10
open Lean (Json)
open Xp.IOx

/-! Driver glue for C10 (never used in a theorem): scenario JSON → model structures → observation. -/

partial def vOf : Json → V
  | .null => .null
  | .bool b => .bool b
  | .num n => if n.exponent == 0 then .num n.mantissa else .flt s!"{n}"
  | .str s => .str s
  | .arr a => .arr (a.toList.map vOf)
  | .obj o =>
    match o.toList with
    | [("$f", .str r)] => .flt r
    | kvs => .obj (kvs.map fun (k, v) => (k, vOf v))

partial def vJson : V → Json
  | .null => .null
  | .bool b => .bool b
  | .num i => .num (Lean.JsonNumber.fromInt i)
  | .flt r => Json.mkObj [("$f", .str r)]
  | .str s => .str s
  | .arr a => .arr (a.map vJson).toArray
  | .obj o => Json.mkObj (o.map fun (k, v) => (k, vJson v))

def fld (j : Json) (k : String) : Json := (j.getObjVal? k).toOption.getD Json.null

def optOf {α} (j : Json) (f : Json → α) : Option α :=
  match j with
  | .null => none
  | x => some (f x)

def optStrOf (j : Json) (k : String) : Option String :=
  match fld j k with
  | .str s => some s
  | _ => none

def optIntOf (j : Json) (k : String) : Option Int :=
  match fld j k with
  | .num n => if n.exponent == 0 then some n.mantissa else none
  | _ => none

def optBoolOf (j : Json) (k : String) : Option Bool :=
  match fld j k with
  | .bool b => some b
  | _ => none

def segOf (j : Json) : Seg :=
  match fld j "f" with
  | .str s => .field s
  | _ => .index (nat j "i")

def pathOf (j : Json) : Path :=
  { raw := str j "raw",
    segs := match fld j "segs" with
      | .arr a => some (a.toList.map segOf)
      | _ => none }

def rawOf (j : Json) : Raw :=
  match str j "k" with
  | "nil" => .nil
  | "empty" => .empty
  | "val" => .val (vOf (fld j "v"))
  | _ => .bad

def mathOf (j : Json) : MathCfg :=
  { type := str j "type", multiply := optIntOf j "multiply", clampMin := optIntOf j "clampMin", clampMax := optIntOf j "clampMax" }

def patternOf (j : Json) : Pattern :=
  { type := str j "type", literal := optStrOf j "literal", regexp := optStrOf j "regexp", result := rawOf (fld j "result") }

def matchOf (j : Json) : MatchCfg :=
  { patterns := (arr j "patterns").map patternOf, fallbackValue := rawOf (fld j "fallbackValue"), fallbackTo := str j "fallbackTo" }

def strCfgOf (j : Json) : StrCfg :=
  { type := str j "type", fmt := optStrOf j "fmt", convert := optStrOf j "convert", trim := optStrOf j "trim",
    regexp := optOf (fld j "regexp") fun r => { mtch := str r "match", group := optIntOf r "group" },
    join := optStrOf j "join" }

def convOf (j : Json) : ConvCfg := { toType := str j "toType", format := optStrOf j "format" }

def xfOf (j : Json) : Xf :=
  { type := str j "type",
    math := optOf (fld j "math") mathOf,
    map := optOf (fld j "map") fun m => (arr m "pairs").map fun p => (str p "k", rawOf (fld p "v")),
    mtch := optOf (fld j "match") matchOf,
    str := optOf (fld j "string") strCfgOf,
    conv := optOf (fld j "convert") convOf,
    orc := vOf (fld j "orc") }

def policyOf (j : Json) : Policy :=
  { fromFieldPath := optStrOf j "from",
    mergeOptions := optOf (fld j "mo") fun m => { keep := optBoolOf m "keep", append := optBoolOf m "append" } }

def combineOf (j : Json) : Combine :=
  { variables := (arr j "vars").map pathOf, strategy := str j "strategy", fmt := optStrOf j "fmt", orc := vOf (fld j "orc") }

def patchOf (j : Json) : Patch :=
  { type := str j "type",
    fromPath := optOf (fld j "from") pathOf,
    toPath := optOf (fld j "to") pathOf,
    combine := optOf (fld j "combine") combineOf,
    xfs := (arr j "xfs").map xfOf,
    policy := optOf (fld j "policy") policyOf,
    mergeOrc := (arr j "mergeOrc").map vOf,
    applyOrc := (arr j "applyOrc").map vOf,
    setName := optStrOf j "set" }

def errJson : Option E → Json
  | none => .str ""
  | some e => .str e.name

/-- the destination of a failing wildcard / merge-option patch is not compared -/
def unstable (p : Patch) : Bool :=
  p.mo.isSome ||
    (match p.toPath with
     | some tp => containsSub tp.raw "[*]"
     | none => match p.fromPath with
       | some fp => containsSub fp.raw "[*]"
       | none => false)

def sourceIsXR (p : Patch) : Option Bool :=
  match p.type with
  | "" | "FromCompositeFieldPath" | "CombineFromComposite" => some true
  | "ToCompositeFieldPath" | "CombineToComposite" => some false
  | _ => none

/-- source and transforms succeed: the patch reaches the phase that writes the destination -/
def reachedDest (p : Patch) (src : V) : Bool :=
  match p.fromPath with
  | some fp => match getPath src fp with
    | .ok v => match resolveAll p.xfs v with
      | .ok _ => true
      | .error _ => false
    | .error _ => false
  | none => false

def wildDest (p : Patch) : Bool :=
  (p.type == "" || p.type == "FromCompositeFieldPath" || p.type == "ToCompositeFieldPath") &&
    (match p.toPath with
     | some tp => containsSub tp.raw "[*]"
     | none => match p.fromPath with
       | some fp => containsSub fp.raw "[*]"
       | none => false)

def runPatch (scn : Json) : Json × Bool × String :=
  let xr := vOf (fld scn "xr")
  let cd := vOf (fld scn "cd")
  let p := patchOf (fld scn "patch")
  let only := strs scn "only"
  let r := apply p xr cd only
  let hide := r.err.isSome && unstable p
  let xrOut := if hide && sourceIsXR p == some false then Json.null else vJson r.xr
  let cdOut := if hide && sourceIsXR p == some true then Json.null else vJson r.cd
  -- model-side monitor: the source object is unchanged; no panic
  let srcOk := match sourceIsXR p with
    | some true => r.xr == xr
    | some false => r.cd == cd
    | none => r.xr == xr && r.cd == cd
  let ok := srcOk && r.err != some .panic
  -- the class of an error raised while writing a wildcard destination depends on Go map order
  let src := if sourceIsXR p == some false then cd else xr
  let errOut := match r.err with
    | some .panic => errJson r.err
    | some _ => if wildDest p && reachedDest p src then Json.str "destErr" else errJson r.err
    | none => errJson r.err
  (Json.mkObj [("err", errOut), ("xr", xrOut), ("cd", cdOut)], ok,
    if ok then "" else if srcOk then "C10:panic" else "C10:source-modified")

def runResolve (scn : Json) : Json × Bool × String :=
  let input := vOf (fld scn "input")
  let xfs := (arr scn "xfs").map xfOf
  match resolveAll xfs input with
  | .ok v => (Json.mkObj [("err", .str ""), ("out", vJson v)], true, "")
  | .error e => (Json.mkObj [("err", .str e.name), ("out", .null)], e != .panic, if e == .panic then "C10:panic" else "")

/-! ### render / compose -/

def renderScnOf (j : Json) : RenderScn :=
  { refKind := str j "refKind", refApiVersion := str j "refApiVersion", refName := str j "refName", refNamespace := str j "refNamespace",
    base := match fld j "base" with
      | .null => none
      | b => some (vOf b),
    xr := vOf (fld j "xr"), tplName := str j "tplName" }

def runRender (scn : Json) : Json × Bool × String :=
  let s := renderScnOf (fld scn "render")
  let r := renderOne s
  (Json.mkObj [("jsonErr", .str r.jsonErr), ("metaErr", .str r.metaErr), ("cd", vJson r.cd)], true, "")

def tplOf (j : Json) : Tpl :=
  { name := optStrOf j "name",
    base := match fld j "base" with
      | .null => none
      | b => some (vOf b),
    patches := (arr j "patches").map patchOf,
    refKind := str j "refKind", refApiVersion := str j "refApiVersion", refName := str j "refName",
    nameGen := match str j "nameGen" with
      | "fail" => .fail
      | "" => .keep
      | n => .name n,
    applyOutcome := match str j "apply" with
      | "invalid" => .invalid
      | "error" => .error
      | _ => .ok,
    status := match fld j "status" with
      | .null => none
      | s => some (vOf s),
    cur := match fld j "cur" with
      | .null => none
      | c => some (vOf c) }

/-- The simulated API server decodes a merge patch through float64: floats and integers beyond
2^53 are not compared in the STORED object (they are, exactly, in the body that is sent). -/
partial def maskNumbers : V → V
  | .num i => if i ≥ 2 ^ 53 || i ≤ -(2 ^ 53) then .str "$num" else .num i
  | .flt _ => .str "$num"
  | .arr l => .arr (l.map maskNumbers)
  | .obj m => .obj (m.map fun (k, v) => (k, maskNumbers v))
  | v => v

def wJson (w : Write) : Json :=
  Json.mkObj [("verb", .str w.verb), ("target", .str w.target)]

def runCompose (scn : Json) : Json × Bool × String :=
  let c := fld scn "compose"
  let xr := vOf (fld c "xr")
  let tpls := (arr c "tpls").map tplOf
  let updateFails := bool c "updateFails"
  let r := composePT xr tpls updateFails
  let out := Json.mkObj [
    ("err", .str r.err),
    ("synced", Json.arr (r.synced.map Json.bool).toArray),
    ("refs", Json.arr (r.refs.map fun (k, n) => Json.mkObj [("kind", .str k), ("name", .str n)]).toArray),
    ("writes", Json.arr (r.writes.map wJson).toArray),
    ("bodies", Json.arr (r.sent.map fun s => vJson s.body).toArray),
    ("stored", Json.arr (r.stored.map fun o => vJson (maskNumbers ((o.get? "spec").getD .null))).toArray)]
  let ok := unrenderedNotWritten r
  (out, ok, if ok then "" else "C10:unrendered-applied")

/-! ### cseq: a sequence of reconciles by one long-lived composer; the model is run per step on
what the harness recorded as that step's inputs -/

def gotOf (j : Json) : Got :=
  match str j "k" with
  | "found" => .found (vOf (fld j "v"))
  | "err" => .err (str j "cls")
  | _ => .notFound

def envOf (j : Json) : Env :=
  { got := gotOf (fld j "got"),
    live := match fld j "live" with
      | .null => none
      | l => some (vOf l),
    fault := match str j "fault" with
      | "" => none
      | c => some c }

/-- a template of a step as authored (association filled in by the harness) -/
def wtplOf (j : Json) : Tpl :=
  { name := optStrOf j "name",
    base := match fld j "base" with
      | .null => none
      | b => some (vOf b),
    patches := (arr j "patches").map patchOf,
    refKind := str j "refKind", refApiVersion := str j "refApiVersion", refName := str j "refName",
    nameGen := match str j "nameGen" with
      | "fail" => .fail
      | "" => .keep
      | n => .name n,
    applyOutcome := .ok }

def composeJson (r : ComposeRes) : Json :=
  Json.mkObj [
    ("err", .str r.err),
    ("synced", Json.arr (r.synced.map Json.bool).toArray),
    ("refs", Json.arr (r.refs.map fun (k, n) => Json.mkObj [("kind", .str k), ("name", .str n)]).toArray),
    ("writes", Json.arr (r.writes.map wJson).toArray),
    ("bodies", Json.arr (r.sent.map fun s => vJson s.body).toArray),
    ("stored", Json.arr (r.stored.map fun o => vJson (maskNumbers ((o.get? "spec").getD .null))).toArray)]

def runStep (st : Json) : ComposeRes :=
  let xr := vOf (fld st "xr")
  let sets : List PatchSet := (arr st "patchSets").map fun s => { name := str s "name", patches := (arr s "patches").map patchOf }
  let tj := arr st "tpls"
  let tpls := tj.map wtplOf
  let inl := tj.map fun t => (arr t "inl").map patchOf
  let envs := tj.map envOf
  let w : World := { env := fun i => envs.getD i {},
                     updFails := str st "upd" != "" || bool st "xrEdit",
                     xrApplyFails := str st "xrApply" != "" }
  stepW xr sets tpls inl w

def runSeq (scn : Json) : Json × Bool × String :=
  let rs := (arr (fld scn "seq") "steps").map runStep
  let ok := rs.all unrenderedNotWritten
  (Json.mkObj [("steps", Json.arr (rs.map composeJson).toArray)], ok, if ok then "" else "C10:unrendered-applied")

def handler : Handler := fun scn =>
  if str scn "ood" != "" then .error s!"outside the model's domain: {str scn "ood"}" else
  match str scn "kind" with
  | "patch" => .ok (runPatch scn)
  | "resolve" => .ok (runResolve scn)
  | "render" => .ok (runRender scn)
  | "compose" => .ok (runCompose scn)
  | "cseq" => .ok (runSeq scn)
  | k => .error s!"unknown scenario kind {k}"

end Xp.C10

import Xp.Base.JsonIO
import Xp.Model.C17
import Xp.Model.C17Rec
import Xp.Model.C17ResF
import Xp.Model.C17Glue
/-
C17 driver: parses one scenario, runs the model, prints the observation in the
canonical form of harness/main/c17*.go. Never used in a theorem.
-/
namespace Xp.C17
open Lean (Json)
open Xp.IOx

def identOf (j : Json) : Ident :=
  match j.getObjValAs? Nat "n" with
  | .ok n => .num n
  | .error _ => .alnum (str j "s")

def pairOf (j : Json) : Option (String × String) :=
  match j with
  | .arr a => match a.toList with
    | [.str x, .str y] => some (x, y)
    | _ => none
  | _ => none

def mkOracle (j : Json) : Oracle :=
  let vers : List (String × Ver) := (arr j "ver").map fun v =>
    (str v "t", { major := nat v "ma", minor := nat v "mi", patch := nat v "pa", pre := (arr v "pre").map identOf })
  let cons := strs j "con"
  let sat := (arr j "sat").filterMap pairOf
  let dig := (arr j "dig").filterMap pairOf
  { ver := fun t => vers.lookup t
    conOk := fun c => cons.contains c
    sat := fun c v => sat.contains (c, v)
    digest := fun c => dig.lookup c }

def depOf (j : Json) : Dep := ⟨str j "pkg", str j "con"⟩
def pkgOf (j : Json) : Pkg := ⟨str j "name", str j "source", str j "version", (arr j "deps").map depOf, bool j "typed"⟩

def depJson (e : Dep) : Json := Json.mkObj [("pkg", .str e.pkg), ("con", .str e.con)]
def strsJson (l : List String) : Json := Json.arr (l.map Json.str).toArray
def sortStrs (l : List String) : List String := l.mergeSort (fun a b => decide (a ≤ b))
def dedup (l : List String) : List String :=
  l.foldl (fun acc x => if acc.contains x then acc else acc ++ [x]) []

def identKey : Ident → String
  | .num n => s!"#{n}"
  | .alnum s => s

def verKey (o : Oracle) (s : String) : String :=
  match o.ver s with
  | none => s
  | some v =>
    let base := s!"{v.major}.{v.minor}.{v.patch}"
    if v.pre.isEmpty then base else base ++ "-" ++ ".".intercalate (v.pre.map identKey)

def hasTies : List VTag → Bool
  | [] => false
  | v :: vs => vs.any (fun w => v.ver.le w.ver && w.ver.le v.ver) || hasTies vs

def verObs (o : Oracle) (tags : List String) (err : String) (ver : String) : Json :=
  let v := if err == "" && hasTies (parseTags o tags) && (o.ver ver).isSome then "~" else ver
  Json.mkObj [("err", .str err), ("ver", .str v), ("key", .str (verKey o ver))]

def vErrStr : VErr → String
  | .invalidConstraint => "invalidConstraint"
  | .fetchTags => "fetchTags"
  | .diffDigests => "diffDigests"
  | .diffTypes => "diffTypes"
  | .noValidVersion => "noValidVersion"

def errClassOf : String → ErrClass
  | "notFound" => .notFound
  | "alreadyExists" => .alreadyExists
  | "conflict" => .conflict
  | "invalid" => .invalid
  | "forbidden" => .forbidden
  | "timeout" => .timeout
  | "transport" => .transport
  | "deadline" => .deadline
  | _ => .internal

def errClassStr : ErrClass → String
  | .notFound => "notFound"
  | .alreadyExists => "alreadyExists"
  | .conflict => "conflict"
  | .invalid => "invalid"
  | .forbidden => "forbidden"
  | .timeout => "timeout"
  | .internal => "internal"
  | .transport => "transport"
  | .deadline => "deadline"

def sortErrStr : SortErr → String
  | .cycle _ => "cycle"
  | .missing _ => "missing"
  | .fuel => "fuel"

/-- the model's own check that a Sort result is a topological order of the DAG -/
def isTopo (d : Dag) (res : List String) : Bool :=
  d.keys.all (fun k => res.contains k) && res.length == d.length &&
  d.all (fun n => n.deps.all (fun e =>
    match res.idxOf? e.pkg, res.idxOf? n.id with
    | some i, some j => decide (i < j)
    | _, _ => false))

def dagHandler (scn : Json) : Json × Bool × String :=
  let o := mkOracle (obj scn "oracle")
  let upg := bool scn "upg"
  let pkgs := (arr scn "pkgs").map pkgOf
  let roots := strs scn "roots"
  match init o upg pkgs with
  | .error e =>
    let k := match e with | .nodeExists _ => "exists" | .noFrom _ => "nofrom"
    (Json.mkObj [("initErr", .str k), ("implied", .arr #[]), ("nodes", .arr #[]), ("sortErr", .str ""),
                 ("sorted", .arr #[]), ("trace", .arr #[])], true, "")
  | .ok (d, implied) =>
    let ids := sortStrs (dedup (pkgs.flatMap fun p => p.source :: p.deps.map (·.pkg)))
    let nodes := ids.filterMap fun id => (d.get id).map fun n =>
      Json.mkObj [("id", .str n.id), ("isPkg", .bool n.isPkg), ("con", .str n.con), ("parents", strsJson n.parents)]
    let order := if has scn "order" then strs scn "order" else d.keys
    let sr := sort d order
    let (sortErr, sorted) := match sr with
      | .ok r => ("", r)
      | .error e => (sortErrStr e, [])
    let traces := roots.map fun r =>
      match trace d r with
      | .ok t => (Json.mkObj [("root", .str r), ("err", .str ""), ("ids", strsJson (sortStrs t))], true)
      | .error .missing => (Json.mkObj [("root", .str r), ("err", .str "missing"), ("ids", .arr #[])], true)
      | .error .fuel => (Json.mkObj [("root", .str r), ("err", .str "fuel"), ("ids", .arr #[])], false)
    let out := Json.mkObj [("initErr", .str ""), ("implied", Json.arr (implied.map depJson).toArray),
      ("nodes", Json.arr nodes.toArray), ("sortErr", .str sortErr), ("sorted", strsJson sorted),
      ("trace", Json.arr (traces.map (·.1)).toArray)]
    -- model-side monitor: fuel never runs out; a successful Sort is a topological order
    let fuelOk := traces.all (·.2) && sortErr != "fuel"
    let topoOk := match sr with
      | .ok r => d.keys.contains "" || isTopo d r
      | .error _ => true
    (out, fuelOk && topoOk, if !fuelOk then "C17:model-fuel" else if !topoOk then "C17:model-sort-not-topological" else "")

def instHandler (scn : Json) : Json × Bool × String :=
  let o := mkOracle (obj scn "oracle")
  let tags := strs scn "tags"
  let con := str scn "con"
  let fetch := if bool scn "fetchFail" then none else some tags
  match toInstall o con fetch with
  | .error e => (verObs o tags (vErrStr e) "", true, "")
  | .ok v =>
    -- model-side monitor: a selected tag satisfies the constraint
    let ok := v == "" || (o.digest con).isSome || o.sat con v
    (verObs o tags "" v, ok, if ok then "" else "C17:model-install-violates")

def updHandler (scn : Json) : Json × Bool × String :=
  let o := mkOracle (obj scn "oracle")
  let tags := strs scn "tags"
  let parents := strs scn "parents"
  let fetch := if bool scn "fetchFail" then none else some tags
  match toUpdate o parents (str scn "installed") (bool scn "down") fetch with
  | .err e => (verObs o tags (vErrStr e) "", true, "")
  | .panic => (Json.mkObj [("err", .str "panic"), ("ver", .str ""), ("key", .str "")], true, "")
  | .ok v =>
    let ok := (parents.any fun c => (o.digest c).isSome) || satAll o parents v
    (verObs o tags "" v, ok, if ok then "" else "C17:model-update-violates")

def pkgJson (p : Pkg) : Json :=
  Json.mkObj [("name", .str p.name), ("source", .str p.source), ("version", .str p.version), ("typed", .bool p.typed),
    ("deps", Json.arr (p.deps.map depJson).toArray)]

def resErrStr : ResErr → String
  | .none => ""
  | .initDag => "initDag"
  | .missingDirect => "missing"
  | .missingDeps => "missing"
  | .traceMissing => "traceMissing"
  | .notInGraph => "notInGraph"
  | .notLockPackage => "notLockPackage"
  | .digestMismatch => "digestMismatch"
  | .badConstraint => "badConstraint"
  | .badVersion => "badVersion"
  | .incompatible => "incompatible"
  | .conflict => "conflict"

/-- an interference point of the scenario: absent / null = nobody wrote, an array = the packages
the other writer stored -/
def optPkgs (j : Json) (k : String) : Option (List Pkg) :=
  match j.getObjVal? k with
  | .ok (.arr a) => some (a.toList.map pkgOf)
  | _ => none

def envOf (scn : Json) : Interf :=
  let e := obj scn "env"
  { rmGet := optPkgs e "rmGet", rmUpd := optPkgs e "rmUpd", refresh := optPkgs e "refresh", upd := optPkgs e "upd" }

def resOutJson (r : ResOut) : List (String × Json) :=
  [("found", .num (Lean.JsonNumber.fromInt r.found)), ("installed", .num (Lean.JsonNumber.fromInt r.installed)),
   ("invalid", .num (Lean.JsonNumber.fromInt r.invalid)), ("err", .str (resErrStr r.err)),
   ("lock", Json.arr (r.lock.map pkgJson).toArray)]

def resHandler (scn : Json) : Json × Bool × String :=
  let o := mkOracle (obj scn "oracle")
  let upg := bool scn "upg"
  let lock := (arr scn "lock").map pkgOf
  let self := pkgOf (obj scn "self")
  let fault : Option Fault := if has scn "fault" then
      some ⟨nat (obj scn "fault") "k", errClassOf (str (obj scn "fault") "class")⟩ else none
  let rf := resolveF o upg (if bool scn "absent" then none else some lock) self (envOf scn) fault
  let ferr := match rf.err with
    | .res e => resErrStr e
    | .getOrCreate c => "getOrCreate:" ++ errClassStr c
    | .api c => if c == .conflict then "conflict" else "api:" ++ errClassStr c
  let r : ResOut := ⟨rf.found, rf.installed, rf.invalid, match rf.err with | .res e => e | _ => .conflict, rf.lock.getD []⟩
  -- model-side monitor: satisfied only if every direct dependency is a lock package
  let okOf := fun (r : ResOut) (self : Pkg) => r.err != .none || self.deps.all (fun e => r.lock.any (fun p => p.source == e.pkg))
  -- further Resolve calls of the same manager: the model is per call, on the Lock as it is then
  let (_, more, ok) := (arr scn "more").foldl (fun (acc : List Pkg × List Json × Bool) j =>
    let self' := pkgOf (obj j "self")
    let lock' := (optPkgs j "set").getD acc.1
    let r' := resolveI false o upg lock' self' Interf.quiet
    (r'.lock, acc.2.1 ++ [Json.mkObj (resOutJson r')], acc.2.2 && okOf r' self')) (r.lock, [], okOf r self)
  let out := Json.mkObj ((resOutJson r).map (fun kv => if kv.1 == "err" then ("err", Json.str ferr) else kv) ++
    [("more", Json.arr more.toArray)])
  (out, ok, if ok then "" else "C17:model-satisfied-with-missing-direct")

def recErrStr : RecErr → String
  | .none => ""
  | .buildDag => "buildDag"
  | .sortDag => "sortDag"
  | .findInstall e => "findInstall:" ++ vErrStr e
  | .noVersion => ""
  | .findUpdate e => "findUpdate:" ++ vErrStr e
  | .panic => "panic"

def recHandler (scn : Json) : Json × Bool × String :=
  let o := mkOracle (obj scn "oracle")
  let lock := (arr scn "lock").map pkgOf
  let inst := (arr scn "installed").map fun j => (str j "source", str j "version")
  let tags := (arr scn "tags").map fun j => (str j "repo", (bool j "fail", strs j "tags"))
  let fetch : String → Option (List String) := fun id =>
    match tags.lookup id with
    | some (true, _) => none
    | some (false, ts) => some ts
    | none => some []
  let order := match init o (bool scn "upg") lock with
    | .ok (d, _) => d.keys
    | .error _ => []
  let r := reconcile o (bool scn "upg") (bool scn "down") lock order (fun id => inst.lookup id) fetch
  let (act, src, ver) := match r.act with
    | .nothing => ("none", "", "")
    | .create s v => ("create", s, v)
    | .update s v => ("update", s, v)
  let repoTags := ((tags.lookup src).map (·.2)).getD []
  let vo := if act == "none" then ("", "") else
    (if hasTies (parseTags o repoTags) && (o.ver ver).isSome then "~" else ver, verKey o ver)
  let out := Json.mkObj [("act", .str act), ("src", .str src), ("ver", .str vo.1), ("key", .str vo.2),
    ("err", .str (recErrStr r.err)),
    ("resolved", .str (match r.resolved with | some true => "True" | some false => "False" | none => ""))]
  (out, true, "")

/-! ### the lock reconciler's world (kind "recw") -/

def resolvedOf : String → Option Bool
  | "True" => some true
  | "False" => some false
  | _ => none

def resolvedStr : Option Bool → String
  | some true => "True"
  | some false => "False"
  | none => ""

def wlockOf (j : Json) (rv : Nat) : LockObj :=
  ⟨(arr j "pkgs").map pkgOf, bool j "fin", resolvedOf (str j "resolved"), rv⟩

def initWorld (scn : Json) : RWorld :=
  let lock := if has scn "lock" then some (wlockOf (obj scn "lock") 1) else none
  let (pkgs, next) := (arr scn "pkgs").foldl (fun (acc : List PkgObj × Nat) j =>
    let k := str j "kind"; let nm := str j "name"
    if acc.1.any (sameKey k nm) then acc else (acc.1 ++ [⟨k, nm, optStr j "image", acc.2⟩], acc.2 + 1)) ([], 2)
  let clock := if bool scn "clockFresh" then lock
    else if has scn "clock" then some (wlockOf (obj scn "clock") 0) else none
  let cpkgs := (arr scn "cpkgs").filterMap fun j =>
    let k := str j "kind"; let nm := str j "name"
    if bool j "fresh" then pkgs.find? (sameKey k nm) else some ⟨k, nm, optStr j "image", 0⟩
  let tags := (arr scn "tags").foldl (fun acc j =>
    setTagsOf (str j "repo") (if bool j "fail" then none else some (strs j "tags")) acc) []
  { lock := lock, pkgs := pkgs, clock := clock, cpkgs := cpkgs, tags := tags, next := next }

def wactOf (j : Json) : Nat × WAct :=
  (nat j "k", match str j "do" with
    | "setLock" => .setLock ((arr j "pkgs").map pkgOf)
    | "delLock" => .delLock
    | "setPkg" => .setPkg (str j "kind") (str j "name") (optStr j "image")
    | "delPkg" => .delPkg (str j "kind") (str j "name")
    | "syncLock" => .syncLock
    | "syncPkg" => .syncPkg (str j "kind") (str j "name")
    | "setTags" => .setTags (str j "repo") (if bool j "fail" then none else some (strs j "tags"))
    | _ => .err (errClassOf (str j "class")))

def reqStr : Req → String
  | .getLock => "get:lock"
  | .updateLock _ fin _ => s!"update:lock:fin={fin}"
  | .statusLock c _ => "status:lock:" ++ resolvedStr c
  | .listPkgs k => "list:" ++ k
  | .pullSecret _ => "secret"
  | .tags r => "tags:" ++ r
  | .createPkg k n i => s!"create:{k}/{n}={i}"
  | .updatePkg k n i _ => s!"update:{k}/{n}={i}"
  | .getPkg k n => s!"get:{k}/{n}"

def respStr : Option Resp → String
  | some (.err e) => errClassStr e
  | _ => "ok"

def rErrStr : RErr → String
  | .none => ""
  | .getLock e => "getLock:" ++ errClassStr e
  | .removeFinalizer e => "removeFinalizer:" ++ errClassStr e
  | .addFinalizer e => "addFinalizer:" ++ errClassStr e
  | .status e => "status:" ++ errClassStr e
  | .buildDag => "buildDag"
  | .sortDag => "sortDag"
  | .depType => "depType"
  | .list e => "list:" ++ errClassStr e
  | .findInstall e => "findInstall:" ++ vErrStr e
  | .pullInstall => "findInstall:pullConfig"
  | .construct => "construct"
  | .create e => "create:" ++ errClassStr e
  | .createTaken => "create:nameTaken"
  | .findUpdate e => "findUpdate:" ++ vErrStr e
  | .pullUpdate => "findUpdate:pullConfig"
  | .update e => "update:" ++ errClassStr e
  | .panic => "panic"

def worldJson (w : RWorld) : List (String × Json) :=
  let (ls, lp) := match w.lock with
    | none => ("absent", [])
    | some l => (s!"fin={l.fin}/resolved={resolvedStr l.resolved}", l.pkgs)
  [("lock", .str ls), ("lockPkgs", Json.arr (lp.map pkgJson).toArray),
   ("pkgs", strsJson (sortStrs (w.pkgs.map fun p => s!"{p.kind}/{p.name}={p.image.getD "<none>"}")))]

def recwHandler (scn : Json) : Json × Bool × String :=
  let o := mkOracle (obj scn "oracle")
  let refs : List (String × RefInfo) := (arr scn "refs").map fun j =>
    (str j "s", ⟨str j "repo", str j "ident", str j "str", str j "name"⟩)
  let kinds : List (String × String) := (arr scn "kinds").filterMap pairOf
  let cfg : RCfg := { o := o, refOf := fun s => refs.lookup s, kindOf := fun id => (kinds.lookup id).getD "",
                      upg := bool scn "upg", down := bool scn "down" }
  let steps : List (List (Nat × WAct)) := (arr scn "steps").map fun st =>
    match st with
    | .arr a => a.toList.map wactOf
    | _ => []
  let (_, outs, ok) := steps.foldl (fun (acc : RWorld × List Json × Bool) acts =>
    let w0 := acc.1.fresh
    let env := scriptEnvW acts
    let r := runE recSem env Plan.allOk 0 (reconcileP cfg) w0
    let log := callLogE recSem env Plan.allOk 0 (reconcileP cfg) w0
    let res : RRes := r.2.getD ⟨.panic, false⟩
    let calls := log.map fun (rq, _, rs) => reqStr rq ++ ":" ++ respStr rs
    let out := Json.mkObj ([("err", .str (rErrStr res.err)), ("requeue", .bool res.requeue),
      ("calls", strsJson calls)] ++ worldJson r.1)
    -- model-side monitor: at most one package write per Reconcile
    (r.1, acc.2.1 ++ [out], acc.2.2 && decide (r.1.seen.writes ≤ 1))) (initWorld scn, [], true)
  (Json.mkObj [("steps", Json.arr outs.toArray)], ok, if ok then "" else "C17:model-more-than-one-package-written")

def optJson : Option String → Json
  | some s => .str s
  | none => .null

def metaDepOf (j : Json) : MetaDep :=
  ⟨optStr j "apiVersion", optStr j "kindf", optStr j "package", optStr j "provider", optStr j "configuration",
   optStr j "function", str j "version"⟩

/-- the glue scenarios: meta dependsOn ↦ lock dependencies, the revision's own lock entry,
NewPackage / NewPackageList for every recorded dependency -/
def glueHandler (scn : Json) : Json × Bool × String :=
  let refs : List (String × String × String) := (arr scn "refs").map fun j => (str j "in", str j "str", str j "ident")
  let image := str scn "image"
  let version := str scn "version"
  let tbl := Xp.Gen.c17KindTable
  let ty := match nat scn "pkgKind" with
    | 1 => Xp.Gen.c17TypeConfiguration
    | 2 => Xp.Gen.c17TypeFunction
    | _ => Xp.Gen.c17TypeProvider
  let (gv, kind) := ((tbl.find? (fun t => t.1 == ty)).map (·.2)).getD ("", "")
  let none' (err : String) : Json := Json.mkObj [("err", .str err), ("recorded", .bool false), ("source", .str ""),
    ("version", .str ""), ("selfApiVersion", .str ""), ("selfKind", .str ""), ("deps", Json.arr #[]), ("new", Json.arr #[])]
  match metaDepsToLock ((arr scn "deps").map metaDepOf) with
  | none => (none' "invalidDependency", true, "")
  | some deps =>
    match refs.lookup ("|" ++ image) with
    | none => (none' "parseRef", true, "")
    | some (refStr, ident) =>
      let self := selfEntry gv kind "rev" refStr ident deps
      let depsJ := self.deps.map fun d => Json.mkObj [("pkg", .str d.pkg), ("apiVersion", optJson d.apiVersion),
        ("kindf", optJson d.kind), ("type", optJson d.type), ("con", .str d.con)]
      let newJ := self.deps.filterMap fun d =>
        match refs.lookup ("xpkg.io|" ++ d.pkg) with
        | none => none
        | some (dStr, _) =>
          match newPackage tbl d.fields version dStr, newPackageList tbl d.fields with
          | some (a, k, img), some (la, lk) => some (Json.mkObj [("err", .bool false), ("apiVersion", .str a), ("kindf", .str k),
              ("image", .str img), ("listApiVersion", .str la), ("listKind", .str lk)])
          | _, _ => some (Json.mkObj [("err", .bool true), ("apiVersion", .str ""), ("kindf", .str ""),
              ("image", .str ""), ("listApiVersion", .str ""), ("listKind", .str "")])
      (Json.mkObj [("err", .str ""), ("recorded", .bool true), ("source", .str self.source), ("version", .str self.version),
        ("selfApiVersion", .str self.apiVersion), ("selfKind", .str self.kind), ("deps", Json.arr depsJ.toArray),
        ("new", Json.arr newJ.toArray)], true, "")

def handler : Handler := fun scn =>
  match str scn "kind" with
  | "dag" => .ok (dagHandler scn)
  | "install" => .ok (instHandler scn)
  | "update" => .ok (updHandler scn)
  | "resolve" => .ok (resHandler scn)
  | "reconcile" => .ok (recHandler scn)
  | "recw" => .ok (recwHandler scn)
  | "glue" => .ok (glueHandler scn)
  | k => .error s!"unknown scenario kind {k}"

end Xp.C17

import Xp.Base.JsonIO
import Xp.Model.C02Crd
/-
Driver of the C02 site "crd" (harness/main/c02_crd.go): parses one scenario, runs the model of
the definition / offered reconciler round by round under the scenario's fault plans and prints
the observation in the shape of `c02CrdObs`. Model-side verdict: a CRD that was controlled by
another owner when the scenario started is in every store the run passes through exactly as
it was, and a reconcile of a live, renderable XRD against it never ends in plain success.
-/
namespace Xp.C02Crd
open Lean (Json)
open Xp.IOx

def whichOf : String → Which
  | "offered" => .offered
  | _ => .definition

def ctrlOf : String → Ctrl
  | "xrd" => .xrd | "other" => .other | _ => .none

def ctrlStr : Ctrl → String
  | .xrd => "xrd" | .other => "other" | .none => "none"

def bodyStr : Body → String
  | .rendered => "rendered" | .old => "old"

def condStr : Cond → String
  | .none => "none" | .watching => "watching" | .terminating => "terminating"

def outcomeOf : String → Outcome
  | "fail" => .fail
  | "conflict" => .conflict
  | "crashBefore" => .crashBefore
  | "crashAfter" => .crashAfter
  | _ => .ok

def outcomeStr : Outcome → String
  | .ok => "ok" | .fail => "fail" | .conflict => "conflict" | .crashBefore => "crashBefore" | .crashAfter => "crashAfter"

def xrdName : String := "xthings.example.org"
def crdName : Which → String
  | .definition => "xthings.example.org"
  | .offered => "things.example.org"
def instKind : Which → String
  | .definition => "XThing"
  | .offered => "Thing"

def reqStr (w : Which) : Req → String
  | .getXRD => s!"get XRD/{xrdName}"
  | .updateXRD _ _ => s!"update XRD/{xrdName}"
  | .statusXRD _ _ => s!"update XRD/{xrdName}/status"
  | .getCRD => s!"get CRD/{crdName w}"
  | .createCRD => s!"create CRD/{crdName w}"
  | .updateCRD _ => s!"update CRD/{crdName w}"
  | .deleteCRD => s!"delete CRD/{crdName w}"
  | .deleteInstances => s!"deleteAllOf {instKind w}/"
  | .listInstances => s!"list {instKind w}/"

/-- the error class the harness logs for a reply (simstore `errClass`) -/
def respClass : Resp → String
  | .xrd none | .crd none | .notFound => "notFound"
  | .exists => "alreadyExists"
  | .conflict => "conflict"
  | .err => "other"
  | _ => ""

def callStr (w : Which) : Req × Outcome × Option Resp → String
  | (r, o, some x) => s!"{reqStr w r} {outcomeStr o}>{respClass x}"
  | (r, o, none) => s!"{reqStr w r} {outcomeStr o}>crashed"

def resStr : Option Res → String
  | none => "crashed"
  | some .ok => "ok"
  | some .requeue => "requeue"
  | some .err => "err"

def crdJson (start : Option CRD) : Option CRD → Json
  | none => Json.mkObj [("present", .bool false), ("ctrl", .str ""), ("body", .str ""), ("plain", .bool false),
      ("est", .bool false), ("fin", .bool false), ("del", .bool false), ("touched", .bool start.isSome)]
  | some c => Json.mkObj [("present", .bool true), ("ctrl", .str (ctrlStr c.ctrl)), ("body", .str (bodyStr c.body)),
      ("plain", .bool c.plain), ("est", .bool c.est), ("fin", .bool c.fin), ("del", .bool c.del),
      ("touched", .bool (start.map (·.rv) != some c.rv))]

def xrdJson : Option XRD → Json
  | none => Json.mkObj [("present", .bool false), ("fin", .bool false), ("cond", .str "none")]
  | some x => Json.mkObj [("present", .bool true), ("fin", .bool x.fin), ("cond", .str (condStr x.cond))]

def planOfRound (rd : Json) : Plan :=
  let f := obj rd "fault"
  if has rd "fault" then Plan.at (nat f "k") (outcomeOf (str f "o")) else Plan.allOk

def handler : Handler := fun scn => do
  let w := whichOf (str scn "rec")
  let x := obj scn "xrd"
  let c := obj scn "crd"
  let xrd : XRD := { del := bool x "del", fin := bool x "fin", ofin := bool x "ofin", claim := bool x "claim", cond := .none, rv := 1 }
  let crd : Option CRD :=
    if bool c "present" then
      some { ctrl := ctrlOf (str c "ctrl"), plain := bool c "plain", body := if bool c "old" then .old else .rendered,
             est := bool c "est", fin := bool c "fin", del := bool c "del" && bool c "fin", rv := 2 }
    else none
  let s0 : St := { xrd := some xrd, crd := crd, next := 2 }
  let foreign := match crd with | some k => k.ctrl == Ctrl.other | none => false
  let mut s := s0
  let mut rounds : Array Json := #[]
  let mut bad := ""
  for rd in arr scn "rounds" do
    let plan := planOfRound rd
    let prog := reconcile w
    let log := callLog sem plan 0 prog s
    let (s', r) := run sem plan 0 prog s
    -- model-side monitors
    if foreign then
      if (reach sem plan 0 prog s).any (fun t => t.crd != crd) then bad := "C02:crd-foreign-touched-in-model"
      let liveXrd := match s.xrd with | some d => !d.del && !(w == Which.offered && !d.claim) | none => false
      if liveXrd && r == some Res.ok then bad := "C02:crd-conflict-not-surfaced-in-model"
    rounds := rounds.push (Json.mkObj [
      ("calls", Json.arr (log.map fun e => Json.str (callStr w e)).toArray),
      ("res", .str (resStr r)),
      ("xrd", xrdJson s'.xrd),
      ("crd", crdJson s.crd s'.crd)])
    s := s'
  return (Json.mkObj [("rounds", Json.arr rounds)], bad == "", bad)

end Xp.C02Crd

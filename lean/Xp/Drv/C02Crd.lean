import Xp.Base.JsonIO
import Xp.Model.C02Crd
import Xp.Model.C02CrdEnv
/-
Driver of the C02 site "crd" (harness/main/c02_crd.go): parses one scenario, runs the model of
the definition / offered reconciler round by round under the scenario's fault plans and prints
the observation in the shape of `c02CrdObs`. Model-side verdict: a CRD that was controlled by
another owner when the scenario started is in every store the run passes through exactly as
it was, and a reconcile of a live, renderable XRD against it never ends in plain success.
-/
namespace Xp.C02Crd
open Lean (Json)
open Xp.IOx

def whichOf : String → Which
  | "offered" => .offered
  | _ => .definition

def ctrlOf : String → Ctrl
  | "xrd" => .xrd | "other" => .other | _ => .none

def ctrlStr : Ctrl → String
  | .xrd => "xrd" | .other => "other" | .none => "none"

def bodyStr : Body → String
  | .rendered => "rendered" | .old => "old"

def condStr : Cond → String
  | .none => "none" | .watching => "watching" | .terminating => "terminating"

def outcomeOf : String → Outcome
  | "fail" => .fail
  | "conflict" => .conflict
  | "crashBefore" => .crashBefore
  | "crashAfter" => .crashAfter
  | _ => .ok

def outcomeStr : Outcome → String
  | .ok => "ok" | .fail => "fail" | .conflict => "conflict" | .crashBefore => "crashBefore" | .crashAfter => "crashAfter"

def xrdName : String := "xthings.example.org"
def crdName : Which → String
  | .definition => "xthings.example.org"
  | .offered => "things.example.org"
def instKind : Which → String
  | .definition => "XThing"
  | .offered => "Thing"

def reqStr (w : Which) : Req → String
  | .getXRD => s!"get XRD/{xrdName}"
  | .updateXRD _ _ => s!"update XRD/{xrdName}"
  | .statusXRD _ _ => s!"update XRD/{xrdName}/status"
  | .getCRD => s!"get CRD/{crdName w}"
  | .createCRD => s!"create CRD/{crdName w}"
  | .updateCRD _ => s!"update CRD/{crdName w}"
  | .deleteCRD => s!"delete CRD/{crdName w}"
  | .deleteInstances => s!"deleteAllOf {instKind w}/"
  | .listInstances => s!"list {instKind w}/"

/-- the error class the harness logs for a reply (simstore `errClass`) -/
def respClass : Resp → String
  | .xrd none | .crd none | .notFound => "notFound"
  | .exists => "alreadyExists"
  | .conflict => "conflict"
  | .err => "other"
  | _ => ""

def callStr (w : Which) : Req × Outcome × Option Resp → String
  | (r, o, some x) => s!"{reqStr w r} {outcomeStr o}>{respClass x}"
  | (r, o, none) => s!"{reqStr w r} {outcomeStr o}>crashed"

def resStr : Option Res → String
  | none => "crashed"
  | some .ok => "ok"
  | some .requeue => "requeue"
  | some .err => "err"

def crdJson (start : Option CRD) : Option CRD → Json
  | none => Json.mkObj [("present", .bool false), ("ctrl", .str ""), ("body", .str ""), ("plain", .bool false),
      ("est", .bool false), ("fin", .bool false), ("del", .bool false), ("touched", .bool start.isSome)]
  | some c => Json.mkObj [("present", .bool true), ("ctrl", .str (ctrlStr c.ctrl)), ("body", .str (bodyStr c.body)),
      ("plain", .bool c.plain), ("est", .bool c.est), ("fin", .bool c.fin), ("del", .bool c.del),
      ("touched", .bool (start.map (·.rv) != some c.rv))]

def xrdJson : Option XRD → Json
  | none => Json.mkObj [("present", .bool false), ("fin", .bool false), ("cond", .str "none")]
  | some x => Json.mkObj [("present", .bool true), ("fin", .bool x.fin), ("cond", .str (condStr x.cond))]

def planOfRound (rd : Json) : Plan :=
  let f := obj rd "fault"
  if has rd "fault" then Plan.at (nat f "k") (outcomeOf (str f "o")) else Plan.allOk

def handler : Handler := fun scn => do
  let w := whichOf (str scn "rec")
  let x := obj scn "xrd"
  let c := obj scn "crd"
  let xrd : XRD := { del := bool x "del", fin := bool x "fin", ofin := bool x "ofin", claim := bool x "claim", cond := .none, rv := 1 }
  let crd : Option CRD :=
    if bool c "present" then
      some { ctrl := ctrlOf (str c "ctrl"), plain := bool c "plain", body := if bool c "old" then .old else .rendered,
             est := bool c "est", fin := bool c "fin", del := bool c "del" && bool c "fin", rv := 2 }
    else none
  let s0 : St := { xrd := some xrd, crd := crd, next := 2 }
  let mut s := s0
  let mut rounds : Array Json := #[]
  let mut bad := ""
  for rd in arr scn "rounds" do
    let plan := planOfRound rd
    let prog := reconcile w
    -- the CRD as this reconcile finds it
    let crd0 := s.crd
    let foreign := match crd0 with | some k => k.ctrl == Ctrl.other | none => false
    if has rd "env" then
      -- a concurrent writer of the CRD before call k of this reconcile (Xp.C02CrdEnv)
      let ev := obj rd "env"
      let a : Xp.C02CrdEnv.Act := match str ev "act" with
        | "adopt" => .adopt | "edit" => .edit | "create" => .create | _ => .remove
      let env := Xp.C02CrdEnv.actAt (nat ev "k") a
      let e0 : Xp.C02CrdEnv.E := { base := s, seen := none }
      let log := callLogE Xp.C02CrdEnv.sem env plan 0 prog e0
      let (e', r) := runE Xp.C02CrdEnv.sem env plan 0 prog e0
      -- model-side monitor: an own call changed a CRD foreign at that moment, outside the window
      let own := ownE Xp.C02CrdEnv.sem env plan 0 prog e0
      if own.any (fun x => match x.1.base.crd with
          | some c => c.ctrl == Ctrl.other && (Xp.C02CrdEnv.exec x.1 x.2).1.base.crd != some c &&
              !(x.2 == Req.deleteCRD && (match x.1.seen with | some (some c0) => c0.ctrl == Ctrl.xrd && c0.rv != c.rv | _ => false))
          | none => false) then bad := "C02:crd-foreign-written-outside-window-in-model"
      rounds := rounds.push (Json.mkObj [
        ("calls", Json.arr (log.map fun e => Json.str (callStr w e)).toArray),
        ("res", .str (resStr r)),
        ("xrd", xrdJson e'.base.xrd),
        ("crd", crdJson s.crd e'.base.crd)])
      s := e'.base
    else
      let log := callLog sem plan 0 prog s
      let (s', r) := run sem plan 0 prog s
      -- model-side monitors
      if foreign then
        if (reach sem plan 0 prog s).any (fun t => t.crd != crd0) then bad := "C02:crd-foreign-touched-in-model"
        let liveXrd := match s.xrd with | some d => !d.del && !(w == Which.offered && !d.claim) | none => false
        if liveXrd && r == some Res.ok then bad := "C02:crd-conflict-not-surfaced-in-model"
      rounds := rounds.push (Json.mkObj [
        ("calls", Json.arr (log.map fun e => Json.str (callStr w e)).toArray),
        ("res", .str (resStr r)),
        ("xrd", xrdJson s'.xrd),
        ("crd", crdJson s.crd s'.crd)])
      s := s'
  return (Json.mkObj [("rounds", Json.arr rounds)], bad == "", bad)

end Xp.C02Crd

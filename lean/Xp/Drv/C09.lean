import Xp.Base.JsonIO
import Xp.Model.C09
namespace Xp.C09
open Lean (Json)
open Xp.IOx

def dataOf (j : Json) (k : String) : Data := (arr j k).map fun x => (str x "k", str x "v")

def ctrlOf : String → Ctrl
  | "owner" => .owner | "xr" => .xr | "other" => .other | "xrPlain" => .xrPlain | _ => .none

def ctrlStr : Ctrl → String
  | .owner => "owner" | .xr => "xr" | .other => "other" | .none => "none" | .xrPlain => "xrPlain"

def slotOf (j : Json) : Slot :=
  if bool j "present" then some ⟨bool j "conn", ctrlOf (str j "ctrl"), dataOf j "data"⟩ else none

def dataJson (d : Data) : Json :=
  Json.arr ((d.mergeSort fun a b => a.1 ≤ b.1).map fun kv => Json.mkObj [("k", .str kv.1), ("v", .str kv.2)]).toArray

def slotJson : Slot → Json
  | none => Json.mkObj [("present", .bool false), ("conn", .bool false), ("ctrl", .str "none"), ("data", Json.arr #[])]
  | some s => Json.mkObj [("present", .bool true), ("conn", .bool s.conn), ("ctrl", .str (ctrlStr s.ctrl)), ("data", dataJson s.data)]

def bools (l : List Bool) : Json := Json.arr (l.map Json.bool).toArray

def iter (n : Nat) (f : Slot → Res) (slot : Slot) : List Res × Slot :=
  match n with
  | 0 => ([], slot)
  | n + 1 => let r := f slot; let (rs, s') := iter n f r.slot; (r :: rs, s')

def leakHandler : Handler := fun scn => do
  let ctrl := ctrlOf (str scn "ctrl")
  let sec := if bool scn "cdSecret" then some (dataOf scn "secret") else none
  let rounds := nat scn "rounds"
  let mut slot : Slot := none
  let mut synced := false
  for _ in List.range rounds do
    let (r, s) := ptFlow ctrl sec (str scn "key") slot
    slot := r.slot
    synced := s
  let ok := !(ctrl == .other) || slot.isNone
  return (Json.mkObj [("xrSecret", slotJson slot), ("synced", .bool synced)], ok, if ok then "" else "C09:foreign-details-published")

def handler : Handler := fun scn => do
  let op := str scn "op"
  if op == "ptflow" then return ← leakHandler scn
  let rounds := nat scn "rounds"
  let dest := slotOf (obj scn "dest")
  let src := slotOf (obj scn "src")
  let empty := Json.arr #[]
  -- the environment acts on the first call only (the cache catches up, the concurrent writer acts once)
  let env : Env := { miss := bool scn "miss", swap := bool scn "swap" }
  if op == "publish" then
    let filter := strs scn "filter"
    let details := dataOf scn "details"
    let r0 := if rounds == 0 then none else some (publishE env (bool scn "wants") filter details dest)
    let (rs, fin) := match r0 with
      | none => ([], dest)
      | some r => let (rs', f) := iter (rounds - 1) (publish (bool scn "wants") filter details) r.slot; (r :: rs', f)
    -- model-side monitor: only allowed keys are ever written; identical data is not rewritten
    let ok := rs.all fun r => r.writes == 0 || r.published || r.err
    let out := Json.mkObj [("dest", slotJson fin), ("src", slotJson none),
      ("published", bools (rs.map (·.published))), ("errs", bools (rs.map (·.err))),
      ("writes", Json.arr (rs.map fun r => Json.num r.writes).toArray), ("extracted", empty)]
    return (out, ok, if ok then "" else "C09:model")
  else if op == "propagate" then
    let r0 := if rounds == 0 then none else some (propagateE env (bool scn "fromWants") (bool scn "wants") src dest)
    -- the concurrent writer acts when the first write to the claim's secret is attempted
    let src' := match r0 with
      | some r => if env.swap && r.writes > 0 then swappedSource src else src
      | none => src
    let (rs, fin) := match r0 with
      | none => ([], dest)
      | some r => let (rs', f) := iter (rounds - 1) (propagate (bool scn "fromWants") (bool scn "wants") src') r.slot; (r :: rs', f)
    let src := src'
    let out := Json.mkObj [("dest", slotJson fin), ("src", slotJson src),
      ("published", bools (rs.map (·.published))), ("errs", bools (rs.map (·.err))),
      ("writes", Json.arr (rs.map fun r => Json.num r.writes).toArray), ("extracted", empty)]
    return (out, true, "")
  else
    let fields := dataOf scn "fields"
    let fieldAt (p : String) : Option String :=
      if p == "metadata.name" then some "cd"
      else if p.startsWith "spec." then dget fields (p.drop 5).toString else none
    let cfgs := (arr scn "cfgs").map fun c =>
      (⟨str c "type", str c "name", if str c "key" == "" then none else some (str c "key"),
        if str c "path" == "" then none else some (str c "path"),
        if bool c "hasV" then some (str c "value") else none⟩ : Cfg)
    let r := extract (dataOf scn "connData") fieldAt cfgs []
    let out := Json.mkObj [("dest", slotJson none), ("src", slotJson none), ("published", empty),
      ("errs", bools [r.isNone]), ("writes", empty), ("extracted", dataJson (r.getD []))]
    return (out, true, "")

end Xp.C09

import Xp.Base.JsonIO
import Xp.Model.C09
import Xp.Model.C09World
namespace Xp.C09
open Lean (Json)
open Xp.IOx

def dataOf (j : Json) (k : String) : Data := (arr j k).map fun x => (str x "k", str x "v")

def ctrlOf : String → Ctrl
  | "owner" => .owner | "xr" => .xr | "other" => .other | "xrPlain" => .xrPlain | _ => .none

def ctrlStr : Ctrl → String
  | .owner => "owner" | .xr => "xr" | .other => "other" | .none => "none" | .xrPlain => "xrPlain"

def slotOf (j : Json) : Slot :=
  if bool j "present" then some ⟨bool j "conn", ctrlOf (str j "ctrl"), dataOf j "data"⟩ else none

def dataJson (d : Data) : Json :=
  Json.arr ((d.mergeSort fun a b => a.1 ≤ b.1).map fun kv => Json.mkObj [("k", .str kv.1), ("v", .str kv.2)]).toArray

def slotJson : Slot → Json
  | none => Json.mkObj [("present", .bool false), ("conn", .bool false), ("ctrl", .str "none"), ("data", Json.arr #[])]
  | some s => Json.mkObj [("present", .bool true), ("conn", .bool s.conn), ("ctrl", .str (ctrlStr s.ctrl)), ("data", dataJson s.data)]

def bools (l : List Bool) : Json := Json.arr (l.map Json.bool).toArray

def iter (n : Nat) (f : Slot → Res) (slot : Slot) : List Res × Slot :=
  match n with
  | 0 => ([], slot)
  | n + 1 => let r := f slot; let (rs, s') := iter n f r.slot; (r :: rs, s')

def leakHandler : Handler := fun scn => do
  let ctrl := ctrlOf (str scn "ctrl")
  let sec := if bool scn "cdSecret" then some (dataOf scn "secret") else none
  let rounds := nat scn "rounds"
  let mut slot : Slot := none
  let mut synced := false
  for _ in List.range rounds do
    let (r, s) := ptFlow ctrl sec (str scn "key") slot
    slot := r.slot
    synced := s
  let ok := !(ctrl == .other) || slot.isNone
  return (Json.mkObj [("xrSecret", slotJson slot), ("synced", .bool synced)], ok, if ok then "" else "C09:foreign-details-published")

/-! ### world and flow scenarios (Model/C09World.lean) -/

def keyOf (j : Json) : Key := (str j "ns", str j "name")

def optKey (j : Json) (k : String) : Option Key := if has j k then some (keyOf (obj j k)) else none

def asecOf (j : Json) : Key × ASecret :=
  (keyOf j, ⟨str j "type", if str j "ctrl" == "" then none else some (str j "ctrl"), strs j "plain", dataOf j "data"⟩)

def clsOf : String → ECls
  | "notFound" => .notFound | "conflict" => .conflict | "alreadyExists" => .alreadyExists
  | "invalid" => .invalid | "forbidden" => .forbidden | "temporary" => .temporary | _ => .deadline

def faultOf (j : Json) (k : String) : Option Fault :=
  if has j k then let f := obj j k; some ⟨nat f "idx", clsOf (str f "cls"), bool f "lost"⟩ else none

def worldOf (j : Json) : World := (arr j "secrets").foldl (fun w s => let (k, a) := asecOf s; wset w k a) []

def keyLe (a b : Key) : Bool := a.1 < b.1 || (a.1 == b.1 && a.2 ≤ b.2)

def worldJson (w : World) : Json :=
  Json.arr ((w.mergeSort fun a b => keyLe a.1 b.1).map fun (k, s) =>
    Json.mkObj [("ns", .str k.1), ("name", .str k.2), ("type", .str s.type), ("ctrl", .str (s.ctrl.getD "")),
      ("plain", Json.arr ((s.plain.mergeSort fun a b => a ≤ b).map Json.str).toArray), ("data", dataJson s.data)]).toArray

def outJson (o : Out) : List (String × Json) :=
  [("published", .bool o.published), ("err", .bool o.err), ("writes", Json.num o.writes)]

def worldHandler : Handler := fun scn => do
  let filter := strs scn "filter"
  let mut w := worldOf scn
  let mut calls : Array Json := #[]
  for o in arr scn "ops" do
    let e : EnvW := { fault := faultOf o "fault", swap := bool o "swap" }
    let op : Op :=
      if str o "kind" == "pub" then .pub (str o "me") (optKey o "ref") (dataOf o "details")
      else .prop (str o "me") (str o "cns") (optStr o "cref") (str o "xr") (optKey o "xref")
    let (w', out) := stepW filter e w op
    w := w'
    -- the concurrent writer acts when the write to the claim's secret is attempted
    match op with
    | .prop _ _ (some _) _ (some sk) =>
      if e.swap && out.writes > 0 then w := wset w sk (swappedA (wget w sk))
    | _ => pure ()
    calls := calls.push (Json.mkObj (outJson out))
  return (Json.mkObj [("calls", Json.arr calls), ("secrets", worldJson w)], true, "")

def ctrlOfT : String → Ctrl
  | "xr" => .owner | "other" => .other | _ => .none

def cfgOf (c : Json) : Cfg :=
  ⟨str c "type", str c "name", if str c "key" == "" then none else some (str c "key"),
    if str c "path" == "" then none else some (str c "path"),
    if bool c "hasV" then some (str c "value") else none⟩

def flowHandler : Handler := fun scn => do
  let filter := strs scn "filter"
  let xrs := arr scn "xrs"
  let mut w := worldOf scn
  let mut recs : Array Json := #[]
  -- (XR index, template index) of the templates that were given a fresh resource (adoptFresh)
  let mut fresh : List (Nat × Nat) := []
  for rc in arr scn "recs" do
    let xi := nat rc "xr"
    match xrs[xi]? with
    | none => pure ()
    | some x =>
      let tj := arr x "tmpls"
      let ref := optKey x "ref"
      let fn := str x "mode" == "fn"
      -- the failing Get of one connection secret (by key: templates sharing it are all affected)
      let fetchKey : Option Key :=
        if has rc "fetch" then (tj[nat (obj rc "fetch") "t"]?).bind fun t => optKey t "sec" else none
      let fetchNF := str (obj rc "fetch") "cls" == "notFound"
      let fetchCls := clsOf (str (obj rc "fetch") "cls")
      let ts := tj.zipIdx.map fun (t, ti) =>
        if fresh.contains (xi, ti) then
          ({ cdName := "", ctrl := .owner, secret := none, fetchErr := false, cfgs := (arr t "cfgs").map cfgOf } : Tmpl)
        else
        -- the composed resource's connection secret, read by the (one) secret fetcher
        let sec := optKey t "sec"
        let hit := sec.isSome && sec == fetchKey
        Tmpl.fetched (str t "cd") (ctrlOfT (str t "ctrl")) ((arr t "cfgs").map cfgOf)
          (fetchA w sec (if hit then some fetchCls else none))
      -- functions: the XR's own connection details are fetched first, through the same client
      let ownErr := fn && ref.isSome && ref == fetchKey && !fetchNF
      let e : EnvW := { fault := faultOf rc "fault" }
      let (w', out, composed) := if ownErr then (w, Out.fail 0, false) else flowStep filter e w fn (str x "uid") ref ts
      w := w'
      -- adoptFresh
      if fn && composed then
        for (t, ti) in ts.zipIdx do
          if t.ctrl == .other then fresh := (xi, ti) :: fresh
      recs := recs.push (Json.mkObj ([("composed", .bool composed)] ++ outJson out))
  return (Json.mkObj [("recs", Json.arr recs), ("secrets", worldJson w)], true, "")

def faultOfJ (f : Json) : Option Fault :=
  match f with
  | .null => none
  | _ => some ⟨nat f "idx", clsOf (str f "cls"), bool f "lost"⟩

/-- the claim reconciler around the propagator (Model/C09World.lean `claimRec`) -/
def claimHandler : Handler := fun scn => do
  let mut w := worldOf scn
  let xr : Option BoundXR :=
    if bool scn "bound" then some ⟨"x:xr:1", optKey scn "xref", bool scn "ready", nat scn "xtime"⟩ else none
  let c : ClaimIn := ⟨"c:claim:1", "ns", optStr scn "cref", bool scn "deleted", xr, nat scn "ctime"⟩
  let mut rounds : Array Json := #[]
  for r in arr scn "rounds" do
    let e : EnvW := { fault := faultOfJ r }
    let (w', o) := claimRec e w c
    w := w'
    rounds := rounds.push (Json.mkObj [("stamped", .bool o.stamped), ("err", .bool o.out.err), ("writes", Json.num o.out.writes)])
  return (Json.mkObj [("rounds", Json.arr rounds), ("secrets", worldJson w)], true, "")

def fvalOf (t : Json) : FVal :=
  match str t "kind" with
  | "int" => .int (int t "n")
  | "bool" => .bool (bool t "b")
  | _ => .strs (strs t "l")

def handler : Handler := fun scn => do
  let op := str scn "op"
  if op == "ptflow" then return ← leakHandler scn
  if op == "claimrec" then return ← claimHandler scn
  if op == "world" then return ← worldHandler scn
  if op == "flow" then return ← flowHandler scn
  let rounds := nat scn "rounds"
  let dest := slotOf (obj scn "dest")
  let src := slotOf (obj scn "src")
  let empty := Json.arr #[]
  -- the environment acts on the first call only (the cache catches up, the concurrent writer acts once)
  let env : Env := { miss := bool scn "miss", swap := bool scn "swap" }
  if op == "publish" then
    let filter := strs scn "filter"
    let details := dataOf scn "details"
    let r0 := if rounds == 0 then none else some (publishE env (bool scn "wants") filter details dest)
    let (rs, fin) := match r0 with
      | none => ([], dest)
      | some r => let (rs', f) := iter (rounds - 1) (publish (bool scn "wants") filter details) r.slot; (r :: rs', f)
    -- model-side monitor: only allowed keys are ever written; identical data is not rewritten
    let ok := rs.all fun r => r.writes == 0 || r.published || r.err
    let out := Json.mkObj [("dest", slotJson fin), ("src", slotJson none),
      ("published", bools (rs.map (·.published))), ("errs", bools (rs.map (·.err))),
      ("writes", Json.arr (rs.map fun r => Json.num r.writes).toArray), ("extracted", empty)]
    return (out, ok, if ok then "" else "C09:model")
  else if op == "propagate" then
    let r0 := if rounds == 0 then none else some (propagateE env (bool scn "fromWants") (bool scn "wants") src dest)
    -- the concurrent writer acts when the first write to the claim's secret is attempted
    let src' := match r0 with
      | some r => if env.swap && r.writes > 0 then swappedSource src else src
      | none => src
    let (rs, fin) := match r0 with
      | none => ([], dest)
      | some r => let (rs', f) := iter (rounds - 1) (propagate (bool scn "fromWants") (bool scn "wants") src') r.slot; (r :: rs', f)
    let src := src'
    let out := Json.mkObj [("dest", slotJson fin), ("src", slotJson src),
      ("published", bools (rs.map (·.published))), ("errs", bools (rs.map (·.err))),
      ("writes", Json.arr (rs.map fun r => Json.num r.writes).toArray), ("extracted", empty)]
    return (out, true, "")
  else
    let fields := dataOf scn "fields"
    let typed := (arr scn "typed").map fun t => (str t "k", fvalOf t)
    -- the fieldpath library (parsing, indexing) is the oracle; what is done with the value is the model's
    let valueAt (p : String) : Option FVal :=
      if p == "metadata.name" then some (.str "cd")
      else if p.startsWith "spec." then
        let k := (p.drop 5).toString
        match dget fields k with
        | some v => some (.str v)
        | none => (typed.find? (·.1 == k)).map (·.2)
      else none
    let fieldAt := fieldReader valueAt
    let cfgs := (arr scn "cfgs").map fun c =>
      (⟨str c "type", str c "name", if str c "key" == "" then none else some (str c "key"),
        if str c "path" == "" then none else some (str c "path"),
        if bool c "hasV" then some (str c "value") else none⟩ : Cfg)
    let r := extract (dataOf scn "connData") fieldAt cfgs []
    let out := Json.mkObj [("dest", slotJson none), ("src", slotJson none), ("published", empty),
      ("errs", bools [r.isNone]), ("writes", empty), ("extracted", dataJson (r.getD []))]
    return (out, true, "")

end Xp.C09

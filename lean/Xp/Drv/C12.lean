import Xp.Base.JsonIO
import Xp.Model.C12
namespace Xp.C12
open Lean (Json)
open Xp.IOx

/-- scenario-level oracle table: what the real code computed for (comp, content index) -/
structure TabRow where
  comp : String
  ci : Nat
  hash : String
  name : String

def labelsOf (j : Json) (k : String) : Labels :=
  (kvs j k).filterMap fun (a, v) => v.getStr?.toOption.map fun s => (a, s)

def contentOf (j : Json) : Content := ⟨labelsOf j "labels", nat j "annos", nat j "spec"⟩

def mkNaming (contents : List Content) (tab : List TabRow) : Naming where
  hash := fun c =>
    match contents.idxOf? c with
    | some i => ((tab.find? (·.ci = i)).map (·.hash)).getD s!"?hash{i}"
    | none => "?hash"
  name := fun comp c =>
    match contents.idxOf? c with
    | some i => ((tab.find? (fun t => t.ci = i ∧ t.comp = comp)).map (·.name)).getD s!"?{comp}-{i}"
    | none => s!"?{comp}"

def planOf (j : Json) : Plan :=
  let fs := (arr j "plan").map fun f => (nat f "k", str f "o")
  fun i => match fs.find? (·.1 = i) with
    | some (_, "fail") => .fail
    | some (_, "conflict") => .conflict
    | some (_, "crashBefore") => .crashBefore
    | some (_, "crashAfter") => .crashAfter
    | _ => .ok

def ctrlStr : Option Nat → String
  | none => "none"
  | some n => s!"uid-{n}"

def revJson (r : Rev) : Json :=
  Json.mkObj [("name", .str r.name), ("comp", .str r.comp), ("hash", .str r.hash), ("num", .num (Lean.JsonNumber.fromNat r.num)),
    ("ctrl", .str (ctrlStr r.ctrl)), ("labels", Json.mkObj (r.labels.map fun (k, v) => (k, Json.str v))),
    ("spec", .num (Lean.JsonNumber.fromNat r.spec))]

def stateJson (res : String) (xrNames : List String) (s : Store) : Json :=
  Json.mkObj [("res", .str res), ("revs", Json.arr (s.revs.map revJson).toArray),
    ("xrefs", Json.arr (xrNames.map fun n => Json.str (((s.xrs.find? (·.name = n)).bind (·.ref)).getD "")).toArray)]

/-- Bool version of the step relation of the theorems: every revision of `a` is
still in `b`, unchanged except for a number that did not decrease and its owner. -/
def leB (a b : Store) : Bool :=
  a.revs.all fun r => b.revs.any fun r' =>
    r'.name = r.name && r'.comp = r.comp && r'.hash = r.hash && r'.spec = r.spec && r'.labels == r.labels && r.num ≤ r'.num

/-- numbers distinct within one composition, names distinct, numbers ≥ 1 -/
def wfB (s : Store) : Bool :=
  s.revs.all fun r => 1 ≤ r.num && (s.revs.filter fun r' => r'.name = r.name).length = 1 &&
    (s.revs.filter fun r' => r'.comp = r.comp && r'.num = r.num).length = 1

def currentHighestB (H : Naming) (s : Store) (comp : String) : Bool :=
  match s.comps.find? (·.name = comp) with
  | none => true
  | some c =>
    if c.deleting then true else
    match s.revs.find? (fun r => r.comp = comp ∧ r.hash = H.hash c.content) with
    | none => false
    | some cur => cur.ctrl = some c.uid && cur.spec = c.content.spec && cur.labels == c.content.labels &&
        s.revs.all fun r => r.name = cur.name || r.comp ≠ comp || r.num < cur.num

def handler : Handler := fun scn =>
  let contents := (arr scn "contents").map contentOf
  let tab := (arr scn "tab").map fun t => (⟨str t "comp", nat t "ci", str t "hash", str t "name"⟩ : TabRow)
  let H := mkNaming contents tab
  -- the mirror of the ordering found in the tree under test (see harness c12Variant)
  let recProg := if str scn "variant" == "unfixed" then reconcileD4 H else reconcile H
  let xrNames := (arr scn "xrs").map (str · "name")
  let comps := (arr scn "comps").filterMap fun c =>
    (contents[nat c "ci"]?).map fun ct => (⟨str c "name", nat c "uid", ct, false⟩ : Comp)
  let xrs := (arr scn "xrs").map fun x => (⟨str x "name", str x "comp", none, none, none⟩ : XR)
  let s0 : Store := ⟨comps, [], xrs⟩
  let step (acc : Store × List Json × Bool × String) (e : Json) : Store × List Json × Bool × String :=
    let (s, outs, okSoFar, why) := acc
    let comp := str e "comp"
    let cur := s.comps.find? (·.name = comp)
    let (s', res, good, w) : Store × String × Bool × String :=
      match str e "op" with
      | "edit" =>
        match cur, contents[nat e "ci"]? with
        | some c, some ct => (envStep s (.putComp { c with content := ct }), "", true, "")
        | _, _ => (s, "", true, "")
      | "restore" =>
        match cur with
        | some c =>
          let s1 := envStep s (.putComp { c with uid := nat e "uid", deleting := false })
          (envStep s1 (.setCtrl ((s1.revs.filter (·.comp = comp)).map (·.name)) none), "", true, "")
        | none => (s, "", true, "")
      | "deleting" =>
        match cur with
        | some c => (envStep s (.putComp { c with deleting := true }), "", true, "")
        | none => (s, "", true, "")
      | "strip" => (envStep s (.setCtrl (strs e "names") none), "", true, "")
      | "foreign" => (envStep s (.setCtrl (strs e "names") (some 999)), "", true, "")
      | "setxr" =>
        match s.xrs.find? (·.name = str e "xr") with
        | some x =>
          let pol := match str e "policy" with | "Manual" => some Policy.manual | "Automatic" => some Policy.automatic | _ => none
          let sel := if has e "sel" then some (labelsOf e "sel") else none
          let ref := match str e "pin" with | "" => x.ref | "-" => none | n => some n
          (envStep s (.putXR { x with policy := pol, selector := sel, ref := ref }), "", true, "")
        | none => (s, "", true, "")
      | "rec" =>
        let (s1, r) := run sem (planOf e) 0 (recProg comp) s
        let res := match r with
          | none => "crashed" | some .done => "ok" | some .created => "created" | some .requeue => "requeue" | some .err => "err"
        let good := !(res == "ok" || res == "created") || currentHighestB H s1 comp
        -- every intermediate store keeps the invariants
        let inter := (reach sem (planOf e) 0 (recProg comp) s).all fun m => leB s m && leB m s1 && wfB m
        (s1, res, good && inter, if good then "C12:model-intermediate" else "C12:model-current-not-highest")
      | "fetch" =>
        let (s1, r) := run sem (planOf e) 0 (fetch (str e "xr")) s
        let res := match r with | none => "crashed" | some (.rev rv) => rv.name | some .err => "err"
        (s1, res, s1.revs == s.revs, "C12:model-fetch-wrote-revisions")
      | _ => (s, "?", true, "")
    let mono := leB s s' && wfB s'
    let ok' := good && mono
    (s', outs ++ [stateJson res xrNames s'], okSoFar && ok',
      if !okSoFar then why else if !good then w else if !mono then "C12:model-not-monotone" else "")
  let (_, outs, ok, why) := (arr scn "events").foldl step (s0, [], true, "")
  .ok (Json.mkObj [("steps", Json.arr outs.toArray)], ok, why)

end Xp.C12

import Xp.Base.JsonIO
import Xp.Model.C12
namespace Xp.C12
open Lean (Json)
open Xp.IOx

/-- scenario-level oracle table: the sha256 digest (`full`) of a hash input (`input`), as the
real `Composition.Hash` computed it. Everything else — the input itself, the 63-character
label, the revision name — is computed by the model. -/
structure TabRow where
  input : String
  full : String

/-- the entries of a JSON object, in key order (the order `yaml.Marshal` writes a map in) -/
def labelsOf (j : Json) (k : String) : Labels :=
  (kvs j k).filterMap fun (a, v) => v.getStr?.toOption.map fun s => (a, s)

def optS (s : String) : Option String := if s = "" then none else some s

def specOf (j : Json) : Spec :=
  { apiVersion := str j "apiVersion", kind := str j "kind", mode := optS (str j "mode"),
    patchSets := strs j "patchSets", resources := strs j "resources",
    pipeline := (arr j "pipeline").map fun p => (str p "step", str p "fn"),
    wcs := optS (str j "wcs"), store := optS (str j "store") }

def noSpec : Spec := ⟨"", "", none, [], [], [], none, none⟩

def contentOf (specs : List Spec) (j : Json) : Content :=
  ⟨labelsOf j "labels", labelsOf j "anno", (specs[nat j "spec"]?).getD noSpec⟩

/-- the shipped YAML of a spec (third-party rendering of the struct) -/
def specYamlOf (specs : List Spec) (yamls : List String) (s : Spec) : String :=
  match specs.idxOf? s with
  | some i => yamls[i]?.getD "?yaml"
  | none => "?yaml"

/-- sha256 as a table keyed by the input the MODEL renders -/
def mkDigest (render : List Tok → String) (tab : List TabRow) : List Tok → String := fun t =>
  ((tab.find? (·.input = render t)).map (·.full)).getD ("?digest:" ++ render t)

/-- the fault of the harness by name: the four outcomes of the shared fault model, the
error classes the code tells apart (`notFound`, `alreadyExists`), and `error` for every
other class (Invalid, Forbidden, server timeout, Temporary() transport error, deadline) -/
def faultOf : String → Fault
  | "conflict" => .out .conflict
  | "crashBefore" => .out .crashBefore
  | "crashAfter" => .out .crashAfter
  | "notFound" => .reply .notFound
  | "alreadyExists" => .reply .alreadyExists
  | "invalid" | "forbidden" | "timeout" | "temporary" | "deadline" => .reply .error
  | _ => .out .fail

def fplanOf (j : Json) : FPlan :=
  let fs := (arr j "plan").map fun f => (nat f "k", str f "o")
  fun i => match fs.find? (·.1 = i) with
    | some (_, o) => faultOf o
    | none => .out .ok

def ctrlStr : Option Nat → String
  | none => "none"
  | some n => s!"uid-{n}"

def revSpecJson (r : RevSpec) : Json :=
  Json.mkObj [("apiVersion", .str r.apiVersion), ("kind", .str r.kind), ("mode", .str (r.mode.getD "")),
    ("patchSets", Json.arr (r.patchSets.map Json.str).toArray), ("resources", Json.arr (r.resources.map Json.str).toArray),
    ("pipeline", Json.arr (r.pipeline.map fun (a, b) => Json.mkObj [("step", .str a), ("fn", .str b)]).toArray),
    ("wcs", .str (r.wcs.getD "")), ("store", .str (r.store.getD "")), ("yaml", .str "")]

def revJson (r : Rev) : Json :=
  Json.mkObj [("name", .str r.name), ("comp", .str r.comp), ("hash", .str r.hash), ("num", .num (Lean.JsonNumber.fromNat r.num)),
    ("ctrl", .str (ctrlStr r.ctrl)), ("labels", Json.mkObj (r.labels.map fun (k, v) => (k, Json.str v))),
    ("spec", revSpecJson r.spec)]

def stateJson (res : String) (xrNames : List String) (enq : List String) (s : Store) : Json :=
  Json.mkObj [("res", .str res), ("revs", Json.arr (s.revs.map revJson).toArray),
    ("xrefs", Json.arr (xrNames.map fun n => Json.str (((s.xrs.find? (·.name = n)).bind (·.ref)).getD "")).toArray),
    ("enq", Json.arr (enq.map Json.str).toArray)]

/-- Bool version of the step relation of the theorems: every revision of `a` is
still in `b`, unchanged except for a number that did not decrease and its owner. -/
def leB (a b : Store) : Bool :=
  a.revs.all fun r => b.revs.any fun r' =>
    r'.name = r.name && r'.comp = r.comp && r'.hash = r.hash && r'.spec = r.spec && r'.labels == r.labels && r.num ≤ r'.num

/-- names distinct, numbers ≥ 1 (what holds under any interference and cache lag) -/
def wf0B (s : Store) : Bool :=
  s.revs.all fun r => 1 ≤ r.num && (s.revs.filter fun r' => r'.name = r.name).length = 1

/-- … and numbers distinct within one composition (single reconciler, fresh lists). `stale`:
the revisions whose number was assigned by a reconcile that had read a lagging revision list
(recorded finding D22) — a tie is attributed to it iff it involves one of them. -/
def numsB (stale : List String) (s : Store) : Bool :=
  s.revs.all fun r => s.revs.all fun r' =>
    r'.name = r.name || r'.comp ≠ r.comp || r'.num ≠ r.num || stale.contains r.name || stale.contains r'.name

def wfB (stale : List String) (s : Store) : Bool := wf0B s && numsB stale s

/-- the revision of content `c` (the Composition as the reconcile read it) exists, is
faithful and has the strictly highest number; `ctrl`: it is controlled by `c` (not claimed
when other clients interfered with the reconcile or the cache lagged) -/
def currentHighestB (H : Naming) (stale : List String) (s : Store) (c : Comp) (ctrl : Bool) : Bool :=
  if c.deleting then true else
  match s.revs.find? (fun r => r.comp = c.name ∧ r.hash = H.hash c.content) with
  | none => false
  | some cur => (!ctrl || cur.ctrl = some c.uid) && cur.spec = toRevisionSpec c.content.spec &&
      -- the labels copied at creation are the content's, or (label<->annotation move, same hash
      -- input: `shift_labels_prefix`) a non-empty prefix of its labels followed by its annotations
      (cur.labels == c.content.labels ||
        (cur.labels != [] && c.content.labels != [] && c.content.annos != [] &&
          cur.labels.isPrefixOf (c.content.labels ++ c.content.annos))) &&
      s.revs.all fun r => r.name = cur.name || r.comp ≠ c.name || r.num < cur.num ||
        stale.contains cur.name || stale.contains r.name

def pairwiseAdj (f : Store → Store → Bool) : List Store → Bool
  | a :: b :: rest => f a b && pairwiseAdj f (b :: rest)
  | _ => true

/-- one action of the environment (top-level event, or between two API calls) -/
def applyOp (contents : List Content) (spec0 : Spec) (s : Store) (e : Json) : Store :=
  let comp := str e "comp"
  let cur := s.comps.find? (·.name = comp)
  match str e "op" with
  | "edit" =>
    match cur, contents[nat e "ci"]? with
    | some c, some ct => envStep s (.putComp { c with content := ct })
    | _, _ => s
  | "restore" =>
    match cur with
    | some c =>
      let s1 := envStep s (.putComp { c with uid := nat e "uid", deleting := false })
      if bool e "keep" then s1
      else envStep s1 (.setCtrl ((s1.revs.filter (·.comp = comp)).map (·.name)) none)
    | none => s
  | "deleting" =>
    match cur with
    | some c => envStep s (.putComp { c with deleting := true })
    | none => s
  | "legacy" =>
    -- a revision written by a version that did not know the composition-hash label yet: named
    -- <composition>-legacy, no hash label, the next free number, controlled by the Composition.
    -- (Not an `Ev`: such a revision is the image of no content, `WF` does not describe it.)
    match cur with
    | some c =>
      let nm := comp ++ "-legacy"
      if s.revs.any (·.name = nm) then s else
      let mx := ((s.revs.filter (·.comp = comp)).map (·.num)).foldl max 0
      { s with revs := insertRev ⟨nm, comp, "", mx + 1, some c.uid, [], toRevisionSpec spec0, 1⟩ s.revs }
    | none => s
  | "strip" => envStep s (.setCtrl (strs e "names") none)
  | "foreign" => envStep s (.setCtrl (strs e "names") (some 999))
  | "setxr" =>
    match s.xrs.find? (·.name = str e "xr") with
    | some x =>
      let pol := match str e "policy" with | "Manual" => some Policy.manual | "Automatic" => some Policy.automatic | _ => none
      let sel := if has e "sel" then some (labelsOf e "sel") else none
      let ref := match str e "pin" with | "" => x.ref | "-" => none | n => some n
      let x' : XR := { x with policy := pol, selector := sel, ref := ref }
      -- an edit that changes nothing does not move the resourceVersion
      if x' = x then s else envStep s (.putXR { x' with rv := x.rv + 1 })
    | none => s
  | _ => s

/-- what other clients do right before API call `k` of the event -/
def envOf (contents : List Content) (spec0 : Spec) (e : Json) : Env Store := fun k s =>
  (arr e "env").foldl (fun s ea => if nat ea "before" = k then (arr ea "acts").foldl (applyOp contents spec0) s else s) s

def hasEnv (e : Json) : Bool := (arr e "env").any fun ea => !(arr ea "acts").isEmpty

/-- the informer cache of the event: `d ≥ 1` = the state at the beginning of the event
`d-1` events back (`snaps[i]` = state at the beginning of event `i`, `i` = this event) -/
def viewOf (e : Json) (snaps : Array Store) (i : Nat) : View :=
  let l := (e.getObjVal? "lag").toOption.getD Json.null
  let at_ (d : Nat) : Option Store := if d = 0 then none else snaps[i - (d - 1)]?
  { revs := (at_ (nat l "revs")).map (·.revs), comps := (at_ (nat l "comps")).map (·.comps), xrs := (at_ (nat l "xrs")).map (·.xrs) }

def lagged (e : Json) : Bool :=
  let l := (e.getObjVal? "lag").toOption.getD Json.null
  nat l "revs" > 0 || nat l "comps" > 0

def revKey (r : Rev) : String × Nat × Option Nat := (r.name, r.num, r.ctrl)

structure Acc where
  s : Store
  outs : List Json
  ok : Bool
  why : String
  snaps : Array Store
  stale : List String

def handler : Handler := fun scn =>
  let specs := (arr scn "specs").map specOf
  let yamls := (arr scn "specs").map (str · "yaml")
  let contents := (arr scn "contents").map (contentOf specs)
  let tab := (arr scn "tab").map fun t => (⟨str t "input", str t "full"⟩ : TabRow)
  let spec0 := specs[0]?.getD noSpec
  let render := renderToks (specYamlOf specs yamls)
  let H := Naming.ofDigest (mkDigest render tab)
  -- the mirror of the ordering found in the tree under test (see harness c12Variant)
  let recProg := if str scn "variant" == "unfixed" then reconcileD4 H else reconcile H
  let xrNames := (arr scn "xrs").map (str · "name")
  let comps := (arr scn "comps").filterMap fun c =>
    (contents[nat c "ci"]?).map fun ct => (⟨str c "name", nat c "uid", ct, false⟩ : Comp)
  let xrs := (arr scn "xrs").map fun x => (⟨str x "name", str x "comp", none, none, none, 0⟩ : XR)
  let s0 : Store := ⟨comps, [], xrs⟩
  let step (acc : Acc) (e : Json) : Acc :=
    let s := acc.s
    let snaps := acc.snaps.push s
    let i := acc.snaps.size
    let comp := str e "comp"
    let env := envOf contents spec0 e
    let plan := fplanOf e
    let v := viewOf e snaps i
    -- the cache catches up right before API call `until` (0 = stays behind)
    let until_ := nat ((e.getObjVal? "lag").toOption.getD Json.null) "until"
    let sm : Nat → Sem Store Req Resp := fun k => if until_ > 0 && k ≥ until_ then semV View.fresh else semV v
    let (s', res, enq, good, w, stale') : Store × String × List String × Bool × String × List String :=
      match str e "op" with
      | "rec" =>
        let (s1, r) := runX sm env plan 0 (recProg comp) s
        let res := match r with
          | none => "crashed" | some .done => "ok" | some .created => "created" | some .requeue => "requeue" | some .err => "err"
        -- the revisions this reconcile created (its own applied `Create`s; other clients may
        -- have created revisions meanwhile)
        let created := (ownX sm env plan 0 (recProg comp) s).filterMap fun x =>
          match x.2 with
          | .createRev r => if x.1.revs.any (·.name = r.name) then none else s1.revs.find? (·.name = r.name)
          | _ => none
        let enq := (created.flatMap (enqueueFor s1.xrs)).eraseDups
        let trace := reachX sm env plan 0 (recProg comp) s
        -- did the cache serve a list that differs from the live revisions of the Composition?
        let sList := env 1 (env 0 s)
        let lagging : Bool := match (if until_ > 0 && 1 ≥ until_ then none else v.revs) with
          | some l => (l.filter (·.comp = comp)).map revKey != (sList.revs.filter (·.comp = comp)).map revKey
          | none => false
        -- revisions whose number this reconcile assigned
        let written := (s1.revs.filter fun r => ((s.revs.find? (·.name = r.name)).map (·.num)) != some r.num).map (·.name)
        let stale' := if lagging then acc.stale ++ written else acc.stale.filter (!written.contains ·)
        -- under any interference, error class and cache lag: nothing deleted or edited, numbers only grow
        let weak := pairwiseAdj leB trace && trace.all wf0B
        -- single reconciler on fresh lists: numbers distinct; the content read has the highest number
        let cRead := match plan 0, ((sm 0).exec (env 0 s) (.getComp comp)).2 with
          | .out .ok, .comp c => some c
          | _, _ => none
        let strong := trace.all (numsB (acc.stale ++ stale')) &&
          (!(res == "ok" || res == "created") || lagging || match cRead with
            | some c => currentHighestB H stale' s1 c (!hasEnv e && !lagged e)
            | none => true)
        (s1, res, enq, weak && strong, if !weak then "C12:model-not-monotone" else "C12:model-current-not-highest", stale')
      | "fetch" =>
        let (s1, r) := runX sm env plan 0 (fetch (str e "xr")) s
        let res := match r with | none => "crashed" | some (.rev rv) => rv.name | some .err => "err"
        let own := ownX sm env plan 0 (fetch (str e "xr")) s
        let noRevWrite := own.all fun x => match x.2 with | .updateRev _ _ | .createRev _ => false | _ => true
        (s1, res, [], noRevWrite, "C12:model-fetch-wrote-revisions", acc.stale)
      | _ => (applyOp contents spec0 s e, "", [], true, "", acc.stale)
    let mono := leB s s' && wfB stale' s'
    let ok' := good && mono
    { s := s', outs := acc.outs ++ [stateJson res xrNames enq s'], ok := acc.ok && ok',
      why := if !acc.ok then acc.why else if !good then w else if !mono then "C12:model-not-monotone" else "",
      snaps := snaps, stale := stale' }
  let fin := (arr scn "events").foldl step { s := s0, outs := [], ok := true, why := "", snaps := #[], stale := [] }
  .ok (Json.mkObj [("inputs", Json.arr (contents.map fun c => Json.str (render (hashToks c))).toArray),
    ("steps", Json.arr fin.outs.toArray)], fin.ok, fin.why)

end Xp.C12

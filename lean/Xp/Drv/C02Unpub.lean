import Xp.Base.JsonIO
import Xp.Model.C02Unpub
/-
Driver of the C02 site "unpub" (harness/main/c02_unpub.go): a deleting claim, the secret its
writeConnectionSecretToRef names, some reconciles. The model: no call is addressed to a secret,
the secret is what it was.
-/
namespace Xp.C02Unpub
open Lean (Json)
open Xp.IOx

def ctrlOf : String → Ctrl
  | "claim" => .claim | "other" => .other | _ => .none
def ctrlStr : Ctrl → String
  | .claim => "claim" | .other => "other" | .none => "none"

def handler : Handler := fun scn => do
  let sj := obj scn "secret"
  let sec : Option Ctrl := if bool sj "present" then some (ctrlOf (str sj "ctrl")) else none
  let c : Claim := ⟨bool scn "wants", bool scn "published"⟩
  let r := unpublishN c (arr scn "rounds").length sec
  let secJ := match r.2 with
    | some k => Json.mkObj [("present", .bool true), ("ctrl", .str (ctrlStr k))]
    | none => Json.mkObj [("present", .bool false), ("ctrl", .str "none")]
  let ok := r.2 == sec
  return (Json.mkObj [("secretCalls", Json.arr (r.1.map Json.str).toArray), ("secret", secJ)], ok,
    if ok then "" else "C02:secret-changed-on-claim-deletion-in-model")

end Xp.C02Unpub

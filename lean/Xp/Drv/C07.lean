import Xp.Base.JsonIO
import Xp.Model.C07
import Xp.Model.C07World
import Xp.Model.C07Upgrade
namespace Xp.C07
open Lean (Json)
open Xp.IOx

def jfields (j : Json) : List (String × Json) :=
  match j with
  | .obj o => o.toList
  | _ => []

def strMap (j : Json) : AL String :=
  (jfields j).filterMap fun (k, v) => v.getStr?.toOption.map fun s => (k, s)

def optJ (j : Json) (k : String) : Option J :=
  match j.getObjVal? k with
  | .ok .null => none
  | .ok v => some (J.ofJson v)
  | _ => none

def kobjOf (j : Json) : KObj :=
  { name := str j "name"
    labels := strMap (obj j "labels")
    annotations := match j.getObjVal? "annotations" with
      | .ok (.obj o) => some (strMap (.obj o))
      | _ => none
    spec := optJ j "spec"
    status := optJ j "status" }

def strMapJson (m : AL String) : Json := Json.mkObj (m.map fun (k, v) => (k, Json.str v))

def optJson : Option J → Json
  | some v => J.toJson v
  | none => Json.null

def kobjJson (o : KObj) : Json :=
  Json.mkObj [("name", .str o.name), ("labels", strMapJson o.labels),
    ("annotations", match o.annotations with | some a => strMapJson a | none => Json.null),
    ("spec", optJson o.spec), ("status", optJson o.status)]

def writeJson : Write → Json
  | .claimUpdate b => Json.mkObj [("t", "claim.update"), ("body", kobjJson b)]
  | .claimStatus b => Json.mkObj [("t", "claim.status"), ("body", kobjJson b)]
  | .xrApply b => Json.mkObj [("t", "xr.apply"), ("body", kobjJson b)]
  | .xrCreate b => Json.mkObj [("t", "xr.create"), ("body", kobjJson b)]
  | .xrPatch b => Json.mkObj [("t", "xr.patch"), ("body", kobjJson b)]

def jAL (j : Json) (k : String) : AL J := (kvs j k).map fun (a, b) => (a, J.ofJson b)

def deltaOf (j : Json) : Delta :=
  { setSpec := jAL j "setSpec", delSpec := strs j "delSpec",
    setStatus := jAL j "setStatus", delStatus := strs j "delStatus",
    setLabels := strMap (obj j "setLabels"), delLabels := strs j "delLabels",
    setAnn := strMap (obj j "setAnn"), delAnn := strs j "delAnn" }

def opOf (j : Json) : Option Op :=
  match str j "op" with
  | "sync" => if str j "syncer" == "ssa" then some (.syncSSA (str j "gen")) else some (.syncCSA (str j "gen"))
  | "editClaim" => some (.editClaim (deltaOf j))
  | "xrCtl" => some (.xrCtl (deltaOf j))
  | "upgrade" => some .upgrade
  -- the upgrader against a throw-away probe object: nothing of the pair changes
  | "upgradeProbe" => some .upgrade
  | _ => none

/-- the world of one sync as the scenario states it -/
structure View where
  lagCm : Nat := 0
  lagXr : Nat := 0
  missXr : Bool := false

def actOf (target : String) (j : Json) : Option Act :=
  match str j "act" with
  | "editClaim" => some (.editClaim (deltaOf j))
  | "xrCtl" => some (.xrCtl (deltaOf j))
  | "deleteXR" => some .deleteXR
  | "createXR" => some (.createXR { kobjOf (obj j "xr") with name := target })
  | _ => none

def worldOf (target : String) (j : Json) : World :=
  let acts := (arr j "acts").filterMap fun a => (actOf target a).map fun x => (nat a "k", x)
  let inj := (arr j "inj").map fun a => (nat a "k", str a "class")
  { acts := fun k => (acts.filter fun p => p.1 == k).map (·.2)
    inj := fun k => (inj.find? fun p => p.1 == k).map (·.2)
    getLive := !(bool j "getCache") }

def viewOf (j : Json) : View := { lagCm := nat j "lagCm", lagXr := nat j "lagXr", missXr := bool j "missXr" }

def isQuietJ (j : Json) : Bool :=
  (arr j "acts").isEmpty && (arr j "inj").isEmpty && nat j "lagCm" == 0 && nat j "lagXr" == 0 && !(bool j "missXr")

def cfg : Cfg := { claimAPIVersion := "example.org/v1", claimKind := "Thing", claimNS := "team-a",
                   xrAPIVersion := "example.org/v1", xrKind := "XThing" }

def isSync : Op → Bool
  | .syncSSA _ => true
  | .syncCSA _ => true
  | _ => false

def isSSA : Op → Bool
  | .syncSSA _ => true
  | _ => false

def xrBody : List Write → Option KObj
  | [] => none
  | .xrApply b :: _ => some b
  | .xrCreate b :: _ => some b
  | .xrPatch b :: _ => some b
  | _ :: r => xrBody r

def oj (a b : Option J) : Bool := oeqv jeqv a b

/-- The partition evaluated on one model sync step ("" = holds). For the client-side
syncer only the clauses that `xr_to_claim_csa_partial` states are evaluated: the
back-flow of XR user/shared spec fields is the recorded finding D10. -/
def checkStep (ssa : Bool) (pre : St) (o : Out) : String :=
  if o.err != "" then "" else
  let cs := pre.cm.specFields
  let post := o.st.cm
  let ps := post.specFields
  -- claim -> XR on the body of the XR write
  let c2x := match xrBody o.writes with
    | none => ""
    | some b =>
      let bs := b.specFields
      if cs.any (fun (k, v) => (owner k == .user || owner k == .shared) && !oj (alookup k bs) (some v)) then "C07:claim-field-not-propagated"
      else if cs.any (fun (k, _) => owner k == .claimOnly && (alookup k bs).isSome) then "C07:claim-only-field-on-xr"
      else if cs.any (fun (k, v) => owner k == .eachSide && oj (alookup k bs) (some v)) then "C07:claim-only-field-on-xr"
      else if ssa && bs.any (fun (k, _) => owner k == .eachSide || k == "resourceRefs") then "C07:ssa-asserts-xr-owned-field"
      else if ssa && b.status.isSome then "C07:ssa-asserts-xr-owned-field"
      else ""
  if c2x != "" then c2x else
  -- XR-owned fields of the stored XR
  let keep := match pre.xr, o.st.xr with
    | some x, some y =>
      if ["resourceRefs", "writeConnectionSecretToRef", "publishConnectionDetailsTo"].any
          (fun k => !oj (alookup k x.specFields) (alookup k y.specFields)) then "C07:xr-owned-field-changed"
      else if !oj x.status y.status then "C07:xr-owned-field-changed"
      else if extName (some x) != "" && extName (some y) != extName (some x) then "C07:external-name-changed"
      else ""
    | _, _ => ""
  if keep != "" then keep else
  -- XR -> claim
  let pst := post.statusFields
  let cst := pre.cm.statusFields
  if !oj (alookup "conditions" pst) (alookup "conditions" cst) then "C07:xr-status-machinery-on-claim"
  else if (alookup "claimConditionTypes" pst).isSome && !oj (alookup "claimConditionTypes" pst) (alookup "claimConditionTypes" cst) then "C07:xr-status-machinery-on-claim"
  else if !ssa && !oj (alookup "connectionDetails" pst) (alookup "connectionDetails" cst) then "C07:xr-status-machinery-on-claim"
  else if ps.any (fun (k, v) => (owner k == .xrOnly || owner k == .eachSide || k == "compositeDeletePolicy") && !oj (alookup k cs) (some v)) then "C07:xr-field-in-claim-spec"
  else if ssa && ps.any (fun (k, v) => (owner k == .user || (owner k == .shared && k != "compositionRef")) && !oj (alookup k cs) (some v)) then "C07:claim-spec-changed"
  else if cs.any (fun (k, _) => (alookup k ps).isNone &&
      !(k == "compositionRevisionRef" && !ssa && policyOf (xrSpecFields o.st.xr) == some "Automatic")) then "C07:claim-spec-changed"
  else ""

/-- the state `lag` operations ago (`hist`: most recent first, never empty) -/
def back (hist : List Srv) (lag : Nat) : Srv :=
  match hist.drop (min lag (hist.length - 1)) with
  | s :: _ => s
  | [] => default

/-- One sync in its world. `hist` = the states after every earlier operation of the pair. -/
def syncW (cfg : Cfg) (ssa : Bool) (gen : String) (j : Json) (hist : List Srv) : OutW :=
  let s := back hist 0
  let v := viewOf j
  let target := match refName s.cm.specFields with
    | some n => if n == "" then gen else n
    | none => gen
  let w := worldOf target j
  let sc := back hist v.lagCm
  let rcm := sc.cm
  let sx := back hist v.lagXr
  let rxr : Option (KObj × Nat) :=
    if v.missXr then none else
    match refName rcm.specFields, sx.xr with
    | some n, some x => if x.name == n then some (x, sx.xrV) else none
    | _, _ => none
  let o := if ssa then syncSSAW cfg gen w rcm sc.cmV (rxr.map (·.1)) s
    else syncCSAW cfg gen w rcm sc.cmV (rxr.map (·.1)) ((rxr.map (·.2)).getD 0) s
  { o with srv := normalizeW (pruneNullsW o.srv) }

def genOf : Op → String
  | .syncSSA g => g
  | .syncCSA g => g
  | _ => ""

/-- op `upgradeProbe`: the managed-fields upgrader against an object listing the managers
`mf`, its only API call failing with the class injected at k = 0 (if any) -/
def probeJson (oj : Json) : Json :=
  let inj := ((arr oj "inj").find? fun a => nat a "k" == 0).map fun a => str a "class"
  let o := upgradeRun true Xp.Gen.fieldOwnerXR (strs oj "mf") inj
  Json.mkObj [("managers", Json.arr (o.managers.map Json.str).toArray), ("calls", Json.num o.calls), ("err", .str o.err)]

def runAll (cfg : Cfg) (hist : List Srv) : List (Op × Json) → List Json → List Json → String → List Json × List Json × String
  | [], acc, pacc, why => (acc.reverse, pacc.reverse, why)
  | (op, oj) :: rest, acc, pacc, why =>
    let s := back hist 0
    if isSync op then
      let o := syncW cfg (isSSA op) (genOf op) oj hist
      let j := Json.mkObj [("err", .str o.err), ("calls", Json.num o.calls), ("writes", Json.arr (o.writes.map writeJson).toArray),
        ("claim", kobjJson o.srv.cm),
        ("xr", match o.srv.xr with | some x => kobjJson x | none => Json.null)]
      -- the model-side verdict is evaluated for syncs in the quiet world
      let w := if why == "" && isQuietJ oj then
          checkStep (isSSA op) s.toSt { st := o.srv.toSt, writes := o.writes, err := o.err } else why
      runAll cfg (o.srv :: hist) rest (j :: acc) pacc w
    else
      let pacc' := if str oj "op" == "upgradeProbe" then probeJson oj :: pacc else pacc
      runAll cfg (stepEnvW s op :: hist) rest acc pacc' why

/-- One claim/XR pair with its history, run on its own: the model of a sync is a
function of that pair's state only. -/
def runPair (j : Json) : Except String (List Json × List Json × String) :=
  let cm := kobjOf (obj j "claim")
  let xr := if has j "xr" then some (kobjOf (obj j "xr")) else none
  let ops := (arr j "ops").filterMap fun o => (opOf o).map fun x => (x, o)
  if ops.length != (arr j "ops").length then .error "unknown op" else
  -- domain of the model: an existing XR is the one the claim's resourceRef names
  let okDom := match xr with
    | some x => refName cm.specFields == some x.name
    | none => true
  if !okDom then .error "claim does not reference the stored XR" else
  -- the claim's namespace (same-named claims of two namespaces are different claims)
  let c := if str j "ns" == "" then cfg else { cfg with claimNS := str j "ns" }
  .ok (runAll c [{ cm := cm, xr := xr, prev := none }] ops [] [] "")

def runPeers : List Json → List Json → String → Except String (List Json × String)
  | [], acc, why => .ok (acc.reverse, why)
  | p :: rest, acc, why =>
    match runPair p with
    | .error e => .error e
    | .ok (steps, probes, w) =>
      runPeers rest (Json.mkObj [("steps", Json.arr steps.toArray), ("probes", Json.arr probes.toArray)] :: acc) (if why == "" then w else why)

/-- The scenario is a main pair plus peer pairs (other claims of the same XRD that the
real run pushes through the SAME long-lived syncer objects, interleaved by `sched`).
The model runs every pair independently and never reads `sched`: the outcome of a sync
must not depend on which other claims the syncer served before. -/
def handler : Handler := fun scn =>
  match runPair scn with
  | .error e => .error e
  | .ok (steps, probes, why) =>
    match runPeers (arr scn "peers") [] why with
    | .error e => .error e
    | .ok (peers, why) =>
      .ok (Json.mkObj [("steps", Json.arr steps.toArray), ("probes", Json.arr probes.toArray), ("peers", Json.arr peers.toArray)], why == "", why)

end Xp.C07
